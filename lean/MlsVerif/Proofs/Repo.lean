/-
Helper lemmas about the prior-epoch repository model `MlsVerif.Repo` (`MlsVerif/Model/Repo.lean`):

* `Consec l a` — the ids of `l` are `a, a+1, …` — and what the two back ends do on such lists
  (`memGet` = keyed lookup, `memUpdate` = `sqlUpdate`, `memTrim` = the SQL `DELETE`, `memMax` = `sqlMax`);
* the repository invariant `Inv`, its preservation by every operation, `Op` / `step` / `run`, `inv_reachable`;
* back-end independence of every operation under `Inv` (`step_withBackend`).

The property theorems are in `MlsVerif/Props/C06.lean`, `C15.lean`, `C19.lean`.
-/
import MlsVerif.Model.Repo

namespace MlsVerif.Repo

/-! ### ids, consecutive ids -/

/-- the epoch ids of a list of records -/
def ids (l : List Rec) : List Nat := l.map (·.1)

@[simp] theorem ids_nil : ids [] = [] := rfl
@[simp] theorem ids_cons (x : Rec) (l : List Rec) : ids (x :: l) = x.1 :: ids l := rfl
@[simp] theorem ids_append (l₁ l₂ : List Rec) : ids (l₁ ++ l₂) = ids l₁ ++ ids l₂ := by simp [ids]
@[simp] theorem length_ids (l : List Rec) : (ids l).length = l.length := by simp [ids]

theorem mem_ids {l : List Rec} {id : Nat} : id ∈ ids l ↔ ∃ x ∈ l, x.1 = id := by simp [ids]

theorem mem_ids_of_mem {l : List Rec} {x : Rec} (h : x ∈ l) : x.1 ∈ ids l := mem_ids.2 ⟨x, h, rfl⟩

/-- the ids of `l` are `a, a+1, …, a + l.length - 1`, in this order -/
def Consec (l : List Rec) (a : Nat) : Prop := ids l = List.range' a l.length

theorem consec_nil (a : Nat) : Consec [] a := rfl

theorem consec_cons {x : Rec} {l : List Rec} {a : Nat} :
    Consec (x :: l) a ↔ x.1 = a ∧ Consec l (a + 1) := by
  simp [Consec, List.range'_succ]

theorem consec_append {l₁ l₂ : List Rec} {a : Nat} :
    Consec (l₁ ++ l₂) a ↔ Consec l₁ a ∧ Consec l₂ (a + l₁.length) := by
  unfold Consec
  rw [ids_append, List.length_append, ← List.range'_append_1]
  constructor
  · intro h
    exact List.append_inj h (by simp)
  · rintro ⟨h₁, h₂⟩
    rw [h₁, h₂]

theorem consec_singleton (x : Rec) : Consec [x] x.1 := by simp [Consec, List.range'_succ]

theorem Consec.mem_ids {l : List Rec} {a : Nat} (h : Consec l a) {id : Nat} :
    id ∈ ids l ↔ a ≤ id ∧ id < a + l.length := by
  rw [h, List.mem_range'_1]

theorem Consec.nodup {l : List Rec} {a : Nat} (h : Consec l a) : (ids l).Nodup := by
  rw [h]; exact List.nodup_range' 1

theorem Consec.getElem? {l : List Rec} {a : Nat} (h : Consec l a) {i : Nat} {x : Rec}
    (hx : l[i]? = some x) : x.1 = a + i := by
  have hi : i < l.length := by
    apply Classical.byContradiction
    intro hn
    rw [List.getElem?_eq_none_iff.2 (Nat.le_of_not_lt hn)] at hx
    cases hx
  have h1 : (ids l)[i]? = some x.1 := by simp [ids, hx]
  rw [h, List.getElem?_range' hi] at h1
  simp at h1
  omega

theorem Consec.head? {l : List Rec} {a : Nat} (h : Consec l a) {x : Rec}
    (hx : l.head? = some x) : x.1 = a := by
  cases l with
  | nil => cases hx
  | cons y t => simp at hx; subst hx; exact (consec_cons.1 h).1

theorem Consec.getLast? {l : List Rec} {a : Nat} (h : Consec l a) {x : Rec}
    (hx : l.getLast? = some x) : x.1 + 1 = a + l.length := by
  have h1 : (ids l).getLast? = some x.1 := by simp [ids, List.getLast?_map, hx]
  rw [h, List.getLast?_range'] at h1
  split at h1
  · cases h1
  · simp at h1; omega

/-- two starts for the same non-empty list agree -/
theorem Consec.start_unique {l : List Rec} {a b : Nat} (ha : Consec l a) (hb : Consec l b)
    (hne : l ≠ []) : a = b := by
  cases l with
  | nil => exact absurd rfl hne
  | cons x t => rw [← (consec_cons.1 ha).1, ← (consec_cons.1 hb).1]

theorem Consec.find?_lt {l : List Rec} {a : Nat} (h : Consec l a) {id : Nat} (hid : id < a) :
    l.find? (·.1 == id) = none := by
  rw [List.find?_eq_none]
  intro x hx
  have := (h.mem_ids (id := x.1)).1 (mem_ids_of_mem hx)
  simp; omega

/-- the keyed lookup is the indexed lookup when ids are consecutive -/
theorem Consec.find?_ge {l : List Rec} {a : Nat} (h : Consec l a) {id : Nat} (hid : a ≤ id) :
    l.find? (·.1 == id) = l[id - a]? := by
  induction l generalizing a with
  | nil => simp
  | cons x t ih =>
    obtain ⟨hx, ht⟩ := consec_cons.1 h
    by_cases he : id = a
    · subst he; simp [hx]
    · have h1 : id - a = (id - (a + 1)) + 1 := by omega
      have h2 : ¬ x.1 = id := by omega
      rw [List.find?_cons_of_neg (by simpa using h2), h1, List.getElem?_cons_succ]
      exact ih ht (by omega)

theorem Consec.find?_ne_none {l : List Rec} {a : Nat} (_h : Consec l a) {id : Nat} :
    l.find? (·.1 == id) ≠ none ↔ id ∈ ids l := by
  rw [Ne, List.find?_eq_none, MlsVerif.Repo.mem_ids]
  simp

/-! ### the in-memory deque against the keyed table -/

/-- the deque's index arithmetic is the keyed lookup — because ids are consecutive -/
theorem memGet_eq_find {d : List Rec} {a : Nat} (h : Consec d a) (id : Nat) :
    memGet d id = d.find? (·.1 == id) := by
  cases d with
  | nil => rfl
  | cons x t =>
    obtain ⟨f, p⟩ := x
    have hf : f = a := (consec_cons.1 h).1
    subst hf
    simp only [memGet]
    split
    · next hlt => exact (h.find?_lt hlt).symm
    · next hge => exact (h.find?_ge (Nat.le_of_not_lt hge)).symm

theorem memGet_eq_sqlGet {d : List Rec} {a : Nat} (h : Consec d a) (id : Nat) :
    memGet d id = sqlGet d id := memGet_eq_find h id

@[simp] theorem ids_sqlUpdate (t : List Rec) (r : Rec) : ids (sqlUpdate t r) = ids t := by
  induction t with
  | nil => rfl
  | cons x t ih =>
    simp only [sqlUpdate, List.map_cons, ids_cons] at ih ⊢
    rw [ih]
    by_cases hx : x.1 = r.1 <;> simp [hx]

@[simp] theorem length_sqlUpdate (t : List Rec) (r : Rec) : (sqlUpdate t r).length = t.length := by
  simp [sqlUpdate]

theorem sqlUpdate_consec {t : List Rec} {a : Nat} (h : Consec t a) (r : Rec) :
    sqlUpdate t r = if a ≤ r.1 ∧ r.1 - a < t.length then t.set (r.1 - a) r else t := by
  induction t generalizing a with
  | nil => simp [sqlUpdate]
  | cons x t ih =>
    obtain ⟨hx, ht⟩ := consec_cons.1 h
    have ih' := ih ht
    simp only [sqlUpdate, List.map_cons] at ih' ⊢
    rw [ih']
    by_cases he : r.1 = a
    · have h1 : ¬ (a + 1 ≤ r.1 ∧ r.1 - (a + 1) < t.length) := by omega
      have h2 : a ≤ r.1 ∧ r.1 - a < (x :: t).length := ⟨by omega, by simp; omega⟩
      have h3 : r.1 - a = 0 := by omega
      rw [if_neg h1, if_pos h2, h3]
      simp [hx, he]
    · by_cases hlt : r.1 < a
      · have h1 : ¬ (a + 1 ≤ r.1 ∧ r.1 - (a + 1) < t.length) := by omega
        have h2 : ¬ (a ≤ r.1 ∧ r.1 - a < (x :: t).length) := by omega
        have h3 : ¬ x.1 = r.1 := by omega
        rw [if_neg h1, if_neg h2]
        simp [h3]
      · have h3 : ¬ x.1 = r.1 := by omega
        have h4 : r.1 - a = (r.1 - (a + 1)) + 1 := by omega
        by_cases hc : r.1 - (a + 1) < t.length
        · have h1 : a + 1 ≤ r.1 ∧ r.1 - (a + 1) < t.length := ⟨by omega, hc⟩
          have h2 : a ≤ r.1 ∧ r.1 - a < (x :: t).length := ⟨by omega, by simp; omega⟩
          rw [if_pos h1, if_pos h2, h4]
          simp [h3]
        · have h1 : ¬ (a + 1 ≤ r.1 ∧ r.1 - (a + 1) < t.length) := fun h => hc h.2
          have h2 : ¬ (a ≤ r.1 ∧ r.1 - a < (x :: t).length) := by simp; omega
          rw [if_neg h1, if_neg h2]
          simp [h3]

/-- `update_epoch` of the deque is the SQL `UPDATE … WHERE epoch_id = ?` when ids are consecutive -/
theorem memUpdate_eq_sqlUpdate {d : List Rec} {a : Nat} (h : Consec d a) (r : Rec) :
    memUpdate d r = sqlUpdate d r := by
  rw [sqlUpdate_consec h]
  cases d with
  | nil => simp [memUpdate]
  | cons x t =>
    obtain ⟨f, p⟩ := x
    have hf : f = a := (consec_cons.1 h).1
    subst hf
    simp only [memUpdate]
    by_cases h1 : r.1 < f
    · have : ¬ (f ≤ r.1 ∧ r.1 - f < ((f, p) :: t).length) := by omega
      rw [if_pos h1, if_neg this]
    · rw [if_neg h1]
      by_cases h2 : r.1 - f < ((f, p) :: t).length
      · rw [if_pos h2, if_pos ⟨by omega, h2⟩]
      · rw [if_neg h2, if_neg (fun h => h2 h.2)]

theorem consec_sqlUpdate {t : List Rec} {a : Nat} (h : Consec t a) (r : Rec) :
    Consec (sqlUpdate t r) a := by
  unfold Consec at h ⊢
  rw [ids_sqlUpdate, length_sqlUpdate, h]

theorem ids_foldl_sqlUpdate (us t : List Rec) : ids (us.foldl sqlUpdate t) = ids t := by
  induction us generalizing t with
  | nil => rfl
  | cons u us ih => rw [List.foldl_cons, ih, ids_sqlUpdate]

theorem length_foldl_sqlUpdate (us t : List Rec) : (us.foldl sqlUpdate t).length = t.length := by
  rw [← length_ids, ids_foldl_sqlUpdate, length_ids]

theorem consec_foldl_sqlUpdate {t : List Rec} {a : Nat} (h : Consec t a) (us : List Rec) :
    Consec (us.foldl sqlUpdate t) a := by
  unfold Consec at h ⊢
  rw [ids_foldl_sqlUpdate, length_foldl_sqlUpdate, h]

theorem foldl_memUpdate_eq {d : List Rec} {a : Nat} (h : Consec d a) (us : List Rec) :
    us.foldl memUpdate d = us.foldl sqlUpdate d := by
  induction us generalizing d with
  | nil => rfl
  | cons u us ih =>
    rw [List.foldl_cons, List.foldl_cons, memUpdate_eq_sqlUpdate h]
    exact ih (consec_sqlUpdate h u)

theorem length_memTrim (d : List Rec) (ret : Nat) : (memTrim d ret).length = min d.length ret := by
  simp [memTrim]; omega

theorem consec_memTrim {d : List Rec} {a : Nat} (h : Consec d a) (ret : Nat) :
    Consec (memTrim d ret) (a + (d.length - ret)) := by
  unfold Consec at h ⊢
  simp only [memTrim, ids, List.map_drop, List.length_drop]
  rw [show List.map (·.1) d = ids d from rfl, h, List.drop_range']
  simp

theorem memTrim_of_le {d : List Rec} {ret : Nat} (h : d.length ≤ ret) : memTrim d ret = d := by
  simp [memTrim, Nat.sub_eq_zero_of_le h]

/-- the SQL `DELETE … WHERE epoch_id <= m - ret` is `trim_epochs` when ids are consecutive and `m` is
the newest id -/
theorem filter_eq_memTrim {d : List Rec} {a : Nat} (h : Consec d a) {m ret : Nat}
    (hm : m + 1 = a + d.length) (hret : ret ≤ m) :
    (d.filter fun x => !(decide (x.1 ≤ m - ret))) = memTrim d ret := by
  induction d generalizing a with
  | nil => simp [memTrim]
  | cons x t ih =>
    obtain ⟨hx, ht⟩ := consec_cons.1 h
    simp only [List.length_cons] at hm
    by_cases hk : x.1 ≤ m - ret
    · -- the head is deleted; so is it by the trim (the deque is longer than `ret`)
      have hlen : ret ≤ t.length := by omega
      have h1 : (x :: t).length - ret = (t.length - ret) + 1 := by simp; omega
      rw [List.filter_cons_of_neg (by simpa using hk), ih ht (by omega)]
      simp only [memTrim]
      rw [h1, List.drop_succ_cons]
    · -- nothing is deleted from here on
      have h1 : (x :: t).length - ret = 0 := by simp; omega
      simp only [memTrim]
      rw [h1, List.drop_zero, List.filter_eq_self]
      intro y hy
      have hy' : y ∈ x :: t := hy
      have := (h.mem_ids (id := y.1)).1 (mem_ids_of_mem hy')
      simp; omega

theorem memMax_consec {d : List Rec} {a : Nat} (h : Consec d a) :
    memMax d = if d = [] then none else some (a + d.length - 1) := by
  unfold memMax
  cases hl : d.getLast? with
  | none =>
    have : d = [] := List.getLast?_eq_none_iff.1 hl
    simp [this]
  | some x =>
    have hne : d ≠ [] := by intro h0; rw [h0] at hl; cases hl
    have := h.getLast? hl
    simp [hne]; omega

theorem sqlMax_foldl (l : List Nat) (o : Option Nat) :
    l.foldl (fun a x => some (max (a.getD 0) x)) o
      = if l = [] then o else some (l.foldl max (o.getD 0)) := by
  induction l generalizing o with
  | nil => rfl
  | cons x t ih =>
    rw [List.foldl_cons, ih]
    by_cases ht : t = []
    · simp [ht]
    · simp [ht]

theorem foldl_max_range' (a n m : Nat) : (List.range' a n).foldl max m = if n = 0 then m else max m (a + n - 1) := by
  induction n generalizing a m with
  | zero => rfl
  | succ n ih =>
    rw [List.range'_succ, List.foldl_cons, ih]
    by_cases hn : n = 0
    · simp [hn]
    · simp [hn]

theorem sqlMax_consec {d : List Rec} {a : Nat} (h : Consec d a) :
    sqlMax d = if d = [] then none else some (a + d.length - 1) := by
  unfold sqlMax
  rw [show List.map (·.1) d = ids d from rfl, h, sqlMax_foldl, foldl_max_range']
  cases d with
  | nil => simp
  | cons x t => simp

theorem memMax_eq_sqlMax {d : List Rec} {a : Nat} (h : Consec d a) : memMax d = sqlMax d := by
  rw [memMax_consec h, sqlMax_consec h]

/-! ### what a storage write does when the ids are consecutive -/

theorem memWrite_eq (d : List Rec) (ret : Nat) (ins ups : List Rec) {a : Nat} (h : Consec (d ++ ins) a) :
    memWrite d ret ins ups = memTrim (ups.foldl sqlUpdate (d ++ ins)) ret := by
  rw [memWrite, foldl_memUpdate_eq h]

theorem consec_memWrite {d ins : List Rec} {a : Nat} (h : Consec (d ++ ins) a) (ret : Nat) (ups : List Rec) :
    Consec (memWrite d ret ins ups) (a + ((d ++ ins).length - ret)) := by
  rw [memWrite_eq d ret ins ups h]
  have := consec_memTrim (consec_foldl_sqlUpdate h ups) ret
  rwa [length_foldl_sqlUpdate] at this

theorem length_memWrite {d ins : List Rec} {a : Nat} (h : Consec (d ++ ins) a) (ret : Nat) (ups : List Rec) :
    (memWrite d ret ins ups).length = min (d ++ ins).length ret := by
  rw [memWrite_eq d ret ins ups h, length_memTrim, length_foldl_sqlUpdate]

/-- under the invariant's hypotheses the SQL transaction never fails and stores exactly what the in-memory
store stores (the deque trims on every write, SQLite only when there are inserts: no difference, because
the table never holds more than `ret` rows) -/
theorem sqlWrite_eq_memWrite {t ins : List Rec} {a : Nat} (h : Consec (t ++ ins) a) {ret : Nat}
    (hlen : t.length ≤ ret) (ups : List Rec) :
    sqlWrite t ret ins ups = some (memWrite t ret ins ups) := by
  have hnd : (ids t ++ ids ins).Nodup := by rw [← ids_append]; exact h.nodup
  obtain ⟨_, hnd2, hdisj⟩ := List.nodup_append.1 hnd
  have hc : (ins.any (fun r => t.any (·.1 == r.1)) || !decide ((ins.map (·.1)).Nodup)) = false := by
    rw [Bool.or_eq_false_iff]
    constructor
    · rw [List.any_eq_false]
      intro x hx
      rw [Bool.not_eq_true, List.any_eq_false]
      intro y hy
      have := hdisj y.1 (mem_ids_of_mem hy) x.1 (mem_ids_of_mem hx)
      simpa using this
    · have : (ins.map (·.1)).Nodup := hnd2
      simp [this]
  rw [memWrite_eq t ret ins ups h]
  have hc1 := consec_foldl_sqlUpdate h ups
  have hl1 := length_foldl_sqlUpdate ups (t ++ ins)
  unfold sqlWrite
  rw [if_neg (by rw [hc]; simp)]
  simp only []
  cases hl : ins.getLast? with
  | none =>
    have hi : ins = [] := List.getLast?_eq_none_iff.1 hl
    simp only []
    rw [memTrim_of_le]
    rw [hl1, hi]; simpa using hlen
  | some x =>
    obtain ⟨m, p⟩ := x
    have hlast : (t ++ ins).getLast? = some (m, p) := by rw [List.getLast?_append, hl]; rfl
    have hm : m + 1 = a + (t ++ ins).length := h.getLast? hlast
    simp only []
    split
    · next hge => rw [filter_eq_memTrim hc1 (by rw [hl1]; exact hm) hge]
    · next hlt => rw [memTrim_of_le (by rw [hl1]; omega)]

/-! ### the repository invariant -/

/-- The invariant of the repository: the retention limit is positive; the stored ids followed by the
pending ids are consecutive increasing (so each of the two lists is, and the first pending id is the last
stored id + 1 when both are non-empty); at most `ret` epochs are stored; every cached update is the record of
a stored id, and the cache holds each id once.  `inv_iff` spells this out. -/
structure Inv (r : Repo) : Prop where
  ret_pos : 1 ≤ r.ret
  consec : ∃ a, Consec (r.stored ++ r.inserts) a
  stored_len : r.stored.length ≤ r.ret
  upd_stored : ∀ x ∈ r.updates, x.1 ∈ ids r.stored
  upd_nodup : (ids r.updates).Nodup

theorem Inv.both {r : Repo} (h : Inv r) :
    ∃ a, Consec r.stored a ∧ Consec r.inserts (a + r.stored.length) :=
  let ⟨a, ha⟩ := h.consec; ⟨a, consec_append.1 ha⟩

theorem Inv.stored_consec {r : Repo} (h : Inv r) : ∃ a, Consec r.stored a :=
  let ⟨a, ha, _⟩ := h.both; ⟨a, ha⟩

theorem Inv.inserts_consec {r : Repo} (h : Inv r) : ∃ b, Consec r.inserts b :=
  let ⟨a, _, hb⟩ := h.both; ⟨a + r.stored.length, hb⟩

/-- the invariant, spelled out on the three lists -/
theorem inv_iff (r : Repo) :
    Inv r ↔
      1 ≤ r.ret ∧
      (∃ a, r.stored.map (·.1) = List.range' a r.stored.length) ∧
      r.stored.length ≤ r.ret ∧
      (∃ b, r.inserts.map (·.1) = List.range' b r.inserts.length) ∧
      (∀ s p, r.stored.getLast? = some s → r.inserts.head? = some p → p.1 = s.1 + 1) ∧
      (∀ x ∈ r.updates, x.1 ∈ r.stored.map (·.1)) ∧
      (r.updates.map (·.1)).Nodup := by
  constructor
  · intro h
    obtain ⟨a, ha, hb⟩ := h.both
    refine ⟨h.ret_pos, ⟨a, ha⟩, h.stored_len, ⟨_, hb⟩, ?_, h.upd_stored, h.upd_nodup⟩
    intro s p hs hp
    have h1 := ha.getLast? hs
    have h2 := hb.head? hp
    omega
  · rintro ⟨h1, ⟨a, ha⟩, h3, ⟨b, hb⟩, h5, h6, h7⟩
    refine ⟨h1, ?_, h3, h6, h7⟩
    cases hs : r.stored.getLast? with
    | none =>
      have : r.stored = [] := List.getLast?_eq_none_iff.1 hs
      exact ⟨b, by rw [this]; exact hb⟩
    | some s =>
      cases hp : r.inserts.head? with
      | none =>
        have : r.inserts = [] := List.head?_eq_none_iff.1 hp
        exact ⟨a, by rw [this, List.append_nil]; exact ha⟩
      | some p =>
        refine ⟨a, consec_append.2 ⟨ha, ?_⟩⟩
        have e1 : s.1 + 1 = a + r.stored.length := Consec.getLast? ha hs
        have e2 : p.1 = b := Consec.head? hb hp
        have e3 := h5 s p hs hp
        have : b = a + r.stored.length := by omega
        rw [← this]; exact hb

theorem inv_empty (b : Backend) (ret : Nat) (h : 1 ≤ ret) : Inv { backend := b, ret := ret } :=
  ⟨h, ⟨0, consec_nil 0⟩, Nat.zero_le _, (fun _ hx => by cases hx), List.nodup_nil⟩

/-! ### back-end independent descriptions of the operations, under the invariant -/

theorem storedGet_eq_find {r : Repo} (h : Inv r) (id : Nat) :
    r.storedGet id = r.stored.find? (·.1 == id) := by
  obtain ⟨a, ha⟩ := h.stored_consec
  unfold Repo.storedGet
  cases r.backend
  · exact memGet_eq_find ha id
  · rfl

theorem storedMax_eq_memMax {r : Repo} (h : Inv r) : r.storedMax = memMax r.stored := by
  obtain ⟨a, ha⟩ := h.stored_consec
  unfold Repo.storedMax
  cases r.backend
  · rfl
  · exact (memMax_eq_sqlMax ha).symm

/-- the newest known id is the id of the last record of `stored ++ inserts` -/
theorem findMaxId_eq_memMax {r : Repo} (h : Inv r) : r.findMaxId = memMax (r.stored ++ r.inserts) := by
  unfold Repo.findMaxId
  cases hl : r.inserts.getLast? with
  | none =>
    have : r.inserts = [] := List.getLast?_eq_none_iff.1 hl
    simp only []
    rw [this, List.append_nil]
    exact storedMax_eq_memMax h
  | some x =>
    simp only [memMax, List.getLast?_append, hl]
    rfl

theorem findMaxId_eq {r : Repo} (h : Inv r) {a : Nat} (ha : Consec (r.stored ++ r.inserts) a) :
    r.findMaxId = if r.stored ++ r.inserts = [] then none
      else some (a + (r.stored ++ r.inserts).length - 1) := by
  rw [findMaxId_eq_memMax h, memMax_consec ha]

/-- what the storage write returns (`none`: the SQL transaction failed) -/
def Repo.storageWrite (r : Repo) : Option (List Rec) :=
  match r.backend with
  | .mem => some (memWrite r.stored r.ret r.inserts r.updates)
  | .sql => sqlWrite r.stored r.ret r.inserts r.updates

theorem write_eq (r : Repo) (fw fk : Bool) :
    r.write fw fk =
      if fw then (.error .storage, r)
      else match r.storageWrite with
        | none => (.error .storage, r)
        | some s =>
          if fk then (.error .storage, { r with stored := s, inserts := [], updates := [] })
          else (.ok (), { r with stored := s, inserts := [], updates := [] }) := rfl

theorem storageWrite_eq {r : Repo} (h : Inv r) :
    r.storageWrite = some (memWrite r.stored r.ret r.inserts r.updates) := by
  obtain ⟨a, ha⟩ := h.consec
  unfold Repo.storageWrite
  cases r.backend
  · rfl
  · exact sqlWrite_eq_memWrite ha h.stored_len r.updates

/-- the repository after a storage write that was reached -/
def Repo.written (r : Repo) : Repo :=
  { r with stored := memWrite r.stored r.ret r.inserts r.updates, inserts := [], updates := [] }

/-- `write_to_storage` under the invariant, for both back ends -/
theorem write_of_inv {r : Repo} (h : Inv r) (fw fk : Bool) :
    r.write fw fk =
      if fw then (.error .storage, r)
      else if fk then (.error .storage, r.written) else (.ok (), r.written) := by
  rw [write_eq, storageWrite_eq h]
  rfl

/-- the lookup below the pending inserts: the update cache, then storage (which fills the cache) -/
def Repo.getStored (r : Repo) (id : Nat) : Option Rec × Repo :=
  match r.updates.find? (·.1 == id) with
  | some x => (some x, r)
  | none => match r.storedGet id with
    | some x => (some x, { r with updates := r.updates ++ [x] })
    | none => (none, r)

theorem getEpoch_eq (r : Repo) (id : Nat) :
    r.getEpoch id = match r.inserts with
      | (min, _) :: _ => if id ≥ min then (r.inserts[id - min]?, r) else r.getStored id
      | [] => r.getStored id := by
  unfold Repo.getEpoch Repo.getStored
  cases r.inserts <;> rfl

theorem insert_eq (r : Repo) (rec : Rec) :
    r.insert rec =
      if ∀ m, r.findMaxId = some m → rec.1 = m + 1 then .ok { r with inserts := r.inserts ++ [rec] }
      else .error .invalidEpoch := by
  unfold Repo.insert
  cases r.findMaxId with
  | none => simp
  | some m =>
    by_cases hm : rec.1 = m + 1
    · simp [hm]
    · simp [hm]

/-! ### the invariant is preserved -/

theorem inv_insert {r r' : Repo} {rec : Rec} (h : Inv r) (hok : r.insert rec = .ok r') : Inv r' := by
  rw [insert_eq] at hok
  split at hok
  · next hm =>
    cases hok
    obtain ⟨a, ha⟩ := h.consec
    refine ⟨h.ret_pos, ?_, h.stored_len, h.upd_stored, h.upd_nodup⟩
    show ∃ a, Consec (r.stored ++ (r.inserts ++ [rec])) a
    rw [← List.append_assoc]
    rw [findMaxId_eq h ha] at hm
    by_cases he : r.stored ++ r.inserts = []
    · rw [he]; exact ⟨rec.1, consec_singleton rec⟩
    · refine ⟨a, consec_append.2 ⟨ha, ?_⟩⟩
      have h1 := hm _ (if_neg he)
      have h2 : 0 < (r.stored ++ r.inserts).length := List.length_pos_iff.2 he
      have h3 : rec.1 = a + (r.stored ++ r.inserts).length := by omega
      rw [← h3]; exact consec_singleton rec
  · cases hok

theorem storedGet_some {r : Repo} (h : Inv r) {id : Nat} {x : Rec} (hx : r.storedGet id = some x) :
    x ∈ r.stored ∧ x.1 = id := by
  rw [storedGet_eq_find h] at hx
  exact ⟨List.mem_of_find?_eq_some hx, by simpa using List.find?_some hx⟩

theorem inv_getStored {r : Repo} (h : Inv r) (id : Nat) : Inv (r.getStored id).2 := by
  unfold Repo.getStored
  cases hu : r.updates.find? (·.1 == id) with
  | some x => exact h
  | none =>
    cases hs : r.storedGet id with
    | none => exact h
    | some x =>
      obtain ⟨hmem, hid⟩ := storedGet_some h hs
      refine ⟨h.ret_pos, h.consec, h.stored_len, ?_, ?_⟩
      · intro y hy
        rcases List.mem_append.1 hy with hy | hy
        · exact h.upd_stored y hy
        · rw [List.mem_singleton.1 hy]; exact mem_ids_of_mem hmem
      · show (ids (r.updates ++ [x])).Nodup
        rw [ids_append, List.nodup_append]
        refine ⟨h.upd_nodup, by simp, ?_⟩
        intro i hi j hj
        simp only [ids_cons, ids_nil, List.mem_singleton] at hj
        obtain ⟨y, hy, hyi⟩ := mem_ids.1 hi
        have := List.find?_eq_none.1 hu y hy
        intro hij
        apply this
        simp; omega

theorem inv_getEpoch {r : Repo} (h : Inv r) (id : Nat) : Inv (r.getEpoch id).2 := by
  rw [getEpoch_eq]
  split
  · split
    · exact h
    · exact inv_getStored h id
  · exact inv_getStored h id

theorem inv_written {r : Repo} (h : Inv r) : Inv r.written := by
  obtain ⟨a, ha⟩ := h.consec
  refine ⟨h.ret_pos, ⟨a + ((r.stored ++ r.inserts).length - r.ret), ?_⟩, ?_, (fun _ hx => by cases hx),
    List.nodup_nil⟩
  · show Consec (memWrite r.stored r.ret r.inserts r.updates ++ []) _
    rw [List.append_nil]; exact consec_memWrite ha r.ret r.updates
  · show (memWrite r.stored r.ret r.inserts r.updates).length ≤ r.ret
    rw [length_memWrite ha]; exact Nat.min_le_right _ _

theorem inv_write {r : Repo} (h : Inv r) (fw fk : Bool) : Inv (r.write fw fk).2 := by
  rw [write_of_inv h]
  cases fw <;> cases fk <;> first | exact h | exact inv_written h

theorem inv_reload {r : Repo} (h : Inv r) : Inv r.reload := by
  obtain ⟨a, ha⟩ := h.stored_consec
  exact ⟨h.ret_pos, ⟨a, by show Consec (r.stored ++ []) a; rw [List.append_nil]; exact ha⟩, h.stored_len,
    (fun _ hx => by cases hx), List.nodup_nil⟩

/-! ### facts used by the property theorems -/

theorem memWrite_nil {d : List Rec} {ret : Nat} (h : d.length ≤ ret) : memWrite d ret [] [] = d := by
  simp [memWrite, memTrim_of_le h]

/-- a fault-free write -/
theorem write_ok {r : Repo} (h : Inv r) : r.write false false = (.ok (), r.written) := by
  rw [write_of_inv h]; rfl

/-- writing again with nothing pending changes nothing -/
theorem written_idem {r : Repo} (h : Inv r) : r.written.written = r.written := by
  have := memWrite_nil (inv_written h).stored_len
  simp only [Repo.written] at this ⊢
  rw [this]

/-- the oldest id the repository knows of (stored or pending) -/
def Repo.oldestId (r : Repo) : Option Nat := (r.stored ++ r.inserts).head?.map (·.1)

/-- `findMaxId = some W` and `oldestId = some L` say: the known ids are `L, …, W` -/
theorem known_ids {r : Repo} (h : Inv r) {W L : Nat} (hW : r.findMaxId = some W) (hL : r.oldestId = some L) :
    Consec (r.stored ++ r.inserts) L ∧ W + 1 = L + (r.stored ++ r.inserts).length := by
  obtain ⟨a, ha⟩ := h.consec
  rw [findMaxId_eq h ha] at hW
  unfold Repo.oldestId at hL
  cases hh : (r.stored ++ r.inserts).head? with
  | none => rw [hh] at hL; cases hL
  | some x =>
    rw [hh] at hL
    have hx : x.1 = L := by simpa using hL
    have hLa : L = a := by rw [← hx]; exact ha.head? hh
    subst hLa
    refine ⟨ha, ?_⟩
    split at hW
    · cases hW
    · next hne =>
      have : 0 < (r.stored ++ r.inserts).length := List.length_pos_iff.2 hne
      simp only [Option.some.injEq] at hW
      omega

theorem findMaxId_none {r : Repo} (h : Inv r) (hW : r.findMaxId = none) :
    r.stored = [] ∧ r.inserts = [] := by
  obtain ⟨a, ha⟩ := h.consec
  rw [findMaxId_eq h ha] at hW
  split at hW
  · next he => exact List.append_eq_nil_iff.1 he
  · cases hW

/-- the ids stored by a write that reached storage: the newest `ret` of the known ids -/
theorem mem_ids_written {r : Repo} (h : Inv r) {W L : Nat} (hW : r.findMaxId = some W)
    (hL : r.oldestId = some L) (id : Nat) :
    id ∈ ids r.written.stored ↔ max L (W + 1 - r.ret) ≤ id ∧ id ≤ W := by
  obtain ⟨hc, hlen⟩ := known_ids h hW hL
  have h1 := consec_memWrite hc r.ret r.updates
  have h2 := length_memWrite hc r.ret r.updates
  show id ∈ ids (memWrite r.stored r.ret r.inserts r.updates) ↔ _
  rw [h1.mem_ids, h2]
  omega

theorem getStored_fst_ne_none_iff {r : Repo} (h : Inv r) (id : Nat) :
    (r.getStored id).1 ≠ none ↔ id ∈ ids r.stored := by
  obtain ⟨a, ha⟩ := h.stored_consec
  unfold Repo.getStored
  cases hu : r.updates.find? (·.1 == id) with
  | some x =>
    have hx : x.1 = id := by simpa using List.find?_some hu
    have := h.upd_stored x (List.mem_of_find?_eq_some hu)
    rw [hx] at this
    simp [this]
  | none =>
    simp only []
    rw [← ha.find?_ne_none, ← storedGet_eq_find h]
    cases r.storedGet id <;> simp

theorem getStored_fst_some {r : Repo} (h : Inv r) {id : Nat} {x : Rec} (hx : (r.getStored id).1 = some x) :
    x.1 = id := by
  unfold Repo.getStored at hx
  cases hu : r.updates.find? (·.1 == id) with
  | some y =>
    rw [hu] at hx
    simp only [Option.some.injEq] at hx
    subst hx
    simpa using List.find?_some hu
  | none =>
    rw [hu] at hx
    simp only [] at hx
    cases hs : r.storedGet id with
    | none => rw [hs] at hx; cases hx
    | some y =>
      rw [hs] at hx
      simp only [Option.some.injEq] at hx
      subst hx
      exact (storedGet_some h hs).2

instance : DecidableEq (Except Err Unit) := fun a b =>
  match a, b with
  | .ok (), .ok () => isTrue rfl
  | .error e, .error e' =>
    if h : e = e' then isTrue (by rw [h]) else isFalse (fun h' => h (Except.error.inj h'))
  | .ok (), .error _ => isFalse (fun h => by cases h)
  | .error _, .ok () => isFalse (fun h => by cases h)

/-! ### operations, observations, runs -/

inductive Op
  | insert (rec : Rec)
  | get (id : Nat)
  | write (fw fk : Bool)
  | reload
  deriving DecidableEq, Repr

/-- what the caller sees of one operation (`none` = ok for `insert` / `write`) -/
inductive Res
  | insert (err : Option Err)
  | get (rec : Option Rec)
  | write (err : Option Err)
  | reload
  deriving DecidableEq, Repr

/-- an observation: the operation's result, and afterwards the storage's `max_epoch_id` and stored ids -/
structure Obs where
  res : Res
  storedMax : Option Nat
  storedIds : List Nat
  deriving DecidableEq, Repr

def errOf {α : Type} : Except Err α → Option Err
  | .ok _ => none
  | .error e => some e

/-- one operation: the caller-visible result and the repository afterwards (a rejected `insert` leaves
the repository as it was) -/
def stepRes (r : Repo) : Op → Res × Repo
  | .insert rec =>
    match r.insert rec with
    | .ok r' => (.insert none, r')
    | .error e => (.insert (some e), r)
  | .get id => (.get (r.getEpoch id).1, (r.getEpoch id).2)
  | .write fw fk => (.write (errOf (r.write fw fk).1), (r.write fw fk).2)
  | .reload => (.reload, r.reload)

def step (r : Repo) (op : Op) : Obs × Repo :=
  (⟨(stepRes r op).1, (stepRes r op).2.storedMax, ids (stepRes r op).2.stored⟩, (stepRes r op).2)

/-- run a list of operations: the final repository and the observations -/
def run : List Op → Repo → Repo × List Obs
  | [], r => (r, [])
  | op :: ops, r => ((run ops (step r op).2).1, (step r op).1 :: (run ops (step r op).2).2)

@[simp] theorem run_nil (r : Repo) : run [] r = (r, []) := rfl

@[simp] theorem run_cons (op : Op) (ops : List Op) (r : Repo) :
    run (op :: ops) r = ((run ops (step r op).2).1, (step r op).1 :: (run ops (step r op).2).2) := rfl

theorem run_append (ops₁ ops₂ : List Op) (r : Repo) :
    run (ops₁ ++ ops₂) r =
      ((run ops₂ (run ops₁ r).1).1, (run ops₁ r).2 ++ (run ops₂ (run ops₁ r).1).2) := by
  induction ops₁ generalizing r with
  | nil => rfl
  | cons op ops ih => simp [ih]

theorem inv_stepRes {r : Repo} (h : Inv r) (op : Op) : Inv (stepRes r op).2 := by
  cases op with
  | insert rec =>
    simp only [stepRes]
    cases hi : r.insert rec with
    | ok r' => exact inv_insert h hi
    | error e => exact h
  | get id => exact inv_getEpoch h id
  | write fw fk => exact inv_write h fw fk
  | reload => exact inv_reload h

theorem inv_step {r : Repo} (h : Inv r) (op : Op) : Inv (step r op).2 := inv_stepRes h op

theorem inv_run {r : Repo} (h : Inv r) (ops : List Op) : Inv (run ops r).1 := by
  induction ops generalizing r with
  | nil => exact h
  | cons op ops ih => exact ih (inv_step h op)

/-- the invariant holds in every repository reachable from an empty one with a positive retention limit -/
theorem inv_reachable (b : Backend) (ret : Nat) (hret : 1 ≤ ret) (ops : List Op) :
    Inv (run ops { backend := b, ret := ret }).1 :=
  inv_run (inv_empty b ret hret) ops

/-! ### under the invariant the back end makes no difference -/

def Repo.withBackend (r : Repo) (b : Backend) : Repo := { r with backend := b }

theorem Inv.withBackend {r : Repo} (h : Inv r) (b : Backend) : Inv (r.withBackend b) :=
  ⟨h.ret_pos, h.consec, h.stored_len, h.upd_stored, h.upd_nodup⟩

theorem storedGet_withBackend {r : Repo} (h : Inv r) (b : Backend) (id : Nat) :
    (r.withBackend b).storedGet id = r.storedGet id := by
  rw [storedGet_eq_find h, storedGet_eq_find (h.withBackend b)]; rfl

theorem storedMax_withBackend {r : Repo} (h : Inv r) (b : Backend) :
    (r.withBackend b).storedMax = r.storedMax := by
  rw [storedMax_eq_memMax h, storedMax_eq_memMax (h.withBackend b)]; rfl

theorem findMaxId_withBackend {r : Repo} (h : Inv r) (b : Backend) :
    (r.withBackend b).findMaxId = r.findMaxId := by
  rw [findMaxId_eq_memMax h, findMaxId_eq_memMax (h.withBackend b)]; rfl

theorem getStored_withBackend {r : Repo} (h : Inv r) (b : Backend) (id : Nat) :
    (r.withBackend b).getStored id = ((r.getStored id).1, (r.getStored id).2.withBackend b) := by
  unfold Repo.getStored
  rw [storedGet_withBackend h]
  show (match r.updates.find? (·.1 == id) with
    | some x => (some x, r.withBackend b)
    | none => match r.storedGet id with
      | some x => (some x, { r.withBackend b with updates := r.updates ++ [x] })
      | none => (none, r.withBackend b)) = _
  cases r.updates.find? (·.1 == id) with
  | some x => rfl
  | none => cases r.storedGet id <;> rfl

theorem getEpoch_withBackend {r : Repo} (h : Inv r) (b : Backend) (id : Nat) :
    (r.withBackend b).getEpoch id = ((r.getEpoch id).1, (r.getEpoch id).2.withBackend b) := by
  rw [getEpoch_eq, getEpoch_eq, getStored_withBackend h]
  show (match r.inserts with
    | (min, _) :: _ => if id ≥ min then (r.inserts[id - min]?, r.withBackend b)
        else ((r.getStored id).1, (r.getStored id).2.withBackend b)
    | [] => ((r.getStored id).1, (r.getStored id).2.withBackend b)) = _
  cases r.inserts with
  | nil => rfl
  | cons x t =>
    obtain ⟨m, p⟩ := x
    simp only []
    split <;> rfl

theorem insert_withBackend {r : Repo} (h : Inv r) (b : Backend) (rec : Rec) :
    (r.withBackend b).insert rec = (r.insert rec).map (·.withBackend b) := by
  rw [insert_eq, insert_eq, findMaxId_withBackend h]
  split <;> rfl

theorem write_withBackend {r : Repo} (h : Inv r) (b : Backend) (fw fk : Bool) :
    (r.withBackend b).write fw fk = ((r.write fw fk).1, (r.write fw fk).2.withBackend b) := by
  rw [write_of_inv h, write_of_inv (h.withBackend b)]
  cases fw <;> cases fk <;> rfl

theorem stepRes_withBackend {r : Repo} (h : Inv r) (b : Backend) (op : Op) :
    stepRes (r.withBackend b) op = ((stepRes r op).1, (stepRes r op).2.withBackend b) := by
  cases op with
  | insert rec =>
    simp only [stepRes]
    rw [insert_withBackend h]
    cases r.insert rec <;> rfl
  | get id => simp only [stepRes]; rw [getEpoch_withBackend h]
  | write fw fk => simp only [stepRes]; rw [write_withBackend h]
  | reload => rfl

theorem step_withBackend {r : Repo} (h : Inv r) (b : Backend) (op : Op) :
    step (r.withBackend b) op = ((step r op).1, (step r op).2.withBackend b) := by
  simp only [step]
  rw [stepRes_withBackend h, storedMax_withBackend (inv_stepRes h op)]
  rfl

theorem run_withBackend {r : Repo} (h : Inv r) (b : Backend) (ops : List Op) :
    run ops (r.withBackend b) = ((run ops r).1.withBackend b, (run ops r).2) := by
  induction ops generalizing r with
  | nil => rfl
  | cons op ops ih =>
    simp only [run_cons]
    rw [step_withBackend h, ih (inv_step h op)]

end MlsVerif.Repo
