import MlsVerif.Proofs.Tree.AddAdds
import MlsVerif.Proofs.Tree.AddTrim
/-
Non-vacuity of the ADD-phase theorems: a concrete 4-leaf tree with a blank leaf in the middle
(leaf 1) and a leaf (3) unmerged at its parents; two adds fill leaf 1, then extend the tree (leaf 4).
Also: without `PreShape` (even length) `applyAdds` does not fill strictly increasing slots.
-/
namespace MlsVerif.Tree
open MlsVerif.TreeMath
namespace Add
namespace Ex

/-- local decision procedure for equality of results (core has no `DecidableEq (Except ε α)`) -/
local instance : DecidableEq (Except Err (List Nat × Tree)) := fun a b =>
  match a, b with
  | .ok x, .ok y => if h : x = y then isTrue (by rw [h]) else isFalse (by intro e; cases e; exact h rfl)
  | .error x, .error y =>
    if h : x = y then isTrue (by rw [h]) else isFalse (by intro e; cases e; exact h rfl)
  | .ok _, .error _ => isFalse (by intro e; cases e)
  | .error _, .ok _ => isFalse (by intro e; cases e)

def lA : Leaf := ⟨1, 101, 201⟩
def lC : Leaf := ⟨3, 103, 203⟩
def lD : Leaf := ⟨4, 104, 204⟩
def lE : Leaf := ⟨5, 105, 205⟩
def lF : Leaf := ⟨6, 106, 206⟩

/-- leaves 0, 2, 3 present, leaf 1 blank; leaf 3 unmerged at nodes 5 and 3 -/
def t0 : Tree :=
  [some (.leaf lA), none, none, some (.parent ⟨11, [3]⟩), some (.leaf lC),
   some (.parent ⟨12, [3]⟩), some (.leaf lD)]

def t1 : Tree :=
  [some (.leaf lA), none, some (.leaf lE), some (.parent ⟨11, [1, 3]⟩), some (.leaf lC),
   some (.parent ⟨12, [3]⟩), some (.leaf lD), none, some (.leaf lF)]

/-- leftmost filling: first the blank leaf 1, then the first leaf after the end -/
theorem adds_eval : applyAdds t0 [lE, lF] 0 [] = .ok ([1, 4], t1) := by decide +kernel

theorem t0_inv : PreShape t0 ∧ NoTrail t0 ∧ UniqInv t0 ∧ UnmergedInv t0 ∧ NonEmptyInv t0 := by
  decide +kernel

theorem t1_inv : PreShape t1 ∧ NoTrail t1 ∧ UniqInv t1 ∧ UnmergedInv t1 ∧ NonEmptyInv t1 := by
  decide +kernel

theorem t0_fresh : ∀ l ∈ [lE, lF], ∀ x P, get t0 x = some (.parent P) → P.key ≠ l.hpke := by
  have h : ∀ l ∈ [lE, lF], ∀ x < t0.length, ∀ P ∈ parentOf? (get t0 x), P.key ≠ l.hpke := by
    decide +kernel
  intro l hl x P hg
  exact h l hl x (lt_of_get_some hg) P (parentOf?_eq_some.2 hg)

/-- the general theorems apply to the example (hypotheses are satisfiable) -/
theorem t1_inv' : PreShape t1 ∧ UniqInv t1 ∧ UnmergedInv t1 ∧ NonEmptyInv t1 :=
  ⟨applyAdds_preShape t0_inv.1 adds_eval,
   applyAdds_uniq t0_inv.1 t0_inv.2.2.1 t0_fresh adds_eval,
   applyAdds_unmerged t0_inv.1 t0_inv.2.2.2.1 adds_eval,
   applyAdds_nonEmpty t0_inv.1 t0_inv.2.2.2.2 adds_eval⟩

/-- a duplicate HPKE key is rejected -/
theorem adds_conflict : applyAdds t0 [⟨7, 103, 207⟩] 0 [] = .error .duplicateLeafData := by
  decide +kernel

/-- `trim` after an add that left trailing blanks -/
theorem trim_eval : trim (t0 ++ [none, none]) = t0 := by decide +kernel

/-- `PreShape` (odd length) is needed in `applyAdds_leftmost`: on a tree of even length `insertLeaf`
at the slot after the end is a no-op (`set` out of range), so both adds report leaf 1. -/
theorem applyAdds_leftmost_needs_preShape :
    applyAdds [some (.leaf lA), none] [lE, lF] 0 [] =
      .ok ([1, 1], [some (.leaf lA), none]) ∧
    ∀ j < 0, get [some (.leaf lA), none] (2 * j) ≠ none := by
  refine ⟨?_, fun j hj => absurd hj (Nat.not_lt_zero j)⟩
  decide +kernel

end Ex
end Add
end MlsVerif.Tree
