import MlsVerif.Proofs.Tree.UpdInv
import MlsVerif.Proofs.Tree.UpdUniq
/-
Concrete instances: a decidable criterion for `PathUpdated`, non-vacuity examples (all invariants
before and after a concrete `encap`), and a counterexample showing that `pathUpdated_keyinv` needs
`NonEmptyInv t`.
-/
namespace MlsVerif.Tree
open MlsVerif.TreeMath

namespace Upd

/-- a decidable (bounded) form of `PathUpdated` -/
def PUCheck (t t' : Tree) (s : Nat) (nl : Leaf) (pk : List (Option Nat)) : Prop :=
  leafCount t' = leafCount t ∧ t.length ≤ t'.length ∧ get t' (2 * s) = some (.leaf nl) ∧
  (∀ j < (directCopathOf t s).length, ∀ cp ∈ (directCopathOf t s)[j]?,
    get t' cp.1 = match pk[j]? with
      | some (some k) => some (.parent { key := k, unmerged := [] })
      | _ => get t cp.1) ∧
  (∀ x < t'.length, x ≠ 2 * s → (∀ cp ∈ directCopathOf t s, cp.1 ≠ x) → get t' x = get t x)

instance (t t' : Tree) (s : Nat) (nl : Leaf) (pk : List (Option Nat)) :
    Decidable (PUCheck t t' s nl pk) := by unfold PUCheck; infer_instance

theorem pathUpdated_of_check {t t' : Tree} {s : Nat} {nl : Leaf} {pk : List (Option Nat)}
    (h : PUCheck t t' s nl pk) : PathUpdated t t' s nl pk := by
  obtain ⟨h1, h2, h3, h4, h5⟩ := h
  refine ⟨h1, h2, h3, ?_, ?_⟩
  · intro j cp hcp
    have hj : j < (directCopathOf t s).length := by
      apply Classical.byContradiction; intro hc
      rw [List.getElem?_eq_none (by omega)] at hcp; simp at hcp
    exact h4 j hj cp hcp
  · intro x hx hp
    by_cases hlt : x < t'.length
    · exact h5 x hlt hx hp
    · rw [get_of_le (by omega), get_of_le (by omega)]

/-- the observable result of `encap` -/
def encRes (r : Except Err EncapOut) : Option (Tree × List (Option Nat) × List (Option Nat)) :=
  match r with
  | .ok o => some (o.tree, o.slots, o.pathKeys)
  | .error _ => none

/-! ### example 1: three members, the committer is the last leaf; its lowest path node is filtered
(and lies beyond the end of the array) -/

def ex1 : Tree :=
  [some (.leaf ⟨1, 1, 1⟩), some (.parent ⟨10, []⟩), some (.leaf ⟨2, 2, 2⟩), some (.parent ⟨11, []⟩),
   some (.leaf ⟨3, 3, 3⟩)]

def ex1' : Tree :=
  [some (.leaf ⟨1, 1, 1⟩), some (.parent ⟨10, []⟩), some (.leaf ⟨2, 2, 2⟩), some (.parent ⟨100, []⟩),
   some (.leaf ⟨3, 50, 3⟩)]

theorem ex1_run : encRes (encap ex1 2 ⟨3, 50, 3⟩ [] 100) =
    some (ex1', [some 50, none, some 100], [none, some 100]) := by decide +kernel

theorem ex1_pre : ShapeInv ex1 ∧ UniqInv ex1 ∧ UnmergedInv ex1 ∧ NonEmptyInv ex1 ∧
    StampsBelow ex1 100 ∧ (∃ L, get ex1 (2 * 2) = some (.leaf L)) :=
  ⟨by decide +kernel, by decide +kernel, by decide +kernel, by decide +kernel, by decide +kernel,
    ⟨_, rfl⟩⟩

theorem ex1_pu : PathUpdated ex1 ex1' 2 ⟨3, 50, 3⟩ [none, some 100] ∧ ex1'.length = ex1.length ∧
    FilterOk ex1 2 [none, some 100] :=
  ⟨pathUpdated_of_check (by decide +kernel), rfl, by decide +kernel⟩

theorem ex1_post : ShapeInv ex1' ∧ UniqInv ex1' ∧ UnmergedInv ex1' ∧ NonEmptyInv ex1' ∧
    StampsBelow ex1' 101 ∧ KeyInv ex1' ⟨2, [some 50, none, some 100]⟩ :=
  ⟨by decide +kernel, by decide +kernel, by decide +kernel, by decide +kernel, by decide +kernel,
    by decide +kernel⟩

/-! ### example 2: four members, leaf 3 unmerged at the root, node 5 blank; leaf 0 commits -/

def ex2 : Tree :=
  [some (.leaf ⟨1, 1, 1⟩), some (.parent ⟨10, []⟩), some (.leaf ⟨2, 2, 2⟩), some (.parent ⟨11, [3]⟩),
   some (.leaf ⟨3, 3, 3⟩), none, some (.leaf ⟨4, 4, 4⟩)]

def ex2' : Tree :=
  [some (.leaf ⟨1, 50, 1⟩), some (.parent ⟨100, []⟩), some (.leaf ⟨2, 2, 2⟩), some (.parent ⟨101, []⟩),
   some (.leaf ⟨3, 3, 3⟩), none, some (.leaf ⟨4, 4, 4⟩)]

theorem ex2_run : encRes (encap ex2 0 ⟨1, 50, 1⟩ [] 100) =
    some (ex2', [some 50, some 100, some 101], [some 100, some 101]) := by decide +kernel

theorem ex2_pre : ShapeInv ex2 ∧ UniqInv ex2 ∧ UnmergedInv ex2 ∧ NonEmptyInv ex2 ∧
    StampsBelow ex2 100 ∧ (∃ L, get ex2 (2 * 0) = some (.leaf L)) :=
  ⟨by decide +kernel, by decide +kernel, by decide +kernel, by decide +kernel, by decide +kernel,
    ⟨_, rfl⟩⟩

theorem ex2_pu : PathUpdated ex2 ex2' 0 ⟨1, 50, 1⟩ [some 100, some 101] ∧
    ex2'.length = ex2.length ∧ FilterOk ex2 0 [some 100, some 101] :=
  ⟨pathUpdated_of_check (by decide +kernel), rfl, by decide +kernel⟩

theorem ex2_post : ShapeInv ex2' ∧ UniqInv ex2' ∧ UnmergedInv ex2' ∧ NonEmptyInv ex2' ∧
    StampsBelow ex2' 102 ∧ KeyInv ex2' ⟨0, [some 50, some 100, some 101]⟩ :=
  ⟨by decide +kernel, by decide +kernel, by decide +kernel, by decide +kernel, by decide +kernel,
    by decide +kernel⟩

/-! ### counterexample: without `NonEmptyInv t` the committer's `KeyInv` fails.
Node 1 is a non-blank parent whose right subtree (leaf 1) is blank: `encap` by leaf 0 filters
position 0 (copath node 2 has an empty resolution), leaves node 1 non-blank with its old key 10,
and the committer does not hold that key. -/

def cex : Tree :=
  [some (.leaf ⟨1, 1, 1⟩), some (.parent ⟨10, []⟩), none, some (.parent ⟨11, []⟩),
   some (.leaf ⟨3, 3, 3⟩), none, some (.leaf ⟨4, 4, 4⟩)]

def cex' : Tree :=
  [some (.leaf ⟨1, 50, 1⟩), some (.parent ⟨10, []⟩), none, some (.parent ⟨100, []⟩),
   some (.leaf ⟨3, 3, 3⟩), none, some (.leaf ⟨4, 4, 4⟩)]

theorem cex_run : encRes (encap cex 0 ⟨1, 50, 1⟩ [] 100) =
    some (cex', [some 50, none, some 100], [none, some 100]) := by decide +kernel

/-- all hypotheses of `pathUpdated_keyinv` except `NonEmptyInv t` hold (and also `ShapeInv`,
`UniqInv`, `UnmergedInv`), but the conclusion fails -/
theorem cex_keyinv :
    PathUpdated cex cex' 0 ⟨1, 50, 1⟩ [none, some 100] ∧ cex'.length = cex.length ∧
    (∃ L, get cex (2 * 0) = some (.leaf L)) ∧ FilterOk cex 0 [none, some 100] ∧
    ShapeInv cex ∧ UniqInv cex ∧ UnmergedInv cex ∧ ¬ NonEmptyInv cex ∧
    ¬ KeyInv cex' { self := 0, keys := some (Leaf.hpke ⟨1, 50, 1⟩) :: [none, some 100] } :=
  ⟨pathUpdated_of_check (by decide +kernel), rfl, ⟨_, rfl⟩, by decide +kernel, by decide +kernel,
    by decide +kernel, by decide +kernel, by decide +kernel, by decide +kernel⟩

/-- the deliverables applied to example 2 (sanity check that the hypotheses are satisfiable) -/
example : NonEmptyInv ex2' ∧ UnmergedInv ex2' ∧ KeyInv ex2' ⟨0, [some 50, some 100, some 101]⟩ :=
  have h := ex2_pu
  have p := ex2_pre
  ⟨pathUpdated_nonEmpty h.1 h.2.1 p.2.2.2.2.2 h.2.2 p.1.1 p.2.2.2.1,
   pathUpdated_unmerged h.1 h.2.1 p.2.2.2.2.2 h.2.2 p.1.1 p.2.2.2.1 p.2.2.1,
   pathUpdated_keyinv h.1 h.2.1 p.2.2.2.2.2 h.2.2 p.1.1 p.2.2.2.1⟩

end Upd
end MlsVerif.Tree
