import MlsVerif.Proofs.Tree.DecBase
/-
The receiver-side setting of `decap`, condensed into facts about the receiver's own path.
-/
namespace MlsVerif.Tree
open MlsVerif.TreeMath
namespace Dec

/-- everything the `decap` proofs need, phrased on the receiver's path `pnode p.self ·`;
`k` = tree height, `c` = `lcaIndex` -/
structure Facts (t1 t' : Tree) (p : Priv) (s : Nat) (pk : List (Option Nat)) (k c : Nat) : Prop where
  hk1 : leafCount t1 = 2 ^ k
  hk' : leafCount t' = 2 ^ k
  ha : p.self < 2 ^ k
  hs : s < 2 ^ k
  hc : c < k
  hlvl : leafLcaLevel (2 * p.self) (2 * s) = c + 2
  lca : Lca p.self s c
  low : ∀ i, i ≤ c → get t' (pnode p.self i) = get t1 (pnode p.self i)
  high : ∀ j, c ≤ j → j < k → get t' (pnode p.self (j + 1)) = match pk[j]? with
      | some (some key) => some (.parent { key := key, unmerged := [] })
      | _ => get t1 (pnode p.self (j + 1))
  pklen : pk.length = k
  pkNone : ∀ j, c ≤ j → j < k → pk[j]? = some none → get t1 (pnode p.self (j + 1)) = none
  pkLca : ∃ key, pk[c]? = some (some key)
  keys : ∀ j, slotAt p.keys j = if j ≤ k then expKey t1 p.self (pnode p.self j) else none
  leafSelf : ∃ L, get t1 (2 * p.self) = some (.leaf L)

theorem facts_of {t1 t' : Tree} {sender : Nat} {nl : Leaf} {pk : List (Option Nat)} {p : Priv}
    (hpu : PathUpdated t1 t' sender nl pk) (hf : FilterOk t1 sender pk)
    (hs : PreShape t1) (hn : NonEmptyInv t1)
    (hk : KeyInv t1 p) (hne : p.self ≠ sender)
    (hLself : ∃ L, get t1 (2 * p.self) = some (.leaf L))
    (hLsender : ∃ L, get t1 (2 * sender) = some (.leaf L)) :
    ∃ k c, Facts t1 t' p sender pk k c := by
  obtain ⟨k, hk1, _, _⟩ := leafCount_spec t1
  obtain ⟨La, hLa⟩ := hLself
  obtain ⟨Ls, hLs⟩ := hLsender
  have ha : p.self < 2 ^ k := leaf_lt_leafCount t1 k _ hk1 (lt_of_get_some hLa)
  have hss : sender < 2 ^ k := leaf_lt_leafCount t1 k _ hk1 (lt_of_get_some hLs)
  obtain ⟨hlvl, hl⟩ := lca_of p.self sender hne
  generalize leafLcaLevel p.self sender - 1 = c at hlvl hl
  have hc : c < k := hl.lt ha hss
  refine ⟨k, c, ?_⟩
  have hpklen := pk_length hf hk1 hss
  refine
    { hk1 := hk1, hk' := by rw [hpu.leafCount_eq, hk1], ha := ha, hs := hss, hc := hc, hlvl := hlvl,
      lca := hl, low := get_low hpu hk1 hl, high := get_high hpu hk1 hss hl, pklen := hpklen,
      pkNone := ?_, pkLca := ?_, keys := ?_, leafSelf := ⟨La, hLa⟩ }
  · intro j hcj hj hpj
    rw [hl.common j hcj]
    have hcp : (directCopathOf t1 sender)[j]? = some (pathEntry sender j) := by
      rw [directCopathOf_getElem? t1 k sender j hk1]; simp [hss, hj]
    apply filtered_blank hs hn hcp
    rw [← hf, List.getElem?_map, hpj]; rfl
  · have h1 := pk_isNone hf hk1 hss c hc
    rw [hl.copath] at h1
    have h2 : isResolutionEmpty t1 (pnode p.self c) = false := by
      cases h : isResolutionEmpty t1 (pnode p.self c) with
      | false => rfl
      | true =>
        exfalso
        simp only [isResolutionEmpty, List.isEmpty_iff] at h
        have := (resolution_eq_nil.1 h) (2 * p.self)
          (inSub_of_below ((below_nd p.self c _).2 rfl))
        rw [hLa] at this; simp at this
    rw [h2] at h1
    cases hp : pk[c]? with
    | none => rw [hp] at h1; simp at h1
    | some o =>
      cases o with
      | none => rw [hp] at h1; simp at h1
      | some key => exact ⟨key, rfl⟩
  · intro j
    rw [(keyInv_iff t1 p).1 hk j, slotAt_expected t1 k p.self j hk1 ha]

end Dec
end MlsVerif.Tree
