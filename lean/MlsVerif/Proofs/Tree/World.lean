import MlsVerif.Proofs.Tree.Commit
/-
Group histories: a world is the public tree together with the private states of (some of) the
members; a step is a whole commit.  The key invariant holds for every member in every reachable
world.
-/
namespace MlsVerif.Tree
open MlsVerif.TreeMath

/-- a joiner of a commit without path: it holds only its leaf key, and that is all it is entitled
to (it is unmerged at each of its non-blank ancestors) -/
theorem joiner_keyinv_no_path {t1 : Tree} {self : Nat} {L : Leaf} (hs : PreShape t1)
    (hL : get t1 (2 * self) = some (.leaf L))
    (hunm : ∀ x P, get t1 x = some (.parent P) → below self x → self ∈ P.unmerged) (signer : Nat) :
    joinerPriv t1 self L.hpke signer false = .ok ⟨self, [some L.hpke]⟩ ∧
    KeyInv t1 ⟨self, [some L.hpke]⟩ := by
  refine ⟨by simp [joinerPriv, pure, Except.pure], ?_⟩
  rw [keyInv_iff]
  intro j
  cases j with
  | zero =>
    rw [Join.expectedSlots_zero, Join.expNode_leaf hL]; rfl
  | succ j =>
    rw [Join.expectedSlots_succ]
    have h0 : slotAt (Priv.mk self [some L.hpke]).keys (j + 1) = none := by simp [slotAt]
    rw [h0]
    cases hcp : (directCopathOf t1 self)[j]? with
    | none => rfl
    | some cp =>
      simp only
      obtain ⟨k, hk, _, _⟩ := leafCount_spec t1
      obtain ⟨_, jj, _, rfl⟩ := mem_directCopathOf hk (List.mem_of_getElem? hcp)
      cases hg : get t1 (pathEntry self jj).1 with
      | none => rw [Join.expNode_blank hg]
      | some n =>
        cases n with
        | leaf L' =>
          exfalso
          have := (hs.1 _ (lt_of_get_some hg)).2 (pathEntry_fst_odd self jj)
          rw [hg] at this; cases this
        | parent P =>
          rw [Join.expNode_parent hg, if_pos (hunm _ P hg (below_self_pathEntry self jj))]

theorem joinerPriv_self {t : Tree} {self k signer : Nat} {b : Bool} {p : Priv}
    (h : joinerPriv t self k signer b = .ok p) : p.self = self := by
  unfold joinerPriv at h
  simp only [bind, Except.bind, pure, Except.pure] at h
  split at h
  · injection h with h; rw [← h]
  · split at h
    · cases h
    · injection h with h; rw [← h]

/-- the public tree and the private states of the members we follow -/
structure World where
  tree : Tree
  members : List Priv

/-- the tree is well-formed, every followed member sits on a non-blank leaf and holds exactly the
keys it is entitled to -/
def World.Good (w : World) : Prop :=
  WF w.tree ∧ ∀ p ∈ w.members, (∃ L, get w.tree (2 * p.self) = some (.leaf L)) ∧ KeyInv w.tree p

/-- how a followed member of the new epoch got its state in a commit with a path -/
inductive NewState (w : World) (e : Edits) (added : List Nat) (t1 : Tree) (sender : Nat)
    (o : EncapOut) : Priv → Prop
  | committer : NewState w e added t1 sender o ⟨sender, o.slots⟩
  | receiver {p : Priv} {d : DecapOut} : p ∈ w.members → p.self ∉ e.touched → p.self ≠ sender →
      decap o.tree (provisionalPriv t1 p none) sender o.pathKeys added = .ok d →
      NewState w e added t1 sender o d.priv
  | updated {p : Priv} {l : Leaf} {d : DecapOut} : (p.self, l) ∈ e.updates → p.self ≠ sender →
      decap o.tree (provisionalPriv t1 p (some l.hpke)) sender o.pathKeys added = .ok d →
      NewState w e added t1 sender o d.priv
  | joiner {j self : Nat} {L : Leaf} {p : Priv} : added[j]? = some self → self ≠ sender →
      e.adds[j]? = some L → joinerPriv o.tree self L.hpke sender true = .ok p →
      NewState w e added t1 sender o p

/-- how a followed member of the new epoch got its state in a commit without a path -/
inductive NewStateNoPath (w : World) (e : Edits) (added : List Nat) (t1 : Tree) : Priv → Prop
  | member {p : Priv} : p ∈ w.members → p.self ∉ e.touched →
      NewStateNoPath w e added t1 (provisionalPriv t1 p none)
  | updated {p : Priv} {l : Leaf} : (p.self, l) ∈ e.updates →
      NewStateNoPath w e added t1 (provisionalPriv t1 p (some l.hpke))
  | joiner {j self signer : Nat} {L : Leaf} {p : Priv} : added[j]? = some self →
      e.adds[j]? = some L → joinerPriv t1 self L.hpke signer false = .ok p →
      NewStateNoPath w e added t1 p

/-- one commit -/
inductive Step : World → World → Prop
  | commit {w : World} {e : Edits} {added : List Nat} {t1 : Tree} {sender fresh : Nat} {nl : Leaf}
      {o : EncapOut} {ms : List Priv} :
      e.FreshKeys w.tree → batchEdit w.tree e = .ok (added, t1) →
      (∃ L, get t1 (2 * sender) = some (.leaf L)) →
      StampsBelow t1 fresh → nl.hpke ∉ keyStamps t1 → nl.hpke < fresh →
      (∀ x L, x ≠ 2 * sender → get t1 x = some (.leaf L) → L.ident ≠ nl.ident ∧ L.sig ≠ nl.sig) →
      encap t1 sender nl added fresh = .ok o →
      (∀ p ∈ ms, NewState w e added t1 sender o p) →
      Step w ⟨o.tree, ms⟩
  | commitNoPath {w : World} {e : Edits} {added : List Nat} {t1 : Tree} {ms : List Priv} :
      e.FreshKeys w.tree → batchEdit w.tree e = .ok (added, t1) →
      (∀ p ∈ ms, NewStateNoPath w e added t1 p) →
      Step w ⟨t1, ms⟩

theorem leaf_after_path {t1 t' : Tree} {s i : Nat} {nl : Leaf} {pk : List (Option Nat)}
    (hpu : PathUpdated t1 t' s nl pk) (h : ∃ L, get t1 (2 * i) = some (.leaf L)) :
    ∃ L, get t' (2 * i) = some (.leaf L) := by
  by_cases hi : i = s
  · subst hi; exact ⟨nl, hpu.leaf⟩
  · obtain ⟨k, hk, _, _⟩ := leafCount_spec t1
    rw [hpu.offPath (2 * i) (by omega) (by
      intro cp hcp heq
      obtain ⟨_, jj, _, rfl⟩ := mem_directCopathOf hk hcp
      have := pathEntry_fst_odd s jj
      omega)]
    exact h

/-- the invariant of C08 + C09 is preserved by every commit -/
theorem step_good {w w' : World} (hg : w.Good) (h : Step w w') : w'.Good := by
  obtain ⟨hw, hm⟩ := hg
  cases h with
  | @commit e added t1 sender fresh nl o ms hfr hb hL hsb hnl hnl2 hid he hms =>
    have hw1 := wf_batchEdit hw hfr hb
    have hself := self_lt_of_leaf hL
    have hpu := (encap_spec he hself).1
    have hfo := (encap_spec he hself).2.1
    have hes := batchEdit_editSpec hw.1.1 hb
    have hagree := encap_applyUpdatePath_agree hL he
    refine ⟨wf_encap hw1 hL hsb hnl hnl2 hid he, ?_⟩
    intro p' hp'
    cases hms p' hp' with
    | committer => exact ⟨⟨nl, hpu.leaf⟩, encap_keyinv' hw1.1 hw1.2.2.2 hL he⟩
    | @receiver p d hp ht hne hd =>
      obtain ⟨hLp, hkp⟩ := hm p hp
      obtain ⟨_, d', hd', hk', hs', _⟩ := commit_agrees hw hb hL he hkp hLp ht hne
      rw [hd] at hd'
      injection hd' with hd'
      subst hd'
      refine ⟨?_, hk'⟩
      rw [hs']
      apply leaf_after_path hpu
      rw [hes.leaves_kept _ ht (not_added_of_member hes hLp ht)]
      exact hLp
    | @updated p l d hu hne hd =>
      obtain ⟨_, d', hd', hk', hs'⟩ := receiver_commit_own_update hw hb hu hne hfo hagree
      rw [hd] at hd'
      injection hd' with hd'
      subst hd'
      refine ⟨?_, hk'⟩
      rw [hs']
      exact leaf_after_path hpu ⟨l, hes.updated_leaf _ hu⟩
    | @joiner j self L p hj hne hL' hjp =>
      obtain ⟨L2, h1, h2, p2, h3, h4⟩ := joiner_commit hw hb hj hne hfo hagree
      rw [hL'] at h1
      injection h1 with h1
      subst h1
      have hps := joinerPriv_self hjp
      rw [hjp] at h3
      injection h3 with h3
      subst h3
      exact ⟨⟨L, by rw [hps]; exact h2⟩, h4⟩
  | @commitNoPath e added t1 ms hfr hb hms =>
    have hw1 := wf_batchEdit hw hfr hb
    have hes := batchEdit_editSpec hw.1.1 hb
    refine ⟨hw1, ?_⟩
    intro p' hp'
    cases hms p' hp' with
    | @member p hp ht =>
      obtain ⟨hLp, hkp⟩ := hm p hp
      have hna := not_added_of_member hes hLp ht
      refine ⟨?_, provisional_keyinv hes hkp ht hna hw1.1.1⟩
      rw [provisionalPriv_self, hes.leaves_kept _ ht hna]
      exact hLp
    | @updated p l hu =>
      refine ⟨?_, provisional_keyinv_own hes hu⟩
      rw [provisionalPriv_self]
      exact ⟨l, hes.updated_leaf _ hu⟩
    | @joiner j self signer L p hj hL' hjp =>
      obtain ⟨L2, h1, h2⟩ := hes.added_leaf j self hj
      rw [hL'] at h1
      injection h1 with h1
      subst h1
      have hmem : self ∈ added := List.mem_of_getElem? hj
      obtain ⟨h3, h4⟩ := joiner_keyinv_no_path hw1.1.1 h2
        (fun x P hg hbel => hes.added_unmerged self hmem x P hg hbel) signer
      rw [hjp] at h3
      injection h3 with h3
      subst h3
      exact ⟨⟨L, h2⟩, h4⟩

/-- worlds reachable from a one-member group -/
inductive ReachableWorld : World → Prop
  | init (l : Leaf) : ReachableWorld ⟨[some (.leaf l)], [⟨0, [some l.hpke]⟩]⟩
  | step {w w' : World} : ReachableWorld w → Step w w' → ReachableWorld w'

theorem init_good (l : Leaf) : World.Good ⟨[some (.leaf l)], [⟨0, [some l.hpke]⟩]⟩ := by
  refine ⟨wf_single l, ?_⟩
  intro p hp
  have : p = ⟨0, [some l.hpke]⟩ := by simpa using hp
  subst this
  refine ⟨⟨l, rfl⟩, ?_⟩
  rw [keyInv_iff]
  intro j
  cases j with
  | zero => rfl
  | succ j =>
    have h1 : slotAt (Priv.mk 0 [some l.hpke]).keys (j + 1) = none := by simp [slotAt]
    have h2 : directCopathOf [some (Node.leaf l)] 0 = [] := by
      have hk : leafCount [some (Node.leaf l)] = 2 ^ 0 := by
        unfold leafCount
        simp only [List.length_singleton]
        decide +kernel
      rw [directCopathOf_cf _ 0 0 hk]
      rfl
    rw [h1, Join.expectedSlots_succ, h2]
    rfl

/-- C08 + C09 for all histories: in every reachable world the tree is well-formed and every member
holds exactly the keys it is entitled to -/
theorem reachableWorld_good {w : World} (h : ReachableWorld w) : w.Good := by
  induction h with
  | init l => exact init_good l
  | step _ hs ih => exact step_good ih hs

end MlsVerif.Tree
