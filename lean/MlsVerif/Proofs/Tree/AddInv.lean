import MlsVerif.Proofs.Tree.AddLeaf
/-
ADD phase, part 3: one `addLeaf` preserves the invariants.
-/
namespace MlsVerif.Tree
open MlsVerif.TreeMath
namespace Add

theorem AddRel.preShape {t t' : Tree} {l : Leaf} {i : Nat} (h : AddRel t t' l i) (hs : PreShape t) :
    PreShape t' := by
  refine ⟨?_, h.lenodd⟩
  intro x _
  by_cases hx : x = 2 * i
  · subst hx
    rw [h.leaf]
    exact ⟨fun _ => rfl, fun h => by omega⟩
  · by_cases hp : ∃ P, get t x = some (.parent P)
    · obtain ⟨P, hP⟩ := hp
      obtain ⟨u, hu, _⟩ := h.par x P hP
      have hxl := lt_of_get_some hP
      have := hs.1 x hxl
      rw [hP] at this
      rw [hu]
      exact ⟨fun he => by simpa using this.1 he, fun _ => rfl⟩
    · rw [h.other x hx (fun P hP => hp ⟨P, hP⟩)]
      by_cases hlt : x < t.length
      · exact hs.1 x hlt
      · rw [get_of_le (by omega)]; exact ⟨fun _ => rfl, fun _ => rfl⟩

theorem AddRel.unmerged {t t' : Tree} {l : Leaf} {i : Nat} (h : AddRel t t' l i)
    (hu : UnmergedInv t) : UnmergedInv t' := by
  intro p _ P' hP'
  have hP' : get t' p = some (.parent P') := parentOf?_eq_some.1 hP'
  obtain ⟨P, hP, _, m1, m2⟩ := h.par_inv hP'
  have hpl := lt_of_get_some hP
  obtain ⟨i1, i2, i3⟩ := hu p hpl P (parentOf?_eq_some.2 hP)
  refine ⟨m2 i1, ?_, ?_⟩
  · intro l' hl'
    rcases (m1 l').1 hl' with hl' | ⟨rfl, hb⟩
    · exact ⟨(i2 l' hl').1, h.nonblank (i2 l' hl').2⟩
    · exact ⟨hb, by rw [h.leaf]; simp⟩
  · intro p' _ Q' hQ' hlev l' hl' hbel
    have hQ' : get t' p' = some (.parent Q') := parentOf?_eq_some.1 hQ'
    obtain ⟨Q, hQ, _, n1, _⟩ := h.par_inv hQ'
    rw [n1]
    rcases (m1 l').1 hl' with hl' | ⟨rfl, _⟩
    · exact Or.inl (i3 p' (lt_of_get_some hQ) Q (parentOf?_eq_some.2 hQ) hlev l' hl' hbel)
    · exact Or.inr ⟨rfl, hbel⟩

/-- a non-empty resolution stays non-empty -/
theorem AddRel.resolution_ne {t t' : Tree} {l : Leaf} {i x : Nat} (h : AddRel t t' l i)
    (hr : resolution t x ≠ []) : resolution t' x ≠ [] := by
  intro h'
  apply hr
  rw [resolution_eq_nil] at h' ⊢
  intro r hr
  apply Classical.byContradiction
  intro hne
  exact h.nonblank hne (h' r hr)

theorem AddRel.nonEmpty {t t' : Tree} {l : Leaf} {i : Nat} (h : AddRel t t' l i)
    (hn : NonEmptyInv t) : NonEmptyInv t' := by
  intro p _ P' hP' lc hl rc hr
  have hP' : get t' p = some (.parent P') := parentOf?_eq_some.1 hP'
  obtain ⟨P, hP, _⟩ := h.par_inv hP'
  have := hn p (lt_of_get_some hP) P (parentOf?_eq_some.2 hP) lc hl rc hr
  exact ⟨h.resolution_ne this.1, h.resolution_ne this.2⟩

theorem AddRel.uniq {t t' : Tree} {l : Leaf} {i : Nat} (h : AddRel t t' l i)
    (hu : UniqInv t) (hf : ∀ x P, get t x = some (.parent P) → P.key ≠ l.hpke) : UniqInv t' := by
  have hc := conflicts_false_iff.1 h.noconf
  -- a stored node with the new leaf's key / a stored leaf with its identity or signature key
  have key_ne : ∀ x, x ≠ 2 * i → (get t' x).map Node.key ≠ some l.hpke := by
    intro x hx he
    rw [(h.key_other hx).1] at he
    cases hg : get t x with
    | none => rw [hg] at he; simp at he
    | some n =>
      rw [hg] at he
      simp only [Option.map_some, Option.some.injEq] at he
      cases n with
      | leaf L => exact (hc x L hg).2.1 he
      | parent P => exact hf x P hg he
  have leaf_ne : ∀ x, x ≠ 2 * i → (leafOf? (get t' x)).map (·.ident) ≠ some l.ident ∧
      (leafOf? (get t' x)).map (·.sig) ≠ some l.sig := by
    intro x hx
    rw [(h.key_other hx).2]
    cases hg : get t x with
    | none => simp
    | some n =>
      cases n with
      | leaf L =>
        have := hc x L hg
        simp only [leafOf?_leaf, Option.map_some, ne_eq, Option.some.injEq]
        exact ⟨this.1, this.2.2⟩
      | parent P => simp
  -- transfer for pairs of old nodes
  have old : ∀ x, get t x = none ∨ x < t.length := by
    intro x
    by_cases hx : x < t.length
    · exact Or.inr hx
    · exact Or.inl (get_of_le (by omega))
  constructor
  · intro a _ b _ hab he
    by_cases ha : a = 2 * i
    · subst ha
      rw [h.leaf] at he
      exact absurd he.symm (key_ne b (Ne.symm hab))
    · by_cases hb : b = 2 * i
      · subst hb
        rw [h.leaf] at he
        exact absurd he (key_ne a ha)
      · rw [h.blank_iff ha]
        rw [(h.key_other ha).1, (h.key_other hb).1] at he
        rcases old a with h1 | h1
        · exact h1
        · rcases old b with h2 | h2
          · rw [h2] at he
            simpa using he
          · exact hu.1 a h1 b h2 hab he
  · intro a _ b _ hab
    by_cases ha : a = 2 * i
    · subst ha
      have := leaf_ne b (Ne.symm hab)
      rw [h.leaf]
      simp only [leafOf?_leaf, Option.map_some]
      exact ⟨fun he => absurd he.symm this.1, fun he => absurd he.symm this.2⟩
    · by_cases hb : b = 2 * i
      · subst hb
        have := leaf_ne a ha
        rw [h.leaf]
        simp only [leafOf?_leaf, Option.map_some]
        exact ⟨fun he => absurd he this.1, fun he => absurd he this.2⟩
      · rw [(h.key_other ha).2, (h.key_other hb).2]
        rcases old a with h1 | h1
        · rw [h1]; simp
        · rcases old b with h2 | h2
          · rw [h2]
            simp only [leafOf?_none, Option.map_none]
            constructor <;> intro he <;> simpa using he
          · exact hu.2 a h1 b h2 hab

end Add

theorem addLeaf_preShape {t t' : Tree} {l : Leaf} {start i : Nat} (hs : PreShape t)
    (h : addLeaf t l start = .ok (i, t')) : PreShape t' :=
  (Add.addLeaf_rel hs h).2.preShape hs

theorem addLeaf_unmerged {t t' : Tree} {l : Leaf} {start i : Nat} (hs : PreShape t)
    (hu : UnmergedInv t) (h : addLeaf t l start = .ok (i, t')) : UnmergedInv t' :=
  (Add.addLeaf_rel hs h).2.unmerged hu

theorem addLeaf_nonEmpty {t t' : Tree} {l : Leaf} {start i : Nat} (hs : PreShape t)
    (hn : NonEmptyInv t) (h : addLeaf t l start = .ok (i, t')) : NonEmptyInv t' :=
  (Add.addLeaf_rel hs h).2.nonEmpty hn

theorem addLeaf_uniq {t t' : Tree} {l : Leaf} {start i : Nat} (hs : PreShape t) (hu : UniqInv t)
    (hf : ∀ x P, get t x = some (.parent P) → P.key ≠ l.hpke)
    (h : addLeaf t l start = .ok (i, t')) : UniqInv t' :=
  (Add.addLeaf_rel hs h).2.uniq hu hf

end MlsVerif.Tree
