import MlsVerif.Proofs.Tree.DecMain
/-
Non-vacuity of the `decap` theorems: a 4-leaf tree in which the receiver (leaf 1) is unmerged at
its parent (node 1) and at the root, so that `decap` must fall back to slot 0 (its leaf key).
-/
namespace MlsVerif.Tree
open MlsVerif.TreeMath
namespace Dec

def exLeaf (i : Nat) : Leaf := { ident := i, hpke := 100 + i, sig := 200 + i }

/-- tree after the proposals: leaf 1 is unmerged at node 1 and at the root; node 5 is blank -/
def exT1 : Tree :=
  [some (.leaf (exLeaf 0)), some (.parent { key := 10, unmerged := [1] }), some (.leaf (exLeaf 1)),
   some (.parent { key := 11, unmerged := [1] }),
   some (.leaf (exLeaf 2)), none, some (.leaf (exLeaf 3))]

def exNl : Leaf := { ident := 2, hpke := 112, sig := 202 }
def exPk : List (Option Nat) := [some 20, some 21]

/-- provisional tree after the path update of leaf 2 -/
def exT' : Tree :=
  [some (.leaf (exLeaf 0)), some (.parent { key := 10, unmerged := [1] }), some (.leaf (exLeaf 1)),
   some (.parent { key := 21, unmerged := [] }),
   some (.leaf exNl), some (.parent { key := 20, unmerged := [] }), some (.leaf (exLeaf 3))]

/-- receiver 1 (unmerged above its leaf) and receiver 0 (holds all its path keys) -/
def exP1 : Priv := { self := 1, keys := [some 101, none, none] }
def exP0 : Priv := { self := 0, keys := [some 100, some 10, some 11] }

/-- `exT'` is what the model's `applyUpdatePath` / `encap` produce -/
example : (applyUpdatePath exT1 2 exNl exPk).toOption = some exT' := by decide +kernel
example : (encap exT1 2 exNl [] 20).toOption.map (fun o => (o.tree, o.pathKeys)) = some (exT', exPk) := by
  decide +kernel

theorem ex_dcp : directCopathOf exT1 2 = [(5, 6), (3, 1)] := by decide +kernel

theorem ex_pu : PathUpdated exT1 exT' 2 exNl exPk where
  leafCount_eq := by decide +kernel
  length_le := by decide +kernel
  leaf := by decide +kernel
  onPath := by
    intro j cp h
    rw [ex_dcp] at h
    match j, h with
    | 0, h => simp at h; subst h; decide +kernel
    | 1, h => simp at h; subst h; decide +kernel
    | j + 2, h => simp at h
  offPath := by
    intro x h1 h2
    rw [ex_dcp] at h2
    by_cases hx : x < 7
    · have : ∀ x < 7, x ≠ 4 → x ≠ 5 → x ≠ 3 → get exT' x = get exT1 x := by decide +kernel
      exact this x hx h1 (fun h => h2 (5, 6) (by simp) h.symm) (fun h => h2 (3, 1) (by simp) h.symm)
    · rw [get_of_le (by simp [exT']; omega), get_of_le (by simp [exT1]; omega)]

theorem ex_f : FilterOk exT1 2 exPk := by decide +kernel
theorem ex_s : PreShape exT1 := by decide +kernel
theorem ex_n : NonEmptyInv exT1 := by decide +kernel
theorem ex_u : UnmergedInv exT1 := by decide +kernel
theorem ex_k1 : KeyInv exT1 exP1 := by decide +kernel
theorem ex_k0 : KeyInv exT1 exP0 := by decide +kernel

/-- receiver 1: first non-blank node downwards from the LCA child is node 1, where it is unmerged,
so slot 0 is used; its leaf (node 2) is the second recipient of the root's ciphertexts -/
theorem ex_decap1 : (decap exT' exP1 2 exPk []).toOption.map (fun d => (d.slot, d.ctPos, d.priv)) =
    some (0, 1, { self := 1, keys := [some 101, none, some 21, none] }) := by
  decide +kernel

/-- receiver 0 uses slot 1 (node 1), the first recipient -/
theorem ex_decap0 : (decap exT' exP0 2 exPk []).toOption.map (fun d => (d.slot, d.ctPos, d.priv)) =
    some (1, 0, { self := 0, keys := [some 100, some 10, some 21, none] }) := by
  decide +kernel

/-- the hypotheses of the three theorems are jointly satisfiable (receiver 1, slot 0 case) -/
example : ∃ d, decap exT' exP1 2 exPk [] = .ok d ∧ KeyInv exT' d.priv ∧ d.slot = 0 := by
  obtain ⟨d, hd⟩ := decap_succeeds (added := []) ex_pu ex_f ex_s ex_n ex_k1 (by decide)
    ⟨exLeaf 1, by decide +kernel⟩ ⟨exLeaf 2, by decide +kernel⟩ (by decide +kernel) (by simp)
  refine ⟨d, hd, (decap_keyinv ex_pu ex_f ex_s ex_n ex_k1 (by decide)
    ⟨exLeaf 1, by decide +kernel⟩ ⟨exLeaf 2, by decide +kernel⟩ hd).1, ?_⟩
  have := ex_decap1
  rw [hd] at this
  simp [Except.toOption] at this
  exact this.1

example : ∃ d, decap exT' exP0 2 exPk [] = .ok d ∧ KeyInv exT' d.priv :=
  let ⟨d, hd⟩ := decap_succeeds (added := []) ex_pu ex_f ex_s ex_n ex_k0 (by decide)
    ⟨exLeaf 0, by decide +kernel⟩ ⟨exLeaf 2, by decide +kernel⟩ (by decide +kernel) (by simp)
  ⟨d, hd, (decap_keyinv ex_pu ex_f ex_s ex_n ex_k0 (by decide)
    ⟨exLeaf 0, by decide +kernel⟩ ⟨exLeaf 2, by decide +kernel⟩ hd).1⟩


/-! ### an 8-leaf example: blank LCA child, unmerged receiver, an excluded (just added) leaf -/

/-- leaves 0,1,2,3,4; leaf 2 was just added; node 3 (the LCA child) and node 5 are blank; receiver 1
is unmerged at node 1 and at the root 7 -/
def ex8T1 : Tree :=
  [some (.leaf (exLeaf 0)), some (.parent { key := 10, unmerged := [1] }), some (.leaf (exLeaf 1)),
   none, some (.leaf (exLeaf 2)), none, some (.leaf (exLeaf 3)),
   some (.parent { key := 12, unmerged := [1, 2] }), some (.leaf (exLeaf 4))]

def ex8Nl : Leaf := { ident := 4, hpke := 114, sig := 204 }
def ex8Pk : List (Option Nat) := [none, none, some 20]

def ex8T' : Tree :=
  [some (.leaf (exLeaf 0)), some (.parent { key := 10, unmerged := [1] }), some (.leaf (exLeaf 1)),
   none, some (.leaf (exLeaf 2)), none, some (.leaf (exLeaf 3)),
   some (.parent { key := 20, unmerged := [] }), some (.leaf ex8Nl)]

def ex8P : Priv := { self := 1, keys := [some 101, none, none, none] }

example : (applyUpdatePath ex8T1 4 ex8Nl ex8Pk).toOption = some ex8T' := by decide +kernel
example : (encap ex8T1 4 ex8Nl [2] 20).toOption.map (fun o => (o.tree, o.pathKeys, o.seals)) =
    some (ex8T', ex8Pk, [(7, [1, 2, 6])]) := by decide +kernel

example : UnmergedInv ex8T1 ∧ NoTrail ex8T1 := by decide +kernel

theorem ex8_dcp : directCopathOf ex8T1 4 = [(9, 10), (11, 13), (7, 3)] := by decide +kernel

theorem ex8_pu : PathUpdated ex8T1 ex8T' 4 ex8Nl ex8Pk where
  leafCount_eq := by decide +kernel
  length_le := by decide +kernel
  leaf := by decide +kernel
  onPath := by
    intro j cp h
    rw [ex8_dcp] at h
    match j, h with
    | 0, h => simp at h; subst h; decide +kernel
    | 1, h => simp at h; subst h; decide +kernel
    | 2, h => simp at h; subst h; decide +kernel
    | j + 3, h => simp at h
  offPath := by
    intro x h1 h2
    rw [ex8_dcp] at h2
    by_cases hx : x < 9
    · have : ∀ x < 9, x ≠ 8 → x ≠ 7 → get ex8T' x = get ex8T1 x := by decide +kernel
      exact this x hx h1 (fun h => h2 (7, 3) (by simp) h.symm)
    · rw [get_of_le (by simp [ex8T']; omega), get_of_le (by simp [ex8T1]; omega)]

/-- walks down from node 3 (blank) to node 1 (unmerged there), falls back to slot 0; the sender
sealed to `[1, 2, 6]` (resolution `[1, 2, 4, 6]` of node 3 without the added leaf 2 = node 4) -/
theorem ex8_decap : (decap ex8T' ex8P 4 ex8Pk [2]).toOption.map (fun d => (d.slot, d.ctPos, d.priv)) =
    some (0, 1, { self := 1, keys := [some 101, none, none, some 20, none] }) := by
  decide +kernel

example : ∃ d, decap ex8T' ex8P 4 ex8Pk [2] = .ok d ∧ KeyInv ex8T' d.priv ∧ d.slot = 0 ∧ d.ctPos = 1 := by
  have hpu := ex8_pu
  have hf : FilterOk ex8T1 4 ex8Pk := by decide +kernel
  have hs : PreShape ex8T1 := by decide +kernel
  have hn : NonEmptyInv ex8T1 := by decide +kernel
  have hk : KeyInv ex8T1 ex8P := by decide +kernel
  have hne : ex8P.self ≠ 4 := by decide
  have h1 : ∃ L, get ex8T1 (2 * ex8P.self) = some (.leaf L) := ⟨exLeaf 1, by decide +kernel⟩
  have h2 : ∃ L, get ex8T1 (2 * 4) = some (.leaf L) := ⟨exLeaf 4, by decide +kernel⟩
  obtain ⟨d, hd⟩ := decap_succeeds (added := [2]) hpu hf hs hn hk hne h1 h2 (by decide +kernel)
    (by decide)
  obtain ⟨cp, resNode, key, _, _, _, _, _, _⟩ := decap_position_agrees hpu hf hs hn hk hne h1 h2 hd
  refine ⟨d, hd, (decap_keyinv hpu hf hs hn hk hne h1 h2 hd).1, ?_⟩
  have := ex8_decap
  rw [hd] at this
  simp [Except.toOption] at this
  exact ⟨this.1, this.2.1⟩

end Dec
end MlsVerif.Tree
