import MlsVerif.Proofs.Tree.DecPos
/-
`decap`: the ciphertext position agrees with the sender's recipient list; `decap` succeeds.
-/
namespace MlsVerif.Tree
open MlsVerif.TreeMath
namespace Dec

/-- what `findResolvedPos` returns in the setting -/
theorem slot_le {t' : Tree} {p : Priv} {path : List Nat} {c slot : Nat}
    (h : findResolvedPos t' p path c = some slot) : slot ≤ c := by
  obtain ⟨i, hi, hor⟩ := findResolvedPos_spec h
  obtain ⟨h1, _, _⟩ := findResolvedPosAux_spec _ _ _ _ _ (Nat.lt_succ_self c) hi
  rcases hor with ⟨rfl, _⟩ | ⟨rfl, _⟩ <;> omega

end Dec

/-- (2) the ciphertext index computed by the receiver points, in the sender's recipient list for the
LCA path node, at the node whose private key the receiver holds in slot `d.slot`. -/
theorem decap_position_agrees {t1 t' : Tree} {sender : Nat} {nl : Leaf} {pk : List (Option Nat)}
    {p : Priv} {added : List Nat} {d : DecapOut}
    (hpu : PathUpdated t1 t' sender nl pk) (hf : FilterOk t1 sender pk)
    (hs : PreShape t1) (hn : NonEmptyInv t1)
    (hk : KeyInv t1 p) (hne : p.self ≠ sender)
    (hLself : ∃ L, get t1 (2 * p.self) = some (.leaf L))
    (hLsender : ∃ L, get t1 (2 * sender) = some (.leaf L))
    (h : decap t' p sender pk added = .ok d) :
    ∃ cp resNode key,
      (directCopathOf t1 sender)[leafLcaLevel (2 * p.self) (2 * sender) - 2]? = some cp ∧
      (∃ k, pk[leafLcaLevel (2 * p.self) (2 * sender) - 2]? = some (some k)) ∧
      ((2 * p.self) :: (directCopathOf t' p.self).map (·.1))[d.slot]? = some resNode ∧
      ((resolution t' cp.2).filter (fun i => !(added.map (2 * ·)).contains i))[d.ctPos]? = some resNode ∧
      p.keys[d.slot]? = some (some key) ∧ (get t' resNode).map Node.key = some key := by
  obtain ⟨k, c, F⟩ := Dec.facts_of hpu hf hs hn hk hne hLself hLsender
  obtain ⟨lcaNode, resNode, key0, key, _, hslot, hlca, hres, hct, hk0, hkey, _, _⟩ := Dec.decap_ok h
  rw [F.hlvl, Nat.add_sub_cancel] at hslot hlca hk0 ⊢
  have hc := F.hc
  have hsl := Dec.slot_le hslot
  rw [Dec.path_getElem? t' k p.self _ F.hk' F.ha, if_pos (by omega)] at hlca
  have hres' := hres
  rw [Dec.path_getElem? t' k p.self _ F.hk' F.ha, if_pos (by omega)] at hres'
  cases hlca; cases hres'
  refine ⟨pathEntry sender c, Dec.pnode p.self d.slot, key, ?_, ⟨key0, hk0⟩, hres, ?_, hkey, ?_⟩
  · rw [directCopathOf_getElem? t1 k sender c F.hk1]; simp [F.hs, hc]
  · rw [F.lca.copath]
    unfold findCiphertextPos at hct
    simp only at hct
    rw [List.filter_congr (fun x _ => Dec.filt_eq added x)] at hct
    rw [List.findIdx?_eq_some_iff_getElem] at hct
    obtain ⟨hlt, heq, _⟩ := hct
    rw [List.getElem?_eq_getElem hlt]
    simpa using heq
  · rw [F.low _ hsl]
    apply Dec.expKey_some (a := p.self)
    have := F.keys d.slot
    rw [if_pos (by omega), Dec.slotAt_eq_some.2 hkey] at this
    exact this.symm


/-- (3) in the setting, no `throw` of `decap` fires. -/
theorem decap_succeeds {t1 t' : Tree} {sender : Nat} {nl : Leaf} {pk : List (Option Nat)}
    {p : Priv} {added : List Nat}
    (hpu : PathUpdated t1 t' sender nl pk) (hf : FilterOk t1 sender pk)
    (hs : PreShape t1) (hn : NonEmptyInv t1)
    (hk : KeyInv t1 p) (hne : p.self ≠ sender)
    (hLself : ∃ L, get t1 (2 * p.self) = some (.leaf L))
    (hLsender : ∃ L, get t1 (2 * sender) = some (.leaf L))
    (hlenk : p.keys.length = (directCopathOf t1 p.self).length + 1)
    (hadd : p.self ∉ added) :
    ∃ d, decap t' p sender pk added = .ok d := by
  obtain ⟨k, c, F⟩ := Dec.facts_of hpu hf hs hn hk hne hLself hLsender
  have hc := F.hc
  rw [directCopathOf_length t1 k p.self F.hk1, if_pos F.ha] at hlenk
  obtain ⟨La, hLa⟩ := F.leafSelf
  have hpath := fun i => Dec.path_getElem? t' k p.self i F.hk' F.ha
  generalize hP : (2 * p.self) :: (directCopathOf t' p.self).map (·.1) = path at hpath
  -- walk down to the first non-blank node
  have h0 : ∃ n, path[0]? = some n ∧ isBlank t' n = false := by
    refine ⟨Dec.pnode p.self 0, by rw [hpath 0]; simp, ?_⟩
    unfold isBlank
    rw [F.low 0 (Nat.zero_le _), Dec.pnode_zero, hLa]; rfl
  obtain ⟨i, hi⟩ := Dec.findResolvedPosAux_some t' path h0 (c + 1) c (Nat.lt_succ_self c)
    (fun i' hi' => by rw [hpath i', if_pos (by omega)]; rfl)
  obtain ⟨hic, ⟨n0, hn1, hn2⟩, hbl⟩ := Dec.findResolvedPosAux_spec _ _ _ _ _ (Nat.lt_succ_self c) hi
  rw [hpath i, if_pos (by omega)] at hn1
  cases hn1
  obtain ⟨n, hg⟩ : ∃ n, get t' (Dec.pnode p.self i) = some n := by
    unfold isBlank at hn2
    cases hx : get t' (Dec.pnode p.self i) with
    | none => rw [hx] at hn2; cases hn2
    | some n => exact ⟨n, rfl⟩
  have hbl' : ∀ i', i < i' → i' ≤ c → get t' (Dec.pnode p.self i') = none := by
    intro i' h1 h2
    obtain ⟨m, hm1, hm2⟩ := hbl i' h1 h2
    rw [hpath i', if_pos (by omega)] at hm1
    cases hm1
    unfold isBlank at hm2
    simpa using hm2
  -- the slot
  obtain ⟨slot, key, hfr, hslc, hkey, hmemH, hpar⟩ : ∃ slot key,
      findResolvedPos t' p path c = some slot ∧ slot ≤ c ∧ p.keys[slot]? = some (some key) ∧
      Dec.pnode p.self slot ∈ resHead (Dec.pnode p.self i) n ∧
      (Dec.pnode p.self slot % 2 = 1 ∨ Dec.pnode p.self slot = 2 * p.self) := by
    cases hki : p.keys[i]? with
    | none =>
      exfalso
      rw [List.getElem?_eq_none_iff] at hki
      omega
    | some o =>
      cases o with
      | some key =>
        refine ⟨i, key, ?_, hic, hki, ?_, ?_⟩
        · unfold findResolvedPos; rw [hi]; simp only; rw [hki]
        · cases n <;> simp [resHead]
        · cases i with
          | zero => right; exact Dec.pnode_zero _
          | succ j => left; exact nd_succ_odd _ _
      | none =>
        have h1 := F.keys i
        rw [if_pos (by omega)] at h1
        have h2 : slotAt p.keys i = none := by unfold slotAt; rw [hki]; rfl
        rw [h2] at h1
        have h3 := F.keys 0
        rw [if_pos (by omega), Dec.pnode_zero] at h3
        unfold Dec.expKey at h3
        rw [hLa] at h3
        simp only at h3
        refine ⟨0, La.hpke, ?_, Nat.zero_le _, Dec.slotAt_eq_some.1 h3, ?_, Or.inr (Dec.pnode_zero _)⟩
        · unfold findResolvedPos; rw [hi]; simp only; rw [hki]
        · rw [Dec.pnode_zero]
          unfold Dec.expKey at h1
          rw [← F.low i hic, hg] at h1
          cases n with
          | leaf l => cases h1
          | parent P =>
            simp only at h1
            split at h1
            · rename_i hcont
              simp only [resHead, List.mem_cons, List.mem_map]
              right
              exact ⟨p.self, by simpa using hcont, rfl⟩
            · cases h1
  -- the ciphertext position
  have hmem : Dec.pnode p.self slot ∈ resolution t' (Dec.pnode p.self c) := by
    rw [show resolution t' (Dec.pnode p.self c) = resCF t' c (p.self / 2 ^ c) from resolution_nd _ _ _]
    exact Dec.resHead_sub_resCF t' p.self i n hg c hic hbl' _ hmemH
  obtain ⟨ctPos, hct⟩ :
      ∃ ctPos, findCiphertextPos t' (Dec.pnode p.self c) (Dec.pnode p.self slot) added = some ctPos := by
    unfold findCiphertextPos
    simp only
    rw [← Option.isSome_iff_exists, List.findIdx?_isSome, List.any_eq_true]
    refine ⟨_, List.mem_filter.2 ⟨hmem, ?_⟩, by simp⟩
    rcases hpar with h | h
    · simp [h]
    · rw [h]
      have : 2 * p.self / 2 = p.self := by omega
      simp [this, hadd]
  obtain ⟨key0, hk0⟩ := F.pkLca
  cases hd : decap t' p sender pk added with
  | ok d => exact ⟨d, rfl⟩
  | error e =>
    exfalso
    rw [Dec.decap_eq] at hd
    simp only at hd
    rw [hP, F.hlvl, if_neg (by omega), Nat.add_sub_cancel, hfr] at hd
    simp only at hd
    rw [hpath c, if_pos (by omega)] at hd
    simp only at hd
    rw [hpath slot, if_pos (by omega)] at hd
    simp only at hd
    rw [hct] at hd
    simp only at hd
    rw [hk0] at hd
    simp only at hd
    rw [hkey] at hd
    cases hd

end MlsVerif.Tree
