import MlsVerif.Proofs.Tree.Commit
/-
The tree edit of an EXTERNAL commit (`apply_proposals_from_new_member`): `batch_edit` on the proposals (at most
one Remove; `batch_edit` trims), then `add_leaf(external_leaf, None)` on the trimmed tree, no second trim.

* `addLeaf` on a tree without trailing blank leaves none (`noTrail_addLeaf`), so the insertion is itself a
  `batchEdit` with one Add (`batchEdit_addOne`) and every tree-layer fact about `batchEdit` applies to it;
* the two `EditSpec`s compose (`editSpec_ext`): seen from the old tree the whole edit is "Remove `rs`, Add `l`";
* `receiver_commit_spec`: `receiver_commit` of `Commit.lean` from the `EditSpec` alone, with the list of leaves
  excluded from the resolutions (`decap`'s `added_leaves`) decoupled from the added positions — an external
  commit excludes nothing although the tree has a new, unmerged leaf.
-/
namespace MlsVerif.Tree
open MlsVerif.TreeMath

/-! ### no trailing blank after `addLeaf` -/

theorem trim_eq_of_noTrail {t : Tree} (h : NoTrail t) : trim t = t := by
  obtain ⟨n, hn⟩ := trim_prefix t
  cases n with
  | zero => simpa using hn.symm
  | succ n =>
    exfalso
    apply h
    rw [hn, List.replicate_succ', ← List.append_assoc, List.getLast?_append]
    simp

theorem insertLeaf_length_le (t : Tree) (i : Nat) (l : Leaf) :
    (insertLeaf t i l).length ≤ max (max t.length 1) (2 * i + 1) := by
  unfold insertLeaf
  simp only
  split
  · rw [length_set]
    simp only [List.length_append, List.length_cons, List.length_nil]
    omega
  · split
    · rw [length_set]; simp only [List.length_cons, List.length_nil]; omega
    · rw [length_set]; omega

theorem noTrail_addLeaf {t t' : Tree} {l : Leaf} {start i : Nat} (hs : PreShape t) (ht : NoTrail t)
    (h : addLeaf t l start = .ok (i, t')) : NoTrail t' := by
  unfold addLeaf at h
  simp only at h
  split at h
  · cases h
  · split at h
    · rename_i t2 hu
      simp only [Except.ok.injEq, Prod.mk.injEq] at h
      obtain ⟨rfl, rfl⟩ := h
      obtain ⟨_, hpos⟩ := Add.nextEmptyLeaf_blank t start
      obtain ⟨L1, L2, L3, L4⟩ := Add.insertLeaf_spec t (nextEmptyLeaf t start) l hs.2 hpos
      have L5 := insertLeaf_length_le t (nextEmptyLeaf t start) l
      rw [Add.updateUnmerged_eq] at hu
      obtain ⟨r1, r2, r3, r4⟩ := Add.um_fold _ _ _ _ (Add.path_nodup _ _) hu
      generalize nextEmptyLeaf t start = i at *
      generalize insertLeaf t i l = T at *
      -- non-blank nodes stay non-blank through `updateUnmerged`
      have keep : ∀ x, get T x ≠ none → get t2 x ≠ none := by
        intro x hx
        by_cases hp : ∃ P, get T x = some (.parent P)
        · obtain ⟨P, hP⟩ := hp
          by_cases hm : x ∈ (directCopathOf T i).map (·.1)
          · obtain ⟨u, _, hu2⟩ := r3 x P hm hP
            rw [hu2]; simp
          · rw [r2 x hm]; exact hx
        · rw [r4 x (fun P hP => hp ⟨P, hP⟩)]; exact hx
      rw [noTrail_iff, r1]
      right
      apply keep
      rw [L4]
      split
      · simp
      · rename_i hne
        -- the last node is a node of `t`: the length did not change
        have hlen : T.length = t.length := by
          rw [noTrail_iff] at ht
          omega
        rw [hlen]
        rw [noTrail_iff] at ht
        rcases ht with ht | ht
        · omega
        · exact ht
    · cases h

/-- inserting the external committer's leaf into a tree without trailing blanks is a `batchEdit` with one Add:
the final `trim` does nothing -/
theorem batchEdit_addOne {t t' : Tree} {l : Leaf} {i : Nat} (hs : ShapeInv t)
    (h : addLeaf t l 0 = .ok (i, t')) : batchEdit t ⟨[], [], [l]⟩ = .ok ([i], t') := by
  have hn := noTrail_addLeaf hs.1 hs.2 h
  unfold batchEdit
  simp only [List.reverse_nil, applyRemoves, applyUpdates, applyAdds, h, bind, Except.bind, pure, Except.pure,
    List.foldlM_nil, List.foldl_nil, List.reverse_cons, List.nil_append, trim_eq_of_noTrail hn]

/-! ### the composed edit -/

/-- "Remove `rs`" followed by "Add `l`" is, seen from the old tree, "Remove `rs`, Add `l`" -/
theorem editSpec_ext {t0 t1 t2 : Tree} {rs a : List Nat} {l : Leaf} {i : Nat}
    (h1 : EditSpec t0 t1 ⟨rs, [], []⟩ a) (h2 : EditSpec t1 t2 ⟨[], [], [l]⟩ [i]) (hs2 : PreShape t2) :
    EditSpec t0 t2 ⟨rs, [], [l]⟩ [i] := by
  have ha : a = [] := List.eq_nil_of_length_eq_zero (by simpa using h1.added_length)
  subst ha
  have t1e : (Edits.mk rs [] []).touched = rs := by simp [Edits.touched]
  have t2e : (Edits.mk [] [] [l]).touched = [] := by simp [Edits.touched]
  have t3e : (Edits.mk rs [] [l]).touched = rs := by simp [Edits.touched]
  refine ⟨?_, ?_, ?_, ?_, ?_, by simp, ?_, ?_, ?_⟩
  · intro x P' hg
    obtain ⟨P1, hP1, hk1, hu1⟩ := h2.parents x P' hg
    obtain ⟨P, hP, hk, hu⟩ := h1.parents x P1 hP1
    refine ⟨P, hP, by rw [hk1, hk], fun l' => ?_⟩
    rw [hu1, hu]
    simp
  · intro r hr x hx hbel
    rw [t3e] at hr
    have hb1 := h1.touched_path_blank r (by rw [t1e]; exact hr) x hx hbel
    cases hg : get t2 x with
    | none => rfl
    | some N =>
      cases N with
      | leaf L =>
        have := (hs2.1 x (lt_of_get_some hg)).2 hx
        rw [hg] at this; cases this
      | parent P' =>
        obtain ⟨P1, hP1, _⟩ := h2.parents x P' hg
        rw [hb1] at hP1; cases hP1
  · intro j hj hja
    rw [t3e] at hj
    rw [h2.leaves_kept j (by rw [t2e]; simp) hja, h1.leaves_kept j (by rw [t1e]; exact hj) (by simp)]
  · intro r hr hra
    rw [h2.leaves_kept r (by rw [t2e]; simp) hra]
    exact h1.removed_leaf r hr (by simp)
  · intro u hu; cases hu
  · exact h2.added_leaf
  · exact h2.added_unmerged
  · intro j hj
    rcases h2.added_fresh j hj with h | h
    · cases h
    · by_cases hr : j ∈ rs
      · exact Or.inl hr
      · right
        rw [← h1.leaves_kept j (by rw [t1e]; exact hr) (by simp)]
        exact h

/-- everything the tree edit of an external commit did -/
structure ExtEdit (t0 : Tree) (rs : List Nat) (l : Leaf) (t1 : Tree) (i : Nat) (t1x : Tree) : Prop where
  wf1 : WF t1
  wfx : WF t1x
  spec1 : EditSpec t0 t1 ⟨rs, [], []⟩ []
  spec : EditSpec t0 t1x ⟨rs, [], [l]⟩ [i]
  leaf : get t1x (2 * i) = some (.leaf l)
  second : batchEdit t1 ⟨[], [], [l]⟩ = .ok ([i], t1x)

theorem extEdit_of {t0 t1 t1x : Tree} {rs a : List Nat} {l : Leaf} {i : Nat} (hw : WF t0)
    (hb : batchEdit t0 ⟨rs, [], []⟩ = .ok (a, t1)) (hadd : addLeaf t1 l 0 = .ok (i, t1x))
    (hfr : l.hpke ∉ keyStamps t1) : a = [] ∧ ExtEdit t0 rs l t1 i t1x := by
  have hw1 : WF t1 := wf_batchEdit hw (by intro l' hl'; simp at hl') hb
  have hes1 := batchEdit_editSpec hw.1.1 hb
  have ha : a = [] := List.eq_nil_of_length_eq_zero (by simpa using hes1.added_length)
  subst ha
  have hb2 := batchEdit_addOne hw1.1 hadd
  have hwx : WF t1x := wf_batchEdit hw1 (by
    intro l' hl'
    simp only [List.map_nil, List.append_nil, List.mem_singleton] at hl'
    subst hl'; exact hfr) hb2
  have hes2 := batchEdit_editSpec hw1.1.1 hb2
  obtain ⟨l', hl1, hl2⟩ := hes2.added_leaf 0 i rfl
  simp only [List.getElem?_cons_zero, Option.some.injEq] at hl1
  subst hl1
  exact ⟨rfl, hw1, hwx, hes1, editSpec_ext hes1 hes2 hwx.1.1, hl2, hb2⟩

/-! ### the receivers' provisional tree

The committer inserts the leaf node `l` it generated and `encap` replaces it by the path's leaf node; a receiver
inserts the PATH's leaf node `l'` (`external_leaf = update_path.leaf_node`) and `apply_update_path` writes it again.
The two provisional trees differ only in the content of the new leaf: `apply_update_path` gives the same tree,
`provisional_private_tree` the same slots. -/

theorem set_set_same (t : Tree) (i : Nat) (a b : Option Node) : set (set t i a) i b = set t i b := by
  apply ext_get (by simp)
  intro x _
  rw [get_set, get_set, get_set, length_set]
  by_cases h : i = x ∧ i < t.length
  · obtain ⟨rfl, h2⟩ := h; simp [h2]
  · simp [h]

theorem set_set_comm (t : Tree) {i j : Nat} (h : i ≠ j) (a b : Option Node) :
    set (set t i a) j b = set (set t j b) i a := by
  apply ext_get (by simp)
  intro x _
  simp only [get_set, length_set]
  by_cases h1 : j = x <;> by_cases h2 : i = x <;> simp [h1, h2] <;> omega

namespace Add

theorem umF_set_comm {leaf j : Nat} {a : Option Node} {t : Tree} {cp : Nat × Nat} (hj : cp.1 ≠ j) :
    umF leaf (set t j a) cp = (umF leaf t cp).map (set · j a) := by
  unfold umF
  rw [get_set_ne _ _ _ _ (Ne.symm hj)]
  cases hg : get t cp.1 with
  | none => rfl
  | some N =>
    cases N with
    | leaf L => rfl
    | parent P =>
      simp only
      cases insertSorted leaf P.unmerged with
      | none => rfl
      | some u =>
        simp only [Except.map]
        rw [set_set_comm _ (Ne.symm hj)]

theorem umFold_set_comm {leaf j : Nat} {a : Option Node} : ∀ (cps : List (Nat × Nat)) (t : Tree),
    (∀ cp ∈ cps, cp.1 ≠ j) →
    cps.foldlM (umF leaf) (set t j a) = (cps.foldlM (umF leaf) t).map (set · j a)
  | [], t, _ => rfl
  | cp :: cps, t, h => by
    rw [List.foldlM_cons, List.foldlM_cons, umF_set_comm (h cp List.mem_cons_self)]
    cases hu : umF leaf t cp with
    | error e => rfl
    | ok t2 =>
      simp only [Except.map, bind, Except.bind]
      exact umFold_set_comm cps t2 (fun cp' hcp' => h cp' (List.mem_cons_of_mem _ hcp'))

end Add

theorem directCopathOf_set (t : Tree) (i : Nat) (a : Option Node) (leaf : Nat) :
    directCopathOf (set t i a) leaf = directCopathOf t leaf := by
  unfold directCopathOf
  rw [leafCount_congr (length_set _ _ _)]

theorem insertLeaf_other (t : Tree) (i : Nat) (l l' : Leaf) :
    insertLeaf t i l' = set (insertLeaf t i l) (2 * i) (some (.leaf l')) := by
  unfold insertLeaf
  simp only
  rw [set_set_same]

/-- `addLeaf` with another leaf node: same position, same tree except for the content of the new leaf -/
theorem addLeaf_other {t t' : Tree} {l l' : Leaf} {start i : Nat}
    (h : addLeaf t l start = .ok (i, t')) (hc : conflicts t l' = false) :
    addLeaf t l' start = .ok (i, set t' (2 * i) (some (.leaf l'))) := by
  unfold addLeaf at h ⊢
  simp only at h ⊢
  split at h
  · cases h
  · split at h
    · rename_i t2 hu
      simp only [Except.ok.injEq, Prod.mk.injEq] at h
      obtain ⟨rfl, rfl⟩ := h
      simp only [hc, Bool.false_eq_true, if_false]
      rw [insertLeaf_other t _ l l', Add.updateUnmerged_eq, directCopathOf_set] at *
      rw [Add.umFold_set_comm _ _ (by
        intro cp hcp
        obtain ⟨k, hk, _, _⟩ := leafCount_spec (insertLeaf t (nextEmptyLeaf t start) l)
        obtain ⟨_, j, _, rfl⟩ := mem_directCopathOf hk hcp
        have := pathEntry_fst_odd (nextEmptyLeaf t start) j
        omega), hu]
      rfl
    · cases h

theorem isBlank_set_leaf {t : Tree} {x : Nat} {L L' : Leaf} (h : get t x = some (.leaf L)) (y : Nat) :
    isBlank (set t x (some (.leaf L'))) y = isBlank t y := by
  unfold isBlank
  rw [get_set]
  split
  · rename_i hxy
    rw [← hxy.1, h]; rfl
  · rfl

/-- a receiver's private slots do not depend on the content of the new leaf -/
theorem provisionalPriv_set_leaf {t : Tree} {x : Nat} {L L' : Leaf} (h : get t x = some (.leaf L)) (p : Priv)
    (own : Option Nat) :
    provisionalPriv (set t x (some (.leaf L'))) p own = provisionalPriv t p own := by
  unfold provisionalPriv
  simp only [directCopathOf_set, isBlank_set_leaf h]

/-- … nor does the tree after `apply_update_path` -/
theorem applyUpdatePath_set_leaf {t : Tree} {i : Nat} {L L' nl : Leaf} (h : get t (2 * i) = some (.leaf L))
    (pk : List (Option Nat)) :
    applyUpdatePath (set t (2 * i) (some (.leaf L'))) i nl pk = applyUpdatePath t i nl pk := by
  rw [Enc.applyUpdatePath_eq, Enc.applyUpdatePath_eq, get_set_self _ _ _ (lt_of_get_some h), h,
    directCopathOf_set, set_set_same]

/-! ### receivers -/

section Receive
variable {t0 t1 t' : Tree} {e : Edits} {added excl : List Nat} {sender : Nat} {nl : Leaf}
  {pk : List (Option Nat)}

/-- `receiver_commit` from the `EditSpec` of the proposals alone; `excl`: the leaves excluded from the
resolutions by sender and receiver -/
theorem receiver_commit_spec (hes : EditSpec t0 t1 e added) (hs1 : PreShape t1) (hn1 : NonEmptyInv t1)
    {p : Priv} (hk : KeyInv t0 p) (hm : ∃ L, get t0 (2 * p.self) = some (.leaf L))
    (ht : p.self ∉ e.touched) (hne : p.self ≠ sender) (hx : p.self ∉ excl) (hf : FilterOk t1 sender pk)
    (ha : applyUpdatePath t1 sender nl pk = .ok t') :
    ∃ d, decap t' (provisionalPriv t1 p none) sender pk excl = .ok d ∧
      KeyInv t' d.priv ∧ d.priv.self = p.self ∧
      ∃ cp resNode key,
        (directCopathOf t1 sender)[leafLcaLevel (2 * p.self) (2 * sender) - 2]? = some cp ∧
        (∃ k, pk[leafLcaLevel (2 * p.self) (2 * sender) - 2]? = some (some k)) ∧
        ((2 * p.self) :: (directCopathOf t' p.self).map (·.1))[d.slot]? = some resNode ∧
        ((resolution t' cp.2).filter (fun i => !(excl.map (2 * ·)).contains i))[d.ctPos]?
          = some resNode ∧
        (provisionalPriv t1 p none).keys[d.slot]? = some (some key) ∧
        (get t' resNode).map Node.key = some key := by
  have hna := not_added_of_member hes hm ht
  have hk1 := provisional_keyinv hes hk ht hna hs1
  obtain ⟨hpu, hLs⟩ := applyUpdatePath_spec ha
  have hself : (provisionalPriv t1 p none).self = p.self := provisionalPriv_self _ _ _
  have hm1 : ∃ L, get t1 (2 * (provisionalPriv t1 p none).self) = some (.leaf L) := by
    rw [hself, hes.leaves_kept _ ht hna]; exact hm
  have hne' : (provisionalPriv t1 p none).self ≠ sender := by rw [hself]; exact hne
  obtain ⟨d, hd⟩ := decap_succeeds hpu hf hs1 hn1 hk1 hne' hm1 hLs
    (by rw [provisional_length, hself]) (by rw [hself]; exact hx)
  have h1 := decap_keyinv hpu hf hs1 hn1 hk1 hne' hm1 hLs hd
  have h2 := decap_position_agrees hpu hf hs1 hn1 hk1 hne' hm1 hLs hd
  rw [hself] at h1 h2
  exact ⟨d, hd, h1.1, h1.2, h2⟩

end Receive

/-- A member of the old tree that the external commit does not remove: it is not the new leaf, `decap` (nothing
excluded) succeeds on the committer's new tree, the ciphertext it picks is sealed to a node whose key it holds,
and afterwards it holds exactly the keys it is entitled to. -/
theorem ext_receiver {t0 t1 t1x : Tree} {rs : List Nat} {l nl : Leaf} {i fresh : Nat} {o : EncapOut}
    (hx : ExtEdit t0 rs l t1 i t1x) (he : encap t1x i nl [] fresh = .ok o)
    {p : Priv} (hk : KeyInv t0 p) (hm : ∃ L, get t0 (2 * p.self) = some (.leaf L)) (ht : p.self ∉ rs) :
    p.self ≠ i ∧ (∃ L, get o.tree (2 * p.self) = some (.leaf L)) ∧
    ∃ d, decap o.tree (provisionalPriv t1x p none) i o.pathKeys [] = .ok d ∧
      KeyInv o.tree d.priv ∧ d.priv.self = p.self ∧
      ∃ cp resNode key k0,
        (directCopathOf t1x i)[leafLcaLevel (2 * p.self) (2 * i) - 2]? = some cp ∧
        o.pathKeys[leafLcaLevel (2 * p.self) (2 * i) - 2]? = some (some k0) ∧
        ((resolution o.tree cp.2).filter (fun j => !(([] : List Nat).map (2 * ·)).contains j))[d.ctPos]?
          = some resNode ∧
        (provisionalPriv t1x p none).keys[d.slot]? = some (some key) ∧
        (get o.tree resNode).map Node.key = some key := by
  have hL : ∃ L, get t1x (2 * i) = some (.leaf L) := ⟨l, hx.leaf⟩
  have hself := self_lt_of_leaf hL
  obtain ⟨hpu, hf, _, _, _⟩ := encap_spec he hself
  have ha := encap_applyUpdatePath_agree hL he
  have htouch : p.self ∉ (Edits.mk rs [] [l]).touched := by simpa [Edits.touched] using ht
  have hna := not_added_of_member hx.spec hm htouch
  have hne : p.self ≠ i := by simpa using hna
  obtain ⟨d, hd, h1, h2, cp, resNode, key, c1, ⟨k0, c2⟩, _, c4, c5, c6⟩ :=
    receiver_commit_spec (excl := []) hx.spec hx.wfx.1.1 hx.wfx.2.2.2 hk hm htouch hne (by simp) hf ha
  refine ⟨hne, ?_, d, hd, h1, h2, cp, resNode, key, k0, c1, c2, c4, c5, c6⟩
  -- the member's leaf is still there
  obtain ⟨L, hLm⟩ := hm
  refine ⟨L, ?_⟩
  obtain ⟨k, hk', _, _⟩ := leafCount_spec t1x
  rw [hpu.offPath (2 * p.self) (by omega) (by
    intro cp' hcp heq
    obtain ⟨_, jj, _, rfl⟩ := mem_directCopathOf hk' hcp
    have := pathEntry_fst_odd i jj
    omega), hx.spec.leaves_kept _ htouch hna]
  exact hLm

/-- where the key stamps of the tree come from -/
theorem ExtEdit.keyStamps {t0 t1 t1x : Tree} {rs : List Nat} {l : Leaf} {i : Nat}
    (hx : ExtEdit t0 rs l t1 i t1x) :
    ∀ k ∈ keyStamps t1x, k ∈ keyStamps t1 ∨ k = l.hpke := by
  intro k hk
  obtain ⟨x, n, hg, rfl⟩ := mem_keyStamps.1 hk
  have hes := batchEdit_editSpec hx.wf1.1.1 hx.second
  cases n with
  | parent P' =>
    obtain ⟨P, hP, hkey, _⟩ := hes.parents _ _ hg
    exact Or.inl (mem_keyStamps.2 ⟨x, _, hP, by simp [Node.key, hkey]⟩)
  | leaf L =>
    rcases batchEdit_leaf_source hx.wf1.1.1 hx.wf1.2.2.2 hx.second hg with h | h
    · exact Or.inl (mem_keyStamps.2 ⟨x, _, h, rfl⟩)
    · simp only [List.map_nil, List.append_nil, List.mem_singleton] at h
      subst h
      exact Or.inr rfl

end MlsVerif.Tree
