import MlsVerif.Proofs.Tree.JoinJoiner
import MlsVerif.Proofs.Tree.JoinRemoved
/-
Non-vacuity: the private-state functions on a concrete four-leaf tree.
-/
namespace MlsVerif.Tree
namespace Join
open MlsVerif.TreeMath

/-- decidable equality on `Except`, for the `decide +kernel` examples below only -/
@[instance_reducible] def decEqExcept {ε α : Type} [DecidableEq ε] [DecidableEq α] : DecidableEq (Except ε α)
  | .ok a, .ok b => if h : a = b then isTrue (by rw [h]) else isFalse (by intro h'; injection h' with h'; exact h h')
  | .error a, .error b => if h : a = b then isTrue (by rw [h]) else isFalse (by intro h'; injection h' with h'; exact h h')
  | .ok _, .error _ => isFalse (by intro h; cases h)
  | .error _, .ok _ => isFalse (by intro h; cases h)

attribute [local instance] decEqExcept

def lf (n : Nat) : Option Node := some (.leaf ⟨n, 100 + n, 200 + n⟩)
def pr (k : Nat) (u : List Nat) : Option Node := some (.parent ⟨k, u⟩)

/-- full four-leaf tree -/
def exT0 : Tree := [lf 0, pr 10 [], lf 1, pr 11 [], lf 2, pr 12 [], lf 3]
/-- member 0 holds its leaf key, node 1 and the root (node 3) -/
def exP0 : Priv := { self := 0, keys := [some 100, some 10, some 11] }
/-- after removing member 1 -/
def exT1 : Tree := [lf 0, none, none, none, lf 2, pr 12 [], lf 3]

example : batchEdit exT0 { removes := [1], updates := [], adds := [] } = .ok ([], exT1) := by
  decide +kernel
example : KeyInv exT0 exP0 := by decide +kernel
example : provisionalPriv exT1 exP0 none = { self := 0, keys := [some 100, none, none] } := by
  decide +kernel
example : KeyInv exT1 (provisionalPriv exT1 exP0 none) := by decide +kernel
/-- the stale state is *not* consistent with the new tree: the lemma is not trivial -/
example : ¬ KeyInv exT1 exP0 := by decide +kernel
example : PreShape exT1 := by decide +kernel
/-- the removed member's expected stamps and their absence from the new tree -/
example : expectedSlots exT0 1 = [some 101, some 10, some 11] := by decide +kernel
example : ∀ k ∈ [101, 10, 11], k ∉ keyStamps exT1 := by decide +kernel

/-- own update of member 0 with new leaf key 150 -/
def exT1u : Tree := [some (.leaf ⟨0, 150, 200⟩), none, lf 1, none, lf 2, pr 12 [], lf 3]
example : batchEdit exT0 { removes := [], updates := [(0, ⟨0, 150, 200⟩)], adds := [] } = .ok ([], exT1u) := by
  decide +kernel
example : provisionalPriv exT1u exP0 (some 150) = { self := 0, keys := [some 150, none, none] } := by
  decide +kernel
example : KeyInv exT1u (provisionalPriv exT1u exP0 (some 150)) := by decide +kernel

/-- joiner: member 1 is removed and a new leaf 7 is added at position 1; the committer is member 3 -/
def exJ1 : Tree := [lf 0, none, lf 7, none, lf 2, pr 12 [], lf 3]
example : batchEdit exT0 { removes := [1], updates := [], adds := [⟨7, 107, 207⟩] } = .ok ([1], exJ1) := by
  decide +kernel
def exPk : List (Option Nat) := [some 20, some 21]
def exJ' : Tree := [lf 0, none, lf 7, pr 21 [], lf 2, pr 20 [], some (.leaf ⟨3, 133, 203⟩)]
example : applyUpdatePath exJ1 3 ⟨3, 133, 203⟩ exPk = .ok exJ' := by decide +kernel
example : FilterOk exJ1 3 exPk := by decide +kernel
example : PreShape exJ1 ∧ NonEmptyInv exJ1 ∧ PreShape exJ' ∧ NonEmptyInv exJ' := by decide +kernel
example : joinerPriv exJ' 1 107 3 true = .ok { self := 1, keys := [some 107, none, some 21] } := by
  decide +kernel
example : KeyInv exJ' { self := 1, keys := [some 107, none, some 21] } := by decide +kernel

/-- joiner below a non-blank parent where it is unmerged, and a filtered committer position:
tree with leaves 0, 1 (new, unmerged at node 1 and 3), 3; leaf 2 blank, so node 5 is filtered for
committer 3 -/
def exK1 : Tree := [lf 0, pr 10 [1], lf 7, pr 11 [1], none, none, lf 3]
def exK' : Tree := [lf 0, pr 10 [1], lf 7, pr 31 [], none, none, some (.leaf ⟨3, 133, 203⟩)]
example : applyUpdatePath exK1 3 ⟨3, 133, 203⟩ [none, some 31] = .ok exK' := by decide +kernel
example : FilterOk exK1 3 [none, some 31] := by decide +kernel
example : PreShape exK1 ∧ NonEmptyInv exK1 ∧ PreShape exK' ∧ NonEmptyInv exK' := by decide +kernel
example : joinerPriv exK' 1 107 3 true = .ok { self := 1, keys := [some 107, none, some 31] } := by
  decide +kernel
example : KeyInv exK' { self := 1, keys := [some 107, none, some 31] } := by decide +kernel
/-- the joiner with the committer as sibling has no common ancestor above its own parent:
`leafLcaLevel` ≥ 2 always holds for distinct leaves -/
example : joinerPriv exK' 0 100 1 true = .ok { self := 0, keys := [some 100, some 10, some 31] } := by
  decide +kernel

/-- the hypotheses of `joiner_keyinv` are jointly satisfiable: instance on `exK1` / `exK'` -/
theorem exK_pathUpdated : PathUpdated exK1 exK' 3 ⟨3, 133, 203⟩ [none, some 31] where
  leafCount_eq := by decide +kernel
  length_le := by decide +kernel
  leaf := by decide +kernel
  onPath := by
    intro j cp h
    have hd : directCopathOf exK1 3 = [(5, 4), (3, 1)] := by decide +kernel
    rw [hd] at h
    match j, h with
    | 0, h => simp at h; subst h; decide +kernel
    | 1, h => simp at h; subst h; decide +kernel
    | j + 2, h => simp at h
  offPath := by
    intro x hx hcp
    have hd : directCopathOf exK1 3 = [(5, 4), (3, 1)] := by decide +kernel
    rw [hd] at hcp
    by_cases hlt : x < 7
    · have key : ∀ x < 7, x ≠ 2 * 3 → (∀ cp ∈ [((5 : Nat), (4 : Nat)), (3, 1)], cp.1 ≠ x) →
          get exK' x = get exK1 x := by decide +kernel
      exact key x hlt hx hcp
    · rw [get_of_le (show exK'.length ≤ x by simp [exK']; omega),
        get_of_le (show exK1.length ≤ x by simp [exK1]; omega)]

example : (∀ p, joinerPriv exK' 1 107 3 true = .ok p → KeyInv exK' p) ∧
    ∃ p, joinerPriv exK' 1 107 3 true = .ok p := by
  refine joiner_keyinv (L := ⟨7, 107, 207⟩) exK_pathUpdated (by decide +kernel) (by decide +kernel)
    (by decide +kernel) (by decide +kernel) (by decide) (by decide +kernel)
    ⟨⟨3, 103, 203⟩, by decide +kernel⟩ ?_
  intro x P hg hb
  have hlt : x < 7 := lt_of_get_some hg
  have key : ∀ x < 7, ∀ P ∈ parentOf? (get exK1 x), below 1 x → 1 ∈ P.unmerged := by
    decide +kernel
  exact key x hlt P (by rw [hg]; rfl) hb

/-- the hypotheses of `provisional_keyinv` / `removed_keys_gone` are jointly satisfiable: instance
on `exT0` / `exT1` (member 1 removed) -/
theorem exT_editSpec : EditSpec exT0 exT1 { removes := [1], updates := [], adds := [] } [] where
  parents := by
    intro x P' hg
    have key : ∀ x < 7, ∀ P' ∈ parentOf? (get exT1 x), get exT0 x = some (.parent P') := by
      decide +kernel
    exact ⟨P', key x (lt_of_get_some hg) P' (by rw [hg]; rfl), rfl, by simp⟩
  touched_path_blank := by
    intro r hr x hodd hb
    by_cases hlt : x < 7
    · have key : ∀ r ∈ [1], ∀ x < 7, x % 2 = 1 → below r x → get exT1 x = none := by
        decide +kernel
      exact key r hr x hlt hodd hb
    · exact get_of_le (by simp [exT1]; omega)
  leaves_kept := by
    intro i hi _
    by_cases hlt : i < 4
    · have key : ∀ i < 4, i ∉ [1] → get exT1 (2 * i) = get exT0 (2 * i) := by decide +kernel
      exact key i hlt hi
    · rw [get_of_le (show exT1.length ≤ 2 * i by simp [exT1]; omega),
        get_of_le (show exT0.length ≤ 2 * i by simp [exT0]; omega)]
  removed_leaf := by decide +kernel
  updated_leaf := by intro u hu; cases hu
  added_length := rfl
  added_leaf := by intro j i h; simp at h
  added_unmerged := by intro i hi; cases hi
  added_fresh := by intro i hi; cases hi

example : KeyInv exT1 (provisionalPriv exT1 exP0 none) :=
  provisional_keyinv exT_editSpec (by decide +kernel) (by decide +kernel) (by decide +kernel)
    (by decide +kernel)

example : ∀ j k, slotAt (expectedSlots exT0 1) j = some k → k ∉ keyStamps exT1 := by
  refine removed_keys_gone (by decide +kernel) exT_editSpec (by decide +kernel) (by decide +kernel) ?_
  intro x L hg
  have key : ∀ x < 7, ∀ L ∈ leafOf? (get exT1 x), get exT0 x = some (.leaf L) := by decide +kernel
  exact Or.inl (key x (lt_of_get_some hg) L (by rw [hg]; rfl))

/-- `hfresh` in `removed_keys_gone` is needed: `batchEdit` accepts removing members 0 and 1 and
adding a leaf with member 1's HPKE stamp in the same commit (the `conflicts` check runs after the
removes); it lands on position 0, so `1 ∉ added`, yet the removed member's leaf stamp 101 is still
in the tree -/
example : batchEdit exT0 { removes := [0, 1], updates := [], adds := [⟨1, 101, 201⟩] } =
    .ok ([0], [lf 1, none, none, none, lf 2, pr 12 [], lf 3]) := by decide +kernel
example : slotAt (expectedSlots exT0 1) 0 = some 101 ∧
    101 ∈ keyStamps [lf 1, none, none, none, lf 2, pr 12 [], lf 3] := by decide +kernel

end Join
end MlsVerif.Tree
