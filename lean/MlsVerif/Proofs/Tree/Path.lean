import MlsVerif.Model.Tree
import MlsVerif.Proofs.TreeMath
/-
Closed forms for the index arithmetic used by the tree model: nodes as `nd l q`
(level `l`, `q`-th node of that level), the direct path / copath of a leaf as an explicit list,
`nextPow2`, `leafCount`.
-/
namespace MlsVerif.Tree
open MlsVerif.TreeMath

/-- the `q`-th node (from the left) of level `l` -/
def nd (l q : Nat) : Nat := 2 ^ l - 1 + 2 ^ (l + 1) * q

/-- sibling position within a level -/
def sib (q : Nat) : Nat := if q % 2 = 0 then q + 1 else q - 1

theorem level_nd (l q : Nat) : level (nd l q) = l := level_of_decomp l q

theorem eq_nd (x : Nat) : x = nd (level x) (x / 2 ^ (level x + 1)) := by
  obtain ⟨q, hq⟩ := level_decomp x
  have : x / 2 ^ (level x + 1) = q := by
    conv => lhs; lhs; rw [hq]
    exact decomp_div _ _
  rw [this]; exact hq

theorem nd_div (l q : Nat) : nd l q / 2 ^ (l + 1) = q := decomp_div l q

theorem nd_zero (q : Nat) : nd 0 q = 2 * q := by simp [nd]

theorem nd_inj {l q l' q' : Nat} (h : nd l q = nd l' q') : l = l' ∧ q = q' := by
  have h1 : l = l' := by rw [← level_nd l q, ← level_nd l' q', h]
  subst h1
  refine ⟨rfl, ?_⟩
  rw [← nd_div l q, ← nd_div l q', h]

theorem nd_succ_odd (l q : Nat) : nd (l + 1) q % 2 = 1 := by
  unfold nd
  have e1 := pow_succ' l
  have e2 : 2 ^ (l + 1 + 1) * q = 2 * (2 ^ (l + 1) * q) := by rw [pow_succ' (l+1), Nat.mul_assoc]
  have := Nat.two_pow_pos l
  omega

theorem nd_lt (k l q : Nat) (hl : l ≤ k) (hq : q < 2 ^ (k - l)) : nd l q < 2 ^ (k + 1) - 1 := by
  unfold nd
  obtain ⟨d, rfl⟩ : ∃ d, k = l + d := ⟨k - l, by omega⟩
  have e : 2 ^ (l + d + 1) = 2 ^ (l + 1) * 2 ^ d := by
    rw [show l + d + 1 = l + 1 + d by omega, Nat.pow_add]
  rw [Nat.add_sub_cancel_left] at hq
  have h2 : 2 ^ (l + 1) * (q + 1) ≤ 2 ^ (l + 1) * 2 ^ d := Nat.mul_le_mul_left _ hq
  rw [Nat.mul_add, Nat.mul_one] at h2
  have := Nat.two_pow_pos l
  have := pow_succ' l
  omega

theorem subtree_nd (l q : Nat) : subtree (nd l q) = (2 ^ l * q, 2 ^ l * q + 2 ^ l) :=
  subtree_decomp l q

/-- leaf `i` lies below node `x` (`TreeMath.subtree`) -/
def below (i x : Nat) : Prop := (subtree x).1 ≤ i ∧ i < (subtree x).2

instance (i x : Nat) : Decidable (below i x) := by unfold below; infer_instance

theorem below_nd (i l q : Nat) : below i (nd l q) ↔ i / 2 ^ l = q := by
  unfold below
  rw [subtree_nd]
  simp only
  have hp := Nat.two_pow_pos l
  constructor
  · intro ⟨h1, h2⟩
    apply Nat.div_eq_of_lt_le
    · rw [Nat.mul_comm]; exact h1
    · rw [Nat.add_mul, Nat.one_mul, Nat.mul_comm]; exact h2
  · intro h
    subst h
    have := Nat.div_add_mod i (2 ^ l)
    have := Nat.mod_lt i hp
    constructor <;> omega

theorem below_iff (i x : Nat) : below i x ↔ i / 2 ^ level x = x / 2 ^ (level x + 1) := by
  conv => lhs; rw [eq_nd x]
  exact below_nd _ _ _

/-- left / right child in closed form -/
theorem left?_nd (l q : Nat) : left? (nd (l + 1) q) = some (nd l (2 * q)) := by
  rw [left?_eq, level_nd]
  simp only [Nat.add_one_ne_zero, if_false, Nat.add_sub_cancel, Option.some.injEq]
  unfold nd
  have e1 := pow_succ' l
  have e2 : 2 ^ (l + 1 + 1) * q = 2 ^ (l + 1) * (2 * q) := by rw [pow_succ' (l+1)]; grind
  have := Nat.two_pow_pos l
  omega

theorem right?_nd (l q : Nat) : right? (nd (l + 1) q) = some (nd l (2 * q + 1)) := by
  rw [right?_eq, level_nd]
  simp only [Nat.add_one_ne_zero, if_false, Nat.add_sub_cancel, Option.some.injEq]
  unfold nd
  have e1 := pow_succ' l
  have e2 : 2 ^ (l + 1 + 1) * q = 2 ^ (l + 1) * (2 * q) := by rw [pow_succ' (l+1)]; grind
  have e3 : 2 ^ (l + 1) * (2 * q + 1) = 2 ^ (l + 1) * (2 * q) + 2 ^ (l + 1) := by grind
  have := Nat.two_pow_pos l
  omega

theorem left?_nd_zero (q : Nat) : left? (nd 0 q) = none := by
  rw [left?_eq, level_nd]; rfl

theorem right?_nd_zero (q : Nat) : right? (nd 0 q) = none := by
  rw [right?_eq, level_nd]; rfl

theorem psClosed_nd (l q : Nat) : psClosed (nd l q) = (nd (l + 1) (q / 2), nd l (sib q)) := by
  unfold nd
  rw [psClosed_decomp]
  unfold sib
  have e1 := pow_succ' l
  have e2 := pow_succ' (l + 1)
  have hp := Nat.two_pow_pos l
  obtain ⟨t, rfl | rfl⟩ : ∃ t, q = 2 * t ∨ q = 2 * t + 1 := ⟨q / 2, by omega⟩
  · have : 2 * t % 2 = 0 := by omega
    simp only [this, if_true]
    have : 2 * t / 2 = t := by omega
    rw [this]
    have e3 : 2 ^ (l + 1) * (2 * t) = 2 ^ (l + 1 + 1) * t := by grind
    have e4 : 2 ^ (l + 1) * (2 * t + 1) = 2 ^ (l + 1 + 1) * t + 2 ^ (l + 1) := by grind
    simp only [Prod.mk.injEq]
    omega
  · have : ¬ ((2 * t + 1) % 2 = 0) := by omega
    simp only [this, if_false]
    have : (2 * t + 1) / 2 = t := by omega
    rw [this]
    have e3 : 2 ^ (l + 1) * (2 * t) = 2 ^ (l + 1 + 1) * t := by grind
    have e4 : 2 ^ (l + 1) * (2 * t + 1) = 2 ^ (l + 1 + 1) * t + 2 ^ (l + 1) := by grind
    simp only [Nat.add_sub_cancel, Prod.mk.injEq]
    omega

/-- explicit direct path / copath from node `nd l q` up to the root of the tree of height `k`:
`d` more levels to go -/
def pathCF (l q : Nat) : Nat → List (Nat × Nat)
  | 0 => []
  | d + 1 => (nd (l + 1) (q / 2), nd l (sib q)) :: pathCF (l + 1) (q / 2) d

theorem root_pow (k : Nat) : root (2 ^ k) = nd k 0 := by simp [root, nd]

theorem directCopathAux_cf (k : Nat) : ∀ (d l q fuel : Nat), l + d = k → q < 2 ^ d → d ≤ fuel →
    directCopathAux (2 ^ k) fuel (nd l q) = pathCF l q d := by
  intro d
  induction d with
  | zero =>
    intro l q fuel hl hq _
    have : q = 0 := by simpa using hq
    subst this
    have : l = k := by omega
    subst this
    cases fuel with
    | zero => rfl
    | succ f => rw [directCopathAux, parentSibling?_eq, if_pos (root_pow l).symm]; rfl
  | succ d ih =>
    intro l q fuel hl hq hf
    obtain ⟨f, rfl⟩ : ∃ f, fuel = f + 1 := ⟨fuel - 1, by omega⟩
    have hne : nd l q ≠ root (2 ^ k) := by
      rw [root_pow]
      intro h
      have := (nd_inj h).1
      omega
    rw [directCopathAux, parentSibling?_eq, if_neg hne, psClosed_nd]
    simp only
    rw [pathCF, ih (l + 1) (q / 2) f (by omega) (by rw [pow_succ'] at hq; omega) (by omega)]

/-- the direct path / copath of leaf `i` in the tree with `2^k` leaves -/
theorem directCopath_leaf (k i : Nat) (hi : i < 2 ^ k) :
    directCopath (2 * i) (2 ^ k) = pathCF 0 i k := by
  unfold directCopath
  have : isInTree (2 * i) (root (2 ^ k)) = true := by
    rw [isInTree_iff']; rw [pow_succ']; omega
  rw [this]
  simp only [Bool.not_true, Bool.false_eq_true, if_false]
  have e := directCopathAux_cf k k 0 i (2 * 2 ^ k + 2) (by omega) hi (by
    have := @Nat.lt_two_pow_self k
    omega)
  rw [nd_zero] at e
  exact e

theorem directCopath_leaf_out (k i : Nat) (hi : ¬ i < 2 ^ k) :
    directCopath (2 * i) (2 ^ k) = [] := by
  unfold directCopath
  have : isInTree (2 * i) (root (2 ^ k)) = false := by
    rw [← Bool.not_eq_true, isInTree_iff', pow_succ']; omega
  rw [this]; rfl

theorem pathCF_length (l q d : Nat) : (pathCF l q d).length = d := by
  induction d generalizing l q with
  | zero => rfl
  | succ d ih => simp [pathCF, ih]

theorem pathCF_getElem? (l q d j : Nat) :
    (pathCF l q d)[j]? = if j < d then
      some (nd (l + j + 1) (q / 2 ^ (j + 1)), nd (l + j) (sib (q / 2 ^ j))) else none := by
  induction d generalizing l q j with
  | zero => simp [pathCF]
  | succ d ih =>
    cases j with
    | zero => simp [pathCF]
    | succ j =>
      rw [pathCF, List.getElem?_cons_succ, ih]
      have e1 : q / 2 / 2 ^ (j + 1) = q / 2 ^ (j + 1 + 1) := (div_pow_succ q (j + 1)).symm
      have e2 : q / 2 / 2 ^ j = q / 2 ^ (j + 1) := (div_pow_succ q j).symm
      rw [e1, e2]
      have e3 : l + 1 + j + 1 = l + (j + 1) + 1 := by omega
      have e4 : l + 1 + j = l + (j + 1) := by omega
      rw [e3, e4]
      simp

theorem mem_pathCF {l q d : Nat} {cp : Nat × Nat} (h : cp ∈ pathCF l q d) :
    ∃ j, j < d ∧ cp = (nd (l + j + 1) (q / 2 ^ (j + 1)), nd (l + j) (sib (q / 2 ^ j))) := by
  obtain ⟨j, hj⟩ := List.getElem?_of_mem h
  rw [pathCF_getElem?] at hj
  split at hj
  · exact ⟨j, by assumption, by simpa using hj.symm⟩
  · simp at hj

/-! ### `nextPow2`, `leafCount` -/

theorem nextPow2Aux_spec (fuel p n : Nat) (hp : ∃ a, p = 2 ^ a) (hf : n ≤ p + fuel * p ∨ n ≤ p)
    (hlow : p = 1 ∨ p / 2 < n) :
    (∃ a, nextPow2Aux fuel p n = 2 ^ a) ∧ n ≤ nextPow2Aux fuel p n ∧
      (nextPow2Aux fuel p n = 1 ∨ nextPow2Aux fuel p n / 2 < n) := by
  induction fuel generalizing p with
  | zero =>
    rw [nextPow2Aux]
    exact ⟨hp, by simpa using hf, hlow⟩
  | succ f ih =>
    rw [nextPow2Aux]
    split
    · exact ⟨hp, by assumption, hlow⟩
    · rename_i h
      obtain ⟨a, rfl⟩ := hp
      apply ih
      · exact ⟨a + 1, by rw [pow_succ']⟩
      · left
        rcases hf with hf | hf
        · have : (f + 1) * 2 ^ a = f * 2 ^ a + 2 ^ a := by grind
          have : f * (2 * 2 ^ a) = 2 * (f * 2 ^ a) := by grind
          have := Nat.two_pow_pos a
          omega
        · omega
      · right; omega

theorem nextPow2_spec (n : Nat) :
    (∃ a, nextPow2 n = 2 ^ a) ∧ n ≤ nextPow2 n ∧ (nextPow2 n = 1 ∨ nextPow2 n / 2 < n) := by
  unfold nextPow2
  apply nextPow2Aux_spec
  · exact ⟨0, rfl⟩
  · left; omega
  · left; rfl

/-- uniqueness: the power of two `p` with `p/2 < n ≤ p` -/
theorem nextPow2_unique (n a : Nat) (h1 : n ≤ 2 ^ a) (h2 : 2 ^ a = 1 ∨ 2 ^ a / 2 < n) :
    nextPow2 n = 2 ^ a := by
  obtain ⟨⟨b, hb⟩, h3, h4⟩ := nextPow2_spec n
  rw [hb] at h3 h4 ⊢
  rcases Nat.lt_trichotomy a b with h | h | h
  · exfalso
    have : 2 ^ (a + 1) ≤ 2 ^ b := Nat.pow_le_pow_right (by decide) h
    rw [pow_succ'] at this
    have := Nat.two_pow_pos a
    rcases h4 with h4 | h4 <;> omega
  · rw [h]
  · exfalso
    have : 2 ^ (b + 1) ≤ 2 ^ a := Nat.pow_le_pow_right (by decide) h
    rw [pow_succ'] at this
    have := Nat.two_pow_pos b
    rcases h2 with h2 | h2 <;> omega

theorem leafCount_spec (t : Tree) :
    ∃ k, leafCount t = 2 ^ k ∧ t.length / 2 + 1 ≤ 2 ^ k ∧ (2 ^ k = 1 ∨ 2 ^ k / 2 < t.length / 2 + 1) := by
  obtain ⟨⟨a, ha⟩, h2, h3⟩ := nextPow2_spec (t.length / 2 + 1)
  refine ⟨a, ha, ?_, ?_⟩
  · rw [← ha]; exact h2
  · rw [← ha]; exact h3

theorem leafCount_eq_of (t : Tree) (k : Nat) (h1 : t.length / 2 + 1 ≤ 2 ^ k)
    (h2 : 2 ^ k = 1 ∨ 2 ^ k / 2 < t.length / 2 + 1) : leafCount t = 2 ^ k :=
  nextPow2_unique _ _ h1 h2

/-- `leafCount` only depends on the length, monotonically -/
theorem leafCount_congr {t t' : Tree} (h : t.length = t'.length) : leafCount t = leafCount t' := by
  unfold leafCount; rw [h]

/-- direct path of leaf `i` of tree `t`, closed form -/
theorem directCopathOf_cf (t : Tree) (k i : Nat) (hk : leafCount t = 2 ^ k) :
    directCopathOf t i = if i < 2 ^ k then pathCF 0 i k else [] := by
  unfold directCopathOf
  rw [hk]
  split
  · exact directCopath_leaf k i (by assumption)
  · exact directCopath_leaf_out k i (by assumption)

end MlsVerif.Tree
