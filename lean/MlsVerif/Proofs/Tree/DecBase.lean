import MlsVerif.Proofs.Tree.PathFacts
namespace MlsVerif.Tree
open MlsVerif.TreeMath
namespace Dec

/-- the keys after `decap` -/
def newKeys (p : Priv) (pathLen c : Nat) (pk : List (Option Nat)) : List (Option Nat) :=
  (resize p.keys (pathLen + 1)).zipIdx.map fun (k, i) =>
    if i ≥ c + 1 ∧ i - 1 < pk.length then pk.getD (i - 1) none else k

theorem decap_eq (t : Tree) (p : Priv) (sender : Nat) (pk : List (Option Nat)) (added : List Nat) :
    decap t p sender pk added =
      (let lvl := leafLcaLevel (2 * p.self) (2 * sender)
       let c := lvl - 2
       let path := (2 * p.self) :: (directCopathOf t p.self).map (·.1)
       if lvl < 2 then .error .indexOutOfBounds else
       match findResolvedPos t p path c with
       | none => .error .indexOutOfBounds
       | some slot =>
       match path[c]? with
       | none => .error .indexOutOfBounds
       | some lcaNode =>
       match path[slot]? with
       | none => .error .indexOutOfBounds
       | some resNode =>
       match findCiphertextPos t lcaNode resNode added with
       | none => .error .updateErrorNoSecretKey
       | some ctPos =>
       match pk[c]? with
       | none => .error .indexOutOfBounds
       | some none => .error .lcaNotFoundInDirectPath
       | some (some _) =>
       match p.keys[slot]? with
       | some (some _) => .ok { slot := slot, ctPos := ctPos, priv := { p with keys := newKeys p path.length c pk } }
       | _ => .error .updateErrorNoSecretKey) := by
  unfold decap
  simp only [bind, Except.bind, pure, Except.pure, throw, throwThe, MonadExceptOf.throw]
  split
  · rfl
  cases findResolvedPos t p (2 * p.self :: List.map (fun x => x.fst) (directCopathOf t p.self))
          (leafLcaLevel (2 * p.self) (2 * sender) - 2) with
  | none => rfl
  | some slot =>
  simp only
  cases (2 * p.self :: List.map (fun x => x.fst) (directCopathOf t p.self))[leafLcaLevel (2 * p.self) (2 * sender) - 2]? with
  | none => rfl
  | some lcaNode =>
  simp only
  cases (2 * p.self :: List.map (fun x => x.fst) (directCopathOf t p.self))[slot]? with
  | none => rfl
  | some resNode =>
  simp only
  cases findCiphertextPos t lcaNode resNode added with
  | none => rfl
  | some ctPos => rfl

/-! ### path of the receiver -/

/-- path node of leaf `a` at slot `i` (slot 0 = the leaf itself) -/
def pnode (a i : Nat) : Nat := nd i (a / 2 ^ i)

theorem pnode_zero (a : Nat) : pnode a 0 = 2 * a := by simp [pnode, nd_zero]

theorem pnode_succ (a j : Nat) : pnode a (j + 1) = (pathEntry a j).1 := rfl

theorem path_getElem? (t : Tree) (k a i : Nat) (hk : leafCount t = 2 ^ k) (ha : a < 2 ^ k) :
    ((2 * a) :: (directCopathOf t a).map (·.1))[i]? = if i ≤ k then some (pnode a i) else none := by
  cases i with
  | zero => simp [pnode_zero]
  | succ j =>
    rw [List.getElem?_cons_succ, List.getElem?_map, directCopathOf_getElem? t k a j hk]
    by_cases hj : j < k
    · have : j + 1 ≤ k := by omega
      simp [ha, hj, this, pnode_succ]
    · have : ¬ j + 1 ≤ k := by omega
      simp [hj, this]

theorem path_length (t : Tree) (k a : Nat) (hk : leafCount t = 2 ^ k) (ha : a < 2 ^ k) :
    ((2 * a) :: (directCopathOf t a).map (·.1)).length = k + 1 := by
  simp [directCopathOf_length t k a hk, ha]

/-! ### LCA arithmetic -/

structure Lca (a s c : Nat) : Prop where
  agree : a / 2 ^ (c + 1) = s / 2 ^ (c + 1)
  differ : ∀ t, t ≤ c → a / 2 ^ t ≠ s / 2 ^ t

theorem lca_of (a s : Nat) (h : a ≠ s) :
    leafLcaLevel (2 * a) (2 * s) = (leafLcaLevel a s - 1) + 2 ∧ Lca a s (leafLcaLevel a s - 1) := by
  have h1 := leafLcaLevel_double a s h
  have h2 := leafLcaLevel_pos a s h
  have h3 := leafLcaLevel_spec a s
  refine ⟨by omega, ?_, ?_⟩
  · rw [show leafLcaLevel a s - 1 + 1 = leafLcaLevel a s by omega]; exact h3.1
  · intro t ht; exact h3.2 t (by omega)

theorem Lca.lt {a s c k : Nat} (hl : Lca a s c) (ha : a < 2 ^ k) (hs : s < 2 ^ k) : c < k := by
  apply Classical.byContradiction; intro hc
  apply hl.differ k (by omega)
  rw [Nat.div_eq_of_lt ha, Nat.div_eq_of_lt hs]

theorem Lca.sib {a s c : Nat} (hl : Lca a s c) : sib (s / 2 ^ c) = a / 2 ^ c := by
  have e1 : a / 2 ^ (c + 1) = a / 2 ^ c / 2 := by
    rw [pow_succ', Nat.mul_comm, Nat.div_div_eq_div_mul]
  have e2 : s / 2 ^ (c + 1) = s / 2 ^ c / 2 := by
    rw [pow_succ', Nat.mul_comm, Nat.div_div_eq_div_mul]
  have h1 := hl.agree
  have h2 := hl.differ c (Nat.le_refl _)
  rw [e1, e2] at h1
  unfold MlsVerif.Tree.sib
  revert h1 h2
  generalize a / 2 ^ c = x
  generalize s / 2 ^ c = y
  intro h1 h2
  split <;> omega

theorem Lca.copath {a s c : Nat} (hl : Lca a s c) : (pathEntry s c).2 = pnode a c := by
  unfold pathEntry pnode; simp only; rw [hl.sib]

theorem Lca.common {a s c : Nat} (hl : Lca a s c) (j : Nat) (hj : c ≤ j) :
    pnode a (j + 1) = (pathEntry s j).1 := by
  rw [pnode_succ, pathEntry_fst_eq_iff]
  exact div_pow_mono a s (c + 1) (j + 1) (by omega) hl.agree

/-! ### the update seen from the receiver's path -/

theorem get_low {t1 t' : Tree} {s : Nat} {nl : Leaf} {pk : List (Option Nat)} {a c k : Nat}
    (hpu : PathUpdated t1 t' s nl pk) (hk : leafCount t1 = 2 ^ k) (hl : Lca a s c)
    (i : Nat) (hi : i ≤ c) : get t' (pnode a i) = get t1 (pnode a i) := by
  apply hpu.offPath
  · intro h
    rw [← nd_zero] at h; unfold pnode at h
    obtain ⟨h1, h2⟩ := nd_inj h
    subst h1
    exact hl.differ 0 (by omega) (by simpa using h2)
  · intro cp hcp h
    obtain ⟨_, j, hj, rfl⟩ := mem_directCopathOf hk hcp
    unfold pnode pathEntry at h
    obtain ⟨h1, h2⟩ := nd_inj h
    subst h1
    exact hl.differ (j + 1) hi h2.symm

theorem get_high {t1 t' : Tree} {s : Nat} {nl : Leaf} {pk : List (Option Nat)} {a c k : Nat}
    (hpu : PathUpdated t1 t' s nl pk) (hk : leafCount t1 = 2 ^ k) (hs : s < 2 ^ k) (hl : Lca a s c)
    (j : Nat) (h1 : c ≤ j) (h2 : j < k) :
    get t' (pnode a (j + 1)) = match pk[j]? with
      | some (some key) => some (.parent { key := key, unmerged := [] })
      | _ => get t1 (pnode a (j + 1)) := by
  rw [hl.common j h1]
  apply hpu.onPath j
  rw [directCopathOf_getElem? t1 k s j hk]
  simp [hs, h2]

theorem pk_length {t1 : Tree} {s k : Nat} {pk : List (Option Nat)} (hf : FilterOk t1 s pk)
    (hk : leafCount t1 = 2 ^ k) (hs : s < 2 ^ k) : pk.length = k := by
  have := congrArg List.length hf
  simpa [filtered, directCopathOf_length t1 k s hk, hs] using this

theorem pk_isNone {t1 : Tree} {s k : Nat} {pk : List (Option Nat)} (hf : FilterOk t1 s pk)
    (hk : leafCount t1 = 2 ^ k) (hs : s < 2 ^ k) (j : Nat) (hj : j < k) :
    (pk[j]?).map Option.isNone = some (isResolutionEmpty t1 (pathEntry s j).2) := by
  have := congrArg (·[j]?) hf
  simp only [List.getElem?_map] at this
  rw [this, filtered_getElem?, directCopathOf_getElem? t1 k s j hk]
  simp [hs, hj]

/-! ### slots -/

def expKey (t : Tree) (self n : Nat) : Option Nat :=
  match get t n with
  | some (.leaf l) => some l.hpke
  | some (.parent p) => if p.unmerged.contains self then none else some p.key
  | none => none

theorem slotAt_expected (t : Tree) (k a j : Nat) (hk : leafCount t = 2 ^ k) (ha : a < 2 ^ k) :
    slotAt (expectedSlots t a) j = if j ≤ k then expKey t a (pnode a j) else none := by
  unfold expectedSlots slotAt
  simp only
  rw [List.getElem?_map, path_getElem? t k a j hk ha]
  split
  · simp only [Option.map_some, Option.join_some]; rfl
  · rfl

theorem resize_getElem? (l : List (Option Nat)) (n j : Nat) :
    (resize l n)[j]? = if j < n then some (slotAt l j) else none := by
  unfold resize slotAt
  split
  · rw [List.getElem?_take]
    split
    · rw [List.getElem?_eq_getElem (by omega)]; simp
    · rfl
  · by_cases hj : j < l.length
    · rw [List.getElem?_append_left hj, List.getElem?_eq_getElem hj]
      have : j < n := by omega
      simp [this]
    · rw [List.getElem?_append_right (by omega), List.getElem?_replicate,
        List.getElem?_eq_none (l := l) (by omega)]
      by_cases hn : j < n
      · have : j - l.length < n - l.length := by omega
        simp [hn, this]
      · have : ¬ j - l.length < n - l.length := by omega
        simp [hn, this]

theorem slotAt_newKeys (p : Priv) (n c : Nat) (pk : List (Option Nat)) (j : Nat) :
    slotAt (newKeys p n c pk) j =
      if j < n + 1 then
        (if j ≥ c + 1 ∧ j - 1 < pk.length then pk.getD (j - 1) none else slotAt p.keys j)
      else none := by
  unfold newKeys
  conv => lhs; unfold slotAt
  rw [List.getElem?_map, List.getElem?_zipIdx, resize_getElem?]
  split
  · simp
  · rfl

end Dec
end MlsVerif.Tree
