import MlsVerif.Proofs.Tree.PathFacts
/-
The final `trim` of `batchEdit` preserves the invariants.
-/
namespace MlsVerif.Tree
open MlsVerif.TreeMath

theorem trim_preShape {t : Tree} (hs : PreShape t) (hn : NonEmptyInv t) : PreShape (trim t) := by
  have hle := length_trim_le t
  refine ⟨?_, ?_⟩
  · intro i hi
    rw [get_trim]
    exact hs.1 i (by omega)
  · by_cases h0 : (trim t).length = 0
    · exact Or.inl h0
    · right
      have hnb : get (trim t) ((trim t).length - 1) ≠ none := by
        rcases (noTrail_iff _).1 (trim_no_trailing_blank t) with h | h
        · exact absurd h h0
        · exact h
      rw [get_trim] at hnb
      apply Classical.byContradiction
      intro hodd
      generalize hp : (trim t).length - 1 = p at hnb
      have hplen : (trim t).length = p + 1 := by omega
      have hpodd : p % 2 = 1 := by omega
      have hpt : p < t.length := by omega
      cases hg : get t p with
      | none => exact hnb hg
      | some n =>
        cases n with
        | leaf L =>
          have := (hs.1 p hpt).2 hpodd
          rw [hg] at this; simp at this
        | parent P =>
          have hlv : level p ≠ 0 := by rw [Ne, level_eq_zero_iff]; omega
          obtain ⟨L, hL⟩ : ∃ L, level p = L + 1 := ⟨level p - 1, by omega⟩
          have e := eq_nd p
          rw [hL] at e
          generalize p / 2 ^ (L + 1 + 1) = q at e
          have hl := left?_nd L q
          have hr := right?_nd L q
          rw [← e] at hl hr
          have := (hn p hpt P (by rw [hg]; rfl) _ hl _ hr).2
          apply this
          rw [resolution_eq_nil]
          intro r hr
          rw [← get_trim]
          apply get_of_le
          rw [inSub_nd] at hr
          rw [hplen, e]
          unfold nd
          have e2 : 2 ^ (L + 1) * (2 * q + 1) = 2 ^ (L + 1 + 1) * q + 2 ^ (L + 1) := by
            rw [pow_succ' (L + 1)]; grind
          have := Nat.two_pow_pos (L + 1)
          omega

theorem trim_uniq {t : Tree} (hu : UniqInv t) : UniqInv (trim t) := by
  have hle := length_trim_le t
  constructor
  · intro i hi j hj hij
    rw [get_trim, get_trim]
    exact hu.1 i (by omega) j (by omega) hij
  · intro i hi j hj hij
    rw [get_trim, get_trim]
    exact hu.2 i (by omega) j (by omega) hij

theorem trim_unmerged {t : Tree} (hu : UnmergedInv t) : UnmergedInv (trim t) := by
  have hle := length_trim_le t
  intro p hp P hP
  rw [get_trim] at hP
  obtain ⟨a, b, c⟩ := hu p (by omega) P hP
  refine ⟨a, ?_, ?_⟩
  · intro l hl; rw [get_trim]; exact b l hl
  · intro p' hp' P' hP'
    rw [get_trim] at hP'
    exact c p' (by omega) P' hP'

theorem trim_nonEmpty {t : Tree} (hn : NonEmptyInv t) : NonEmptyInv (trim t) := by
  have hle := length_trim_le t
  intro p hp P hP l hl r hr
  rw [get_trim] at hP
  have e : ∀ x, resolution (trim t) x = resolution t x :=
    fun x => resolution_congr (fun r _ => get_trim t r)
  rw [e, e]
  exact hn p (by omega) P hP l hl r hr

end MlsVerif.Tree
