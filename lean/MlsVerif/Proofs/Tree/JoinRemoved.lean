import MlsVerif.Proofs.Tree.JoinKeyInv
/-
(7) A removed member's keys are gone from the tree after the commit's proposals (and after the
committer's path update).
-/
namespace MlsVerif.Tree
open MlsVerif.TreeMath

namespace Join

/-- every stamp `expectedSlots t r` lists is the key of a non-blank node of `t` which is either the
leaf of `r` or an odd ancestor of `r` -/
theorem expected_stamp_node {t : Tree} {r j k : Nat} (h : slotAt (expectedSlots t r) j = some k) :
    ∃ n N, get t n = some N ∧ N.key = k ∧ (n = 2 * r ∨ (n % 2 = 1 ∧ below r n)) := by
  have key : ∀ n, expNode t r n = some k → ∃ N, get t n = some N ∧ N.key = k := by
    intro n hn
    unfold expNode at hn
    split at hn
    · rename_i L hg; exact ⟨_, hg, by simpa [Node.key] using hn⟩
    · rename_i P hg
      split at hn
      · cases hn
      · exact ⟨_, hg, by simpa [Node.key] using hn⟩
    · cases hn
  cases j with
  | zero =>
    rw [expectedSlots_zero] at h
    obtain ⟨N, h1, h2⟩ := key _ h
    exact ⟨_, N, h1, h2, Or.inl rfl⟩
  | succ j =>
    rw [expectedSlots_succ] at h
    obtain ⟨k0, hk0, _, _⟩ := leafCount_spec t
    cases hcp : (directCopathOf t r)[j]? with
    | none => rw [hcp] at h; cases h
    | some cp =>
      rw [hcp] at h
      simp only at h
      obtain ⟨N, h1, h2⟩ := key _ h
      rw [directCopathOf_getElem? t k0 _ _ hk0] at hcp
      split at hcp
      · simp only [Option.some.injEq] at hcp
        subst hcp
        exact ⟨_, N, h1, h2, Or.inr ⟨pathEntry_fst_odd _ _, below_self_pathEntry _ _⟩⟩
      · cases hcp

theorem uniq_key {t : Tree} (hu : UniqInv t) {i j : Nat} {N M : Node}
    (hi : get t i = some N) (hj : get t j = some M) (hk : N.key = M.key) : i = j := by
  apply Classical.byContradiction; intro hne
  have := hu.1 i (lt_of_get_some hi) j (lt_of_get_some hj) hne (by rw [hi, hj]; simp [hk])
  rw [hi] at this; cases this

end Join

theorem removed_keys_gone {t t' : Tree} {e : Edits} {added : List Nat} {r : Nat}
    (hu : UniqInv t) (hes : EditSpec t t' e added) (hr : r ∈ e.removes) (hra : r ∉ added)
    (hfresh : ∀ x L, get t' x = some (.leaf L) → get t x = some (.leaf L) ∨ L.hpke ∉ keyStamps t) :
    ∀ j k, slotAt (expectedSlots t r) j = some k → k ∉ keyStamps t' := by
  intro j k hjk hmem
  obtain ⟨n, N, hn, hNk, hpos⟩ := Join.expected_stamp_node hjk
  have hblank : get t' n = none := by
    rcases hpos with rfl | ⟨hodd, hb⟩
    · exact hes.removed_leaf r hr hra
    · exact hes.touched_path_blank r (List.mem_append_left _ hr) n hodd hb
  obtain ⟨i, N', hi, hk'⟩ := mem_keyStamps.mp hmem
  have hold : ∃ M, get t i = some M ∧ M.key = k := by
    cases N' with
    | parent P' =>
      obtain ⟨P, hP, hkey, _⟩ := hes.parents _ _ hi
      exact ⟨_, hP, by simpa [Node.key, ← hkey] using hk'⟩
    | leaf L =>
      rcases hfresh _ _ hi with h | h
      · exact ⟨_, h, hk'⟩
      · exfalso; apply h
        exact mem_keyStamps.mpr ⟨n, N, hn, by simpa [Node.key] using hNk.trans hk'.symm⟩
  obtain ⟨M, hM, hMk⟩ := hold
  have : i = n := Join.uniq_key hu hM hn (hMk.trans hNk.symm)
  subst this
  rw [hblank] at hi; cases hi

theorem removed_keys_gone_after_path {t t' t'' : Tree} {e : Edits} {added : List Nat} {r s : Nat}
    {nl : Leaf} {pk : List (Option Nat)}
    (hu : UniqInv t) (hes : EditSpec t t' e added) (hr : r ∈ e.removes) (hra : r ∉ added)
    (hfresh : ∀ x L, get t' x = some (.leaf L) → get t x = some (.leaf L) ∨ L.hpke ∉ keyStamps t)
    (hpu : PathUpdated t' t'' s nl pk)
    (hpk : ∀ (j k' : Nat), pk[j]? = some (some k') → k' ∉ keyStamps t)
    (hnl : nl.hpke ∉ keyStamps t) :
    ∀ j k, slotAt (expectedSlots t r) j = some k → k ∉ keyStamps t'' := by
  intro j k hjk hmem
  have h1 := removed_keys_gone hu hes hr hra hfresh j k hjk
  obtain ⟨n, N, hn, hNk, _⟩ := Join.expected_stamp_node hjk
  have hkt : k ∈ keyStamps t := mem_keyStamps.mpr ⟨n, N, hn, hNk⟩
  obtain ⟨i, N'', hi, hk''⟩ := mem_keyStamps.mp hmem
  by_cases hs : i = 2 * s
  · subst hs
    rw [hpu.leaf] at hi
    simp only [Option.some.injEq] at hi
    subst hi
    have e : nl.hpke = k := hk''
    exact hnl (e ▸ hkt)
  · by_cases hp : ∃ cp ∈ directCopathOf t' s, cp.1 = i
    · obtain ⟨cp, hcp, rfl⟩ := hp
      obtain ⟨jj, hjj⟩ := List.getElem?_of_mem hcp
      have := hpu.onPath jj cp hjj
      rw [hi] at this
      split at this
      · rename_i k' hpkj
        simp only [Option.some.injEq] at this
        subst this
        have e : k' = k := hk''
        exact hpk jj k' hpkj (e ▸ hkt)
      · exact h1 (mem_keyStamps.mpr ⟨_, N'', this.symm, hk''⟩)
    · have := hpu.offPath i hs (by
        intro cp hcp heq; exact hp ⟨cp, hcp, heq⟩)
      rw [hi] at this
      exact h1 (mem_keyStamps.mpr ⟨_, N'', this.symm, hk''⟩)

end MlsVerif.Tree
