import MlsVerif.Proofs.Tree.RmInv
import MlsVerif.Proofs.Tree.AddAdds
import MlsVerif.Proofs.Tree.AddTrim
/-
Assembly of `batchEdit` from its phases: invariants, `EditSpec`, leftmost placement.
-/
namespace MlsVerif.Tree
open MlsVerif.TreeMath

theorem batchEdit_ok {t t' : Tree} {e : Edits} {added : List Nat}
    (h : batchEdit t e = .ok (added, t')) :
    ∃ t1 t2 t3, applyRemoves t e.removes.reverse = .ok t1 ∧ applyUpdates t1 e.updates = .ok t2 ∧
      applyAdds t2 e.adds 0 [] = .ok (added, t3) ∧ t' = trim t3 := by
  unfold batchEdit at h
  simp only [bind, Except.bind, pure, Except.pure] at h
  split at h
  · cases h
  · rename_i t1 h1
    split at h
    · cases h
    · rename_i t2 h2
      split at h
      · cases h
      · rename_i r h3
        obtain ⟨a, t3⟩ := r
        injection h with h
        injection h with ha ht
        subst ha
        exact ⟨t1, t2, t3, h1, h2, h3, ht.symm⟩

namespace BE

/-- a parent of the tree after the removes is the same parent of the original tree -/
theorem parent_rm {t t1 : Tree} {rs : List Nat} (h : applyRemoves t rs = .ok t1) {x : Nat} {P : Parent}
    (hg : get t1 x = some (.parent P)) : get t x = some (.parent P) := by
  have := (applyRemoves_spec h).2.2.2 x
  rw [this] at hg
  split at hg
  · cases hg
  · exact hg

theorem parent_up {t t2 : Tree} {us : List (Nat × Leaf)} (h : applyUpdates t us = .ok t2) {x : Nat}
    {P : Parent} (hg : get t2 x = some (.parent P)) : get t x = some (.parent P) := by
  obtain ⟨_, _, _, h4, h5⟩ := applyUpdates_spec h
  by_cases hx : ∀ u ∈ us, x ≠ 2 * u.1
  · rw [h5 x hx] at hg
    split at hg
    · cases hg
    · exact hg
  · exfalso
    have hx' : ∃ u, u ∈ us ∧ x = 2 * u.1 := by
      apply Classical.byContradiction; intro hc
      apply hx; intro u hu heq
      exact hc ⟨u, hu, heq⟩
    obtain ⟨u, hu, rfl⟩ := hx'
    rw [h4 u hu] at hg
    cases hg

end BE

section
variable {t t' : Tree} {e : Edits} {added : List Nat}

theorem batchEdit_preShape (hs : PreShape t) (hn : NonEmptyInv t)
    (h : batchEdit t e = .ok (added, t')) : PreShape t' := by
  obtain ⟨t1, t2, t3, h1, h2, h3, rfl⟩ := batchEdit_ok h
  have s1 := applyRemoves_preShape hs h1
  have s2 := applyUpdates_preShape s1 h2
  have n2 := applyUpdates_nonEmpty (applyRemoves_nonEmpty hn h1) h2
  exact trim_preShape (applyAdds_preShape s2 h3) (applyAdds_nonEmpty s2 n2 h3)

theorem batchEdit_shape (hs : PreShape t) (hn : NonEmptyInv t)
    (h : batchEdit t e = .ok (added, t')) : ShapeInv t' := by
  refine ⟨batchEdit_preShape hs hn h, ?_⟩
  obtain ⟨t1, t2, t3, h1, h2, h3, rfl⟩ := batchEdit_ok h
  exact trim_no_trailing_blank _

theorem batchEdit_nonEmpty (hs : PreShape t) (hn : NonEmptyInv t)
    (h : batchEdit t e = .ok (added, t')) : NonEmptyInv t' := by
  obtain ⟨t1, t2, t3, h1, h2, h3, rfl⟩ := batchEdit_ok h
  have s2 := applyUpdates_preShape (applyRemoves_preShape hs h1) h2
  have n2 := applyUpdates_nonEmpty (applyRemoves_nonEmpty hn h1) h2
  exact trim_nonEmpty (applyAdds_nonEmpty s2 n2 h3)

theorem batchEdit_unmerged (hs : PreShape t) (hu : UnmergedInv t)
    (h : batchEdit t e = .ok (added, t')) : UnmergedInv t' := by
  obtain ⟨t1, t2, t3, h1, h2, h3, rfl⟩ := batchEdit_ok h
  have s2 := applyUpdates_preShape (applyRemoves_preShape hs h1) h2
  have u2 := applyUpdates_unmerged (applyRemoves_unmerged hu h1) h2
  exact trim_unmerged (applyAdds_unmerged s2 u2 h3)

/-- `conflicts` compares new leaves with leaves only; the new HPKE stamps must not coincide with a
parent key of the tree (keys are fresh) -/
theorem batchEdit_uniq (hs : PreShape t) (hq : UniqInv t)
    (hfresh : ∀ l ∈ e.adds ++ e.updates.map (·.2), ∀ x P, get t x = some (.parent P) → P.key ≠ l.hpke)
    (h : batchEdit t e = .ok (added, t')) : UniqInv t' := by
  obtain ⟨t1, t2, t3, h1, h2, h3, rfl⟩ := batchEdit_ok h
  have s1 := applyRemoves_preShape hs h1
  have s2 := applyUpdates_preShape s1 h2
  have q1 := applyRemoves_uniq hq h1
  have q2 := applyUpdates_uniq q1 s1 (by
    intro u hu x P hg
    exact hfresh u.2 (List.mem_append_right _ (List.mem_map_of_mem hu)) x P (BE.parent_rm h1 hg)) h2
  exact trim_uniq (applyAdds_uniq s2 q2 (by
    intro l hl x P hg
    exact hfresh l (List.mem_append_left _ hl) x P (BE.parent_rm h1 (BE.parent_up h2 hg))) h3)

/-- what `batchEdit` did, in terms of `get` -/
theorem batchEdit_editSpec (hs : PreShape t) (h : batchEdit t e = .ok (added, t')) :
    EditSpec t t' e added := by
  obtain ⟨t1, t2, t3, h1, h2, h3, rfl⟩ := batchEdit_ok h
  have s1 := applyRemoves_preShape hs h1
  have s2 := applyUpdates_preShape s1 h2
  obtain ⟨_, _, r3, r4⟩ := applyRemoves_spec h1
  obtain ⟨_, _, u3, u4, u5⟩ := applyUpdates_spec h2
  obtain ⟨new, hnew, a2, _, a4, a5, a6, a7, a8, a9⟩ :=
    applyAdds_spec s2 h3 (by intro j hj; omega)
  simp only [List.reverse_nil, List.nil_append] at hnew
  subst hnew
  -- a blank leaf slot of `t2` is not the slot of an update
  have hnotup : ∀ i, get t2 (2 * i) = none → ∀ u ∈ e.updates, 2 * i ≠ 2 * u.1 := by
    intro i hi u hu heq
    rw [heq, u4 u hu] at hi; cases hi
  have hrm : ∀ r ∈ e.removes, get t1 (2 * r) = none := by
    intro r hr
    rw [r4]
    rw [if_pos ⟨r, List.mem_reverse.mpr hr, Or.inl rfl⟩]
  have hrm2 : ∀ r ∈ e.removes, get t2 (2 * r) = none := by
    intro r hr
    have hx : ∀ u ∈ e.updates, 2 * r ≠ 2 * u.1 := by
      intro u hu heq
      obtain ⟨L, hL⟩ := u3 u hu
      rw [← heq, hrm r hr] at hL; cases hL
    rw [u5 _ hx]
    split
    · rfl
    · exact hrm r hr
  refine
    { parents := ?_, touched_path_blank := ?_, leaves_kept := ?_, removed_leaf := ?_,
      updated_leaf := ?_, added_length := a2, added_leaf := ?_, added_unmerged := ?_,
      added_fresh := ?_ }
  · intro x P' hg
    rw [get_trim] at hg
    obtain ⟨P, hP, hk, hm⟩ := a4 x P' hg
    exact ⟨P, BE.parent_rm h1 (BE.parent_up h2 hP), hk, hm⟩
  · intro r hr x hx hb
    rw [get_trim]
    apply a6 x hx
    have hx2 : ∀ u ∈ e.updates, x ≠ 2 * u.1 := by intro u _; omega
    rw [u5 x hx2]
    unfold Edits.touched at hr
    rcases List.mem_append.mp hr with hr | hr
    · split
      · rfl
      · rw [r4, if_pos ⟨r, List.mem_reverse.mpr hr, Or.inr ⟨hx, hb⟩⟩]
    · obtain ⟨u, hu, rfl⟩ := List.mem_map.mp hr
      rw [if_pos ⟨u, hu, hx, hb⟩]
  · intro i hi ha
    rw [get_trim, a7 i ha]
    unfold Edits.touched at hi
    have hx2 : ∀ u ∈ e.updates, 2 * i ≠ 2 * u.1 := by
      intro u hu heq
      apply hi
      apply List.mem_append_right
      have : i = u.1 := by omega
      rw [this]; exact List.mem_map_of_mem hu
    rw [u5 _ hx2, if_neg (by rintro ⟨u, _, h, _⟩; omega), r4, if_neg]
    rintro ⟨r, hr, h | ⟨h, _⟩⟩
    · apply hi
      apply List.mem_append_left
      have : i = r := by omega
      rw [this]; exact List.mem_reverse.mp hr
    · omega
  · intro r hr ha
    rw [get_trim, a7 r ha]
    exact hrm2 r hr
  · intro u hu
    rw [get_trim]
    have : u.1 ∉ added := by
      intro hm
      have := a9 _ hm
      rw [u4 u hu] at this; cases this
    rw [a7 _ this, u4 u hu]
  · intro j i hj
    obtain ⟨l, hl, hg⟩ := a8 j i hj
    exact ⟨l, hl, by rw [get_trim]; exact hg⟩
  · intro i hi x P' hg hb
    rw [get_trim] at hg
    obtain ⟨P, _, _, hm⟩ := a4 x P' hg
    exact (hm i).2 (Or.inr ⟨hi, hb⟩)
  · intro i hi
    have h9 := a9 i hi
    have hx2 := hnotup i h9
    rw [u5 _ hx2, if_neg (by rintro ⟨u, _, h, _⟩; omega), r4] at h9
    split at h9
    · rename_i hc
      obtain ⟨r, hr, h | ⟨h, _⟩⟩ := hc
      · left
        have : i = r := by omega
        rw [this]; exact List.mem_reverse.mp hr
      · omega
    · right; exact h9

/-- (2) inside `batchEdit` every added leaf goes to the leftmost blank leaf slot: the added
positions are exactly the first `|adds|` blank leaf slots (slots beyond the end count as blank) of
the tree after the removes and updates, in increasing order -/
theorem batchEdit_adds_leftmost (hs : PreShape t) (h : batchEdit t e = .ok (added, t')) :
    ∃ t1 t2, applyRemoves t e.removes.reverse = .ok t1 ∧ applyUpdates t1 e.updates = .ok t2 ∧
      added.length = e.adds.length ∧ added.Pairwise (· < ·) ∧
      (∀ i ∈ added, get t2 (2 * i) = none) ∧
      (∀ j, get t2 (2 * j) = none → j ∈ added ∨ ∀ i ∈ added, i < j) := by
  obtain ⟨t1, t2, t3, h1, h2, h3, rfl⟩ := batchEdit_ok h
  have s2 := applyUpdates_preShape (applyRemoves_preShape hs h1) h2
  obtain ⟨new, hnew, a2, a3, a4, a5⟩ := applyAdds_leftmost s2 h3 (by intro j hj; omega)
  simp only [List.reverse_nil, List.nil_append] at hnew
  subst hnew
  exact ⟨t1, t2, h1, h2, a2, a3, fun i hi => (a4 i hi).2, a5⟩

/-- leaves of the new tree are old leaves at the same place or come from the proposals -/
theorem batchEdit_leaf_source (hs : PreShape t) (hn : NonEmptyInv t)
    (h : batchEdit t e = .ok (added, t')) {x : Nat} {L : Leaf} (hg : get t' x = some (.leaf L)) :
    get t x = some (.leaf L) ∨ L ∈ e.adds ++ e.updates.map (·.2) := by
  have hes := batchEdit_editSpec hs h
  have hs' := batchEdit_preShape hs hn h
  have hx := lt_of_get_some hg
  have hev : x % 2 = 0 := by
    apply Classical.byContradiction; intro hc
    have := (hs'.1 x hx).2 (by omega)
    rw [hg] at this; cases this
  obtain ⟨i, rfl⟩ : ∃ i, x = 2 * i := ⟨x / 2, by omega⟩
  by_cases ha : i ∈ added
  · obtain ⟨j, hj, hji⟩ := List.getElem_of_mem ha
    obtain ⟨l, hl, hgl⟩ := hes.added_leaf j i (by rw [List.getElem?_eq_getElem hj, hji])
    rw [hg] at hgl
    injection hgl with hgl; injection hgl with hgl
    right; apply List.mem_append_left
    rw [hgl]; exact List.mem_of_getElem? hl
  · by_cases ht : i ∈ e.touched
    · unfold Edits.touched at ht
      rcases List.mem_append.mp ht with hr | hr
      · rw [hes.removed_leaf i hr ha] at hg; cases hg
      · obtain ⟨u, hu, rfl⟩ := List.mem_map.mp hr
        rw [hes.updated_leaf u hu] at hg
        injection hg with hg; injection hg with hg
        right; apply List.mem_append_right
        rw [← hg]; exact List.mem_map_of_mem hu
    · left; rw [← hes.leaves_kept i ht ha]; exact hg

end

end MlsVerif.Tree
