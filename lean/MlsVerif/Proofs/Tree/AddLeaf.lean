import MlsVerif.Proofs.Tree.AddBasic
/-
ADD phase, part 2: get-level specification of one `addLeaf` (`AddRel`), leftmost placement.
-/
namespace MlsVerif.Tree
open MlsVerif.TreeMath
namespace Add

theorem mem_leaves {t : Tree} {L : Leaf} : L ∈ leaves t ↔ ∃ x, get t x = some (.leaf L) := by
  unfold leaves
  rw [List.mem_filterMap]
  constructor
  · rintro ⟨a, ha, hk⟩
    obtain ⟨i, hi, rfl⟩ := List.getElem_of_mem ha
    refine ⟨i, ?_⟩
    rw [get_of_lt hi]
    split at hk
    · rename_i heq
      simp only [Option.some.injEq] at hk
      subst hk; exact heq
    · simp at hk
  · rintro ⟨i, hg⟩
    have hi := lt_of_get_some hg
    rw [get_of_lt hi] at hg
    exact ⟨t[i], List.getElem_mem hi, by rw [hg]⟩

/-- `conflicts t l = false`: no leaf stored in `t` shares identity, HPKE key or signature key with `l` -/
theorem conflicts_false_iff {t : Tree} {l : Leaf} : conflicts t l = false ↔
    ∀ x L, get t x = some (.leaf L) → L.ident ≠ l.ident ∧ L.hpke ≠ l.hpke ∧ L.sig ≠ l.sig := by
  unfold conflicts
  rw [List.any_eq_false]
  constructor
  · intro h x L hg
    have := h L (mem_leaves.2 ⟨x, hg⟩)
    simpa [not_or, and_assoc] using this
  · intro h L hL
    obtain ⟨x, hg⟩ := mem_leaves.1 hL
    have := h x L hg
    simp [this]

theorem below_of_mem_path {t : Tree} {i x : Nat} (h : x ∈ (directCopathOf t i).map (·.1)) :
    below i x := by
  obtain ⟨k, hk, _, _⟩ := leafCount_spec t
  obtain ⟨_, j, _, rfl⟩ := (mem_path t k i x hk).1 h
  exact below_self_pathEntry i j

theorem below_leaf (i i' : Nat) : below i (2 * i') ↔ i = i' := by
  rw [← nd_zero, below_nd]; simp

/-- what one successful `addLeaf` did, in terms of `get` -/
structure AddRel (t t' : Tree) (l : Leaf) (i : Nat) : Prop where
  blank : get t (2 * i) = none
  noconf : conflicts t l = false
  len : t.length ≤ t'.length
  lenodd : t'.length = 0 ∨ t'.length % 2 = 1
  leaf : get t' (2 * i) = some (.leaf l)
  other : ∀ x, x ≠ 2 * i → (∀ P, get t x ≠ some (.parent P)) → get t' x = get t x
  par : ∀ x P, get t x = some (.parent P) →
    ∃ u, get t' x = some (.parent { P with unmerged := u }) ∧
      (∀ l', l' ∈ u ↔ (l' ∈ P.unmerged ∨ (l' = i ∧ below i x))) ∧
      (P.unmerged.Pairwise (· < ·) → u.Pairwise (· < ·))

theorem addLeaf_rel {t t' : Tree} {l : Leaf} {start i : Nat} (hs : PreShape t)
    (h : addLeaf t l start = .ok (i, t')) : i = nextEmptyLeaf t start ∧ AddRel t t' l i := by
  unfold addLeaf at h
  simp only at h
  by_cases hc : conflicts t l = true
  · rw [if_pos hc] at h; simp at h
  · rw [if_neg hc] at h
    cases hu : updateUnmerged (insertLeaf t (nextEmptyLeaf t start) l) (nextEmptyLeaf t start) with
    | error e => rw [hu] at h; simp at h
    | ok t2 =>
      rw [hu] at h
      simp only [Except.ok.injEq, Prod.mk.injEq] at h
      obtain ⟨rfl, rfl⟩ := h
      refine ⟨rfl, ?_⟩
      obtain ⟨hb, hpos⟩ := nextEmptyLeaf_blank t start
      obtain ⟨L1, L2, L3, L4⟩ := insertLeaf_spec t (nextEmptyLeaf t start) l hs.2 hpos
      rw [updateUnmerged_eq] at hu
      obtain ⟨r1, r2, r3, r4⟩ := um_fold _ _ _ _ (path_nodup _ _) hu
      generalize nextEmptyLeaf t start = i at *
      generalize insertLeaf t i l = T at *
      have hT : get T (2 * i) = some (.leaf l) := by rw [L4, if_pos rfl]
      refine ⟨hb, by simpa using hc, by omega, by rw [r1]; exact L2, ?_, ?_, ?_⟩
      · rw [r4 _ (by rw [hT]; intro P; simp), hT]
      · intro x hx hP
        have e : get T x = get t x := by rw [L4, if_neg hx]
        rw [r4 x (by rw [e]; exact hP), e]
      · intro x P hg
        have hx : x < t.length := lt_of_get_some hg
        have hne : x ≠ 2 * i := by intro h; rw [h, hb] at hg; simp at hg
        have hodd : x % 2 = 1 := by
          have := (hs.1 x hx).1
          rw [hg] at this
          simp at this
          omega
        have e : get T x = some (.parent P) := by rw [L4, if_neg hne, hg]
        by_cases hm : x ∈ (directCopathOf T i).map (·.1)
        · obtain ⟨u, hu1, hu2⟩ := r3 x P hm e
          obtain ⟨m1, m2⟩ := insertSorted_spec i _ u hu1
          refine ⟨u, hu2, ?_, m2⟩
          intro l'
          rw [m1]
          have := below_of_mem_path hm
          constructor
          · rintro (h | h)
            · exact Or.inl h
            · exact Or.inr ⟨h, this⟩
          · rintro (h | h)
            · exact Or.inl h
            · exact Or.inr h.1
        · refine ⟨P.unmerged, ?_, ?_, fun h => h⟩
          · rw [r2 x hm, e]
          · intro l'
            have hnb : ¬ below i x := by
              rw [← mem_path_iff_below T i x L3 (by omega) hodd]; exact hm
            constructor
            · intro h; exact Or.inl h
            · rintro (h | h)
              · exact h
              · exact absurd h.2 hnb

/-! consequences of `AddRel` -/

theorem AddRel.ne_of_nonblank {t t' : Tree} {l : Leaf} {i x : Nat} (h : AddRel t t' l i)
    (hx : get t x ≠ none) : x ≠ 2 * i := by
  intro e; rw [e] at hx; exact hx h.blank

/-- nodes other than the new leaf: blank iff blank before -/
theorem AddRel.blank_iff {t t' : Tree} {l : Leaf} {i x : Nat} (h : AddRel t t' l i) (hx : x ≠ 2 * i) :
    get t' x = none ↔ get t x = none := by
  by_cases hp : ∃ P, get t x = some (.parent P)
  · obtain ⟨P, hP⟩ := hp
    obtain ⟨u, hu, _⟩ := h.par x P hP
    rw [hu, hP]; simp
  · rw [h.other x hx (fun P hP => hp ⟨P, hP⟩)]

theorem AddRel.nonblank {t t' : Tree} {l : Leaf} {i x : Nat} (h : AddRel t t' l i)
    (hx : get t x ≠ none) : get t' x ≠ none := by
  rw [Ne, h.blank_iff (h.ne_of_nonblank hx)]; exact hx

/-- a parent of the new tree comes from a parent of the old tree -/
theorem AddRel.par_inv {t t' : Tree} {l : Leaf} {i x : Nat} {P' : Parent} (h : AddRel t t' l i)
    (hg : get t' x = some (.parent P')) :
    ∃ P, get t x = some (.parent P) ∧ P'.key = P.key ∧
      (∀ l', l' ∈ P'.unmerged ↔ (l' ∈ P.unmerged ∨ (l' = i ∧ below i x))) ∧
      (P.unmerged.Pairwise (· < ·) → P'.unmerged.Pairwise (· < ·)) := by
  have hne : x ≠ 2 * i := by intro e; rw [e, h.leaf] at hg; simp at hg
  by_cases hp : ∃ P, get t x = some (.parent P)
  · obtain ⟨P, hP⟩ := hp
    obtain ⟨u, hu, m1, m2⟩ := h.par x P hP
    rw [hu] at hg
    simp only [Option.some.injEq, Node.parent.injEq] at hg
    subst hg
    exact ⟨P, hP, rfl, m1, m2⟩
  · rw [h.other x hne (fun P hP => hp ⟨P, hP⟩)] at hg
    exact absurd ⟨P', hg⟩ hp

/-- leaves other than the new one are untouched (needs `PreShape` to exclude parents at even indices) -/
theorem AddRel.leaf_other {t t' : Tree} {l : Leaf} {i j : Nat} (h : AddRel t t' l i) (hs : PreShape t)
    (hj : j ≠ i) : get t' (2 * j) = get t (2 * j) := by
  apply h.other _ (by omega)
  intro P hP
  have := (hs.1 _ (lt_of_get_some hP)).1 (by omega)
  rw [hP] at this; simp at this

/-- key / leaf data of nodes other than the new leaf -/
theorem AddRel.key_other {t t' : Tree} {l : Leaf} {i x : Nat} (h : AddRel t t' l i) (hx : x ≠ 2 * i) :
    (get t' x).map Node.key = (get t x).map Node.key ∧ leafOf? (get t' x) = leafOf? (get t x) := by
  by_cases hp : ∃ P, get t x = some (.parent P)
  · obtain ⟨P, hP⟩ := hp
    obtain ⟨u, hu, _⟩ := h.par x P hP
    rw [hu, hP]; exact ⟨rfl, rfl⟩
  · rw [h.other x hx (fun P hP => hp ⟨P, hP⟩)]; exact ⟨rfl, rfl⟩

end Add

theorem addLeaf_spec {t t' : Tree} {l : Leaf} {start i : Nat} (hs : PreShape t)
    (h : addLeaf t l start = .ok (i, t')) :
    i = nextEmptyLeaf t start ∧ conflicts t l = false ∧ t.length ≤ t'.length ∧
    (t'.length = 0 ∨ t'.length % 2 = 1) ∧
    get t' (2 * i) = some (.leaf l) ∧
    (∀ x, x ≠ 2 * i → (∀ P, get t x ≠ some (.parent P)) → get t' x = get t x) ∧
    (∀ x P, get t x = some (.parent P) → ∃ u, get t' x = some (.parent { P with unmerged := u }) ∧
        (∀ l', l' ∈ u ↔ (l' ∈ P.unmerged ∨ (l' = i ∧ below i x))) ∧
        (P.unmerged.Pairwise (· < ·) → u.Pairwise (· < ·))) := by
  obtain ⟨h1, h2⟩ := Add.addLeaf_rel hs h
  exact ⟨h1, h2.noconf, h2.len, h2.lenodd, h2.leaf, h2.other, h2.par⟩

/-- `i` is the least leaf index whose node is blank or beyond the end -/
theorem addLeaf_leftmost {t t' : Tree} {l : Leaf} {start i : Nat} (h : addLeaf t l start = .ok (i, t'))
    (hs : ∀ j < start, get t (2 * j) ≠ none) :
    get t (2 * i) = none ∧ ∀ j < i, get t (2 * j) ≠ none := by
  have hi : i = nextEmptyLeaf t start := by
    unfold addLeaf at h
    simp only at h
    split at h
    · simp at h
    · split at h
      · simp only [Except.ok.injEq, Prod.mk.injEq] at h; exact h.1.symm
      · simp at h
  subst hi
  have hstart : 2 * start ≤ t.length + 1 := by
    cases start with
    | zero => omega
    | succ s => have := lt_of_get_ne (hs s (by omega)); omega
  obtain ⟨a, b, c, _⟩ := nextEmptyLeaf_spec t start hstart
  refine ⟨b, ?_⟩
  intro j hj
  by_cases hjs : j < start
  · exact hs j hjs
  · exact c j (by omega) hj

end MlsVerif.Tree
