import MlsVerif.Proofs.Tree.PathFacts
/-
ADD phase of `batchEdit`, part 1: `nextEmptyLeaf`, `insertSorted`, `insertLeaf`, `updateUnmerged`,
`conflicts` at the level of `get`.
-/
namespace MlsVerif.Tree
open MlsVerif.TreeMath
namespace Add

theorem nextEmptyLeafAux_spec (t : Tree) : ∀ (fuel n : Nat), n % 2 = 0 → n ≤ t.length + 1 →
    t.length < n + 2 * fuel →
    n / 2 ≤ nextEmptyLeafAux t fuel n ∧ get t (2 * nextEmptyLeafAux t fuel n) = none ∧
    (∀ j, n / 2 ≤ j → j < nextEmptyLeafAux t fuel n → get t (2 * j) ≠ none) ∧
    (2 * nextEmptyLeafAux t fuel n < t.length ∨ nextEmptyLeafAux t fuel n = (t.length + 1) / 2) := by
  intro fuel
  induction fuel with
  | zero =>
    intro n hn h1 h2
    rw [nextEmptyLeafAux]
    exact ⟨Nat.le_refl _, get_of_le (by omega), fun j h1 h2 => by omega, Or.inr (by omega)⟩
  | succ f ih =>
    intro n hn h1 h2
    rw [nextEmptyLeafAux]
    by_cases hlt : n < t.length
    · rw [if_pos hlt]
      have e : 2 * (n / 2) = n := by omega
      by_cases hb : (get t n).isNone = true
      · rw [if_pos hb]
        refine ⟨Nat.le_refl _, ?_, fun j h1 h2 => by omega, Or.inl (by omega)⟩
        rw [e]; simpa using hb
      · rw [if_neg hb]
        obtain ⟨a, b, c, d⟩ := ih (n + 2) (by omega) (by omega) (by omega)
        refine ⟨by omega, b, ?_, d⟩
        intro j hj1 hj2
        by_cases hj : j = n / 2
        · subst hj; rw [e]; intro h; apply hb; rw [h]; rfl
        · exact c j (by omega) hj2
    · rw [if_neg hlt]
      exact ⟨by omega, get_of_le (by omega), fun j h1 h2 => by omega, Or.inr rfl⟩

end Add

theorem nextEmptyLeaf_spec (t : Tree) (start : Nat) (hstart : 2 * start ≤ t.length + 1) :
    start ≤ nextEmptyLeaf t start ∧ get t (2 * nextEmptyLeaf t start) = none ∧
    (∀ j, start ≤ j → j < nextEmptyLeaf t start → get t (2 * j) ≠ none) ∧
    (2 * nextEmptyLeaf t start < t.length ∨ nextEmptyLeaf t start = (t.length + 1) / 2) := by
  have h := Add.nextEmptyLeafAux_spec t (t.length + 1) (2 * start) (by omega) hstart (by omega)
  have e : 2 * start / 2 = start := by omega
  rw [e] at h
  exact h

namespace Add

/-- without the side condition: the chosen slot is blank, inside the array or the first leaf after it -/
theorem nextEmptyLeaf_blank (t : Tree) (start : Nat) :
    get t (2 * nextEmptyLeaf t start) = none ∧
    (2 * nextEmptyLeaf t start < t.length ∨ nextEmptyLeaf t start = (t.length + 1) / 2) := by
  by_cases h : 2 * start ≤ t.length + 1
  · have := nextEmptyLeaf_spec t start h; exact ⟨this.2.1, this.2.2.2⟩
  · unfold nextEmptyLeaf
    rw [nextEmptyLeafAux, if_neg (by omega)]
    exact ⟨get_of_le (by omega), Or.inr rfl⟩

/-! ### `insertSorted` -/

theorem insertSorted_spec (x : Nat) : ∀ (ys u : List Nat), insertSorted x ys = some u →
    (∀ y, y ∈ u ↔ (y ∈ ys ∨ y = x)) ∧ (ys.Pairwise (· < ·) → u.Pairwise (· < ·)) := by
  intro ys
  induction ys with
  | nil =>
    intro u h
    simp only [insertSorted, Option.some.injEq] at h
    subst h
    simp
  | cons y ys ih =>
    intro u h
    rw [insertSorted] at h
    by_cases h1 : x = y
    · rw [if_pos h1] at h; simp at h
    · rw [if_neg h1] at h
      by_cases h2 : x < y
      · rw [if_pos h2] at h
        simp only [Option.some.injEq] at h
        subst h
        constructor
        · intro z; simp only [List.mem_cons]; constructor
          · rintro (h | h | h) <;> simp [h]
          · rintro ((h | h) | h) <;> simp [h]
        · intro hp
          rw [List.pairwise_cons]
          refine ⟨?_, hp⟩
          intro a ha
          rw [List.pairwise_cons] at hp
          rcases List.mem_cons.mp ha with rfl | ha
          · exact h2
          · exact Nat.lt_trans h2 (hp.1 a ha)
      · rw [if_neg h2] at h
        cases h' : insertSorted x ys with
        | none => rw [h'] at h; simp at h
        | some v =>
          rw [h'] at h
          simp only [Option.map_some, Option.some.injEq] at h
          subst h
          obtain ⟨m, p⟩ := ih v h'
          constructor
          · intro z; simp only [List.mem_cons, m]; constructor
            · rintro (h | h | h) <;> simp [h]
            · rintro ((h | h) | h) <;> simp [h]
          · intro hp
            rw [List.pairwise_cons] at hp ⊢
            refine ⟨?_, p hp.2⟩
            intro a ha
            rcases (m a).1 ha with ha | rfl
            · exact hp.1 a ha
            · omega

theorem insertSorted_none (x : Nat) : ∀ (ys : List Nat), insertSorted x ys = none → x ∈ ys := by
  intro ys
  induction ys with
  | nil => intro h; simp [insertSorted] at h
  | cons y ys ih =>
    intro h
    rw [insertSorted] at h
    by_cases h1 : x = y
    · simp [h1]
    · rw [if_neg h1] at h
      by_cases h2 : x < y
      · rw [if_pos h2] at h; simp at h
      · rw [if_neg h2] at h
        cases h' : insertSorted x ys with
        | none => exact List.mem_cons_of_mem _ (ih h')
        | some v => rw [h'] at h; simp at h

/-! ### `insertLeaf` -/

/-- `insertLeaf` at a slot that is inside the array or right after it (odd or zero length) -/
theorem insertLeaf_spec (t : Tree) (i : Nat) (l : Leaf) (hlen : t.length = 0 ∨ t.length % 2 = 1)
    (hi : 2 * i < t.length ∨ i = (t.length + 1) / 2) :
    t.length ≤ (insertLeaf t i l).length ∧
    ((insertLeaf t i l).length = 0 ∨ (insertLeaf t i l).length % 2 = 1) ∧
    2 * i < (insertLeaf t i l).length ∧
    ∀ x, get (insertLeaf t i l) x = if x = 2 * i then some (.leaf l) else get t x := by
  unfold insertLeaf
  simp only
  by_cases h1 : 2 * i > t.length
  · rw [if_pos h1]
    have hl : (t ++ [none, none] : Tree).length = t.length + 2 := by simp
    refine ⟨by rw [length_set, hl]; omega, by rw [length_set, hl]; omega,
      by rw [length_set, hl]; omega, ?_⟩
    intro x
    rw [get_set, hl]
    have := get_append_replicate t 2 x
    simp only [List.replicate] at this
    by_cases hx : x = 2 * i
    · subst hx; rw [if_pos ⟨rfl, by omega⟩, if_pos rfl]
    · rw [if_neg (by omega), if_neg hx]; exact this
  · rw [if_neg h1]
    by_cases h2 : t.isEmpty = true
    · rw [if_pos h2]
      have ht : t = [] := by simpa using h2
      subst ht
      have hi0 : i = 0 := by simp at hi; omega
      subst hi0
      refine ⟨by simp, by simp, by simp, ?_⟩
      intro x
      rw [get_set]
      by_cases hx : x = 2 * 0
      · subst hx; simp
      · rw [if_neg (by omega), if_neg hx]
        unfold get
        cases x with
        | zero => omega
        | succ x => simp
    · rw [if_neg h2]
      have hne : t.length ≠ 0 := by
        intro h; apply h2; simpa using List.length_eq_zero_iff.mp h
      have hlt : 2 * i < t.length := by omega
      refine ⟨by rw [length_set]; omega, by rw [length_set]; exact hlen, by rw [length_set]; exact hlt, ?_⟩
      intro x
      rw [get_set]
      by_cases hx : x = 2 * i
      · subst hx; rw [if_pos ⟨rfl, hlt⟩, if_pos rfl]
      · rw [if_neg (by omega), if_neg hx]

/-! ### `updateUnmerged` -/

/-- the step function of `updateUnmerged` -/
def umF (leaf : Nat) : Tree → Nat × Nat → Except Err Tree := fun t cp =>
  match get t cp.1 with
  | some (.parent p) =>
    match insertSorted leaf p.unmerged with
    | some u => .ok (set t cp.1 (some (.parent { p with unmerged := u })))
    | none => .error .parentHashMismatch
  | _ => .ok t

theorem updateUnmerged_eq (t : Tree) (leaf : Nat) :
    updateUnmerged t leaf = (directCopathOf t leaf).foldlM (umF leaf) t := rfl

theorem umF_spec {leaf : Nat} {t t1 : Tree} {cp : Nat × Nat} (h : umF leaf t cp = .ok t1) :
    t1.length = t.length ∧ (∀ x, x ≠ cp.1 → get t1 x = get t x) ∧
    (∀ P, get t cp.1 = some (.parent P) → ∃ u, insertSorted leaf P.unmerged = some u ∧
        get t1 cp.1 = some (.parent { P with unmerged := u })) ∧
    ((∀ P, get t cp.1 ≠ some (.parent P)) → get t1 cp.1 = get t cp.1) := by
  unfold umF at h
  split at h
  · rename_i p hg
    split at h
    · rename_i u hu
      simp only [Except.ok.injEq] at h
      subst h
      refine ⟨length_set _ _ _, fun x hx => get_set_ne _ _ _ _ (Ne.symm hx), ?_, ?_⟩
      · intro P hP
        rw [hg] at hP
        simp only [Option.some.injEq, Node.parent.injEq] at hP
        subst hP
        exact ⟨u, hu, get_set_self _ _ _ (lt_of_get_some hg)⟩
      · intro hP; exact absurd hg (hP p)
    · simp at h
  · rename_i hg
    simp only [Except.ok.injEq] at h
    subst h
    refine ⟨rfl, fun _ _ => rfl, ?_, fun _ => rfl⟩
    intro P hP; exact absurd hP (hg P)

theorem um_fold (leaf : Nat) : ∀ (cps : List (Nat × Nat)) (t t' : Tree),
    (cps.map (·.1)).Nodup → cps.foldlM (umF leaf) t = .ok t' →
    t'.length = t.length ∧
    (∀ x, x ∉ cps.map (·.1) → get t' x = get t x) ∧
    (∀ x P, x ∈ cps.map (·.1) → get t x = some (.parent P) →
      ∃ u, insertSorted leaf P.unmerged = some u ∧ get t' x = some (.parent { P with unmerged := u })) ∧
    (∀ x, (∀ P, get t x ≠ some (.parent P)) → get t' x = get t x) := by
  intro cps
  induction cps with
  | nil =>
    intro t t' _ h
    simp only [List.foldlM_nil, pure, Except.pure, Except.ok.injEq] at h
    subst h
    exact ⟨rfl, fun _ _ => rfl, fun x P hx => by simp at hx, fun _ _ => rfl⟩
  | cons cp cps ih =>
    intro t t' hnd h
    rw [List.foldlM_cons] at h
    cases hstep : umF leaf t cp with
    | error e => rw [hstep] at h; simp [bind, Except.bind] at h
    | ok t1 =>
      rw [hstep] at h
      simp only [bind, Except.bind] at h
      rw [List.map_cons, List.nodup_cons] at hnd
      obtain ⟨s1, s2, s3, s4⟩ := umF_spec hstep
      obtain ⟨r1, r2, r3, r4⟩ := ih t1 t' hnd.2 h
      refine ⟨by omega, ?_, ?_, ?_⟩
      · intro x hx
        rw [List.map_cons, List.mem_cons, not_or] at hx
        rw [r2 x hx.2, s2 x hx.1]
      · intro x P hx hg
        rw [List.map_cons, List.mem_cons] at hx
        by_cases hx1 : x = cp.1
        · subst hx1
          obtain ⟨u, hu, hg1⟩ := s3 P hg
          exact ⟨u, hu, by rw [r2 _ hnd.1, hg1]⟩
        · have hx2 : x ∈ cps.map (·.1) := by
            rcases hx with hx | hx
            · exact absurd hx hx1
            · exact hx
          exact r3 x P hx2 (by rw [s2 x hx1]; exact hg)
      · intro x hP
        by_cases hx1 : x = cp.1
        · subst hx1
          have e := s4 hP
          rw [r4 _ (by rw [e]; exact hP), e]
        · have e := s2 x hx1
          rw [r4 _ (by rw [e]; exact hP), e]

/-- the direct-path nodes of leaf `i` in a tree of `2^k` leaves are pairwise distinct -/
theorem path_nodup (t : Tree) (i : Nat) : ((directCopathOf t i).map (·.1)).Nodup := by
  obtain ⟨k, hk, _, _⟩ := leafCount_spec t
  unfold List.Nodup
  rw [List.pairwise_iff_getElem]
  intro a b ha hb hab
  have ha' := List.getElem?_eq_getElem ha
  have hb' := List.getElem?_eq_getElem hb
  rw [List.getElem?_map, directCopathOf_getElem? t k i a hk] at ha'
  rw [List.getElem?_map, directCopathOf_getElem? t k i b hk] at hb'
  split at ha'
  · split at hb'
    · simp only [Option.map_some, Option.some.injEq] at ha' hb'
      rw [← ha', ← hb']
      intro h
      have := pathEntry_fst_inj h
      omega
    · simp at hb'
  · simp at ha'

theorem mem_path (t : Tree) (k i x : Nat) (hk : leafCount t = 2 ^ k) :
    x ∈ (directCopathOf t i).map (·.1) ↔ i < 2 ^ k ∧ ∃ j, j < k ∧ x = (pathEntry i j).1 := by
  constructor
  · intro h
    obtain ⟨cp, hcp, rfl⟩ := List.mem_map.mp h
    obtain ⟨h1, j, hj, rfl⟩ := mem_directCopathOf hk hcp
    exact ⟨h1, j, hj, rfl⟩
  · rintro ⟨h1, j, hj, rfl⟩
    apply List.mem_map.mpr
    refine ⟨pathEntry i j, ?_, rfl⟩
    apply List.mem_of_getElem? (i := j)
    rw [directCopathOf_getElem? t k i j hk, if_pos ⟨h1, hj⟩]

/-- inside the array, the direct-path nodes of leaf `i` are exactly the odd nodes above it -/
theorem mem_path_iff_below (t : Tree) (i x : Nat) (hi : 2 * i < t.length) (hx : x < t.length)
    (hodd : x % 2 = 1) : x ∈ (directCopathOf t i).map (·.1) ↔ below i x := by
  obtain ⟨k, hk, _, _⟩ := leafCount_spec t
  rw [mem_path t k i x hk]
  have hik := leaf_lt_leafCount t k i hk hi
  constructor
  · rintro ⟨_, j, _, rfl⟩; exact below_self_pathEntry i j
  · intro hb
    refine ⟨hik, ?_⟩
    have hlv : level x ≠ 0 := by rw [Ne, level_eq_zero_iff]; omega
    obtain ⟨j, hj⟩ : ∃ j, level x = j + 1 := ⟨level x - 1, by omega⟩
    have hle := level_le k x (by have := tree_length_le t k hk; omega)
    refine ⟨j, by omega, ?_⟩
    rw [below_iff, hj] at hb
    have e := eq_nd x
    rw [hj] at e
    rw [e, ← hb]
    rfl

end Add
end MlsVerif.Tree
