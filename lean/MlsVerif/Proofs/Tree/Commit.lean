import MlsVerif.Proofs.Tree.BatchEdit
import MlsVerif.Proofs.Tree.EncApply
import MlsVerif.Proofs.Tree.UpdInv
import MlsVerif.Proofs.Tree.UpdUniq
import MlsVerif.Proofs.Tree.DecMain
import MlsVerif.Proofs.Tree.JoinJoiner
import MlsVerif.Proofs.Tree.JoinRemoved
/-
Commit-level composition: the well-formedness invariants through `batchEdit`, `encap`,
`applyUpdatePath`; the key invariant for the committer, the other members and the joiners.
-/
namespace MlsVerif.Tree
open MlsVerif.TreeMath

/-! decidable equality for evaluating the model on concrete inputs (`decide +kernel`) -/
deriving instance DecidableEq for Except
deriving instance DecidableEq for EncapOut
deriving instance DecidableEq for DecapOut

/-- all tree invariants together -/
def WF (t : Tree) : Prop := ShapeInv t ∧ UniqInv t ∧ UnmergedInv t ∧ NonEmptyInv t

instance (t : Tree) : Decidable (WF t) := by unfold WF; infer_instance

/-- freshness of the leaf nodes brought by the proposals: their HPKE stamps are not key stamps of
the old tree (`conflicts` only compares them with the *leaves* present after the removes) -/
def Edits.FreshKeys (e : Edits) (t : Tree) : Prop :=
  ∀ l ∈ e.adds ++ e.updates.map (·.2), l.hpke ∉ keyStamps t

instance (e : Edits) (t : Tree) : Decidable (e.FreshKeys t) := by
  unfold Edits.FreshKeys; infer_instance

theorem parentKey_mem_keyStamps {t : Tree} {x : Nat} {P : Parent} (h : get t x = some (.parent P)) :
    P.key ∈ keyStamps t := mem_keyStamps.2 ⟨x, _, h, rfl⟩

theorem wf_batchEdit {t t' : Tree} {e : Edits} {added : List Nat} (hw : WF t)
    (hfresh : e.FreshKeys t) (h : batchEdit t e = .ok (added, t')) : WF t' := by
  obtain ⟨⟨hs, _⟩, hq, hu, hn⟩ := hw
  refine ⟨batchEdit_shape hs hn h, batchEdit_uniq hs hq ?_ h, batchEdit_unmerged hs hu h,
    batchEdit_nonEmpty hs hn h⟩
  intro l hl x P hg heq
  exact hfresh l hl (heq ▸ parentKey_mem_keyStamps hg)

section PathUpdate
variable {t t' : Tree} {s : Nat} {nl : Leaf} {pk : List (Option Nat)}

/-- the invariants through a path update whose keys are new -/
theorem wf_pathUpdated (hw : WF t) (hpu : PathUpdated t t' s nl pk) (hlen : t'.length = t.length)
    (hL : ∃ L, get t (2 * s) = some (.leaf L)) (hf : FilterOk t s pk)
    (hk1 : ∀ (j k : Nat), pk[j]? = some (some k) → k ∉ keyStamps t ∧ k ≠ nl.hpke)
    (hk2 : ∀ (j j' k : Nat), pk[j]? = some (some k) → pk[j']? = some (some k) → j = j')
    (hnl : nl.hpke ∉ keyStamps t)
    (hid : ∀ x L, x ≠ 2 * s → get t x = some (.leaf L) → L.ident ≠ nl.ident ∧ L.sig ≠ nl.sig) :
    WF t' := by
  obtain ⟨⟨hs, ht⟩, hq, hu, hn⟩ := hw
  exact ⟨⟨pathUpdated_preShape hpu hlen hL hs, pathUpdated_noTrail hpu hlen hL ht⟩,
    pathUpdated_uniq hpu hlen hL hq hk1 hk2 hnl hid,
    pathUpdated_unmerged hpu hlen hL hf hs hn hu,
    pathUpdated_nonEmpty hpu hlen hL hf hs hn⟩

end PathUpdate

section Encap
variable {t : Tree} {self : Nat} {newLeaf : Leaf} {excl : List Nat} {fresh : Nat} {o : EncapOut}

theorem self_lt_of_leaf {t : Tree} {i : Nat} (h : ∃ L, get t (2 * i) = some (.leaf L)) :
    2 * i < t.length := by
  obtain ⟨L, hL⟩ := h
  exact lt_of_get_some hL

/-- `encap` preserves all invariants when the stamps `fresh, fresh+1, …` and the new leaf key are
new -/
theorem wf_encap (hw : WF t) (hL : ∃ L, get t (2 * self) = some (.leaf L))
    (hb : StampsBelow t fresh) (hnl : newLeaf.hpke ∉ keyStamps t) (hnl2 : newLeaf.hpke < fresh)
    (hid : ∀ x L, x ≠ 2 * self → get t x = some (.leaf L) →
      L.ident ≠ newLeaf.ident ∧ L.sig ≠ newLeaf.sig)
    (h : encap t self newLeaf excl fresh = .ok o) : WF o.tree := by
  have hself := self_lt_of_leaf hL
  obtain ⟨hpu, hf, _, hk, hinj⟩ := encap_spec h hself
  refine wf_pathUpdated hw hpu (encap_length hw.1.1 hself h) hL hf ?_ hinj hnl hid
  intro j k hjk
  have := hk j k hjk
  refine ⟨fun hm => ?_, by omega⟩
  have := hb k hm
  omega

/-- (9) the committer holds exactly the keys of its non-blank direct path -/
theorem encap_keyinv' (hs : ShapeInv t) (hn : NonEmptyInv t)
    (hL : ∃ L, get t (2 * self) = some (.leaf L))
    (h : encap t self newLeaf excl fresh = .ok o) :
    KeyInv o.tree { self := self, keys := o.slots } := by
  have hself := self_lt_of_leaf hL
  obtain ⟨hpu, hf, hsl, _, _⟩ := encap_spec h hself
  rw [hsl]
  exact pathUpdated_keyinv hpu (encap_length hs.1 hself h) hL hf hs.1 hn

end Encap

section Receive
variable {t t' : Tree} {sender : Nat} {nl : Leaf} {pk : List (Option Nat)}

theorem wf_applyUpdatePath (hw : WF t) (hf : FilterOk t sender pk)
    (hk1 : ∀ (j k : Nat), pk[j]? = some (some k) → k ∉ keyStamps t ∧ k ≠ nl.hpke)
    (hk2 : ∀ (j j' k : Nat), pk[j]? = some (some k) → pk[j']? = some (some k) → j = j')
    (hnl : nl.hpke ∉ keyStamps t)
    (hid : ∀ x L, x ≠ 2 * sender → get t x = some (.leaf L) → L.ident ≠ nl.ident ∧ L.sig ≠ nl.sig)
    (h : applyUpdatePath t sender nl pk = .ok t') : WF t' := by
  obtain ⟨hpu, hL⟩ := applyUpdatePath_spec h
  exact wf_pathUpdated hw hpu (applyUpdatePath_length hw.1.1 hf h) hL hf hk1 hk2 hnl hid

end Receive

/-! ### a whole commit, seen by the members -/

section Commit
variable {t0 t1 t' : Tree} {e : Edits} {added : List Nat} {sender : Nat} {nl : Leaf}
  {pk : List (Option Nat)}

/-- a member of the old tree that no proposal touches is not among the added positions -/
theorem not_added_of_member (hes : EditSpec t0 t1 e added) {i : Nat}
    (hm : ∃ L, get t0 (2 * i) = some (.leaf L)) (ht : i ∉ e.touched) : i ∉ added := by
  intro ha
  rcases hes.added_fresh i ha with h | h
  · exact ht (List.mem_append_left _ h)
  · obtain ⟨L, hL⟩ := hm
    rw [hL] at h; cases h

/-- (10) a member other than the committer, untouched by the proposals: `decap` succeeds, the
ciphertext it picks is the one sealed to the node whose key it holds, and afterwards it holds
exactly the keys it is entitled to in the new tree. -/
theorem receiver_commit (hw : WF t0) (hb : batchEdit t0 e = .ok (added, t1))
    {p : Priv} (hk : KeyInv t0 p) (hm : ∃ L, get t0 (2 * p.self) = some (.leaf L))
    (ht : p.self ∉ e.touched) (hne : p.self ≠ sender) (hf : FilterOk t1 sender pk)
    (ha : applyUpdatePath t1 sender nl pk = .ok t') :
    ∃ d, decap t' (provisionalPriv t1 p none) sender pk added = .ok d ∧
      KeyInv t' d.priv ∧ d.priv.self = p.self ∧
      ∃ cp resNode key,
        (directCopathOf t1 sender)[leafLcaLevel (2 * p.self) (2 * sender) - 2]? = some cp ∧
        (∃ k, pk[leafLcaLevel (2 * p.self) (2 * sender) - 2]? = some (some k)) ∧
        ((2 * p.self) :: (directCopathOf t' p.self).map (·.1))[d.slot]? = some resNode ∧
        ((resolution t' cp.2).filter (fun i => !(added.map (2 * ·)).contains i))[d.ctPos]?
          = some resNode ∧
        (provisionalPriv t1 p none).keys[d.slot]? = some (some key) ∧
        (get t' resNode).map Node.key = some key := by
  obtain ⟨⟨hs, _⟩, _, _, hn⟩ := hw
  have hes := batchEdit_editSpec hs hb
  have hs1 := batchEdit_preShape hs hn hb
  have hn1 := batchEdit_nonEmpty hs hn hb
  have hna := not_added_of_member hes hm ht
  have hk1 := provisional_keyinv hes hk ht hna hs1
  obtain ⟨hpu, hLs⟩ := applyUpdatePath_spec ha
  have hself : (provisionalPriv t1 p none).self = p.self := provisionalPriv_self _ _ _
  have hm1 : ∃ L, get t1 (2 * (provisionalPriv t1 p none).self) = some (.leaf L) := by
    rw [hself, hes.leaves_kept _ ht hna]; exact hm
  have hne' : (provisionalPriv t1 p none).self ≠ sender := by rw [hself]; exact hne
  obtain ⟨d, hd⟩ := decap_succeeds hpu hf hs1 hn1 hk1 hne' hm1 hLs
    (by rw [provisional_length, hself]) (by rw [hself]; exact hna)
  have h1 := decap_keyinv hpu hf hs1 hn1 hk1 hne' hm1 hLs hd
  have h2 := decap_position_agrees hpu hf hs1 hn1 hk1 hne' hm1 hLs hd
  rw [hself] at h1 h2
  exact ⟨d, hd, h1.1, h1.2, h2⟩

/-- the same for a member whose own Update proposal is applied by the commit: its provisional
state holds only the new leaf key (13), and after `decap` it holds exactly its entitled keys -/
theorem receiver_commit_own_update (hw : WF t0) (hb : batchEdit t0 e = .ok (added, t1))
    {p : Priv} {l : Leaf} (hu : (p.self, l) ∈ e.updates) (hne : p.self ≠ sender)
    (hf : FilterOk t1 sender pk) (ha : applyUpdatePath t1 sender nl pk = .ok t') :
    (provisionalPriv t1 p (some l.hpke)).keys =
        some l.hpke :: List.replicate (directCopathOf t1 p.self).length none ∧
    ∃ d, decap t' (provisionalPriv t1 p (some l.hpke)) sender pk added = .ok d ∧
      KeyInv t' d.priv ∧ d.priv.self = p.self := by
  obtain ⟨⟨hs, _⟩, _, _, hn⟩ := hw
  have hes := batchEdit_editSpec hs hb
  have hs1 := batchEdit_preShape hs hn hb
  have hn1 := batchEdit_nonEmpty hs hn hb
  have hk1 := provisional_keyinv_own (p := p) hes hu
  obtain ⟨hpu, hLs⟩ := applyUpdatePath_spec ha
  have hself : (provisionalPriv t1 p (some l.hpke)).self = p.self := provisionalPriv_self _ _ _
  have hm1 : ∃ L, get t1 (2 * (provisionalPriv t1 p (some l.hpke)).self) = some (.leaf L) := by
    rw [hself]; exact ⟨l, hes.updated_leaf _ hu⟩
  have hne' : (provisionalPriv t1 p (some l.hpke)).self ≠ sender := by rw [hself]; exact hne
  have hna : p.self ∉ added := by
    intro hadd
    rcases hes.added_fresh _ hadd with h | h
    · -- a leaf cannot be both removed and updated: the update needs the leaf after the removes
      obtain ⟨t1', t2, t3, h1, h2, _, _⟩ := batchEdit_ok hb
      obtain ⟨L, hL⟩ := (applyUpdates_spec h2).2.2.1 _ hu
      have := (applyRemoves_spec h1).2.2.2 (2 * p.self)
      rw [if_pos ⟨p.self, List.mem_reverse.mpr h, Or.inl rfl⟩, hL] at this
      cases this
    · obtain ⟨t1', t2, t3, h1, h2, _, _⟩ := batchEdit_ok hb
      obtain ⟨L, hL⟩ := (applyUpdates_spec h2).2.2.1 _ hu
      have := (applyRemoves_spec h1).2.2.2 (2 * p.self)
      rw [hL] at this
      split at this
      · cases this
      · rw [h] at this; cases this
  refine ⟨no_stale_leaf_key _ _ _, ?_⟩
  obtain ⟨d, hd⟩ := decap_succeeds hpu hf hs1 hn1 hk1 hne' hm1 hLs
    (by rw [no_stale_leaf_key, hself]; simp) (by rw [hself]; exact hna)
  have h1 := decap_keyinv hpu hf hs1 hn1 hk1 hne' hm1 hLs hd
  rw [hself] at h1
  exact ⟨d, hd, h1.1, h1.2⟩

/-- (12) a member added by the commit -/
theorem joiner_commit (hw : WF t0) (hb : batchEdit t0 e = .ok (added, t1))
    {self j : Nat} (hj : added[j]? = some self) (hne : self ≠ sender)
    (hf : FilterOk t1 sender pk) (ha : applyUpdatePath t1 sender nl pk = .ok t') :
    ∃ L, e.adds[j]? = some L ∧ get t' (2 * self) = some (.leaf L) ∧
      ∃ p, joinerPriv t' self L.hpke sender true = .ok p ∧ KeyInv t' p := by
  obtain ⟨⟨hs, _⟩, _, _, hn⟩ := hw
  have hes := batchEdit_editSpec hs hb
  have hs1 := batchEdit_preShape hs hn hb
  have hn1 := batchEdit_nonEmpty hs hn hb
  obtain ⟨hpu, hLs⟩ := applyUpdatePath_spec ha
  have hlen := applyUpdatePath_length hs1 hf ha
  have hn' := pathUpdated_nonEmpty hpu hlen hLs hf hs1 hn1
  obtain ⟨L, hL1, hL2⟩ := hes.added_leaf j self hj
  have hmem : self ∈ added := List.mem_of_getElem? hj
  obtain ⟨hj1, p, hp⟩ := joiner_keyinv hpu hf hs1 hn1 hn' hne hL2 hLs
    (fun x P hg hbel => hes.added_unmerged self hmem x P hg hbel)
  refine ⟨L, hL1, ?_, p, hp, hj1 p hp⟩
  -- the joiner's leaf is untouched by the path update
  obtain ⟨k, hk, _, _⟩ := leafCount_spec t1
  rw [hpu.offPath (2 * self) (by omega) (by
    intro cp hcp heq
    obtain ⟨_, jj, _, rfl⟩ := mem_directCopathOf hk hcp
    have := pathEntry_fst_odd sender jj
    omega)]
  exact hL2

end Commit

/-! ### (6) recipients of the path secrets -/

section Seals
variable {t : Tree} {self : Nat} {newLeaf : Leaf} {excl : List Nat} {fresh : Nat} {o : EncapOut}

/-- every path secret is sealed only to non-blank nodes of the resolution (in the NEW tree) of the
copath child of its path node, never to a leaf of `excl` -/
theorem seal_recipients (hs : ShapeInv t) (hu : UnmergedInv t) (hn : NonEmptyInv t)
    (hL : ∃ L, get t (2 * self) = some (.leaf L))
    (h : encap t self newLeaf excl fresh = .ok o) :
    ∀ n rs, (n, rs) ∈ o.seals → ∃ cp ∈ directCopathOf t self, cp.1 = n ∧
      ∀ r ∈ rs, r ∈ resolution o.tree cp.2 ∧ (r % 2 = 0 → r / 2 ∉ excl) ∧ get o.tree r ≠ none := by
  have hself := self_lt_of_leaf hL
  obtain ⟨hpu, hf, _, _, _⟩ := encap_spec h hself
  have hu' := pathUpdated_unmerged hpu (encap_length hs.1 hself h) hL hf hs.1 hn hu
  intro n rs hm
  obtain ⟨cp, hcp, hn1, hr⟩ := seal_recipients_in_resolution' h n rs hm
  refine ⟨cp, hcp, hn1, fun r hr' => ?_⟩
  obtain ⟨h1, h2⟩ := hr r hr'
  exact ⟨h1, h2, resolution_nonblank' hu' h1⟩

end Seals

/-! ### (7) a removed member holds no key of the new tree -/

section Removed
variable {t0 t1 : Tree} {e : Edits} {added : List Nat}

theorem leaf_fresh_of_freshKeys (hw : WF t0) (hfr : e.FreshKeys t0)
    (hb : batchEdit t0 e = .ok (added, t1)) :
    ∀ x L, get t1 x = some (.leaf L) → get t0 x = some (.leaf L) ∨ L.hpke ∉ keyStamps t0 := by
  intro x L hg
  rcases batchEdit_leaf_source hw.1.1 hw.2.2.2 hb hg with h | h
  · exact Or.inl h
  · exact Or.inr (hfr L h)

/-- after the proposals, none of the stamps the removed member was entitled to occurs in the tree -/
theorem removed_keys_gone_batchEdit (hw : WF t0) (hfr : e.FreshKeys t0)
    (hb : batchEdit t0 e = .ok (added, t1)) {r : Nat} (hr : r ∈ e.removes) (hra : r ∉ added) :
    ∀ j k, slotAt (expectedSlots t0 r) j = some k → k ∉ keyStamps t1 :=
  removed_keys_gone hw.2.1 (batchEdit_editSpec hw.1.1 hb) hr hra (leaf_fresh_of_freshKeys hw hfr hb)

/-- … nor after the committer's path update with fresh stamps; hence no path secret of this commit
is sealed to a key the removed member holds -/
theorem removed_cannot_open (hw : WF t0) (hfr : e.FreshKeys t0)
    (hb : batchEdit t0 e = .ok (added, t1)) {r : Nat} (hr : r ∈ e.removes) (hra : r ∉ added)
    {p : Priv} (hp : p.self = r) (hk : KeyInv t0 p)
    {sender fresh : Nat} {nl : Leaf} {excl : List Nat} {o : EncapOut}
    (hsb : StampsBelow t0 fresh) (hnl : nl.hpke ∉ keyStamps t0)
    (hL : ∃ L, get t1 (2 * sender) = some (.leaf L))
    (he : encap t1 sender nl excl fresh = .ok o) :
    (∀ j k, slotAt p.keys j = some k → k ∉ keyStamps o.tree) ∧
    ∀ n rs, (n, rs) ∈ o.seals → ∀ x ∈ rs, ∀ nd, get o.tree x = some nd →
      ∀ j, slotAt p.keys j ≠ some nd.key := by
  have hself := self_lt_of_leaf hL
  obtain ⟨hpu, _, _, hkk, _⟩ := encap_spec he hself
  have hgone : ∀ j k, slotAt p.keys j = some k → k ∉ keyStamps o.tree := by
    intro j k hjk
    rw [(keyInv_iff _ _).1 hk j, hp] at hjk
    refine removed_keys_gone_after_path hw.2.1 (batchEdit_editSpec hw.1.1 hb) hr hra
      (leaf_fresh_of_freshKeys hw hfr hb) hpu ?_ hnl j k hjk
    intro j' k' hj' hm
    have := (hkk j' k' hj').1
    have := hsb k' hm
    omega
  refine ⟨hgone, ?_⟩
  intro n rs _ x _ nd hg j hj
  exact hgone j nd.key hj (mem_keyStamps.2 ⟨x, nd, hg, rfl⟩)

end Removed

/-! ### sender and receivers agree -/

section Agree
variable {t0 t1 : Tree} {e : Edits} {added : List Nat} {sender fresh : Nat} {nl : Leaf}
  {o : EncapOut}

/-- A whole commit: the committer runs `encap` on the tree after the proposals, excluding the
added leaves; every other untouched member applies the announced path, runs `decap`, succeeds,
opens a ciphertext that the committer really sealed to a node whose key the member holds, and ends
up with exactly the keys it is entitled to in the committer's new tree. -/
theorem commit_agrees (hw : WF t0) (hb : batchEdit t0 e = .ok (added, t1))
    (hL : ∃ L, get t1 (2 * sender) = some (.leaf L))
    (he : encap t1 sender nl added fresh = .ok o)
    {p : Priv} (hk : KeyInv t0 p) (hm : ∃ L, get t0 (2 * p.self) = some (.leaf L))
    (ht : p.self ∉ e.touched) (hne : p.self ≠ sender) :
    applyUpdatePath t1 sender nl o.pathKeys = .ok o.tree ∧
    ∃ d, decap o.tree (provisionalPriv t1 p none) sender o.pathKeys added = .ok d ∧
      KeyInv o.tree d.priv ∧ d.priv.self = p.self ∧
      ∃ n rs resNode key, (n, rs) ∈ o.seals ∧ rs[d.ctPos]? = some resNode ∧
        (provisionalPriv t1 p none).keys[d.slot]? = some (some key) ∧
        (get o.tree resNode).map Node.key = some key := by
  have hself := self_lt_of_leaf hL
  obtain ⟨_, hf, _, _, _⟩ := encap_spec he hself
  have ha := encap_applyUpdatePath_agree hL he
  refine ⟨ha, ?_⟩
  obtain ⟨d, hd, h1, h2, cp, resNode, key, c1, ⟨k, c2⟩, _, c4, c5, c6⟩ :=
    receiver_commit hw hb hk hm ht hne hf ha
  refine ⟨d, hd, h1, h2, cp.1, _, resNode, key, ?_, c4, c5, c6⟩
  exact (encap_seals he _ _).2 ⟨_, cp, k, c1, c2, rfl, rfl⟩

end Agree

/-! ### reachable trees -/

/-- trees reachable from a one-member group by applying proposals (with fresh leaf keys) and
committers' path updates (with fresh stamps) -/
inductive Reachable : Tree → Prop
  | init (l : Leaf) : Reachable [some (.leaf l)]
  | edit {t t' : Tree} {e : Edits} {added : List Nat} : Reachable t → e.FreshKeys t →
      batchEdit t e = .ok (added, t') → Reachable t'
  | path {t : Tree} {self fresh : Nat} {nl : Leaf} {excl : List Nat} {o : EncapOut} :
      Reachable t → (∃ L, get t (2 * self) = some (.leaf L)) →
      StampsBelow t fresh → nl.hpke ∉ keyStamps t → nl.hpke < fresh →
      (∀ x L, x ≠ 2 * self → get t x = some (.leaf L) → L.ident ≠ nl.ident ∧ L.sig ≠ nl.sig) →
      encap t self nl excl fresh = .ok o → Reachable o.tree

theorem wf_single (l : Leaf) : WF [some (.leaf l)] := by
  have hg0 : get [some (Node.leaf l)] 0 = some (.leaf l) := rfl
  refine ⟨⟨⟨?_, Or.inr rfl⟩, by simp [NoTrail]⟩, ⟨?_, ?_⟩, ?_, ?_⟩
  · intro i hi
    have : i = 0 := by simpa using hi
    subst this
    exact ⟨fun _ => rfl, fun h => by omega⟩
  · intro i hi j hj hne
    have : i = 0 := by simpa using hi
    have : j = 0 := by simpa using hj
    omega
  · intro i hi j hj hne
    have : i = 0 := by simpa using hi
    have : j = 0 := by simpa using hj
    omega
  · intro p hp P hP
    have : p = 0 := by simpa using hp
    subst this
    rw [hg0] at hP; cases hP
  · intro p hp P hP
    have : p = 0 := by simpa using hp
    subst this
    rw [hg0] at hP; cases hP

/-- C08: every reachable tree satisfies all well-formedness invariants -/
theorem reachable_wf {t : Tree} (h : Reachable t) : WF t := by
  induction h with
  | init l => exact wf_single l
  | edit _ hf hb ih => exact wf_batchEdit ih hf hb
  | path _ hL hsb hnl hnl2 hid he ih => exact wf_encap ih hL hsb hnl hnl2 hid he

end MlsVerif.Tree
