import MlsVerif.Proofs.Tree.PathFacts
/-
Consequences of `PathUpdated t t' s nl pk` (+ `FilterOk t s pk`): basic node classification and
the preservation of `PreShape`, `NoTrail`, `StampsBelow`.
-/
namespace MlsVerif.Tree
open MlsVerif.TreeMath

namespace Upd

/-- the context shared by all lemmas: the height `k`, `s` is a leaf of the tree -/
theorem ctx {t : Tree} {s : Nat} (hL : ∃ L, get t (2 * s) = some (.leaf L)) :
    ∃ k, leafCount t = 2 ^ k ∧ s < 2 ^ k ∧ t.length ≤ 2 ^ (k + 1) - 1 := by
  obtain ⟨k, hk, _, _⟩ := leafCount_spec t
  obtain ⟨L, hL⟩ := hL
  exact ⟨k, hk, leaf_lt_leafCount t k s hk (lt_of_get_some hL), tree_length_le t k hk⟩

theorem dc_get {t : Tree} {s k j : Nat} (hk : leafCount t = 2 ^ k) (hs : s < 2 ^ k) (hj : j < k) :
    (directCopathOf t s)[j]? = some (pathEntry s j) := by
  rw [directCopathOf_getElem? t k s j hk, if_pos ⟨hs, hj⟩]

section
variable {t t' : Tree} {s : Nat} {nl : Leaf} {pk : List (Option Nat)}

/-- classification of the nodes of `t'` -/
theorem classify (hpu : PathUpdated t t' s nl pk) {k : Nat} (hk : leafCount t = 2 ^ k)
    (hs : s < 2 ^ k) (x : Nat) :
    (x = 2 * s ∧ get t' x = some (.leaf nl)) ∨
    (∃ j k', j < k ∧ x = (pathEntry s j).1 ∧ pk[j]? = some (some k') ∧
        get t' x = some (.parent { key := k', unmerged := [] })) ∨
    (x ≠ 2 * s ∧ get t' x = get t x ∧
        ∀ j, j < k → x = (pathEntry s j).1 → ∀ k', pk[j]? ≠ some (some k')) := by
  by_cases hx : x = 2 * s
  · left; exact ⟨hx, hx ▸ hpu.leaf⟩
  · right
    by_cases hp : ∃ j, j < k ∧ x = (pathEntry s j).1
    · obtain ⟨j, hj, rfl⟩ := hp
      have h := hpu.onPath j (pathEntry s j) (dc_get hk hs hj)
      cases hq : pk[j]? with
      | none =>
        right; rw [hq] at h
        refine ⟨hx, h, ?_⟩
        intro j' _ he k' hk'
        rw [← pathEntry_fst_inj he, hq] at hk'; simp at hk'
      | some o =>
        cases o with
        | none =>
          right; rw [hq] at h
          refine ⟨hx, h, ?_⟩
          intro j' _ he k' hk'
          rw [← pathEntry_fst_inj he, hq] at hk'; simp at hk'
        | some k' =>
          left; rw [hq] at h
          exact ⟨j, k', hj, rfl, hq, h⟩
    · right
      refine ⟨hx, ?_, ?_⟩
      · apply hpu.offPath x hx
        intro cp hcp he
        obtain ⟨_, j, hj, rfl⟩ := mem_directCopathOf hk hcp
        exact hp ⟨j, hj, he.symm⟩
      · intro j hj he; exact absurd ⟨j, hj, he⟩ hp

/-- no node becomes blank -/
theorem nonblank_mono (hpu : PathUpdated t t' s nl pk) {k : Nat} (hk : leafCount t = 2 ^ k)
    (hs : s < 2 ^ k) {x : Nat} (h : get t x ≠ none) : get t' x ≠ none := by
  rcases classify hpu hk hs x with ⟨_, h1⟩ | ⟨j, k', _, _, _, h1⟩ | ⟨_, h1, _⟩
  · rw [h1]; simp
  · rw [h1]; simp
  · rw [h1]; exact h

/-- the key of a non-blank node of `t'` -/
theorem key_class (hpu : PathUpdated t t' s nl pk) {k : Nat} (hk : leafCount t = 2 ^ k)
    (hs : s < 2 ^ k) {x : Nat} {n : Node} (h : get t' x = some n) :
    (x = 2 * s ∧ n = .leaf nl) ∨
    (∃ j k', j < k ∧ x = (pathEntry s j).1 ∧ pk[j]? = some (some k') ∧
        n = .parent { key := k', unmerged := [] }) ∨
    (x ≠ 2 * s ∧ get t x = some n ∧
        ∀ j, j < k → x = (pathEntry s j).1 → ∀ k', pk[j]? ≠ some (some k')) := by
  rcases classify hpu hk hs x with ⟨h0, h1⟩ | ⟨j, k', hj, hx, hp, h1⟩ | ⟨h0, h1, h2⟩
  · left; rw [h1] at h; exact ⟨h0, by simpa using h.symm⟩
  · right; left; rw [h1] at h; exact ⟨j, k', hj, hx, hp, by simpa using h.symm⟩
  · right; right; rw [h1] at h; exact ⟨h0, h, h2⟩

end
end Upd

section
variable {t t' : Tree} {s : Nat} {nl : Leaf} {pk : List (Option Nat)}

theorem pathUpdated_preShape (hpu : PathUpdated t t' s nl pk) (hlen : t'.length = t.length)
    (hL : ∃ L, get t (2 * s) = some (.leaf L)) : PreShape t → PreShape t' := by
  intro ⟨h1, h2⟩
  obtain ⟨k, hk, hs, _⟩ := Upd.ctx hL
  refine ⟨?_, hlen ▸ h2⟩
  intro i hi
  rcases Upd.classify hpu hk hs i with ⟨h0, h3⟩ | ⟨j, k', _, hx, _, h3⟩ | ⟨_, h3, _⟩
  · rw [h3]; exact ⟨fun _ => rfl, fun h => by omega⟩
  · rw [h3]
    have := pathEntry_fst_odd s j
    exact ⟨fun h => by omega, fun _ => rfl⟩
  · rw [h3]; exact h1 i (hlen ▸ hi)

theorem pathUpdated_noTrail (hpu : PathUpdated t t' s nl pk) (hlen : t'.length = t.length)
    (hL : ∃ L, get t (2 * s) = some (.leaf L)) : NoTrail t → NoTrail t' := by
  obtain ⟨k, hk, hs, _⟩ := Upd.ctx hL
  rw [noTrail_iff, noTrail_iff, hlen]
  rintro (h | h)
  · left; exact h
  · right; exact Upd.nonblank_mono hpu hk hs h

theorem pathUpdated_stamps (hpu : PathUpdated t t' s nl pk) (_hlen : t'.length = t.length)
    (hL : ∃ L, get t (2 * s) = some (.leaf L)) {b b' : Nat} :
    StampsBelow t b → (∀ (j k : Nat), pk[j]? = some (some k) → k < b') → nl.hpke < b' → b ≤ b' →
    StampsBelow t' b' := by
  intro hb hp hn hbb
  obtain ⟨k, hk, hs, _⟩ := Upd.ctx hL
  intro key hkey
  obtain ⟨i, n, hg, rfl⟩ := mem_keyStamps.1 hkey
  rcases Upd.key_class hpu hk hs hg with ⟨_, rfl⟩ | ⟨j, k', _, _, hq, rfl⟩ | ⟨_, h3, _⟩
  · exact hn
  · exact hp j k' hq
  · exact Nat.lt_of_lt_of_le (hb _ (mem_keyStamps.2 ⟨i, n, h3, rfl⟩)) hbb

end
end MlsVerif.Tree
