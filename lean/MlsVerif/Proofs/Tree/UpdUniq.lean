import MlsVerif.Proofs.Tree.UpdBase
/-
Consequences of `PathUpdated t t' s nl pk`: preservation of `UniqInv` for fresh path keys and a
new leaf whose identity / signature key do not occur elsewhere.
-/
namespace MlsVerif.Tree
open MlsVerif.TreeMath

namespace Upd
section
variable {t t' : Tree} {s : Nat} {nl : Leaf} {pk : List (Option Nat)}

/-- where the key of a non-blank node of `t'` comes from -/
theorem key_src (hpu : PathUpdated t t' s nl pk) {k : Nat} (hk : leafCount t = 2 ^ k)
    (hs : s < 2 ^ k) {x : Nat} {n : Node} (h : get t' x = some n) :
    (x = 2 * s ∧ n.key = nl.hpke) ∨
    (∃ j, x = (pathEntry s j).1 ∧ pk[j]? = some (some n.key)) ∨
    (x ≠ 2 * s ∧ get t x = some n) := by
  rcases key_class hpu hk hs h with ⟨h0, rfl⟩ | ⟨j, k', _, hx, hq, rfl⟩ | ⟨h0, h1, _⟩
  · left; exact ⟨h0, rfl⟩
  · right; left; exact ⟨j, hx, hq⟩
  · right; right; exact ⟨h0, h1⟩

/-- where a leaf of `t'` comes from -/
theorem leaf_src (hpu : PathUpdated t t' s nl pk) {k : Nat} (hk : leafCount t = 2 ^ k)
    (hs : s < 2 ^ k) {x : Nat} {L : Leaf} (h : leafOf? (get t' x) = some L) :
    (x = 2 * s ∧ L = nl) ∨ (x ≠ 2 * s ∧ get t x = some (.leaf L)) := by
  rw [leafOf?_eq_some] at h
  rcases key_class hpu hk hs h with ⟨h0, h1⟩ | ⟨j, k', _, hx, hq, h1⟩ | ⟨h0, h1, _⟩
  · left; exact ⟨h0, by simpa using h1⟩
  · simp at h1
  · right; exact ⟨h0, h1⟩

theorem leaf_uniq (hpu : PathUpdated t t' s nl pk) (hlen : t'.length = t.length)
    {k : Nat} (hk : leafCount t = 2 ^ k) (hs : s < 2 ^ k) (f : Leaf → Nat)
    (hold : ∀ i < t.length, ∀ j < t.length, i ≠ j →
      (leafOf? (get t i)).map f = (leafOf? (get t j)).map f → leafOf? (get t i) = none)
    (hnew : ∀ x L, x ≠ 2 * s → get t x = some (.leaf L) → f L ≠ f nl) :
    ∀ i < t'.length, ∀ j < t'.length, i ≠ j →
      (leafOf? (get t' i)).map f = (leafOf? (get t' j)).map f → leafOf? (get t' i) = none := by
  intro i hi j hj hij he
  cases hgi : leafOf? (get t' i) with
  | none => rfl
  | some Li =>
    exfalso
    rw [hgi] at he
    cases hgj : leafOf? (get t' j) with
    | none => rw [hgj] at he; simp at he
    | some Lj =>
      rw [hgj] at he
      simp only [Option.map_some, Option.some.injEq] at he
      rcases leaf_src hpu hk hs hgi with ⟨hi0, rfl⟩ | ⟨hi0, hi1⟩ <;>
        rcases leaf_src hpu hk hs hgj with ⟨hj0, rfl⟩ | ⟨hj0, hj1⟩
      · omega
      · exact hnew j Lj hj0 hj1 he.symm
      · exact hnew i Li hi0 hi1 he
      · have := hold i (hlen ▸ hi) j (hlen ▸ hj) hij (by rw [hi1, hj1]; simp [he])
        rw [hi1] at this; simp at this

end
end Upd

section
variable {t t' : Tree} {s : Nat} {nl : Leaf} {pk : List (Option Nat)}

theorem pathUpdated_uniq (hpu : PathUpdated t t' s nl pk) (hlen : t'.length = t.length)
    (hL : ∃ L, get t (2 * s) = some (.leaf L)) :
    UniqInv t →
    (∀ (j k : Nat), pk[j]? = some (some k) → k ∉ keyStamps t ∧ k ≠ nl.hpke) →
    (∀ (j j' k : Nat), pk[j]? = some (some k) → pk[j']? = some (some k) → j = j') →
    nl.hpke ∉ keyStamps t →
    (∀ x L, x ≠ 2 * s → get t x = some (.leaf L) → L.ident ≠ nl.ident ∧ L.sig ≠ nl.sig) →
    UniqInv t' := by
  intro ⟨hu1, hu2⟩ hfresh hinj hnlk hid
  obtain ⟨k, hk, hs, _⟩ := Upd.ctx hL
  refine ⟨?_, ?_⟩
  · intro i hi j hj hij he
    cases hgi : get t' i with
    | none => rfl
    | some n =>
      exfalso
      rw [hgi] at he
      cases hgj : get t' j with
      | none => rw [hgj] at he; simp at he
      | some m =>
        rw [hgj] at he
        simp only [Option.map_some, Option.some.injEq] at he
        rcases Upd.key_src hpu hk hs hgi with ⟨hi0, hi1⟩ | ⟨ji, hi0, hi1⟩ | ⟨hi0, hi1⟩ <;>
          rcases Upd.key_src hpu hk hs hgj with ⟨hj0, hj1⟩ | ⟨jj, hj0, hj1⟩ | ⟨hj0, hj1⟩
        · omega
        · exact (hfresh jj _ hj1).2 (by rw [← he, hi1])
        · exact hnlk (mem_keyStamps.2 ⟨j, m, hj1, by rw [← he, hi1]⟩)
        · exact (hfresh ji _ hi1).2 (by rw [he, hj1])
        · rw [he] at hi1
          have := hinj ji jj _ hi1 hj1
          subst this
          exact hij (by rw [hi0, hj0])
        · exact (hfresh ji _ hi1).1 (mem_keyStamps.2 ⟨j, m, hj1, he.symm⟩)
        · exact hnlk (mem_keyStamps.2 ⟨i, n, hi1, by rw [he, hj1]⟩)
        · exact (hfresh jj _ hj1).1 (mem_keyStamps.2 ⟨i, n, hi1, he⟩)
        · have := hu1 i (hlen ▸ hi) j (hlen ▸ hj) hij (by rw [hi1, hj1]; simp [he])
          rw [hi1] at this; simp at this
  · intro i hi j hj hij
    exact ⟨Upd.leaf_uniq hpu hlen hk hs (·.ident)
        (fun i hi j hj hij => (hu2 i hi j hj hij).1) (fun x L h1 h2 => (hid x L h1 h2).1) i hi j hj hij,
      Upd.leaf_uniq hpu hlen hk hs (·.sig)
        (fun i hi j hj hij => (hu2 i hi j hj hij).2) (fun x L h1 h2 => (hid x L h1 h2).2) i hi j hj hij⟩

end
end MlsVerif.Tree
