import MlsVerif.Proofs.Tree.EncFold
/-
`encap` and `applyUpdatePath` at get-level.
-/
namespace MlsVerif.Tree
open MlsVerif.TreeMath

namespace Enc

abbrev Acc := Tree × Nat × List (Option Nat)

/-- the step function of the fold in `encap` -/
def step (acc : Acc) (pf : (Nat × Nat) × Bool) : Except Err Acc :=
  let (t, k, keys) := acc
  if pf.2 then (Except.ok (t, k, keys ++ [none]) : Except Err _)
  else match updateNode t pf.1.1 k with
    | .ok t' => .ok (t', k + 1, keys ++ [some k])
    | .error e => .error e

/-- the seals computed by `encap` -/
def sealsOf (path : List (Nat × Nat)) (keys : List (Option Nat)) (t2 : Tree) (excl : List Nat) :
    List (Nat × List Nat) :=
  (path.zip keys).filterMap fun (cp, k) =>
    k.map fun _ => (cp.1, (resolution t2 cp.2).filter fun i => !(excl.map (2 * ·)).contains i)

theorem encap_ok {t : Tree} {self : Nat} {newLeaf : Leaf} {excl : List Nat} {fresh : Nat} {o : EncapOut}
    (h : encap t self newLeaf excl fresh = .ok o) :
    ∃ t1 k1 keys, ((directCopathOf t self).zip (filtered t self)).foldlM step (t, fresh, []) = .ok (t1, k1, keys) ∧
      o = { tree := set t1 (2 * self) (some (.leaf newLeaf)), slots := some newLeaf.hpke :: keys,
            pathKeys := keys,
            seals := sealsOf (directCopathOf t self) keys (set t1 (2 * self) (some (.leaf newLeaf))) excl } := by
  unfold encap at h
  simp only [bind, Except.bind, pure, Except.pure] at h
  split at h
  · cases h
  · rename_i r hr
    obtain ⟨t1, k1, keys⟩ := r
    cases h
    exact ⟨t1, k1, keys, hr, rfl⟩

theorem step_true {ta : Tree} {ka : Nat} {keysa : List (Option Nat)} {cp : Nat × Nat} :
    step (ta, ka, keysa) (cp, true) = .ok (ta, ka, keysa ++ [none]) := rfl

theorem step_false {ta : Tree} {ka : Nat} {keysa : List (Option Nat)} {cp : Nat × Nat} {r : Acc}
    (h : step (ta, ka, keysa) (cp, false) = .ok r) :
    ∃ t1, updateNode ta cp.1 ka = .ok t1 ∧ r = (t1, ka + 1, keysa ++ [some ka]) := by
  simp only [step, Bool.false_eq_true, if_false] at h
  split at h
  · rename_i t1 h1
    cases h
    exact ⟨t1, h1, rfl⟩
  · cases h

theorem encFold_spec (l : List ((Nat × Nat) × Bool)) : ∀ (ta : Tree) (ka : Nat) (keysa : List (Option Nat))
    (tr : Tree) (kr : Nat) (keysr : List (Option Nat)),
    l.foldlM step (ta, ka, keysa) = .ok (tr, kr, keysr) →
    ∃ ks, keysr = keysa ++ ks ∧ ks.map Option.isNone = l.map (·.2) ∧ ka ≤ kr ∧ kr ≤ ka + l.length ∧
      (∀ (j k : Nat), ks[j]? = some (some k) → ka ≤ k ∧ k < kr) ∧
      (∀ (j j' k k' : Nat), j < j' → ks[j]? = some (some k) → ks[j']? = some (some k') → k < k') ∧
      ((l.map (·.1.1)).zip ks).foldlM upd ta = .ok tr := by
  induction l with
  | nil =>
    intro ta ka keysa tr kr keysr h
    cases h
    exact ⟨[], by simp, rfl, Nat.le_refl _, Nat.le_refl _, by simp, by simp, rfl⟩
  | cons a l ih =>
    intro ta ka keysa tr kr keysr h
    obtain ⟨r1, h1, h2⟩ := foldlM_cons_ok _ _ _ _ _ h
    obtain ⟨cp, f⟩ := a
    cases f with
    | true =>
      rw [step_true] at h1
      cases h1
      obtain ⟨ks, e1, e2, e3, e4, e5, e6, e7⟩ := ih _ _ _ _ _ _ h2
      refine ⟨none :: ks, by rw [e1]; simp, by simp [e2], e3, by simp; omega, ?_, ?_, ?_⟩
      · intro j k hj
        cases j with
        | zero => simp at hj
        | succ j => exact e5 j k (by simpa using hj)
      · intro j j' k k' hlt hj hj'
        cases j with
        | zero => simp at hj
        | succ j =>
          cases j' with
          | zero => omega
          | succ j' => exact e6 j j' k k' (by omega) (by simpa using hj) (by simpa using hj')
      · simp only [List.map_cons, List.zip_cons_cons, List.foldlM_cons]
        exact e7
    | false =>
      obtain ⟨t1, hu, rfl⟩ := step_false h1
      obtain ⟨ks, e1, e2, e3, e4, e5, e6, e7⟩ := ih _ _ _ _ _ _ h2
      refine ⟨some ka :: ks, by rw [e1]; simp, by simp [e2], by omega, by simp; omega, ?_, ?_, ?_⟩
      · intro j k hj
        cases j with
        | zero =>
          simp at hj; omega
        | succ j =>
          have := e5 j k (by simpa using hj); omega
      · intro j j' k k' hlt hj hj'
        cases j' with
        | zero => omega
        | succ j' =>
          have h' := e5 j' k' (by simpa using hj')
          cases j with
          | zero => simp at hj; omega
          | succ j => exact e6 j j' k k' (by omega) (by simpa using hj) (by simpa using hj')
      · simp only [List.map_cons, List.zip_cons_cons, List.foldlM_cons]
        show (upd ta (cp.1, some ka) >>= _) = _
        have : upd ta (cp.1, some ka) = .ok t1 := hu
        rw [this]
        exact e7

theorem zip_fst_sublist {α β : Type} : ∀ (a : List α) (b : List β), ((a.zip b).map Prod.fst).Sublist a
  | [], _ => by simp
  | _ :: _, [] => by simp
  | x :: a, y :: b => by
    simp only [List.zip_cons_cons, List.map_cons]
    exact (zip_fst_sublist a b).cons_cons x

theorem path_nodup (t : Tree) (i : Nat) : ((directCopathOf t i).map (·.1)).Nodup := by
  obtain ⟨k, hk, _, _⟩ := leafCount_spec t
  rw [List.nodup_iff_pairwise_ne, List.pairwise_iff_getElem]
  intro a b ha hb hab heq
  simp only [List.length_map] at ha hb
  simp only [List.getElem_map] at heq
  have h1 := directCopathOf_getElem? t k i a hk
  have h2 := directCopathOf_getElem? t k i b hk
  rw [List.getElem?_eq_getElem ha] at h1
  rw [List.getElem?_eq_getElem hb] at h2
  split at h1
  · split at h2
    · simp only [Option.some.injEq] at h1 h2
      rw [h1, h2] at heq
      have := pathEntry_fst_inj heq
      omega
    · cases h2
  · cases h1

/-- what the generic fold over the sender's direct path does, from any start tree of the same length -/
theorem fold_path {t ta tr : Tree} {sender : Nat} {keys : List (Option Nat)}
    (hlen : ta.length = t.length) (hs : 2 * sender < t.length)
    (h : (((directCopathOf t sender).map (·.1)).zip keys).foldlM upd ta = .ok tr) :
    leafCount tr = leafCount t ∧ t.length ≤ tr.length ∧
    (∀ B, t.length ≤ B → (∀ (j : Nat) cp k, (directCopathOf t sender)[j]? = some cp →
        keys[j]? = some (some k) → cp.1 < B) → tr.length ≤ B) ∧
    (∀ (j : Nat) (cp : Nat × Nat), (directCopathOf t sender)[j]? = some cp →
      get tr cp.1 = match keys[j]? with
        | some (some k) => some (.parent { key := k, unmerged := [] })
        | _ => get ta cp.1) ∧
    (∀ x, (∀ cp ∈ directCopathOf t sender, cp.1 ≠ x) → get tr x = get ta x) := by
  obtain ⟨k, hk, hk1, hk2⟩ := leafCount_spec t
  have hi : sender < 2 ^ k := leaf_lt_leafCount t k sender hk hs
  have hnd : ((((directCopathOf t sender).map (·.1)).zip keys).map (·.1)).Nodup :=
    List.Nodup.sublist (zip_fst_sublist _ _) (path_nodup t sender)
  obtain ⟨i1, i2, i3, i4⟩ := updFold_spec _ _ _ h hnd
  -- membership in the zipped list
  have hmem : ∀ a ∈ ((directCopathOf t sender).map (·.1)).zip keys, ∃ j, j < k ∧
      (directCopathOf t sender)[j]? = some (pathEntry sender j) ∧ a.1 = (pathEntry sender j).1 ∧
      keys[j]? = some a.2 := by
    intro a ha
    obtain ⟨j, hj⟩ := List.getElem?_of_mem ha
    rw [List.getElem?_zip_eq_some, List.getElem?_map] at hj
    obtain ⟨hj1, hj2⟩ := hj
    have h1 := directCopathOf_getElem? t k sender j hk
    split at h1
    · rename_i hc
      rw [h1] at hj1
      simp only [Option.map_some, Option.some.injEq] at hj1
      exact ⟨j, hc.2, h1, hj1.symm, hj2⟩
    · rw [h1] at hj1; simp at hj1
  have hB : tr.length ≤ 2 ^ (k + 1) - 1 := by
    apply i2
    · rw [hlen]; exact tree_length_le t k hk
    · intro a ha _
      obtain ⟨j, hj, _, e, _⟩ := hmem a ha
      rw [e]
      exact (pathEntry_lt k sender j hi hj).1
  have hle : t.length ≤ tr.length := by omega
  refine ⟨?_, hle, ?_, ?_, ?_⟩
  · rw [hk]
    apply leafCount_eq_of
    · rw [pow_succ'] at hB; omega
    · rcases hk2 with hk2 | hk2
      · left; exact hk2
      · right; omega
  · intro B hB' hall
    apply i2 B (by omega)
    intro a ha hsome
    obtain ⟨j, hj, e1, e2, e3⟩ := hmem a ha
    obtain ⟨p, ko⟩ := a
    cases ko with
    | none => simp at hsome
    | some kk =>
      have := hall j _ kk e1 e3
      simp only at e2
      rw [e2]; exact this
  · intro j cp hcp
    cases hkj : keys[j]? with
    | none =>
      simp only
      apply i4
      intro a ha heq
      obtain ⟨j', hj', e1, e2, e3⟩ := hmem a ha
      have h1 := directCopathOf_getElem? t k sender j hk
      rw [hcp] at h1
      split at h1
      · simp only [Option.some.injEq] at h1
        rw [e2, h1] at heq
        have := pathEntry_fst_inj heq
        subst this
        rw [hkj] at e3; cases e3
      · cases h1
    | some ko =>
      have hm : (cp.1, ko) ∈ ((directCopathOf t sender).map (·.1)).zip keys := by
        apply List.mem_of_getElem? (i := j)
        rw [List.getElem?_zip_eq_some, List.getElem?_map, hcp, hkj]
        exact ⟨rfl, rfl⟩
      have := i3 _ hm
      simp only at this
      rw [this]
      cases ko <;> rfl
  · intro x hx
    apply i4
    intro a ha
    obtain ⟨j, _, e1, e2, _⟩ := hmem a ha
    rw [e2]
    exact hx _ (List.mem_of_getElem? e1)

theorem path_fst_odd {t : Tree} {i : Nat} {cp : Nat × Nat} (h : cp ∈ directCopathOf t i) :
    cp.1 % 2 = 1 := by
  obtain ⟨k, hk, _, _⟩ := leafCount_spec t
  obtain ⟨_, j, _, rfl⟩ := mem_directCopathOf hk h
  exact pathEntry_fst_odd i j

theorem pathUpdated_of {t ta tr t' : Tree} {sender : Nat} {newLeaf : Leaf} {keys : List (Option Nat)}
    (hlen : ta.length = t.length) (hs : 2 * sender < t.length)
    (h : (((directCopathOf t sender).map (·.1)).zip keys).foldlM upd ta = .ok tr)
    (hta : ∀ x, x ≠ 2 * sender → get ta x = get t x)
    (hlen' : t'.length = tr.length)
    (hleaf : get t' (2 * sender) = some (.leaf newLeaf))
    (ht' : ∀ x, x ≠ 2 * sender → get t' x = get tr x) :
    PathUpdated t t' sender newLeaf keys := by
  obtain ⟨f1, f2, _, f4, f5⟩ := fold_path hlen hs h
  refine ⟨?_, by omega, hleaf, ?_, ?_⟩
  · rw [leafCount_congr hlen', f1]
  · intro j cp hcp
    have hodd := path_fst_odd (List.mem_of_getElem? hcp)
    have hne : cp.1 ≠ 2 * sender := by omega
    rw [ht' _ hne, f4 j cp hcp]
    cases hk : keys[j]? with
    | none => exact hta _ hne
    | some ko =>
      cases ko with
      | none => exact hta _ hne
      | some k => rfl
  · intro x hx hall
    rw [ht' x hx, f5 x hall, hta x hx]

theorem zip_filtered_fst (t : Tree) (self : Nat) :
    ((directCopathOf t self).zip (filtered t self)).map (·.1.1) = (directCopathOf t self).map (·.1) := by
  have : ((directCopathOf t self).zip (filtered t self)).map (·.1.1) =
      (((directCopathOf t self).zip (filtered t self)).map Prod.fst).map Prod.fst := by
    rw [List.map_map]; rfl
  rw [this, List.map_fst_zip (by simp [filtered])]

theorem zip_filtered_snd (t : Tree) (self : Nat) :
    ((directCopathOf t self).zip (filtered t self)).map (·.2) = filtered t self :=
  List.map_snd_zip (by simp [filtered])

/-- everything the fold of `encap` yields -/
theorem encap_facts {t : Tree} {self : Nat} {newLeaf : Leaf} {excl : List Nat} {fresh : Nat} {o : EncapOut}
    (h : encap t self newLeaf excl fresh = .ok o) :
    ∃ t1, o.tree = set t1 (2 * self) (some (.leaf newLeaf)) ∧
      o.slots = some newLeaf.hpke :: o.pathKeys ∧
      o.seals = sealsOf (directCopathOf t self) o.pathKeys o.tree excl ∧
      o.pathKeys.map Option.isNone = filtered t self ∧
      (∀ (j k : Nat), o.pathKeys[j]? = some (some k) → fresh ≤ k ∧ k < fresh + o.pathKeys.length) ∧
      (∀ (j j' k k' : Nat), j < j' → o.pathKeys[j]? = some (some k) → o.pathKeys[j']? = some (some k') → k < k') ∧
      (((directCopathOf t self).map (·.1)).zip o.pathKeys).foldlM upd t = .ok t1 := by
  obtain ⟨t1, k1, keys, hf, rfl⟩ := encap_ok h
  obtain ⟨ks, e1, e2, e3, e4, e5, e6, e7⟩ := encFold_spec _ _ _ _ _ _ _ hf
  simp only [List.nil_append] at e1
  subst e1
  rw [zip_filtered_fst] at e7
  rw [zip_filtered_snd] at e2
  refine ⟨t1, rfl, rfl, rfl, e2, ?_, e6, e7⟩
  intro j k hj
  have := e5 j k hj
  have hl : ((directCopathOf t self).zip (filtered t self)).length = keys.length := by
    have := congrArg List.length e2
    simp only [List.length_map] at this
    simp [filtered]
    simp [filtered] at this
    omega
  show fresh ≤ k ∧ k < fresh + keys.length
  omega

end Enc

theorem encap_spec {t : Tree} {self : Nat} {newLeaf : Leaf} {excl : List Nat} {fresh : Nat} {o : EncapOut}
    (h : encap t self newLeaf excl fresh = .ok o) (hself : 2 * self < t.length) :
    PathUpdated t o.tree self newLeaf o.pathKeys ∧ FilterOk t self o.pathKeys ∧
    o.slots = some newLeaf.hpke :: o.pathKeys ∧
    (∀ (j k : Nat), o.pathKeys[j]? = some (some k) → fresh ≤ k ∧ k < fresh + o.pathKeys.length) ∧
    (∀ (j j' k : Nat), o.pathKeys[j]? = some (some k) → o.pathKeys[j']? = some (some k) → j = j') := by
  obtain ⟨t1, e1, e2, _, e4, e5, e6, e7⟩ := Enc.encap_facts h
  have hl := (Enc.fold_path rfl hself e7).2.1
  refine ⟨?_, e4, e2, e5, ?_⟩
  · apply Enc.pathUpdated_of rfl hself e7 (fun _ _ => rfl)
    · rw [e1]; simp
    · rw [e1]; exact get_set_self _ _ _ (by omega)
    · intro x hx; rw [e1]; exact get_set_ne _ _ _ _ (Ne.symm hx)
  · intro j j' k hj hj'
    rcases Nat.lt_trichotomy j j' with hlt | heq | hlt
    · have := e6 j j' k k hlt hj hj'; omega
    · exact heq
    · have := e6 j' j k k hlt hj' hj; omega

/-- (6) the seals are exactly: one per unfiltered path position, addressed to the resolution of the
copath child (in the new tree) without the excluded leaves -/
theorem encap_seals {t : Tree} {self : Nat} {newLeaf : Leaf} {excl : List Nat} {fresh : Nat} {o : EncapOut}
    (h : encap t self newLeaf excl fresh = .ok o) :
    ∀ n rs, (n, rs) ∈ o.seals ↔
      ∃ (j : Nat) (cp : Nat × Nat) (k : Nat), (directCopathOf t self)[j]? = some cp ∧
        o.pathKeys[j]? = some (some k) ∧ n = cp.1 ∧
        rs = (resolution o.tree cp.2).filter (fun i => !(excl.map (2 * ·)).contains i) := by
  obtain ⟨t1, _, _, e3, _⟩ := Enc.encap_facts h
  intro n rs
  rw [e3, Enc.sealsOf, List.mem_filterMap]
  constructor
  · rintro ⟨⟨cp, ko⟩, ha, hf⟩
    cases ko with
    | none => simp at hf
    | some k =>
      simp only [Option.map_some, Option.some.injEq, Prod.mk.injEq] at hf
      obtain ⟨j, hj⟩ := List.getElem?_of_mem ha
      rw [List.getElem?_zip_eq_some] at hj
      exact ⟨j, cp, k, hj.1, hj.2, hf.1.symm, hf.2.symm⟩
  · rintro ⟨j, cp, k, h1, h2, rfl, rfl⟩
    refine ⟨(cp, some k), ?_, rfl⟩
    apply List.mem_of_getElem? (i := j)
    rw [List.getElem?_zip_eq_some]
    exact ⟨h1, h2⟩

theorem seal_recipients_in_resolution' {t : Tree} {self : Nat} {newLeaf : Leaf} {excl : List Nat}
    {fresh : Nat} {o : EncapOut} (h : encap t self newLeaf excl fresh = .ok o) :
    ∀ n rs, (n, rs) ∈ o.seals → ∃ cp ∈ directCopathOf t self, cp.1 = n ∧
      ∀ r ∈ rs, r ∈ resolution o.tree cp.2 ∧ (r % 2 = 0 → r / 2 ∉ excl) := by
  intro n rs hm
  obtain ⟨j, cp, k, h1, _, rfl, rfl⟩ := (encap_seals h n rs).1 hm
  refine ⟨cp, List.mem_of_getElem? h1, rfl, ?_⟩
  intro r hr
  rw [List.mem_filter] at hr
  refine ⟨hr.1, ?_⟩
  intro hev hex
  have h2 := hr.2
  simp only [Bool.not_eq_true', List.contains_eq_mem, List.mem_map, decide_eq_false_iff_not,
    not_exists, not_and] at h2
  exact h2 (r / 2) hex (by omega)

theorem seal_recipients_nonblank' {t : Tree} {self : Nat} {newLeaf : Leaf} {excl : List Nat}
    {fresh : Nat} {o : EncapOut} (hu : UnmergedInv o.tree)
    (h : encap t self newLeaf excl fresh = .ok o) :
    ∀ nrs ∈ o.seals, ∀ r ∈ nrs.2, get o.tree r ≠ none := by
  rintro ⟨n, rs⟩ hm r hr
  obtain ⟨cp, _, _, hall⟩ := seal_recipients_in_resolution' h n rs hm
  exact resolution_nonblank' hu (hall r hr).1

end MlsVerif.Tree
