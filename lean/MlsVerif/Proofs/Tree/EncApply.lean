import MlsVerif.Proofs.Tree.EncSpec
/-
`applyUpdatePath` at get-level; lengths; fresh keys; sender/receiver agreement.
-/
namespace MlsVerif.Tree
open MlsVerif.TreeMath

namespace Enc

/-- the step function of the fold in `applyUpdatePath` -/
def applyStep (t : Tree) (kp : Option Nat × (Nat × Nat)) : Except Err Tree :=
  match kp.1 with
  | some k => updateNode t kp.2.1 k
  | none => .ok t

theorem fold_swap : ∀ (ks : List (Option Nat)) (path : List (Nat × Nat)) (t0 : Tree),
    (ks.zip path).foldlM applyStep t0 = ((path.map (·.1)).zip ks).foldlM upd t0
  | [], _, _ => by simp
  | _ :: _, [], _ => by simp
  | k :: ks, cp :: path, t0 => by
    simp only [List.zip_cons_cons, List.map_cons, List.foldlM_cons]
    have : applyStep t0 (k, cp) = upd t0 (cp.1, k) := by cases k <;> rfl
    rw [this]
    congr 1
    funext t1
    exact fold_swap ks path t1

theorem applyUpdatePath_eq (t : Tree) (sender : Nat) (newLeaf : Leaf) (pathKeys : List (Option Nat)) :
    applyUpdatePath t sender newLeaf pathKeys =
      match get t (2 * sender) with
      | some (.leaf _) =>
        (((directCopathOf t sender).map (·.1)).zip pathKeys).foldlM upd
          (set t (2 * sender) (some (.leaf newLeaf)))
      | _ => .error .invalidNodeIndex := by
  unfold applyUpdatePath
  have hd : directCopathOf (set t (2 * sender) (some (.leaf newLeaf))) sender = directCopathOf t sender := by
    unfold directCopathOf
    rw [leafCount_congr (length_set _ _ _)]
  cases hg : get t (2 * sender) with
  | none => rfl
  | some n =>
    cases n with
    | parent P => rfl
    | leaf L =>
      show List.foldlM applyStep _ (pathKeys.zip (directCopathOf (set t (2 * sender) (some (.leaf newLeaf))) sender)) = _
      rw [hd]
      exact fold_swap _ _ _


theorem unfiltered_lt {t : Tree} {self j : Nat} (hs : 2 * self < t.length)
    (hne : resolution t (pathEntry self j).2 ≠ []) : (pathEntry self j).1 < t.length := by
  by_cases hlt : (pathEntry self j).1 < t.length
  · exact hlt
  · exfalso
    apply hne
    rw [resolution_eq_nil]
    intro r hr
    apply get_of_le
    unfold pathEntry at hr hlt
    simp only at hr hlt
    rw [inSub_nd] at hr
    have e : self / 2 ^ (j + 1) = self / 2 ^ j / 2 := by
      rw [pow_succ', Nat.mul_comm, Nat.div_div_eq_div_mul]
    rw [e] at hlt
    have hdm := Nat.div_add_mod self (2 ^ j)
    revert hlt hr hdm
    unfold sib nd
    simp only [pow_succ']
    generalize self / 2 ^ j = q
    generalize self % 2 ^ j = rr
    generalize 2 ^ j = P
    intro hlt hr hdm
    obtain ⟨m, rfl | rfl⟩ : ∃ m, q = 2 * m ∨ q = 2 * m + 1 := ⟨q / 2, by omega⟩
    · have h1 : 2 * m / 2 = m := by omega
      have h2 : 2 * m % 2 = 0 := by omega
      rw [if_pos h2] at hr
      rw [h1] at hlt
      have e1 : 2 * P * (2 * m + 1) = 4 * (P * m) + 2 * P := by grind
      have e2 : 2 * (2 * P) * m = 4 * (P * m) := by grind
      omega
    · have h1 : (2 * m + 1) / 2 = m := by omega
      rw [h1] at hlt
      have e1 : P * (2 * m + 1) = 2 * (P * m) + P := by grind
      have e2 : 2 * (2 * P) * m = 4 * (P * m) := by grind
      omega

theorem fold_length {t ta tr : Tree} {sender : Nat} {keys : List (Option Nat)}
    (hlen : ta.length = t.length) (hs : 2 * sender < t.length)
    (h : (((directCopathOf t sender).map (·.1)).zip keys).foldlM upd ta = .ok tr)
    (hf : FilterOk t sender keys) : tr.length = t.length := by
  obtain ⟨_, f2, f3, _, _⟩ := fold_path hlen hs h
  have : tr.length ≤ t.length := by
    apply f3 _ (Nat.le_refl _)
    intro j cp k hcp hk
    have h1 : (keys.map Option.isNone)[j]? = some false := by
      rw [List.getElem?_map, hk]; rfl
    rw [hf, filtered_getElem?, hcp] at h1
    simp only [Option.map_some, Option.some.injEq, isResolutionEmpty, List.isEmpty_eq_false_iff] at h1
    obtain ⟨k', hk', _, _⟩ := leafCount_spec t
    have h2 := directCopathOf_getElem? t k' sender j hk'
    rw [hcp] at h2
    split at h2
    · simp only [Option.some.injEq] at h2
      subst h2
      exact unfiltered_lt hs h1
    · cases h2
  omega

end Enc

/-- (E) the sender's tree keeps its length -/
theorem encap_length {t : Tree} {self : Nat} {newLeaf : Leaf} {excl : List Nat} {fresh : Nat} {o : EncapOut}
    (_hs : PreShape t) (hself : 2 * self < t.length) (h : encap t self newLeaf excl fresh = .ok o) :
    o.tree.length = t.length := by
  obtain ⟨t1, e1, _, _, e4, _, _, e7⟩ := Enc.encap_facts h
  rw [e1, length_set]
  exact Enc.fold_length rfl hself e7 e4

/-- (E) a receiver's tree keeps its length when the announced keys sit on the unfiltered positions -/
theorem applyUpdatePath_length {t t' : Tree} {sender : Nat} {newLeaf : Leaf} {pathKeys : List (Option Nat)}
    (_hs : PreShape t) (hf : FilterOk t sender pathKeys)
    (h : applyUpdatePath t sender newLeaf pathKeys = .ok t') : t'.length = t.length := by
  rw [Enc.applyUpdatePath_eq] at h
  split at h
  · rename_i L hL
    exact Enc.fold_length (length_set _ _ _) (lt_of_get_some hL) h hf
  · cases h

theorem applyUpdatePath_spec {t t' : Tree} {sender : Nat} {newLeaf : Leaf} {pathKeys : List (Option Nat)}
    (h : applyUpdatePath t sender newLeaf pathKeys = .ok t') :
    PathUpdated t t' sender newLeaf pathKeys ∧ ∃ L, get t (2 * sender) = some (.leaf L) := by
  rw [Enc.applyUpdatePath_eq] at h
  split at h
  · rename_i L hL
    have hs : 2 * sender < t.length := lt_of_get_some hL
    refine ⟨?_, L, hL⟩
    have hoff := (Enc.fold_path (length_set _ _ _) hs h).2.2.2.2
    apply Enc.pathUpdated_of (length_set _ _ _) hs h
    · intro x hx; exact get_set_ne _ _ _ _ (Ne.symm hx)
    · rfl
    · rw [hoff]
      · exact get_set_self _ _ _ hs
      · intro cp hcp
        have := Enc.path_fst_odd hcp
        omega
    · intro _ _; rfl
  · cases h

namespace Enc

theorem set_append_left' (t r : Tree) (a : Nat) (v : Option Node) (ha : a < t.length) :
    set (t ++ r) a v = set t a v ++ r := by
  unfold set
  rw [if_pos ha, if_pos (by simp; omega), List.set_append_left _ _ ha]

theorem set_comm' (t : Tree) (a i : Nat) (v w : Option Node) (hne : a ≠ i) :
    set (set t a v) i w = set (set t i w) a v := by
  apply ext_get
  · simp
  · intro x _
    simp only [get_set, length_set]
    by_cases h1 : i = x <;> by_cases h2 : a = x <;> simp [h1, h2] <;> omega

theorem updateNode_set_comm {t t1 : Tree} {a i k : Nat} {v : Option Node} (hne : a ≠ i)
    (ha : a < t.length) (h : updateNode t i k = .ok t1) :
    updateNode (set t a v) i k = .ok (set t1 a v) := by
  unfold updateNode at h ⊢
  rw [length_set]
  split at h
  · cases h
  · rename_i hv
    rw [if_neg hv]
    simp only at h ⊢
    have hT : (if t.length ≤ i then set t a v ++ List.replicate (i + 1 - t.length) none else set t a v) =
        set (if t.length ≤ i then t ++ List.replicate (i + 1 - t.length) none else t) a v := by
      split
      · rw [set_append_left' _ _ _ _ ha]
      · rfl
    rw [hT]
    generalize (if t.length ≤ i then t ++ List.replicate (i + 1 - t.length) none else t) = T at h ⊢
    rw [get_set_ne _ _ _ _ hne]
    cases hg : get T i with
    | none =>
      rw [hg] at h
      simp only [Except.ok.injEq] at h ⊢
      rw [← h, set_comm' _ _ _ _ _ hne]
    | some n =>
      cases n with
      | leaf L => rw [hg] at h; cases h
      | parent P =>
        rw [hg] at h
        simp only [Except.ok.injEq] at h ⊢
        rw [← h, set_comm' _ _ _ _ _ hne]

theorem updFold_set_comm {a : Nat} {v : Option Node} (l : List (Nat × Option Nat)) :
    ∀ (t t1 : Tree), (∀ pk ∈ l, pk.1 ≠ a) → a < t.length → l.foldlM upd t = .ok t1 →
      l.foldlM upd (set t a v) = .ok (set t1 a v) := by
  induction l with
  | nil => intro t t1 _ _ h; cases h; rfl
  | cons x l ih =>
    intro t t1 hne ha h
    obtain ⟨t', h1, h2⟩ := foldlM_cons_ok _ _ _ _ _ h
    have hx : upd (set t a v) x = .ok (set t' a v) := by
      obtain ⟨p, ko⟩ := x
      cases ko with
      | none => simp only [upd] at h1 ⊢; cases h1; rfl
      | some k =>
        simp only [upd] at h1 ⊢
        exact updateNode_set_comm (Ne.symm (hne _ (List.mem_cons_self ..))) ha h1
    rw [List.foldlM_cons, hx]
    exact ih t' t1 (fun pk hpk => hne pk (List.mem_cons_of_mem _ hpk))
      (by have := (upd_spec h1).1; omega) h2

end Enc

theorem encap_applyUpdatePath_agree {t : Tree} {self : Nat} {newLeaf : Leaf} {excl : List Nat}
    {fresh : Nat} {o : EncapOut} (hL : ∃ L, get t (2 * self) = some (.leaf L))
    (h : encap t self newLeaf excl fresh = .ok o) :
    applyUpdatePath t self newLeaf o.pathKeys = .ok o.tree := by
  obtain ⟨L, hL⟩ := hL
  obtain ⟨t1, e1, _, _, _, _, _, e7⟩ := Enc.encap_facts h
  rw [Enc.applyUpdatePath_eq, hL, e1]
  simp only
  apply Enc.updFold_set_comm _ _ _ _ (lt_of_get_some hL) e7
  rintro ⟨p, ko⟩ hm
  have := (List.of_mem_zip hm).1
  rw [List.mem_map] at this
  obtain ⟨cp, hcp, rfl⟩ := this
  have := Enc.path_fst_odd hcp
  simp only
  omega

/-- (11) every non-blank node on the committer's direct path carries a fresh key afterwards -/
theorem fresh_path_keys {t : Tree} {self : Nat} {newLeaf : Leaf} {excl : List Nat} {fresh : Nat} {o : EncapOut}
    (hs : PreShape t) (hn : NonEmptyInv t) (hself : 2 * self < t.length)
    (h : encap t self newLeaf excl fresh = .ok o) :
    (∀ cp ∈ directCopathOf t self, ∀ n, get o.tree cp.1 = some n → fresh ≤ n.key) ∧
    get o.tree (2 * self) = some (.leaf newLeaf) := by
  obtain ⟨pu, fo, _, hk, _⟩ := encap_spec h hself
  refine ⟨?_, pu.leaf⟩
  intro cp hcp n hg
  obtain ⟨j, hj⟩ := List.getElem?_of_mem hcp
  have h1 := pu.onPath j cp hj
  have h2 : (o.pathKeys.map Option.isNone)[j]? = (filtered t self)[j]? := by rw [fo]
  rw [List.getElem?_map] at h2
  cases hkj : o.pathKeys[j]? with
  | none =>
    rw [hkj, filtered_getElem?, hj] at h2
    simp at h2
  | some ko =>
    cases ko with
    | none =>
      rw [hkj] at h1 h2
      simp only at h1
      have := filtered_blank hs hn hj (by rw [← h2]; rfl)
      rw [h1, this] at hg
      cases hg
    | some k =>
      rw [hkj] at h1
      simp only at h1
      rw [h1] at hg
      cases hg
      exact (hk j k hkj).1

theorem fresh_path_keys_notin {t : Tree} {self : Nat} {newLeaf : Leaf} {excl : List Nat} {fresh : Nat}
    {o : EncapOut} (hs : PreShape t) (hn : NonEmptyInv t) (hself : 2 * self < t.length)
    (h : encap t self newLeaf excl fresh = .ok o) (hb : StampsBelow t fresh) :
    ∀ cp ∈ directCopathOf t self, ∀ n, get o.tree cp.1 = some n → n.key ∉ keyStamps t := by
  intro cp hcp n hg hmem
  have := (fresh_path_keys hs hn hself h).1 cp hcp n hg
  have := hb _ hmem
  omega

end MlsVerif.Tree
