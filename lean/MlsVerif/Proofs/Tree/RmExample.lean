import MlsVerif.Proofs.Tree.RmInv
/-
Non-vacuity: a concrete 8-leaf tree with parents and unmerged lists on which the remove and update
phases succeed, with all invariants checked on input and output.
-/
namespace MlsVerif.Tree
namespace Rm
open MlsVerif.TreeMath

def lf (i : Nat) : Option Node := some (.leaf ⟨10 + i, 20 + i, 30 + i⟩)
def pr (k : Nat) (u : List Nat) : Option Node := some (.parent ⟨k, u⟩)

/-- 8 leaves (15 nodes); leaf 3 is unmerged at its whole direct path 5, 3, 7; leaf 4 unmerged at 11;
node 9 is blank -/
def ex : Tree :=
  [lf 0, pr 41 [], lf 1, pr 43 [3], lf 2, pr 45 [3], lf 3, pr 47 [3],
   lf 4, none, lf 5, pr 51 [4], lf 6, pr 53 [], lf 7]

/-- after removing leaf 1: nodes 2, 1, 3, 7 blank -/
def exR : Tree :=
  [lf 0, none, none, none, lf 2, pr 45 [3], lf 3, none,
   lf 4, none, lf 5, pr 51 [4], lf 6, pr 53 [], lf 7]

def newLeaf : Leaf := ⟨16, 96, 97⟩

/-- after then updating leaf 6: node 12 replaced, nodes 13, 11, 7 blank -/
def exU : Tree :=
  [lf 0, none, none, none, lf 2, pr 45 [3], lf 3, none,
   lf 4, none, lf 5, none, some (.leaf newLeaf), none, lf 7]

theorem ex_inv : PreShape ex ∧ UniqInv ex ∧ UnmergedInv ex ∧ NonEmptyInv ex := by decide +kernel

theorem ex_removes : (applyRemoves ex [1]).toOption = some exR := by decide +kernel

theorem exR_inv : PreShape exR ∧ UniqInv exR ∧ UnmergedInv exR ∧ NonEmptyInv exR := by
  decide +kernel

theorem ex_updates : (applyUpdates exR [(6, newLeaf)]).toOption = some exU := by decide +kernel

theorem exU_inv : PreShape exU ∧ UniqInv exU ∧ UnmergedInv exU ∧ NonEmptyInv exU := by
  decide +kernel

theorem ok_of_toOption {e : Except Err Tree} {a : Tree} (h : e.toOption = some a) : e = .ok a := by
  cases e with
  | error x => cases h
  | ok b => simp only [Except.toOption, Option.some.injEq] at h; rw [h]

theorem ex_removes' : applyRemoves ex [1] = .ok exR := ok_of_toOption ex_removes
theorem ex_updates' : applyUpdates exR [(6, newLeaf)] = .ok exU := ok_of_toOption ex_updates

/-- the freshness hypothesis of `applyUpdates_uniq` holds in the example -/
theorem ex_fresh0 : ∀ x < exR.length, ∀ P ∈ parentOf? (get exR x), P.key ≠ newLeaf.hpke := by
  decide +kernel

theorem ex_fresh : ∀ u ∈ [(6, newLeaf)], ∀ x P, get exR x = some (.parent P) → P.key ≠ u.2.hpke := by
  intro u hu x P hP
  simp only [List.mem_singleton] at hu
  subst hu
  exact ex_fresh0 x (lt_of_get_some hP) P (Option.mem_def.2 (parentOf?_eq_some.2 hP))

/-- the general theorems instantiate on the example (all hypotheses satisfiable) -/
example : UniqInv exU := applyUpdates_uniq exR_inv.2.1 exR_inv.1 ex_fresh ex_updates'
example : NonEmptyInv exR := applyRemoves_nonEmpty ex_inv.2.2.2 ex_removes'
example : UnmergedInv exU := applyUpdates_unmerged exR_inv.2.2.1 ex_updates'

/-- failing cases: removing a blank leaf, updating with a duplicate HPKE key -/
theorem ex_remove_fail : (applyRemoves exR [1]).toOption = none := by decide +kernel
theorem ex_update_fail : (applyUpdates exR [(6, ⟨16, 20, 97⟩)]).toOption = none := by
  decide +kernel

end Rm
end MlsVerif.Tree
