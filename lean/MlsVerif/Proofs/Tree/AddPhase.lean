import MlsVerif.Proofs.Tree.AddAdds
import MlsVerif.Proofs.Tree.AddTrim
/-
The ADD phase followed by the final `trim` of `batchEdit`: all invariants, including `NoTrail`.
-/
namespace MlsVerif.Tree
open MlsVerif.TreeMath
namespace Add

theorem trim_shape {t : Tree} (hs : PreShape t) (hn : NonEmptyInv t) : ShapeInv (trim t) :=
  ⟨trim_preShape hs hn, trim_no_trailing_blank t⟩

/-- `applyAdds … 0 []` then `trim` (the tail of `batchEdit`) re-establishes every tree invariant,
provided the new leaves' HPKE keys are not used as parent keys -/
theorem applyAdds_trim_invariants {t t' : Tree} {ls : List Leaf} {start : Nat} {acc added : List Nat}
    (hs : PreShape t) (hu : UniqInv t) (hm : UnmergedInv t) (hn : NonEmptyInv t)
    (hf : ∀ l ∈ ls, ∀ x P, get t x = some (.parent P) → P.key ≠ l.hpke)
    (h : applyAdds t ls start acc = .ok (added, t')) :
    ShapeInv (trim t') ∧ UniqInv (trim t') ∧ UnmergedInv (trim t') ∧ NonEmptyInv (trim t') :=
  ⟨trim_shape (applyAdds_preShape hs h) (applyAdds_nonEmpty hs hn h),
   trim_uniq (applyAdds_uniq hs hu hf h),
   trim_unmerged (applyAdds_unmerged hs hm h),
   trim_nonEmpty (applyAdds_nonEmpty hs hn h)⟩

end Add
end MlsVerif.Tree
