import MlsVerif.Proofs.Tree.JoinProv
/-
`KeyInv` is preserved by `provisionalPriv` across `batchEdit` (interface `EditSpec`).
-/
namespace MlsVerif.Tree
open MlsVerif.TreeMath

namespace Join

/-- the key stamp member `self` is entitled to at node `n` -/
def expNode (t : Tree) (self n : Nat) : Option Nat :=
  match get t n with
  | some (.leaf l) => some l.hpke
  | some (.parent p) => if p.unmerged.contains self then none else some p.key
  | none => none

theorem expNode_congr {t u : Tree} {self n : Nat} (h : get t n = get u n) :
    expNode t self n = expNode u self n := by
  unfold expNode; rw [h]

theorem expNode_blank {t : Tree} {self n : Nat} (h : get t n = none) : expNode t self n = none := by
  unfold expNode; rw [h]

theorem expNode_leaf {t : Tree} {self n : Nat} {L : Leaf} (h : get t n = some (.leaf L)) :
    expNode t self n = some L.hpke := by
  unfold expNode; rw [h]

theorem expNode_parent {t : Tree} {self n : Nat} {P : Parent} (h : get t n = some (.parent P)) :
    expNode t self n = if self ∈ P.unmerged then none else some P.key := by
  unfold expNode; rw [h]; simp

theorem expectedSlots_zero (t : Tree) (self : Nat) :
    slotAt (expectedSlots t self) 0 = expNode t self (2 * self) := by
  unfold expectedSlots slotAt expNode
  simp only [List.map_cons, List.getElem?_cons_zero, Option.join_some]
  rfl

theorem expectedSlots_succ (t : Tree) (self j : Nat) :
    slotAt (expectedSlots t self) (j + 1) =
      match (directCopathOf t self)[j]? with
      | some cp => expNode t self cp.1
      | none => none := by
  unfold expectedSlots slotAt expNode
  simp only [List.map_cons, List.getElem?_cons_succ, List.getElem?_map]
  cases (directCopathOf t self)[j]? with
  | none => simp
  | some cp =>
    simp only [Option.map_some, Option.join_some]
    rfl

theorem expectedSlots_length (t : Tree) (self : Nat) :
    (expectedSlots t self).length = (directCopathOf t self).length + 1 := by
  unfold expectedSlots; simp

/-- converse of `nd_lt` -/
theorem nd_lt_inv (k l q : Nat) (h : nd l q < 2 ^ (k + 1) - 1) : l ≤ k ∧ q < 2 ^ (k - l) := by
  have hl : l ≤ k := by
    have := level_le k _ h
    rwa [level_nd] at this
  refine ⟨hl, ?_⟩
  obtain ⟨d, rfl⟩ : ∃ d, k = l + d := ⟨k - l, by omega⟩
  rw [Nat.add_sub_cancel_left]
  unfold nd at h
  have e : 2 ^ (l + d + 1) = 2 ^ (l + 1) * 2 ^ d := by
    rw [show l + d + 1 = l + 1 + d by omega, Nat.pow_add]
  apply Classical.byContradiction; intro hc
  have h2 : 2 ^ (l + 1) * 2 ^ d ≤ 2 ^ (l + 1) * q := Nat.mul_le_mul_left _ (by omega)
  have := Nat.two_pow_pos l
  omega

/-- a direct-path node of leaf `i` inside the array puts `i` below the leaf count and the
position below the height -/
theorem pathEntry_in_tree (t : Tree) (k i j : Nat) (hk : leafCount t = 2 ^ k)
    (h : (pathEntry i j).1 < t.length) : i < 2 ^ k ∧ j < k := by
  have hlen := tree_length_le t k hk
  have := nd_lt_inv k (j + 1) (i / 2 ^ (j + 1)) (by unfold pathEntry at h; simp only at h; omega)
  refine ⟨?_, by omega⟩
  obtain ⟨h1, h2⟩ := this
  rw [Nat.div_lt_iff_lt_mul (Nat.two_pow_pos _), ← Nat.pow_add] at h2
  rwa [show k - (j + 1) + (j + 1) = k by omega] at h2

end Join

theorem provisional_keyinv {t0 t1 : Tree} {e : Edits} {added : List Nat} {p : Priv}
    (hes : EditSpec t0 t1 e added) (hk : KeyInv t0 p)
    (htouch : p.self ∉ e.touched) (hadd : p.self ∉ added) (hs1 : PreShape t1) :
    KeyInv t1 (provisionalPriv t1 p none) := by
  rw [keyInv_iff] at hk ⊢
  rw [provisionalPriv_self]
  obtain ⟨k0, hk0, _, _⟩ := leafCount_spec t0
  obtain ⟨k1, hk1, _, _⟩ := leafCount_spec t1
  intro j
  cases j with
  | zero =>
    rw [provisional_slot_zero, hk 0, Join.expectedSlots_zero, Join.expectedSlots_zero]
    exact Join.expNode_congr (hes.leaves_kept _ htouch hadd).symm
  | succ j =>
    rw [Join.expectedSlots_succ]
    cases hcp : (directCopathOf t1 p.self)[j]? with
    | none =>
      simp only
      apply provisional_beyond
      apply Classical.byContradiction; intro hc
      rw [List.getElem?_eq_none_iff] at hcp
      omega
    | some cp =>
      simp only
      have hcp' := hcp
      rw [directCopathOf_getElem? t1 k1 _ _ hk1] at hcp'
      split at hcp'
      · simp only [Option.some.injEq] at hcp'
        subst hcp'
        cases hg : get t1 (pathEntry p.self j).1 with
        | none =>
          rw [provisional_drops_blank t1 p j _ hcp hg, Join.expNode_blank hg]
        | some n =>
          have hne : get t1 (pathEntry p.self j).1 ≠ none := by rw [hg]; simp
          rw [provisional_keeps_nonblank t1 p j _ hcp hne]
          cases n with
          | leaf L =>
            exfalso
            have := (hs1.1 _ (lt_of_get_some hg)).2 (pathEntry_fst_odd _ _)
            rw [hg] at this; simp at this
          | parent P' =>
            obtain ⟨P, hP, hkey, hun⟩ := hes.parents _ _ hg
            have hin := Join.pathEntry_in_tree t0 k0 p.self j hk0 (lt_of_get_some hP)
            rw [hk (j + 1), Join.expectedSlots_succ, directCopathOf_getElem? t0 k0 _ _ hk0,
              if_pos hin]
            simp only
            rw [Join.expNode_parent hP, Join.expNode_parent hg, hkey]
            have : p.self ∈ P'.unmerged ↔ p.self ∈ P.unmerged := by
              rw [hun]; constructor
              · rintro (h | h)
                · exact h
                · exact absurd h.1 hadd
              · exact Or.inl
            simp only [this]
      · simp at hcp'

theorem provisional_keyinv_own {t0 t1 : Tree} {e : Edits} {added : List Nat} {p : Priv} {l : Leaf}
    (hes : EditSpec t0 t1 e added) (hu : (p.self, l) ∈ e.updates) :
    KeyInv t1 (provisionalPriv t1 p (some l.hpke)) := by
  rw [keyInv_iff, provisionalPriv_self, no_stale_leaf_key]
  obtain ⟨k1, hk1, _, _⟩ := leafCount_spec t1
  intro j
  cases j with
  | zero =>
    rw [Join.expectedSlots_zero, Join.expNode_leaf (hes.updated_leaf _ hu)]
    rfl
  | succ j =>
    have hl : slotAt (some l.hpke :: List.replicate (directCopathOf t1 p.self).length none) (j + 1)
        = none := by
      unfold slotAt
      rw [List.getElem?_cons_succ, List.getElem?_replicate]
      split <;> rfl
    rw [hl, Join.expectedSlots_succ]
    cases hcp : (directCopathOf t1 p.self)[j]? with
    | none => rfl
    | some cp =>
      simp only
      rw [directCopathOf_getElem? t1 k1 _ _ hk1] at hcp
      split at hcp
      · simp only [Option.some.injEq] at hcp
        subst hcp
        have ht : p.self ∈ e.touched := by
          unfold Edits.touched
          exact List.mem_append_right _ (List.mem_map.mpr ⟨_, hu, rfl⟩)
        exact (Join.expNode_blank
          (hes.touched_path_blank _ ht _ (pathEntry_fst_odd _ _) (below_self_pathEntry _ _))).symm
      · simp at hcp

end MlsVerif.Tree
