import MlsVerif.Proofs.Tree.PathFacts
/-
`updateNode` at get-level, and the generic "update a list of nodes" fold underlying `encap` and
`applyUpdatePath`.
-/
namespace MlsVerif.Tree
open MlsVerif.TreeMath

namespace Enc

theorem updateNode_spec' {t t' : Tree} {i key : Nat} (h : updateNode t i key = .ok t') :
    t'.length = max t.length (i + 1) ∧ i < nextPow2 t.length ∧
    get t' i = some (.parent { key := key, unmerged := [] }) ∧
    (∀ x, x ≠ i → get t' x = get t x) ∧ leafOf? (get t i) = none := by
  unfold updateNode at h
  split at h
  · cases h
  · rename_i hv
    have hv' : i < nextPow2 t.length := by simpa [validIndex] using hv
    simp only at h
    generalize ht1 : (if t.length ≤ i then t ++ List.replicate (i + 1 - t.length) none else t) = t1 at h
    have hlen : t1.length = max t.length (i + 1) := by
      subst ht1; split
      · simp; omega
      · omega
    have hget : ∀ x, get t1 x = get t x := by
      intro x; subst ht1; split
      · exact get_append_replicate _ _ _
      · rfl
    have hlt : i < t1.length := by omega
    split at h
    · cases h
    · rename_i hnl
      cases h
      refine ⟨by simp [hlen], hv', get_set_self _ _ _ hlt, ?_, ?_⟩
      · intro x hx
        rw [get_set_ne _ _ _ _ (Ne.symm hx), hget]
      · rw [← hget]
        cases hg : get t1 i with
        | none => rfl
        | some n => cases n with
          | leaf L => exact absurd hg (hnl L)
          | parent P => rfl

/-- one step of the generic fold: announce key `k` at node `pk.1`, or leave the tree alone -/
def upd (t : Tree) (pk : Nat × Option Nat) : Except Err Tree :=
  match pk.2 with
  | some k => updateNode t pk.1 k
  | none => .ok t

def newNode : Option Nat → Option Node → Option Node
  | some k, _ => some (.parent { key := k, unmerged := [] })
  | none, n => n

theorem upd_spec {t t' : Tree} {a : Nat × Option Nat} (h : upd t a = .ok t') :
    t.length ≤ t'.length ∧ (∀ B, t.length ≤ B → (a.2.isSome → a.1 < B) → t'.length ≤ B) ∧
    get t' a.1 = newNode a.2 (get t a.1) ∧ (∀ x, x ≠ a.1 → get t' x = get t x) := by
  obtain ⟨p, ko⟩ := a
  cases ko with
  | none =>
    simp only [upd] at h
    cases h
    exact ⟨Nat.le_refl _, fun B hB _ => hB, rfl, fun _ _ => rfl⟩
  | some k =>
    simp only [upd] at h
    obtain ⟨h1, _, h3, h4, _⟩ := updateNode_spec' h
    refine ⟨by omega, ?_, h3, h4⟩
    intro B hB hp
    have := hp rfl
    simp only at this
    omega

theorem foldlM_cons_ok {α β : Type} (f : β → α → Except Err β) (a : α) (l : List α) (b r : β)
    (h : (a :: l).foldlM f b = .ok r) : ∃ b1, f b a = .ok b1 ∧ l.foldlM f b1 = .ok r := by
  rw [List.foldlM_cons] at h
  cases hf : f b a with
  | error e => rw [hf] at h; cases h
  | ok b1 => rw [hf] at h; exact ⟨b1, rfl, h⟩

theorem updFold_spec (l : List (Nat × Option Nat)) : ∀ (t t' : Tree), l.foldlM upd t = .ok t' →
    (l.map (·.1)).Nodup →
    t.length ≤ t'.length ∧
    (∀ B, t.length ≤ B → (∀ a ∈ l, a.2.isSome → a.1 < B) → t'.length ≤ B) ∧
    (∀ a ∈ l, get t' a.1 = newNode a.2 (get t a.1)) ∧
    (∀ x, (∀ a ∈ l, a.1 ≠ x) → get t' x = get t x) := by
  induction l with
  | nil =>
    intro t t' h _
    cases h
    exact ⟨Nat.le_refl _, fun B hB _ => hB, by simp, fun _ _ => rfl⟩
  | cons a l ih =>
    intro t t' h hnd
    obtain ⟨t1, h1, h2⟩ := foldlM_cons_ok _ _ _ _ _ h
    rw [List.map_cons, List.nodup_cons] at hnd
    obtain ⟨s1, s2, s3, s4⟩ := upd_spec h1
    obtain ⟨i1, i2, i3, i4⟩ := ih t1 t' h2 hnd.2
    refine ⟨by omega, ?_, ?_, ?_⟩
    · intro B hB hall
      apply i2 B (s2 B hB (hall a (List.mem_cons_self ..)))
      intro b hb; exact hall b (List.mem_cons_of_mem _ hb)
    · intro b hb
      rcases List.mem_cons.mp hb with rfl | hb
      · rw [i4 _ (fun c hc heq => hnd.1 (by rw [← heq]; exact List.mem_map_of_mem hc)), s3]
      · rw [i3 b hb, s4]
        intro heq
        exact hnd.1 (by rw [← heq]; exact List.mem_map_of_mem hb)
    · intro x hx
      rw [i4 x (fun b hb => hx b (List.mem_cons_of_mem _ hb)), s4]
      exact (hx a (List.mem_cons_self ..)).symm

end Enc

theorem updateNode_spec {t t' : Tree} {i key : Nat} (h : updateNode t i key = .ok t') :
    t'.length = max t.length (i + 1) ∧ i < nextPow2 t.length ∧
    get t' i = some (.parent { key := key, unmerged := [] }) ∧ ∀ x, x ≠ i → get t' x = get t x :=
  let ⟨a, b, c, d, _⟩ := Enc.updateNode_spec' h
  ⟨a, b, c, d⟩

end MlsVerif.Tree
