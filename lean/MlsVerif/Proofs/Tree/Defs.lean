import MlsVerif.Proofs.Tree.Path
/-
Well-formedness invariants of the tree model (decidable predicates) and the basic `get`/`set`
calculus.
-/
namespace MlsVerif.Tree
open MlsVerif.TreeMath

def leafOf? : Option Node → Option Leaf
  | some (.leaf l) => some l
  | _ => none

def parentOf? : Option Node → Option Parent
  | some (.parent p) => some p
  | _ => none

@[simp] theorem leafOf?_none : leafOf? none = none := rfl
@[simp] theorem parentOf?_none : parentOf? none = none := rfl
@[simp] theorem leafOf?_leaf (l : Leaf) : leafOf? (some (.leaf l)) = some l := rfl
@[simp] theorem parentOf?_leaf (l : Leaf) : parentOf? (some (.leaf l)) = none := rfl
@[simp] theorem leafOf?_parent (p : Parent) : leafOf? (some (.parent p)) = none := rfl
@[simp] theorem parentOf?_parent (p : Parent) : parentOf? (some (.parent p)) = some p := rfl

theorem parentOf?_eq_some {n : Option Node} {P : Parent} :
    parentOf? n = some P ↔ n = some (.parent P) := by
  cases n with
  | none => simp
  | some n => cases n <;> simp

theorem leafOf?_eq_some {n : Option Node} {L : Leaf} :
    leafOf? n = some L ↔ n = some (.leaf L) := by
  cases n with
  | none => simp
  | some n => cases n <;> simp

/-! ### invariants -/

/-- no trailing blank -/
def NoTrail (t : Tree) : Prop := t.getLast? ≠ some none

/-- leaves only at even indices, parents only at odd indices, length 0 or odd -/
def PreShape (t : Tree) : Prop :=
  (∀ i < t.length, (i % 2 = 0 → parentOf? (get t i) = none) ∧
                   (i % 2 = 1 → leafOf? (get t i) = none)) ∧
  (t.length = 0 ∨ t.length % 2 = 1)

def ShapeInv (t : Tree) : Prop := PreShape t ∧ NoTrail t

/-- key stamps are unique in the tree (parent keys and leaf HPKE keys), and identities / signature
keys are pairwise distinct over the leaves -/
def UniqInv (t : Tree) : Prop :=
  (∀ i < t.length, ∀ j < t.length, i ≠ j →
      (get t i).map Node.key = (get t j).map Node.key → get t i = none) ∧
  (∀ i < t.length, ∀ j < t.length, i ≠ j →
      ((leafOf? (get t i)).map (·.ident) = (leafOf? (get t j)).map (·.ident) →
        leafOf? (get t i) = none) ∧
      ((leafOf? (get t i)).map (·.sig) = (leafOf? (get t j)).map (·.sig) →
        leafOf? (get t i) = none))

/-- every unmerged list is strictly sorted, lists only non-blank leaves below the node, and a leaf
unmerged at `p` is unmerged at every non-blank parent between it and `p` -/
def UnmergedInv (t : Tree) : Prop :=
  ∀ p < t.length, ∀ P ∈ parentOf? (get t p),
    P.unmerged.Pairwise (· < ·) ∧
    (∀ l ∈ P.unmerged, below l p ∧ get t (2 * l) ≠ none) ∧
    (∀ p' < t.length, ∀ P' ∈ parentOf? (get t p'), level p' < level p →
      ∀ l ∈ P.unmerged, below l p' → l ∈ P'.unmerged)

/-- a non-blank parent has a non-empty resolution on both sides -/
def NonEmptyInv (t : Tree) : Prop :=
  ∀ p < t.length, ∀ _P ∈ parentOf? (get t p), ∀ l ∈ left? p, ∀ r ∈ right? p,
    resolution t l ≠ [] ∧ resolution t r ≠ []

/-- slot `j` of a key list, `none` beyond the end -/
def slotAt (ks : List (Option Nat)) (j : Nat) : Option Nat := (ks[j]?).join

/-- the member holds exactly the keys `expectedSlots` entitles it to (trailing `none`s ignored) -/
def KeyInv (t : Tree) (p : Priv) : Prop :=
  ∀ j < max p.keys.length (expectedSlots t p.self).length,
    slotAt p.keys j = slotAt (expectedSlots t p.self) j

instance (t : Tree) : Decidable (NoTrail t) := by unfold NoTrail; infer_instance
instance (t : Tree) : Decidable (PreShape t) := by unfold PreShape; infer_instance
instance (t : Tree) : Decidable (ShapeInv t) := by unfold ShapeInv; infer_instance
set_option synthInstance.maxSize 4096 in
instance (t : Tree) : Decidable (UniqInv t) := by unfold UniqInv; infer_instance
set_option synthInstance.maxSize 4096 in
instance (t : Tree) : Decidable (UnmergedInv t) := by unfold UnmergedInv; infer_instance
instance (t : Tree) : Decidable (NonEmptyInv t) := by unfold NonEmptyInv; infer_instance
instance (t : Tree) (p : Priv) : Decidable (KeyInv t p) := by unfold KeyInv; infer_instance

/-- all key stamps (leaf HPKE keys and parent keys) occurring in the tree -/
def keyStamps (t : Tree) : List Nat := t.filterMap fun n => n.map Node.key

/-- all stamps of any kind occurring in the tree are below `b` -/
def StampsBelow (t : Tree) (b : Nat) : Prop := ∀ k ∈ keyStamps t, k < b

instance (t : Tree) (b : Nat) : Decidable (StampsBelow t b) := by unfold StampsBelow; infer_instance

/-! ### `get` / `set` -/

theorem get_of_lt {t : Tree} {i : Nat} (h : i < t.length) : get t i = t[i] := by
  simp [get, h]

theorem get_of_le {t : Tree} {i : Nat} (h : t.length ≤ i) : get t i = none := by
  simp [get, h]

theorem lt_of_get_ne {t : Tree} {i : Nat} (h : get t i ≠ none) : i < t.length := by
  apply Classical.byContradiction; intro hc
  exact h (get_of_le (by omega))

theorem lt_of_get_some {t : Tree} {i : Nat} {n : Node} (h : get t i = some n) : i < t.length :=
  lt_of_get_ne (by rw [h]; simp)

@[simp] theorem length_set (t : Tree) (i : Nat) (n : Option Node) : (set t i n).length = t.length := by
  unfold set; split <;> simp

theorem get_set (t : Tree) (i j : Nat) (n : Option Node) :
    get (set t i n) j = if i = j ∧ i < t.length then n else get t j := by
  unfold set
  by_cases h : i < t.length
  · simp only [h, if_true, and_true]
    unfold get
    rw [List.getElem?_set]
    split
    · simp [*]
    · rfl
  · simp [h]

theorem get_set_self (t : Tree) (i : Nat) (n : Option Node) (h : i < t.length) :
    get (set t i n) i = n := by rw [get_set]; simp [h]

theorem get_set_ne (t : Tree) (i j : Nat) (n : Option Node) (h : i ≠ j) :
    get (set t i n) j = get t j := by rw [get_set]; simp [h]

theorem get_append_left (t u : Tree) (i : Nat) (h : i < t.length) : get (t ++ u) i = get t i := by
  unfold get; rw [List.getElem?_append_left h]

theorem get_append_replicate (t : Tree) (n i : Nat) :
    get (t ++ List.replicate n none) i = get t i := by
  unfold get
  by_cases h : i < t.length
  · rw [List.getElem?_append_left h]
  · rw [List.getElem?_append_right (by omega), List.getElem?_eq_none (l := t) (by omega)]
    rw [List.getElem?_replicate]
    split <;> rfl

theorem ext_get {t u : Tree} (hl : t.length = u.length) (h : ∀ i < t.length, get t i = get u i) :
    t = u := by
  apply List.ext_getElem? 
  intro i
  by_cases hi : i < t.length
  · have := h i hi
    rw [get_of_lt hi, get_of_lt (by omega)] at this
    rw [List.getElem?_eq_getElem hi, List.getElem?_eq_getElem (by omega), this]
  · rw [List.getElem?_eq_none (by omega), List.getElem?_eq_none (by omega)]

theorem noTrail_iff (t : Tree) : NoTrail t ↔ (t.length = 0 ∨ get t (t.length - 1) ≠ none) := by
  unfold NoTrail
  rw [List.getLast?_eq_getElem?]
  by_cases h : t.length = 0
  · simp [List.length_eq_zero_iff.mp h]
  · rw [get_of_lt (by omega), List.getElem?_eq_getElem (by omega)]
    simp [h]

theorem slotAt_of_le {ks : List (Option Nat)} {j : Nat} (h : ks.length ≤ j) : slotAt ks j = none := by
  simp [slotAt, h]

theorem keyInv_iff (t : Tree) (p : Priv) :
    KeyInv t p ↔ ∀ j, slotAt p.keys j = slotAt (expectedSlots t p.self) j := by
  constructor
  · intro h j
    by_cases hj : j < max p.keys.length (expectedSlots t p.self).length
    · exact h j hj
    · rw [slotAt_of_le (by omega), slotAt_of_le (by omega)]
  · intro h j _; exact h j

theorem mem_keyStamps {t : Tree} {k : Nat} :
    k ∈ keyStamps t ↔ ∃ i n, get t i = some n ∧ n.key = k := by
  unfold keyStamps
  rw [List.mem_filterMap]
  constructor
  · rintro ⟨a, ha, hk⟩
    obtain ⟨i, hi, rfl⟩ := List.getElem_of_mem ha
    cases hn : t[i] with
    | none => rw [hn] at hk; simp at hk
    | some n =>
      rw [hn] at hk
      refine ⟨i, n, ?_, by simpa using hk⟩
      rw [get_of_lt hi, hn]
  · rintro ⟨i, n, hg, hk⟩
    have hi := lt_of_get_some hg
    rw [get_of_lt hi] at hg
    exact ⟨t[i], List.getElem_mem hi, by rw [hg]; simp [hk]⟩

end MlsVerif.Tree
