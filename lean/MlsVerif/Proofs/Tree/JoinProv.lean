import MlsVerif.Proofs.Tree.PathFacts
/-
Private-state functions: `resize`, `provisionalPriv` (slot-level lemmas, no invariants needed).
-/
namespace MlsVerif.Tree
open MlsVerif.TreeMath

namespace Join

theorem slotAt_resize (l : List (Option Nat)) (n j : Nat) :
    slotAt (resize l n) j = if j < n then slotAt l j else none := by
  unfold resize slotAt
  split
  · rw [List.getElem?_take]
    split <;> simp [*]
  · rw [List.getElem?_append]
    split
    · have : j < n := by omega
      simp [this]
    · rw [List.getElem?_replicate]
      rw [List.getElem?_eq_none (l := l) (by omega)]
      split <;> split <;> simp

theorem length_resize (l : List (Option Nat)) (n : Nat) : (resize l n).length = n := by
  unfold resize
  split
  · simp; omega
  · simp; omega

/-- slot `j` of the provisional private state (no own update) -/
theorem slotAt_provisional (t : Tree) (p : Priv) (j : Nat) :
    slotAt (provisionalPriv t p none).keys j =
      if j = 0 then slotAt p.keys 0
      else if j < (directCopathOf t p.self).length + 1 then
        (if isBlank t (((directCopathOf t p.self).getD (j - 1) (0, 0)).1) then none else slotAt p.keys j)
      else none := by
  have hr := slotAt_resize p.keys ((directCopathOf t p.self).length + 1) j
  unfold provisionalPriv
  simp only
  unfold slotAt at hr ⊢
  rw [List.getElem?_map, List.getElem?_zipIdx]
  cases hx : (resize p.keys ((directCopathOf t p.self).length + 1))[j]? with
  | none =>
    rw [hx] at hr
    simp only [Option.map_none, Option.join_none]
    simp only [Option.join_none] at hr
    by_cases h0 : j = 0
    · subst h0; simpa using hr
    · rw [if_neg h0]
      by_cases h2 : j < (directCopathOf t p.self).length + 1
      · rw [if_pos h2] at hr ⊢; rw [← hr]; split <;> rfl
      · rw [if_neg h2]
  | some v =>
    rw [hx] at hr
    simp only [Option.map_some, Option.join_some, Nat.zero_add]
    simp only [Option.join_some] at hr
    by_cases h0 : j = 0
    · subst h0; simpa using hr
    · rw [if_neg h0, if_neg h0]
      by_cases h2 : j < (directCopathOf t p.self).length + 1
      · rw [if_pos h2] at hr ⊢; rw [← hr]
      · rw [if_neg h2] at hr ⊢; rw [hr]; split <;> rfl

theorem getD_of_getElem? {α : Type} {l : List α} {j : Nat} {a d : α} (h : l[j]? = some a) :
    l.getD j d = a := by
  rw [List.getD_eq_getElem?_getD, h]; rfl

theorem lt_length_of_getElem? {α : Type} {l : List α} {j : Nat} {a : α} (h : l[j]? = some a) :
    j < l.length := by
  apply Classical.byContradiction; intro hc
  rw [List.getElem?_eq_none (by omega)] at h; cases h

end Join

/-! ### (13) `provisionalPriv` -/

theorem provisionalPriv_self (t : Tree) (p : Priv) (ou : Option Nat) :
    (provisionalPriv t p ou).self = p.self := by
  unfold provisionalPriv; cases ou <;> rfl

theorem provisional_slot_zero (t : Tree) (p : Priv) :
    slotAt (provisionalPriv t p none).keys 0 = slotAt p.keys 0 := by
  rw [Join.slotAt_provisional]; simp

theorem provisional_drops_blank (t : Tree) (p : Priv) :
    ∀ j cp, (directCopathOf t p.self)[j]? = some cp → get t cp.1 = none →
      slotAt (provisionalPriv t p none).keys (j + 1) = none := by
  intro j cp hcp hb
  rw [Join.slotAt_provisional]
  have hl := Join.lt_length_of_getElem? hcp
  rw [if_neg (by omega), if_pos (by omega)]
  rw [show j + 1 - 1 = j by omega, Join.getD_of_getElem? hcp]
  simp [isBlank, hb]

theorem provisional_keeps_nonblank (t : Tree) (p : Priv) :
    ∀ j cp, (directCopathOf t p.self)[j]? = some cp → get t cp.1 ≠ none →
      slotAt (provisionalPriv t p none).keys (j + 1) = slotAt p.keys (j + 1) := by
  intro j cp hcp hb
  rw [Join.slotAt_provisional]
  have hl := Join.lt_length_of_getElem? hcp
  rw [if_neg (by omega), if_pos (by omega)]
  rw [show j + 1 - 1 = j by omega, Join.getD_of_getElem? hcp]
  cases hg : get t cp.1 with
  | none => exact absurd hg hb
  | some n => simp [isBlank, hg]

theorem provisional_beyond (t : Tree) (p : Priv) (j : Nat)
    (h : (directCopathOf t p.self).length < j) :
    slotAt (provisionalPriv t p none).keys j = none := by
  rw [Join.slotAt_provisional]
  rw [if_neg (by omega), if_neg (by omega)]

theorem provisional_length (t : Tree) (p : Priv) :
    (provisionalPriv t p none).keys.length = (directCopathOf t p.self).length + 1 := by
  unfold provisionalPriv
  simp [Join.length_resize]

theorem no_stale_leaf_key (t : Tree) (p : Priv) (k : Nat) :
    (provisionalPriv t p (some k)).keys =
      some k :: List.replicate (directCopathOf t p.self).length none := by
  unfold provisionalPriv
  simp [Join.length_resize]

end MlsVerif.Tree
