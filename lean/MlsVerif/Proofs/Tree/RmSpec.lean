import MlsVerif.Proofs.Tree.PathFacts
/-
Get-level specifications of the REMOVE and UPDATE phases of `batchEdit`:
`blankLeaf`, `blankDirectPath`, `applyRemoves`, `insertLeaf` (existing position), `conflicts`,
`applyUpdates`.
-/
namespace MlsVerif.Tree
open MlsVerif.TreeMath

namespace Rm

theorem blankLeaf_ok {t t' : Tree} {r : Nat} {L : Leaf} (h : blankLeaf t r = .ok (L, t')) :
    get t (2 * r) = some (.leaf L) ∧ t' = set t (2 * r) none := by
  unfold blankLeaf at h
  split at h
  · cases h
  · split at h
    · rename_i l hg
      simp only [Except.ok.injEq, Prod.mk.injEq] at h
      obtain ⟨rfl, rfl⟩ := h
      exact ⟨hg, rfl⟩
    · cases h

theorem length_foldl_blank (l : List (Nat × Nat)) (t : Tree) :
    (l.foldl (fun t cp => set t cp.1 none) t).length = t.length := by
  induction l generalizing t with
  | nil => rfl
  | cons a l ih => rw [List.foldl_cons, ih, length_set]

theorem get_foldl_blank (l : List (Nat × Nat)) (t : Tree) (x : Nat) :
    get (l.foldl (fun t cp => set t cp.1 none) t) x =
      if (∃ cp ∈ l, cp.1 = x) then none else get t x := by
  induction l generalizing t with
  | nil => simp
  | cons a l ih =>
    rw [List.foldl_cons, ih]
    by_cases h1 : ∃ cp ∈ l, cp.1 = x
    · have : ∃ cp ∈ a :: l, cp.1 = x := by
        obtain ⟨cp, h, e⟩ := h1; exact ⟨cp, List.mem_cons_of_mem _ h, e⟩
      rw [if_pos h1, if_pos this]
    · rw [if_neg h1, get_set]
      by_cases h2 : a.1 = x
      · have : ∃ cp ∈ a :: l, cp.1 = x := ⟨a, List.mem_cons_self, h2⟩
        rw [if_pos this]
        split
        · rfl
        · exact get_of_le (by omega)
      · have : ¬ ∃ cp ∈ a :: l, cp.1 = x := by
          rintro ⟨cp, hm, e⟩
          rcases List.mem_cons.1 hm with rfl | hm
          · exact h2 e
          · exact h1 ⟨cp, hm, e⟩
        rw [if_neg this, if_neg (fun h => h2 h.1)]

theorem length_blankDirectPath (t : Tree) (r : Nat) : (blankDirectPath t r).length = t.length :=
  length_foldl_blank _ _

/-- `blankDirectPath` of a leaf inside the array blanks exactly the odd nodes above the leaf -/
theorem get_blankDirectPath {t : Tree} {r : Nat} (hr : 2 * r < t.length) (x : Nat) :
    get (blankDirectPath t r) x = if x % 2 = 1 ∧ below r x then none else get t x := by
  unfold blankDirectPath
  rw [get_foldl_blank]
  obtain ⟨k, hk, _, _⟩ := leafCount_spec t
  have hrk := leaf_lt_leafCount t k r hk hr
  by_cases hc : x % 2 = 1 ∧ below r x
  · rw [if_pos hc]
    by_cases hx : x < t.length
    · rw [if_pos]
      have hlen := tree_length_le t k hk
      have hl : level x ≤ k := level_le k x (by omega)
      have hl0 : level x ≠ 0 := by rw [Ne, level_eq_zero_iff]; omega
      obtain ⟨j, hj⟩ : ∃ j, level x = j + 1 := ⟨level x - 1, by omega⟩
      refine ⟨pathEntry r j, ?_, ?_⟩
      · apply List.mem_of_getElem? (i := j)
        rw [directCopathOf_getElem? t k r j hk, if_pos ⟨hrk, by omega⟩]
      · have hb := (below_iff r x).1 hc.2
        have e := eq_nd x
        rw [hj] at e hb
        show nd (j + 1) (r / 2 ^ (j + 1)) = x
        rw [hb]; exact e.symm
    · split
      · rfl
      · exact get_of_le (by omega)
  · rw [if_neg hc, if_neg]
    rintro ⟨cp, hm, rfl⟩
    obtain ⟨_, j, hj, rfl⟩ := mem_directCopathOf hk hm
    exact hc ⟨pathEntry_fst_odd r j, below_self_pathEntry r j⟩

/-- one step of `applyRemoves` -/
theorem get_remove_step {t : Tree} {r : Nat} (hr : 2 * r < t.length) (x : Nat) :
    get (blankDirectPath (set t (2 * r) none) r) x =
      if x = 2 * r ∨ (x % 2 = 1 ∧ below r x) then none else get t x := by
  rw [get_blankDirectPath (by rw [length_set]; exact hr), get_set]
  by_cases h1 : x % 2 = 1 ∧ below r x
  · rw [if_pos h1, if_pos (Or.inr h1)]
  · rw [if_neg h1]
    by_cases h2 : x = 2 * r
    · rw [if_pos ⟨h2.symm, hr⟩, if_pos (Or.inl h2)]
    · rw [if_neg (fun h => h2 h.1.symm), if_neg (by rintro (h | h); exact h2 h; exact h1 h)]

end Rm

theorem applyRemoves_spec {t t' : Tree} {rs : List Nat} (h : applyRemoves t rs = .ok t') :
    t'.length = t.length ∧ rs.Nodup ∧ (∀ r ∈ rs, ∃ L, get t (2 * r) = some (.leaf L)) ∧
    ∀ x, get t' x =
      if (∃ r ∈ rs, x = 2 * r ∨ (x % 2 = 1 ∧ below r x)) then none else get t x := by
  induction rs generalizing t with
  | nil =>
    simp only [applyRemoves, Except.ok.injEq] at h
    subst h
    simp
  | cons r rs ih =>
    rw [applyRemoves] at h
    split at h
    · rename_i L t1 hb
      obtain ⟨hg, rfl⟩ := Rm.blankLeaf_ok hb
      have hr : 2 * r < t.length := lt_of_get_some hg
      obtain ⟨h1, h2, h3, h4⟩ := ih h
      have hstep := fun x => Rm.get_remove_step hr x
      rw [Rm.length_blankDirectPath, length_set] at h1
      refine ⟨h1, ?_, ?_, ?_⟩
      · rw [List.nodup_cons]
        refine ⟨?_, h2⟩
        intro hm
        obtain ⟨L', hL'⟩ := h3 r hm
        rw [hstep, if_pos (Or.inl rfl)] at hL'
        cases hL'
      · intro r' hr'
        rcases List.mem_cons.1 hr' with rfl | hr'
        · exact ⟨L, hg⟩
        · obtain ⟨L', hL'⟩ := h3 r' hr'
          rw [hstep] at hL'
          split at hL'
          · cases hL'
          · exact ⟨L', hL'⟩
      · intro x
        rw [h4 x, hstep x]
        by_cases c1 : ∃ r ∈ rs, x = 2 * r ∨ (x % 2 = 1 ∧ below r x)
        · have : ∃ r' ∈ r :: rs, x = 2 * r' ∨ (x % 2 = 1 ∧ below r' x) := by
            obtain ⟨r', hm, hc⟩ := c1; exact ⟨r', List.mem_cons_of_mem _ hm, hc⟩
          rw [if_pos c1, if_pos this]
        · rw [if_neg c1]
          by_cases c2 : x = 2 * r ∨ (x % 2 = 1 ∧ below r x)
          · rw [if_pos c2, if_pos ⟨r, List.mem_cons_self, c2⟩]
          · rw [if_neg c2, if_neg]
            rintro ⟨r', hm, hc⟩
            rcases List.mem_cons.1 hm with rfl | hm
            · exact c2 hc
            · exact c1 ⟨r', hm, hc⟩
    · cases h

end MlsVerif.Tree

namespace MlsVerif.Tree
open MlsVerif.TreeMath

namespace Rm

/-- first fold of `applyUpdates`: take the old leaves out -/
def takeOut (t : Tree) : List (Nat × Leaf) → Except Err Tree
  | [] => .ok t
  | u :: us =>
    match blankLeaf t u.1 with
    | .ok (_, t') => takeOut t' us
    | .error _ => .error .updatingNonExistingMember

/-- second fold of `applyUpdates`: put the new leaves in -/
def putIn (t : Tree) : List (Nat × Leaf) → Except Err Tree
  | [] => .ok t
  | u :: us =>
    if conflicts t u.2 then .error .duplicateLeafData else putIn (insertLeaf t u.1 u.2) us

theorem takeOut_eq (t : Tree) (us : List (Nat × Leaf)) :
    us.foldlM (init := t) (fun t u =>
      match blankLeaf t u.1 with
      | .ok (_, t') => (.ok t' : Except Err Tree)
      | .error _ => .error .updatingNonExistingMember) = takeOut t us := by
  induction us generalizing t with
  | nil => rfl
  | cons u us ih =>
    rw [List.foldlM_cons, takeOut]
    cases hb : blankLeaf t u.1 with
    | error e => rfl
    | ok p =>
      obtain ⟨L, t1⟩ := p
      simp only [bind, Except.bind]
      exact ih t1

theorem putIn_eq (t : Tree) (us : List (Nat × Leaf)) :
    us.foldlM (init := t) (fun t u =>
      if conflicts t u.2 then (.error .duplicateLeafData : Except Err Tree)
      else .ok (insertLeaf t u.1 u.2)) = putIn t us := by
  induction us generalizing t with
  | nil => rfl
  | cons u us ih =>
    rw [List.foldlM_cons, putIn]
    by_cases hc : conflicts t u.2 = true
    · simp only [hc, if_true]; rfl
    · simp only [hc, if_false, Bool.false_eq_true]
      simp only [bind, Except.bind]
      exact ih _

theorem applyUpdates_eq (t : Tree) (us : List (Nat × Leaf)) :
    applyUpdates t us = (takeOut t us >>= fun t1 => putIn t1 us >>= fun t2 =>
      pure (us.foldl (fun t u => blankDirectPath t u.1) t2)) := by
  rw [← takeOut_eq]
  conv => rhs; arg 2; intro t1; rw [← putIn_eq]
  rfl

theorem applyUpdates_ok {t t' : Tree} {us : List (Nat × Leaf)} (h : applyUpdates t us = .ok t') :
    ∃ t1 t2, takeOut t us = .ok t1 ∧ putIn t1 us = .ok t2 ∧
      t' = us.foldl (fun t u => blankDirectPath t u.1) t2 := by
  rw [applyUpdates_eq] at h
  cases h1 : takeOut t us with
  | error e => rw [h1] at h; cases h
  | ok t1 =>
    rw [h1] at h
    simp only [bind, Except.bind] at h
    cases h2 : putIn t1 us with
    | error e => rw [h2] at h; cases h
    | ok t2 =>
      rw [h2] at h
      simp only [pure, Except.pure, Except.ok.injEq] at h
      exact ⟨t1, t2, rfl, h2, h.symm⟩

theorem takeOut_spec {t t1 : Tree} {us : List (Nat × Leaf)} (h : takeOut t us = .ok t1) :
    t1.length = t.length ∧ (us.map (·.1)).Nodup ∧
    (∀ u ∈ us, ∃ L, get t (2 * u.1) = some (.leaf L)) ∧
    ∀ x, get t1 x = if (∃ u ∈ us, x = 2 * u.1) then none else get t x := by
  induction us generalizing t with
  | nil =>
    simp only [takeOut, Except.ok.injEq] at h
    subst h
    simp
  | cons u us ih =>
    rw [takeOut] at h
    split at h
    · rename_i L t0 hb
      obtain ⟨hg, rfl⟩ := blankLeaf_ok hb
      have hr : 2 * u.1 < t.length := lt_of_get_some hg
      obtain ⟨h1, h2, h3, h4⟩ := ih h
      rw [length_set] at h1
      refine ⟨h1, ?_, ?_, ?_⟩
      · rw [List.map_cons, List.nodup_cons]
        refine ⟨?_, h2⟩
        intro hm
        obtain ⟨u', hu', e⟩ := List.mem_map.1 hm
        obtain ⟨L', hL'⟩ := h3 u' hu'
        rw [e, get_set_self _ _ _ hr] at hL'
        cases hL'
      · intro u' hu'
        rcases List.mem_cons.1 hu' with rfl | hu'
        · exact ⟨L, hg⟩
        · obtain ⟨L', hL'⟩ := h3 u' hu'
          rw [get_set] at hL'
          split at hL'
          · cases hL'
          · exact ⟨L', hL'⟩
      · intro x
        rw [h4 x, get_set]
        by_cases c1 : ∃ u ∈ us, x = 2 * u.1
        · have : ∃ u' ∈ u :: us, x = 2 * u'.1 := by
            obtain ⟨r', hm, hc⟩ := c1; exact ⟨r', List.mem_cons_of_mem _ hm, hc⟩
          rw [if_pos c1, if_pos this]
        · rw [if_neg c1]
          by_cases c2 : x = 2 * u.1
          · rw [if_pos ⟨c2.symm, hr⟩, if_pos ⟨u, List.mem_cons_self, c2⟩]
          · rw [if_neg (fun h => c2 h.1.symm), if_neg]
            rintro ⟨r', hm, hc⟩
            rcases List.mem_cons.1 hm with rfl | hm
            · exact c2 hc
            · exact c1 ⟨r', hm, hc⟩
    · cases h

/-- `insertLeaf` at a position inside the array is a plain `set` -/
theorem insertLeaf_in {t : Tree} {r : Nat} (l : Leaf) (h : 2 * r < t.length) :
    insertLeaf t r l = set t (2 * r) (some (.leaf l)) := by
  unfold insertLeaf
  have h1 : ¬ (2 * r > t.length) := by omega
  have h2 : t.isEmpty = false := by
    cases t with
    | nil => simp at h
    | cons a t => rfl
  simp only [h1, if_false, h2, Bool.false_eq_true]

theorem putIn_spec {t t2 : Tree} {us : List (Nat × Leaf)} (hin : ∀ u ∈ us, 2 * u.1 < t.length)
    (hnd : (us.map (·.1)).Nodup) (h : putIn t us = .ok t2) :
    t2.length = t.length ∧ (∀ u ∈ us, get t2 (2 * u.1) = some (.leaf u.2)) ∧
    (∀ x, (∀ u ∈ us, x ≠ 2 * u.1) → get t2 x = get t x) := by
  induction us generalizing t with
  | nil =>
    simp only [putIn, Except.ok.injEq] at h
    subst h
    simp
  | cons u us ih =>
    rw [putIn] at h
    split at h
    · cases h
    · have hr := hin u List.mem_cons_self
      rw [insertLeaf_in _ hr] at h
      rw [List.map_cons, List.nodup_cons] at hnd
      obtain ⟨h1, h2, h3⟩ := ih (fun u' hu' => by
        rw [length_set]; exact hin u' (List.mem_cons_of_mem _ hu')) hnd.2 h
      rw [length_set] at h1
      refine ⟨h1, ?_, ?_⟩
      · intro u' hu'
        rcases List.mem_cons.1 hu' with rfl | hu'
        · rw [h3, get_set_self _ _ _ hr]
          intro u'' hu'' e
          apply hnd.1
          exact List.mem_map.2 ⟨u'', hu'', by omega⟩
        · exact h2 u' hu'
      · intro x hx
        rw [h3 x (fun u' hu' => hx u' (List.mem_cons_of_mem _ hu')), get_set_ne]
        exact fun e => hx u List.mem_cons_self e.symm

theorem blankPaths_spec {t : Tree} {us : List (Nat × Leaf)} (hin : ∀ u ∈ us, 2 * u.1 < t.length) :
    (us.foldl (fun t u => blankDirectPath t u.1) t).length = t.length ∧
    ∀ x, get (us.foldl (fun t u => blankDirectPath t u.1) t) x =
      if (∃ u ∈ us, x % 2 = 1 ∧ below u.1 x) then none else get t x := by
  induction us generalizing t with
  | nil => simp
  | cons u us ih =>
    rw [List.foldl_cons]
    have hr := hin u List.mem_cons_self
    obtain ⟨h1, h2⟩ := ih (t := blankDirectPath t u.1) (fun u' hu' => by
      rw [length_blankDirectPath]; exact hin u' (List.mem_cons_of_mem _ hu'))
    rw [length_blankDirectPath] at h1
    refine ⟨h1, ?_⟩
    intro x
    rw [h2 x, get_blankDirectPath hr]
    by_cases c1 : ∃ u ∈ us, x % 2 = 1 ∧ below u.1 x
    · have : ∃ u' ∈ u :: us, x % 2 = 1 ∧ below u'.1 x := by
        obtain ⟨r', hm, hc⟩ := c1; exact ⟨r', List.mem_cons_of_mem _ hm, hc⟩
      rw [if_pos c1, if_pos this]
    · rw [if_neg c1]
      by_cases c2 : x % 2 = 1 ∧ below u.1 x
      · rw [if_pos c2, if_pos ⟨u, List.mem_cons_self, c2⟩]
      · rw [if_neg c2, if_neg]
        rintro ⟨r', hm, hc⟩
        rcases List.mem_cons.1 hm with rfl | hm
        · exact c2 hc
        · exact c1 ⟨r', hm, hc⟩

end Rm

theorem applyUpdates_spec {t t' : Tree} {us : List (Nat × Leaf)} (h : applyUpdates t us = .ok t') :
    t'.length = t.length ∧ (us.map (·.1)).Nodup ∧
    (∀ u ∈ us, ∃ L, get t (2 * u.1) = some (.leaf L)) ∧
    (∀ u ∈ us, get t' (2 * u.1) = some (.leaf u.2)) ∧
    (∀ x, (∀ u ∈ us, x ≠ 2 * u.1) →
       get t' x = if (∃ u ∈ us, x % 2 = 1 ∧ below u.1 x) then none else get t x) := by
  obtain ⟨t1, t2, e1, e2, rfl⟩ := Rm.applyUpdates_ok h
  obtain ⟨a1, a2, a3, a4⟩ := Rm.takeOut_spec e1
  have hin1 : ∀ u ∈ us, 2 * u.1 < t1.length := by
    intro u hu
    obtain ⟨L, hL⟩ := a3 u hu
    rw [a1]; exact lt_of_get_some hL
  obtain ⟨b1, b2, b3⟩ := Rm.putIn_spec hin1 a2 e2
  obtain ⟨c1, c2⟩ := Rm.blankPaths_spec (t := t2) (us := us) (by rw [b1]; exact hin1)
  refine ⟨by rw [c1, b1, a1], a2, a3, ?_, ?_⟩
  · intro u hu
    rw [c2, if_neg, b2 u hu]
    rintro ⟨u', _, hc, _⟩
    omega
  · intro x hx
    have hn : ¬ ∃ u ∈ us, x = 2 * u.1 := by rintro ⟨u, hu, e⟩; exact hx u hu e
    rw [c2, b3 x hx, a4, if_neg hn]

end MlsVerif.Tree
