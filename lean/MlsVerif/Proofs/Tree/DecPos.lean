import MlsVerif.Proofs.Tree.DecKeyInv
/-
`findResolvedPos`, `findCiphertextPos`: the position computed by the receiver.
-/
namespace MlsVerif.Tree
open MlsVerif.TreeMath
namespace Dec

theorem findResolvedPosAux_spec (t : Tree) (path : List Nat) :
    ∀ fuel i r, i < fuel → findResolvedPosAux t path fuel i = some r →
      r ≤ i ∧ (∃ n, path[r]? = some n ∧ isBlank t n = false) ∧
      (∀ i', r < i' → i' ≤ i → ∃ n, path[i']? = some n ∧ isBlank t n = true) := by
  intro fuel
  induction fuel with
  | zero => intro i r hi; omega
  | succ fuel ih =>
    intro i r hi h
    rw [findResolvedPosAux] at h
    cases hp : path[i]? with
    | none => rw [hp] at h; cases h
    | some n =>
      rw [hp] at h
      simp only at h
      by_cases hb : isBlank t n = true
      · rw [if_pos hb] at h
        by_cases h0 : i = 0
        · rw [if_pos h0] at h; cases h
        · rw [if_neg h0] at h
          obtain ⟨h1, h2, h3⟩ := ih (i - 1) r (by omega) h
          refine ⟨by omega, h2, ?_⟩
          intro i' hr hi'
          by_cases he : i' = i
          · subst he; exact ⟨n, hp, hb⟩
          · exact h3 i' hr (by omega)
      · rw [if_neg hb] at h
        cases h
        refine ⟨Nat.le_refl _, ⟨n, hp, by simpa using hb⟩, ?_⟩
        intro i' h1 h2; omega

theorem findResolvedPosAux_some (t : Tree) (path : List Nat)
    (h0 : ∃ n, path[0]? = some n ∧ isBlank t n = false) :
    ∀ fuel i, i < fuel → (∀ i', i' ≤ i → (path[i']?).isSome) →
      ∃ r, findResolvedPosAux t path fuel i = some r := by
  intro fuel
  induction fuel with
  | zero => intro i hi; omega
  | succ fuel ih =>
    intro i hi hall
    rw [findResolvedPosAux]
    have := hall i (Nat.le_refl _)
    cases hp : path[i]? with
    | none => rw [hp] at this; cases this
    | some n =>
      simp only
      by_cases hb : isBlank t n = true
      · rw [if_pos hb]
        by_cases hi0 : i = 0
        · exfalso
          subst hi0
          obtain ⟨n0, hn0, hb0⟩ := h0
          rw [hp] at hn0; cases hn0
          rw [hb] at hb0; cases hb0
        · rw [if_neg hi0]
          exact ih (i - 1) (by omega) (fun i' hi' => hall i' (by omega))
      · rw [if_neg hb]; exact ⟨i, rfl⟩

theorem findResolvedPos_spec {t : Tree} {p : Priv} {path : List Nat} {c slot : Nat}
    (h : findResolvedPos t p path c = some slot) :
    ∃ i, findResolvedPosAux t path (c + 1) c = some i ∧
      ((slot = i ∧ ∃ key, p.keys[i]? = some (some key)) ∨ (slot = 0 ∧ p.keys[i]? = some none)) := by
  unfold findResolvedPos at h
  split at h
  · cases h
  · rename_i i hi
    refine ⟨i, hi, ?_⟩
    split at h
    · rename_i key hk
      cases h; exact Or.inl ⟨rfl, key, hk⟩
    · rename_i hk
      cases h; exact Or.inr ⟨rfl, hk⟩
    · cases h

/-- the first non-blank node on the way down from `nd l (a / 2^l)` to leaf `a` heads the resolution -/
theorem resHead_sub_resCF (t : Tree) (a i : Nat) (n : Node) (hg : get t (pnode a i) = some n) :
    ∀ l, i ≤ l → (∀ i', i < i' → i' ≤ l → get t (pnode a i') = none) →
      ∀ r ∈ resHead (pnode a i) n, r ∈ resCF t l (a / 2 ^ l) := by
  intro l
  induction l with
  | zero =>
    intro hi _ r hr
    have : i = 0 := by omega
    subst this
    unfold pnode at hg hr
    rw [resCF, hg]; exact hr
  | succ l ih =>
    intro hi hbl r hr
    by_cases he : i = l + 1
    · subst he
      unfold pnode at hg hr
      rw [resCF, hg]; exact hr
    · have hb := hbl (l + 1) (by omega) (Nat.le_refl _)
      unfold pnode at hb
      rw [resCF, hb]
      simp only [List.mem_append]
      have hr' := ih (by omega) (fun i' h1 h2 => hbl i' h1 (by omega)) r hr
      have e : a / 2 ^ (l + 1) = a / 2 ^ l / 2 := by
        rw [pow_succ', Nat.mul_comm, Nat.div_div_eq_div_mul]
      rw [e]
      revert hr'
      generalize a / 2 ^ l = x
      intro hr'
      obtain ⟨m, rfl | rfl⟩ : ∃ m, x = 2 * m ∨ x = 2 * m + 1 := ⟨x / 2, by omega⟩
      · left
        have : 2 * m / 2 = m := by omega
        rw [this]; exact hr'
      · right
        have : (2 * m + 1) / 2 = m := by omega
        rw [this]; exact hr'

theorem filt_eq (added : List Nat) (i : Nat) :
    (i % 2 == 1 || !added.contains (i / 2)) = !(added.map (2 * ·)).contains i := by
  obtain ⟨y, rfl | rfl⟩ : ∃ y, i = 2 * y ∨ i = 2 * y + 1 := ⟨i / 2, by omega⟩
  · have h1 : 2 * y / 2 = y := by omega
    have h2 : 2 * y % 2 = 0 := by omega
    rw [h1, h2]
    rw [Bool.eq_iff_iff]
    simp
    constructor
    · intro h x hx hxy
      have : x = y := by omega
      subst this; exact h hx
    · intro h hy; exact h y hy rfl
  · have h2 : (2 * y + 1) % 2 = 1 := by omega
    rw [h2]
    rw [Bool.eq_iff_iff]
    simp
    intro x _; omega

theorem expKey_some {t : Tree} {a n key : Nat} (h : expKey t a n = some key) :
    (get t n).map Node.key = some key := by
  unfold expKey at h
  split at h
  · rename_i l hg; rw [hg]; simpa [Node.key] using h
  · rename_i P hg
    rw [hg]
    split at h
    · cases h
    · simpa [Node.key] using h
  · cases h

theorem slotAt_eq_some {ks : List (Option Nat)} {j key : Nat} :
    slotAt ks j = some key ↔ ks[j]? = some (some key) := by
  unfold slotAt
  cases ks[j]? with
  | none => simp
  | some o => cases o <;> simp

end Dec
end MlsVerif.Tree
