import MlsVerif.Proofs.Tree.AddInv
/-
ADD phase, part 4: `applyAdds` -- leftmost filling, get-level specification, invariants.
-/
namespace MlsVerif.Tree
open MlsVerif.TreeMath
namespace Add

/-- what a successful `applyAdds t ls start acc` did; `new` = the indices it appended to `acc` -/
structure AddsRel (t t' : Tree) (ls : List Leaf) (start : Nat) (new : List Nat) : Prop where
  length : new.length = ls.length
  len : t.length ≤ t'.length
  sorted : new.Pairwise (· < ·)
  fresh : ∀ i ∈ new, start ≤ i ∧ get t (2 * i) = none
  leftmost : ∀ j, get t (2 * j) = none → j ∈ new ∨ ∀ i ∈ new, i < j
  parents : ∀ x P', get t' x = some (.parent P') → ∃ P, get t x = some (.parent P) ∧ P'.key = P.key ∧
    ∀ l, l ∈ P'.unmerged ↔ (l ∈ P.unmerged ∨ (l ∈ new ∧ below l x))
  parents_kept : ∀ x P, get t x = some (.parent P) → ∃ P', get t' x = some (.parent P')
  odd_blank : ∀ x, x % 2 = 1 → get t x = none → get t' x = none
  leaves_kept : ∀ i, i ∉ new → get t' (2 * i) = get t (2 * i)
  added_leaf : ∀ (j i : Nat), new[j]? = some i → ∃ l, ls[j]? = some l ∧ get t' (2 * i) = some (.leaf l)

theorem applyAdds_cons {t t' : Tree} {l : Leaf} {ls : List Leaf} {start : Nat} {acc added : List Nat}
    (h : applyAdds t (l :: ls) start acc = .ok (added, t')) :
    ∃ i t1, addLeaf t l start = .ok (i, t1) ∧ applyAdds t1 ls i (i :: acc) = .ok (added, t') := by
  rw [applyAdds] at h
  cases ha : addLeaf t l start with
  | error e => rw [ha] at h; simp at h
  | ok p =>
    obtain ⟨i, t1⟩ := p
    rw [ha] at h
    exact ⟨i, t1, rfl, h⟩

theorem applyAdds_rel : ∀ (ls : List Leaf) (t t' : Tree) (start : Nat) (acc added : List Nat),
    PreShape t → applyAdds t ls start acc = .ok (added, t') →
    (∀ j < start, get t (2 * j) ≠ none) →
    ∃ new, added = acc.reverse ++ new ∧ AddsRel t t' ls start new := by
  intro ls
  induction ls with
  | nil =>
    intro t t' start acc added hs h hst
    rw [applyAdds] at h
    simp only [Except.ok.injEq, Prod.mk.injEq] at h
    obtain ⟨rfl, rfl⟩ := h
    refine ⟨[], by simp, ?_⟩
    exact {
      length := rfl
      len := Nat.le_refl _
      sorted := List.Pairwise.nil
      fresh := fun i hi => by simp at hi
      leftmost := fun j _ => Or.inr (fun i hi => by simp at hi)
      parents := fun x P' hg => ⟨P', hg, rfl, fun l => by simp⟩
      parents_kept := fun x P hP => ⟨P, hP⟩
      odd_blank := fun x _ h => h
      leaves_kept := fun i _ => rfl
      added_leaf := fun j i hj => by simp at hj }
  | cons l ls ih =>
    intro t t' start acc added hs h hst
    obtain ⟨i, t1, ha, h⟩ := applyAdds_cons h
    have R : AddRel t t1 l i := (addLeaf_rel hs ha).2
    have lm := addLeaf_leftmost ha hst
    have hs1 := R.preShape hs
    have hst1 : ∀ j < i, get t1 (2 * j) ≠ none := fun j hj => R.nonblank (lm.2 j hj)
    have hstart : start ≤ i := by
      apply Classical.byContradiction
      intro hc
      exact hst i (by omega) lm.1
    obtain ⟨new', hadd, A⟩ := ih t1 t' i (i :: acc) added hs1 h hst1
    have hgt : ∀ i' ∈ new', i < i' := by
      intro i' hi'
      have := A.fresh i' hi'
      have hne : i' ≠ i := by
        intro e; rw [e, R.leaf] at this; simp at this
      omega
    refine ⟨i :: new', by rw [hadd]; simp, ?_⟩
    exact {
      length := by simp [A.length]
      len := Nat.le_trans R.len A.len
      sorted := List.pairwise_cons.2 ⟨hgt, A.sorted⟩
      fresh := by
        intro i' hi'
        rcases List.mem_cons.mp hi' with rfl | hi'
        · exact ⟨hstart, lm.1⟩
        · have := hgt i' hi'
          exact ⟨by omega, (R.blank_iff (by omega)).1 (A.fresh i' hi').2⟩
      leftmost := by
        intro j hj
        by_cases hji : j = i
        · subst hji; exact Or.inl List.mem_cons_self
        · have hj1 : get t1 (2 * j) = none := (R.blank_iff (by omega)).2 hj
          rcases A.leftmost j hj1 with h1 | h1
          · exact Or.inl (List.mem_cons_of_mem _ h1)
          · right
            intro i' hi'
            rcases List.mem_cons.mp hi' with rfl | hi'
            · apply Classical.byContradiction
              intro hc
              exact lm.2 j (by omega) hj
            · exact h1 i' hi'
      parents := by
        intro x P' hg
        obtain ⟨P1, hg1, k1, m⟩ := A.parents x P' hg
        obtain ⟨P, hP, k2, m1, _⟩ := R.par_inv hg1
        refine ⟨P, hP, by rw [k1, k2], ?_⟩
        intro l'
        rw [m, m1]
        simp only [List.mem_cons]
        constructor
        · rintro ((h1 | ⟨rfl, h1⟩) | ⟨h1, h2⟩)
          · exact Or.inl h1
          · exact Or.inr ⟨Or.inl rfl, h1⟩
          · exact Or.inr ⟨Or.inr h1, h2⟩
        · rintro (h1 | ⟨rfl | h1, h2⟩)
          · exact Or.inl (Or.inl h1)
          · exact Or.inl (Or.inr ⟨rfl, h2⟩)
          · exact Or.inr ⟨h1, h2⟩
      parents_kept := by
        intro x P hP
        obtain ⟨u, hu, _⟩ := R.par x P hP
        exact A.parents_kept _ _ hu
      odd_blank := by
        intro x hx hg
        exact A.odd_blank x hx ((R.blank_iff (by omega)).2 hg)
      leaves_kept := by
        intro i0 hi0
        rw [List.mem_cons, not_or] at hi0
        rw [A.leaves_kept i0 hi0.2, R.leaf_other hs hi0.1]
      added_leaf := by
        intro j i0 hj
        cases j with
        | zero =>
          simp only [List.getElem?_cons_zero, Option.some.injEq] at hj
          subst hj
          refine ⟨l, rfl, ?_⟩
          rw [A.leaves_kept i (fun hm => by have := hgt i hm; omega), R.leaf]
        | succ j =>
          rw [List.getElem?_cons_succ] at hj
          rw [List.getElem?_cons_succ]
          exact A.added_leaf j i0 hj }

/-- all four invariants through `applyAdds` in one induction -/
theorem applyAdds_invs : ∀ (ls : List Leaf) (t t' : Tree) (start : Nat) (acc added : List Nat),
    PreShape t → applyAdds t ls start acc = .ok (added, t') →
    PreShape t' ∧ (UnmergedInv t → UnmergedInv t') ∧ (NonEmptyInv t → NonEmptyInv t') ∧
    (UniqInv t → (∀ l ∈ ls, ∀ x P, get t x = some (.parent P) → P.key ≠ l.hpke) → UniqInv t') := by
  intro ls
  induction ls with
  | nil =>
    intro t t' start acc added hs h
    rw [applyAdds] at h
    simp only [Except.ok.injEq, Prod.mk.injEq] at h
    obtain ⟨rfl, rfl⟩ := h
    exact ⟨hs, fun h => h, fun h => h, fun h _ => h⟩
  | cons l ls ih =>
    intro t t' start acc added hs h
    obtain ⟨i, t1, ha, h⟩ := applyAdds_cons h
    have R : AddRel t t1 l i := (addLeaf_rel hs ha).2
    obtain ⟨a, b, c, d⟩ := ih t1 t' i (i :: acc) added (R.preShape hs) h
    refine ⟨a, fun hu => b (R.unmerged hu), fun hn => c (R.nonEmpty hn), ?_⟩
    intro hu hf
    apply d (R.uniq hu (hf l List.mem_cons_self))
    intro l' hl' x P1 hg1
    obtain ⟨P, hP, k, _⟩ := R.par_inv hg1
    rw [k]
    exact hf l' (List.mem_cons_of_mem _ hl') x P hP

end Add

/-- The added leaves occupy exactly the first `|ls|` blank leaf slots of `t`, in increasing order.
`PreShape t` is needed (see `Add.Ex.applyAdds_leftmost_needs_preShape` in `AddExample.lean`). -/
theorem applyAdds_leftmost {t t' : Tree} {ls : List Leaf} {start : Nat} {acc added : List Nat}
    (hp : PreShape t)
    (h : applyAdds t ls start acc = .ok (added, t')) (hs : ∀ j < start, get t (2 * j) ≠ none) :
    ∃ new, added = acc.reverse ++ new ∧ new.length = ls.length ∧ new.Pairwise (· < ·) ∧
      (∀ i ∈ new, start ≤ i ∧ get t (2 * i) = none) ∧
      (∀ j, get t (2 * j) = none → j ∈ new ∨ ∀ i ∈ new, i < j) := by
  obtain ⟨new, h1, A⟩ := Add.applyAdds_rel ls t t' start acc added hp h hs
  exact ⟨new, h1, A.length, A.sorted, A.fresh, A.leftmost⟩

theorem applyAdds_spec {t t' : Tree} {ls : List Leaf} {start : Nat} {acc added : List Nat}
    (hs : PreShape t)
    (h : applyAdds t ls start acc = .ok (added, t')) (hst : ∀ j < start, get t (2 * j) ≠ none) :
    ∃ new, added = acc.reverse ++ new ∧ new.length = ls.length ∧ t.length ≤ t'.length ∧
      (∀ x P', get t' x = some (.parent P') → ∃ P, get t x = some (.parent P) ∧ P'.key = P.key ∧
          ∀ l, l ∈ P'.unmerged ↔ (l ∈ P.unmerged ∨ (l ∈ new ∧ below l x))) ∧
      (∀ x P, get t x = some (.parent P) → ∃ P', get t' x = some (.parent P')) ∧
      (∀ x, x % 2 = 1 → get t x = none → get t' x = none) ∧
      (∀ i, i ∉ new → get t' (2 * i) = get t (2 * i)) ∧
      (∀ (j i : Nat), new[j]? = some i → ∃ l, ls[j]? = some l ∧ get t' (2 * i) = some (.leaf l)) ∧
      (∀ i ∈ new, get t (2 * i) = none) := by
  obtain ⟨new, h1, A⟩ := Add.applyAdds_rel ls t t' start acc added hs h hst
  exact ⟨new, h1, A.length, A.len, A.parents, A.parents_kept, A.odd_blank, A.leaves_kept,
    A.added_leaf, fun i hi => (A.fresh i hi).2⟩

theorem applyAdds_preShape {t t' : Tree} {ls : List Leaf} {start : Nat} {acc added : List Nat}
    (hs : PreShape t) (h : applyAdds t ls start acc = .ok (added, t')) : PreShape t' :=
  (Add.applyAdds_invs ls t t' start acc added hs h).1

theorem applyAdds_unmerged {t t' : Tree} {ls : List Leaf} {start : Nat} {acc added : List Nat}
    (hs : PreShape t) (hu : UnmergedInv t) (h : applyAdds t ls start acc = .ok (added, t')) :
    UnmergedInv t' :=
  (Add.applyAdds_invs ls t t' start acc added hs h).2.1 hu

theorem applyAdds_nonEmpty {t t' : Tree} {ls : List Leaf} {start : Nat} {acc added : List Nat}
    (hs : PreShape t) (hn : NonEmptyInv t) (h : applyAdds t ls start acc = .ok (added, t')) :
    NonEmptyInv t' :=
  (Add.applyAdds_invs ls t t' start acc added hs h).2.2.1 hn

theorem applyAdds_uniq {t t' : Tree} {ls : List Leaf} {start : Nat} {acc added : List Nat}
    (hs : PreShape t) (hu : UniqInv t)
    (hf : ∀ l ∈ ls, ∀ x P, get t x = some (.parent P) → P.key ≠ l.hpke)
    (h : applyAdds t ls start acc = .ok (added, t')) : UniqInv t' :=
  (Add.applyAdds_invs ls t t' start acc added hs h).2.2.2 hu hf

end MlsVerif.Tree
