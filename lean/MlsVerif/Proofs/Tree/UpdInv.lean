import MlsVerif.Proofs.Tree.UpdBase
/-
Consequences of `PathUpdated t t' s nl pk` + `FilterOk t s pk`: preservation of `NonEmptyInv`,
`UnmergedInv`, establishment of `KeyInv` for the committer.
-/
namespace MlsVerif.Tree
open MlsVerif.TreeMath

namespace Upd

/-! ### index arithmetic -/

theorem inSub_succ_cases {x l q : Nat} (h : inSub x (nd (l + 1) q)) :
    x = nd (l + 1) q ∨ inSub x (nd l (2 * q)) ∨ inSub x (nd l (2 * q + 1)) := by
  rw [inSub_nd] at h
  rw [inSub_nd, inSub_nd]
  have e1 : 2 ^ (l + 1 + 1) * q = 2 ^ (l + 1) * (2 * q) := by rw [pow_succ' (l + 1)]; grind
  have e2 : 2 ^ (l + 1) * (2 * q + 1) = 2 ^ (l + 1) * (2 * q) + 2 ^ (l + 1) := by grind
  have e3 := pow_succ' (l + 1)
  unfold nd
  have := Nat.two_pow_pos l
  have := pow_succ' l
  omega

theorem inSub_zero {x q : Nat} (h : inSub x (nd 0 q)) : x = nd 0 q := by
  rw [inSub_nd] at h; rw [nd_zero]; simp at h; omega

/-- leaves below a node of the subtree of `y` are below `y` -/
theorem below_of_inSub_nd {i x : Nat} (l : Nat) : ∀ q, inSub x (nd l q) → below i x → below i (nd l q) := by
  induction l with
  | zero => intro q h hb; rw [← inSub_zero h]; exact hb
  | succ l ih =>
    intro q h hb
    rcases inSub_succ_cases h with rfl | h | h
    · exact hb
    · exact below_left (ih _ h hb)
    · exact below_right (ih _ h hb)

theorem below_of_inSub_below {i x y : Nat} (h : inSub x y) (hb : below i x) : below i y := by
  rw [eq_nd y] at h ⊢
  exact below_of_inSub_nd _ _ h hb

theorem not_below_copath (s j : Nat) : ¬ below s (pathEntry s j).2 := by
  rw [below_pathEntry_snd]
  unfold sib
  split <;> omega

/-- an odd node inside the full tree which is above leaf `s` is a direct-path node of `s` -/
theorem path_of_below {s k x : Nat} (hx : x < 2 ^ (k + 1) - 1) (hodd : x % 2 = 1) (hb : below s x) :
    ∃ j, j < k ∧ x = (pathEntry s j).1 := by
  have h1 := level_le k x hx
  have h2 : level x ≠ 0 := by rw [Ne, level_eq_zero_iff]; omega
  rw [below_iff] at hb
  refine ⟨level x - 1, by omega, ?_⟩
  unfold pathEntry
  simp only
  have e : level x - 1 + 1 = level x := by omega
  rw [e, hb]
  exact eq_nd x

/-- monotonicity of "below" along the levels -/
theorem below_up {l s p' p : Nat} (h1 : below l p') (h2 : below l p) (h3 : below s p')
    (hlv : level p' ≤ level p) : below s p := by
  rw [below_iff] at *
  rw [← h2]
  exact div_pow_mono _ _ _ _ hlv (by rw [h3, h1])


/-! ### the tree after the path update -/

section
variable {t t' : Tree} {s : Nat} {nl : Leaf} {pk : List (Option Nat)}

/-- the subtree of a copath node is untouched -/
theorem copath_untouched (hpu : PathUpdated t t' s nl pk) {k : Nat} (hk : leafCount t = 2 ^ k)
    (hs : s < 2 ^ k) (j : Nat) {r : Nat} (hr : inSub r (pathEntry s j).2) : get t' r = get t r := by
  rcases classify hpu hk hs r with ⟨h0, _⟩ | ⟨j', k', _, hx, _, _⟩ | ⟨_, h1, _⟩
  · exfalso; subst h0
    exact not_below_copath s j (below_of_inSub hr)
  · exfalso; subst hx
    exact not_below_copath s j (below_of_inSub_below hr (below_self_pathEntry s j'))
  · exact h1

theorem copath_resolution (hpu : PathUpdated t t' s nl pk) {k : Nat} (hk : leafCount t = 2 ^ k)
    (hs : s < 2 ^ k) (j : Nat) : resolution t' (pathEntry s j).2 = resolution t (pathEntry s j).2 :=
  resolution_congr fun _ hr => copath_untouched hpu hk hs j hr

/-- resolutions do not become empty -/
theorem resolution_mono (hpu : PathUpdated t t' s nl pk) {k : Nat} (hk : leafCount t = 2 ^ k)
    (hs : s < 2 ^ k) {x : Nat} (h : resolution t x ≠ []) : resolution t' x ≠ [] := by
  intro h'
  apply h
  rw [resolution_eq_nil] at h' ⊢
  intro r hr
  apply Classical.byContradiction
  intro hne
  exact nonblank_mono hpu hk hs hne (h' r hr)

/-- the resolution of a node above the (non-blank) leaf `2*s` is non-empty -/
theorem resolution_above (hpu : PathUpdated t t' s nl pk) {x : Nat} (hb : below s x) :
    resolution t' x ≠ [] := by
  intro h
  rw [resolution_eq_nil] at h
  have := h _ (inSub_of_below hb)
  rw [hpu.leaf] at this
  simp at this

theorem pk_length (hf : FilterOk t s pk) {k : Nat} (hk : leafCount t = 2 ^ k) (hs : s < 2 ^ k) :
    pk.length = k := by
  have := congrArg List.length hf
  unfold filtered at this
  simp only [List.length_map] at this
  rw [this, directCopathOf_length t k s hk, if_pos hs]

/-- unfiltered position: the copath child has a non-empty resolution -/
theorem unfiltered_res (hf : FilterOk t s pk) {k : Nat} (hk : leafCount t = 2 ^ k) (hs : s < 2 ^ k)
    {j k' : Nat} (hj : j < k) (hp : pk[j]? = some (some k')) :
    resolution t (pathEntry s j).2 ≠ [] := by
  have h := congrArg (fun l => l[j]?) hf
  simp only [List.getElem?_map, hp, filtered_getElem?, dc_get hk hs hj, Option.map_some,
    Option.isNone_some, Option.some.injEq] at h
  intro he
  rw [isResolutionEmpty, he] at h
  simp at h

/-- a path position without announced key is blank in `t` -/
theorem filtered_pos_blank (hf : FilterOk t s pk) (hsh : PreShape t) (hne : NonEmptyInv t)
    {k : Nat} (hk : leafCount t = 2 ^ k) (hs : s < 2 ^ k) {j : Nat} (hj : j < k)
    (hp : ∀ k', pk[j]? ≠ some (some k')) : get t (pathEntry s j).1 = none := by
  have hlen := pk_length hf hk hs
  have hq : pk[j]? = some none := by
    cases h : pk[j]? with
    | none => rw [List.getElem?_eq_none_iff] at h; omega
    | some o =>
      cases o with
      | none => rfl
      | some k' => exact absurd h (hp k')
  apply filtered_blank hsh hne (dc_get hk hs hj)
  rw [← hf, List.getElem?_map, hq]; rfl

end
end Upd

section
variable {t t' : Tree} {s : Nat} {nl : Leaf} {pk : List (Option Nat)}

theorem pathUpdated_nonEmpty (hpu : PathUpdated t t' s nl pk) (hlen : t'.length = t.length)
    (hL : ∃ L, get t (2 * s) = some (.leaf L)) (hf : FilterOk t s pk) :
    PreShape t → NonEmptyInv t → NonEmptyInv t' := by
  intro _ hne
  obtain ⟨k, hk, hs, _⟩ := Upd.ctx hL
  intro p hp P hP l hl r hr
  rcases Upd.classify hpu hk hs p with ⟨_, h1⟩ | ⟨j, k', hj, hx, hq, h1⟩ | ⟨_, h1, _⟩
  · rw [h1] at hP; simp at hP
  · subst hx
    have hc : resolution t' (pathEntry s j).2 ≠ [] := by
      rw [Upd.copath_resolution hpu hk hs j]; exact Upd.unfiltered_res hf hk hs hj hq
    have ho : resolution t' (nd j (s / 2 ^ j)) ≠ [] :=
      Upd.resolution_above hpu ((below_nd _ _ _).2 rfl)
    rcases pathEntry_children s j with ⟨e1, e2⟩ | ⟨e1, e2⟩
    · rw [e1] at hl; rw [e2] at hr
      cases hl; cases hr
      exact ⟨ho, hc⟩
    · rw [e1] at hl; rw [e2] at hr
      cases hl; cases hr
      exact ⟨hc, ho⟩
  · rw [h1] at hP
    have := hne p (hlen ▸ hp) P hP l hl r hr
    exact ⟨Upd.resolution_mono hpu hk hs this.1, Upd.resolution_mono hpu hk hs this.2⟩


theorem pathUpdated_unmerged (hpu : PathUpdated t t' s nl pk) (hlen : t'.length = t.length)
    (hL : ∃ L, get t (2 * s) = some (.leaf L)) (hf : FilterOk t s pk) :
    PreShape t → NonEmptyInv t → UnmergedInv t → UnmergedInv t' := by
  intro hsh hne hu
  obtain ⟨k, hk, hs, hbound⟩ := Upd.ctx hL
  intro p hp P hP
  rcases Upd.classify hpu hk hs p with ⟨_, h1⟩ | ⟨j, k', hj, hx, hq, h1⟩ | ⟨_, h1, hnp⟩
  · rw [h1] at hP; simp at hP
  · rw [h1] at hP
    simp only [parentOf?_parent, Option.mem_def, Option.some.injEq] at hP
    subst hP
    exact ⟨List.Pairwise.nil, fun l hl => by simp at hl, fun _ _ _ _ _ l hl => by simp at hl⟩
  · rw [h1] at hP
    have hpt : p < t.length := hlen ▸ hp
    obtain ⟨hu1, hu2, hu3⟩ := hu p hpt P hP
    refine ⟨hu1, fun l hl => ⟨(hu2 l hl).1, Upd.nonblank_mono hpu hk hs (hu2 l hl).2⟩, ?_⟩
    intro p' hp' P' hP' hlv l hl hb
    rcases Upd.classify hpu hk hs p' with ⟨_, h1'⟩ | ⟨j', k'', hj', hx', hq', h1'⟩ | ⟨_, h1', _⟩
    · rw [h1'] at hP'; simp at hP'
    · exfalso
      subst hx'
      -- `s` is below `p'`, hence below `p`, so `p` is a path node of `s`
      have hbs : below s p :=
        Upd.below_up hb (hu2 l hl).1 (below_self_pathEntry s j') (Nat.le_of_lt hlv)
      have hodd : p % 2 = 1 := by
        apply Classical.byContradiction
        intro hc
        have := (hsh.1 p hpt).1 (by omega)
        rw [Option.mem_def] at hP
        rw [hP] at this; simp at this
      obtain ⟨j, hj, rfl⟩ := Upd.path_of_below (by omega : p < 2 ^ (k + 1) - 1) hodd hbs
      have := Upd.filtered_pos_blank hf hsh hne hk hs hj (hnp j hj rfl)
      rw [this] at hP; simp at hP
    · rw [h1'] at hP'
      exact hu3 p' (hlen ▸ hp') P' hP' hlv l hl hb

theorem pathUpdated_keyinv (hpu : PathUpdated t t' s nl pk) (_hlen : t'.length = t.length)
    (hL : ∃ L, get t (2 * s) = some (.leaf L)) (hf : FilterOk t s pk) :
    PreShape t → NonEmptyInv t → KeyInv t' { self := s, keys := some nl.hpke :: pk } := by
  intro hsh hne
  obtain ⟨k, hk, hs, _⟩ := Upd.ctx hL
  have hdc : directCopathOf t' s = directCopathOf t s := by
    unfold directCopathOf; rw [hpu.leafCount_eq]
  rw [keyInv_iff]
  intro j
  simp only
  unfold expectedSlots
  simp only [hdc]
  cases j with
  | zero =>
    simp only [slotAt, List.getElem?_cons_zero, List.map_cons, hpu.leaf]
  | succ j =>
    simp only [slotAt, List.getElem?_cons_succ, List.map_cons, List.getElem?_map]
    by_cases hj : j < k
    · rw [Upd.dc_get hk hs hj]
      simp only [Option.map_some]
      have h := hpu.onPath j (pathEntry s j) (Upd.dc_get hk hs hj)
      by_cases hq : ∃ k', pk[j]? = some (some k')
      · obtain ⟨k', hq⟩ := hq
        rw [hq] at h
        rw [h, hq]
        simp
      · have hq' : ∀ k', pk[j]? ≠ some (some k') := fun k' hk' => hq ⟨k', hk'⟩
        have hb := Upd.filtered_pos_blank hf hsh hne hk hs hj hq'
        have hlen := Upd.pk_length hf hk hs
        have hq2 : pk[j]? = some none := by
          cases h : pk[j]? with
          | none => rw [List.getElem?_eq_none_iff] at h; omega
          | some o =>
            cases o with
            | none => rfl
            | some k' => exact absurd h (hq' k')
        rw [hq2] at h
        rw [h, hb, hq2]
    · have hlen := Upd.pk_length hf hk hs
      rw [List.getElem?_eq_none (by omega : pk.length ≤ j)]
      rw [List.getElem?_eq_none (by rw [directCopathOf_length t k s hk, if_pos hs]; omega)]
      rfl

end
end MlsVerif.Tree
