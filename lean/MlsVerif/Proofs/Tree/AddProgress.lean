import MlsVerif.Proofs.Tree.AddAdds
/-
ADD phase, progress: under the invariants the only way `addLeaf` / `applyAdds` can fail is
`duplicateLeafData`; `parentHashMismatch` (leaf already unmerged somewhere) is unreachable.
-/
namespace MlsVerif.Tree
open MlsVerif.TreeMath
namespace Add

theorem um_fold_ok (leaf : Nat) : ∀ (cps : List (Nat × Nat)) (t : Tree),
    (cps.map (·.1)).Nodup →
    (∀ x ∈ cps.map (·.1), ∀ P, get t x = some (.parent P) → leaf ∉ P.unmerged) →
    ∃ t', cps.foldlM (umF leaf) t = .ok t' := by
  intro cps
  induction cps with
  | nil => intro t _ _; exact ⟨t, rfl⟩
  | cons cp cps ih =>
    intro t hnd hno
    rw [List.map_cons, List.nodup_cons] at hnd
    have hstep : ∃ t1, umF leaf t cp = .ok t1 := by
      unfold umF
      split
      · rename_i p hg
        split
        · exact ⟨_, rfl⟩
        · rename_i hnone
          exact absurd (insertSorted_none _ _ hnone) (hno cp.1 (by simp) p hg)
      · exact ⟨_, rfl⟩
    obtain ⟨t1, h1⟩ := hstep
    obtain ⟨_, s2, _, _⟩ := umF_spec h1
    have := ih t1 hnd.2 (by
      intro x hx P hg
      have hne : x ≠ cp.1 := by intro e; rw [e] at hx; exact hnd.1 hx
      rw [s2 x hne] at hg
      exact hno x (by rw [List.map_cons]; exact List.mem_cons_of_mem _ hx) P hg)
    obtain ⟨t', h'⟩ := this
    refine ⟨t', ?_⟩
    rw [List.foldlM_cons, h1]
    exact h'

/-- a leaf stored after the add is the new one or was stored before -/
theorem AddRel.leaf_inv {t t' : Tree} {l L : Leaf} {i x : Nat} (h : AddRel t t' l i)
    (hg : get t' x = some (.leaf L)) : (x = 2 * i ∧ L = l) ∨ get t x = some (.leaf L) := by
  by_cases hx : x = 2 * i
  · subst hx
    rw [h.leaf] at hg
    simp only [Option.some.injEq, Node.leaf.injEq] at hg
    exact Or.inl ⟨rfl, hg.symm⟩
  · right
    have := (h.key_other hx).2
    rw [hg] at this
    exact leafOf?_eq_some.1 this.symm

theorem addLeaf_conflict {t : Tree} {l : Leaf} {start : Nat} (h : conflicts t l = true) :
    addLeaf t l start = .error .duplicateLeafData := by
  unfold addLeaf; simp [h]

/-- under the invariants `addLeaf` succeeds whenever the new leaf does not conflict -/
theorem addLeaf_succeeds {t : Tree} {l : Leaf} {start : Nat} (hs : PreShape t) (hu : UnmergedInv t)
    (hc : conflicts t l = false) : ∃ i t', addLeaf t l start = .ok (i, t') := by
  obtain ⟨hb, hpos⟩ := nextEmptyLeaf_blank t start
  obtain ⟨_, _, _, L4⟩ := insertLeaf_spec t (nextEmptyLeaf t start) l hs.2 hpos
  have := um_fold_ok (nextEmptyLeaf t start)
    (directCopathOf (insertLeaf t (nextEmptyLeaf t start) l) (nextEmptyLeaf t start))
    (insertLeaf t (nextEmptyLeaf t start) l) (path_nodup _ _) (by
      intro x _ P hg hmem
      rw [L4] at hg
      split at hg
      · simp at hg
      · have := (hu x (lt_of_get_some hg) P (parentOf?_eq_some.2 hg)).2.1 _ hmem
        exact this.2 hb)
  obtain ⟨t', h'⟩ := this
  refine ⟨nextEmptyLeaf t start, t', ?_⟩
  unfold addLeaf
  simp only [hc, Bool.false_eq_true, if_false]
  rw [updateUnmerged_eq, h']

/-- under the invariants `applyAdds` succeeds whenever the new leaves conflict neither with the
tree nor with each other -/
theorem applyAdds_succeeds : ∀ (ls : List Leaf) (t : Tree) (start : Nat) (acc : List Nat),
    PreShape t → UnmergedInv t →
    (∀ l ∈ ls, conflicts t l = false) →
    ls.Pairwise (fun a b => a.ident ≠ b.ident ∧ a.hpke ≠ b.hpke ∧ a.sig ≠ b.sig) →
    ∃ added t', applyAdds t ls start acc = .ok (added, t') := by
  intro ls
  induction ls with
  | nil => intro t start acc _ _ _ _; exact ⟨_, _, rfl⟩
  | cons l ls ih =>
    intro t start acc hs hu hc hp
    obtain ⟨i, t1, ha⟩ := addLeaf_succeeds (start := start) hs hu (hc l List.mem_cons_self)
    have R := (addLeaf_rel hs ha).2
    rw [List.pairwise_cons] at hp
    have := ih t1 i (i :: acc) (R.preShape hs) (R.unmerged hu) (by
      intro l' hl'
      rw [conflicts_false_iff]
      intro x L hg
      rcases R.leaf_inv hg with ⟨_, rfl⟩ | hg
      · exact hp.1 l' hl'
      · exact conflicts_false_iff.1 (hc l' (List.mem_cons_of_mem _ hl')) x L hg) hp.2
    obtain ⟨added, t', h'⟩ := this
    refine ⟨added, t', ?_⟩
    rw [applyAdds, ha]
    exact h'

end Add
end MlsVerif.Tree
