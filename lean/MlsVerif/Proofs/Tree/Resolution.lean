import MlsVerif.Proofs.Tree.Defs
/-
`resolution`: structural form, elements are non-blank, lie in the subtree, no duplicates;
emptiness = the whole subtree is blank.
-/
namespace MlsVerif.Tree
open MlsVerif.TreeMath

/-- the resolution of node `x` given the node stored there and the children's resolutions -/
def resHead (x : Nat) : Node → List Nat
  | .leaf _ => [x]
  | .parent p => x :: p.unmerged.map (2 * ·)

/-- `resolution` by recursion on the level -/
def resCF (t : Tree) : Nat → Nat → List Nat
  | 0, q => match get t (nd 0 q) with
    | some n => resHead (nd 0 q) n
    | none => []
  | l + 1, q => match get t (nd (l + 1) q) with
    | some n => resHead (nd (l + 1) q) n
    | none => resCF t l (2 * q) ++ resCF t l (2 * q + 1)

theorem resolutionAux_eq_resCF (t : Tree) (l : Nat) : ∀ (q fuel : Nat), l < fuel →
    resolutionAux t fuel (nd l q) = resCF t l q := by
  induction l with
  | zero =>
    intro q fuel hf
    obtain ⟨f, rfl⟩ : ∃ f, fuel = f + 1 := ⟨fuel - 1, by omega⟩
    rw [resolutionAux, resCF, left?_nd_zero]
    cases get t (nd 0 q) with
    | none => rfl
    | some n => cases n <;> rfl
  | succ l ih =>
    intro q fuel hf
    obtain ⟨f, rfl⟩ : ∃ f, fuel = f + 1 := ⟨fuel - 1, by omega⟩
    rw [resolutionAux, resCF, left?_nd, right?_nd]
    cases get t (nd (l + 1) q) with
    | none => simp only; rw [ih _ f (by omega), ih _ f (by omega)]
    | some n => cases n <;> rfl

theorem resolution_nd (t : Tree) (l q : Nat) : resolution t (nd l q) = resCF t l q := by
  unfold resolution
  rw [level_nd]
  exact resolutionAux_eq_resCF t l q _ (by omega)

theorem resolution_eq_resCF (t : Tree) (x : Nat) :
    resolution t x = resCF t (level x) (x / 2 ^ (level x + 1)) := by
  conv => lhs; rw [eq_nd x]
  exact resolution_nd t _ _

/-- node `r` lies in the subtree rooted at `x` (node-index range) -/
def inSub (r x : Nat) : Prop := x + 1 - 2 ^ level x ≤ r ∧ r + 1 ≤ x + 2 ^ level x

instance (r x : Nat) : Decidable (inSub r x) := by unfold inSub; infer_instance

theorem inSub_nd (r l q : Nat) :
    inSub r (nd l q) ↔ 2 ^ (l + 1) * q ≤ r ∧ r + 2 ≤ 2 ^ (l + 1) * q + 2 ^ (l + 1) := by
  unfold inSub
  rw [level_nd]
  unfold nd
  have := Nat.two_pow_pos l
  have := pow_succ' l
  omega

theorem inSub_self (x : Nat) : inSub x x := by
  unfold inSub
  have := two_pow_level_le x
  have := Nat.two_pow_pos (level x)
  omega

theorem inSub_left {r l q : Nat} (h : inSub r (nd l (2 * q))) : inSub r (nd (l + 1) q) := by
  rw [inSub_nd] at h ⊢
  have : 2 ^ (l + 1 + 1) * q = 2 ^ (l + 1) * (2 * q) := by rw [pow_succ' (l + 1)]; grind
  have := pow_succ' (l + 1)
  omega

theorem inSub_right {r l q : Nat} (h : inSub r (nd l (2 * q + 1))) : inSub r (nd (l + 1) q) := by
  rw [inSub_nd] at h ⊢
  have : 2 ^ (l + 1 + 1) * q = 2 ^ (l + 1) * (2 * q) := by rw [pow_succ' (l + 1)]; grind
  have : 2 ^ (l + 1) * (2 * q + 1) = 2 ^ (l + 1) * (2 * q) + 2 ^ (l + 1) := by grind
  have := pow_succ' (l + 1)
  omega

theorem inSub_left_right_disjoint {r l q : Nat} (h1 : inSub r (nd l (2 * q)))
    (h2 : inSub r (nd l (2 * q + 1))) : False := by
  rw [inSub_nd] at h1 h2
  have : 2 ^ (l + 1) * (2 * q + 1) = 2 ^ (l + 1) * (2 * q) + 2 ^ (l + 1) := by grind
  omega

/-- a leaf below `x` is a node of the subtree of `x` -/
theorem inSub_of_below {i x : Nat} (h : below i x) : inSub (2 * i) x := by
  rw [eq_nd x] at h ⊢
  generalize level x = l at *
  generalize x / 2 ^ (l + 1) = q at *
  rw [below_nd] at h
  rw [inSub_nd]
  subst h
  have hp := Nat.two_pow_pos l
  have := Nat.div_add_mod i (2 ^ l)
  have := Nat.mod_lt i hp
  have e : 2 ^ (l + 1) * (i / 2 ^ l) = 2 * (2 ^ l * (i / 2 ^ l)) := by rw [pow_succ']; grind
  have := pow_succ' l
  omega

theorem below_of_inSub {i x : Nat} (h : inSub (2 * i) x) : below i x := by
  rw [eq_nd x] at h ⊢
  generalize level x = l at *
  generalize x / 2 ^ (l + 1) = q at *
  rw [below_nd]
  rw [inSub_nd] at h
  have e : 2 ^ (l + 1) * q = 2 * (2 ^ l * q) := by rw [pow_succ']; grind
  have := pow_succ' l
  apply Nat.div_eq_of_lt_le
  · rw [Nat.mul_comm]; omega
  · rw [Nat.add_mul, Nat.mul_comm]; omega

theorem below_left {i l q : Nat} (h : below i (nd l (2 * q))) : below i (nd (l + 1) q) := by
  rw [below_nd] at h ⊢
  rw [pow_succ', Nat.mul_comm, ← Nat.div_div_eq_div_mul, h]; omega

theorem below_right {i l q : Nat} (h : below i (nd l (2 * q + 1))) : below i (nd (l + 1) q) := by
  rw [below_nd] at h ⊢
  rw [pow_succ', Nat.mul_comm, ← Nat.div_div_eq_div_mul, h]; omega

/-- every resolution element is the head of a non-blank node of the subtree or one of its unmerged
leaves -/
theorem mem_resCF {t : Tree} {l q r : Nat} (h : r ∈ resCF t l q) :
    ∃ x n, inSub x (nd l q) ∧ (∀ i, below i x → below i (nd l q)) ∧
      get t x = some n ∧ r ∈ resHead x n := by
  induction l generalizing q with
  | zero =>
    rw [resCF] at h
    cases hg : get t (nd 0 q) with
    | none => rw [hg] at h; simp at h
    | some n => rw [hg] at h; exact ⟨_, n, inSub_self _, fun _ h => h, hg, h⟩
  | succ l ih =>
    rw [resCF] at h
    cases hg : get t (nd (l + 1) q) with
    | some n => rw [hg] at h; exact ⟨_, n, inSub_self _, fun _ h => h, hg, h⟩
    | none =>
      rw [hg] at h
      simp only [List.mem_append] at h
      rcases h with h | h
      · obtain ⟨x, n, h1, hb, h2, h3⟩ := ih h
        exact ⟨x, n, inSub_left h1, fun i hi => below_left (hb i hi), h2, h3⟩
      · obtain ⟨x, n, h1, hb, h2, h3⟩ := ih h
        exact ⟨x, n, inSub_right h1, fun i hi => below_right (hb i hi), h2, h3⟩

theorem mem_resHead {x r : Nat} {n : Node} (h : r ∈ resHead x n) :
    r = x ∨ ∃ P i, n = .parent P ∧ i ∈ P.unmerged ∧ r = 2 * i := by
  cases n with
  | leaf L => left; simpa [resHead] using h
  | parent P =>
    simp only [resHead, List.mem_cons, List.mem_map] at h
    rcases h with h | ⟨i, hi, rfl⟩
    · left; exact h
    · right; exact ⟨P, i, rfl, hi, rfl⟩

/-- (8) resolution elements are non-blank and lie in the subtree -/
theorem resCF_sound {t : Tree} (hu : UnmergedInv t) {l q r : Nat} (h : r ∈ resCF t l q) :
    get t r ≠ none ∧ inSub r (nd l q) := by
  obtain ⟨x, n, h1, hb, h2, h3⟩ := mem_resCF h
  rcases mem_resHead h3 with rfl | ⟨P, i, rfl, hi, rfl⟩
  · exact ⟨by rw [h2]; simp, h1⟩
  · have hx := lt_of_get_some h2
    have := (hu x hx P (by rw [h2]; rfl)).2.1 i hi
    exact ⟨this.2, inSub_of_below (hb i this.1)⟩

theorem resolution_nonblank' {t : Tree} (hu : UnmergedInv t) {x r : Nat} (h : r ∈ resolution t x) :
    get t r ≠ none := by
  rw [resolution_eq_resCF] at h
  exact (resCF_sound hu h).1

theorem resolution_in_subtree' {t : Tree} (hu : UnmergedInv t) {x r : Nat}
    (h : r ∈ resolution t x) : inSub r x := by
  rw [resolution_eq_resCF] at h
  have := (resCF_sound hu h).2
  rw [← eq_nd] at this
  exact this

theorem resHead_nodup {t : Tree} (hs : PreShape t) (hu : UnmergedInv t) {x : Nat} {n : Node}
    (hg : get t x = some n) : (resHead x n).Nodup := by
  cases n with
  | leaf L => simp [resHead]
  | parent P =>
    have hx := lt_of_get_some hg
    have hP := hu x hx P (by rw [hg]; rfl)
    simp only [resHead, List.nodup_cons, List.mem_map, not_exists, not_and]
    constructor
    · intro i _ hi
      have := (hs.1 x hx).1 (by omega)
      rw [hg] at this
      simp at this
    · exact List.Pairwise.map _ (fun a b (h : a < b) => by omega) hP.1

theorem resCF_nodup {t : Tree} (hs : PreShape t) (hu : UnmergedInv t) (l q : Nat) :
    (resCF t l q).Nodup := by
  induction l generalizing q with
  | zero =>
    rw [resCF]
    cases hg : get t (nd 0 q) with
    | none => simp
    | some n => exact resHead_nodup hs hu hg
  | succ l ih =>
    rw [resCF]
    cases hg : get t (nd (l + 1) q) with
    | some n => exact resHead_nodup hs hu hg
    | none =>
      simp only
      rw [List.nodup_append]
      refine ⟨ih _, ih _, ?_⟩
      intro a ha b hb hab
      subst hab
      exact inSub_left_right_disjoint (resCF_sound hu ha).2 (resCF_sound hu hb).2

theorem resolution_nodup' {t : Tree} (hs : PreShape t) (hu : UnmergedInv t) (x : Nat) :
    (resolution t x).Nodup := by
  rw [resolution_eq_resCF]; exact resCF_nodup hs hu _ _

/-- the resolution is empty iff the whole subtree is blank -/
theorem resCF_eq_nil {t : Tree} {l q : Nat} :
    resCF t l q = [] ↔ ∀ x, inSub x (nd l q) → get t x = none := by
  induction l generalizing q with
  | zero =>
    rw [resCF]
    constructor
    · intro h x hx
      have : x = nd 0 q := by
        rw [inSub_nd] at hx; rw [nd_zero]; simp at hx; omega
      subst this
      cases hg : get t (nd 0 q) with
      | none => rfl
      | some n => rw [hg] at h; cases n <;> simp [resHead] at h
    · intro h
      rw [h _ (inSub_self _)]
  | succ l ih =>
    rw [resCF]
    constructor
    · intro h x hx
      cases hg : get t (nd (l + 1) q) with
      | some n => rw [hg] at h; cases n <;> simp [resHead] at h
      | none =>
        rw [hg] at h
        simp only [List.append_eq_nil_iff] at h
        rw [inSub_nd] at hx
        have e1 : 2 ^ (l + 1 + 1) * q = 2 ^ (l + 1) * (2 * q) := by rw [pow_succ' (l + 1)]; grind
        have e2 : 2 ^ (l + 1) * (2 * q + 1) = 2 ^ (l + 1) * (2 * q) + 2 ^ (l + 1) := by grind
        have e3 := pow_succ' (l + 1)
        by_cases hx1 : x + 2 ≤ 2 ^ (l + 1) * (2 * q) + 2 ^ (l + 1)
        · exact (ih.1 h.1) x (by rw [inSub_nd]; omega)
        · by_cases hx2 : x = nd (l + 1) q
          · rw [hx2]; exact hg
          · apply (ih.1 h.2) x
            rw [inSub_nd]
            unfold nd at hx2
            have := Nat.two_pow_pos l
            have := pow_succ' l
            omega
    · intro h
      rw [h _ (inSub_self _)]
      simp only [List.append_eq_nil_iff]
      exact ⟨ih.2 fun x hx => h x (inSub_left hx), ih.2 fun x hx => h x (inSub_right hx)⟩

theorem resolution_eq_nil {t : Tree} {x : Nat} :
    resolution t x = [] ↔ ∀ r, inSub r x → get t r = none := by
  rw [resolution_eq_resCF, resCF_eq_nil, ← eq_nd]

/-- the resolution depends only on the nodes of the subtree -/
theorem resCF_congr {t u : Tree} {l q : Nat} (h : ∀ x, inSub x (nd l q) → get t x = get u x) :
    resCF t l q = resCF u l q := by
  induction l generalizing q with
  | zero => rw [resCF, resCF, h _ (inSub_self _)]
  | succ l ih =>
    rw [resCF, resCF, h _ (inSub_self _), ih fun x hx => h x (inSub_left hx),
      ih fun x hx => h x (inSub_right hx)]

theorem resolution_congr {t u : Tree} {x : Nat} (h : ∀ r, inSub r x → get t r = get u r) :
    resolution t x = resolution u x := by
  rw [resolution_eq_resCF, resolution_eq_resCF]
  apply resCF_congr
  rw [← eq_nd]; exact h

end MlsVerif.Tree
