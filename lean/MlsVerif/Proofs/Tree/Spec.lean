import MlsVerif.Proofs.Tree.Resolution
/-
Interface predicates between the proofs about the public-tree operations (`batchEdit`, `encap`,
`applyUpdatePath`) and the proofs about the private state (`provisionalPriv`, `decap`,
`joinerPriv`): what an operation did to the tree, in terms of `get`.
-/
namespace MlsVerif.Tree
open MlsVerif.TreeMath

/-- `t'` is `t` after the path update of `sender`: new leaf, announced keys (with empty unmerged
lists) on the direct-path positions where `pathKeys` has a key, everything else untouched. -/
structure PathUpdated (t t' : Tree) (sender : Nat) (newLeaf : Leaf)
    (pathKeys : List (Option Nat)) : Prop where
  leafCount_eq : leafCount t' = leafCount t
  length_le : t.length ≤ t'.length
  leaf : get t' (2 * sender) = some (.leaf newLeaf)
  onPath : ∀ (j : Nat) (cp : Nat × Nat), (directCopathOf t sender)[j]? = some cp →
    get t' cp.1 = match pathKeys[j]? with
      | some (some k) => some (.parent { key := k, unmerged := [] })
      | _ => get t cp.1
  offPath : ∀ x, x ≠ 2 * sender → (∀ cp ∈ directCopathOf t sender, cp.1 ≠ x) → get t' x = get t x

/-- the announced path keys sit exactly on the unfiltered positions of the sender's direct path -/
def FilterOk (t : Tree) (sender : Nat) (pathKeys : List (Option Nat)) : Prop :=
  pathKeys.map Option.isNone = filtered t sender

instance (t : Tree) (s : Nat) (pk : List (Option Nat)) : Decidable (FilterOk t s pk) := by
  unfold FilterOk; infer_instance

/-- leaves touched by a commit's proposals -/
def Edits.touched (e : Edits) : List Nat := e.removes ++ e.updates.map (·.1)

/-- what `batchEdit t e = .ok (added, t')` did -/
structure EditSpec (t t' : Tree) (e : Edits) (added : List Nat) : Prop where
  /-- no parent key is created or changed; unmerged lists only gain the added leaves below -/
  parents : ∀ x P', get t' x = some (.parent P') →
    ∃ P, get t x = some (.parent P) ∧ P'.key = P.key ∧
      ∀ l, l ∈ P'.unmerged ↔ (l ∈ P.unmerged ∨ (l ∈ added ∧ below l x))
  /-- a surviving parent was not on the direct path of a removed / updated leaf -/
  touched_path_blank : ∀ r ∈ e.touched, ∀ x, x % 2 = 1 → below r x → get t' x = none
  leaves_kept : ∀ i, i ∉ e.touched → i ∉ added → get t' (2 * i) = get t (2 * i)
  removed_leaf : ∀ r ∈ e.removes, r ∉ added → get t' (2 * r) = none
  updated_leaf : ∀ u ∈ e.updates, get t' (2 * u.1) = some (.leaf u.2)
  added_length : added.length = e.adds.length
  added_leaf : ∀ (j i : Nat), added[j]? = some i → ∃ l, e.adds[j]? = some l ∧ get t' (2 * i) = some (.leaf l)
  /-- an added leaf is unmerged at each of its non-blank ancestors -/
  added_unmerged : ∀ i ∈ added, ∀ x P', get t' x = some (.parent P') → below i x → i ∈ P'.unmerged
  /-- added positions were blank (or beyond the end) after the removes -/
  added_fresh : ∀ i ∈ added, i ∈ e.removes ∨ get t (2 * i) = none

/-! ### (1) `trim` -/

theorem trim_no_trailing_blank (t : Tree) : NoTrail (trim t) := by
  unfold NoTrail trim
  rw [List.getLast?_reverse]
  intro h
  have := List.head?_dropWhile_not (fun x : Option Node => x.isNone) t.reverse
  rw [h] at this
  simp at this

theorem mem_takeWhile_true {α : Type} (p : α → Bool) (l : List α) (a : α)
    (h : a ∈ l.takeWhile p) : p a = true := by
  induction l with
  | nil => simp at h
  | cons x xs ih =>
    rw [List.takeWhile_cons] at h
    split at h
    · rcases List.mem_cons.mp h with rfl | h
      · assumption
      · exact ih h
    · simp at h

theorem trim_prefix (t : Tree) : ∃ n, t = trim t ++ List.replicate n none := by
  unfold trim
  have h := List.takeWhile_append_dropWhile (p := fun x : Option Node => x.isNone) (l := t.reverse)
  have h2 : t = (List.dropWhile (fun x => x.isNone) t.reverse).reverse ++
      (List.takeWhile (fun x : Option Node => x.isNone) t.reverse).reverse := by
    rw [← List.reverse_append, h, List.reverse_reverse]
  refine ⟨(List.takeWhile (fun x : Option Node => x.isNone) t.reverse).length, ?_⟩
  have h3 : (List.takeWhile (fun x : Option Node => x.isNone) t.reverse).reverse =
      List.replicate (List.takeWhile (fun x : Option Node => x.isNone) t.reverse).length none := by
    rw [List.eq_replicate_iff]
    refine ⟨by simp, ?_⟩
    intro b hb
    rw [List.mem_reverse] at hb
    have := mem_takeWhile_true _ _ _ hb
    simpa using this
  rw [← h3]
  exact h2

theorem get_trim (t : Tree) (i : Nat) : get (trim t) i = get t i := by
  obtain ⟨n, hn⟩ := trim_prefix t
  conv => rhs; rw [hn]
  rw [get_append_replicate]

theorem length_trim_le (t : Tree) : (trim t).length ≤ t.length := by
  obtain ⟨n, hn⟩ := trim_prefix t
  have := congrArg List.length hn
  simp at this
  omega

end MlsVerif.Tree
