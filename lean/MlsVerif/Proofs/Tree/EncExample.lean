import MlsVerif.Proofs.Tree.EncApply
/-
Non-vacuity: `encap` on a concrete 4-leaf tree (leaf 2 blank, so position 0 of leaf 3's path is
filtered; leaf 1 unmerged at node 1 and excluded from the seal).
-/
namespace MlsVerif.Tree
open MlsVerif.TreeMath

namespace Enc

def exTree : Tree :=
  [some (.leaf ⟨0, 10, 20⟩), some (.parent ⟨30, [1]⟩), some (.leaf ⟨1, 11, 21⟩),
   some (.parent ⟨31, []⟩),
   none, none, some (.leaf ⟨3, 13, 23⟩)]

def exLeaf : Leaf := ⟨3, 43, 23⟩

def exTree' : Tree :=
  [some (.leaf ⟨0, 10, 20⟩), some (.parent ⟨30, [1]⟩), some (.leaf ⟨1, 11, 21⟩),
   some (.parent ⟨100, []⟩),
   none, none, some (.leaf exLeaf)]

theorem ex_inv : PreShape exTree ∧ NoTrail exTree ∧ UnmergedInv exTree ∧ NonEmptyInv exTree ∧
    StampsBelow exTree 100 := by decide +kernel

theorem ex_path : directCopathOf exTree 3 = [(5, 4), (3, 1)] ∧ filtered exTree 3 = [true, false] := by
  decide +kernel

set_option synthInstance.maxSize 4096 in
theorem ex_eval :
    (encap exTree 3 exLeaf [1] 100).toOption.map (fun o => (o.tree, o.pathKeys, o.slots, o.seals)) =
      some (exTree', [none, some 100], [some 43, none, some 100], [(3, [1])]) := by
  decide +kernel

end Enc

/-- (H) `encap` succeeds on a concrete tree with one filtered position -/
theorem encap_example : ∃ o, encap Enc.exTree 3 Enc.exLeaf [1] 100 = .ok o ∧ o.tree = Enc.exTree' ∧
    o.pathKeys = [none, some 100] ∧ o.slots = [some 43, none, some 100] ∧ o.seals = [(3, [1])] ∧
    2 * 3 < Enc.exTree.length ∧
    applyUpdatePath Enc.exTree 3 Enc.exLeaf o.pathKeys = .ok Enc.exTree' := by
  have h := Enc.ex_eval
  cases he : encap Enc.exTree 3 Enc.exLeaf [1] 100 with
  | error e => rw [he] at h; simp [Except.toOption] at h
  | ok o =>
    rw [he] at h
    simp only [Except.toOption, Option.map_some, Option.some.injEq, Prod.mk.injEq] at h
    obtain ⟨h1, h2, h3, h4⟩ := h
    refine ⟨o, rfl, h1, h2, h3, h4, by decide, ?_⟩
    rw [← h1]
    exact encap_applyUpdatePath_agree ⟨⟨3, 13, 23⟩, by decide +kernel⟩ he

end MlsVerif.Tree
