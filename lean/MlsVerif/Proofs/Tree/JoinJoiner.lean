import MlsVerif.Proofs.Tree.JoinKeyInv
/-
(12) `joinerPriv` establishes `KeyInv` for a new member.
-/
namespace MlsVerif.Tree
open MlsVerif.TreeMath

namespace Join

/-- the keys `joinerPriv` computes when it has a path secret -/
def joinerKeys (t : Tree) (self leafKey lcaIndex : Nat) : List (Option Nat) :=
  ((some leafKey :: List.replicate (directCopathOf t self).length none).zipIdx).map fun (k, i) =>
    if i = 0 then k
    else if i - 1 < lcaIndex then none
    else if (filtered t self).getD (i - 1) true then none
    else (get t (((directCopathOf t self).getD (i - 1) (0, 0)).1)).map Node.key

theorem joinerPriv_eq (t : Tree) (self leafKey signer : Nat)
    (h : 2 ≤ leafLcaLevel (2 * self) (2 * signer)) :
    joinerPriv t self leafKey signer true =
      .ok { self := self, keys := joinerKeys t self leafKey (leafLcaLevel (2 * self) (2 * signer) - 2) } := by
  unfold joinerPriv joinerKeys
  have : ¬ leafLcaLevel (2 * self) (2 * signer) < 2 := by omega
  simp [this]
  rfl

theorem joinerKeys_zero (t : Tree) (self leafKey lca : Nat) :
    slotAt (joinerKeys t self leafKey lca) 0 = some leafKey := by
  unfold joinerKeys slotAt
  rw [List.getElem?_map, List.getElem?_zipIdx]
  simp

theorem joinerKeys_succ (t : Tree) (self leafKey lca j : Nat) :
    slotAt (joinerKeys t self leafKey lca) (j + 1) =
      if j < (directCopathOf t self).length then
        (if j < lca then none
         else if (filtered t self).getD j true then none
         else (get t (((directCopathOf t self).getD j (0, 0)).1)).map Node.key)
      else none := by
  unfold joinerKeys slotAt
  rw [List.getElem?_map, List.getElem?_zipIdx, List.getElem?_cons_succ, List.getElem?_replicate]
  by_cases h : j < (directCopathOf t self).length
  · simp only [h, if_true, Option.map_some, Option.join_some, Nat.zero_add,
      Nat.add_sub_cancel, Nat.add_one_ne_zero, if_false]
  · simp only [h, if_false, Option.map_none, Option.join_none]

end Join

theorem joiner_keyinv {t1 t' : Tree} {c self : Nat} {nl L : Leaf} {pk : List (Option Nat)}
    (hpu : PathUpdated t1 t' c nl pk) (hf : FilterOk t1 c pk)
    (hs : PreShape t1) (hn : NonEmptyInv t1) (hn' : NonEmptyInv t')
    (hne : self ≠ c) (hL : get t1 (2 * self) = some (.leaf L))
    (hLc : ∃ Lc, get t1 (2 * c) = some (.leaf Lc))
    (hunm : ∀ x P, get t1 x = some (.parent P) → below self x → self ∈ P.unmerged) :
    (∀ p, joinerPriv t' self L.hpke c true = .ok p → KeyInv t' p) ∧
    ∃ p, joinerPriv t' self L.hpke c true = .ok p := by
  have hLv := leafLcaLevel_double self c hne
  have hpos := leafLcaLevel_pos self c hne
  have hspec := leafLcaLevel_spec self c
  have heq := Join.joinerPriv_eq t' self L.hpke c (by omega)
  refine ⟨?_, _, heq⟩
  intro p hp
  rw [heq] at hp
  injection hp with hp
  subst hp
  rw [keyInv_iff]
  simp only
  rw [hLv]
  generalize leafLcaLevel self c = Lv at *
  obtain ⟨k, hk1, _, _⟩ := leafCount_spec t1
  have hk' : leafCount t' = 2 ^ k := by rw [hpu.leafCount_eq, hk1]
  have hself : self < 2 ^ k := leaf_lt_leafCount t1 k self hk1 (lt_of_get_some hL)
  obtain ⟨Lc, hLc⟩ := hLc
  have hc : c < 2 ^ k := leaf_lt_leafCount t1 k c hk1 (lt_of_get_some hLc)
  intro j
  cases j with
  | zero =>
    have hoff : get t' (2 * self) = get t1 (2 * self) := by
      apply hpu.offPath _ (by omega)
      intro cp hcp
      obtain ⟨_, j, _, rfl⟩ := mem_directCopathOf hk1 hcp
      have := pathEntry_fst_odd c j
      omega
    rw [Join.joinerKeys_zero, Join.expectedSlots_zero, Join.expNode_leaf (hoff.trans hL)]
  | succ j =>
    rw [Join.joinerKeys_succ, Join.expectedSlots_succ, directCopathOf_length t' k self hk',
      if_pos hself, directCopathOf_getElem? t' k self j hk']
    by_cases hj : j < k
    · have hcp : (directCopathOf t' self)[j]? = some (pathEntry self j) := by
        rw [directCopathOf_getElem? t' k self j hk', if_pos ⟨hself, hj⟩]
      rw [if_pos hj, if_pos (show self < 2 ^ k ∧ j < k from ⟨hself, hj⟩)]
      simp only
      rw [Join.getD_of_getElem? hcp]
      by_cases hlt : j < Lv + 1 - 2
      · rw [if_pos hlt]
        have hdiv : self / 2 ^ (j + 1) ≠ c / 2 ^ (j + 1) := hspec.2 (j + 1) (by omega)
        have hoff : get t' (pathEntry self j).1 = get t1 (pathEntry self j).1 := by
          apply hpu.offPath _ (by have := pathEntry_fst_odd self j; omega)
          intro cp hcp heq
          obtain ⟨_, j', _, rfl⟩ := mem_directCopathOf hk1 hcp
          have h1 := nd_inj heq
          have : j' = j := by omega
          subst this
          exact hdiv h1.2.symm
        cases hg : get t1 (pathEntry self j).1 with
        | none => rw [Join.expNode_blank (hoff.trans hg)]
        | some n =>
          cases n with
          | leaf L' =>
            exfalso
            have := (hs.1 _ (lt_of_get_some hg)).2 (pathEntry_fst_odd _ _)
            rw [hg] at this; simp at this
          | parent P =>
            rw [Join.expNode_parent (hoff.trans hg),
              if_pos (hunm _ _ hg (below_self_pathEntry _ _))]
      · rw [if_neg hlt]
        have hdiv : self / 2 ^ (j + 1) = c / 2 ^ (j + 1) :=
          div_pow_mono self c Lv (j + 1) (by omega) hspec.1
        have hx : (pathEntry self j).1 = (pathEntry c j).1 := (pathEntry_fst_eq_iff _ _ _).2 hdiv
        have hcpc : (directCopathOf t1 c)[j]? = some (pathEntry c j) := by
          rw [directCopathOf_getElem? t1 k c j hk1, if_pos ⟨hc, hj⟩]
        have hon := hpu.onPath j _ hcpc
        have hfj : (pk.map Option.isNone)[j]? = (filtered t1 c)[j]? := by
          unfold FilterOk at hf; rw [hf]
        rw [List.getElem?_map] at hfj
        cases hpkj : pk[j]? with
        | none =>
          rw [hpkj, filtered_getElem?, hcpc] at hfj
          simp at hfj
        | some o =>
          rw [hpkj] at hfj hon
          cases o with
          | none =>
            simp only [Option.map_some, Option.isNone_none] at hfj
            have hb := filtered_blank hs hn hcpc hfj.symm
            simp only at hon
            rw [hb] at hon
            rw [← hx] at hon
            rw [Join.expNode_blank hon, hon]
            split <;> rfl
          | some k' =>
            simp only at hon
            rw [← hx] at hon
            have hlt' := lt_of_get_some hon
            have hres : isResolutionEmpty t' (pathEntry self j).2 = false := by
              have hne2 : resolution t' (pathEntry self j).2 ≠ [] := by
                rcases pathEntry_children self j with ⟨h1, h2⟩ | ⟨h1, h2⟩
                · exact (hn' _ hlt' _ (by rw [hon]; rfl) _ h1 _ h2).2
                · exact (hn' _ hlt' _ (by rw [hon]; rfl) _ h1 _ h2).1
              unfold isResolutionEmpty
              cases hr : resolution t' (pathEntry self j).2 with
              | nil => exact absurd hr hne2
              | cons a as => rfl
            have hfs : (filtered t' self).getD j true = false := by
              apply Join.getD_of_getElem?
              rw [filtered_getElem?, hcp]
              simp [hres]
            rw [hfs, Join.expNode_parent hon, hon]
            simp [Node.key]
    · rw [if_neg hj, if_neg (show ¬ (self < 2 ^ k ∧ j < k) by omega)]

end MlsVerif.Tree
