import MlsVerif.Proofs.Tree.DecFacts
/-
`decap` preserves the key invariant.
-/
namespace MlsVerif.Tree
open MlsVerif.TreeMath
namespace Dec

theorem decap_ok {t : Tree} {p : Priv} {sender : Nat} {pk : List (Option Nat)} {added : List Nat}
    {d : DecapOut} (h : decap t p sender pk added = .ok d) :
    ∃ lcaNode resNode key0 key,
      2 ≤ leafLcaLevel (2 * p.self) (2 * sender) ∧
      findResolvedPos t p ((2 * p.self) :: (directCopathOf t p.self).map (·.1))
        (leafLcaLevel (2 * p.self) (2 * sender) - 2) = some d.slot ∧
      ((2 * p.self) :: (directCopathOf t p.self).map (·.1))[leafLcaLevel (2 * p.self) (2 * sender) - 2]?
        = some lcaNode ∧
      ((2 * p.self) :: (directCopathOf t p.self).map (·.1))[d.slot]? = some resNode ∧
      findCiphertextPos t lcaNode resNode added = some d.ctPos ∧
      pk[leafLcaLevel (2 * p.self) (2 * sender) - 2]? = some (some key0) ∧
      p.keys[d.slot]? = some (some key) ∧
      d.priv.self = p.self ∧
      d.priv.keys = newKeys p ((2 * p.self) :: (directCopathOf t p.self).map (·.1)).length
        (leafLcaLevel (2 * p.self) (2 * sender) - 2) pk := by
  rw [decap_eq] at h
  simp only at h
  split at h
  · cases h
  rename_i hlvl
  split at h
  · cases h
  rename_i slot hslot
  split at h
  · cases h
  rename_i lcaNode hlca
  split at h
  · cases h
  rename_i resNode hres
  split at h
  · cases h
  rename_i ctPos hct
  split at h
  · cases h
  · cases h
  rename_i key0 hk0
  split at h
  · rename_i key hkey
    cases h
    exact ⟨lcaNode, resNode, key0, key, by omega, hslot, hlca, hres, hct, hk0, hkey, rfl, rfl⟩
  · cases h


theorem keyInv_of_facts {t1 t' : Tree} {p : Priv} {s : Nat} {pk : List (Option Nat)} {k c : Nat}
    (F : Facts t1 t' p s pk k c) (q : Priv) (hself : q.self = p.self)
    (hkeys : q.keys = newKeys p (k + 1) c pk) : KeyInv t' q := by
  rw [keyInv_iff]; intro j
  rw [hkeys, hself, slotAt_newKeys, slotAt_expected t' k p.self j F.hk' F.ha]
  have hc := F.hc
  by_cases h1 : j ≤ c
  · rw [if_pos (by omega), if_neg (by omega), if_pos (by omega : j ≤ k), F.keys j,
      if_pos (by omega)]
    unfold expKey; rw [F.low j h1]
  · by_cases h2 : j ≤ k
    · obtain ⟨i, rfl⟩ : ∃ i, j = i + 1 := ⟨j - 1, by omega⟩
      rw [if_pos (by omega), if_pos ⟨by omega, by rw [F.pklen]; omega⟩, if_pos h2]
      simp only [Nat.add_sub_cancel]
      rw [List.getD_eq_getElem?_getD]
      have hh := F.high i (by omega) (by omega)
      unfold expKey
      cases hp : pk[i]? with
      | none =>
        exfalso
        rw [List.getElem?_eq_none_iff, F.pklen] at hp
        omega
      | some o =>
        cases o with
        | none =>
          rw [hp] at hh; simp only at hh
          rw [hh, F.pkNone i (by omega) (by omega) hp]; rfl
        | some key =>
          rw [hp] at hh; simp only at hh
          rw [hh]; simp
    · rw [if_neg h2]
      by_cases h3 : j < k + 1 + 1
      · rw [if_pos h3, if_neg (by rw [F.pklen]; omega), F.keys j, if_neg h2]
      · rw [if_neg h3]

end Dec

/-- (1) `decap` re-establishes the key invariant on the provisional tree. -/
theorem decap_keyinv {t1 t' : Tree} {sender : Nat} {nl : Leaf} {pk : List (Option Nat)} {p : Priv}
    {added : List Nat} {d : DecapOut}
    (hpu : PathUpdated t1 t' sender nl pk) (hf : FilterOk t1 sender pk)
    (hs : PreShape t1) (hn : NonEmptyInv t1)
    (hk : KeyInv t1 p) (hne : p.self ≠ sender)
    (hLself : ∃ L, get t1 (2 * p.self) = some (.leaf L))
    (hLsender : ∃ L, get t1 (2 * sender) = some (.leaf L))
    (h : decap t' p sender pk added = .ok d) :
    KeyInv t' d.priv ∧ d.priv.self = p.self := by
  obtain ⟨k, c, F⟩ := Dec.facts_of hpu hf hs hn hk hne hLself hLsender
  obtain ⟨_, _, _, _, _, _, _, _, _, _, _, hself, hkeys⟩ := Dec.decap_ok h
  rw [Dec.path_length t' k p.self F.hk' F.ha, F.hlvl, Nat.add_sub_cancel] at hkeys
  exact ⟨Dec.keyInv_of_facts F d.priv hself hkeys, hself⟩

end MlsVerif.Tree
