import MlsVerif.Proofs.Tree.Spec
/-
Facts about `directCopathOf t i` derived from the closed form `pathCF`.
-/
namespace MlsVerif.Tree
open MlsVerif.TreeMath

/-- entry `j` of the direct path / copath of leaf `i` -/
def pathEntry (i j : Nat) : Nat × Nat := (nd (j + 1) (i / 2 ^ (j + 1)), nd j (sib (i / 2 ^ j)))

theorem directCopathOf_getElem? (t : Tree) (k i j : Nat) (hk : leafCount t = 2 ^ k) :
    (directCopathOf t i)[j]? = if i < 2 ^ k ∧ j < k then some (pathEntry i j) else none := by
  rw [directCopathOf_cf t k i hk]
  split
  · rw [pathCF_getElem?]
    simp only [Nat.zero_add, pathEntry]
    split <;> simp [*]
  · simp [*]

theorem directCopathOf_length (t : Tree) (k i : Nat) (hk : leafCount t = 2 ^ k) :
    (directCopathOf t i).length = if i < 2 ^ k then k else 0 := by
  rw [directCopathOf_cf t k i hk]
  split
  · exact pathCF_length _ _ _
  · rfl

theorem mem_directCopathOf {t : Tree} {k i : Nat} {cp : Nat × Nat} (hk : leafCount t = 2 ^ k)
    (h : cp ∈ directCopathOf t i) : i < 2 ^ k ∧ ∃ j, j < k ∧ cp = pathEntry i j := by
  rw [directCopathOf_cf t k i hk] at h
  split at h
  · refine ⟨by assumption, ?_⟩
    obtain ⟨j, hj, rfl⟩ := mem_pathCF h
    exact ⟨j, hj, by simp [pathEntry]⟩
  · simp at h

theorem pathEntry_fst_odd (i j : Nat) : (pathEntry i j).1 % 2 = 1 := nd_succ_odd _ _

theorem pathEntry_fst_level (i j : Nat) : level (pathEntry i j).1 = j + 1 := level_nd _ _

theorem pathEntry_snd_level (i j : Nat) : level (pathEntry i j).2 = j := level_nd _ _

theorem pathEntry_fst_inj {i j j' : Nat} (h : (pathEntry i j).1 = (pathEntry i j').1) : j = j' := by
  have := (nd_inj h).1; omega

/-- leaf `i'` lies below the `j`-th direct-path node of leaf `i` iff they agree above bit `j` -/
theorem below_pathEntry_fst (i' i j : Nat) :
    below i' (pathEntry i j).1 ↔ i' / 2 ^ (j + 1) = i / 2 ^ (j + 1) := below_nd _ _ _

theorem below_pathEntry_snd (i' i j : Nat) :
    below i' (pathEntry i j).2 ↔ i' / 2 ^ j = sib (i / 2 ^ j) := below_nd _ _ _

theorem below_self_pathEntry (i j : Nat) : below i (pathEntry i j).1 :=
  (below_pathEntry_fst i i j).2 rfl

/-- the copath node is the other child of the path node -/
theorem pathEntry_children (i j : Nat) :
    (left? (pathEntry i j).1 = some (nd j (i / 2 ^ j)) ∧ right? (pathEntry i j).1 = some (pathEntry i j).2) ∨
    (left? (pathEntry i j).1 = some (pathEntry i j).2 ∧ right? (pathEntry i j).1 = some (nd j (i / 2 ^ j))) := by
  unfold pathEntry
  simp only
  rw [left?_nd, right?_nd]
  have e : i / 2 ^ (j + 1) = i / 2 ^ j / 2 := by
    rw [pow_succ', Nat.mul_comm, Nat.div_div_eq_div_mul]
  rw [e]
  unfold sib
  generalize i / 2 ^ j = q
  obtain ⟨m, rfl | rfl⟩ : ∃ m, q = 2 * m ∨ q = 2 * m + 1 := ⟨q / 2, by omega⟩
  · left
    have h1 : 2 * m / 2 = m := by omega
    have h2 : 2 * m % 2 = 0 := by omega
    rw [h1, if_pos h2]; exact ⟨rfl, rfl⟩
  · right
    have h1 : (2 * m + 1) / 2 = m := by omega
    have h2 : ¬ ((2 * m + 1) % 2 = 0) := by omega
    rw [h1, if_neg h2]; exact ⟨rfl, rfl⟩

/-- the path node one level below entry `j` on leaf `i`'s own side: the leaf for `j = 0`, entry
`j - 1` otherwise -/
theorem own_child_zero (i : Nat) : nd 0 (i / 2 ^ 0) = 2 * i := by simp [nd_zero]

theorem own_child_succ (i j : Nat) : nd (j + 1) (i / 2 ^ (j + 1)) = (pathEntry i j).1 := rfl

/-- in-tree bound for the path nodes -/
theorem pathEntry_lt (k i j : Nat) (hi : i < 2 ^ k) (hj : j < k) :
    (pathEntry i j).1 < 2 ^ (k + 1) - 1 ∧ (pathEntry i j).2 < 2 ^ (k + 1) - 1 := by
  have hq : ∀ m, m ≤ k → i / 2 ^ m < 2 ^ (k - m) := by
    intro m hm
    rw [Nat.div_lt_iff_lt_mul (Nat.two_pow_pos m), ← Nat.pow_add]
    rw [show k - m + m = k by omega]; exact hi
  constructor
  · exact nd_lt k (j + 1) _ (by omega) (hq _ (by omega))
  · apply nd_lt k j _ (by omega)
    have h1 := hq j (by omega)
    have h2 : 2 ^ (k - j) = 2 * 2 ^ (k - j - 1) := by
      rw [← pow_succ']; congr 1; omega
    rw [h2] at h1 ⊢
    revert h1
    generalize 2 ^ (k - j - 1) = B
    generalize i / 2 ^ j = q
    intro h1
    unfold sib
    split <;> omega

/-- two leaves share their direct-path node `j` iff they agree above bit `j` -/
theorem pathEntry_fst_eq_iff (i i' j : Nat) :
    (pathEntry i j).1 = (pathEntry i' j).1 ↔ i / 2 ^ (j + 1) = i' / 2 ^ (j + 1) := by
  constructor
  · intro h; exact (nd_inj h).2
  · intro h; unfold pathEntry; rw [h]

theorem tree_length_le (t : Tree) (k : Nat) (hk : leafCount t = 2 ^ k) :
    t.length ≤ 2 ^ (k + 1) - 1 := by
  obtain ⟨k', h1, h2, _⟩ := leafCount_spec t
  rw [hk] at h1
  rw [← h1] at h2
  rw [pow_succ']
  omega

/-- a leaf stored in the tree has its index below the leaf count -/
theorem leaf_lt_leafCount (t : Tree) (k i : Nat) (hk : leafCount t = 2 ^ k) (h : 2 * i < t.length) :
    i < 2 ^ k := by
  have := tree_length_le t k hk
  rw [pow_succ'] at this
  omega

theorem filtered_getElem? (t : Tree) (i j : Nat) :
    (filtered t i)[j]? = ((directCopathOf t i)[j]?).map fun cp => isResolutionEmpty t cp.2 := by
  unfold filtered; rw [List.getElem?_map]

/-- under `NonEmptyInv`, a filtered direct-path node (copath child with empty resolution) is blank -/
theorem filtered_blank {t : Tree} (hs : PreShape t) (hn : NonEmptyInv t) {i j : Nat} {cp : Nat × Nat}
    (hcp : (directCopathOf t i)[j]? = some cp) (hf : (filtered t i)[j]? = some true) :
    get t cp.1 = none := by
  rw [filtered_getElem?, hcp] at hf
  simp only [Option.map_some, Option.some.injEq, isResolutionEmpty, List.isEmpty_iff] at hf
  obtain ⟨k, hk, _, _⟩ := leafCount_spec t
  rw [directCopathOf_getElem? t k i j hk] at hcp
  split at hcp
  · simp only [Option.some.injEq] at hcp
    subst hcp
    cases hg : get t (pathEntry i j).1 with
    | none => rfl
    | some n =>
      exfalso
      have hlt := lt_of_get_some hg
      cases n with
      | leaf L =>
        have := (hs.1 _ hlt).2 (pathEntry_fst_odd i j)
        rw [hg] at this; simp at this
      | parent P =>
        rcases pathEntry_children i j with ⟨h1, h2⟩ | ⟨h1, h2⟩
        · exact (hn _ hlt P (by rw [hg]; rfl) _ h1 _ h2).2 hf
        · exact (hn _ hlt P (by rw [hg]; rfl) _ h1 _ h2).1 hf
  · simp at hcp

end MlsVerif.Tree
