import MlsVerif.Proofs.Tree.RmSpec
/-
Invariant preservation for the REMOVE and UPDATE phases of `batchEdit`.
-/
namespace MlsVerif.Tree
open MlsVerif.TreeMath

namespace Rm

/-! ### index facts -/

theorem below_even {i x : Nat} (hx : x % 2 = 0) (h : below i x) : x = 2 * i := by
  have hl : level x = 0 := (level_eq_zero_iff x).2 hx
  rw [below_iff, hl] at h
  simp at h
  omega

theorem odd_of_level_ne {p : Nat} (h : level p ≠ 0) : p % 2 = 1 := by
  rcases Nat.mod_two_eq_zero_or_one p with h0 | h1
  · exact absurd ((level_eq_zero_iff p).2 h0) h
  · exact h1

theorem inSub_zero {x q : Nat} (h : inSub x (nd 0 q)) : x = nd 0 q := by
  rw [inSub_nd] at h; rw [nd_zero]; simp at h; omega

theorem inSub_succ_cases {x l q : Nat} (hx : inSub x (nd (l + 1) q)) :
    x = nd (l + 1) q ∨ inSub x (nd l (2 * q)) ∨ inSub x (nd l (2 * q + 1)) := by
  rw [inSub_nd] at hx
  have e1 : 2 ^ (l + 1 + 1) * q = 2 ^ (l + 1) * (2 * q) := by rw [pow_succ' (l + 1)]; grind
  have e2 : 2 ^ (l + 1) * (2 * q + 1) = 2 ^ (l + 1) * (2 * q) + 2 ^ (l + 1) := by grind
  have e3 := pow_succ' (l + 1)
  by_cases hx1 : x + 2 ≤ 2 ^ (l + 1) * (2 * q) + 2 ^ (l + 1)
  · right; left; rw [inSub_nd]; omega
  · by_cases hx2 : x = nd (l + 1) q
    · left; exact hx2
    · right; right
      rw [inSub_nd]
      unfold nd at hx2
      have := Nat.two_pow_pos l
      have := pow_succ' l
      omega

theorem below_trans_nd {r x : Nat} (hb : below r x) :
    ∀ l q, inSub x (nd l q) → below r (nd l q)
  | 0, q, h => by rw [← inSub_zero h]; exact hb
  | l + 1, q, h => by
    rcases inSub_succ_cases h with rfl | h | h
    · exact hb
    · exact below_left (below_trans_nd hb l _ h)
    · exact below_right (below_trans_nd hb l _ h)

/-- a leaf below a node of the subtree of `p` is below `p` -/
theorem below_trans {r x p : Nat} (hb : below r x) (h : inSub x p) : below r p := by
  rw [eq_nd p] at h ⊢; exact below_trans_nd hb _ _ h

/-! ### generic preservation lemmas -/

/-- `t'` is `t` with some nodes blanked -/
def Sub (t' t : Tree) : Prop := t'.length = t.length ∧ ∀ x, get t' x = none ∨ get t' x = get t x

theorem preShape_of_sub {t t' : Tree} (hs : PreShape t) (h : Sub t' t) : PreShape t' := by
  obtain ⟨hl, hg⟩ := h
  refine ⟨?_, by rw [hl]; exact hs.2⟩
  intro i hi
  rw [hl] at hi
  rcases hg i with e | e <;> rw [e]
  · simp
  · exact hs.1 i hi

theorem uniq_of_sub {t t' : Tree} (hu : UniqInv t) (h : Sub t' t) : UniqInv t' := by
  obtain ⟨hl, hg⟩ := h
  constructor
  · intro i hi j hj hij hk
    rw [hl] at hi hj
    rcases hg i with e | e
    · exact e
    · rcases hg j with e' | e'
      · rw [e'] at hk
        cases hgi : get t' i with
        | none => rfl
        | some n => rw [hgi] at hk; simp at hk
      · rw [e, e'] at hk
        rw [e]; exact hu.1 i hi j hj hij hk
  · intro i hi j hj hij
    rw [hl] at hi hj
    rcases hg i with e | e
    · rw [e]; simp
    · rcases hg j with e' | e'
      · rw [e']
        simp only [leafOf?_none, Option.map_none]
        constructor <;> intro hk <;> exact Option.map_eq_none_iff.1 hk
      · rw [e, e']; exact hu.2 i hi j hj hij

theorem unmerged_keep {t t' : Tree} (hu : UnmergedInv t) (hl : t'.length = t.length)
    (hpar : ∀ p P, get t' p = some (.parent P) → get t p = some (.parent P))
    (hleaf : ∀ p P l, get t' p = some (.parent P) → l ∈ P.unmerged → get t' (2 * l) ≠ none) :
    UnmergedInv t' := by
  intro p hp P hP
  have hP' : get t' p = some (.parent P) := parentOf?_eq_some.1 (Option.mem_def.1 hP)
  have hPt := hpar p P hP'
  rw [hl] at hp
  obtain ⟨u1, u2, u3⟩ := hu p hp P (Option.mem_def.2 (parentOf?_eq_some.2 hPt))
  refine ⟨u1, ?_, ?_⟩
  · intro l hlm
    exact ⟨(u2 l hlm).1, hleaf p P l hP' hlm⟩
  · intro p' hp' P' hP'' hlv l hlm hb
    have hP3 : get t' p' = some (.parent P') := parentOf?_eq_some.1 (Option.mem_def.1 hP'')
    exact u3 p' (by omega) P' (Option.mem_def.2 (parentOf?_eq_some.2 (hpar p' P' hP3))) hlv l hlm hb

theorem nonEmpty_keep {t t' : Tree} {p : Nat} {P : Parent} (hn : NonEmptyInv t)
    (hPt : get t p = some (.parent P)) (hsame : ∀ x, inSub x p → get t' x = get t x) :
    ∀ l ∈ left? p, ∀ r ∈ right? p, resolution t' l ≠ [] ∧ resolution t' r ≠ [] := by
  intro l hl r hr
  have := hn p (lt_of_get_some hPt) P (Option.mem_def.2 (parentOf?_eq_some.2 hPt)) l hl r hr
  have hl' : left? p = some l := Option.mem_def.1 hl
  have hr' : right? p = some r := Option.mem_def.1 hr
  have hlev : level p ≠ 0 := by
    intro h0; simp [left?, h0] at hl'
  obtain ⟨lp, hlp⟩ : ∃ lp, level p = lp + 1 := ⟨level p - 1, by omega⟩
  obtain ⟨q, hq⟩ : ∃ q, p = nd (lp + 1) q := ⟨_, by have := eq_nd p; rw [hlp] at this; exact this⟩
  subst hq
  rw [left?_nd] at hl'
  rw [right?_nd] at hr'
  simp only [Option.some.injEq] at hl' hr'
  subst hl' hr'
  rw [resolution_congr (t := t') (u := t) (fun x hx => hsame x (inSub_left hx)),
    resolution_congr (t := t') (u := t) (fun x hx => hsame x (inSub_right hx))]
  exact this

theorem level_ne_of_left {p l : Nat} (hl : l ∈ left? p) : level p ≠ 0 := by
  have hl' : left? p = some l := Option.mem_def.1 hl
  intro h0; simp [left?, h0] at hl'

end Rm

/-! ### removes -/

theorem Rm.removes_sub {t t' : Tree} {rs : List Nat} (h : applyRemoves t rs = .ok t') :
    Rm.Sub t' t := by
  obtain ⟨hl, _, _, hg⟩ := applyRemoves_spec h
  refine ⟨hl, fun x => ?_⟩
  rw [hg]; split
  · left; rfl
  · right; rfl

theorem applyRemoves_preShape {t t' : Tree} {rs : List Nat} (hs : PreShape t)
    (h : applyRemoves t rs = .ok t') : PreShape t' :=
  Rm.preShape_of_sub hs (Rm.removes_sub h)

theorem applyRemoves_uniq {t t' : Tree} {rs : List Nat} (hu : UniqInv t)
    (h : applyRemoves t rs = .ok t') : UniqInv t' :=
  Rm.uniq_of_sub hu (Rm.removes_sub h)

theorem applyRemoves_unmerged {t t' : Tree} {rs : List Nat} (hu : UnmergedInv t)
    (h : applyRemoves t rs = .ok t') : UnmergedInv t' := by
  obtain ⟨hl, _, hlf, hg⟩ := applyRemoves_spec h
  have hpar : ∀ p P, get t' p = some (.parent P) → get t p = some (.parent P) := by
    intro p P hP
    rw [hg] at hP; split at hP
    · cases hP
    · exact hP
  apply Rm.unmerged_keep hu hl hpar
  intro p P l hP hlm
  have hPt := hpar p P hP
  have hnh : ¬ ∃ r ∈ rs, p = 2 * r ∨ (p % 2 = 1 ∧ below r p) := by
    intro hc; rw [hg, if_pos hc] at hP; cases hP
  obtain ⟨hb, hne⟩ := (hu p (lt_of_get_some hPt) P
    (Option.mem_def.2 (parentOf?_eq_some.2 hPt))).2.1 l hlm
  rw [hg, if_neg]
  · exact hne
  · rintro ⟨r, hr, hc | hc⟩
    · have : l = r := by omega
      subst this
      by_cases hpo : p % 2 = 1
      · exact hnh ⟨l, hr, Or.inr ⟨hpo, hb⟩⟩
      · have := Rm.below_even (by omega) hb
        obtain ⟨L, hL⟩ := hlf l hr
        rw [← this, hPt] at hL; cases hL
    · omega

theorem applyRemoves_nonEmpty {t t' : Tree} {rs : List Nat} (hn : NonEmptyInv t)
    (h : applyRemoves t rs = .ok t') : NonEmptyInv t' := by
  obtain ⟨hl, _, hlf, hg⟩ := applyRemoves_spec h
  intro p hp P hP l hl' r hr'
  have hP' : get t' p = some (.parent P) := parentOf?_eq_some.1 (Option.mem_def.1 hP)
  have hnh : ¬ ∃ r ∈ rs, p = 2 * r ∨ (p % 2 = 1 ∧ below r p) := by
    intro hc; rw [hg, if_pos hc] at hP'; cases hP'
  have hPt : get t p = some (.parent P) := by rw [hg, if_neg hnh] at hP'; exact hP'
  have hpo := Rm.odd_of_level_ne (Rm.level_ne_of_left hl')
  refine Rm.nonEmpty_keep hn hPt ?_ l hl' r hr'
  intro x hx
  rw [hg, if_neg]
  rintro ⟨r, hr, rfl | ⟨_, hbx⟩⟩
  · exact hnh ⟨r, hr, Or.inr ⟨hpo, below_of_inSub hx⟩⟩
  · exact hnh ⟨r, hr, Or.inr ⟨hpo, Rm.below_trans hbx hx⟩⟩

/-! ### updates -/

namespace Rm

/-- every node after `applyUpdates` is a new leaf at an updated slot, or blank / unchanged -/
theorem updates_cases {t t' : Tree} {us : List (Nat × Leaf)} (h : applyUpdates t us = .ok t')
    (x : Nat) :
    (∃ u ∈ us, x = 2 * u.1 ∧ get t' x = some (.leaf u.2)) ∨
    ((∀ u ∈ us, x ≠ 2 * u.1) ∧
      get t' x = if (∃ u ∈ us, x % 2 = 1 ∧ below u.1 x) then none else get t x) := by
  obtain ⟨_, _, _, hnew, hg⟩ := applyUpdates_spec h
  by_cases hc : ∃ u ∈ us, x = 2 * u.1
  · obtain ⟨u, hu, rfl⟩ := hc
    exact Or.inl ⟨u, hu, rfl, hnew u hu⟩
  · have : ∀ u ∈ us, x ≠ 2 * u.1 := fun u hu e => hc ⟨u, hu, e⟩
    exact Or.inr ⟨this, hg x this⟩

theorem updates_parent {t t' : Tree} {us : List (Nat × Leaf)} (h : applyUpdates t us = .ok t')
    {p : Nat} {P : Parent} (hP : get t' p = some (.parent P)) :
    (∀ u ∈ us, p ≠ 2 * u.1) ∧ (¬ ∃ u ∈ us, p % 2 = 1 ∧ below u.1 p) ∧
      get t p = some (.parent P) := by
  rcases updates_cases h p with ⟨u, _, _, e⟩ | ⟨h1, e⟩
  · rw [e] at hP; cases hP
  · rw [e] at hP
    split at hP
    · cases hP
    · exact ⟨h1, by assumption, hP⟩

end Rm

theorem applyUpdates_preShape {t t' : Tree} {us : List (Nat × Leaf)} (hs : PreShape t)
    (h : applyUpdates t us = .ok t') : PreShape t' := by
  have hl := (applyUpdates_spec h).1
  refine ⟨?_, by rw [hl]; exact hs.2⟩
  intro i hi
  rw [hl] at hi
  rcases Rm.updates_cases h i with ⟨u, _, rfl, e⟩ | ⟨_, e⟩
  · rw [e]
    exact ⟨fun _ => rfl, fun hc => by omega⟩
  · rw [e]; split
    · simp
    · exact hs.1 i hi

theorem applyUpdates_unmerged {t t' : Tree} {us : List (Nat × Leaf)} (hu : UnmergedInv t)
    (h : applyUpdates t us = .ok t') : UnmergedInv t' := by
  have hl := (applyUpdates_spec h).1
  apply Rm.unmerged_keep hu hl (fun p P hP => (Rm.updates_parent h hP).2.2)
  intro p P l hP hlm
  have hPt := (Rm.updates_parent h hP).2.2
  obtain ⟨_, hne⟩ := (hu p (lt_of_get_some hPt) P
    (Option.mem_def.2 (parentOf?_eq_some.2 hPt))).2.1 l hlm
  rcases Rm.updates_cases h (2 * l) with ⟨u, _, _, e⟩ | ⟨_, e⟩
  · rw [e]; simp
  · rw [e, if_neg]
    · exact hne
    · rintro ⟨u, _, hc, _⟩; omega

theorem applyUpdates_nonEmpty {t t' : Tree} {us : List (Nat × Leaf)} (hn : NonEmptyInv t)
    (h : applyUpdates t us = .ok t') : NonEmptyInv t' := by
  intro p hp P hP l hl' r hr'
  have hP' : get t' p = some (.parent P) := parentOf?_eq_some.1 (Option.mem_def.1 hP)
  obtain ⟨_, hnh, hPt⟩ := Rm.updates_parent h hP'
  have hpo := Rm.odd_of_level_ne (Rm.level_ne_of_left hl')
  refine Rm.nonEmpty_keep hn hPt ?_ l hl' r hr'
  intro x hx
  rcases Rm.updates_cases h x with ⟨u, hu, rfl, _⟩ | ⟨_, e⟩
  · exact absurd ⟨u, hu, hpo, below_of_inSub hx⟩ hnh
  · rw [e, if_neg]
    rintro ⟨u, hu, _, hbx⟩
    exact hnh ⟨u, hu, hpo, Rm.below_trans hbx hx⟩

/-! ### uniqueness through the update phase -/

namespace Rm

theorem mem_leaves {t : Tree} {m : Leaf} : m ∈ leaves t ↔ ∃ i, get t i = some (.leaf m) := by
  unfold leaves
  rw [List.mem_filterMap]
  constructor
  · rintro ⟨a, ha, hk⟩
    obtain ⟨i, hi, rfl⟩ := List.getElem_of_mem ha
    refine ⟨i, ?_⟩
    rw [get_of_lt hi]
    split at hk
    · rename_i l' hl'
      simp only [Option.some.injEq] at hk
      rw [hl', hk]
    · cases hk
  · rintro ⟨i, hg⟩
    have hi := lt_of_get_some hg
    rw [get_of_lt hi] at hg
    exact ⟨t[i], List.getElem_mem hi, by rw [hg]⟩

end Rm

/-- `conflicts t l = false`: no leaf stored in `t` shares identity, HPKE key or signature key
with `l` -/
theorem conflicts_false_iff {t : Tree} {l : Leaf} :
    conflicts t l = false ↔
      ∀ i m, get t i = some (.leaf m) → m.ident ≠ l.ident ∧ m.hpke ≠ l.hpke ∧ m.sig ≠ l.sig := by
  unfold conflicts
  rw [List.any_eq_false]
  constructor
  · intro h i m hg
    have := h m (Rm.mem_leaves.2 ⟨i, hg⟩)
    simpa [not_or, and_assoc] using this
  · intro h m hm
    obtain ⟨i, hg⟩ := Rm.mem_leaves.1 hm
    have := h i m hg
    simpa [not_or, and_assoc] using this

namespace Rm

/-- pairwise distinctness of the leaves' three stamps -/
def LeafUniq (t : Tree) : Prop :=
  ∀ i j Li Lj, i ≠ j → get t i = some (.leaf Li) → get t j = some (.leaf Lj) →
    Li.ident ≠ Lj.ident ∧ Li.hpke ≠ Lj.hpke ∧ Li.sig ≠ Lj.sig

theorem leafUniq_of_uniq {t : Tree} (hu : UniqInv t) : LeafUniq t := by
  intro i j Li Lj hij hi hj
  have hli := lt_of_get_some hi
  have hlj := lt_of_get_some hj
  have h1 := hu.1 i hli j hlj hij
  have h2 := hu.2 i hli j hlj hij
  rw [hi, hj] at h1 h2
  simp [Node.key] at h1 h2
  exact ⟨h2.1, h1, h2.2⟩

theorem leafUniq_set {t : Tree} {l : Leaf} (k : Nat) (hu : LeafUniq t)
    (hc : ∀ i m, get t i = some (.leaf m) → m.ident ≠ l.ident ∧ m.hpke ≠ l.hpke ∧ m.sig ≠ l.sig) :
    LeafUniq (set t k (some (.leaf l))) := by
  intro i j Li Lj hij hi hj
  rw [get_set] at hi hj
  split at hi <;> split at hj
  · omega
  · simp only [Option.some.injEq, Node.leaf.injEq] at hi
    subst hi
    have := hc j Lj hj
    exact ⟨fun e => this.1 e.symm, fun e => this.2.1 e.symm, fun e => this.2.2 e.symm⟩
  · simp only [Option.some.injEq, Node.leaf.injEq] at hj
    subst hj
    exact hc i Li hi
  · exact hu i j Li Lj hij hi hj

theorem putIn_leafUniq {t t2 : Tree} {us : List (Nat × Leaf)}
    (hin : ∀ u ∈ us, 2 * u.1 < t.length) (hu : LeafUniq t) (h : putIn t us = .ok t2) :
    LeafUniq t2 := by
  induction us generalizing t with
  | nil =>
    simp only [putIn, Except.ok.injEq] at h
    subst h; exact hu
  | cons u us ih =>
    rw [putIn] at h
    split at h
    · cases h
    · rename_i hc
      have hr := hin u List.mem_cons_self
      rw [insertLeaf_in _ hr] at h
      refine ih (fun u' hu' => ?_) (leafUniq_set _ hu (conflicts_false_iff.1 (by simpa using hc))) h
      rw [length_set]; exact hin u' (List.mem_cons_of_mem _ hu')

theorem takeOut_sub {t t1 : Tree} {us : List (Nat × Leaf)} (h : takeOut t us = .ok t1) :
    Sub t1 t := by
  obtain ⟨hl, _, _, hg⟩ := takeOut_spec h
  refine ⟨hl, fun x => ?_⟩
  rw [hg]; split
  · left; rfl
  · right; rfl

end Rm

theorem applyUpdates_uniq {t t' : Tree} {us : List (Nat × Leaf)} (hu : UniqInv t) (_hs : PreShape t)
    (hfresh : ∀ u ∈ us, ∀ x P, get t x = some (.parent P) → P.key ≠ u.2.hpke)
    (h : applyUpdates t us = .ok t') : UniqInv t' := by
  obtain ⟨t1, t2, e1, e2, rfl⟩ := Rm.applyUpdates_ok h
  obtain ⟨a1, a2, a3, a4⟩ := Rm.takeOut_spec e1
  have hin1 : ∀ u ∈ us, 2 * u.1 < t1.length := by
    intro u hu
    obtain ⟨L, hL⟩ := a3 u hu
    rw [a1]; exact lt_of_get_some hL
  obtain ⟨b1, b2, b3⟩ := Rm.putIn_spec hin1 a2 e2
  have hLU : Rm.LeafUniq t2 :=
    Rm.putIn_leafUniq hin1 (Rm.leafUniq_of_uniq (Rm.uniq_of_sub hu (Rm.takeOut_sub e1))) e2
  -- every node of `t2` is a new leaf or a node of `t`
  have hcase : ∀ x, (∃ u ∈ us, get t2 x = some (.leaf u.2)) ∨ get t2 x = get t x := by
    intro x
    by_cases hc : ∃ u ∈ us, x = 2 * u.1
    · obtain ⟨u, hu, rfl⟩ := hc
      exact Or.inl ⟨u, hu, b2 u hu⟩
    · right
      rw [b3 x (fun u hu e => hc ⟨u, hu, e⟩), a4, if_neg hc]
  have hlen : t2.length = t.length := by rw [b1, a1]
  have hpar : ∀ x P, get t2 x = some (.parent P) → get t x = some (.parent P) := by
    intro x P hP
    rcases hcase x with ⟨u, _, e⟩ | e
    · rw [e] at hP; cases hP
    · rw [← e]; exact hP
  have hlp : ∀ i j Li Pj, i ≠ j → get t2 i = some (.leaf Li) → get t2 j = some (.parent Pj) →
      Li.hpke ≠ Pj.key := by
    intro i j Li Pj hij hi hj hk
    have hjt := hpar j Pj hj
    rcases hcase i with ⟨u, hu, e⟩ | e
    · rw [e] at hi
      simp only [Option.some.injEq, Node.leaf.injEq] at hi
      subst hi
      exact hfresh u hu j Pj hjt hk.symm
    · rw [e] at hi
      have := hu.1 i (lt_of_get_some hi) j (lt_of_get_some hjt) hij (by
        rw [hi, hjt]; simp [Node.key, hk])
      rw [hi] at this; cases this
  have hU2 : UniqInv t2 := by
    constructor
    · intro i hi j hj hij hk
      cases hgi : get t2 i with
      | none => rfl
      | some ni =>
        exfalso
        cases hgj : get t2 j with
        | none => rw [hgi, hgj] at hk; simp at hk
        | some nj =>
          rw [hgi, hgj] at hk
          simp only [Option.map_some, Option.some.injEq] at hk
          cases ni with
          | leaf Li =>
            cases nj with
            | leaf Lj => exact (hLU i j Li Lj hij hgi hgj).2.1 hk
            | parent Pj => exact hlp i j Li Pj hij hgi hgj hk
          | parent Pi =>
            cases nj with
            | leaf Lj => exact hlp j i Lj Pi (Ne.symm hij) hgj hgi hk.symm
            | parent Pj =>
              have hit := hpar i Pi hgi
              have hjt := hpar j Pj hgj
              have := hu.1 i (lt_of_get_some hit) j (lt_of_get_some hjt) hij (by
                rw [hit, hjt]; simp [hk])
              rw [hit] at this; cases this
    · intro i hi j hj hij
      cases hgi : get t2 i with
      | none => simp
      | some ni =>
        cases ni with
        | parent Pi => simp
        | leaf Li =>
          cases hgj : get t2 j with
          | none => simp
          | some nj =>
            cases nj with
            | parent Pj => simp
            | leaf Lj =>
              have := hLU i j Li Lj hij hgi hgj
              simp only [leafOf?_leaf, Option.map_some, Option.some.injEq]
              exact ⟨fun e => absurd e this.1, fun e => absurd e this.2.2⟩
  apply Rm.uniq_of_sub hU2
  obtain ⟨c1, c2⟩ := Rm.blankPaths_spec (t := t2) (us := us) (by rw [b1]; exact hin1)
  refine ⟨c1, fun x => ?_⟩
  rw [c2]; split
  · left; rfl
  · right; rfl

end MlsVerif.Tree
