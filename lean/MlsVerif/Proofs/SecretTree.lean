import MlsVerif.Model.SecretTree
import MlsVerif.Spec.KeySchedule
import MlsVerif.Proofs.TreeMath
/-
Helper definitions and lemmas for `Props/C13.lean` (secret tree = RFC 9420 §9) and
`Props/C05.lean` (single use of message keys, replay rejection, reordering window).  Core Lean only.

§0 request sequences (used in the statements) · §1 association-list maps · §2 ratchet invariant ·
§3 node secrets of the spec · §4 the tree invariant for key correctness ·
§5 availability of ratchet generations · §6 the frontier invariant · §7 injectivity ·
§8 toy primitives for the examples
-/
namespace MlsVerif.ST
open MlsVerif.KS MlsVerif.KSSpec MlsVerif.TreeMath MlsVerif.TreeShape

variable {B : Type}

deriving instance DecidableEq for MsgKey
deriving instance DecidableEq for Ratchet
deriving instance DecidableEq for Node
deriving instance DecidableEq for SecretTree
deriving instance DecidableEq for Except

/-! ### §0 request sequences -/

/-- a request to a ratchet: `get_message_key(g)` or `next_message_key()` -/
inductive RReq
  | get (g : Nat)
  | next
  deriving DecidableEq, Repr

def Ratchet.step (P : Prim B) (r : Ratchet B) : RReq → Except Err (MsgKey B) × Ratchet B
  | .get g => r.get P g
  | .next => (.ok (r.next P).1, (r.next P).2)

/-- run a request sequence; returns every request with its result, and the final ratchet -/
def Ratchet.run (P : Prim B) : Ratchet B → List RReq →
    List (RReq × Except Err (MsgKey B)) × Ratchet B
  | r, [] => ([], r)
  | r, q :: qs =>
    let (res, r') := r.step P q
    let (tr, r'') := Ratchet.run P r' qs
    ((q, res) :: tr, r'')

/-- generations handed out (successful requests), in request order -/
def okGens : List (RReq × Except Err (MsgKey B)) → List Nat
  | [] => []
  | (_, .ok k) :: tr => k.generation :: okGens tr
  | (_, .error _) :: tr => okGens tr

/-- a request to the secret tree, for an arbitrary node index -/
inductive Req
  | next (idx : Nat) (kt : KeyType)
  | get (idx : Nat) (kt : KeyType) (g : Nat)
  deriving DecidableEq, Repr

def Req.idx : Req → Nat
  | .next i _ => i
  | .get i _ _ => i

def Req.kt : Req → KeyType
  | .next _ kt => kt
  | .get _ kt _ => kt

def SecretTree.step (P : Prim B) (t : SecretTree B) : Req → Except Err (MsgKey B) × SecretTree B
  | .next i kt => t.nextMessageKey P i kt
  | .get i kt g => t.messageKeyGeneration P i kt g

def SecretTree.run (P : Prim B) : SecretTree B → List Req →
    List (Req × Except Err (MsgKey B)) × SecretTree B
  | t, [] => ([], t)
  | t, q :: qs =>
    let (res, t') := t.step P q
    let (tr, t'') := SecretTree.run P t' qs
    ((q, res) :: tr, t'')

/-! ### §1 association-list maps -/

section Maps
variable {V : Type}

def hasKey (m : List (Nat × V)) (k : Nat) : Prop := ∃ v, (k, v) ∈ m

theorem mem_mapRemove (m : List (Nat × V)) (k : Nat) (e : Nat × V) :
    e ∈ (mapRemove m k).2 ↔ e ∈ m ∧ e.1 ≠ k := by
  simp [mapRemove, List.mem_filter]

theorem mem_mapInsert (m : List (Nat × V)) (k : Nat) (v : V) (e : Nat × V) :
    e ∈ mapInsert m k v ↔ e = (k, v) ∨ (e ∈ m ∧ e.1 ≠ k) := by
  simp [mapInsert, List.mem_filter]

theorem mapRemove_some (m : List (Nat × V)) (k : Nat) (v : V) (h : (mapRemove m k).1 = some v) :
    (k, v) ∈ m := by
  simp only [mapRemove, Option.map_eq_some_iff] at h
  obtain ⟨e, he, rfl⟩ := h
  have h1 := List.mem_of_find?_eq_some he
  have h2 := List.find?_some he
  simp only [beq_iff_eq] at h2
  obtain ⟨a, b⟩ := e
  simp only at h2
  subst h2
  exact h1

theorem mapRemove_none (m : List (Nat × V)) (k : Nat) (h : (mapRemove m k).1 = none) :
    ¬ hasKey m k := by
  simp only [mapRemove, Option.map_eq_none_iff, List.find?_eq_none] at h
  rintro ⟨v, hv⟩
  have := h _ hv
  simp at this

theorem mapRemove_snd_of_not_hasKey (m : List (Nat × V)) (k : Nat) (h : ¬ hasKey m k) :
    (mapRemove m k).2 = m := by
  simp only [mapRemove]
  apply List.filter_eq_self.2
  intro e he
  obtain ⟨a, b⟩ := e
  simp only [Bool.not_eq_eq_eq_not, Bool.not_true, beq_eq_false_iff_ne, ne_eq]
  intro hk
  subst hk
  exact h ⟨b, he⟩

theorem mapGet_eq_mapRemove (m : List (Nat × V)) (k : Nat) : mapGet m k = (mapRemove m k).1 := rfl

theorem mapRemove_isSome_iff (m : List (Nat × V)) (k : Nat) :
    (mapRemove m k).1.isSome ↔ hasKey m k := by
  constructor
  · intro h
    cases hv : (mapRemove m k).1 with
    | none => rw [hv] at h; cases h
    | some v => exact ⟨v, mapRemove_some m k v hv⟩
  · intro h
    cases hv : (mapRemove m k).1 with
    | none => exact absurd h (mapRemove_none m k hv)
    | some v => rfl

theorem hasKey_mapRemove (m : List (Nat × V)) (k g : Nat) :
    hasKey (mapRemove m k).2 g ↔ hasKey m g ∧ g ≠ k := by
  simp only [hasKey, mem_mapRemove]
  constructor
  · rintro ⟨v, h1, h2⟩; exact ⟨⟨v, h1⟩, h2⟩
  · rintro ⟨⟨v, h1⟩, h2⟩; exact ⟨v, h1, h2⟩

theorem hasKey_mapInsert (m : List (Nat × V)) (k : Nat) (v : V) (g : Nat) :
    hasKey (mapInsert m k v) g ↔ g = k ∨ hasKey m g := by
  simp only [hasKey, mem_mapInsert]
  constructor
  · rintro ⟨w, h | ⟨h1, _⟩⟩
    · left; exact (Prod.mk.inj h).1
    · right; exact ⟨w, h1⟩
  · rintro (h | ⟨w, h⟩)
    · subst h; exact ⟨v, Or.inl rfl⟩
    · by_cases hg : g = k
      · subst hg; exact ⟨v, Or.inl rfl⟩
      · exact ⟨w, Or.inr ⟨h, hg⟩⟩

end Maps

/-! ### §2 the ratchet invariant

`RInv P s0 r`: `r.secret` is `ratchet_secret_[generation]` of the ratchet that starts at `s0`, and
every remembered (skipped) key `(g, k)` has `g < generation` and is the RFC key of generation `g`. -/

def RInv (P : Prim B) (s0 : B) (r : Ratchet B) : Prop :=
  r.secret = ratchetSecretAt P s0 r.generation ∧
  ∀ e ∈ r.history, e.1 < r.generation ∧ e.2 = specRatchetKey P s0 e.1

/-- the part of the invariant that does not mention key material -/
def HInv (r : Ratchet B) : Prop := ∀ e ∈ r.history, e.1 < r.generation ∧ e.2.generation = e.1

theorem RInv.hinv {P : Prim B} {s0 : B} {r : Ratchet B} (h : RInv P s0 r) : HInv r :=
  fun e he => ⟨(h.2 e he).1, by rw [(h.2 e he).2]; rfl⟩

theorem RInv_new (P : Prim B) (s : B) (kt : KeyType) :
    RInv P (ratchetSecret0 P s kt) (Ratchet.new P s kt) := by
  constructor
  · cases kt <;> rfl
  · intro e he; cases he

theorem next_fst (P : Prim B) (s0 : B) (r : Ratchet B) (h : RInv P s0 r) :
    (r.next P).1 = specRatchetKey P s0 r.generation := by
  simp only [Ratchet.next, Ratchet.derive, specRatchetKey, ratchetNonceAt, ratchetKeyAt, h.1]
  rfl

theorem next_gen (P : Prim B) (r : Ratchet B) : (r.next P).2.generation = r.generation + 1 := rfl
theorem next_hist (P : Prim B) (r : Ratchet B) : (r.next P).2.history = r.history := rfl
theorem next_fst_gen (P : Prim B) (r : Ratchet B) : (r.next P).1.generation = r.generation := rfl

theorem next_RInv (P : Prim B) (s0 : B) (r : Ratchet B) (h : RInv P s0 r) :
    RInv P s0 (r.next P).2 := by
  constructor
  · simp only [Ratchet.next, Ratchet.derive, h.1]; rfl
  · intro e he
    have := h.2 e he
    exact ⟨Nat.lt_succ_of_lt this.1, this.2⟩

theorem next_HInv (P : Prim B) (r : Ratchet B) (h : HInv r) : HInv (r.next P).2 :=
  fun e he => ⟨Nat.lt_succ_of_lt (h e he).1, (h e he).2⟩

/-- one iteration of the skip loop -/
def Ratchet.skip1 (P : Prim B) (r : Ratchet B) : Ratchet B :=
  { (r.next P).2 with history := mapInsert (r.next P).2.history (r.next P).1.generation (r.next P).1 }

theorem skip_succ (P : Prim B) (n : Nat) (r : Ratchet B) :
    Ratchet.skip P (n + 1) r = Ratchet.skip P n (r.skip1 P) := rfl

theorem skip1_gen (P : Prim B) (r : Ratchet B) : (r.skip1 P).generation = r.generation + 1 := rfl

theorem skip1_RInv (P : Prim B) (s0 : B) (r : Ratchet B) (h : RInv P s0 r) :
    RInv P s0 (r.skip1 P) := by
  constructor
  · exact (next_RInv P s0 r h).1
  · intro e he
    simp only [Ratchet.skip1, mem_mapInsert] at he
    rcases he with he | ⟨he, _⟩
    · subst he
      simp only [skip1_gen]
      exact ⟨Nat.lt_succ_self _, next_fst P s0 r h⟩
    · have := h.2 e he
      exact ⟨Nat.lt_succ_of_lt this.1, this.2⟩

theorem skip1_HInv (P : Prim B) (r : Ratchet B) (h : HInv r) : HInv (r.skip1 P) := by
  intro e he
  simp only [Ratchet.skip1, mem_mapInsert] at he
  rcases he with he | ⟨he, _⟩
  · subst he; exact ⟨Nat.lt_succ_self _, rfl⟩
  · exact ⟨Nat.lt_succ_of_lt (h e he).1, (h e he).2⟩

theorem skip1_hasKey (P : Prim B) (r : Ratchet B) (g : Nat) :
    hasKey (r.skip1 P).history g ↔ g = r.generation ∨ hasKey r.history g := by
  simp only [Ratchet.skip1, hasKey_mapInsert]; rfl

theorem skip_gen (P : Prim B) (n : Nat) (r : Ratchet B) :
    (Ratchet.skip P n r).generation = r.generation + n := by
  induction n generalizing r with
  | zero => rfl
  | succ n ih => rw [skip_succ, ih, skip1_gen]; omega

theorem skip_RInv (P : Prim B) (s0 : B) (n : Nat) (r : Ratchet B) (h : RInv P s0 r) :
    RInv P s0 (Ratchet.skip P n r) := by
  induction n generalizing r with
  | zero => exact h
  | succ n ih => rw [skip_succ]; exact ih _ (skip1_RInv P s0 r h)

theorem skip_HInv (P : Prim B) (n : Nat) (r : Ratchet B) (h : HInv r) :
    HInv (Ratchet.skip P n r) := by
  induction n generalizing r with
  | zero => exact h
  | succ n ih => rw [skip_succ]; exact ih _ (skip1_HInv P r h)

theorem skip_hasKey (P : Prim B) (n : Nat) (r : Ratchet B) (g : Nat) :
    hasKey (Ratchet.skip P n r).history g ↔
      hasKey r.history g ∨ (r.generation ≤ g ∧ g < r.generation + n) := by
  induction n generalizing r with
  | zero => simp only [Ratchet.skip]; constructor
            · exact Or.inl
            · rintro (h | h)
              · exact h
              · omega
  | succ n ih =>
    rw [skip_succ, ih, skip1_hasKey, skip1_gen]
    constructor
    · rintro ((h | h) | h)
      · right; omega
      · left; exact h
      · right; omega
    · rintro (h | h)
      · left; right; exact h
      · by_cases hg : g = r.generation
        · left; left; exact hg
        · right; omega

/-- the four outcomes of `get_message_key`, as equations -/
theorem get_past_some (P : Prim B) (r : Ratchet B) (g : Nat) (k : MsgKey B)
    (hg : g < r.generation) (hk : (mapRemove r.history g).1 = some k) :
    r.get P g = (.ok k, { r with history := (mapRemove r.history g).2 }) := by
  unfold Ratchet.get
  rw [if_pos hg]
  split
  · rename_i k' h' heq
    rw [heq] at hk
    simp only [Option.some.injEq] at hk
    subst hk
    rw [heq]
  · rename_i heq
    rw [heq] at hk; cases hk

theorem get_past_none (P : Prim B) (r : Ratchet B) (g : Nat)
    (hg : g < r.generation) (hk : (mapRemove r.history g).1 = none) :
    r.get P g = (.error (.keyMissing g), r) := by
  unfold Ratchet.get
  rw [if_pos hg]
  split
  · rename_i heq
    rw [heq] at hk; cases hk
  · rfl

theorem get_overflow (P : Prim B) (r : Ratchet B) (g : Nat)
    (hg : ¬ g < r.generation) (ho : r.generation + maxRatchetBackHistory ≥ 2 ^ 32) :
    r.get P g = (.error .overflow, r) := by
  unfold Ratchet.get
  rw [if_neg hg, if_pos ho]

theorem get_future (P : Prim B) (r : Ratchet B) (g : Nat)
    (hg : ¬ g < r.generation) (ho : ¬ r.generation + maxRatchetBackHistory ≥ 2 ^ 32)
    (hf : g > r.generation + maxRatchetBackHistory) :
    r.get P g = (.error (.invalidFutureGeneration g), r) := by
  unfold Ratchet.get
  rw [if_neg hg, if_neg ho, if_pos hf]

theorem get_window (P : Prim B) (r : Ratchet B) (g : Nat)
    (hg : ¬ g < r.generation) (ho : ¬ r.generation + maxRatchetBackHistory ≥ 2 ^ 32)
    (hf : ¬ g > r.generation + maxRatchetBackHistory) :
    r.get P g = (.ok ((Ratchet.skip P (g - r.generation) r).next P).1,
      ((Ratchet.skip P (g - r.generation) r).next P).2) := by
  unfold Ratchet.get
  rw [if_neg hg, if_neg ho, if_neg hf]

/-- case analysis on `get_message_key` -/
theorem get_cases (P : Prim B) (r : Ratchet B) (g : Nat) :
    (g < r.generation ∧ ∃ k, (mapRemove r.history g).1 = some k ∧
      r.get P g = (.ok k, { r with history := (mapRemove r.history g).2 })) ∨
    (g < r.generation ∧ (mapRemove r.history g).1 = none ∧
      r.get P g = (.error (.keyMissing g), r)) ∨
    (r.generation ≤ g ∧ r.generation + 1024 ≥ 2 ^ 32 ∧ r.get P g = (.error .overflow, r)) ∨
    (r.generation + 1024 < 2 ^ 32 ∧ r.generation + 1024 < g ∧
      r.get P g = (.error (.invalidFutureGeneration g), r)) ∨
    (r.generation ≤ g ∧ r.generation + 1024 < 2 ^ 32 ∧ g ≤ r.generation + 1024 ∧
      r.get P g = (.ok ((Ratchet.skip P (g - r.generation) r).next P).1,
        ((Ratchet.skip P (g - r.generation) r).next P).2)) := by
  by_cases hg : g < r.generation
  · cases hk : (mapRemove r.history g).1 with
    | some k => exact Or.inl ⟨hg, k, rfl, get_past_some P r g k hg hk⟩
    | none => exact Or.inr (Or.inl ⟨hg, rfl, get_past_none P r g hg hk⟩)
  · by_cases ho : r.generation + maxRatchetBackHistory ≥ 2 ^ 32
    · exact Or.inr (Or.inr (Or.inl ⟨by omega, ho, get_overflow P r g hg ho⟩))
    · by_cases hf : g > r.generation + maxRatchetBackHistory
      · refine Or.inr (Or.inr (Or.inr (Or.inl ⟨?_, ?_, get_future P r g hg ho hf⟩)))
        · simp only [maxRatchetBackHistory] at ho; omega
        · simp only [maxRatchetBackHistory] at hf; omega
      · refine Or.inr (Or.inr (Or.inr (Or.inr ⟨by omega, ?_, ?_, get_window P r g hg ho hf⟩)))
        · simp only [maxRatchetBackHistory] at ho; omega
        · simp only [maxRatchetBackHistory] at hf; omega

/-- `get_message_key` keeps the invariant and returns only RFC keys -/
theorem get_RInv (P : Prim B) (s0 : B) (r : Ratchet B) (g : Nat) (h : RInv P s0 r) :
    RInv P s0 (r.get P g).2 ∧ ∀ k, (r.get P g).1 = .ok k → k = specRatchetKey P s0 g := by
  rcases get_cases P r g with ⟨hg, k, hk, e⟩ | ⟨_, _, e⟩ | ⟨_, _, e⟩ | ⟨_, _, e⟩ | ⟨hg, _, _, e⟩
  · rw [e]
    refine ⟨⟨h.1, ?_⟩, ?_⟩
    · intro e' he'
      exact h.2 e' ((mem_mapRemove _ _ _).1 he').1
    · intro k' hk'
      cases hk'
      exact (h.2 _ (mapRemove_some _ _ _ hk)).2
  · rw [e]; exact ⟨h, fun k hk => by cases hk⟩
  · rw [e]; exact ⟨h, fun k hk => by cases hk⟩
  · rw [e]; exact ⟨h, fun k hk => by cases hk⟩
  · rw [e]
    have hs := skip_RInv P s0 (g - r.generation) r h
    have hgen := skip_gen P (g - r.generation) r
    refine ⟨next_RInv P s0 _ hs, ?_⟩
    intro k hk
    cases hk
    rw [next_fst P s0 _ hs, hgen]
    congr 1; omega

theorem get_HInv (P : Prim B) (r : Ratchet B) (g : Nat) (h : HInv r) : HInv (r.get P g).2 := by
  rcases get_cases P r g with ⟨hg, k, hk, e⟩ | ⟨_, _, e⟩ | ⟨_, _, e⟩ | ⟨_, _, e⟩ | ⟨hg, _, _, e⟩
  · rw [e]; intro e' he'; exact h e' ((mem_mapRemove _ _ _).1 he').1
  · rw [e]; exact h
  · rw [e]; exact h
  · rw [e]; exact h
  · rw [e]; exact next_HInv P _ (skip_HInv P _ r h)

/-- the key returned by a successful `get g` carries generation `g` -/
theorem get_ok_gen (P : Prim B) (r : Ratchet B) (g : Nat) (k : MsgKey B)
    (hk : (r.get P g).1 = .ok k) (hh : ∀ e ∈ r.history, e.2.generation = e.1) :
    k.generation = g := by
  rcases get_cases P r g with ⟨hg, k', hk', e⟩ | ⟨_, _, e⟩ | ⟨_, _, e⟩ | ⟨_, _, e⟩ | ⟨hg, _, _, e⟩
  · rw [e] at hk; cases hk
    exact hh _ (mapRemove_some _ _ _ hk')
  · rw [e] at hk; cases hk
  · rw [e] at hk; cases hk
  · rw [e] at hk; cases hk
  · rw [e] at hk; cases hk
    rw [next_fst_gen, skip_gen]; omega

theorem step_RInv (P : Prim B) (s0 : B) (r : Ratchet B) (q : RReq) (h : RInv P s0 r) :
    RInv P s0 (r.step P q).2 ∧
    ∀ k, (r.step P q).1 = .ok k → k = specRatchetKey P s0 k.generation ∧
      ∀ g, q = .get g → k.generation = g := by
  cases q with
  | get g =>
    have := get_RInv P s0 r g h
    refine ⟨this.1, fun k hk => ?_⟩
    have hk' := this.2 k hk
    have hg : k.generation = g := by rw [hk']; rfl
    refine ⟨by rw [hg]; exact hk', fun g' hg' => ?_⟩
    cases hg'; exact hg
  | next =>
    refine ⟨next_RInv P s0 r h, fun k hk => ?_⟩
    simp only [Ratchet.step] at hk
    cases hk
    refine ⟨by rw [next_fst P s0 r h]; rfl, fun g hg => by cases hg⟩

theorem run_RInv (P : Prim B) (s0 : B) (qs : List RReq) (r : Ratchet B) (h : RInv P s0 r) :
    RInv P s0 (Ratchet.run P r qs).2 ∧
    ∀ q k, (q, Except.ok k) ∈ (Ratchet.run P r qs).1 →
      k = specRatchetKey P s0 k.generation ∧ ∀ g, q = .get g → k.generation = g := by
  induction qs generalizing r with
  | nil => exact ⟨h, fun q k hk => by cases hk⟩
  | cons q qs ih =>
    have hs := step_RInv P s0 r q h
    have ih' := ih (r.step P q).2 hs.1
    simp only [Ratchet.run]
    refine ⟨ih'.1, fun q' k hk => ?_⟩
    rcases List.mem_cons.1 hk with hk | hk
    · have h1 := (Prod.mk.inj hk).1
      have h2 := (Prod.mk.inj hk).2
      subst h1
      exact hs.2 k h2.symm
    · exact ih'.2 q' k hk

/-! ### §3 node secrets of the specification -/

theorem nodeSecretAt_root (P : Prim B) (o k : Nat) (s : B) :
    nodeSecretAt P o k s (rootAt o k) = some s := by
  cases k with
  | zero => simp [nodeSecretAt, rootAt]
  | succ k => simp [nodeSecretAt, rootAt]

theorem nodeSecretAt_range (P : Prim B) (o k : Nat) (s0 s : B) (x : Nat)
    (h : nodeSecretAt P o k s0 x = some s) : o ≤ x ∧ x < o + 2 ^ (k + 1) - 1 := by
  induction k generalizing o s0 with
  | zero =>
    simp only [nodeSecretAt] at h
    split at h
    · omega
    · cases h
  | succ k ih =>
    have hp := Nat.two_pow_pos k
    have e3 := pow_succ' k
    have e4 := pow_succ' (k + 1)
    simp only [nodeSecretAt] at h
    split at h
    · omega
    · split at h
      · have := ih _ _ h; omega
      · have := ih _ _ h; omega

theorem nodeSecretAt_isSome (P : Prim B) (o k : Nat) (s0 : B) (x : Nat)
    (h1 : o ≤ x) (h2 : x < o + 2 ^ (k + 1) - 1) (hpar : o % 2 = 0) :
    ∃ s, nodeSecretAt P o k s0 x = some s := by
  induction k generalizing o s0 with
  | zero => exact ⟨s0, by simp only [nodeSecretAt]; rw [if_pos (by omega)]⟩
  | succ k ih =>
    have hp := Nat.two_pow_pos k
    have e3 := pow_succ' k
    have e4 := pow_succ' (k + 1)
    simp only [nodeSecretAt]
    split
    · exact ⟨_, rfl⟩
    · split
      · exact ih _ _ h1 (by omega) hpar
      · exact ih _ _ (by omega) (by omega) (by omega)

theorem nodeSecretAt_left (P : Prim B) (o k : Nat) (s0 s : B) (x l : Nat)
    (h : nodeSecretAt P o k s0 x = some s) (hl : leftAt o k x = some l) :
    nodeSecretAt P o k s0 l = some (treeLeft P s) := by
  induction k generalizing o s0 with
  | zero => simp [leftAt] at hl
  | succ k ih =>
    have hp := Nat.two_pow_pos k
    have e3 := pow_succ' k
    have e4 := pow_succ' (k + 1)
    have hr := leftAt_range o (k + 1) x l hl
    simp only [nodeSecretAt] at h ⊢
    rw [leftAt] at hl
    split at h
    · rename_i hx
      rw [if_pos (show x = rootAt o (k + 1) from hx)] at hl
      cases h; cases hl
      rw [if_neg (by simp only [rootAt]; omega), if_pos (by simp only [rootAt]; omega)]
      exact nodeSecretAt_root P o k _
    · rename_i hx
      rw [if_neg (show ¬ x = rootAt o (k + 1) from hx)] at hl
      split at h
      · rename_i hlt
        rw [if_pos (show x < rootAt o (k + 1) from hlt)] at hl
        have hr' := leftAt_range o k x l hl
        rw [if_neg (by omega), if_pos (by omega)]
        exact ih _ _ h hl
      · rename_i hlt
        rw [if_neg (show ¬ x < rootAt o (k + 1) from hlt)] at hl
        have hr' := leftAt_range _ k x l hl
        simp only [rightOff] at hr'
        rw [if_neg (by omega), if_neg (by omega)]
        exact ih _ _ h hl

theorem nodeSecretAt_right (P : Prim B) (o k : Nat) (s0 s : B) (x l : Nat)
    (h : nodeSecretAt P o k s0 x = some s) (hl : rightAt o k x = some l) :
    nodeSecretAt P o k s0 l = some (treeRight P s) := by
  induction k generalizing o s0 with
  | zero => simp [rightAt] at hl
  | succ k ih =>
    have hp := Nat.two_pow_pos k
    have e3 := pow_succ' k
    have e4 := pow_succ' (k + 1)
    have hr := rightAt_range o (k + 1) x l hl
    simp only [nodeSecretAt] at h ⊢
    rw [rightAt] at hl
    split at h
    · rename_i hx
      rw [if_pos (show x = rootAt o (k + 1) from hx)] at hl
      cases h; cases hl
      rw [if_neg (by simp only [rootAt, rightOff]; omega), if_neg (by simp only [rootAt, rightOff]; omega)]
      exact nodeSecretAt_root P (rightOff o k) k _
    · rename_i hx
      rw [if_neg (show ¬ x = rootAt o (k + 1) from hx)] at hl
      split at h
      · rename_i hlt
        rw [if_pos (show x < rootAt o (k + 1) from hlt)] at hl
        have hr' := rightAt_range o k x l hl
        rw [if_neg (by omega), if_pos (by omega)]
        exact ih _ _ h hl
      · rename_i hlt
        rw [if_neg (show ¬ x < rootAt o (k + 1) from hlt)] at hl
        have hr' := rightAt_range _ k x l hl
        simp only [rightOff] at hr'
        rw [if_neg (by omega), if_neg (by omega)]
        exact ih _ _ h hl

theorem specNodeSecret_range (P : Prim B) (k : Nat) (enc s : B) (x : Nat)
    (h : specNodeSecret P k enc x = some s) : x < 2 ^ (k + 1) - 1 := by
  have := nodeSecretAt_range P 0 k enc s x h; omega

/-- the children (as computed by the *code's* `left`/`right`) of a node with secret `s` carry
`ExpandWithLabel(s, "tree", "left" | "right", Nh)` -/
theorem specNodeSecret_children (P : Prim B) (k : Nat) (enc s : B) (x l r : Nat)
    (h : specNodeSecret P k enc x = some s) (hl : left? x = some l) (hr : right? x = some r) :
    specNodeSecret P k enc l = some (treeLeft P s) ∧
    specNodeSecret P k enc r = some (treeRight P s) := by
  have hx := specNodeSecret_range P k enc s x h
  have h1 := leftAt_eq k 0 x (by simp) (by simpa using hx)
  have h2 := rightAt_eq k 0 x (by simp) (by simpa using hx)
  rw [Nat.mul_zero] at h1 h2
  exact ⟨nodeSecretAt_left P 0 k enc s x l h (by rw [h1]; exact hl),
    nodeSecretAt_right P 0 k enc s x r h (by rw [h2]; exact hr)⟩

/-! ### §4 the tree invariant for key correctness

Every stored entry is right: a stored secret is the RFC secret of its node; stored ratchets satisfy
the ratchet invariant with respect to the RFC secret of their node.  (This holds for *every*
request sequence, also for requests at parent nodes or outside the tree; nothing about the shape of
the stored set is needed for correctness — that is §6.) -/

def NodeOK (P : Prim B) (k : Nat) (enc : B) (i : Nat) : Node B → Prop
  | .secret s => specNodeSecret P k enc i = some s
  | .ratchet a h => ∃ s, specNodeSecret P k enc i = some s ∧
      RInv P (ratchetSecret0 P s .application) a ∧ RInv P (ratchetSecret0 P s .handshake) h

def KInv (P : Prim B) (k : Nat) (enc : B) (t : SecretTree B) : Prop :=
  t.leafCount = 2 ^ k ∧ ∀ e ∈ t.known, NodeOK P k enc e.1 e.2

theorem KInv_new (P : Prim B) (k : Nat) (enc : B) : KInv P k enc (SecretTree.new (2 ^ k) enc) := by
  refine ⟨rfl, fun e he => ?_⟩
  simp only [SecretTree.new, List.mem_singleton] at he
  subst he
  simp only [NodeOK, specNodeSecret, root_eq]
  exact nodeSecretAt_root P 0 k enc

/-- `consume_node` as one equation -/
theorem consumeNode_eq (P : Prim B) (t : SecretTree B) (i : Nat) :
    t.consumeNode P i =
      match (mapRemove t.known i).1 with
      | some (.secret s) =>
        match left? i, right? i with
        | some l, some r =>
          (.ok (), { known := mapInsert (mapInsert (mapRemove t.known i).2 l
              (.secret (treeLeft P s))) r (.secret (treeRight P s)), leafCount := t.leafCount })
        | _, _ => (.error .leafNodeNoChildren,
            { known := (mapRemove t.known i).2, leafCount := t.leafCount })
      | _ => (.ok (), { known := (mapRemove t.known i).2, leafCount := t.leafCount }) := by
  rfl

theorem consumeNode_KInv (P : Prim B) (k : Nat) (enc : B) (t : SecretTree B) (i : Nat)
    (h : KInv P k enc t) : KInv P k enc (t.consumeNode P i).2 := by
  rw [consumeNode_eq]
  have hrem : ∀ e ∈ (mapRemove t.known i).2, NodeOK P k enc e.1 e.2 :=
    fun e he => h.2 e ((mem_mapRemove _ _ _).1 he).1
  split
  · rename_i s hs
    have hi : specNodeSecret P k enc i = some s := h.2 _ (mapRemove_some _ _ _ hs)
    split
    · rename_i l r hl hr
      have hc := specNodeSecret_children P k enc s i l r hi hl hr
      refine ⟨h.1, fun e he => ?_⟩
      simp only [mem_mapInsert] at he
      rcases he with he | ⟨he | ⟨he, _⟩, _⟩
      · subst he; exact hc.2
      · subst he; exact hc.1
      · exact hrem e he
    · exact ⟨h.1, hrem⟩
  · exact ⟨h.1, hrem⟩

theorem consumePath_KInv (P : Prim B) (k : Nat) (enc : B) (path : List Nat) (t : SecretTree B)
    (h : KInv P k enc t) : KInv P k enc (SecretTree.consumePath P path t).2 := by
  induction path generalizing t with
  | nil => exact h
  | cons i rest ih =>
    have h1 := consumeNode_KInv P k enc t i h
    simp only [SecretTree.consumePath]
    split
    · rename_i t' heq
      rw [heq] at h1
      exact ih t' h1
    · rename_i e t' heq
      rw [heq] at h1
      exact h1

/-- the ratchets handed out for node `i` -/
def toRatchets (P : Prim B) : Node B → Ratchet B × Ratchet B
  | .ratchet a h => (a, h)
  | .secret s => (Ratchet.new P s .application, Ratchet.new P s .handshake)

/-- `take_leaf_ratchet` as one equation -/
theorem takeLeafRatchet_eq (P : Prim B) (t : SecretTree B) (i : Nat) :
    t.takeLeafRatchet P i =
      match (mapRemove t.known i).1 with
      | some node => (.ok (toRatchets P node),
          { known := (mapRemove t.known i).2, leafCount := t.leafCount })
      | none =>
        match SecretTree.consumePath P ((directCopath i t.leafCount).map (·.1)).reverse t with
        | (.error e, t') => (.error e, t')
        | (.ok (), t') =>
          match (mapRemove t'.known i).1 with
          | some node => (.ok (toRatchets P node),
              { known := (mapRemove t'.known i).2, leafCount := t'.leafCount })
          | none => (.error .invalidLeafConsumption, t') := by
  unfold SecretTree.takeLeafRatchet
  cases h : mapRemove t.known i with
  | mk a b =>
    cases a with
    | some node => cases node <;> rfl
    | none =>
      simp only
      generalize SecretTree.consumePath P ((directCopath i t.leafCount).map (·.1)).reverse t = c
      obtain ⟨res, t'⟩ := c
      cases res with
      | error e => rfl
      | ok u =>
        cases u
        simp only
        cases h' : mapRemove t'.known i with
        | mk a' b' =>
          cases a' with
          | some node => cases node <;> rfl
          | none => rfl

def RatchetsOK (P : Prim B) (k : Nat) (enc : B) (i : Nat) (ah : Ratchet B × Ratchet B) : Prop :=
  ∃ s, specNodeSecret P k enc i = some s ∧
    RInv P (ratchetSecret0 P s .application) ah.1 ∧ RInv P (ratchetSecret0 P s .handshake) ah.2

theorem toRatchets_ok (P : Prim B) (k : Nat) (enc : B) (i : Nat) (n : Node B)
    (h : NodeOK P k enc i n) : RatchetsOK P k enc i (toRatchets P n) := by
  cases n with
  | secret s => exact ⟨s, h, RInv_new P s .application, RInv_new P s .handshake⟩
  | ratchet a hh => exact h

theorem takeLeafRatchet_KInv (P : Prim B) (k : Nat) (enc : B) (t : SecretTree B) (i : Nat)
    (h : KInv P k enc t) :
    KInv P k enc (t.takeLeafRatchet P i).2 ∧
    ∀ ah, (t.takeLeafRatchet P i).1 = .ok ah → RatchetsOK P k enc i ah := by
  rw [takeLeafRatchet_eq]
  split
  · rename_i node hn
    refine ⟨⟨h.1, fun e he => h.2 e ((mem_mapRemove _ _ _).1 he).1⟩, fun ah hah => ?_⟩
    cases hah
    exact toRatchets_ok P k enc i node (h.2 _ (mapRemove_some _ _ _ hn))
  · have hp := consumePath_KInv P k enc ((directCopath i t.leafCount).map (·.1)).reverse t h
    split
    · rename_i e t' heq
      rw [heq] at hp
      exact ⟨hp, fun ah hah => by cases hah⟩
    · rename_i t' heq
      rw [heq] at hp
      split
      · rename_i node hn
        refine ⟨⟨hp.1, fun e he => hp.2 e ((mem_mapRemove _ _ _).1 he).1⟩, fun ah hah => ?_⟩
        cases hah
        exact toRatchets_ok P k enc i node (hp.2 _ (mapRemove_some _ _ _ hn))
      · exact ⟨hp, fun ah hah => by cases hah⟩

/-- the key type selects the ratchet -/
def sel (kt : KeyType) (ah : Ratchet B × Ratchet B) : Ratchet B :=
  match kt with
  | .application => ah.1
  | .handshake => ah.2

def upd (kt : KeyType) (ah : Ratchet B × Ratchet B) (r : Ratchet B) : Ratchet B × Ratchet B :=
  match kt with
  | .application => (r, ah.2)
  | .handshake => (ah.1, r)

/-- `next_message_key` / `message_key_generation` as one equation each -/
theorem nextMessageKey_eq (P : Prim B) (t : SecretTree B) (i : Nat) (kt : KeyType) :
    t.nextMessageKey P i kt =
      match t.takeLeafRatchet P i with
      | (.error e, t') => (.error e, t')
      | (.ok ah, t') =>
        (.ok ((sel kt ah).next P).1,
          { known := mapInsert t'.known i
              (.ratchet (upd kt ah ((sel kt ah).next P).2).1 (upd kt ah ((sel kt ah).next P).2).2),
            leafCount := t'.leafCount }) := by
  unfold SecretTree.nextMessageKey
  generalize t.takeLeafRatchet P i = c
  obtain ⟨res, t'⟩ := c
  cases res with
  | error e => rfl
  | ok ah => obtain ⟨a, h⟩ := ah; cases kt <;> rfl

/-- `SecretTree::message_key_generation` as it was BEFORE the repair (no early refusal): the body
that `messageKeyGeneration` still runs when it does not refuse.  Kept to state that the repair
changes the state only, never the answer (`Props/C05`, `repair_*`). -/
def SecretTree.messageKeyGenerationOld (P : Prim B) (t : SecretTree B) (index : Nat) (kt : KeyType)
    (g : Nat) : Except Err (MsgKey B) × SecretTree B :=
  match t.takeLeafRatchet P index with
  | (.error e, t') => (.error e, t')
  | (.ok (a, h), t') =>
    match kt with
    | .application =>
      let (res, a') := a.get P g
      (res, { t' with known := mapInsert t'.known index (.ratchet a' h) })
    | .handshake =>
      let (res, h') := h.get P g
      (res, { t' with known := mapInsert t'.known index (.ratchet a h') })

theorem messageKeyGenerationOld_eq (P : Prim B) (t : SecretTree B) (i : Nat) (kt : KeyType) (g : Nat) :
    t.messageKeyGenerationOld P i kt g =
      match t.takeLeafRatchet P i with
      | (.error e, t') => (.error e, t')
      | (.ok ah, t') =>
        (((sel kt ah).get P g).1,
          { known := mapInsert t'.known i
              (.ratchet (upd kt ah ((sel kt ah).get P g).2).1 (upd kt ah ((sel kt ah).get P g).2).2),
            leafCount := t'.leafCount }) := by
  unfold SecretTree.messageKeyGenerationOld
  generalize t.takeLeafRatchet P i = c
  obtain ⟨res, t'⟩ := c
  cases res with
  | error e => rfl
  | ok ah => obtain ⟨a, h⟩ := ah; cases kt <;> rfl

/-- the early refusal of the repaired `message_key_generation`: generation beyond the history
window and no ratchets stored at the index -/
def Refused (t : SecretTree B) (i g : Nat) : Prop := 1024 < g ∧ t.hasRatchet i = false

instance (t : SecretTree B) (i g : Nat) : Decidable (Refused t i g) :=
  inferInstanceAs (Decidable (1024 < g ∧ t.hasRatchet i = false))

/-- the repaired function: refuse early, else the old body -/
theorem messageKeyGeneration_eq (P : Prim B) (t : SecretTree B) (i : Nat) (kt : KeyType) (g : Nat) :
    t.messageKeyGeneration P i kt g =
      if Refused t i g then (.error (.invalidFutureGeneration g), t)
      else t.messageKeyGenerationOld P i kt g := by
  unfold SecretTree.messageKeyGeneration SecretTree.messageKeyGenerationOld
  have hiff : (decide (g > maxRatchetBackHistory) && !t.hasRatchet i) = true ↔ Refused t i g := by
    simp [Refused, maxRatchetBackHistory]
  by_cases hc : Refused t i g
  · rw [if_pos hc, if_pos (hiff.2 hc)]
  · rw [if_neg hc, if_neg (fun h => hc (hiff.1 h))]
    generalize t.takeLeafRatchet P i = c
    obtain ⟨res, t'⟩ := c
    cases res with
    | error e => rfl
    | ok ah => obtain ⟨a, h⟩ := ah; cases kt <;> rfl

theorem messageKeyGeneration_refused (P : Prim B) (t : SecretTree B) (i : Nat) (kt : KeyType) (g : Nat)
    (h : Refused t i g) :
    t.messageKeyGeneration P i kt g = (.error (.invalidFutureGeneration g), t) := by
  rw [messageKeyGeneration_eq, if_pos h]

theorem messageKeyGeneration_not_refused (P : Prim B) (t : SecretTree B) (i : Nat) (kt : KeyType)
    (g : Nat) (h : ¬ Refused t i g) :
    t.messageKeyGeneration P i kt g = t.messageKeyGenerationOld P i kt g := by
  rw [messageKeyGeneration_eq, if_neg h]

theorem sel_RInv (P : Prim B) (k : Nat) (enc : B) (i : Nat) (ah : Ratchet B × Ratchet B) (s : B)
    (hs : specNodeSecret P k enc i = some s) (h : RatchetsOK P k enc i ah) (kt : KeyType) :
    RInv P (ratchetSecret0 P s kt) (sel kt ah) := by
  obtain ⟨s', hs', ha, hh⟩ := h
  rw [hs] at hs'; cases hs'
  cases kt
  · exact hh
  · exact ha

theorem upd_ok (P : Prim B) (k : Nat) (enc : B) (i : Nat) (ah : Ratchet B × Ratchet B) (s : B)
    (hs : specNodeSecret P k enc i = some s) (h : RatchetsOK P k enc i ah) (kt : KeyType)
    (r : Ratchet B) (hr : RInv P (ratchetSecret0 P s kt) r) :
    NodeOK P k enc i (.ratchet (upd kt ah r).1 (upd kt ah r).2) := by
  obtain ⟨s', hs', ha, hh⟩ := h
  rw [hs] at hs'; cases hs'
  cases kt
  · exact ⟨s, hs, ha, hr⟩
  · exact ⟨s, hs, hr, hh⟩

theorem KInv_insert (P : Prim B) (k : Nat) (enc : B) (t : SecretTree B) (i : Nat) (n : Node B)
    (h : KInv P k enc t) (hn : NodeOK P k enc i n) :
    KInv P k enc { known := mapInsert t.known i n, leafCount := t.leafCount } := by
  refine ⟨h.1, fun e he => ?_⟩
  simp only [mem_mapInsert] at he
  rcases he with he | ⟨he, _⟩
  · subst he; exact hn
  · exact h.2 e he

/-- one request keeps the invariant; a successful one returns the key of the generalised spec -/
theorem step_KInv (P : Prim B) (k : Nat) (enc : B) (t : SecretTree B) (q : Req)
    (h : KInv P k enc t) :
    KInv P k enc (t.step P q).2 ∧
    ∀ key, (t.step P q).1 = .ok key →
      specNodeMsgKey P k enc q.idx q.kt key.generation = some key ∧
      ∀ i kt g, q = .get i kt g → key.generation = g := by
  cases q with
  | next i kt =>
    simp only [SecretTree.step, nextMessageKey_eq, Req.idx, Req.kt]
    have ht := takeLeafRatchet_KInv P k enc t i h
    split
    · rename_i e t' heq
      rw [heq] at ht
      exact ⟨ht.1, fun key hk => by cases hk⟩
    · rename_i ah t' heq
      rw [heq] at ht
      have hok := ht.2 ah rfl
      obtain ⟨s, hs, _⟩ := id hok
      have hsel := sel_RInv P k enc i ah s hs hok kt
      refine ⟨KInv_insert P k enc t' i _ ht.1
        (upd_ok P k enc i ah s hs hok kt _ (next_RInv P _ _ hsel)), fun key hk => ?_⟩
      cases hk
      refine ⟨?_, fun i' kt' g' hq => by cases hq⟩
      simp only [specNodeMsgKey, hs, Option.map_some, next_fst_gen]
      rw [next_fst P _ _ hsel]
  | get i kt g =>
    simp only [SecretTree.step, messageKeyGeneration_eq, Req.idx, Req.kt]
    split
    · exact ⟨h, fun key hk => by cases hk⟩
    simp only [messageKeyGenerationOld_eq]
    have ht := takeLeafRatchet_KInv P k enc t i h
    split
    · rename_i e t' heq
      rw [heq] at ht
      exact ⟨ht.1, fun key hk => by cases hk⟩
    · rename_i ah t' heq
      rw [heq] at ht
      have hok := ht.2 ah rfl
      obtain ⟨s, hs, _⟩ := id hok
      have hsel := sel_RInv P k enc i ah s hs hok kt
      have hget := get_RInv P _ _ g hsel
      refine ⟨KInv_insert P k enc t' i _ ht.1
        (upd_ok P k enc i ah s hs hok kt _ hget.1), fun key hk => ?_⟩
      have hkey := hget.2 key hk
      have hgen : key.generation = g := by rw [hkey]; rfl
      refine ⟨?_, fun i' kt' g' hq => by cases hq; exact hgen⟩
      simp only [specNodeMsgKey, hs, Option.map_some, hgen]
      rw [hkey]

theorem run_KInv (P : Prim B) (k : Nat) (enc : B) (qs : List Req) (t : SecretTree B)
    (h : KInv P k enc t) :
    KInv P k enc (SecretTree.run P t qs).2 ∧
    ∀ q key, (q, Except.ok key) ∈ (SecretTree.run P t qs).1 →
      specNodeMsgKey P k enc q.idx q.kt key.generation = some key ∧
      ∀ i kt g, q = .get i kt g → key.generation = g := by
  induction qs generalizing t with
  | nil => exact ⟨h, fun q k hk => by cases hk⟩
  | cons q qs ih =>
    have hs := step_KInv P k enc t q h
    have ih' := ih (t.step P q).2 hs.1
    simp only [SecretTree.run]
    refine ⟨ih'.1, fun q' key hk => ?_⟩
    rcases List.mem_cons.1 hk with hk | hk
    · have h1 := (Prod.mk.inj hk).1
      have h2 := (Prod.mk.inj hk).2
      subst h1
      exact hs.2 key h2.symm
    · exact ih'.2 q' key hk

/-! ### §5 which generations a ratchet can still hand out (C05) -/

/-- generation `g` is still available: not yet reached, or skipped and remembered -/
def Avail (r : Ratchet B) (g : Nat) : Prop := r.generation ≤ g ∨ hasKey r.history g

theorem mapRemove_none_iff {V : Type} (m : List (Nat × V)) (k : Nat) :
    (mapRemove m k).1 = none ↔ ¬ hasKey m k := by
  rw [← mapRemove_isSome_iff]
  cases (mapRemove m k).1 <;> simp

/-- `get g` succeeds exactly inside the window or on a remembered generation -/
theorem get_ok_iff (P : Prim B) (r : Ratchet B) (g : Nat) (ho : r.generation + 1024 < 2 ^ 32) :
    (∃ k, (r.get P g).1 = .ok k) ↔
      (r.generation ≤ g ∧ g ≤ r.generation + 1024) ∨ (g < r.generation ∧ hasKey r.history g) := by
  rcases get_cases P r g with ⟨hg, k, hk, e⟩ | ⟨hg, hk, e⟩ | ⟨_, h2, e⟩ | ⟨_, hf, e⟩ | ⟨hg, _, hw, e⟩
  · rw [e]
    exact ⟨fun _ => Or.inr ⟨hg, k, mapRemove_some _ _ _ hk⟩, fun _ => ⟨k, rfl⟩⟩
  · rw [e]
    have := (mapRemove_none_iff _ _).1 hk
    constructor
    · rintro ⟨k, hk'⟩; cases hk'
    · rintro (h | h)
      · omega
      · exact absurd h.2 this
  · omega
  · rw [e]
    constructor
    · rintro ⟨k, hk'⟩; cases hk'
    · rintro (h | h) <;> omega
  · rw [e]
    exact ⟨fun _ => Or.inl ⟨hg, hw⟩, fun _ => ⟨_, rfl⟩⟩

theorem get_ok_of_avail (P : Prim B) (r : Ratchet B) (g : Nat) (ha : Avail r g)
    (hw : g ≤ r.generation + 1024) (ho : r.generation ≤ g → r.generation + 1024 < 2 ^ 32) :
    ∃ k, (r.get P g).1 = .ok k := by
  rcases get_cases P r g with ⟨hg, k, hk, e⟩ | ⟨hg, hk, e⟩ | ⟨h1, h2, e⟩ | ⟨_, hf, e⟩ | ⟨hg, _, _, e⟩
  · rw [e]; exact ⟨k, rfl⟩
  · have := (mapRemove_none_iff _ _).1 hk
    rcases ha with ha | ha
    · omega
    · exact absurd ha this
  · have := ho h1; omega
  · omega
  · rw [e]; exact ⟨_, rfl⟩

/-- a failed `get` leaves the ratchet untouched -/
theorem get_error_unchanged (P : Prim B) (r : Ratchet B) (g : Nat) (e : Err)
    (h : (r.get P g).1 = .error e) : (r.get P g).2 = r := by
  rcases get_cases P r g with ⟨_, k, _, e'⟩ | ⟨_, _, e'⟩ | ⟨_, _, e'⟩ | ⟨_, _, e'⟩ | ⟨_, _, _, e'⟩
  · rw [e'] at h; cases h
  · rw [e']
  · rw [e']
  · rw [e']
  · rw [e'] at h; cases h

/-- a successful `get g` returns a key labelled `g`, `g` was available, and afterwards exactly `g`
has become unavailable -/
theorem get_avail (P : Prim B) (r : Ratchet B) (g : Nat) (k : MsgKey B) (h : HInv r)
    (hk : (r.get P g).1 = .ok k) :
    k.generation = g ∧ Avail r g ∧
    (∀ g', Avail (r.get P g).2 g' ↔ Avail r g' ∧ g' ≠ g) ∧
    r.generation ≤ (r.get P g).2.generation ∧ (r.get P g).2.generation ≤ max r.generation (g + 1) := by
  rcases get_cases P r g with ⟨hg, k', hk', e⟩ | ⟨_, _, e⟩ | ⟨_, _, e⟩ | ⟨_, _, e⟩ | ⟨hg, _, _, e⟩
  · rw [e] at hk ⊢
    cases hk
    have hm := mapRemove_some _ _ _ hk'
    refine ⟨(h _ hm).2, Or.inr ⟨k, hm⟩, fun g' => ?_, Nat.le_refl _, Nat.le_max_left _ _⟩
    simp only [Avail, hasKey_mapRemove]
    constructor
    · rintro (h1 | ⟨h1, h2⟩)
      · exact ⟨Or.inl h1, by omega⟩
      · exact ⟨Or.inr h1, h2⟩
    · rintro ⟨h1 | h1, h2⟩
      · exact Or.inl h1
      · exact Or.inr ⟨h1, h2⟩
  · rw [e] at hk; cases hk
  · rw [e] at hk; cases hk
  · rw [e] at hk; cases hk
  · rw [e] at hk ⊢
    cases hk
    have hgen := skip_gen P (g - r.generation) r
    refine ⟨by rw [next_fst_gen, hgen]; omega, Or.inl hg, fun g' => ?_,
      by simp only [next_gen, hgen]; omega, by simp only [next_gen, hgen]; omega⟩
    simp only [Avail, next_gen, next_hist, hgen, skip_hasKey]
    constructor
    · rintro (h1 | h1 | h1)
      · exact ⟨Or.inl (by omega), by omega⟩
      · obtain ⟨v, hv⟩ := h1
        have := (h _ hv).1
        exact ⟨Or.inr ⟨v, hv⟩, by simp only at this; omega⟩
      · exact ⟨Or.inl (by omega), by omega⟩
    · rintro ⟨h1 | h1, h2⟩
      · by_cases h3 : g < g'
        · exact Or.inl (by omega)
        · exact Or.inr (Or.inr (by omega))
      · exact Or.inr (Or.inl h1)

theorem next_avail (P : Prim B) (r : Ratchet B) (h : HInv r) :
    Avail r r.generation ∧ ∀ g', Avail (r.next P).2 g' ↔ Avail r g' ∧ g' ≠ r.generation := by
  refine ⟨Or.inl (Nat.le_refl _), fun g' => ?_⟩
  simp only [Avail, next_gen, next_hist]
  constructor
  · rintro (h1 | h1)
    · exact ⟨Or.inl (by omega), by omega⟩
    · obtain ⟨v, hv⟩ := h1
      have := (h _ hv).1
      exact ⟨Or.inr ⟨v, hv⟩, by simp only at this; omega⟩
  · rintro ⟨h1 | h1, h2⟩
    · exact Or.inl (by omega)
    · exact Or.inr h1

theorem step_HInv (P : Prim B) (r : Ratchet B) (q : RReq) (h : HInv r) : HInv (r.step P q).2 := by
  cases q with
  | get g => exact get_HInv P r g h
  | next => exact next_HInv P r h

theorem step_avail (P : Prim B) (r : Ratchet B) (q : RReq) (h : HInv r) :
    (∀ k, (r.step P q).1 = .ok k →
      Avail r k.generation ∧ ∀ g', Avail (r.step P q).2 g' ↔ Avail r g' ∧ g' ≠ k.generation) ∧
    (∀ e, (r.step P q).1 = .error e → (r.step P q).2 = r) := by
  cases q with
  | get g =>
    refine ⟨fun k hk => ?_, fun e he => get_error_unchanged P r g e he⟩
    have := get_avail P r g k h hk
    rw [this.1]
    exact ⟨this.2.1, this.2.2.1⟩
  | next =>
    refine ⟨fun k hk => ?_, fun e he => by cases he⟩
    simp only [Ratchet.step] at hk
    cases hk
    exact next_avail P r h

theorem okGens_cons_ok (q : RReq) (k : MsgKey B) (tr : List (RReq × Except Err (MsgKey B))) :
    okGens ((q, Except.ok k) :: tr) = k.generation :: okGens tr := rfl

theorem okGens_cons_error (q : RReq) (e : Err) (tr : List (RReq × Except Err (MsgKey B))) :
    okGens ((q, Except.error e) :: tr) = okGens (B := B) tr := rfl

/-- all generations handed out by a run were available at its start, and none is handed out twice -/
theorem run_nodup (P : Prim B) (qs : List RReq) (r : Ratchet B) (h : HInv r) :
    (∀ g ∈ okGens (Ratchet.run P r qs).1, Avail r g) ∧ (okGens (Ratchet.run P r qs).1).Nodup := by
  induction qs generalizing r with
  | nil => exact ⟨fun g hg => by simp [Ratchet.run, okGens] at hg, List.nodup_nil⟩
  | cons q qs ih =>
    have hs := step_avail P r q h
    have ih' := ih (r.step P q).2 (step_HInv P r q h)
    simp only [Ratchet.run]
    cases hres : (r.step P q).1 with
    | error e =>
      rw [okGens_cons_error]
      have := hs.2 e hres
      rw [this] at ih'
      rw [this]
      exact ih'
    | ok k =>
      rw [okGens_cons_ok]
      have hk := hs.1 k hres
      constructor
      · intro g hg
        rcases List.mem_cons.1 hg with hg | hg
        · rw [hg]; exact hk.1
        · exact ((hk.2 g).1 (ih'.1 g hg)).1
      · refine List.nodup_cons.2 ⟨fun hmem => ?_, ih'.2⟩
        exact ((hk.2 _).1 (ih'.1 _ hmem)).2 rfl

/-- the run of `get` requests for the generations `gs`, in this order -/
def getAll (gs : List Nat) : List RReq := gs.map .get

/-- reordering within the window: all of `gs` (distinct, within `[G0, G0 + 1024]`, available) are
served, in any order, each with the RFC key -/
theorem run_getAll (P : Prim B) (s0 : B) (G0 : Nat) (hG : G0 + 2048 < 2 ^ 32) (gs : List Nat)
    (r : Ratchet B) (h : RInv P s0 r) (h1 : G0 ≤ r.generation) (h2 : r.generation ≤ G0 + 1025)
    (hnd : gs.Nodup) (hgs : ∀ g ∈ gs, g ≤ G0 + 1024 ∧ Avail r g) :
    (Ratchet.run P r (getAll gs)).1 =
      gs.map fun g => (RReq.get g, Except.ok (specRatchetKey P s0 g)) := by
  induction gs generalizing r with
  | nil => rfl
  | cons g gs ih =>
    have hg := hgs g (List.mem_cons_self)
    have hok : ∃ k, (r.get P g).1 = .ok k :=
      get_ok_of_avail P r g hg.2 (by omega) (fun _ => by omega)
    obtain ⟨k, hk⟩ := hok
    have hkey := (get_RInv P s0 r g h).2 k hk
    have hav := get_avail P r g k h.hinv hk
    have hnd' := List.nodup_cons.1 hnd
    simp only [getAll, List.map_cons, Ratchet.run, Ratchet.step]
    rw [hk, hkey]
    congr 1
    apply ih (r.get P g).2 (get_RInv P s0 r g h).1 (by omega) (by omega) hnd'.2
    intro g' hg'
    have := hgs g' (List.mem_cons_of_mem _ hg')
    refine ⟨this.1, (hav.2.2.1 g').2 ⟨this.2, ?_⟩⟩
    intro heq
    subst heq
    exact hnd'.1 hg'

/-- a generation handed out by `get` is missing afterwards; only "history keys are below the
current generation" is needed -/
theorem get_then_missing (P : Prim B) (r r' : Ratchet B) (g : Nat) (k : MsgKey B)
    (hlt : ∀ e ∈ r.history, e.1 < r.generation) (h : r.get P g = (.ok k, r')) :
    (r'.get P g).1 = .error (.keyMissing g) := by
  have hmiss : g < r'.generation ∧ ¬ hasKey r'.history g := by
    rcases get_cases P r g with ⟨hg, k', _, e⟩ | ⟨_, _, e⟩ | ⟨_, _, e⟩ | ⟨_, _, e⟩ | ⟨hg, _, _, e⟩
    · rw [e] at h; cases h
      exact ⟨hg, fun hk => ((hasKey_mapRemove _ _ _).1 hk).2 rfl⟩
    · rw [e] at h; cases h
    · rw [e] at h; cases h
    · rw [e] at h; cases h
    · rw [e] at h; cases h
      have hgen := skip_gen P (g - r.generation) r
      refine ⟨by rw [next_gen, hgen]; omega, ?_⟩
      rw [next_hist, skip_hasKey]
      rintro (⟨v, hv⟩ | h')
      · have := hlt _ hv; simp only at this; omega
      · omega
  rw [get_past_none P r' g hmiss.1 ((mapRemove_none_iff _ _).2 hmiss.2)]

/-- `n` successive `next_message_key` calls hand out the generations `generation, …, generation+n-1` -/
theorem run_next_gens (P : Prim B) (n : Nat) (r : Ratchet B) :
    okGens (Ratchet.run P r (List.replicate n .next)).1 = List.range' r.generation n := by
  induction n generalizing r with
  | zero => rfl
  | succ n ih =>
    simp only [List.replicate_succ, Ratchet.run, Ratchet.step, okGens_cons_ok, List.range'_succ]
    rw [ih, next_gen, next_fst_gen]

/-! ### §6 the frontier invariant (availability of leaves, C13; independence of leaves, C05) -/

section MapGet
variable {V : Type}

theorem mapGet_filter_ne (m : List (Nat × V)) (k x : Nat) (h : x ≠ k) :
    mapGet (m.filter (fun e => !(e.1 == k))) x = mapGet m x := by
  induction m with
  | nil => rfl
  | cons e m ih =>
    simp only [mapGet] at ih ⊢
    by_cases he : e.1 = k
    · rw [List.filter_cons_of_neg (by simp [he]), ih, List.find?_cons_of_neg (by simp [he]; omega)]
    · rw [List.filter_cons_of_pos (by simp [he])]
      by_cases hx : e.1 = x
      · rw [List.find?_cons_of_pos (by simp [hx]), List.find?_cons_of_pos (by simp [hx])]
      · rw [List.find?_cons_of_neg (by simp [hx]), List.find?_cons_of_neg (by simp [hx]), ih]

theorem mapGet_mapRemove_ne (m : List (Nat × V)) (k x : Nat) (h : x ≠ k) :
    mapGet (mapRemove m k).2 x = mapGet m x := mapGet_filter_ne m k x h

theorem mapGet_mapInsert_ne (m : List (Nat × V)) (k : Nat) (v : V) (x : Nat) (h : x ≠ k) :
    mapGet (mapInsert m k v) x = mapGet m x := by
  have := mapGet_filter_ne m k x h
  simp only [mapGet, mapInsert] at this ⊢
  rw [List.find?_cons_of_neg (by simp; omega), this]

theorem mapGet_mapInsert_self (m : List (Nat × V)) (k : Nat) (v : V) :
    mapGet (mapInsert m k v) k = some v := by
  simp [mapGet, mapInsert]

theorem mapGet_isSome_iff (m : List (Nat × V)) (k : Nat) : (mapGet m k).isSome ↔ hasKey m k :=
  mapRemove_isSome_iff m k

theorem mapGet_some_mem (m : List (Nat × V)) (k : Nat) (v : V) (h : mapGet m k = some v) :
    (k, v) ∈ m := mapRemove_some m k v h

end MapGet

/-- node `x` belongs to the subtree of height `k` at offset `o` -/
def InSub (o k x : Nat) : Prop := o ≤ x ∧ x < o + 2 ^ (k + 1) - 1

/-- `Front K o k`: the stored indices `K` restricted to the subtree (`o`, `k`) form a frontier:
either exactly the root of the subtree is stored, or the root is not stored and both child subtrees
are frontiers.  (So every leaf has exactly one stored ancestor-or-self.) -/
def Front (K : Nat → Prop) (o : Nat) : Nat → Prop
  | 0 => K o
  | k + 1 =>
    (K (rootAt o (k + 1)) ∧ ∀ x, InSub o (k + 1) x → x ≠ rootAt o (k + 1) → ¬ K x) ∨
    (¬ K (rootAt o (k + 1)) ∧ Front K o k ∧ Front K (rightOff o k) k)

theorem InSub_left (o k x : Nat) (h : InSub o k x) : InSub o (k + 1) x := by
  have := pow_succ' (k + 1); have := Nat.two_pow_pos (k + 1)
  unfold InSub at *; omega

theorem InSub_right (o k x : Nat) (h : InSub (rightOff o k) k x) : InSub o (k + 1) x := by
  have := pow_succ' (k + 1); have := Nat.two_pow_pos (k + 1)
  unfold InSub rightOff at *; omega

theorem InSub_root (o k : Nat) : InSub o k (rootAt o k) := by
  have := pow_succ' k; have := Nat.two_pow_pos k
  unfold InSub rootAt; omega

theorem InSub_cases (o k x : Nat) (h : InSub o (k + 1) x) :
    x = rootAt o (k + 1) ∨ (x < rootAt o (k + 1) ∧ InSub o k x) ∨
      (rootAt o (k + 1) < x ∧ InSub (rightOff o k) k x) := by
  have := pow_succ' (k + 1); have := Nat.two_pow_pos (k + 1)
  unfold InSub rootAt rightOff at *; omega

theorem front_congr (K K' : Nat → Prop) (o k : Nat) (h : ∀ x, InSub o k x → (K x ↔ K' x))
    (hf : Front K o k) : Front K' o k := by
  induction k generalizing o with
  | zero =>
    exact (h o (by unfold InSub; omega)).1 hf
  | succ k ih =>
    have hroot := h _ (InSub_root o (k + 1))
    rcases hf with ⟨h1, h2⟩ | ⟨h1, h2, h3⟩
    · exact Or.inl ⟨hroot.1 h1, fun x hx hne hk => h2 x hx hne ((h x hx).2 hk)⟩
    · exact Or.inr ⟨fun hk => h1 (hroot.2 hk),
        ih o (fun x hx => h x (InSub_left o k x hx)) h2,
        ih _ (fun x hx => h x (InSub_right o k x hx)) h3⟩

theorem front_single (K : Nat → Prop) (o k : Nat) (h1 : K (rootAt o k))
    (h2 : ∀ x, InSub o k x → x ≠ rootAt o k → ¬ K x) : Front K o k := by
  cases k with
  | zero => have : rootAt o 0 = o := by simp [rootAt]
            rw [this] at h1; exact h1
  | succ k => exact Or.inl ⟨h1, h2⟩

/-- the nodes `take_leaf_ratchet` consumes for leaf `l` inside the subtree (`o`, `k`): the proper
ancestors of `l`, from the subtree's root downwards (the reversed direct path of the spec) -/
def descPath (o k l : Nat) : List Nat := ((pathAt o k l).map (·.1)).reverse

theorem descPath_zero (o l : Nat) : descPath o 0 l = [] := rfl

theorem rootAt_odd (o k : Nat) (ho : o % 2 = 0) : rootAt o (k + 1) % 2 = 1 := by
  have := pow_succ' k; have := Nat.two_pow_pos k
  unfold rootAt; omega

theorem descPath_left (o k l : Nat) (h : l < rootAt o (k + 1)) :
    descPath o (k + 1) l = rootAt o (k + 1) :: descPath o k l := by
  unfold descPath
  rw [pathAt]
  simp only [if_neg (show ¬ l = rootAt o (k + 1) by omega), if_pos h, List.map_append,
    List.map_cons, List.map_nil, List.reverse_append, List.reverse_cons, List.reverse_nil,
    List.nil_append, List.cons_append]

theorem descPath_right (o k l : Nat) (h : rootAt o (k + 1) < l) :
    descPath o (k + 1) l = rootAt o (k + 1) :: descPath (rightOff o k) k l := by
  unfold descPath
  rw [pathAt]
  simp only [if_neg (show ¬ l = rootAt o (k + 1) by omega),
    if_neg (show ¬ l < rootAt o (k + 1) by omega), List.map_append,
    List.map_cons, List.map_nil, List.reverse_append, List.reverse_cons, List.reverse_nil,
    List.nil_append, List.cons_append]

/-- the code's `left`/`right` of the root of an aligned subtree -/
theorem root_children (k m : Nat) :
    left? (rootAt (2 ^ (k + 1 + 1) * m) (k + 1)) = some (rootAt (2 ^ (k + 1 + 1) * m) k) ∧
    right? (rootAt (2 ^ (k + 1 + 1) * m) (k + 1)) =
      some (rootAt (rightOff (2 ^ (k + 1 + 1) * m) k) k) := by
  have hin := InSub_root (2 ^ (k + 1 + 1) * m) (k + 1)
  have h1 := leftAt_eq (k + 1) m _ hin.1 hin.2
  have h2 := rightAt_eq (k + 1) m _ hin.1 hin.2
  rw [leftAt] at h1
  rw [rightAt] at h2
  simp only [if_true] at h1 h2
  exact ⟨h1.symm, h2.symm⟩

/-- every stored entry at a parent (odd) index is an unconsumed secret -/
def OddSecret (known : List (Nat × Node B)) : Prop :=
  ∀ e ∈ known, e.1 % 2 = 1 → ∃ s, e.2 = .secret s

theorem consumeNode_absent (P : Prim B) (t : SecretTree B) (i : Nat) (h : ¬ hasKey t.known i) :
    t.consumeNode P i = (.ok (), t) := by
  rw [consumeNode_eq, (mapRemove_none_iff _ _).2 h, mapRemove_snd_of_not_hasKey _ _ h]

theorem consumeNode_secret (P : Prim B) (t : SecretTree B) (i l r : Nat) (s : B)
    (h : (mapRemove t.known i).1 = some (.secret s)) (hl : left? i = some l)
    (hr : right? i = some r) :
    t.consumeNode P i = (.ok (),
      { known := mapInsert (mapInsert (mapRemove t.known i).2 l (.secret (treeLeft P s))) r
          (.secret (treeRight P s)),
        leafCount := t.leafCount }) := by
  rw [consumeNode_eq, h, hl, hr]

theorem consumePath_cons_ok (P : Prim B) (i : Nat) (rest : List Nat) (t t' : SecretTree B)
    (h : t.consumeNode P i = (.ok (), t')) :
    SecretTree.consumePath P (i :: rest) t = SecretTree.consumePath P rest t' := by
  simp only [SecretTree.consumePath, h]

theorem hasKey_congr_mapGet {V : Type} (m m' : List (Nat × V)) (x : Nat)
    (h : mapGet m' x = mapGet m x) : hasKey m' x ↔ hasKey m x := by
  rw [← mapGet_isSome_iff, ← mapGet_isSome_iff, h]

theorem aligned_even (k m : Nat) : (2 ^ (k + 1) * m) % 2 = 0 := by
  rw [pow_succ', Nat.mul_assoc]; omega

/-- consuming the root of a frontier subtree: afterwards the root is not stored and both child
subtrees are frontiers; nothing outside the subtree and no stored leaf is touched -/
theorem root_step (P : Prim B) (k o m : Nat) (ho : o = 2 ^ (k + 1 + 1) * m) (t : SecretTree B)
    (hodd : OddSecret t.known) (hf : Front (hasKey t.known) o (k + 1)) :
    ∃ t1, t.consumeNode P (rootAt o (k + 1)) = (.ok (), t1) ∧ t1.leafCount = t.leafCount ∧
      OddSecret t1.known ∧ ¬ hasKey t1.known (rootAt o (k + 1)) ∧
      Front (hasKey t1.known) o k ∧ Front (hasKey t1.known) (rightOff o k) k ∧
      ∀ x, (¬ InSub o (k + 1) x ∨ (x % 2 = 0 ∧ hasKey t.known x)) →
        mapGet t1.known x = mapGet t.known x := by
  rcases hf with ⟨h1, h2⟩ | ⟨h1, h2, h3⟩
  · -- the root is stored: it is a secret (parent index), and it is replaced by its two children
    have hrodd : rootAt o (k + 1) % 2 = 1 := rootAt_odd o k (by rw [ho]; exact aligned_even _ m)
    obtain ⟨hl, hr⟩ := root_children k m
    rw [← ho] at hl hr
    cases hv : (mapRemove t.known (rootAt o (k + 1))).1 with
    | none => exact absurd h1 ((mapRemove_none_iff _ _).1 hv)
    | some v =>
      obtain ⟨s, hs⟩ := hodd _ (mapRemove_some _ _ _ hv) hrodd
      simp only at hs
      subst hs
      -- positions of the three nodes
      have hL := InSub_root o k
      have hR := InSub_root (rightOff o k) k
      have hpos : rootAt o k < rootAt o (k + 1) ∧ rootAt o (k + 1) < rootAt (rightOff o k) k := by
        have := pow_succ' k
        have := Nat.two_pow_pos k
        unfold rootAt rightOff
        omega
      refine ⟨_, consumeNode_secret P t _ _ _ s hv hl hr, rfl, ?_, ?_, ?_, ?_, ?_⟩
      all_goals simp only
      · intro e he hpar
        simp only [mem_mapInsert, mem_mapRemove] at he
        rcases he with he | ⟨he | ⟨⟨he, _⟩, _⟩, _⟩
        · subst he; exact ⟨_, rfl⟩
        · subst he; exact ⟨_, rfl⟩
        · exact hodd e he hpar
      · simp only [hasKey_mapInsert, hasKey_mapRemove]
        rintro (h | h | ⟨_, h⟩)
        · omega
        · omega
        · exact h rfl
      · apply front_single
        · exact (hasKey_mapInsert _ _ _ _).2 (Or.inr ((hasKey_mapInsert _ _ _ _).2 (Or.inl rfl)))
        · intro x hx hne
          simp only [hasKey_mapInsert, hasKey_mapRemove]
          rintro (h | h | ⟨h, h'⟩)
          · subst h; unfold InSub at hx hR; unfold rightOff at hx hR; omega
          · exact hne h
          · exact h2 x (InSub_left o k x hx) h' h
      · apply front_single
        · exact (hasKey_mapInsert _ _ _ _).2 (Or.inl rfl)
        · intro x hx hne
          simp only [hasKey_mapInsert, hasKey_mapRemove]
          rintro (h | h | ⟨h, h'⟩)
          · exact hne h
          · subst h; unfold InSub at hx hL; unfold rightOff at hx; omega
          · exact h2 x (InSub_right o k x hx) h' h
      · intro x hx
        have hout : ¬ InSub o (k + 1) x ∨ x % 2 = 0 := by
          rcases hx with hx | hx
          · exact Or.inl hx
          · exact Or.inr hx.1
        have hne : x ≠ rootAt o (k + 1) ∧ x ≠ rootAt o k ∧ x ≠ rootAt (rightOff o k) k := by
          by_cases hin : InSub o (k + 1) x
          · rcases hx with hx | hx
            · exact absurd hin hx
            · by_cases hxr : x = rootAt o (k + 1)
              · omega
              · exact absurd hx.2 (h2 x hin hxr)
          · refine ⟨?_, ?_, ?_⟩ <;> intro h <;> subst h
            · exact hin (InSub_root o (k + 1))
            · exact hin (InSub_left o k _ hL)
            · exact hin (InSub_right o k _ hR)
        rw [mapGet_mapInsert_ne _ _ _ _ hne.2.2, mapGet_mapInsert_ne _ _ _ _ hne.2.1,
          mapGet_mapRemove_ne _ _ _ hne.1]
  · exact ⟨t, consumeNode_absent P t _ h1, rfl, hodd, h1, h2, h3, fun x _ => rfl⟩

/-- Walking down from the root of a frontier subtree towards leaf `l`, consuming the nodes on the
way (`take_leaf_ratchet`'s loop), never fails, leaves a frontier in which `l` itself is stored,
and touches nothing outside the subtree and no leaf that was already stored. -/
theorem consumePath_front (P : Prim B) (k : Nat) : ∀ (o m l : Nat) (t : SecretTree B),
    o = 2 ^ (k + 1) * m → l % 2 = 0 → InSub o k l → OddSecret t.known →
    Front (hasKey t.known) o k →
    ∃ t', SecretTree.consumePath P (descPath o k l) t = (.ok (), t') ∧
      t'.leafCount = t.leafCount ∧ OddSecret t'.known ∧ Front (hasKey t'.known) o k ∧
      hasKey t'.known l ∧
      ∀ x, (¬ InSub o k x ∨ (x % 2 = 0 ∧ hasKey t.known x)) →
        mapGet t'.known x = mapGet t.known x := by
  induction k with
  | zero =>
    intro o m l t ho hl hin hodd hf
    have : l = o := by unfold InSub at hin; omega
    subst this
    exact ⟨t, rfl, rfl, hodd, hf, hf, fun x _ => rfl⟩
  | succ k ih =>
    intro o m l t ho hl hin hodd hf
    have hrodd : rootAt o (k + 1) % 2 = 1 := rootAt_odd o k (by rw [ho]; exact aligned_even _ m)
    obtain ⟨t1, hc1, hlc1, hodd1, hnr1, hfl1, hfr1, hfr⟩ := root_step P k o m ho t hodd hf
    have hkeep : ∀ x, x % 2 = 0 → hasKey t.known x → hasKey t1.known x := fun x hx hk =>
      (hasKey_congr_mapGet _ _ x (hfr x (Or.inr ⟨hx, hk⟩))).2 hk
    have hdisj : ∀ x, ¬ (InSub o k x ∧ InSub (rightOff o k) k x) := by
      intro x; unfold InSub rightOff; omega
    rcases InSub_cases o k l hin with h | ⟨hlt, hin'⟩ | ⟨hgt, hin'⟩
    · omega
    · obtain ⟨t2, hc2, hlc2, hodd2, hf2, hl2, hfr2⟩ :=
        ih o (2 * m) l t1 (by rw [ho]; exact off_left k m) hl hin' hodd1 hfl1
      refine ⟨t2, ?_, by rw [hlc2, hlc1], hodd2, Or.inr ⟨?_, hf2, ?_⟩, hl2, ?_⟩
      · rw [descPath_left o k l hlt, consumePath_cons_ok P _ _ t t1 hc1, hc2]
      · have hout : ¬ InSub o k (rootAt o (k + 1)) := by
          have := pow_succ' k; have := Nat.two_pow_pos k
          unfold InSub rootAt; omega
        rw [hasKey_congr_mapGet _ _ _ (hfr2 _ (Or.inl hout))]; exact hnr1
      · refine front_congr _ _ _ _ (fun x hx => ?_) hfr1
        have hout : ¬ InSub o k x := fun h => hdisj x ⟨h, hx⟩
        exact (hasKey_congr_mapGet _ _ _ (hfr2 _ (Or.inl hout))).symm
      · intro x hx
        rcases hx with hx | hx
        · rw [hfr2 x (Or.inl (fun h => hx (InSub_left o k x h))), hfr x (Or.inl hx)]
        · rw [hfr2 x (Or.inr ⟨hx.1, hkeep x hx.1 hx.2⟩), hfr x (Or.inr hx)]
    · obtain ⟨t2, hc2, hlc2, hodd2, hf2, hl2, hfr2⟩ :=
        ih (rightOff o k) (2 * m + 1) l t1 (by rw [ho]; exact off_right k m) hl hin' hodd1 hfr1
      refine ⟨t2, ?_, by rw [hlc2, hlc1], hodd2, Or.inr ⟨?_, ?_, hf2⟩, hl2, ?_⟩
      · rw [descPath_right o k l hgt, consumePath_cons_ok P _ _ t t1 hc1, hc2]
      · have hout : ¬ InSub (rightOff o k) k (rootAt o (k + 1)) := by
          have := pow_succ' k; have := Nat.two_pow_pos k
          unfold InSub rootAt rightOff; omega
        rw [hasKey_congr_mapGet _ _ _ (hfr2 _ (Or.inl hout))]; exact hnr1
      · refine front_congr _ _ _ _ (fun x hx => ?_) hfl1
        have hout : ¬ InSub (rightOff o k) k x := fun h => hdisj x ⟨hx, h⟩
        exact (hasKey_congr_mapGet _ _ _ (hfr2 _ (Or.inl hout))).symm
      · intro x hx
        rcases hx with hx | hx
        · rw [hfr2 x (Or.inl (fun h => hx (InSub_right o k x h))), hfr x (Or.inl hx)]
        · rw [hfr2 x (Or.inr ⟨hx.1, hkeep x hx.1 hx.2⟩), hfr x (Or.inr hx)]

/-- The shape invariant of the stored map: the stored indices form a frontier of the whole tree
and every stored parent entry is an unconsumed secret. -/
def FInv (k : Nat) (t : SecretTree B) : Prop :=
  t.leafCount = 2 ^ k ∧ OddSecret t.known ∧ Front (hasKey t.known) 0 k

theorem FInv_new (k : Nat) (enc : B) : FInv k (SecretTree.new (2 ^ k) enc) := by
  refine ⟨rfl, fun e he _ => ?_, ?_⟩
  · simp only [SecretTree.new, List.mem_singleton] at he
    subst he; exact ⟨_, rfl⟩
  · apply front_single
    · exact ⟨.secret enc, by simp [SecretTree.new, root_eq]⟩
    · rintro x _ hne ⟨v, hv⟩
      simp only [SecretTree.new, List.mem_singleton, Prod.mk.injEq, root_eq] at hv
      exact hne hv.1

/-- an index is a leaf of the tree with `2^k` leaves -/
def IsLeafOf (k i : Nat) : Prop := i % 2 = 0 ∧ i < 2 ^ (k + 1) - 1

theorem takeLeafRatchet_front (P : Prim B) (k : Nat) (t : SecretTree B) (l : Nat)
    (h : FInv k t) (hl : IsLeafOf k l) :
    ∃ ah t', t.takeLeafRatchet P l = (.ok ah, t') ∧ t'.leafCount = 2 ^ k ∧ OddSecret t'.known ∧
      (∀ n, Front (hasKey (mapInsert t'.known l n)) 0 k) ∧
      (∀ x, x ≠ l → x % 2 = 0 → hasKey t.known x → mapGet t'.known x = mapGet t.known x) ∧
      (∀ n, mapGet t.known l = some n → ah = toRatchets P n) := by
  obtain ⟨hlc, hodd, hf⟩ := h
  -- removing `l` from a map that has it and putting something back does not change the key set
  have key : ∀ (known : List (Nat × Node B)), hasKey known l → OddSecret known →
      Front (hasKey known) 0 k →
      OddSecret (mapRemove known l).2 ∧
      ∀ n, Front (hasKey (mapInsert (mapRemove known l).2 l n)) 0 k := by
    intro known hk ho hfr
    refine ⟨fun e he => ho e ((mem_mapRemove _ _ _).1 he).1, fun n => ?_⟩
    refine front_congr _ _ _ _ (fun x _ => ?_) hfr
    simp only [hasKey_mapInsert, hasKey_mapRemove]
    constructor
    · intro hx
      by_cases hxl : x = l
      · exact Or.inl hxl
      · exact Or.inr ⟨hx, hxl⟩
    · rintro (hx | hx)
      · rw [hx]; exact hk
      · exact hx.1
  rw [takeLeafRatchet_eq]
  cases hv : (mapRemove t.known l).1 with
  | some node =>
    have hk : hasKey t.known l := ⟨node, mapRemove_some _ _ _ hv⟩
    have := key t.known hk hodd hf
    refine ⟨_, _, rfl, hlc, this.1, this.2, fun x hx _ _ => mapGet_mapRemove_ne _ _ _ hx, ?_⟩
    intro n hn
    rw [mapGet_eq_mapRemove, hv] at hn
    cases hn; rfl
  | none =>
    have hnk : ¬ hasKey t.known l := (mapRemove_none_iff _ _).1 hv
    have hpath : ((directCopath l t.leafCount).map (·.1)).reverse = descPath 0 k l := by
      rw [hlc, directCopath_eq k l hl.2]; rfl
    obtain ⟨t2, hc2, hlc2, hodd2, hf2, hl2, hfr2⟩ :=
      consumePath_front P k 0 0 l t (by simp) hl.1 ⟨Nat.zero_le _, by simpa using hl.2⟩ hodd hf
    simp only [hpath, hc2]
    cases hv2 : (mapRemove t2.known l).1 with
    | none => exact absurd hl2 ((mapRemove_none_iff _ _).1 hv2)
    | some node =>
      have := key t2.known hl2 hodd2 hf2
      refine ⟨_, _, rfl, by rw [hlc2, hlc], this.1, this.2, fun x hx hxe hxk => ?_, ?_⟩
      · simp only
        rw [mapGet_mapRemove_ne _ _ _ hx, hfr2 x (Or.inr ⟨hxe, hxk⟩)]
      · intro n hn
        exact absurd ⟨n, mapGet_some_mem _ _ _ hn⟩ hnk

/-- errors of `get_message_key` are never the tree errors -/
theorem get_err_kind (P : Prim B) (r : Ratchet B) (g : Nat) (e : Err)
    (h : (r.get P g).1 = .error e) :
    e = .keyMissing g ∨ e = .overflow ∨ e = .invalidFutureGeneration g := by
  rcases get_cases P r g with ⟨_, k, _, e'⟩ | ⟨_, _, e'⟩ | ⟨_, _, e'⟩ | ⟨_, _, e'⟩ | ⟨_, _, _, e'⟩
  · rw [e'] at h; cases h
  · rw [e'] at h; cases h; exact Or.inl rfl
  · rw [e'] at h; cases h; exact Or.inr (Or.inl rfl)
  · rw [e'] at h; cases h; exact Or.inr (Or.inr rfl)
  · rw [e'] at h; cases h

/-- the ratchet of key type `kt` at node `i` as the tree would hand it out now (a stored,
not yet started leaf secret counts as its two fresh ratchets) -/
def ratchetAt (P : Prim B) (t : SecretTree B) (i : Nat) (kt : KeyType) : Option (Ratchet B) :=
  (mapGet t.known i).map fun n => sel kt (toRatchets P n)

theorem toRatchets_ratchet (P : Prim B) (a h : Ratchet B) :
    toRatchets P (.ratchet a h) = (a, h) := rfl

theorem sel_upd_self (kt : KeyType) (ah : Ratchet B × Ratchet B) (r : Ratchet B) :
    sel kt (upd kt ah r) = r := by cases kt <;> rfl

theorem sel_upd_ne (kt kt' : KeyType) (ah : Ratchet B × Ratchet B) (r : Ratchet B)
    (h : kt ≠ kt') : sel kt (upd kt' ah r) = sel kt ah := by
  cases kt <;> cases kt' <;> first | rfl | exact absurd rfl h

/-- what one request at a leaf does, given the ratchets `ah` handed out by `take_leaf_ratchet` -/
theorem step_eq_of_take (P : Prim B) (t t' : SecretTree B) (q : Req) (ah : Ratchet B × Ratchet B)
    (h : t.takeLeafRatchet P q.idx = (.ok ah, t')) :
    (∃ i kt g, q = .get i kt g ∧ Refused t i g ∧
      t.step P q = (.error (.invalidFutureGeneration g), t)) ∨
    ∃ (res : Except Err (MsgKey B)) (r' : Ratchet B),
      t.step P q = (res,
        { known := mapInsert t'.known q.idx (.ratchet (upd q.kt ah r').1 (upd q.kt ah r').2),
          leafCount := t'.leafCount }) ∧
      ((∃ i kt, q = .next i kt ∧ res = .ok ((sel q.kt ah).next P).1 ∧ r' = ((sel q.kt ah).next P).2) ∨
       (∃ i kt g, q = .get i kt g ∧ res = ((sel q.kt ah).get P g).1 ∧
          r' = ((sel q.kt ah).get P g).2)) := by
  cases q with
  | next i kt =>
    simp only [Req.idx] at h
    refine Or.inr ⟨_, _, ?_, Or.inl ⟨i, kt, rfl, rfl, rfl⟩⟩
    simp only [SecretTree.step, nextMessageKey_eq, h, Req.idx, Req.kt]
  | get i kt g =>
    simp only [Req.idx] at h
    by_cases hc : Refused t i g
    · exact Or.inl ⟨i, kt, g, rfl, hc, messageKeyGeneration_refused P t i kt g hc⟩
    refine Or.inr ⟨_, _, ?_, Or.inr ⟨i, kt, g, rfl, rfl, rfl⟩⟩
    simp only [SecretTree.step, messageKeyGeneration_not_refused P t i kt g hc,
      messageKeyGenerationOld_eq, h, Req.idx, Req.kt]

/-- one request at a leaf of the tree: the shape invariant is kept, the request does not fail
with a tree error, the leaf is stored afterwards unless the request was refused early (repaired
`message_key_generation`: then the tree is unchanged), and no other (leaf, key type) ratchet is
touched -/
theorem step_FInv (P : Prim B) (k : Nat) (t : SecretTree B) (q : Req)
    (h : FInv k t) (hq : IsLeafOf k q.idx) :
    FInv k (t.step P q).2 ∧
    (t.step P q).1 ≠ .error .leafNodeNoChildren ∧
    (t.step P q).1 ≠ .error .invalidLeafConsumption ∧
    (hasKey (t.step P q).2.known q.idx ∨
      ∃ i kt g, q = .get i kt g ∧ Refused t i g ∧
        t.step P q = (.error (.invalidFutureGeneration g), t)) ∧
    (∀ i kt, i % 2 = 0 → hasKey t.known i → (i ≠ q.idx ∨ kt ≠ q.kt) →
      hasKey (t.step P q).2.known i ∧ ratchetAt P (t.step P q).2 i kt = ratchetAt P t i kt) := by
  obtain ⟨ah, t', htake, hlc', hodd', hf', hfr', hah⟩ := takeLeafRatchet_front P k t q.idx h hq
  rcases step_eq_of_take P t t' q ah htake with ⟨i, kt, g, hq', hc, hstep⟩ | ⟨res, r', hstep, hres⟩
  · -- refused early: the tree is returned as it is
    rw [hstep]
    exact ⟨h, (fun hc => by cases hc), (fun hc => by cases hc),
      Or.inr ⟨i, kt, g, hq', hc, rfl⟩, fun i' kt' _ hk _ => ⟨hk, rfl⟩⟩
  rw [hstep]
  refine ⟨⟨hlc', ?_, hf' _⟩, ?_, ?_, Or.inl ((hasKey_mapInsert _ _ _ _).2 (Or.inl rfl)), ?_⟩
  · intro e he hpar
    simp only [mem_mapInsert] at he
    rcases he with he | ⟨he, _⟩
    · subst he; have := hq.1; simp only at hpar; omega
    · exact hodd' e he hpar
  · rcases hres with ⟨i, kt, _, hr, _⟩ | ⟨i, kt, g, _, hr, _⟩
    · rw [hr]; intro hc; cases hc
    · rw [hr]; intro hc
      rcases get_err_kind P _ g _ hc with h | h | h <;> cases h
  · rcases hres with ⟨i, kt, _, hr, _⟩ | ⟨i, kt, g, _, hr, _⟩
    · rw [hr]; intro hc; cases hc
    · rw [hr]; intro hc
      rcases get_err_kind P _ g _ hc with h | h | h <;> cases h
  · intro i kt hi hk hne
    simp only
    by_cases hiq : i = q.idx
    · subst hiq
      have hkt : kt ≠ q.kt := by
        rcases hne with hne | hne
        · exact absurd rfl hne
        · exact hne
      refine ⟨(hasKey_mapInsert _ _ _ _).2 (Or.inl rfl), ?_⟩
      obtain ⟨n, hn⟩ := hk
      -- the first entry for the key is what `mapGet` returns
      cases hg : mapGet t.known q.idx with
      | none => exact absurd ⟨n, hn⟩ ((mapRemove_none_iff _ _).1 hg)
      | some n' =>
        have := hah n' hg
        simp only [ratchetAt, mapGet_mapInsert_self, hg, Option.map_some, toRatchets_ratchet]
        rw [← this]
        exact congrArg some (sel_upd_ne kt q.kt ah r' hkt)
    · have h1 := hfr' i hiq hi hk
      refine ⟨(hasKey_mapInsert _ _ _ _).2 (Or.inr ((hasKey_congr_mapGet _ _ _ h1).2 hk)), ?_⟩
      simp only [ratchetAt]
      rw [mapGet_mapInsert_ne _ _ _ _ hiq, h1]

/-- `next_message_key` at a leaf of a shape-invariant tree succeeds; the key's generation is the
generation of the leaf's current ratchet, and the ratchet stored afterwards is one further -/
theorem step_next_at (P : Prim B) (k : Nat) (t : SecretTree B) (i : Nat) (kt : KeyType)
    (h : FInv k t) (hq : IsLeafOf k i) :
    ∃ key ρ, (t.step P (.next i kt)).1 = .ok key ∧
      ratchetAt P (t.step P (.next i kt)).2 i kt = some ρ ∧ ρ.generation = key.generation + 1 ∧
      ∀ ρ0, ratchetAt P t i kt = some ρ0 → key.generation = ρ0.generation := by
  obtain ⟨ah, t', htake, hlc', hodd', hf', hfr', hah⟩ := takeLeafRatchet_front P k t i h hq
  refine ⟨((sel kt ah).next P).1, ((sel kt ah).next P).2, ?_, ?_, rfl, ?_⟩
  · simp only [SecretTree.step, nextMessageKey_eq, htake]
  · simp only [SecretTree.step, nextMessageKey_eq, htake, ratchetAt, mapGet_mapInsert_self,
      Option.map_some, toRatchets_ratchet]
    exact congrArg some (sel_upd_self kt ah _)
  · intro ρ0 hρ
    simp only [ratchetAt] at hρ
    cases hg : mapGet t.known i with
    | none => rw [hg] at hρ; cases hρ
    | some n =>
      rw [hg] at hρ
      simp only [Option.map_some, Option.some.injEq] at hρ
      rw [← hρ, hah n hg]; rfl

theorem run_cons (P : Prim B) (t : SecretTree B) (q : Req) (qs : List Req) :
    SecretTree.run P t (q :: qs) =
      ((q, (t.step P q).1) :: (SecretTree.run P (t.step P q).2 qs).1,
        (SecretTree.run P (t.step P q).2 qs).2) := rfl

theorem run_FInv (P : Prim B) (k : Nat) (qs : List Req) (t : SecretTree B) (h : FInv k t)
    (hqs : ∀ q ∈ qs, IsLeafOf k q.idx) :
    FInv k (SecretTree.run P t qs).2 ∧
    ∀ q res, (q, res) ∈ (SecretTree.run P t qs).1 →
      res ≠ .error .leafNodeNoChildren ∧ res ≠ .error .invalidLeafConsumption := by
  induction qs generalizing t with
  | nil => exact ⟨h, fun q res hm => by cases hm⟩
  | cons q qs ih =>
    have hs := step_FInv P k t q h (hqs q List.mem_cons_self)
    have ih' := ih (t.step P q).2 hs.1 (fun q' hq' => hqs q' (List.mem_cons_of_mem _ hq'))
    rw [run_cons]
    refine ⟨ih'.1, fun q' res hm => ?_⟩
    rcases List.mem_cons.1 hm with hm | hm
    · cases hm; exact ⟨hs.2.1, hs.2.2.1⟩
    · exact ih'.2 q' res hm

/-- requests that are not for (`i`, `kt`) leave the ratchet of (`i`, `kt`) as it was -/
theorem run_frame (P : Prim B) (k : Nat) (i : Nat) (kt : KeyType) (hi : i % 2 = 0)
    (qs : List Req) (t : SecretTree B) (h : FInv k t) (hk : hasKey t.known i)
    (hqs : ∀ q ∈ qs, IsLeafOf k q.idx ∧ (q.idx ≠ i ∨ q.kt ≠ kt)) :
    FInv k (SecretTree.run P t qs).2 ∧ hasKey (SecretTree.run P t qs).2.known i ∧
    ratchetAt P (SecretTree.run P t qs).2 i kt = ratchetAt P t i kt := by
  induction qs generalizing t with
  | nil => exact ⟨h, hk, rfl⟩
  | cons q qs ih =>
    have hq := hqs q List.mem_cons_self
    have hs := step_FInv P k t q h hq.1
    have hfr := hs.2.2.2.2 i kt hi hk (by
      rcases hq.2 with h' | h'
      · exact Or.inl (fun e => h' e.symm)
      · exact Or.inr (fun e => h' e.symm))
    have ih' := ih (t.step P q).2 hs.1 hfr.1 (fun q' hq' => hqs q' (List.mem_cons_of_mem _ hq'))
    rw [run_cons]
    exact ⟨ih'.1, ih'.2.1, by rw [ih'.2.2, hfr.2]⟩

/-! The association list behaves like the `HashMap` it models: keys stay distinct. -/

def KNodup (t : SecretTree B) : Prop := (t.known.map (·.1)).Nodup

theorem nodup_filter_keys {V : Type} (m : List (Nat × V)) (p : Nat × V → Bool)
    (h : (m.map (·.1)).Nodup) : ((m.filter p).map (·.1)).Nodup :=
  (List.filter_sublist.map _).nodup h

theorem nodup_mapRemove {V : Type} (m : List (Nat × V)) (k : Nat) (h : (m.map (·.1)).Nodup) :
    ((mapRemove m k).2.map (·.1)).Nodup := nodup_filter_keys m _ h

theorem nodup_mapInsert {V : Type} (m : List (Nat × V)) (k : Nat) (v : V)
    (h : (m.map (·.1)).Nodup) : ((mapInsert m k v).map (·.1)).Nodup := by
  simp only [mapInsert, List.map_cons]
  refine List.nodup_cons.2 ⟨?_, nodup_filter_keys m _ h⟩
  intro hm
  obtain ⟨e, he, hek⟩ := List.mem_map.1 hm
  have := (List.mem_filter.1 he).2
  simp [hek] at this

theorem consumeNode_KNodup (P : Prim B) (t : SecretTree B) (i : Nat) (h : KNodup t) :
    KNodup (t.consumeNode P i).2 := by
  rw [consumeNode_eq]
  have hr := nodup_mapRemove t.known i h
  split
  · split
    · exact nodup_mapInsert _ _ _ (nodup_mapInsert _ _ _ hr)
    · exact hr
  · exact hr

theorem consumePath_KNodup (P : Prim B) (path : List Nat) (t : SecretTree B) (h : KNodup t) :
    KNodup (SecretTree.consumePath P path t).2 := by
  induction path generalizing t with
  | nil => exact h
  | cons i rest ih =>
    have h1 := consumeNode_KNodup P t i h
    simp only [SecretTree.consumePath]
    split
    · rename_i t' heq; rw [heq] at h1; exact ih t' h1
    · rename_i e t' heq; rw [heq] at h1; exact h1

theorem takeLeafRatchet_KNodup (P : Prim B) (t : SecretTree B) (i : Nat) (h : KNodup t) :
    KNodup (t.takeLeafRatchet P i).2 := by
  rw [takeLeafRatchet_eq]
  split
  · exact nodup_mapRemove t.known i h
  · have hp := consumePath_KNodup P ((directCopath i t.leafCount).map (·.1)).reverse t h
    split
    · rename_i e t' heq; rw [heq] at hp; exact hp
    · rename_i t' heq
      rw [heq] at hp
      split
      · exact nodup_mapRemove t'.known i hp
      · exact hp

theorem step_KNodup (P : Prim B) (t : SecretTree B) (q : Req) (h : KNodup t) :
    KNodup (t.step P q).2 := by
  cases q with
  | next i kt =>
    simp only [SecretTree.step, nextMessageKey_eq]
    have ht := takeLeafRatchet_KNodup P t i h
    split
    · rename_i e t' heq; rw [heq] at ht; exact ht
    · rename_i ah t' heq; rw [heq] at ht; exact nodup_mapInsert _ _ _ ht
  | get i kt g =>
    simp only [SecretTree.step, messageKeyGeneration_eq]
    split
    · exact h
    simp only [messageKeyGenerationOld_eq]
    have ht := takeLeafRatchet_KNodup P t i h
    split
    · rename_i e t' heq; rw [heq] at ht; exact ht
    · rename_i ah t' heq; rw [heq] at ht; exact nodup_mapInsert _ _ _ ht

theorem run_KNodup (P : Prim B) (qs : List Req) (t : SecretTree B) (h : KNodup t) :
    KNodup (SecretTree.run P t qs).2 := by
  induction qs generalizing t with
  | nil => exact h
  | cons q qs ih => rw [run_cons]; exact ih _ (step_KNodup P t q h)


/-! ### §6b the repaired `message_key_generation`: early refusal vs. the old body -/

section Repair

theorem mapGet_mapRemove_self {V : Type} (m : List (Nat × V)) (k : Nat) :
    mapGet (mapRemove m k).2 k = none := by
  rw [mapGet_eq_mapRemove]
  apply (mapRemove_none_iff _ _).2
  rw [hasKey_mapRemove]
  exact fun h => h.2 rfl

/-- re-inserting the value that a key already has changes no lookup -/
theorem mapGet_reinsert {V : Type} (m : List (Nat × V)) (k : Nat) (v : V)
    (h : mapGet m k = some v) (x : Nat) :
    mapGet (mapInsert (mapRemove m k).2 k v) x = mapGet m x := by
  by_cases hx : x = k
  · subst hx; rw [mapGet_mapInsert_self, h]
  · rw [mapGet_mapInsert_ne _ _ _ _ hx, mapGet_mapRemove_ne _ _ _ hx]

/-- no ratchets are stored at `i`: no entry, or a `Secret` entry -/
def NoRatchet (known : List (Nat × Node B)) (i : Nat) : Prop :=
  ∀ a h, mapGet known i ≠ some (.ratchet a h)

theorem hasRatchet_eq_false_iff (t : SecretTree B) (i : Nat) :
    t.hasRatchet i = false ↔ NoRatchet t.known i := by
  unfold SecretTree.hasRatchet NoRatchet
  cases mapGet t.known i with
  | none => simp
  | some n => cases n <;> simp

theorem hasRatchet_eq_true_iff (t : SecretTree B) (i : Nat) :
    t.hasRatchet i = true ↔ ∃ a h, mapGet t.known i = some (.ratchet a h) := by
  unfold SecretTree.hasRatchet
  cases mapGet t.known i with
  | none => simp
  | some n => cases n <;> simp

theorem NoRatchet_mapRemove (known : List (Nat × Node B)) (i j : Nat) (h : NoRatchet known i) :
    NoRatchet (mapRemove known j).2 i := by
  intro a hh
  by_cases hij : i = j
  · subst hij; rw [mapGet_mapRemove_self]; exact fun hc => by cases hc
  · rw [mapGet_mapRemove_ne _ _ _ hij]; exact h a hh

theorem NoRatchet_mapInsert_secret (known : List (Nat × Node B)) (i j : Nat) (s : B)
    (h : NoRatchet known i) : NoRatchet (mapInsert known j (.secret s)) i := by
  intro a hh
  by_cases hij : i = j
  · subst hij; rw [mapGet_mapInsert_self]; exact fun hc => by cases hc
  · rw [mapGet_mapInsert_ne _ _ _ _ hij]; exact h a hh

/-- `consume_node` only ever stores `Secret` entries -/
theorem consumeNode_NoRatchet (P : Prim B) (t : SecretTree B) (i j : Nat)
    (h : NoRatchet t.known i) : NoRatchet (t.consumeNode P j).2.known i := by
  rw [consumeNode_eq]
  have hr := NoRatchet_mapRemove t.known i j h
  split
  · split
    · exact NoRatchet_mapInsert_secret _ _ _ _ (NoRatchet_mapInsert_secret _ _ _ _ hr)
    · exact hr
  · exact hr

theorem consumePath_NoRatchet (P : Prim B) (path : List Nat) (t : SecretTree B) (i : Nat)
    (h : NoRatchet t.known i) : NoRatchet (SecretTree.consumePath P path t).2.known i := by
  induction path generalizing t with
  | nil => exact h
  | cons j rest ih =>
    have h1 := consumeNode_NoRatchet P t i j h
    simp only [SecretTree.consumePath]
    split
    · rename_i t' heq; rw [heq] at h1; exact ih t' h1
    · rename_i e t' heq; rw [heq] at h1; exact h1

theorem consumeNode_err (P : Prim B) (t : SecretTree B) (j : Nat) (e : Err)
    (h : (t.consumeNode P j).1 = .error e) : e = .leafNodeNoChildren := by
  rw [consumeNode_eq] at h
  split at h
  · split at h
    · cases h
    · cases h; rfl
  · cases h

theorem consumePath_err (P : Prim B) (path : List Nat) (t : SecretTree B) (e : Err)
    (h : (SecretTree.consumePath P path t).1 = .error e) : e = .leafNodeNoChildren := by
  induction path generalizing t with
  | nil => cases h
  | cons j rest ih =>
    simp only [SecretTree.consumePath] at h
    split at h
    · rename_i t' heq; exact ih t' h
    · rename_i e' t' heq
      cases h
      exact consumeNode_err P t j _ (by rw [heq])

/-- the only errors of `take_leaf_ratchet` are the two tree errors -/
theorem takeLeafRatchet_err (P : Prim B) (t t' : SecretTree B) (i : Nat) (e : Err)
    (h : t.takeLeafRatchet P i = (.error e, t')) :
    e = .leafNodeNoChildren ∨ e = .invalidLeafConsumption := by
  rw [takeLeafRatchet_eq] at h
  split at h
  · cases h
  · split at h
    · rename_i e' t'' heq
      cases h
      exact Or.inl (consumePath_err P _ t _ (by rw [heq]))
    · split at h
      · cases h
      · cases h; exact Or.inr rfl

/-- if no ratchets are stored at `i`, the ratchets `take_leaf_ratchet` hands out (if it succeeds)
are freshly derived from a node secret: both at generation 0 with empty history -/
theorem takeLeafRatchet_fresh (P : Prim B) (t t' : SecretTree B) (i : Nat)
    (ah : Ratchet B × Ratchet B) (hn : NoRatchet t.known i)
    (h : t.takeLeafRatchet P i = (.ok ah, t')) :
    ∃ s, ah = (Ratchet.new P s .application, Ratchet.new P s .handshake) := by
  have key : ∀ (known : List (Nat × Node B)) (node : Node B), NoRatchet known i →
      (mapRemove known i).1 = some node →
      ∃ s, toRatchets P node = (Ratchet.new P s .application, Ratchet.new P s .handshake) := by
    intro known node hk hv
    cases node with
    | secret s => exact ⟨s, rfl⟩
    | ratchet a hh => exact absurd hv (hk a hh)
  rw [takeLeafRatchet_eq] at h
  split at h
  · rename_i node hv
    cases h
    exact key t.known node hn hv
  · have hp := consumePath_NoRatchet P ((directCopath i t.leafCount).map (·.1)).reverse t i hn
    split at h
    · cases h
    · rename_i t'' heq
      rw [heq] at hp
      split at h
      · rename_i node hv
        cases h
        exact key t''.known node hp hv
      · cases h

theorem sel_new (P : Prim B) (s : B) (kt : KeyType) :
    sel kt (Ratchet.new P s .application, Ratchet.new P s .handshake) = Ratchet.new P s kt := by
  cases kt <;> rfl

/-- a fresh ratchet (generation 0; `0 + 1024 < 2^32`) refuses every generation beyond 1024 -/
theorem get_fresh_future (P : Prim B) (s : B) (kt : KeyType) (g : Nat) (hg : 1024 < g) :
    (Ratchet.new P s kt).get P g = (.error (.invalidFutureGeneration g), Ratchet.new P s kt) := by
  apply get_future
  · show ¬ g < 0
    omega
  · show ¬ 0 + maxRatchetBackHistory ≥ 2 ^ 32
    simp only [maxRatchetBackHistory]; omega
  · show g > 0 + maxRatchetBackHistory
    simp only [maxRatchetBackHistory]; omega

/-- what the OLD body answers to a request that the repaired function refuses early: the same
`InvalidFutureGeneration`, unless `take_leaf_ratchet` itself fails (index not reachable) -/
theorem old_of_refused (P : Prim B) (t : SecretTree B) (i : Nat) (kt : KeyType) (g : Nat)
    (h : Refused t i g) :
    (t.messageKeyGenerationOld P i kt g).1 = .error (.invalidFutureGeneration g) ∨
    (t.messageKeyGenerationOld P i kt g).1 = .error .leafNodeNoChildren ∨
    (t.messageKeyGenerationOld P i kt g).1 = .error .invalidLeafConsumption := by
  rw [messageKeyGenerationOld_eq]
  cases hc : t.takeLeafRatchet P i with
  | mk res t' =>
    cases res with
    | error e =>
      rcases takeLeafRatchet_err P t t' i e hc with he | he
      · subst he; exact Or.inr (Or.inl rfl)
      · subst he; exact Or.inr (Or.inr rfl)
    | ok ah =>
      obtain ⟨s, hs⟩ := takeLeafRatchet_fresh P t t' i ah ((hasRatchet_eq_false_iff t i).1 h.2) hc
      subst hs
      simp only [sel_new, get_fresh_future P s kt g h.1]
      exact Or.inl trivial

/-- The repair never changes the answer, except for the KIND of error at an index where
`take_leaf_ratchet` fails: the results agree, or the request is refused early with
`InvalidFutureGeneration` where the old body failed with a tree error. -/
theorem repair_verdict (P : Prim B) (t : SecretTree B) (i : Nat) (kt : KeyType) (g : Nat) :
    (t.messageKeyGeneration P i kt g).1 = (t.messageKeyGenerationOld P i kt g).1 ∨
    (Refused t i g ∧
      (t.messageKeyGeneration P i kt g).1 = .error (.invalidFutureGeneration g) ∧
      ((t.messageKeyGenerationOld P i kt g).1 = .error .leafNodeNoChildren ∨
       (t.messageKeyGenerationOld P i kt g).1 = .error .invalidLeafConsumption)) := by
  by_cases hc : Refused t i g
  · rw [messageKeyGeneration_refused P t i kt g hc]
    rcases old_of_refused P t i kt g hc with h | h
    · exact Or.inl h.symm
    · exact Or.inr ⟨hc, rfl, h⟩
  · rw [messageKeyGeneration_not_refused P t i kt g hc]
    exact Or.inl rfl

/-- at a leaf of a shape-invariant tree the old body has no tree error -/
theorem old_no_tree_error (P : Prim B) (k : Nat) (t : SecretTree B) (i : Nat) (kt : KeyType)
    (g : Nat) (h : FInv k t) (hi : IsLeafOf k i) :
    (t.messageKeyGenerationOld P i kt g).1 ≠ .error .leafNodeNoChildren ∧
    (t.messageKeyGenerationOld P i kt g).1 ≠ .error .invalidLeafConsumption := by
  obtain ⟨ah, t', htake, _⟩ := takeLeafRatchet_front P k t i h hi
  rw [messageKeyGenerationOld_eq, htake]
  constructor <;> intro hc <;>
    rcases get_err_kind P _ g _ hc with h | h | h <;> cases h

theorem upd_sel (kt : KeyType) (ah : Ratchet B × Ratchet B) : upd kt ah (sel kt ah) = ah := by
  cases kt <;> rfl

/-- a failing request at a started leaf (ratchets stored): the old path is taken, the ratchets are
taken out and the IDENTICAL node is stored back -/
theorem messageKeyGeneration_started_error (P : Prim B) (t : SecretTree B) (i : Nat) (kt : KeyType)
    (g : Nat) (a h : Ratchet B) (e : Err) (hn : mapGet t.known i = some (.ratchet a h))
    (he : (t.messageKeyGeneration P i kt g).1 = .error e) :
    t.messageKeyGeneration P i kt g = (.error e,
      { known := mapInsert (mapRemove t.known i).2 i (.ratchet a h), leafCount := t.leafCount }) := by
  have hnr : ¬ Refused t i g := by
    intro hc
    have := (hasRatchet_eq_true_iff t i).2 ⟨a, h, hn⟩
    rw [hc.2] at this; cases this
  have hv : (mapRemove t.known i).1 = some (.ratchet a h) := hn
  rw [messageKeyGeneration_not_refused P t i kt g hnr] at he ⊢
  rw [messageKeyGenerationOld_eq, takeLeafRatchet_eq, hv] at he ⊢
  simp only [toRatchets_ratchet] at he ⊢
  rw [get_error_unchanged P _ g e he, upd_sel, he]

/-- a fresh ratchet serves every generation up to 1024 -/
theorem get_fresh_window (P : Prim B) (s : B) (kt : KeyType) (g : Nat) (hg : g ≤ 1024) :
    ∃ k, ((Ratchet.new P s kt).get P g).1 = .ok k :=
  (get_ok_iff P (Ratchet.new P s kt) g (by show 0 + 1024 < 2 ^ 32; omega)).2
    (Or.inl ⟨Nat.zero_le _, by show g ≤ 0 + 1024; omega⟩)

/-- A request rejected by the RATCHET (any error other than the two tree errors of
`take_leaf_ratchet`) leaves the tree unchanged as a map: same leaf count, every lookup gives the
same node.  (Refused early: the tree itself is returned; started leaf: the identical node is stored
back; a not yet started leaf never gets here — its fresh ratchets serve every `g ≤ 1024`.) -/
theorem messageKeyGeneration_error_lookup (P : Prim B) (t : SecretTree B) (i : Nat) (kt : KeyType)
    (g : Nat) (e : Err) (he : (t.messageKeyGeneration P i kt g).1 = .error e)
    (h1 : e ≠ .leafNodeNoChildren) (h2 : e ≠ .invalidLeafConsumption) :
    (t.messageKeyGeneration P i kt g).2.leafCount = t.leafCount ∧
    ∀ x, mapGet (t.messageKeyGeneration P i kt g).2.known x = mapGet t.known x := by
  by_cases hc : Refused t i g
  · rw [messageKeyGeneration_refused P t i kt g hc]; exact ⟨rfl, fun _ => rfl⟩
  · by_cases hr : t.hasRatchet i = true
    · obtain ⟨a, h, hn⟩ := (hasRatchet_eq_true_iff t i).1 hr
      rw [messageKeyGeneration_started_error P t i kt g a h e hn he]
      exact ⟨rfl, mapGet_reinsert _ _ _ hn⟩
    · exfalso
      have hr' : t.hasRatchet i = false := by
        cases hh : t.hasRatchet i with
        | true => exact absurd hh hr
        | false => rfl
      have hg : g ≤ 1024 := by
        have : ¬ 1024 < g := fun h => hc ⟨h, hr'⟩
        omega
      rw [messageKeyGeneration_not_refused P t i kt g hc, messageKeyGenerationOld_eq] at he
      cases hk : t.takeLeafRatchet P i with
      | mk res t' =>
        rw [hk] at he
        cases res with
        | error e' =>
          simp only at he
          cases he
          rcases takeLeafRatchet_err P t t' i _ hk with h | h
          · exact h1 h
          · exact h2 h
        | ok ah =>
          obtain ⟨s, hs⟩ := takeLeafRatchet_fresh P t t' i ah ((hasRatchet_eq_false_iff t i).1 hr') hk
          subst hs
          simp only [sel_new] at he
          obtain ⟨key, hkey⟩ := get_fresh_window P s kt g hg
          rw [hkey] at he
          cases he

end Repair

/-! ### §6b the answer to a request is the answer of the ratchet of its (leaf, key type) -/

/-- what ratchet `ρ` answers to request `q` (the leaf and key type of `q` are not looked at) -/
def Ratchet.answer (P : Prim B) (ρ : Ratchet B) : Req → Except Err (MsgKey B)
  | .next _ _ => .ok (ρ.next P).1
  | .get _ _ g => (ρ.get P g).1

/-- On a shape-invariant tree, a request at a stored leaf is answered by the ratchet the tree holds
for (leaf, key type) — a stored, not yet started leaf secret counting as its two fresh ratchets —
and by nothing else in the tree.  (The early refusal of the repaired `message_key_generation` agrees
with what the fresh ratchet would have said.) -/
theorem step_answer (P : Prim B) (k : Nat) (t : SecretTree B) (q : Req)
    (h : FInv k t) (hq : IsLeafOf k q.idx) (ρ : Ratchet B)
    (hρ : ratchetAt P t q.idx q.kt = some ρ) :
    (t.step P q).1 = ρ.answer P q := by
  obtain ⟨ah, t', htake, _, _, _, _, hah⟩ := takeLeafRatchet_front P k t q.idx h hq
  simp only [ratchetAt] at hρ
  cases hg : mapGet t.known q.idx with
  | none => rw [hg] at hρ; cases hρ
  | some n =>
    rw [hg] at hρ
    simp only [Option.map_some, Option.some.injEq] at hρ
    have hsel : sel q.kt ah = ρ := by rw [hah n hg]; exact hρ
    rcases step_eq_of_take P t t' q ah htake with ⟨i, kt, g, hq', hc, hstep⟩ | ⟨res, r', hstep, hres⟩
    · subst hq'
      rw [hstep]
      simp only [Req.idx, Req.kt] at hg hρ
      have hn : ∃ s, n = .secret s := by
        cases n with
        | secret s => exact ⟨s, rfl⟩
        | ratchet a b =>
          have := (hasRatchet_eq_true_iff t i).2 ⟨a, b, hg⟩
          rw [hc.2] at this; cases this
      obtain ⟨s, rfl⟩ := hn
      have hnew : ρ = Ratchet.new P s kt := by rw [← hρ]; cases kt <;> rfl
      subst hnew
      have h1 : 1024 < g := hc.1
      simp only [Ratchet.answer]
      rw [get_future P _ g (by simp [Ratchet.new])
        (by simp [Ratchet.new, maxRatchetBackHistory])
        (by simp only [Ratchet.new, maxRatchetBackHistory]; omega)]
    · rw [hstep]
      rcases hres with ⟨i, kt, hq', hr, _⟩ | ⟨i, kt, g, hq', hr, _⟩
      · subst hq'; rw [hr, hsel]; rfl
      · subst hq'; rw [hr, hsel]; rfl

/-! ### §7 injectivity of key derivation under the symbolic (collision-free) assumptions -/

/-- The symbolic assumptions, exactly as far as they are used: `KDF.Expand` applied to a
`KDFLabel` is injective jointly in (secret, label, context, length); the ASCII encoding of labels
is injective; the `uint32` encoding is injective on numbers below `2^32`.
(`KDF.Extract`, `Hash`, `MAC` do not occur in the secret tree, so nothing is assumed of them.) -/
structure FreePrim (P : Prim B) : Prop where
  expand_inj : ∀ s l c n s' l' c' n',
    P.expandLabel s l c n = P.expandLabel s' l' c' n' → s = s' ∧ l = l' ∧ c = c' ∧ n = n'
  ascii_inj : ∀ a b, P.ascii a = P.ascii b → a = b
  u32be_inj : ∀ a b, a < 2 ^ 32 → b < 2 ^ 32 → P.u32be a = P.u32be b → a = b

theorem ratchetSecretAt_inj (P : Prim B) (hP : FreePrim P) (s0 s0' : B) (j : Nat)
    (h : ratchetSecretAt P s0 j = ratchetSecretAt P s0' j) : s0 = s0' := by
  induction j with
  | zero => exact h
  | succ j ih => exact ih (hP.expand_inj _ _ _ _ _ _ _ _ h).1

theorem ratchetKeyAt_inj (P : Prim B) (hP : FreePrim P) (s0 s0' : B) (j j' : Nat)
    (hj : j < 2 ^ 32) (hj' : j' < 2 ^ 32) (h : ratchetKeyAt P s0 j = ratchetKeyAt P s0' j') :
    s0 = s0' ∧ j = j' := by
  have := hP.expand_inj _ _ _ _ _ _ _ _ h
  have hjj := hP.u32be_inj j j' hj hj' this.2.2.1
  subst hjj
  exact ⟨ratchetSecretAt_inj P hP s0 s0' j this.1, rfl⟩

theorem ratchetNonceAt_inj (P : Prim B) (hP : FreePrim P) (s0 s0' : B) (j j' : Nat)
    (hj : j < 2 ^ 32) (hj' : j' < 2 ^ 32) (h : ratchetNonceAt P s0 j = ratchetNonceAt P s0' j') :
    s0 = s0' ∧ j = j' := by
  have := hP.expand_inj _ _ _ _ _ _ _ _ h
  have hjj := hP.u32be_inj j j' hj hj' this.2.2.1
  subst hjj
  exact ⟨ratchetSecretAt_inj P hP s0 s0' j this.1, rfl⟩

theorem ratchetSecret0_inj (P : Prim B) (hP : FreePrim P) (s s' : B) (kt kt' : KeyType)
    (h : ratchetSecret0 P s kt = ratchetSecret0 P s' kt') : s = s' ∧ kt = kt' := by
  have := hP.expand_inj _ _ _ _ _ _ _ _ h
  refine ⟨this.1, ?_⟩
  have hl := hP.ascii_inj _ _ this.2.1
  cases kt <;> cases kt' <;> first | rfl | (simp [ratchetLabel] at hl)

theorem treeLeft_ne_treeRight (P : Prim B) (hP : FreePrim P) (s s' : B) :
    treeLeft P s ≠ treeRight P s' := by
  intro h
  have := hP.expand_inj _ _ _ _ _ _ _ _ h
  have := hP.ascii_inj _ _ this.2.2.1
  simp at this

theorem treeLeft_inj (P : Prim B) (hP : FreePrim P) (s s' : B) (h : treeLeft P s = treeLeft P s') :
    s = s' := (hP.expand_inj _ _ _ _ _ _ _ _ h).1

theorem treeRight_inj (P : Prim B) (hP : FreePrim P) (s s' : B)
    (h : treeRight P s = treeRight P s') : s = s' := (hP.expand_inj _ _ _ _ _ _ _ _ h).1

/-- two leaves of subtrees of the same height with the same secret: the subtree roots carry the
same secret and the leaves sit at the same relative position -/
theorem leafSecret_inj (P : Prim B) (hP : FreePrim P) (k : Nat) : ∀ (o o' : Nat) (s s' v : B)
    (x x' : Nat), o % 2 = 0 → o' % 2 = 0 → x % 2 = 0 → x' % 2 = 0 →
    nodeSecretAt P o k s x = some v → nodeSecretAt P o' k s' x' = some v →
    s = s' ∧ x + o' = x' + o := by
  induction k with
  | zero =>
    intro o o' s s' v x x' _ _ _ _ h h'
    simp only [nodeSecretAt] at h h'
    split at h
    · split at h'
      · cases h; cases h'; exact ⟨rfl, by omega⟩
      · cases h'
    · cases h
  | succ k ih =>
    intro o o' s s' v x x' ho ho' hx hx' h h'
    have hp := Nat.two_pow_pos k
    have e3 := pow_succ' k
    simp only [nodeSecretAt] at h h'
    rw [if_neg (by omega)] at h h'
    split at h <;> split at h'
    · have := ih o o' _ _ v x x' ho ho' hx hx' h h'
      exact ⟨treeLeft_inj P hP _ _ this.1, this.2⟩
    · have := ih o (o' + 2 ^ (k + 1)) _ _ v x x' ho (by omega) hx hx' h h'
      exact absurd this.1 (treeLeft_ne_treeRight P hP s s')
    · have := ih (o + 2 ^ (k + 1)) o' _ _ v x x' (by omega) ho' hx hx' h h'
      exact absurd this.1.symm (treeLeft_ne_treeRight P hP s' s)
    · have := ih (o + 2 ^ (k + 1)) (o' + 2 ^ (k + 1)) _ _ v x x' (by omega) (by omega) hx hx' h h'
      exact ⟨treeRight_inj P hP _ _ this.1, by omega⟩

/-- distinct (leaf, key type, generation) triples of one tree have distinct keys and distinct nonces -/
theorem specMsgKey_inj (P : Prim B) (hP : FreePrim P) (k : Nat) (enc : B)
    (i i' : Nat) (kt kt' : KeyType) (g g' : Nat) (m m' : MsgKey B)
    (hg : g < 2 ^ 32) (hg' : g' < 2 ^ 32)
    (h : specMsgKey P k enc i kt g = some m) (h' : specMsgKey P k enc i' kt' g' = some m')
    (heq : m.key = m'.key ∨ m.nonce = m'.nonce) : i = i' ∧ kt = kt' ∧ g = g' := by
  unfold specMsgKey at h h'
  split at h
  · rename_i hi
    split at h'
    · rename_i hi'
      unfold specNodeMsgKey at h h'
      cases hs : specNodeSecret P k enc i with
      | none => rw [hs] at h; cases h
      | some s =>
        cases hs' : specNodeSecret P k enc i' with
        | none => rw [hs'] at h'; cases h'
        | some s' =>
          rw [hs] at h; rw [hs'] at h'
          simp only [Option.map_some, Option.some.injEq] at h h'
          subst h; subst h'
          have h0 : ratchetSecret0 P s kt = ratchetSecret0 P s' kt' ∧ g = g' := by
            rcases heq with heq | heq
            · exact ratchetKeyAt_inj P hP _ _ g g' hg hg' heq
            · exact ratchetNonceAt_inj P hP _ _ g g' hg hg' heq
          have h1 := ratchetSecret0_inj P hP s s' kt kt' h0.1
          have hs'' := hs'
          rw [← h1.1] at hs''
          have := leafSecret_inj P hP k 0 0 enc enc s i i' rfl rfl hi hi' hs hs''
          exact ⟨by omega, h1.2, h0.2⟩
    · cases h'
  · cases h

/-! A model of the assumptions: the free term algebra. -/

inductive Term
  | extract (salt ikm : Term)
  | expand (secret label context : Term) (len : Nat)
  | hash (a : Term)
  | mac (key data : Term)
  | zeros (n : Nat)
  | empty
  | ascii (s : String)
  | u16 (n : Nat)
  | u32 (n : Nat)
  | cat (a b : Term)
  | varbytes (a : Term)
  | take (n : Nat) (a : Term)
  deriving DecidableEq, Repr

/-- every primitive is a constructor: no equations hold between derived values except syntactic
identity -/
def termPrim (nh nk nn : Nat) : Prim Term where
  extract := .extract
  expandLabel := .expand
  hash := .hash
  mac := .mac
  nh := nh
  nk := nk
  nn := nn
  zeros := .zeros
  empty := .empty
  ascii := .ascii
  u16be := .u16
  u32be := .u32
  cat := .cat
  varbytes := .varbytes
  take := .take


/-! ### §8 toy primitives for the non-vacuity examples

Byte strings are `List Nat`; every primitive is a tagged, length-prefixed concatenation (so the toy
primitives are injective, though that is not used: the examples are evaluated). -/

def toyPrim : Prim (List Nat) where
  extract a b := 1 :: a.length :: (a ++ b)
  expandLabel s l c n := 2 :: n :: s.length :: l.length :: (s ++ l ++ c)
  hash a := 3 :: a
  mac a b := 4 :: a.length :: (a ++ b)
  nh := 32
  nk := 16
  nn := 12
  zeros n := List.replicate n 0
  empty := []
  ascii s := s.toList.map Char.toNat
  u16be n := [n / 256 % 256, n % 256]
  u32be n := [n / 16777216 % 256, n / 65536 % 256, n / 256 % 256, n % 256]
  cat a b := a ++ b
  varbytes a := a.length :: a
  take n a := a.take n

/-- generation of a successful result -/
def okGen : Except Err (MsgKey B) → Option Nat
  | .ok k => some k.generation
  | .error _ => none

/-- results of a run, without the requests -/
def results {Q : Type} (tr : List (Q × Except Err (MsgKey B))) : List (Except Err (MsgKey B)) :=
  tr.map (·.2)

end MlsVerif.ST
