import MlsVerif.Proofs.GroupStep
import MlsVerif.Proofs.GroupEncap
/-
Progress: under the side conditions of `Step.commit`, no entitled party gets stuck — every receiver finds
the ciphertext of its position sealed to a key stamp it holds (`KeyInv`), the derived keys match the
announced ones, every joiner finds its group secrets.  This is where the tree-layer facts about `decap`
(`decap_succeeds`, `decap_position_agrees`), `encap` (`encap_spec`, the seal list) and the joiners are used.
-/
namespace MlsVerif.Group
open MlsVerif.Tree MlsVerif.TreeMath

/-! ### the seal list by position -/

theorem sealsOf_getElem? (t2 : Tree) (excl : List Nat) : ∀ (path : List (Nat × Nat)) (keys : List (Option Nat))
    (c : Nat) (cp : Nat × Nat) (k : Nat), path[c]? = some cp → keys[c]? = some (some k) →
    (Enc.sealsOf path keys t2 excl)[countSome (keys.take c)]? =
      some (cp.1, (resolution t2 cp.2).filter fun i => !(excl.map (2 * ·)).contains i)
  | [], _, c, cp, k, h, _ => by simp at h
  | _ :: _, [], c, cp, k, _, h => by simp at h
  | p :: path, ko :: keys, 0, cp, k, h1, h2 => by
    simp only [List.getElem?_cons_zero, Option.some.injEq] at h1 h2
    subst h1 h2
    simp [Enc.sealsOf, countSome]
  | p :: path, ko :: keys, c + 1, cp, k, h1, h2 => by
    simp only [List.getElem?_cons_succ] at h1 h2
    have ih := sealsOf_getElem? t2 excl path keys c cp k h1 h2
    cases ko with
    | none =>
      simpa [Enc.sealsOf, countSome] using ih
    | some k' =>
      simpa [Enc.sealsOf, countSome] using ih

/-- the sealed update-path node a party at `lca_index = c` looks at -/
theorem pathSealsOf_getElem? {t1 : Tree} {sender fresh : Nat} {nl : Leaf} {added : List Nat} {o : EncapOut}
    (he : encap t1 sender nl added fresh = .ok o) (s0 : Sec) {c : Nat} {cp : Nat × Nat} {k : Nat}
    (h1 : (directCopathOf t1 sender)[c]? = some cp) (h2 : o.pathKeys[c]? = some (some k)) :
    (pathSealsOf o s0)[countSome (o.pathKeys.take c)]? =
      some { node := cp.1, secret := pathN (countSome (o.pathKeys.take c)) s0, key := k,
             recips := ((resolution o.tree cp.2).filter fun i => !(added.map (2 * ·)).contains i).map
               fun r => (r, (get o.tree r).map Node.key) } := by
  obtain ⟨_, _, _, e3, _⟩ := Enc.encap_facts he
  unfold pathSealsOf
  rw [sealChain_getElem?, e3, sealsOf_getElem? _ _ _ _ c cp k h1 h2, someKeys_getElem? _ c k h2]

theorem chainMatches_pathSealsOf (o : EncapOut) (s0 : Sec) (idx : Nat) :
    chainMatches (pathSealsOf o s0) idx (pathN idx s0) = true := by
  rw [chainMatches_iff]
  intro i ps hps
  rw [sealChain_secret hps, Nat.add_comm, pathN_add]

/-! ### a receiver is not stuck -/

theorem recvPathI_eq_ok {init : Sec} {t1 : Tree} {o : EncapOut} {seals : List PathSeal} {sender : Nat} {e : Edits}
    {added : List Nat} {psk : Sec} {ctx : Nat} {m : Member} {d : DecapOut} {ps : PathSeal} {r k : Nat}
    (hd : decap o.tree (provisionalPriv t1 m.priv (ownUpdate e m.priv.self)) sender o.pathKeys added = .ok d)
    (hps : seals[countSome (o.pathKeys.take (lcaIndex m.priv.self sender))]? = some ps)
    (hr : ps.recips[d.ctPos]? = some (r, some k))
    (hk : (provisionalPriv t1 m.priv (ownUpdate e m.priv.self)).keys[d.slot]? = some (some k))
    (hcm : chainMatches seals (countSome (o.pathKeys.take (lcaIndex m.priv.self sender))) ps.secret = true) :
    ∃ m', recvPathI init t1 o seals sender e added psk ctx m = .ok m' := by
  unfold recvPathI
  simp only [hd, hps, hr, hk, hcm, if_true]
  exact ⟨_, rfl⟩

theorem recvPath_eq_ok {t1 : Tree} {o : EncapOut} {seals : List PathSeal} {sender : Nat} {e : Edits}
    {added : List Nat} {psk : Sec} {ctx : Nat} {m : Member} {d : DecapOut} {ps : PathSeal} {r k : Nat}
    (hd : decap o.tree (provisionalPriv t1 m.priv (ownUpdate e m.priv.self)) sender o.pathKeys added = .ok d)
    (hps : seals[countSome (o.pathKeys.take (lcaIndex m.priv.self sender))]? = some ps)
    (hr : ps.recips[d.ctPos]? = some (r, some k))
    (hk : (provisionalPriv t1 m.priv (ownUpdate e m.priv.self)).keys[d.slot]? = some (some k))
    (hcm : chainMatches seals (countSome (o.pathKeys.take (lcaIndex m.priv.self sender))) ps.secret = true) :
    ∃ m', recvPath t1 o seals sender e added psk ctx m = .ok m' :=
  recvPathI_eq_ok hd hps hr hk hcm

section Path
variable {w : GroupWorld} {sender : Nat} {e : Edits} {nl : Leaf} {fresh : Nat} {psk : Sec} {ctx : Nat}
  {cm : Member} {added : List Nat} {t1 : Tree} {o : EncapOut}

/-- what `decap` tells a receiver: it succeeds, and the ciphertext it picks in the update-path node of its
position is sealed to the node whose key it holds in the slot it uses -/
theorem recv_position (hw : WF w.tree) (hfr : e.FreshKeys w.tree) (hb : batchEdit w.tree e = .ok (added, t1))
    (hL : ∃ L, get t1 (2 * sender) = some (.leaf L)) (he : encap t1 sender nl added fresh = .ok o)
    {p : Priv} (hk : KeyInv w.tree p) (hm : ∃ L, get w.tree (2 * p.self) = some (.leaf L))
    (hnr : p.self ∉ e.removes) (hne : p.self ≠ sender) :
    ∃ d cp resNode key k0,
      decap o.tree (provisionalPriv t1 p (ownUpdate e p.self)) sender o.pathKeys added = .ok d ∧
      (directCopathOf t1 sender)[lcaIndex p.self sender]? = some cp ∧
      o.pathKeys[lcaIndex p.self sender]? = some (some k0) ∧
      ((resolution o.tree cp.2).filter (fun i => !(added.map (2 * ·)).contains i))[d.ctPos]? = some resNode ∧
      (provisionalPriv t1 p (ownUpdate e p.self)).keys[d.slot]? = some (some key) ∧
      (get o.tree resNode).map Node.key = some key := by
  have hself := self_lt_of_leaf hL
  obtain ⟨hpu, hf, _, _, _⟩ := encap_spec he hself
  have ha := encap_applyUpdatePath_agree hL he
  cases hou : ownUpdate e p.self with
  | none =>
    obtain ⟨d, hd, _, _, cp, resNode, key, c1, ⟨k0, c2⟩, _, c4, c5, c6⟩ :=
      receiver_commit hw hb hk hm (not_touched hnr hou) hne hf ha
    exact ⟨d, cp, resNode, key, k0, hd, c1, c2, c4, c5, c6⟩
  | some kk =>
    obtain ⟨l, hu, rfl⟩ := ownUpdate_some hou
    have hw1 := wf_batchEdit hw hfr hb
    have hes := batchEdit_editSpec hw.1.1 hb
    have hs1 := hw1.1.1
    have hn1 := hw1.2.2.2
    obtain ⟨_, d, hd, _, _⟩ := receiver_commit_own_update (sender := sender) hw hb hu hne hf ha
    have hk1 := provisional_keyinv_own (p := p) hes hu
    have hselfp : (provisionalPriv t1 p (some l.hpke)).self = p.self := provisionalPriv_self _ _ _
    have hm1 : ∃ L, get t1 (2 * (provisionalPriv t1 p (some l.hpke)).self) = some (.leaf L) := by
      rw [hselfp]; exact ⟨l, hes.updated_leaf _ hu⟩
    have hne' : (provisionalPriv t1 p (some l.hpke)).self ≠ sender := by rw [hselfp]; exact hne
    obtain ⟨cp, resNode, key, c1, ⟨k0, c2⟩, _, c4, c5, c6⟩ :=
      decap_position_agrees hpu hf hs1 hn1 hk1 hne' hm1 hL hd
    rw [hselfp] at c1 c2
    exact ⟨d, cp, resNode, key, k0, hd, c1, c2, c4, c5, c6⟩

/-- progress of a receiver -/
theorem recvPath_progress (hw : WF w.tree) (hfr : e.FreshKeys w.tree)
    (hb : batchEdit w.tree e = .ok (added, t1))
    (hL : ∃ L, get t1 (2 * sender) = some (.leaf L)) (he : encap t1 sender nl added fresh = .ok o)
    {m : Member} (hk : KeyInv w.tree m.priv) (hm : ∃ L, get w.tree (2 * m.priv.self) = some (.leaf L))
    (hnr : m.priv.self ∉ e.removes) (hne : m.priv.self ≠ sender) (s0 : Sec) :
    ∃ m', recvPath t1 o (pathSealsOf o s0) sender e added psk ctx m = .ok m' := by
  obtain ⟨d, cp, resNode, key, k0, hd, c1, c2, c4, c5, c6⟩ := recv_position hw hfr hb hL he hk hm hnr hne
  have hps := pathSealsOf_getElem? he s0 c1 c2
  refine recvPath_eq_ok hd hps (r := resNode) (k := key) ?_ c5 ?_
  · simp only [List.getElem?_map, c4, Option.map_some, c6]
  · exact chainMatches_pathSealsOf o s0 _

/-- the update-path node at the `lca_index` of any other non-blank leaf carries a key -/
theorem lca_position (hs : PreShape t1) (hn : NonEmptyInv t1) {pk : List (Option Nat)}
    (hf : FilterOk t1 sender pk) {self : Nat}
    (hLself : ∃ L, get t1 (2 * self) = some (.leaf L)) (hLs : ∃ L, get t1 (2 * sender) = some (.leaf L))
    (hne : self ≠ sender) {t' : Tree} (hpu : PathUpdated t1 t' sender nl pk) :
    ∃ cp k0, (directCopathOf t1 sender)[lcaIndex self sender]? = some cp ∧
      pk[lcaIndex self sender]? = some (some k0) := by
  have hk : KeyInv t1 ⟨self, expectedSlots t1 self⟩ := fun _ _ => rfl
  obtain ⟨k, c, F⟩ := Dec.facts_of (p := ⟨self, expectedSlots t1 self⟩) hpu hf hs hn hk hne hLself hLs
  have hc : lcaIndex self sender = c := by
    unfold lcaIndex
    have := F.hlvl
    simp only at this
    omega
  obtain ⟨k0, hk0⟩ := F.pkLca
  refine ⟨pathEntry sender c, k0, ?_, by rw [hc]; exact hk0⟩
  rw [hc, directCopathOf_getElem? t1 k sender c F.hk1]
  simp [F.hs, F.hc]

end Path

/-! ### the whole commit -/

theorem joinAll_progress {t' : Tree} {hasPath : Bool} {sender newEpoch : Nat} {welcome : List WelcomeSeal}
    {e : Edits} {added deliverTo : List Nat}
    (h : ∀ (j self : Nat) (L : Leaf), added[j]? = some self → e.adds[j]? = some L → self ∈ deliverTo →
      ∃ m', joinWith t' hasPath sender newEpoch welcome[j]? self L = .ok m') :
    ∃ js, joinAll t' hasPath sender newEpoch welcome e added deliverTo = .ok js := by
  unfold joinAll
  apply mapE_progress
  rintro ⟨j, self, L⟩ hx
  obtain ⟨h1, h2, h3⟩ := mem_joinersOf.1 hx
  exact h j self L h1 h2 h3

theorem welcome_getElem?_of {added : List Nat} {adds : List Leaf} {f : Nat → Leaf → WelcomeSeal} {j self : Nat}
    {L : Leaf} (h1 : added[j]? = some self) (h2 : adds[j]? = some L) :
    ((added.zip adds).map fun x => f x.1 x.2)[j]? = some (f self L) := by
  rw [List.getElem?_map]
  have : (added.zip adds)[j]? = some (self, L) := by
    rw [List.getElem?_zip_eq_some]; exact ⟨h1, h2⟩
  rw [this]; rfl

/-- the committer's leaf survives the proposals -/
theorem sender_leaf_kept {w : GroupWorld} {sender : Nat} {e : Edits} {cm : Member} {added : List Nat}
    {t1 : Tree} (hi : GInv w) (hnr : sender ∉ e.removes) (hcm : w.sender? sender = some cm)
    (hb : batchEdit w.tree e = .ok (added, t1)) : ∃ L, get t1 (2 * sender) = some (.leaf L) := by
  obtain ⟨hcm1, hcm2, hcm3⟩ := sender?_spec hcm
  obtain ⟨hw, hm⟩ := hi.good
  have hes := batchEdit_editSpec hw.1.1 hb
  obtain ⟨⟨L, hL⟩, _⟩ := hm _ (current_priv_mem hcm1 hcm2)
  rw [hcm3] at hL
  have hna : sender ∉ added := by
    intro ha
    rcases hes.added_fresh sender ha with h | h
    · exact hnr h
    · rw [hL] at h; cases h
  cases hou : ownUpdate e sender with
  | none =>
    refine ⟨L, ?_⟩
    rw [hes.leaves_kept _ (not_touched hnr hou) hna]
    exact hL
  | some k =>
    obtain ⟨l, hl, _⟩ := ownUpdate_some hou
    exact ⟨l, hes.updated_leaf _ hl⟩

/-- **Progress.**  In a world satisfying the invariant, a commit by a followed current member that does not
remove itself and whose proposals apply (`batchEdit`), under the side conditions `CommitOk` (those of
`Step.commit`), succeeds (`encap` is total here) and is processed by *every* party it is delivered to: no
receiver and no joiner gets stuck, whatever `deliverTo` is. -/
theorem commit_progress {w : GroupWorld} {sender : Nat} {e : Edits} {newLeaf : Option Leaf} {fresh : Nat}
    {psk : Sec} {ctx : Nat} {cm : Member} {added : List Nat} {t1 : Tree} (deliverTo : List Nat)
    (hi : GInv w) (hok : CommitOk w sender e newLeaf fresh) (hpsk : psk.isPskInput = true)
    (hnr : sender ∉ e.removes) (hcm : w.sender? sender = some cm)
    (hb : batchEdit w.tree e = .ok (added, t1)) :
    ∃ r, w.commit sender e newLeaf fresh psk ctx deliverTo = .ok r := by
  obtain ⟨L, hL⟩ := sender_leaf_kept hi hnr hcm hb
  obtain ⟨hw, hm⟩ := hi.good
  have hfr := hok.1
  have hw1 := wf_batchEdit hw hfr hb
  have hes := batchEdit_editSpec hw.1.1 hb
  have hpre : CommitPre w sender e psk cm added t1 := ⟨hpsk, hnr, hcm, hb, ⟨L, hL⟩⟩
  have hsna := sender_not_added hi hpre
  unfold GroupWorld.commit
  simp only [hpsk, hnr, hcm, hb, hL, Bool.not_true, Bool.false_eq_true, if_false,
    List.contains_eq_mem, decide_false]
  cases newLeaf with
  | some nl =>
    have hself := self_lt_of_leaf ⟨L, hL⟩
    obtain ⟨o, he⟩ := encap_total hw1.1.1 hself nl added fresh
    obtain ⟨hpu, hf, _, _, _⟩ := encap_spec he hself
    have ha := encap_applyUpdatePath_agree ⟨L, hL⟩ he
    simp only
    unfold commitPath
    simp only [he, ha, ne_eq, not_true_eq_false, if_false]
    -- the members
    obtain ⟨ms, hms⟩ := mapE_progress (l := w.members)
        (f := advPath w sender e deliverTo t1 o (pathSealsOf o (.fresh w.epoch)) added psk ctx
          (.epoch (.initOf cm.secret) (pathN (countSome o.pathKeys) (.fresh w.epoch)) psk ctx)) (by
      intro m hmw
      unfold advPath
      cases hp : processes w sender e deliverTo m with
      | false => exact ⟨m, by simp⟩
      | true =>
        obtain ⟨h1, h2⟩ := processes_iff.1 hp
        by_cases hs : m.priv.self = sender
        · simp only [hs, beq_self_eq_true, Bool.not_true, Bool.false_eq_true, if_false, if_true]
          exact ⟨_, rfl⟩
        · have hnr' : m.priv.self ∉ e.removes := by
            rcases h2 with h2 | h2
            · exact absurd h2 hs
            · exact h2.1
          obtain ⟨hLm, hkm⟩ := hm _ (current_priv_mem hmw h1)
          obtain ⟨m', hm'⟩ := recvPath_progress (psk := psk) (ctx := ctx) hw hfr hb ⟨L, hL⟩ he hkm hLm hnr' hs
            (.fresh w.epoch)
          exact ⟨m', by simp [hs, hm']⟩)
    simp only [hms]
    -- the joiners
    obtain ⟨js, hjs⟩ := joinAll_progress (t' := o.tree) (hasPath := true) (sender := sender)
        (newEpoch := w.epoch + 1) (e := e) (added := added) (deliverTo := deliverTo)
        (welcome := (added.zip e.adds).map fun x => welcomeFor (some o) (pathSealsOf o (.fresh w.epoch)) sender
          (.epoch (.initOf cm.secret) (pathN (countSome o.pathKeys) (.fresh w.epoch)) psk ctx) x.1 x.2) (by
      intro j self Lj h1 h2 _
      rw [welcome_getElem?_of h1 h2]
      have hne : self ≠ sender := by
        rintro rfl; exact hsna (List.mem_of_getElem? h1)
      obtain ⟨L2, hL2a, hL2b, p, hp, _⟩ := joiner_commit hw hb h1 hne hf ha
      rw [h2] at hL2a
      cases hL2a
      obtain ⟨L3, _, hL3⟩ := hes.added_leaf j self h1
      obtain ⟨cp, k0, c1, c2⟩ := lca_position (nl := nl) hw1.1.1 hw1.2.2.2 hf ⟨L3, hL3⟩ ⟨L, hL⟩ hne hpu
      have hps := pathSealsOf_getElem? he (.fresh w.epoch) c1 c2
      unfold joinWith welcomeFor
      simp only [hps, ne_eq, not_true_eq_false, if_false, Option.map_some, Option.isNone_some,
        Bool.and_false, Bool.false_eq_true, hp]
      exact ⟨_, rfl⟩)
    simp only [hjs]
    exact ⟨_, rfl⟩
  | none =>
    simp only
    unfold commitNoPath
    obtain ⟨js, hjs⟩ := joinAll_progress (t' := t1) (hasPath := false) (sender := sender)
        (newEpoch := w.epoch + 1) (e := e) (added := added) (deliverTo := deliverTo)
        (welcome := (added.zip e.adds).map fun x => welcomeFor none [] sender
          (.epoch (.initOf cm.secret) .zero psk ctx) x.1 x.2) (by
      intro j self Lj h1 h2 _
      rw [welcome_getElem?_of h1 h2]
      unfold joinWith welcomeFor
      simp [joinerPriv, pure, Except.pure])
    simp only [hjs]
    exact ⟨_, rfl⟩

/-! ### external commits -/

/-- the receivers' uniqueness check of the update path's leaf node passes when its stamps are new -/
theorem ext_noconf {t0 t1 t1x : Tree} {rs : List Nat} {L0 nl : Leaf} {self fresh : Nat}
    (hx : ExtEdit t0 rs L0 t1 self t1x) (hp : PathOk t1x self nl fresh) : conflicts t1 nl = false := by
  obtain ⟨_, h2, _, h4⟩ := hp
  have hes := batchEdit_editSpec hx.wf1.1.1 hx.second
  rw [conflicts_false_iff]
  intro x L hg
  have hx1 : x < t1.length := lt_of_get_some hg
  have hev : x % 2 = 0 := by
    apply Classical.byContradiction; intro hc
    have := (hx.wf1.1.1.1 x hx1).2 (by omega)
    rw [hg] at this; cases this
  obtain ⟨j, rfl⟩ : ∃ j, x = 2 * j := ⟨x / 2, by omega⟩
  have hblank : get t1 (2 * self) = none := by
    rcases hes.added_fresh self (by simp) with h | h
    · cases h
    · exact h
  have hne : j ≠ self := by
    rintro rfl; rw [hblank] at hg; cases hg
  have hgx : get t1x (2 * j) = some (.leaf L) := by
    rw [hes.leaves_kept j (by simp [Edits.touched]) (by simpa using hne)]; exact hg
  obtain ⟨a1, a2⟩ := newLeafOkB_spec h4 (2 * j) L (by omega) hgx
  refine ⟨a1, ?_, a2⟩
  intro heq
  exact h2 (heq ▸ mem_keyStamps.2 ⟨_, _, hgx, rfl⟩)

/-- a member that the external commit does not remove is not stuck -/
theorem ext_recv_progress {t0 t1 t1x : Tree} {rs : List Nat} {L0 nl : Leaf} {self fresh : Nat} {o : EncapOut}
    (hx : ExtEdit t0 rs L0 t1 self t1x) (he : encap t1x self nl [] fresh = .ok o)
    {m : Member} (hk : KeyInv t0 m.priv) (hm : ∃ L, get t0 (2 * m.priv.self) = some (.leaf L))
    (ht : m.priv.self ∉ rs) (init s0 psk : Sec) (ctx : Nat) :
    ∃ m', recvPathI init t1x o (pathSealsOf o s0) self noEdits [] psk ctx m = .ok m' := by
  obtain ⟨_, _, d, hd, _, _, cp, resNode, key, k0, c1, c2, c4, c5, c6⟩ := ext_receiver hx he hk hm ht
  have hps := pathSealsOf_getElem? he s0 c1 c2
  refine recvPathI_eq_ok (by rw [ownUpdate_noEdits]; exact hd) hps (r := resNode) (k := key) ?_
    (by rw [ownUpdate_noEdits]; exact c5) ?_
  · simp only [List.getElem?_map, c4, Option.map_some, c6]
  · exact chainMatches_pathSealsOf o s0 _

/-- **Progress of an external commit.**  In a world satisfying the invariant, an external commit built from the
GroupInfo of a followed current member, whose Remove (if any) applies and whose new leaf finds a place, under the
side conditions `ExtOk` (new stamps are new), succeeds — the joiner's `encap` is total, the receivers' check of
the path leaf passes, their tree is the joiner's — and is processed by *every* current member it is delivered to
(other than the removed one), whatever `deliverTo` is. -/
theorem ext_progress {w : GroupWorld} {gi : Nat} {remove : Option Nat} {L0 nl : Leaf} {fresh : Nat} {psk : Sec}
    {ctx : Nat} {gm : Member} {a : List Nat} {t1 t1x : Tree} {self : Nat} (deliverTo : List Nat)
    (hi : GInv w) (hok : ExtOk w remove L0 nl fresh) (hpsk : psk.isPskInput = true)
    (hgm : w.sender? gi = some gm) (hb : batchEdit w.tree (extEdits remove) = .ok (a, t1))
    (hadd : addLeaf t1 L0 0 = .ok (self, t1x)) :
    ∃ r, w.externalCommit gi remove L0 nl fresh psk ctx deliverTo = .ok r := by
  obtain ⟨hgm1, hgm2, _⟩ := sender?_spec hgm
  have hx : ExtEdit w.tree remove.toList L0 t1 self t1x :=
    (extEdit_of hi.good.1 (hb : batchEdit w.tree ⟨remove.toList, [], []⟩ = _) hadd (hok.fresh0 hb)).2
  have hp := hok.pathOk hb hadd
  have hL : ∃ L, get t1x (2 * self) = some (.leaf L) := ⟨L0, hx.leaf⟩
  have hself := self_lt_of_leaf hL
  obtain ⟨o, he⟩ := encap_total hx.wfx.1.1 hself nl [] fresh
  have ha := encap_applyUpdatePath_agree hL he
  have hnc := ext_noconf hx hp
  unfold GroupWorld.externalCommit
  simp only [hpsk, hgm, hb, hadd, hnc, he, ha, Bool.not_true, Bool.false_eq_true, if_false, ne_eq,
    not_true_eq_false]
  obtain ⟨ms, hms⟩ := mapE_progress (l := w.members)
      (f := advExt w remove deliverTo t1x o (pathSealsOf o (.fresh w.epoch)) self psk ctx gm.secret) (by
    intro m hmw
    unfold advExt
    cases hpr : processesExt w remove deliverTo m with
    | false => exact ⟨m, by simp⟩
    | true =>
      obtain ⟨h1, h2, _⟩ := processesExt_iff.1 hpr
      have hsec : m.secret = gm.secret := hi.agree m hmw gm hgm1 (by rw [h1, hgm2])
      obtain ⟨hLm, hkm⟩ := hi.good.2 _ (mem_toWorld.2 ⟨m, hmw, h1, rfl⟩)
      obtain ⟨m', hm'⟩ := ext_recv_progress hx he hkm hLm (not_mem_toList h2) (.ext w.epoch) (.fresh w.epoch)
        psk ctx
      exact ⟨m', by simp [hsec, hm']⟩)
  simp only [hms]
  exact ⟨_, rfl⟩

end MlsVerif.Group
