import MlsVerif.Model.X509
/-
Lemmas about the X.509 reference verdict of `Model/X509.lean`; statements for C14 are in
`Props/C14.lean`.
-/
namespace MlsVerif.X509

theorem timeOk_some (t : Nat) (c : Cert) :
    timeOk (some t) c = true ↔ c.notBefore ≤ t ∧ t ≤ c.notAfter := by
  simp [timeOk]

theorem timeOk_none (c : Cert) : timeOk none c = true := rfl

theorem linksOk_cons (c : Cert) (l : List Cert) (i : Nat) :
    linksOk (c :: l) i =
      match l with
      | [] => true
      | d :: _ => issues d c && caOk d i && linksOk l (i + 1) := by
  cases l <;> rfl

theorem anchored_iff (anchors : List Cert) (t : Option Nat) (c : Cert) (idx : Nat) :
    anchored anchors t c idx = true ↔
      ∃ a, a ∈ anchors ∧ ((a = c ∧ caOk a (idx - 1) = true) ∨
        (issues a c = true ∧ caOk a idx = true ∧ timeOk t a = true)) := by
  simp [anchored, List.any_eq_true, Bool.and_eq_true, Bool.or_eq_true, and_assoc]

theorem verdict_iff (chain anchors : List Cert) (t : Option Nat) :
    verdict chain anchors t = true ↔
      ∃ last, chain.getLast? = some last ∧ (∀ c, c ∈ chain → timeOk t c = true) ∧
        linksOk chain 0 = true ∧ anchored anchors t last (chain.length - 1) = true := by
  unfold verdict
  cases h : chain.getLast? with
  | none => simp
  | some last => simp [List.all_eq_true, Bool.and_eq_true, and_assoc]

/-- a chain accepted at some time is accepted without time check -/
theorem verdict_none_of_some (chain anchors : List Cert) (t : Option Nat)
    (h : verdict chain anchors t = true) : verdict chain anchors none = true := by
  rw [verdict_iff] at h ⊢
  obtain ⟨last, h1, _, h3, h4⟩ := h
  refine ⟨last, h1, fun _ _ => rfl, h3, ?_⟩
  rw [anchored_iff] at h4 ⊢
  obtain ⟨a, ha, h | ⟨h5, h6, _⟩⟩ := h4
  · exact ⟨a, ha, Or.inl h⟩
  · exact ⟨a, ha, Or.inr ⟨h5, h6, rfl⟩⟩

theorem anchored_mono {anchors anchors' : List Cert} (hsub : ∀ a, a ∈ anchors → a ∈ anchors')
    {t : Option Nat} {c : Cert} {idx : Nat} (h : anchored anchors t c idx = true) :
    anchored anchors' t c idx = true := by
  rw [anchored_iff] at h ⊢
  obtain ⟨a, ha, h⟩ := h
  exact ⟨a, hsub a ha, h⟩

/-- links inside a chain: an adjacent pair is linked and the issuer is a CA for its depth -/
theorem linksOk_pair (pre : List Cert) (c d : Cert) (post : List Cert) (i : Nat)
    (h : linksOk (pre ++ c :: d :: post) i = true) :
    issues d c = true ∧ caOk d (i + pre.length) = true := by
  induction pre generalizing i with
  | nil =>
    simp only [List.nil_append, linksOk, Bool.and_eq_true] at h
    simpa using h.1
  | cons x pre ih =>
    rw [List.cons_append, linksOk_cons] at h
    cases hl : pre ++ c :: d :: post with
    | nil => simp at hl
    | cons y rest =>
      rw [hl] at h
      simp only [Bool.and_eq_true] at h
      have := ih (i + 1) (hl ▸ h.2)
      simpa [Nat.add_assoc, Nat.add_comm 1] using this

/-- links of a prefix -/
theorem linksOk_prefix (pre : List Cert) (c : Cert) (post : List Cert) (i : Nat)
    (h : linksOk (pre ++ c :: post) i = true) : linksOk (pre ++ [c]) i = true := by
  induction pre generalizing i with
  | nil => rfl
  | cons x pre ih =>
    rw [List.cons_append, linksOk_cons] at h ⊢
    cases pre with
    | nil =>
      simp only [List.nil_append, Bool.and_eq_true] at h ⊢
      exact ⟨h.1, rfl⟩
    | cons y pre' =>
      simp only [List.cons_append, Bool.and_eq_true] at h ⊢
      exact ⟨h.1, ih (i + 1) h.2⟩

theorem getLast?_snoc (pre : List Cert) (c : Cert) : (pre ++ [c]).getLast? = some c := by
  simp

/-- `verdict` on a chain given as prefix ++ [last] -/
theorem verdict_snoc_iff (pre : List Cert) (c : Cert) (anchors : List Cert) (t : Option Nat) :
    verdict (pre ++ [c]) anchors t = true ↔
      (∀ x, x ∈ pre ++ [c] → timeOk t x = true) ∧ linksOk (pre ++ [c]) 0 = true ∧
        anchored anchors t c pre.length = true := by
  rw [verdict_iff]
  constructor
  · rintro ⟨last, h1, h2, h3, h4⟩
    rw [getLast?_snoc] at h1
    cases h1
    simp only [List.length_append, List.length_cons, List.length_nil, Nat.zero_add,
      Nat.add_sub_cancel] at h4
    exact ⟨h2, h3, h4⟩
  · rintro ⟨h2, h3, h4⟩
    refine ⟨c, getLast?_snoc pre c, h2, h3, ?_⟩
    simpa only [List.length_append, List.length_cons, List.length_nil, Nat.zero_add,
      Nat.add_sub_cancel] using h4

/-! ### the walk formulation -/

theorem walk_iff (anchors : List Cert) (t : Option Nat) (chain : List Cert) (i : Nat) :
    walk anchors t chain i = true ↔
      ∃ pre c post, chain = pre ++ c :: post ∧ (∀ x, x ∈ pre ++ [c] → timeOk t x = true) ∧
        linksOk (pre ++ [c]) i = true ∧ anchored anchors t c (i + pre.length) = true := by
  induction chain generalizing i with
  | nil => simp [walk]
  | cons x rest ih =>
    unfold walk
    simp only [Bool.and_eq_true, Bool.or_eq_true]
    constructor
    · rintro ⟨hx, h | h⟩
      · exact ⟨[], x, rest, rfl, by simpa using hx, rfl, by simpa using h⟩
      · cases rest with
        | nil => simp at h
        | cons d rest' =>
          simp only [Bool.and_eq_true] at h
          obtain ⟨⟨h1, h2⟩, h3⟩ := h
          obtain ⟨pre, c, post, he, ht, hl, ha⟩ := (ih (i + 1)).mp h3
          refine ⟨x :: pre, c, post, by rw [he]; rfl, ?_, ?_, ?_⟩
          · intro y hy
            simp only [List.cons_append, List.mem_cons] at hy
            rcases hy with rfl | hy
            · exact hx
            · exact ht y hy
          · rw [List.cons_append, linksOk_cons]
            cases pre with
            | nil =>
              simp only [List.nil_append, List.cons.injEq] at he
              obtain ⟨rfl, _⟩ := he
              simp [h1, h2, linksOk]
            | cons y pre' =>
              simp only [List.cons_append, List.cons.injEq] at he
              obtain ⟨rfl, _⟩ := he
              simp only [List.cons_append, Bool.and_eq_true]
              exact ⟨⟨h1, h2⟩, hl⟩
          · simpa [Nat.add_assoc, Nat.add_comm 1] using ha
    · rintro ⟨pre, c, post, he, ht, hl, ha⟩
      cases pre with
      | nil =>
        simp only [List.nil_append, List.cons.injEq] at he
        obtain ⟨rfl, rfl⟩ := he
        exact ⟨ht x (by simp), Or.inl (by simpa using ha)⟩
      | cons y pre' =>
        simp only [List.cons_append, List.cons.injEq] at he
        obtain ⟨rfl, rfl⟩ := he
        refine ⟨ht x (by simp), Or.inr ?_⟩
        rw [List.cons_append, linksOk_cons] at hl
        have hrec : walk anchors t (pre' ++ c :: post) (i + 1) = true := by
          refine (ih (i + 1)).mpr ⟨pre', c, post, rfl, ?_, ?_, ?_⟩
          · intro z hz; exact ht z (by simp only [List.cons_append, List.mem_cons]; exact Or.inr hz)
          · cases pre' with
            | nil => rfl
            | cons z pre'' =>
              simp only [List.cons_append, Bool.and_eq_true] at hl
              exact hl.2
          · simpa [Nat.add_assoc, Nat.add_comm 1] using ha
        cases pre' with
        | nil =>
          simp only [List.nil_append, Bool.and_eq_true] at hl hrec ⊢
          exact ⟨⟨hl.1.1, hl.1.2⟩, hrec⟩
        | cons z pre'' =>
          simp only [List.cons_append, Bool.and_eq_true] at hl hrec ⊢
          exact ⟨⟨hl.1.1, hl.1.2⟩, hrec⟩

end MlsVerif.X509
