import MlsVerif.Proofs.ParentHashDefs
/-
`compute_original_hashes` (`Model/ParentHash.lean`: `origHash`, a literal model of
`mls-rs/src/tree_kem/tree_hash.rs`) delivers, for each child `s` of a non-blank parent `P`, the tree
hash of `s` with `P`'s unmerged leaves filtered out (`origHash_spec`).

Reusable helper lemmas (namespace `Orig`):
  * `spec_filter_congr`  : the tree hash of `y` only depends on the filter restricted to the leaves
                           below `y`;
  * `unmergedInSubtree_eq_filter`, `mem_unmergedInSubtree` : the slice `unmerged_in_subtree` of a
                           strictly sorted list is the sub-list of the entries below the node.
-/
namespace MlsVerif.ParentHash
open MlsVerif.TreeMath MlsVerif.Tree MlsVerif.TreeHash

namespace Orig

/-! ### (a) filter locality -/

theorem contains_congr {f f' : List Nat} {l : Nat} (h : l ∈ f ↔ l ∈ f') :
    f.contains l = f'.contains l := by
  rw [Bool.eq_iff_iff, List.contains_iff_mem, List.contains_iff_mem]; exact h

/-- the tree hash of `y` with the leaves `f` filtered out only depends on `f ∩ subtree y` -/
theorem spec_filter_congr {t : Tree} (hu : UnmergedInv t) {f f' : List Nat} {y : Nat}
    (h : ∀ l, below l y → (l ∈ f ↔ l ∈ f')) : treeHashSpec t f y = treeHashSpec t f' y := by
  have e := eq_nd y
  generalize level y = j at e
  generalize y / 2 ^ (j + 1) = q at e
  subst e
  induction j generalizing q with
  | zero =>
    rw [spec_nd_zero, spec_nd_zero]
    unfold hashForLeaf
    rw [contains_congr (h q ((below_nd q 0 q).2 (by simp)))]
  | succ j ih =>
    rw [spec_nd_succ, spec_nd_succ]
    rw [ih (2 * q) (fun l hl => h l (below_left hl)),
      ih (2 * q + 1) (fun l hl => h l (below_right hl))]
    unfold hashForParent
    congr 1
    cases hp : parentAt t (nd (j + 1) q) with
    | none => rfl
    | some P =>
      have hg : get t (nd (j + 1) q) = some (.parent P) := by
        unfold parentAt at hp
        split at hp
        · rename_i p hg; cases hp; exact hg
        · cases hp
      have hlt := lt_of_get_some hg
      have hb := (hu _ hlt P (by rw [hg]; simp)).2.1
      simp only [Option.map_some, Option.some.injEq, Parent.mk.injEq, true_and]
      apply List.filter_congr
      intro u hu'
      rw [contains_congr (h u (hb u hu').1)]

/-! ### (b) `unmerged_in_subtree` -/

theorem takeWhile_lt_sorted (b : Nat) : ∀ (l : List Nat), l.Pairwise (· < ·) →
    l.takeWhile (fun u => decide (u < b)) = l.filter (fun u => decide (u < b))
  | [], _ => rfl
  | x :: xs, hp => by
    rw [List.pairwise_cons] at hp
    by_cases hx : x < b
    · rw [List.takeWhile_cons_of_pos (by simpa using hx), List.filter_cons_of_pos (by simpa using hx),
        takeWhile_lt_sorted b xs hp.2]
    · rw [List.takeWhile_cons_of_neg (by simpa using hx), List.filter_cons_of_neg (by simpa using hx)]
      symm
      rw [List.filter_eq_nil_iff]
      intro u hu
      have := hp.1 u hu
      simp only [decide_eq_true_eq]; omega

theorem slice_sorted (a b : Nat) : ∀ (l : List Nat), l.Pairwise (· < ·) →
    (l.dropWhile (fun u => decide (u < a))).takeWhile (fun u => decide (u < b)) =
      l.filter (fun u => decide (a ≤ u ∧ u < b))
  | [], _ => rfl
  | x :: xs, hp => by
    by_cases hx : x < a
    · rw [List.dropWhile_cons_of_pos (by simpa using hx),
        List.filter_cons_of_neg (by simp only [decide_eq_true_eq]; omega)]
      exact slice_sorted a b xs (List.pairwise_cons.1 hp).2
    · rw [List.dropWhile_cons_of_neg (by simpa using hx), takeWhile_lt_sorted b _ hp]
      apply List.filter_congr
      intro u hu
      have : a ≤ u := by
        rw [List.pairwise_cons] at hp
        rcases List.mem_cons.1 hu with rfl | hu
        · omega
        · have := hp.1 u hu; omega
      simp [this]

/-- `unmerged_in_subtree` on a strictly sorted list: the entries below the node, in order -/
theorem unmergedInSubtree_eq_filter {um : List Nat} (hp : um.Pairwise (· < ·)) (c : Nat) :
    unmergedInSubtree um c = um.filter (fun u => decide (below u c)) := by
  unfold unmergedInSubtree below
  exact slice_sorted _ _ um hp

theorem mem_unmergedInSubtree {um : List Nat} (hp : um.Pairwise (· < ·)) (c u : Nat) :
    u ∈ unmergedInSubtree um c ↔ u ∈ um ∧ below u c := by
  rw [unmergedInSubtree_eq_filter hp, List.mem_filter, decide_eq_true_eq]

/-! ### (c) the shape of `filtered_sets[y].last()` -/

theorem differentUnmerged_nonblank {t : Tree} {a q : Nat} (h : differentUnmerged t a q = true) :
    get t q ≠ none := by
  intro hg
  unfold differentUnmerged at h
  rw [hg] at h
  cases h

theorem odd_parent {t : Tree} (hs : PreShape t) {q : Nat} (hq : q % 2 = 1) (hg : get t q ≠ none) :
    ∃ A, get t q = some (.parent A) := by
  have hlt := lt_of_get_ne hg
  have := (hs.1 q hlt).2 hq
  cases hn : get t q with
  | none => exact absurd hn hg
  | some nd =>
    cases nd with
    | parent A => exact ⟨A, rfl⟩
    | leaf l => rw [hn] at this; simp at this

/-- `filtered_sets[y].last()` is the root or a non-blank parent -/
theorem filterAnc_cases {t : Tree} (hs : PreShape t) (n : Nat) : ∀ (fuel y : Nat),
    filterAnc t n fuel y = root n ∨ ∃ A, get t (filterAnc t n fuel y) = some (.parent A)
  | 0, _ => Or.inl rfl
  | fuel + 1, y => by
    unfold filterAnc
    split
    · exact Or.inl rfl
    · rename_i q sb hps
      simp only
      split
      · rename_i hd
        right
        have hl := level_parent _ _ _ _ hps
        have hodd : q % 2 = 1 := by
          have := level_eq_zero_iff q
          omega
        exact odd_parent hs hodd (differentUnmerged_nonblank hd)
      · exact filterAnc_cases hs n fuel q

/-- the filter list belonging to the ancestor `a` -/
def ancUnm (t : Tree) (a : Nat) : List Nat :=
  match get t a with
  | some (.parent A) => A.unmerged
  | _ => []

theorem ancUnm_parent {t : Tree} {a : Nat} {A : Parent} (h : get t a = some (.parent A)) :
    ancUnm t a = A.unmerged := by
  unfold ancUnm; rw [h]

/-- `original_hashes[s]` is the tree hash filtered by the unmerged leaves of
`filtered_sets[s].last()` (nothing if that node is blank) -/
theorem origHash_eq {t : Tree} (hs : PreShape t) (s : Nat) :
    origHash t s =
      treeHashSpec t (ancUnm t (filterAnc t (leafCount t) (t.length + 1) s)) s := by
  unfold origHash
  simp only
  generalize ha : filterAnc t (leafCount t) (t.length + 1) s = a
  have hc := filterAnc_cases hs (leafCount t) (t.length + 1) s
  rw [ha] at hc
  split
  · rename_i hb
    have har : a = root (leafCount t) := by
      rcases hc with hc | ⟨A, hA⟩
      · exact hc
      · rw [Bool.or_eq_true] at hb
        rcases hb with hb | hb
        · unfold isBlank at hb; rw [hA] at hb; cases hb
        · simpa using hb
    subst har
    cases hg : get t (root (leafCount t)) with
    | none => simp only [ancUnm, hg]
    | some nd => cases nd <;> simp only [ancUnm, hg]
  · cases hg : get t a with
    | none => simp only [ancUnm, hg]
    | some nd => cases nd <;> simp only [ancUnm, hg]

end Orig

open Orig

/-- `compute_original_hashes`: for a child `s` of the non-blank parent `P`, `original_hashes[s]` is
the tree hash of `s` with `P`'s unmerged leaves filtered out -/
theorem origHash_spec {t : Tree} (hs : PreShape t) (hu : UnmergedInv t) {x s : Nat} {P : Parent}
    (hx : get t x = some (.parent P)) (hc : left? x = some s ∨ right? x = some s) :
    origHash t s = treeHashSpec t P.unmerged s := by
  have hlt := lt_of_get_some hx
  -- `x` is odd
  have hodd : x % 2 = 1 := by
    rcases Nat.mod_two_eq_zero_or_one x with h | h
    · have := (hs.1 x hlt).1 h
      rw [hx] at this; simp at this
    · exact h
  have hlv : level x ≠ 0 := by
    have := level_eq_zero_iff x
    omega
  obtain ⟨k, hk⟩ := leafCount_pow t
  have hxk : x < 2 ^ (k + 1) - 1 := Nat.lt_of_lt_of_le hlt (tree_length_le t k hk)
  have hlk := level_le k x hxk
  -- closed forms
  have e := eq_nd x
  obtain ⟨j, hj⟩ : ∃ j, level x = j + 1 := ⟨level x - 1, by omega⟩
  rw [hj] at e hlk
  generalize x / 2 ^ (j + 1 + 1) = q at e
  subst e
  -- `s = nd j c` with `c / 2 = q`, below `x`
  obtain ⟨c, rfl, hcq, hbel⟩ : ∃ c, s = nd j c ∧ c / 2 = q ∧
      ∀ l, below l (nd j c) → below l (nd (j + 1) q) := by
    rcases hc with hc | hc
    · rw [left?_nd] at hc
      exact ⟨2 * q, (Option.some.inj hc).symm, by omega, fun l hl => below_left hl⟩
    · rw [right?_nd] at hc
      exact ⟨2 * q + 1, (Option.some.inj hc).symm, by omega, fun l hl => below_right hl⟩
  -- one step of `filterAnc`
  have hne : nd j c ≠ root (leafCount t) := by
    rw [hk, root_pow]
    intro h
    have := (nd_inj h).1
    omega
  have hps : parentSibling? (nd j c) (leafCount t) = some (nd (j + 1) q, nd j (sib c)) := by
    rw [parentSibling?_eq, if_neg hne, psClosed_nd, hcq]
  rw [origHash_eq hs]
  have hstep : filterAnc t (leafCount t) (t.length + 1) (nd j c) =
      if differentUnmerged t (filterAnc t (leafCount t) t.length (nd (j + 1) q)) (nd (j + 1) q)
      then nd (j + 1) q else filterAnc t (leafCount t) t.length (nd (j + 1) q) := by
    rw [filterAnc, hps]
  rw [hstep]
  generalize filterAnc t (leafCount t) t.length (nd (j + 1) q) = a
  cases hd : differentUnmerged t a (nd (j + 1) q) with
  | true =>
    simp only [if_true]
    rw [ancUnm_parent hx]
  | false =>
    simp only [Bool.false_eq_true, if_false]
    apply spec_filter_congr hu
    intro l hl
    have hlx := hbel l hl
    unfold differentUnmerged at hd
    rw [hx] at hd
    simp only [bne_eq_false_iff_eq] at hd
    unfold ancUnm
    split at hd
    · rename_i A hA
      rw [hA]
      simp only
      have hpw := (hu a (lt_of_get_some hA) A (by rw [hA]; simp)).1
      rw [← hd, mem_unmergedInSubtree hpw]
      exact ⟨fun h => ⟨h, hlx⟩, fun h => h.1⟩
    · rename_i hna
      rw [← hd]
      split
      · rename_i A hA; exact absurd hA (hna A)
      · exact Iff.rfl

end MlsVerif.ParentHash
