import MlsVerif.Proofs.ParentHashBasic
/-
`batch_edit` (Remove / Update / Add proposals) keeps the parent-hash invariant `PHInv`.

A non-blank parent `x` of the new tree is a parent of the old tree with the same key, no removed or
updated leaf lies below it, and the only changes inside its subtree are the added leaves (new leaf
nodes at blank positions, new entries in the unmerged lists of their ancestors).  Hence
  * the old witness is still a witness (its node is unchanged, the resolutions only gain the added
    leaves, which are exactly the new unmerged leaves of `x`),
  * the original sibling tree hash is unchanged (the added leaves are filtered out again).
-/
namespace MlsVerif.ParentHash
open MlsVerif.TreeMath MlsVerif.Tree MlsVerif.TreeHash

namespace Edit

/-- two strictly sorted lists with the same elements are equal -/
theorem sorted_ext : ∀ {a b : List Nat}, a.Pairwise (· < ·) → b.Pairwise (· < ·) →
    (∀ x, x ∈ a ↔ x ∈ b) → a = b
  | [], [], _, _, _ => rfl
  | [], y :: bs, _, _, h => by have := (h y).2 List.mem_cons_self; simp at this
  | x :: as, [], _, _, h => by have := (h x).1 List.mem_cons_self; simp at this
  | x :: as, y :: bs, ha, hb, h => by
    rw [List.pairwise_cons] at ha hb
    have hxy : x = y := by
      have h1 := (h x).1 List.mem_cons_self
      have h2 := (h y).2 List.mem_cons_self
      rcases List.mem_cons.1 h1 with h1 | h1
      · exact h1
      · rcases List.mem_cons.1 h2 with h2 | h2
        · exact h2.symm
        · have := ha.1 y h2
          have := hb.1 x h1
          omega
    subst hxy
    have : as = bs := by
      apply sorted_ext ha.2 hb.2
      intro z
      constructor
      · intro hz
        have hlt := ha.1 z hz
        rcases List.mem_cons.1 ((h z).1 (List.mem_cons_of_mem _ hz)) with e | e
        · omega
        · exact e
      · intro hz
        have hlt := hb.1 z hz
        rcases List.mem_cons.1 ((h z).2 (List.mem_cons_of_mem _ hz)) with e | e
        · omega
        · exact e
    rw [this]

/-- the leaves below a node are the leaves below its two children -/
theorem below_succ_iff (i j q : Nat) :
    below i (nd (j + 1) q) ↔ below i (nd j (2 * q)) ∨ below i (nd j (2 * q + 1)) := by
  constructor
  · intro h
    rw [below_nd] at h
    rw [below_nd, below_nd]
    rw [pow_succ', Nat.mul_comm, ← Nat.div_div_eq_div_mul] at h
    omega
  · rintro (h | h)
    · exact below_left h
    · exact below_right h

/-- SURVIVAL: a parent with no removed / updated leaf below it is still a parent after
`batchEdit` -/
theorem parents_kept {t t' : Tree} {e : Edits} {added : List Nat} (hs : PreShape t)
    (h : Tree.batchEdit t e = .ok (added, t')) {y : Nat} {Q : Parent}
    (hQ : get t y = some (.parent Q)) (hq : ∀ r ∈ e.touched, ¬ below r y) :
    ∃ Q', get t' y = some (.parent Q') := by
  obtain ⟨t1, t2, t3, h1, h2, h3, rfl⟩ := batchEdit_ok h
  have s1 := applyRemoves_preShape hs h1
  have s2 := applyUpdates_preShape s1 h2
  obtain ⟨_, _, _, r4⟩ := applyRemoves_spec h1
  obtain ⟨_, _, _, _, u5⟩ := applyUpdates_spec h2
  obtain ⟨new, _, _, _, _, a5, _⟩ := applyAdds_spec s2 h3 (by intro j hj; omega)
  have g1 : get t1 y = some (.parent Q) := by
    rw [r4, if_neg, hQ]
    rintro ⟨r, hr, hc⟩
    have hr' : r ∈ e.touched := List.mem_append_left _ (List.mem_reverse.1 hr)
    rcases hc with rfl | hc
    · exact hq r hr' ((Add.below_leaf r r).2 rfl)
    · exact hq r hr' hc.2
  have g2 : get t2 y = some (.parent Q) := by
    have hy : ∀ u ∈ e.updates, y ≠ 2 * u.1 := by
      intro u hu he
      exact hq u.1 (List.mem_append_right _ (List.mem_map_of_mem hu))
        (he ▸ (Add.below_leaf u.1 u.1).2 rfl)
    rw [u5 y hy, if_neg, g1]
    rintro ⟨u, hu, _, hb⟩
    exact hq u.1 (List.mem_append_right _ (List.mem_map_of_mem hu)) hb
  obtain ⟨Q', hQ'⟩ := a5 y Q g2
  exact ⟨Q', by rw [get_trim]; exact hQ'⟩

end Edit

theorem batchEdit_tree {p p' : PTree} {e : Edits} {added : List Nat}
    (h : p.batchEdit e = .ok (added, p')) :
    Tree.batchEdit p.t e = .ok (added, p'.t) ∧ p'.ph = editPh p.ph p'.t e added := by
  unfold PTree.batchEdit at h
  split at h
  · rename_i a t' hb
    simp only [Except.ok.injEq, Prod.mk.injEq] at h
    obtain ⟨rfl, rfl⟩ := h
    exact ⟨hb, rfl⟩
  · cases h

namespace Edit

/-- every entry of the edited layer is `none` or the old entry -/
theorem phGet_editPh (ph : PhLayer) (t' : Tree) (e : Edits) (added : List Nat) (i : Nat) :
    phGet (editPh ph t' e added) i = none ∨ phGet (editPh ph t' e added) i = phGet ph i := by
  unfold editPh
  rw [phGet_phOf]
  split
  · split
    · left; rfl
    · right; rfl
    · split
      · left; rfl
      · right; rfl
  · left; rfl

theorem topKey_editPh {ph : PhLayer} {t' : Tree} {e : Edits} {added : List Nat} {i k : Nat}
    (h : topKey (editPh ph t' e added) i = some k) : topKey ph i = some k := by
  unfold topKey at h ⊢
  rcases phGet_editPh ph t' e added i with h1 | h1
  · rw [h1] at h; cases h
  · rw [h1] at h; exact h

/-- `t'` is `t` with leaves `added` put into blank leaf slots (and recorded in the unmerged lists of
their non-blank ancestors), as far as the subtree of `x` is concerned -/
structure Region (t t' : Tree) (added : List Nat) (x : Nat) : Prop where
  odd_t : ∀ z, z % 2 = 1 → leafOf? (get t z) = none
  even_t : ∀ i, parentOf? (get t (2 * i)) = none
  leaf_new : ∀ i ∈ added, below i x → get t (2 * i) = none ∧ ∃ L, get t' (2 * i) = some (.leaf L)
  leaf_old : ∀ i, i ∉ added → below i x → get t' (2 * i) = get t (2 * i)
  blank : ∀ z, z % 2 = 1 → Desc z x → get t z = none → get t' z = none
  par : ∀ z P, Desc z x → get t z = some (.parent P) →
    ∃ P', get t' z = some (.parent P') ∧ P'.key = P.key ∧
      ∀ l, l ∈ P'.unmerged ↔ (l ∈ P.unmerged ∨ (l ∈ added ∧ below l z))

theorem preShape_odd {t : Tree} (hs : PreShape t) (z : Nat) (hz : z % 2 = 1) :
    leafOf? (get t z) = none := by
  by_cases h : z < t.length
  · exact (hs.1 z h).2 hz
  · rw [get_of_le (by omega)]; rfl

theorem preShape_even {t : Tree} (hs : PreShape t) (i : Nat) :
    parentOf? (get t (2 * i)) = none := by
  by_cases h : 2 * i < t.length
  · exact (hs.1 _ h).1 (by omega)
  · rw [get_of_le (by omega)]; rfl

/-- the subtree of a node without removed / updated leaves below it is a `Region` -/
theorem region_of_edit {t t' : Tree} {e : Edits} {added : List Nat} (hs : PreShape t)
    (hs' : PreShape t') (h : Tree.batchEdit t e = .ok (added, t')) {x : Nat}
    (hq : ∀ r ∈ e.touched, ¬ below r x) : Region t t' added x := by
  have ES := batchEdit_editSpec hs h
  refine
    { odd_t := preShape_odd hs, even_t := preShape_even hs, leaf_new := ?_, leaf_old := ?_,
      blank := ?_, par := ?_ }
  · intro i hi hb
    constructor
    · rcases ES.added_fresh i hi with hr | hr
      · exact absurd hb (hq i (List.mem_append_left _ hr))
      · exact hr
    · obtain ⟨j, hj, hji⟩ := List.getElem_of_mem hi
      obtain ⟨l, _, hg⟩ := ES.added_leaf j i (by rw [List.getElem?_eq_getElem hj, hji])
      exact ⟨l, hg⟩
  · intro i hi hb
    exact ES.leaves_kept i (fun ht => hq i ht hb) hi
  · intro z hz _ hg
    cases hg' : get t' z with
    | none => rfl
    | some n =>
      cases n with
      | leaf L =>
        have := preShape_odd hs' z hz
        rw [hg'] at this; cases this
      | parent P' =>
        obtain ⟨P, hP, _⟩ := ES.parents z P' hg'
        rw [hg] at hP; cases hP
  · intro z P hd hP
    obtain ⟨P', hP'⟩ := parents_kept hs h hP (fun r hr hb => hq r hr (below_trans_desc hb hd))
    obtain ⟨P0, hP0, hk, hm⟩ := ES.parents z P' hP'
    rw [hP] at hP0
    injection hP0 with hP0; injection hP0 with hP0
    subst hP0
    exact ⟨P', hP', hk, hm⟩

/-- RESOLUTION AFTER ADDS: inside a `Region` the resolution of a node gains exactly the added
leaves below it -/
theorem mem_resCF_region {t t' : Tree} {added : List Nat} {x : Nat} (R : Region t t' added x) :
    ∀ (j q : Nat), Desc (nd j q) x → ∀ a, a ∈ resCF t' j q ↔
      (a ∈ resCF t j q ∨ ∃ i ∈ added, below i (nd j q) ∧ a = 2 * i) := by
  intro j
  induction j with
  | zero =>
    intro q hd a
    have hbx : below q x := (desc_leaf_iff_below q x).1 (by rw [← nd_zero]; exact hd)
    rw [resCF, resCF]
    by_cases hq : q ∈ added
    · obtain ⟨h0, L, hL⟩ := R.leaf_new q hq hbx
      rw [nd_zero, h0, hL]
      simp only [resHead, List.mem_singleton, List.not_mem_nil, false_or]
      constructor
      · rintro rfl; exact ⟨q, hq, (Add.below_leaf q q).2 rfl, rfl⟩
      · rintro ⟨i, hi, hb, rfl⟩; rw [(Add.below_leaf i q).1 hb]
    · have := R.leaf_old q hq hbx
      rw [nd_zero, this]
      constructor
      · exact Or.inl
      · rintro (h | ⟨i, hi, hb, rfl⟩)
        · exact h
        · exact absurd ((Add.below_leaf i q).1 hb ▸ hi) hq
  | succ j ih =>
    intro q hd a
    have hodd := nd_succ_odd j q
    rw [resCF, resCF]
    cases hg : get t (nd (j + 1) q) with
    | none =>
      rw [R.blank _ hodd hd hg]
      simp only [List.mem_append]
      rw [ih _ (desc_trans (desc_left_nd j q) hd), ih _ (desc_trans (desc_right_nd j q) hd)]
      constructor
      · rintro ((h | ⟨i, hi, hb, rfl⟩) | (h | ⟨i, hi, hb, rfl⟩))
        · exact Or.inl (Or.inl h)
        · exact Or.inr ⟨i, hi, below_left hb, rfl⟩
        · exact Or.inl (Or.inr h)
        · exact Or.inr ⟨i, hi, below_right hb, rfl⟩
      · rintro ((h | h) | ⟨i, hi, hb, rfl⟩)
        · exact Or.inl (Or.inl h)
        · exact Or.inr (Or.inl h)
        · rcases (below_succ_iff i j q).1 hb with hb | hb
          · exact Or.inl (Or.inr ⟨i, hi, hb, rfl⟩)
          · exact Or.inr (Or.inr ⟨i, hi, hb, rfl⟩)
    | some n =>
      cases n with
      | leaf L =>
        have := R.odd_t _ hodd
        rw [hg] at this; cases this
      | parent P =>
        obtain ⟨P', hP', _, hm⟩ := R.par _ P hd hg
        rw [hP']
        simp only [resHead, List.mem_cons, List.mem_map]
        constructor
        · rintro (h | ⟨l, hl, rfl⟩)
          · exact Or.inl (Or.inl h)
          · rcases (hm l).1 hl with h | ⟨h1, h2⟩
            · exact Or.inl (Or.inr ⟨l, h, rfl⟩)
            · exact Or.inr ⟨l, h1, h2, rfl⟩
        · rintro ((h | ⟨l, hl, rfl⟩) | ⟨i, hi, hb, rfl⟩)
          · exact Or.inl h
          · exact Or.inr ⟨l, (hm l).2 (Or.inl hl), rfl⟩
          · exact Or.inr ⟨i, (hm i).2 (Or.inr ⟨hi, hb⟩), rfl⟩

theorem mem_resolution_region {t t' : Tree} {added : List Nat} {x : Nat}
    (R : Region t t' added x) {y : Nat} (hd : Desc y x) (a : Nat) :
    a ∈ resolution t' y ↔ (a ∈ resolution t y ∨ ∃ i ∈ added, below i y ∧ a = 2 * i) := by
  rw [resolution_eq_resCF, resolution_eq_resCF]
  have e := eq_nd y
  have := mem_resCF_region R (level y) (y / 2 ^ (level y + 1)) (by rw [← e]; exact hd) a
  rw [← e] at this
  exact this

/-- SPEC CONGRUENCE: the filtered tree hash of a node only depends on the filtered leaves below
it and on the filtered parent nodes of its subtree -/
theorem spec_congr_filter {t t' : Tree} {f f' : List Nat} : ∀ (j q : Nat),
    (∀ l, below l (nd j q) →
      (if f'.contains l then none else leafAt t' l) = (if f.contains l then none else leafAt t l)) →
    (∀ z, Desc z (nd j q) → z % 2 = 1 →
      (parentAt t' z).map (fun P => { P with unmerged := P.unmerged.filter fun u => !f'.contains u }) =
      (parentAt t z).map (fun P => { P with unmerged := P.unmerged.filter fun u => !f.contains u })) →
    treeHashSpec t' f' (nd j q) = treeHashSpec t f (nd j q) := by
  intro j
  induction j with
  | zero =>
    intro q hl _
    rw [spec_nd_zero, spec_nd_zero]
    unfold hashForLeaf
    rw [hl q (by rw [below_nd]; simp)]
  | succ j ih =>
    intro q hl hp
    rw [spec_nd_succ, spec_nd_succ]
    unfold hashForParent
    rw [hp _ (desc_refl _) (nd_succ_odd j q)]
    rw [ih (2 * q) (fun l h => hl l (below_left h))
        (fun z h => hp z (desc_trans h (desc_left_nd j q))),
      ih (2 * q + 1) (fun l h => hl l (below_right h))
        (fun z h => hp z (desc_trans h (desc_right_nd j q)))]

/-- inside a `Region`, a tree hash that filters out the added leaves does not change -/
theorem spec_region {t t' : Tree} {added : List Nat} {x : Nat} (R : Region t t' added x)
    (hu : UnmergedInv t) (hu' : UnmergedInv t') {f f' : List Nat}
    (hf : ∀ l, below l x → (l ∈ f' ↔ (l ∈ f ∨ l ∈ added))) {y : Nat} (hd : Desc y x) :
    treeHashSpec t' f' y = treeHashSpec t f y := by
  have e := eq_nd y
  generalize level y = j at e
  generalize y / 2 ^ (j + 1) = q at e
  subst e
  apply spec_congr_filter
  · intro l hl
    have hbx : below l x := below_trans_desc hl hd
    by_cases ha : l ∈ added
    · have h1 : f'.contains l = true := by
        rw [List.contains_iff_mem]; exact (hf l hbx).2 (Or.inr ha)
      have h2 : leafAt t l = none := by
        unfold leafAt; rw [(R.leaf_new l ha hbx).1]
      rw [h1, h2]; simp
    · have h1 : f'.contains l = f.contains l := by
        rw [Bool.eq_iff_iff, List.contains_iff_mem, List.contains_iff_mem, hf l hbx]
        simp [ha]
      have h2 : leafAt t' l = leafAt t l := by
        unfold leafAt; rw [R.leaf_old l ha hbx]
      rw [h1, h2]
  · intro z hz hodd
    have hzx : Desc z x := desc_trans hz hd
    cases hg : get t z with
    | none =>
      have hg' := R.blank z hodd hzx hg
      rw [parentAt_eq, parentAt_eq, hg, hg']
      rfl
    | some n =>
      cases n with
      | leaf L =>
        have := R.odd_t z hodd
        rw [hg] at this; cases this
      | parent P =>
        obtain ⟨P', hP', hk, hm⟩ := R.par z P hzx hg
        have hP0 := hu z (lt_of_get_some hg) P (by rw [hg]; rfl)
        have hP0' := hu' z (lt_of_get_some hP') P' (by rw [hP']; rfl)
        rw [parentAt_eq, parentAt_eq, hg, hP']
        simp only [parentOf?_parent, Option.map_some, Option.some.injEq, Parent.mk.injEq]
        refine ⟨hk, ?_⟩
        apply sorted_ext (hP0'.1.filter _) (hP0.1.filter _)
        intro l
        simp only [List.mem_filter, Bool.not_eq_true', ← Bool.not_eq_true,
          List.contains_iff_mem]
        constructor
        · rintro ⟨h1, h2⟩
          rcases (hm l).1 h1 with h | ⟨h3, h4⟩
          · refine ⟨h, fun h5 => h2 ?_⟩
            exact (hf l (below_trans_desc (hP0.2.1 l h).1 hzx)).2 (Or.inl h5)
          · exact absurd ((hf l (below_trans_desc h4 hzx)).2 (Or.inr h3)) h2
        · rintro ⟨h1, h2⟩
          have hb := below_trans_desc (hP0.2.1 l h1).1 hzx
          refine ⟨(hm l).2 (Or.inl h1), fun h5 => ?_⟩
          rcases (hf l hb).1 h5 with h | h
          · exact h2 h
          · exact (hP0.2.1 l h1).2 (R.leaf_new l h hb).1

/-- a child of `x` is a descendant of `x`, and `x` is an odd (parent) index -/
theorem child_desc {x s : Nat} (hs : left? x = some s ∨ right? x = some s) :
    x % 2 = 1 ∧ Desc s x := by
  have e := eq_nd x
  cases hl : level x with
  | zero => rw [left?_eq, right?_eq, hl] at hs; simp at hs
  | succ j =>
    rw [hl] at e
    generalize x / 2 ^ (j + 1 + 1) = q at e
    subst e
    rw [left?_nd, right?_nd] at hs
    refine ⟨nd_succ_odd j q, ?_⟩
    rcases hs with hs | hs
    · injection hs with hs; subst hs; exact desc_left_nd j q
    · injection hs with hs; subst hs; exact desc_right_nd j q

/-- no removed / updated leaf lies below a surviving parent -/
theorem quiet_of_parent {t t' : Tree} {e : Edits} {added : List Nat} (ES : EditSpec t t' e added)
    {x : Nat} {P' : Parent} (hodd : x % 2 = 1) (hP' : get t' x = some (.parent P')) :
    ∀ r ∈ e.touched, ¬ below r x := by
  intro r hr hb
  have := ES.touched_path_blank r hr x hodd hb
  rw [hP'] at this; cases this

end Edit

/-- (b) the original sibling tree hash of a surviving parent is stable -/
theorem orig_hash_stable {t t' : Tree} {e : Edits} {added : List Nat} (hw : WF t) (hw' : WF t')
    (h : Tree.batchEdit t e = .ok (added, t')) {x s : Nat} {P P' : Parent}
    (hP : get t x = some (.parent P)) (hP' : get t' x = some (.parent P'))
    (hs : left? x = some s ∨ right? x = some s) :
    treeHashSpec t' P'.unmerged s = treeHashSpec t P.unmerged s := by
  obtain ⟨hodd, hd⟩ := Edit.child_desc hs
  have ES := batchEdit_editSpec hw.1.1 h
  have R := Edit.region_of_edit hw.1.1 hw'.1.1 h (Edit.quiet_of_parent ES hodd hP')
  obtain ⟨P0, hP0, _, hm⟩ := ES.parents x P' hP'
  rw [hP] at hP0
  injection hP0 with hP0; injection hP0 with hP0
  subst hP0
  apply Edit.spec_region R hw.2.2.1 hw'.2.2.1 _ hd
  intro l hl
  rw [hm l]
  simp [hl]

namespace Edit

/-- the old witness of a surviving parent is a witness in the edited tree -/
theorem wit_transfer {p p' : PTree} {e : Edits} {added : List Nat} (hw : WF p.t) (hw' : WF p'.t)
    (hb : Tree.batchEdit p.t e = .ok (added, p'.t)) (hph : p'.ph = editPh p.ph p'.t e added)
    {x : Nat} {P P' : Parent} (hP : get p.t x = some (.parent P))
    (hP' : get p'.t x = some (.parent P')) {c s d : Nat}
    (hc : left? x = some c ∨ right? x = some c) (hs : left? x = some s ∨ right? x = some s)
    (hd : d ∈ resolution p.t c) (hwit : Wit p x P c s d) :
    d ∈ resolution p'.t c ∧ Wit p' x P' c s d := by
  have hstab := orig_hash_stable hw hw' hb hP hP' hs
  obtain ⟨hodd, hcx⟩ := child_desc hc
  obtain ⟨⟨hs0, _⟩, _, hu, _⟩ := hw
  obtain ⟨⟨hs0', _⟩, _, hu', _⟩ := hw'
  have ES := batchEdit_editSpec hs0 hb
  have hq := quiet_of_parent ES hodd hP'
  have R := region_of_edit hs0 hs0' hb hq
  obtain ⟨P0, hP0, hk, hm⟩ := ES.parents x P' hP'
  rw [hP] at hP0
  injection hP0 with hP0; injection hP0 with hP0
  subst hP0
  have hres := fun a => mem_resolution_region R hcx a
  have hd' : d ∈ resolution p'.t c := (hres d).2 (Or.inl hd)
  have hdt := resolution_nonblank' hu hd
  have hdt' := resolution_nonblank' hu' hd'
  have hsub := resolution_in_subtree' hu hd
  -- an even `d` is an old leaf below `x`
  have hleaf : ∀ i, d = 2 * i → below i x ∧ i ∉ added := by
    intro i hi
    subst hi
    have hb1 : below i x := below_trans_desc (below_of_inSub hsub) hcx
    exact ⟨hb1, fun ha => hdt (R.leaf_new i ha hb1).1⟩
  have phd : phGet p'.ph d = phGet p.ph d := by
    rw [hph]; unfold editPh
    rw [phGet_phOf, if_pos (lt_of_get_ne hdt')]
    cases hg : get p'.t d with
    | none => exact absurd hg hdt'
    | some n =>
      cases n with
      | parent Q => rfl
      | leaf L =>
        have hev : d % 2 = 0 := by
          apply Classical.byContradiction; intro hc'
          have := preShape_odd hs0' d (by omega)
          rw [hg] at this; cases this
        obtain ⟨i, rfl⟩ : ∃ i, d = 2 * i := ⟨d / 2, by omega⟩
        obtain ⟨hb1, hna⟩ := hleaf i rfl
        have hnu : i ∉ e.updates.map (·.1) := fun hu => hq i (List.mem_append_right _ hu) hb1
        have e2 : 2 * i / 2 = i := by omega
        have hc1 : added.contains i = false := by
          rw [← Bool.not_eq_true, List.contains_iff_mem]; exact hna
        have hc2 : (e.updates.map (·.1)).contains i = false := by
          rw [← Bool.not_eq_true, List.contains_iff_mem]; exact hnu
        simp only [e2, hc1, hc2]
        rfl
  have phx : phGet p'.ph x = phGet p.ph x := by
    rw [hph]; unfold editPh
    rw [phGet_phOf, if_pos (lt_of_get_some hP'), hP']
  have hlink : linkHash p' x s P' = linkHash p x s P := by
    unfold linkHash
    rw [hk, phx, hstab]
  refine ⟨hd', by rw [phd, hlink]; exact hwit.1, hd', ?_, ?_⟩
  · intro a ha hne
    rcases (hres a).1 ha with h | ⟨i, hi, hbi, rfl⟩
    · obtain ⟨u, hu1, hu2, hu3⟩ := hwit.2.2.1 a h hne
      exact ⟨u, (hm u).2 (Or.inl hu1), hu2, hu3⟩
    · exact ⟨i, (hm i).2 (Or.inr ⟨hi, below_trans_desc hbi hcx⟩), hbi, rfl⟩
  · intro u hu1 hu2
    rcases (hm u).1 hu1 with h | ⟨h1, h2⟩
    · obtain ⟨h3, h4⟩ := hwit.2.2.2 u h hu2
      exact ⟨(hres _).2 (Or.inl h3), h4⟩
    · refine ⟨(hres _).2 (Or.inr ⟨u, h1, hu2, rfl⟩), ?_⟩
      intro he
      exact hdt (he ▸ (R.leaf_new u h1 h2).1)

end Edit

/-- `batch_edit` keeps the parent-hash invariant -/
theorem batchEdit_phinv {p p' : PTree} {e : Edits} {added : List Nat} (hw : WF p.t)
    (hw' : WF p'.t) (hi : PHInv p) (h : p.batchEdit e = .ok (added, p')) : PHInv p' := by
  obtain ⟨hb, hph⟩ := batchEdit_tree h
  constructor
  · intro x _ P' hP' l hl r hr
    have hP' : get p'.t x = some (.parent P') := parentOf?_eq_some.1 hP'
    have ES := batchEdit_editSpec hw.1.1 hb
    obtain ⟨P, hP, _, _⟩ := ES.parents x P' hP'
    have hl' : left? x = some l := hl
    have hr' : right? x = some r := hr
    rcases hi.linked x (lt_of_get_some hP) P (by rw [hP]; rfl) l hl r hr with
      ⟨d, hd, hwit⟩ | ⟨d, hd, hwit⟩
    · obtain ⟨h1, h2⟩ := Edit.wit_transfer hw hw' hb hph hP hP' (Or.inl hl') (Or.inr hr') hd hwit
      exact Or.inl ⟨d, h1, h2⟩
    · obtain ⟨h1, h2⟩ := Edit.wit_transfer hw hw' hb hph hP hP' (Or.inr hr') (Or.inl hl') hd hwit
      exact Or.inr ⟨d, h1, h2⟩
  · intro d _ d' _ k hk hk'
    rw [hph] at hk hk'
    exact hi.keys' (Edit.topKey_editPh hk) (Edit.topKey_editPh hk')

theorem batchEdit_phKeysBelow {p p' : PTree} {e : Edits} {added : List Nat} {b : Nat}
    (hb : PhKeysBelow p.ph b) (h : p.batchEdit e = .ok (added, p')) : PhKeysBelow p'.ph b := by
  obtain ⟨_, hph⟩ := batchEdit_tree h
  intro i _ k hk
  rw [hph] at hk
  exact hb.lt (Edit.topKey_editPh hk)

end MlsVerif.ParentHash
