import MlsVerif.Proofs.ParentHashPath
/-
After a path update the parent-hash chain from the committer's leaf covers every non-blank node of
its direct path (what `validate_chain` walks when it starts at that leaf).
-/
namespace MlsVerif.ParentHash
open MlsVerif.TreeMath MlsVerif.Tree MlsVerif.TreeHash

/-- `x` is reached from `d` by a chain of parent-hash witnesses (each step: `y` is the witness of the
parent `P` stored at `x`, on the side of `x`'s child `c`) -/
inductive ChainUp (p : PTree) : Nat → Nat → Prop
  | refl (d : Nat) : ChainUp p d d
  | step {d y x : Nat} (P : Parent) (c s : Nat) : ChainUp p d y → get p.t x = some (.parent P) →
      ((left? x = some c ∧ right? x = some s) ∨ (left? x = some s ∧ right? x = some c)) →
      y ∈ resolution p.t c → Wit p x P c s y → ChainUp p d x

namespace Path
section
variable {t t' : Tree} {s : Nat} {nl : Leaf} {pk : List (Option Nat)} {k : Nat}

/-- `Ctx.down` with the chain: the single node in the resolution of the own-side child of path
position `j` is chained to the sender's leaf -/
theorem Ctx.down_chain (c : Ctx t t' s nl pk k) (ph : PhLayer) : ∀ j, j ≤ k →
    ∃ d, resolution t' (nd j (s / 2 ^ j)) = [d] ∧ phGet (phFin ph t t' s) d = some (hA t t' s j) ∧
      ChainUp ⟨t', phFin ph t t' s⟩ (2 * s) d := by
  intro j
  induction j with
  | zero =>
    intro _
    refine ⟨2 * s, ?_, c.fin_leaf ph, .refl _⟩
    rw [resolution_nd, resCF, own_child_zero, c.hpu.leaf]
    simp [resHead]
  | succ j ih =>
    intro hj
    have hj' : j < k := by omega
    obtain ⟨d, hd1, hd2, hd3⟩ := ih (by omega)
    rw [own_child_succ]
    rcases c.pk_cases hj' with hp | ⟨k', hp⟩
    · refine ⟨d, ?_, by rw [← c.hA_fil hj' hp]; exact hd2, hd3⟩
      obtain ⟨h1, _, _, h4⟩ := c.fil hj' hp
      rcases pathEntry_children s j with ⟨e1, e2⟩ | ⟨e1, e2⟩
      · rw [resolution_blank h1 e1 e2, hd1, h4]; rfl
      · rw [resolution_blank h1 e1 e2, hd1, h4]; rfl
    · have hw := c.wit_new ph hj' hp hd1 hd2
      refine ⟨(pathEntry s j).1, ?_, c.fin_unf ph hj' hp, ?_⟩
      · show resolution t' (nd (j + 1) (s / 2 ^ (j + 1))) = _
        rw [resolution_nd, resCF]
        have := (c.unf hj' hp).1
        rw [← own_child_succ] at this
        rw [this]
        simp only [resHead, List.map_nil]
        rfl
      · rcases pathEntry_children s j with ⟨e1, e2⟩ | ⟨e1, e2⟩
        · exact .step _ _ _ hd3 (c.unf hj' hp).1 (Or.inl ⟨e1, e2⟩) hw.1 hw.2
        · exact .step _ _ _ hd3 (c.unf hj' hp).1 (Or.inr ⟨e1, e2⟩) hw.1 hw.2

/-- every non-blank node of the sender's direct path is chained to the sender's leaf -/
theorem Ctx.chain (c : Ctx t t' s nl pk k) (ph : PhLayer) {j : Nat} (hj : j < k)
    (hne : get t' (pathEntry s j).1 ≠ none) :
    ChainUp ⟨t', phFin ph t t' s⟩ (2 * s) (pathEntry s j).1 := by
  rcases c.pk_cases hj with hp | ⟨k', hp⟩
  · exact absurd (c.fil hj hp).1 hne
  · obtain ⟨d, hd1, _, hd3⟩ := c.down_chain ph (j + 1) (by omega)
    rw [own_child_succ] at hd1
    have hres : resolution t' (pathEntry s j).1 = [(pathEntry s j).1] := by
      show resolution t' (nd (j + 1) (s / 2 ^ (j + 1))) = _
      rw [resolution_nd, resCF]
      have := (c.unf hj hp).1
      rw [← own_child_succ] at this
      rw [this]
      simp only [resHead, List.map_nil]
      rfl
    rw [hres] at hd1
    have : (pathEntry s j).1 = d := by simpa using hd1
    rw [this]; exact hd3

end
end Path

/-- after the committer's `encap`: the parent-hash chain that starts at the committer's leaf
reaches every non-blank node of its direct path -/
theorem encap_committer_chain {p p' : PTree} {self fresh : Nat} {nl : Leaf} {excl : List Nat}
    {o : EncapOut} (hw : WF p.t) (hL : ∃ L, get p.t (2 * self) = some (.leaf L))
    (hb : StampsBelow p.t fresh) (hpb : PhKeysBelow p.ph fresh)
    (hnl : nl.hpke ∉ keyStamps p.t) (hnl2 : nl.hpke < fresh)
    (hid : ∀ x L, x ≠ 2 * self → get p.t x = some (.leaf L) → L.ident ≠ nl.ident ∧ L.sig ≠ nl.sig)
    (h : p.encap self nl excl fresh = .ok (o, p')) :
    ∀ cp ∈ directCopathOf p.t self, get p'.t cp.1 ≠ none → ChainUp p' (2 * self) cp.1 := by
  obtain ⟨ht, hu⟩ := encap_ok_iff.1 h
  obtain ⟨hw', hpu, hlen, hf, _, _, _⟩ := Path.encap_hyps hw hL hb hpb hnl hnl2 hid ht
  have he := sender_eval hw hw' hpu hlen hL hf (phGet p.ph (2 * self))
  rw [hu] at he
  have hp' : p' = ⟨o.tree, Path.phFin p.ph p.t o.tree self⟩ := Except.ok.inj he
  obtain ⟨k, c⟩ := Path.Ctx.mk' hw hw' hpu hlen hL hf
  intro cp hcp hne
  obtain ⟨_, j, hj, rfl⟩ := mem_directCopathOf c.hk hcp
  subst hp'
  exact c.chain p.ph hj hne

end MlsVerif.ParentHash
