import MlsVerif.Model.KeySchedule
import MlsVerif.Proofs.SecretTree
/-
Helper definitions and lemmas for `Props/C18.lean` (a PSK commit binds the new epoch to knowledge of
the PSKs): injectivity of `PskSecret::calculate` (`KS.pskSecret`) and of the derivation of the epoch
secrets from the PSK secret, under the symbolic (collision-free) assumptions `FreePsk`.  Core Lean only.

§1 the assumptions · §2 the PSK chain read from the end · §3 injectivity of the chain ·
§4 the epoch secrets · §5 the assumptions hold in the free term algebra
-/
namespace MlsVerif.Psk
open MlsVerif.KS

variable {B : Type}

/-! ### §1 the symbolic assumptions, exactly as far as they are used -/

/-- * `KDF.Extract` is injective jointly in (salt, ikm);
* `KDF.Expand` applied to a `KDFLabel` is injective jointly in (secret, label, context, length);
* the encoded `PSKLabel { id, index, count }` determines its three components when `index` and
  `count` fit a `u16` (`id` is a TLS-encoded, self-delimiting `PreSharedKeyID`, the two `u16` have
  fixed width; `pskLabel_inj_of_cat` derives this from injectivity of concatenation and of `u16be`);
* an extracted value is never the all-zero string of length `nh` (the chain starts from
  `zeros nh`; this separates the empty chain from the non-empty ones).
Nothing is assumed of `ascii`: both sides of every comparison use the same fixed label. -/
structure FreePsk (P : Prim B) : Prop where
  extract_inj : ∀ a b a' b', P.extract a b = P.extract a' b' → a = a' ∧ b = b'
  expand_inj : ∀ s l c n s' l' c' n',
    P.expandLabel s l c n = P.expandLabel s' l' c' n' → s = s' ∧ l = l' ∧ c = c' ∧ n = n'
  pskLabel_inj : ∀ id i n id' i' n', i < 65536 → n < 65536 → i' < 65536 → n' < 65536 →
    pskLabel P id i n = pskLabel P id' i' n' → id = id' ∧ i = i' ∧ n = n'
  extract_ne_zeros : ∀ a b, P.extract a b ≠ P.zeros P.nh

/-- `pskLabel` is injective as soon as concatenation is injective jointly in both arguments and
`u16be` is injective below `2^16`. -/
theorem pskLabel_inj_of_cat (P : Prim B)
    (cat_inj : ∀ a b a' b', P.cat a b = P.cat a' b' → a = a' ∧ b = b')
    (u16be_inj : ∀ a b, a < 65536 → b < 65536 → P.u16be a = P.u16be b → a = b)
    (id : B) (i n : Nat) (id' : B) (i' n' : Nat)
    (hi : i < 65536) (hn : n < 65536) (hi' : i' < 65536) (hn' : n' < 65536)
    (h : pskLabel P id i n = pskLabel P id' i' n') : id = id' ∧ i = i' ∧ n = n' := by
  have h1 := cat_inj _ _ _ _ h
  have h2 := cat_inj _ _ _ _ h1.2
  exact ⟨h1.1, u16be_inj _ _ hi hi' h2.1, u16be_inj _ _ hn hn' h2.2⟩

/-! ### §2 the PSK chain read from the end -/

theorem pskFoldAux_append (P : Prim B) (count : Nat) (l : List (PskInput B)) (x : PskInput B) :
    ∀ (idx : Nat) (acc : B), pskFoldAux P count (l ++ [x]) idx acc =
      pskStep P count (pskFoldAux P count l idx acc) (idx + l.length) x := by
  induction l with
  | nil => intro idx acc; simp [pskFoldAux]
  | cons y ys ih =>
    intro idx acc
    simp only [List.cons_append, pskFoldAux, List.length_cons]
    rw [ih]
    congr 1
    omega

/-- the chain over a list, started at index 0 from the all-zero string -/
def chain (P : Prim B) (count : Nat) (l : List (PskInput B)) : B :=
  pskFoldAux P count l 0 (P.zeros P.nh)

theorem chain_nil (P : Prim B) (count : Nat) : chain P count [] = P.zeros P.nh := rfl

theorem chain_snoc (P : Prim B) (count : Nat) (l : List (PskInput B)) (x : PskInput B) :
    chain P count (l ++ [x]) = pskStep P count (chain P count l) l.length x := by
  unfold chain
  rw [pskFoldAux_append, Nat.zero_add]

theorem pskSecret_eq_chain (P : Prim B) (l : List (PskInput B)) (h : l.length < 65536) :
    pskSecret P l = some (chain P l.length l) := by
  unfold pskSecret
  rw [if_neg (by omega)]
  rfl

theorem pskSecret_none (P : Prim B) (l : List (PskInput B)) (h : 65536 ≤ l.length) :
    pskSecret P l = none := by
  unfold pskSecret
  rw [if_pos h]

/-! ### §3 injectivity of the chain -/

/-- one step is injective in everything: accumulator, index, count, id and PSK value -/
theorem pskStep_inj (P : Prim B) (hP : FreePsk P) (n n' : Nat) (acc acc' : B) (i i' : Nat)
    (x x' : PskInput B) (hi : i < 65536) (hn : n < 65536) (hi' : i' < 65536) (hn' : n' < 65536)
    (h : pskStep P n acc i x = pskStep P n' acc' i' x') :
    acc = acc' ∧ i = i' ∧ n = n' ∧ x = x' := by
  unfold pskStep expandWithLabel expandWithLabelB at h
  have h1 := hP.extract_inj _ _ _ _ h
  have h2 := hP.expand_inj _ _ _ _ _ _ _ _ h1.1
  have h3 := hP.extract_inj _ _ _ _ h2.1
  have h4 := hP.pskLabel_inj _ _ _ _ _ _ hi hn hi' hn' h2.2.2.1
  refine ⟨h1.2, h4.2.1, h4.2.2, ?_⟩
  cases x; cases x'
  simp only [PskInput.mk.injEq]
  exact ⟨h4.1, h3.2⟩

theorem pskStep_ne_zeros (P : Prim B) (hP : FreePsk P) (n : Nat) (acc : B) (i : Nat)
    (x : PskInput B) : pskStep P n acc i x ≠ P.zeros P.nh := by
  unfold pskStep
  exact hP.extract_ne_zeros _ _

/-- The chain determines the list and, unless the list is empty, the `count` written into every
label.  (`count` is a free parameter here; in `pskSecret` it is the length of the list.) -/
theorem chain_inj (P : Prim B) (hP : FreePsk P) (n n' : Nat) (hn : n < 65536) (hn' : n' < 65536) :
    ∀ (l l' : List (PskInput B)), l.length ≤ 65536 → l'.length ≤ 65536 →
      chain P n l = chain P n' l' → l = l' ∧ (l ≠ [] → n = n') := by
  intro l
  generalize hk : l.length = k
  induction k generalizing l with
  | zero =>
    intro l' _ _ h
    have : l = [] := List.length_eq_zero_iff.mp hk
    subst this
    rcases List.eq_nil_or_concat l' with rfl | ⟨p', x', rfl⟩
    · exact ⟨rfl, fun h => absurd rfl h⟩
    · rw [chain_nil, List.concat_eq_append, chain_snoc] at h
      exact absurd h.symm (pskStep_ne_zeros P hP _ _ _ _)
  | succ k ih =>
    intro l' hl hl' h
    rcases List.eq_nil_or_concat l with rfl | ⟨p, x, rfl⟩
    · simp at hk
    rw [List.concat_eq_append] at h hk ⊢
    rcases List.eq_nil_or_concat l' with rfl | ⟨p', x', rfl⟩
    · rw [chain_nil, chain_snoc] at h
      exact absurd h (pskStep_ne_zeros P hP _ _ _ _)
    · rw [List.concat_eq_append] at h hl' ⊢
      rw [chain_snoc, chain_snoc] at h
      simp only [List.length_append, List.length_cons, List.length_nil] at hl' hk
      have h1 := pskStep_inj P hP n n' _ _ _ _ x x' (by omega) hn (by omega) hn' h
      have h2 := ih p (by omega) p' (by omega) (by omega) h1.1
      refine ⟨?_, fun _ => h1.2.2.1⟩
      rw [h2.1, h1.2.2.2]

/-! ### §4 the epoch secrets determine the PSK secret -/

/-- the epoch secret of `from_joiner` -/
def epochSecret (P : Prim B) (joiner ctx psk : B) : B :=
  expandWithLabel P (preEpochSecret P psk joiner) "epoch" ctx none

theorem fromJoiner_eq (P : Prim B) (joiner ctx psk : B) :
    fromJoiner P joiner ctx psk = fromEpochSecret P (epochSecret P joiner ctx psk) := rfl

theorem epochSecret_inj (P : Prim B) (hP : FreePsk P) (j j' c c' s s' : B)
    (h : epochSecret P j c s = epochSecret P j' c' s') : j = j' ∧ c = c' ∧ s = s' := by
  unfold epochSecret expandWithLabel expandWithLabelB preEpochSecret at h
  have h1 := hP.expand_inj _ _ _ _ _ _ _ _ h
  have h2 := hP.extract_inj _ _ _ _ h1.1
  exact ⟨h2.1, h1.2.2.1, h2.2⟩

theorem deriveSecret_inj (P : Prim B) (hP : FreePsk P) (lbl : String) (e e' : B)
    (h : deriveSecret P e lbl = deriveSecret P e' lbl) : e = e' := by
  unfold deriveSecret expandWithLabel expandWithLabelB at h
  exact (hP.expand_inj _ _ _ _ _ _ _ _ h).1

theorem welcomeSecret_inj (P : Prim B) (hP : FreePsk P) (j j' s s' : B)
    (h : welcomeSecret P j s = welcomeSecret P j' s') : j = j' ∧ s = s' := by
  unfold welcomeSecret preEpochSecret at h
  exact hP.extract_inj _ _ _ _ (deriveSecret_inj P hP _ _ _ h)

/-! ### §5 the assumptions hold in the free term algebra -/

open MlsVerif.ST in
/-- In the free term algebra `ST.Term` (every primitive a constructor: `extract`, `expand`, `cat`,
`u16`, `zeros` are distinct constructors) the assumptions hold, for any sizes. -/
theorem termPrim_freePsk (nh nk nn : Nat) : FreePsk (termPrim nh nk nn) where
  extract_inj := by
    intro a b a' b' h
    simp only [termPrim] at h
    cases h
    exact ⟨rfl, rfl⟩
  expand_inj := by
    intro s l c n s' l' c' n' h
    simp only [termPrim] at h
    cases h
    exact ⟨rfl, rfl, rfl, rfl⟩
  pskLabel_inj := by
    intro id i n id' i' n' hi hn hi' hn' h
    refine pskLabel_inj_of_cat _ ?_ ?_ id i n id' i' n' hi hn hi' hn' h
    · intro a b a' b' h
      simp only [termPrim] at h
      cases h
      exact ⟨rfl, rfl⟩
    · intro a b _ _ h
      simp only [termPrim] at h
      cases h
      rfl
  extract_ne_zeros := by
    intro a b h
    simp only [termPrim] at h
    cases h

end MlsVerif.Psk
