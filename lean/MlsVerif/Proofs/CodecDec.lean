/-
Decoder-side lemmas: whatever `decode` accepts is well typed, consumes a prefix of the input, is
not heavier than a schema constant times the bytes consumed, and (for canonical schemas) re-encodes
to exactly the bytes consumed.
-/
import MlsVerif.Proofs.CodecEnc

namespace MlsVerif.Codec

theorem weightList_eq (vs : List Value) : weightList vs = sumBy weight vs := by
  induction vs with
  | nil => rfl
  | cons v vs ih => simp [weightList, sumBy, ih]

theorem weightKvs_eq (kvs : List (Value × Value)) :
    weightKvs kvs = sumBy (fun kv => weight kv.1 + weight kv.2) kvs := by
  induction kvs with
  | nil => rfl
  | cons kv kvs ih => obtain ⟨k, v⟩ := kv; simp [weightKvs, sumBy, ih]

theorem LoopRel_all {α} {f : Dec α} {data : Bytes} {xs : List α} (P : α → Prop)
    (h : LoopRel f data xs) (hf : ∀ d x r, f d = .ok (x, r) → P x) : ∀ x, x ∈ xs → P x := by
  induction h with
  | nil => intro x hx; cases hx
  | @cons data v rest vs _ hv _ _ ih =>
    intro x hx
    rcases List.mem_cons.1 hx with rfl | hx
    · exact hf _ _ _ hv
    · exact ih x hx

/-- The guard makes every element consume at least one byte, so the total weight is bounded by
twice the per-element constant times the payload length. -/
theorem LoopRel_weight {α} {f : Dec α} {data : Bytes} {xs : List α} (w : α → Nat) (Kc : Nat)
    (h : LoopRel f data xs)
    (hf : ∀ d x r, f d = .ok (x, r) → ∃ c, d = c ++ r ∧ w x ≤ Kc * c.length + Kc) :
    sumBy w xs ≤ 2 * Kc * data.length := by
  induction h with
  | nil => simp [sumBy]
  | @cons data v rest vs _ hv hlt _ ih =>
    obtain ⟨c, hc, hw⟩ := hf _ _ _ hv
    have hl : data.length = c.length + rest.length := by rw [hc, List.length_append]
    have hc1 : 1 ≤ c.length := by omega
    have : Kc ≤ Kc * c.length := Nat.le_mul_of_pos_right _ hc1
    simp only [sumBy, hl, Nat.mul_add, Nat.mul_assoc] at *
    omega

theorem CanonCases_mem : ∀ (cs : List (Nat × Option Schema)) (t : Nat) (s : Schema),
    CanonCases cs = true → (t, some s) ∈ cs → Canon s = true := by
  intro cs
  induction cs with
  | nil => intro _ _ _ h; cases h
  | cons c cs ih =>
    intro t s hc hm
    obtain ⟨t', o⟩ := c
    cases o with
    | none =>
      simp only [CanonCases] at hc
      rcases List.mem_cons.1 hm with h | h
      · cases h
      · exact ih t s hc h
    | some s' =>
      simp only [CanonCases, Bool.and_eq_true] at hc
      rcases List.mem_cons.1 hm with h | h
      · injection h with _ h; injection h with h; subst h; exact hc.1
      · exact ih t s hc.2 h

theorem KCases_mem : ∀ (cs : List (Nat × Option Schema)) (t : Nat) (s : Schema),
    (t, some s) ∈ cs → K s ≤ KCases cs := by
  intro cs
  induction cs with
  | nil => intro _ _ h; cases h
  | cons c cs ih =>
    intro t s hm
    obtain ⟨t', o⟩ := c
    cases o with
    | none =>
      simp only [KCases]
      rcases List.mem_cons.1 hm with h | h
      · cases h
      · exact ih t s h
    | some s' =>
      simp only [KCases]
      rcases List.mem_cons.1 hm with h | h
      · injection h with _ h; injection h with h; subst h; omega
      · have := ih t s h; omega

def DecSpec (s : Schema) : Prop :=
  ∀ b v r, decode s b = .ok (v, r) →
    WF s v = true ∧ ∃ c, b = c ++ r ∧ weight v ≤ K s * c.length + K s ∧
      (Canon s = true → encode s v = .ok c) ∧ (nonEmpty s = true → 0 < c.length)

theorem decSpec_fields : ∀ (fs : List Schema), (∀ f, f ∈ fs → DecSpec f) →
    ∀ b vs r, decodeFields fs b = .ok (vs, r) →
    WFFields fs vs = true ∧ ∃ c, b = c ++ r ∧
      weightList vs ≤ KFields fs * c.length + KFields fs ∧
      (CanonFields fs = true → encodeFields fs vs = .ok c) ∧
      (nonEmptyFields fs = true → 0 < c.length) := by
  intro fs
  induction fs with
  | nil =>
    intro _ b vs r h
    simp only [decodeFields] at h
    injection h with h; injection h with h1 h2; subst h1 h2
    exact ⟨rfl, [], rfl, by simp [weightList], fun _ => rfl, fun h => by simp [nonEmptyFields] at h⟩
  | cons f fs ih =>
    intro hf b vs r h
    simp only [decodeFields] at h
    split at h
    · cases h
    · rename_i v1 r1 h1
      split at h
      · cases h
      · rename_i vs2 r2 h2
        injection h with h; injection h with e1 e2; subst e1 e2
        obtain ⟨w1, c1, hb1, hw1, hc1, hn1⟩ := hf f List.mem_cons_self b v1 r1 h1
        obtain ⟨w2, c2, hb2, hw2, hc2, hn2⟩ :=
          ih (fun g hg => hf g (List.mem_cons_of_mem _ hg)) r1 vs2 r2 h2
        refine ⟨by simp [WFFields, w1, w2], c1 ++ c2, by rw [hb1, hb2, List.append_assoc], ?_, ?_, ?_⟩
        · simp only [weightList, KFields, List.length_append, Nat.add_mul, Nat.mul_add]
          omega
        · intro hcan
          simp only [CanonFields, Bool.and_eq_true] at hcan
          simp [encodeFields, hc1 hcan.1, hc2 hcan.2]
        · intro hne
          simp only [nonEmptyFields, Bool.or_eq_true] at hne
          rw [List.length_append]
          rcases hne with hne | hne
          · have := hn1 hne; omega
          · have := hn2 hne; omega

theorem decodePair_spec {k v : Schema} (ihk : DecSpec k) (ihv : DecSpec v) {d r : Bytes}
    {kv : Value × Value} (h : decodePair (decode k) (decode v) d = .ok (kv, r)) :
    WF k kv.1 = true ∧ WF v kv.2 = true ∧ ∃ c, d = c ++ r ∧
      weight kv.1 + weight kv.2 ≤ (K k + K v) * c.length + (K k + K v) := by
  unfold decodePair at h
  split at h
  · cases h
  · rename_i x r1 h1
    split at h
    · cases h
    · rename_i y r2 h2
      injection h with h; injection h with e1 e2; subst e1 e2
      obtain ⟨w1, c1, hb1, hw1, _, _⟩ := ihk d x r1 h1
      obtain ⟨w2, c2, hb2, hw2, _, _⟩ := ihv r1 y r2 h2
      refine ⟨w1, w2, c1 ++ c2, by rw [hb1, hb2, List.append_assoc], ?_⟩
      simp only [List.length_append, Nat.add_mul, Nat.mul_add]
      omega

theorem decodeCollection_ok {α} {inner : Bytes → Except CodecErr α} {b r : Bytes} {x : α}
    (h : decodeCollection inner b = .ok (x, r)) :
    ∃ data, data.length ≤ varintMax ∧ b = encodeVarint data.length ++ data ++ r ∧
      inner data = .ok x := by
  unfold decodeCollection at h
  split at h
  · cases h
  · rename_i data rest hs
    split at h
    · cases h
    · rename_i items hi
      injection h with h; injection h with e1 e2; subst e1 e2
      obtain ⟨h1, h2⟩ := decodeSplit_ok hs
      exact ⟨data, h1, h2, hi⟩

theorem decSpec_all : ∀ s, DecSpec s := by
  intro s
  induction s using Schema.ind with
  | u n =>
    intro b v r h
    simp only [decode] at h
    split at h
    · cases h
    · rename_i x r' hd
      injection h with h; injection h with e1 e2; subst e1 e2
      obtain ⟨hx, hb⟩ := decodeU_ok hd
      exact ⟨by simp [WF, hx], toBE n x, hb, by simp [weight, K], fun _ => by simp [encode, hx],
        fun h => by simpa [nonEmpty, toBE_length] using h⟩
  | bool =>
    intro b v r h
    simp only [decode] at h
    split at h
    · cases h
    · rename_i x r'
      injection h with h; injection h with e1 e2; subst e1 e2
      exact ⟨rfl, [x], rfl, by simp [weight, K], fun hc => by simp [Canon] at hc, fun _ => by simp⟩
  | fixed n =>
    intro b v r h
    simp only [decode] at h
    split at h
    · cases h
    · rename_i x r' hd
      injection h with h; injection h with e1 e2; subst e1 e2
      obtain ⟨hb, hl⟩ := splitN_ok hd
      refine ⟨by simp [WF, hl], x, hb, ?_, fun _ => by simp [encode, hl],
        fun h => by simpa [nonEmpty, hl] using h⟩
      simp only [weight, K, hl, Nat.add_mul]; omega
  | bytes =>
    intro b v r h
    simp only [decode] at h
    split at h
    · cases h
    · rename_i x r' hd
      injection h with h; injection h with e1 e2; subst e1 e2
      obtain ⟨hl, hb⟩ := decodeSplit_ok hd
      refine ⟨rfl, _, hb, ?_, fun _ => by simp only [encode]; exact encodeLenPrefixed_of_le hl,
        fun _ => by have := encodeVarint_length_pos x.length; rw [List.length_append]; omega⟩
      simp only [weight, K, List.length_append]; omega
  | varint =>
    intro b v r h
    simp only [decode] at h
    split at h
    · cases h
    · rename_i x r' hd
      injection h with h; injection h with e1 e2; subst e1 e2
      obtain ⟨hl, hb⟩ := decodeVarint_ok hd
      exact ⟨by simp [WF, hl], _, hb, by simp [weight, K], fun _ => by simp [encode, hl],
        fun _ => encodeVarint_length_pos x⟩
  | str =>
    intro b v r h
    simp only [decode] at h
    split at h
    · cases h
    · rename_i x r' hd
      split at h
      · rename_i hu
        injection h with h; injection h with e1 e2; subst e1 e2
        obtain ⟨hl, hb⟩ := decodeSplit_ok hd
        refine ⟨by simp [WF, hu], _, hb, ?_,
          fun _ => by simp only [encode, hu, if_true]; exact encodeLenPrefixed_of_le hl,
          fun _ => by have := encodeVarint_length_pos x.length; rw [List.length_append]; omega⟩
        simp only [weight, K, List.length_append]; omega
      · cases h
  | vec e ih =>
    intro b v r h
    simp only [decode] at h
    split at h
    · cases h
    · rename_i vs r' hd
      injection h with h; injection h with e1 e2; subst e1 e2
      obtain ⟨data, hl, hb, hi⟩ := decodeCollection_ok hd
      have hrel := decodeLoop_ok_iff.1 hi
      have hwf : ∀ x, x ∈ vs → WF e x = true :=
        LoopRel_all (fun x => WF e x = true) hrel (fun d x r hx => (ih d x r hx).1)
      have hwt : sumBy weight vs ≤ 2 * K e * data.length :=
        LoopRel_weight weight (K e) hrel (fun d x r hx => by
          obtain ⟨_, c, hc, hw, _⟩ := ih d x r hx; exact ⟨c, hc, hw⟩)
      refine ⟨by simp only [WF, List.all_eq_true]; exact hwf, _, hb, ?_, ?_,
        fun _ => by
          have := encodeVarint_length_pos data.length; rw [List.length_append]; omega⟩
      · simp only [weight, weightList_eq, K, List.length_append, Nat.add_mul, Nat.mul_add]
        omega
      · intro hcan
        simp only [Canon] at hcan
        have := encodeList_of_LoopRel (enc := encode e) hrel (fun d x r hx _ => by
          obtain ⟨_, c, hc, _, he, _⟩ := ih d x r hx; exact ⟨c, hc, he hcan⟩)
        simp only [encode, this]
        exact encodeLenPrefixed_of_le hl
  | opt e ih =>
    intro b v r h
    simp only [decode] at h
    split at h
    · cases h
    · rename_i x r'
      split at h
      · rename_i hx0
        injection h with h; injection h with e1 e2; subst e1 e2 hx0
        exact ⟨rfl, [0], rfl, by simp only [weight, K]; omega, fun _ => rfl, fun _ => by simp⟩
      · split at h
        · rename_i _ hx1
          split at h
          · cases h
          · rename_i y r'' hd
            injection h with h; injection h with e1 e2; subst e1 e2 hx1
            obtain ⟨w1, c, hc, hw, hcan, _⟩ := ih r' y r'' hd
            refine ⟨by simp [WF, w1], 1 :: c, by simp [hc], ?_, ?_, fun _ => by simp⟩
            · simp only [weight, K, List.length_cons, Nat.add_mul, Nat.mul_add]; omega
            · intro hc'
              simp only [Canon] at hc'
              simp [encode, hcan hc']
        · cases h
  | struct fs ih =>
    intro b v r h
    simp only [decode] at h
    split at h
    · cases h
    · rename_i vs r' hd
      injection h with h; injection h with e1 e2; subst e1 e2
      obtain ⟨w1, c, hc, hw, hcan, hne⟩ := decSpec_fields fs ih b vs r' hd
      refine ⟨by simp [WF, w1], c, hc, ?_, ?_, fun h => hne (by simpa [nonEmpty] using h)⟩
      · simp only [weight, K, Nat.add_mul]; omega
      · intro hc'
        simp only [Canon] at hc'
        simp [encode, hcan hc']
  | enum w cs ih =>
    intro b v r h
    simp only [decode] at h
    split at h
    · cases h
    · rename_i tag r1 hd
      split at h
      · cases h
      · rename_i p r2 hcs
        injection h with h; injection h with e1 e2; subst e1 e2
        obtain ⟨ht, hb⟩ := decodeU_ok hd
        rw [decodeCases_eq] at hcs
        split at hcs
        · cases hcs
        · rename_i hcase
          injection hcs with hcs; injection hcs with e1 e2; subst e1 e2
          refine ⟨by simp [WF, ht, WFCases_eq, hcase], toBE w tag, hb, by simp only [weight, weightOpt, K]; omega,
            fun _ => by simp [encode, ht, encodeCases_eq, hcase],
            fun h => by simpa [nonEmpty, toBE_length] using h⟩
        · rename_i s1 hcase
          split at hcs
          · cases hcs
          · rename_i y r3 hy
            injection hcs with hcs; injection hcs with e1 e2; subst e1 e2
            have hm := caseOf_mem hcase
            obtain ⟨w1, c, hc, hw, hcan, _⟩ := ih tag s1 hm r1 y r3 hy
            have hK := KCases_mem cs tag s1 hm
            refine ⟨by simp [WF, ht, WFCases_eq, hcase, w1], toBE w tag ++ c,
              by rw [hb, hc, List.append_assoc], ?_, ?_,
              fun h => by
                have : 0 < w := by simpa [nonEmpty] using h
                rw [List.length_append, toBE_length]; omega⟩
            · have : K s1 * c.length ≤ KCases cs * c.length := Nat.mul_le_mul_right _ hK
              simp only [weight, weightOpt, K, List.length_append, Nat.add_mul, Nat.mul_add]
              omega
            · intro hc'
              simp only [Canon] at hc'
              simp [encode, ht, encodeCases_eq, hcase, hcan (CanonCases_mem cs tag s1 hc' hm)]
  | map k v ihk ihv =>
    intro b x r h
    simp only [decode] at h
    split at h
    · cases h
    · rename_i m r' hd
      injection h with h; injection h with e1 e2; subst e1 e2
      obtain ⟨data, hl, hb, hi⟩ := decodeCollection_ok hd
      obtain ⟨kvs, hrel, hins⟩ := decodeMapLoop_ok_iff.1 hi
      have hwf : ∀ kv, kv ∈ kvs → WF k kv.1 = true ∧ WF v kv.2 = true :=
        LoopRel_all (fun kv => WF k kv.1 = true ∧ WF v kv.2 = true) hrel
          (fun d kv r hx => ⟨(decodePair_spec ihk ihv hx).1, (decodePair_spec ihk ihv hx).2.1⟩)
      have hwt : sumBy (fun kv => weight kv.1 + weight kv.2) kvs
          ≤ 2 * (K k + K v) * data.length :=
        LoopRel_weight (fun kv => weight kv.1 + weight kv.2) (K k + K v) hrel
          (fun d kv r hx => (decodePair_spec ihk ihv hx).2.2)
      obtain ⟨hp, hmem, hwm⟩ := insertAll_spec k kvs [] m (fun kv hm => (hwf kv hm).1)
        (fun kv hm => by cases hm) List.Pairwise.nil hins
      have hmw : ∀ kv, kv ∈ m → WF k kv.1 = true ∧ WF v kv.2 = true := fun kv hm =>
        hwf kv (by simpa using (hmem kv).1 hm)
      have hsorted : sortedKeys m = true :=
        (sortedKeys_iff_pairwise k m (fun kv hm => (hmw kv hm).1)).2 hp
      refine ⟨?_, _, hb, ?_, fun hc => by simp [Canon] at hc,
        fun _ => by
          have := encodeVarint_length_pos data.length; rw [List.length_append]; omega⟩
      · simp only [WF, Bool.and_eq_true, List.all_eq_true, hsorted, and_true]
        exact hmw
      · rw [← weightKvs_eq] at hwt
        simp only [weight, hwm, weightKvs, K, List.length_append, Nat.add_mul, Nat.mul_add] at *
        omega

end MlsVerif.Codec
