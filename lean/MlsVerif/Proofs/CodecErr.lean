/-
When does `encode` fail on a well-typed value (`tooBig`), and agreement of the `preallocate`
encoder `encodeP` with `encode`.
-/
import MlsVerif.Proofs.CodecEnc

namespace MlsVerif.Codec

/-- outcome of encoding a well-typed value -/
def EncTotal (s : Schema) : Prop :=
  ∀ v, WF s v = true →
    (tooBig s v = true → encode s v = .error .varIntOutOfRange) ∧
    (tooBig s v = false → ∃ b, encode s v = .ok b)

theorem encodeList_total {α} (enc : α → Except CodecErr Bytes) (tb : α → Bool) :
    ∀ xs : List α,
    (∀ x, x ∈ xs → (tb x = true → enc x = .error .varIntOutOfRange) ∧
      (tb x = false → ∃ b, enc x = .ok b)) →
    (xs.any tb = true → encodeList enc xs = .error .varIntOutOfRange) ∧
    (xs.any tb = false → ∃ buf, encodeList enc xs = .ok buf) := by
  intro xs
  induction xs with
  | nil => intro _; simp [encodeList]
  | cons x xs ih =>
    intro hx
    have hx1 := hx x List.mem_cons_self
    have ih' := ih (fun y hy => hx y (List.mem_cons_of_mem _ hy))
    simp only [List.any_cons, Bool.or_eq_true, Bool.or_eq_false_iff, encodeList]
    constructor
    · intro h
      cases hb : tb x with
      | true => simp [hx1.1 hb]
      | false =>
        obtain ⟨b, hb'⟩ := hx1.2 hb
        rcases h with h | h
        · rw [hb] at h; cases h
        · simp [hb', ih'.1 h]
    · intro h
      obtain ⟨b, hb'⟩ := hx1.2 h.1
      obtain ⟨bs, hbs⟩ := ih'.2 h.2
      exact ⟨b ++ bs, by simp [hb', hbs]⟩

theorem encodeFields_total : ∀ fs : List Schema, (∀ f, f ∈ fs → EncTotal f) →
    ∀ vs, WFFields fs vs = true →
    (tooBigFields fs vs = true → encodeFields fs vs = .error .varIntOutOfRange) ∧
    (tooBigFields fs vs = false → ∃ b, encodeFields fs vs = .ok b) := by
  intro fs
  induction fs with
  | nil =>
    intro _ vs hw
    cases vs with
    | nil => simp [tooBigFields, encodeFields]
    | cons v vs => simp [WFFields] at hw
  | cons f fs ih =>
    intro hf vs hw
    cases vs with
    | nil => simp [WFFields] at hw
    | cons v vs =>
      simp only [WFFields, Bool.and_eq_true] at hw
      have h1 := hf f List.mem_cons_self v hw.1
      have h2 := ih (fun g hg => hf g (List.mem_cons_of_mem _ hg)) vs hw.2
      simp only [tooBigFields, Bool.or_eq_true, Bool.or_eq_false_iff, encodeFields]
      constructor
      · intro h
        cases hb : tooBig f v with
        | true => simp [h1.1 hb]
        | false =>
          obtain ⟨b, hb'⟩ := h1.2 hb
          rcases h with h | h
          · rw [hb] at h; cases h
          · simp [hb', h2.1 h]
      · intro h
        obtain ⟨b, hb'⟩ := h1.2 h.1
        obtain ⟨bs, hbs⟩ := h2.2 h.2
        exact ⟨b ++ bs, by simp [hb', hbs]⟩

theorem encodeLenPrefixed_total (p : Bytes) :
    (varintMax < p.length → encodeLenPrefixed p = .error .varIntOutOfRange) ∧
    (¬ varintMax < p.length → ∃ b, encodeLenPrefixed p = .ok b) := by
  constructor
  · intro h
    have : ¬ p.length ≤ varintMax := by omega
    simp [encodeLenPrefixed, encodeLen, this]
  · intro h
    exact ⟨_, encodeLenPrefixed_of_le (by omega)⟩

theorem encodePair_size {k v : Schema} {kv : Value × Value} {bx : Bytes}
    (hk : WF k kv.1 = true) (hv : WF v kv.2 = true)
    (hb : encodePair (encode k) (encode v) kv = .ok bx) :
    size k kv.1 + size v kv.2 = bx.length := by
  unfold encodePair at hb
  split at hb
  · cases hb
  · rename_i a ha
    split at hb
    · cases hb
    · rename_i c hc
      injection hb with hb; subst hb
      rw [(encSpec_all k kv.1 a hk ha).1, (encSpec_all v kv.2 c hv hc).1, List.length_append]

theorem encTotal_all : ∀ s, EncTotal s := by
  intro s
  induction s using Schema.ind with
  | u n =>
    intro v hw; obtain ⟨x, rfl, hx⟩ := WF_u hw
    simp [tooBig, encode, hx]
  | bool =>
    intro v hw; obtain ⟨x, rfl⟩ := WF_bool hw
    simp [tooBig, encode]
  | fixed n =>
    intro v hw; obtain ⟨x, rfl, hx⟩ := WF_fixed hw
    simp [tooBig, encode, hx]
  | bytes =>
    intro v hw; obtain ⟨x, rfl⟩ := WF_bytes hw
    have := encodeLenPrefixed_total x
    simp only [tooBig, encode, decide_eq_true_eq, decide_eq_false_iff_not]
    exact this
  | varint =>
    intro v hw; obtain ⟨x, rfl, hx⟩ := WF_varint hw
    simp [tooBig, encode, hx]
  | str =>
    intro v hw; obtain ⟨x, rfl, hx⟩ := WF_str hw
    have := encodeLenPrefixed_total x
    simp only [tooBig, encode, hx, if_true, decide_eq_true_eq, decide_eq_false_iff_not]
    exact this
  | vec e ih =>
    intro v hw; obtain ⟨xs, rfl, hx⟩ := WF_vec hw
    have hl := encodeList_total (encode e) (tooBig e) xs (fun x hm => ih x (hx x hm))
    simp only [tooBig, encode, Bool.or_eq_true, Bool.or_eq_false_iff, decide_eq_true_eq,
      decide_eq_false_iff_not]
    cases ha : xs.any (tooBig e) with
    | true => simp [hl.1 ha]
    | false =>
      obtain ⟨buf, hbuf⟩ := hl.2 ha
      have hsz : sumBy (size e) xs = buf.length :=
        encodeList_length xs buf (fun x hm bx hb => (encSpec_all e x bx (hx x hm) hb).1) hbuf
      have := encodeLenPrefixed_total buf
      simp only [hbuf, hsz]
      exact ⟨fun h => this.1 (by simpa using h), fun h => this.2 h.2⟩
  | opt e ih =>
    intro v hw
    rcases WF_opt hw with rfl | ⟨x, rfl, hx⟩
    · simp [tooBig, encode]
    · have := ih x hx
      simp only [tooBig, encode]
      constructor
      · intro h; simp [this.1 h]
      · intro h; obtain ⟨b, hb⟩ := this.2 h; exact ⟨1 :: b, by simp [hb]⟩
  | struct fs ih =>
    intro v hw; obtain ⟨xs, rfl, hx⟩ := WF_struct hw
    simp only [tooBig, encode]
    exact encodeFields_total fs ih xs hx
  | enum w cs ih =>
    intro v hw; obtain ⟨tag, p, rfl, ht, hp⟩ := WF_enum hw
    simp only [tooBig, encode, ht, if_true, tooBigCases_eq, encodeCases_eq]
    rcases WFCases_inv hp with ⟨c1, rfl⟩ | ⟨s1, v1, c1, rfl, w1⟩
    · simp [c1]
    · have := ih tag s1 (caseOf_mem c1) v1 w1
      simp only [c1]
      constructor
      · intro h; simp [this.1 h]
      · intro h; obtain ⟨b, hb⟩ := this.2 h; exact ⟨toBE w tag ++ b, by simp [hb]⟩
  | map k v ihk ihv =>
    intro x hw; obtain ⟨kvs, rfl, hx, hs⟩ := WF_map hw
    have hl := encodeList_total (encodePair (encode k) (encode v))
      (fun kv => tooBig k kv.1 || tooBig v kv.2) kvs (fun kv hm => by
        have h1 := ihk kv.1 (hx kv hm).1
        have h2 := ihv kv.2 (hx kv hm).2
        simp only [Bool.or_eq_true, Bool.or_eq_false_iff, encodePair]
        constructor
        · intro h
          cases hb : tooBig k kv.1 with
          | true => simp [h1.1 hb]
          | false =>
            obtain ⟨b, hb'⟩ := h1.2 hb
            rcases h with h | h
            · rw [hb] at h; cases h
            · simp [hb', h2.1 h]
        · intro h
          obtain ⟨a, ha⟩ := h1.2 h.1
          obtain ⟨c, hc⟩ := h2.2 h.2
          exact ⟨a ++ c, by simp [ha, hc]⟩)
    simp only [tooBig, encode, hs, if_true, Bool.or_eq_true, Bool.or_eq_false_iff,
      decide_eq_true_eq, decide_eq_false_iff_not]
    cases ha : kvs.any (fun kv => tooBig k kv.1 || tooBig v kv.2) with
    | true => simp [hl.1 ha]
    | false =>
      obtain ⟨buf, hbuf⟩ := hl.2 ha
      have hsz : sumBy (fun kv => size k kv.1 + size v kv.2) kvs = buf.length :=
        encodeList_length kvs buf
          (fun kv hm bx hb => encodePair_size (hx kv hm).1 (hx kv hm).2 hb) hbuf
      have := encodeLenPrefixed_total buf
      simp only [hbuf, hsz]
      exact ⟨fun h => this.1 (by simpa using h), fun h => this.2 h.2⟩

theorem encode_err_kind {s : Schema} {v : Value} {e : CodecErr} (hw : WF s v = true)
    (he : encode s v = .error e) : e = .varIntOutOfRange ∧ tooBig s v = true := by
  have := encTotal_all s v hw
  cases hb : tooBig s v with
  | true => rw [this.1 hb] at he; injection he with he; exact ⟨he.symm, rfl⟩
  | false => obtain ⟨b, hb'⟩ := this.2 hb; rw [hb'] at he; cases he

/-! ## The `preallocate` encoder -/

theorem encodeList_congr {α} {f g : α → Except CodecErr Bytes} : ∀ xs : List α,
    (∀ x, x ∈ xs → f x = g x) → encodeList f xs = encodeList g xs := by
  intro xs
  induction xs with
  | nil => intro _; rfl
  | cons x xs ih =>
    intro h
    simp only [encodeList, h x List.mem_cons_self,
      ih (fun y hy => h y (List.mem_cons_of_mem _ hy))]

theorem encodeList_err {α} {enc : α → Except CodecErr Bytes} {E : CodecErr} : ∀ xs : List α,
    (∀ x, x ∈ xs → ∀ e, enc x = .error e → e = E) →
    ∀ e, encodeList enc xs = .error e → e = E := by
  intro xs
  induction xs with
  | nil => intro _ e h; cases h
  | cons x xs ih =>
    intro hx e h
    simp only [encodeList] at h
    split at h
    · rename_i e' he; injection h with h; subst h; exact hx x List.mem_cons_self _ he
    · split at h
      · rename_i e' he; injection h with h; subst h
        exact ih (fun y hy => hx y (List.mem_cons_of_mem _ hy)) _ he
      · cases h

theorem encodePrefixedP_eq (len : Nat) (payload : Except CodecErr Bytes)
    (hok : ∀ buf, payload = .ok buf → len = buf.length)
    (herr : ∀ e, payload = .error e → e = .varIntOutOfRange) :
    encodePrefixedP len payload =
      match (motive := Except CodecErr Bytes → Except CodecErr Bytes) payload with
      | .error e => .error e
      | .ok buf => encodeLenPrefixed buf := by
  cases payload with
  | ok buf =>
    have := hok buf rfl; subst this
    simp only [encodePrefixedP, encodeLenPrefixed]
  | error e =>
    have := herr e rfl; subst this
    simp only [encodePrefixedP]
    split
    · rename_i e' he; rw [(encodeLen_err he).2]
    · rfl

def EncPSpec (s : Schema) : Prop := ∀ v, WF s v = true → encodeP s v = encode s v

theorem encPSpec_fields : ∀ fs : List Schema, (∀ f, f ∈ fs → EncPSpec f) →
    ∀ vs, WFFields fs vs = true → encodeFieldsP fs vs = encodeFields fs vs := by
  intro fs
  induction fs with
  | nil => intro _ vs _; cases vs <;> rfl
  | cons f fs ih =>
    intro hf vs hw
    cases vs with
    | nil => rfl
    | cons v vs =>
      simp only [WFFields, Bool.and_eq_true] at hw
      simp only [encodeFieldsP, encodeFields, hf f List.mem_cons_self v hw.1,
        ih (fun g hg => hf g (List.mem_cons_of_mem _ hg)) vs hw.2]

theorem encPSpec_all : ∀ s, EncPSpec s := by
  intro s
  induction s using Schema.ind with
  | u n => intro v hw; obtain ⟨x, rfl, hx⟩ := WF_u hw; simp [encodeP, encode]
  | bool => intro v hw; obtain ⟨x, rfl⟩ := WF_bool hw; simp [encodeP, encode]
  | fixed n => intro v hw; obtain ⟨x, rfl, hx⟩ := WF_fixed hw; simp [encodeP, encode]
  | bytes => intro v hw; obtain ⟨x, rfl⟩ := WF_bytes hw; simp [encodeP, encode]
  | varint => intro v hw; obtain ⟨x, rfl, hx⟩ := WF_varint hw; simp [encodeP, encode]
  | str => intro v hw; obtain ⟨x, rfl, hx⟩ := WF_str hw; simp [encodeP, encode]
  | vec e ih =>
    intro v hw; obtain ⟨xs, rfl, hx⟩ := WF_vec hw
    simp only [encodeP, encode]
    rw [encodeList_congr xs (fun x hm => ih x (hx x hm))]
    exact encodePrefixedP_eq _ _
      (fun buf hbuf => encodeList_length xs buf
        (fun x hm bx hb => (encSpec_all e x bx (hx x hm) hb).1) hbuf)
      (fun err herr => encodeList_err xs
        (fun x hm e' he' => (encode_err_kind (hx x hm) he').1) err herr)
  | opt e ih =>
    intro v hw
    rcases WF_opt hw with rfl | ⟨x, rfl, hx⟩
    · simp [encodeP, encode]
    · simp only [encodeP, encode, ih x hx]
  | struct fs ih =>
    intro v hw; obtain ⟨xs, rfl, hx⟩ := WF_struct hw
    simp only [encodeP, encode]
    exact encPSpec_fields fs ih xs hx
  | enum w cs ih =>
    intro v hw; obtain ⟨tag, p, rfl, ht, hp⟩ := WF_enum hw
    simp only [encodeP, encode, ht, if_true, encodeCasesP_eq, encodeCases_eq]
    rcases WFCases_inv hp with ⟨c1, rfl⟩ | ⟨s1, v1, c1, rfl, w1⟩
    · simp [c1]
    · simp only [c1, ih tag s1 (caseOf_mem c1) v1 w1]
  | map k v ihk ihv =>
    intro x hw; obtain ⟨kvs, rfl, hx, hs⟩ := WF_map hw
    simp only [encodeP, encode, hs, if_true]
    have hc : encodeList (encodePair (encodeP k) (encodeP v)) kvs
        = encodeList (encodePair (encode k) (encode v)) kvs :=
      encodeList_congr kvs (fun kv hm => by
        simp only [encodePair, ihk kv.1 (hx kv hm).1, ihv kv.2 (hx kv hm).2])
    rw [hc]
    exact encodePrefixedP_eq _ _
      (fun buf hbuf => encodeList_length kvs buf
        (fun kv hm bx hb => encodePair_size (hx kv hm).1 (hx kv hm).2 hb) hbuf)
      (fun err herr => encodeList_err kvs
        (fun kv hm e' he' => by
          unfold encodePair at he'
          split at he'
          · rename_i e1 h1; injection he' with he'; subst he'
            exact (encode_err_kind (hx kv hm).1 h1).1
          · split at he'
            · rename_i e1 h1; injection he' with he'; subst he'
              exact (encode_err_kind (hx kv hm).2 h1).1
            · cases he') err herr)

end MlsVerif.Codec
