/-
Helper lemmas for `Props/C10.lean`, part 2: `batch_edit` in filtering mode (`batchEditF true`) against
`batch_edit` in strict mode (`batchEditF false`) on the bundle that the filtering mode kept.
Core Lean only.
-/
import MlsVerif.Proofs.Proposals

namespace MlsVerif.Proposals
open MlsVerif.Tree MlsVerif.TreeMath

/-! ## trees pointwise -/

theorem set_eq (t : Tree) (i : Nat) (n : Option Node) : Tree.set t i n = List.set t i n := by
  unfold Tree.set
  split
  · rfl
  · rw [List.set_eq_of_length_le (by omega)]

theorem get_eq_some {t : Tree} {i : Nat} {n : Node} : Tree.get t i = some n ↔ t[i]? = some (some n) := by
  unfold Tree.get
  cases h : t[i]? with
  | none => simp
  | some x => cases x <;> simp

/-- two leaves cannot coexist in a tree (`TreeIndex`): same identity, HPKE key or signature key -/
def clash (m l : Leaf) : Bool := m.ident == l.ident || m.hpke == l.hpke || m.sig == l.sig

theorem clash_comm (m l : Leaf) : clash m l = clash l m := by
  unfold clash
  rw [Bool.beq_comm (a := m.ident), Bool.beq_comm (a := m.hpke), Bool.beq_comm (a := m.sig)]

theorem conflicts_iff (t : Tree) (l : Leaf) :
    conflicts t l = true ↔ ∃ (j : Nat) (m : Leaf), t[j]? = some (some (Node.leaf m)) ∧ clash m l = true := by
  unfold conflicts leaves
  rw [List.any_eq_true]
  constructor
  · rintro ⟨m, hm, hc⟩
    obtain ⟨a, ha, hf⟩ := List.mem_filterMap.1 hm
    obtain ⟨j, hj⟩ := List.mem_iff_getElem?.1 ha
    refine ⟨j, m, ?_, hc⟩
    rw [hj]
    match a, hf with
    | some (Node.leaf l'), hf => cases hf; rfl
  · rintro ⟨j, m, hj, hc⟩
    exact ⟨m, List.mem_filterMap.2 ⟨some (Node.leaf m), List.mem_of_getElem? hj, rfl⟩, hc⟩

theorem conflicts_false_iff (t : Tree) (l : Leaf) :
    conflicts t l = false ↔ ∀ (j : Nat) (m : Leaf), t[j]? = some (some (Node.leaf m)) → clash m l = false := by
  constructor
  · intro h j m hj
    cases hc : clash m l
    · rfl
    · rw [(conflicts_iff t l).2 ⟨j, m, hj, hc⟩] at h; cases h
  · intro h
    cases hc : conflicts t l
    · rfl
    · obtain ⟨j, m, hj, hcl⟩ := (conflicts_iff t l).1 hc
      rw [h j m hj] at hcl; cases hcl

/-! ## `blankLeaf`, `insertLeaf` -/

theorem blankLeaf_ok {t t' : Tree} {i : Nat} {old : Leaf} (h : blankLeaf t i = .ok (old, t')) :
    validIndex t.length (2 * i) = true ∧ t[2 * i]? = some (some (Node.leaf old)) ∧
      t' = t.set (2 * i) none := by
  unfold blankLeaf at h
  split at h
  · cases h
  · rename_i hv
    split at h
    · rename_i l hg
      cases h
      exact ⟨by simpa using hv, get_eq_some.1 hg, set_eq _ _ _⟩
    · cases h

theorem blankLeaf_of {t : Tree} {i : Nat} {old : Leaf} (hv : validIndex t.length (2 * i) = true)
    (hg : t[2 * i]? = some (some (Node.leaf old))) : blankLeaf t i = .ok (old, t.set (2 * i) none) := by
  unfold blankLeaf
  rw [if_neg (by simp [hv]), get_eq_some.2 hg, set_eq]

theorem blankLeaf_error_of {t : Tree} {i : Nat} (h : ∀ old, t[2 * i]? ≠ some (some (Node.leaf old))) :
    ∃ e, blankLeaf t i = .error e := by
  unfold blankLeaf
  split
  · exact ⟨_, rfl⟩
  · split
    · rename_i l hg
      exact absurd (get_eq_some.1 hg) (h l)
    · exact ⟨_, rfl⟩

theorem insertLeaf_eq {t : Tree} {i : Nat} (l : Leaf) (h : 2 * i < t.length) :
    insertLeaf t i l = t.set (2 * i) (some (Node.leaf l)) := by
  unfold insertLeaf
  simp only
  rw [if_neg (by omega), if_neg, set_eq]
  cases t with
  | nil => simp at h
  | cons => simp

theorem lt_of_getElem?_eq_some {α : Type} {l : List α} {i : Nat} {a : α} (h : l[i]? = some a) :
    i < l.length := by
  have := List.getElem?_eq_some_iff.1 h
  exact this.1

/-! ## equation lemmas with `leafIdxOf` -/

theorem takeOldLeaves_cons (f : Bool) (p : Proposal) (ps : List Proposal) (t : Tree) :
    takeOldLeaves f (p :: ps) t =
      match blankLeaf t (leafIdxOf p) with
      | .ok (old, t1) =>
        match takeOldLeaves f ps t1 with
        | .error e => .error e
        | .ok (rest, t2) => .ok ((p, old) :: rest, t2)
      | .error _ =>
        if !f || !p.byRef then .error (.tree .updatingNonExistingMember)
        else takeOldLeaves f ps t := rfl

theorem insertNewLeaves_cons (f : Bool) (p : Proposal) (old : Leaf) (rest : List (Proposal × Leaf))
    (t : Tree) (done : List (Proposal × Leaf)) :
    insertNewLeaves f ((p, old) :: rest) t done =
      if !conflicts t p.leaf then
        insertNewLeaves f rest (insertLeaf t (leafIdxOf p) p.leaf) ((p, old) :: done)
      else if !f then .error (.tree .duplicateLeafData)
      else if !conflicts t old then insertNewLeaves f rest (insertLeaf t (leafIdxOf p) old) done
      else .ok (none, (done.reverse ++ (p, old) :: rest).foldl
        (fun t po => insertLeaf t (leafIdxOf po.1) po.2) t) := rfl

/-! ## removes -/

theorem applyRemovesF_sublist {f : Bool} : ∀ {rs kept : List Proposal} {t t1 : Tree},
    applyRemovesF f rs t = .ok (kept, t1) → kept.Sublist rs
  | [], kept, t, t1, h => by cases h; exact List.Sublist.refl _
  | p :: ps, kept, t, t1, h => by
    simp only [applyRemovesF] at h
    split at h
    · cases h
    · rename_i kept0 t0 hr
      have ih := applyRemovesF_sublist hr
      split at h
      · cases h; exact List.Sublist.cons_cons _ ih
      · split at h
        · cases h
        · cases h; exact List.Sublist.cons _ ih

/-- the removes that the filtering mode kept are applied by the strict mode with the same result -/
theorem applyRemovesF_stable : ∀ {rs kept : List Proposal} {t t1 : Tree},
    applyRemovesF true rs t = .ok (kept, t1) → applyRemovesF false kept t = .ok (kept, t1)
  | [], kept, t, t1, h => by cases h; rfl
  | p :: ps, kept, t, t1, h => by
    simp only [applyRemovesF] at h
    split at h
    · cases h
    · rename_i kept0 t0 hr
      have ih := applyRemovesF_stable hr
      split at h
      · rename_i old t2 hb
        cases h
        simp only [applyRemovesF, ih, hb]
      · split at h
        · cases h
        · cases h; exact ih

/-- the strict mode keeps everything -/
theorem applyRemovesF_false : ∀ {rs kept : List Proposal} {t t1 : Tree},
    applyRemovesF false rs t = .ok (kept, t1) → kept = rs
  | [], kept, t, t1, h => by cases h; rfl
  | p :: ps, kept, t, t1, h => by
    simp only [applyRemovesF] at h
    split at h
    · cases h
    · rename_i kept0 t0 hr
      have ih := applyRemovesF_false hr
      split at h
      · cases h; rw [ih]
      · simp at h

/-! ## adds -/

theorem applyAddsF_sublist {f : Bool} : ∀ {as kept : List Proposal} {idxs : List Nat} {t t1 : Tree} {s : Nat},
    applyAddsF f as t s = .ok (kept, idxs, t1) → kept.Sublist as
  | [], kept, idxs, t, t1, s, h => by cases h; exact List.Sublist.refl _
  | p :: ps, kept, idxs, t, t1, s, h => by
    simp only [applyAddsF] at h
    split at h
    · split at h
      · cases h
      · rename_i hr
        cases h
        exact List.Sublist.cons_cons _ (applyAddsF_sublist hr)
    · split at h
      · cases h
      · exact List.Sublist.cons _ (applyAddsF_sublist h)

theorem applyAddsF_stable : ∀ {as kept : List Proposal} {idxs : List Nat} {t t1 : Tree} {s : Nat},
    applyAddsF true as t s = .ok (kept, idxs, t1) → applyAddsF false kept t s = .ok (kept, idxs, t1)
  | [], kept, idxs, t, t1, s, h => by cases h; rfl
  | p :: ps, kept, idxs, t, t1, s, h => by
    simp only [applyAddsF] at h
    split at h
    · rename_i i t' ha
      split at h
      · cases h
      · rename_i kept0 idxs0 t2 hr
        cases h
        simp only [applyAddsF, ha, applyAddsF_stable hr]
    · split at h
      · cases h
      · exact applyAddsF_stable h

theorem applyAddsF_false : ∀ {as kept : List Proposal} {idxs : List Nat} {t t1 : Tree} {s : Nat},
    applyAddsF false as t s = .ok (kept, idxs, t1) → kept = as
  | [], kept, idxs, t, t1, s, h => by cases h; rfl
  | p :: ps, kept, idxs, t, t1, s, h => by
    simp only [applyAddsF] at h
    split at h
    · split at h
      · cases h
      · rename_i hr
        cases h
        rw [applyAddsF_false hr]
    · simp at h

/-! ## updates: first loop -/

/-- node index of the leaf an update (paired with the old leaf) is about -/
def pos (po : Proposal × Leaf) : Nat := 2 * leafIdxOf po.1

theorem getElem?_set_none_leaf {t : Tree} {i j : Nat} {m : Leaf}
    (h : (t.set i none)[j]? = some (some (Node.leaf m))) : i ≠ j ∧ t[j]? = some (some (Node.leaf m)) := by
  rw [List.getElem?_set] at h
  split at h
  · split at h <;> cases h
  · rename_i hne; exact ⟨hne, h⟩

theorem takeOldLeaves_spec {f : Bool} {us : List Proposal} : ∀ {pairs : List (Proposal × Leaf)} {t ta : Tree},
    takeOldLeaves f us t = .ok (pairs, ta) →
      ta.length = t.length ∧
      (∀ j, ta[j]? = if j ∈ pairs.map pos then some none else t[j]?) ∧
      (pairs.map pos).Nodup ∧
      (∀ po ∈ pairs, t[pos po]? = some (some (Node.leaf po.2)) ∧ validIndex t.length (pos po) = true) ∧
      (pairs.map (·.1)).Sublist us := by
  induction us with
  | nil =>
    intro pairs t ta h
    cases h
    simp
  | cons p ps ih =>
    intro pairs t ta h
    rw [takeOldLeaves_cons] at h
    split at h
    · rename_i old t1 hb
      obtain ⟨hv, hg, rfl⟩ := blankLeaf_ok hb
      split at h
      · cases h
      · rename_i rest t2 hr
        cases h
        obtain ⟨h1, h2, h3, h4, h5⟩ := ih hr
        have hlt : 2 * leafIdxOf p < t.length := lt_of_getElem?_eq_some hg
        have hnot : pos (p, old) ∉ rest.map pos := fun hm => by
          obtain ⟨po, hpo, he⟩ := List.mem_map.1 hm
          have := (h4 po hpo).1
          rw [he] at this
          have := (getElem?_set_none_leaf this).1
          exact this rfl
        refine ⟨by rw [h1, List.length_set], fun j => ?_, ?_, ?_, ?_⟩
        · rw [h2 j, List.getElem?_set]
          simp only [List.map_cons, List.mem_cons]
          by_cases hj : j = pos (p, old)
          · subst hj
            simp only [true_or, ite_true]
            split
            · rfl
            · simp [pos]
          · have : ¬ (2 * leafIdxOf p = j) := fun h => hj (h ▸ rfl)
            simp only [hj, false_or, this, ite_false]
        · simp only [List.map_cons, List.nodup_cons]
          exact ⟨hnot, h3⟩
        · intro po hpo
          rcases List.mem_cons.1 hpo with rfl | hpo
          · exact ⟨hg, hv⟩
          · have := h4 po hpo
            rw [List.length_set] at this
            exact ⟨(getElem?_set_none_leaf this.1).2, this.2⟩
        · simp only [List.map_cons]
          exact List.Sublist.cons_cons _ h5
    · split at h
      · cases h
      · obtain ⟨h1, h2, h3, h4, h5⟩ := ih h
        exact ⟨h1, h2, h3, h4, List.Sublist.cons _ h5⟩

/-- taking out the old leaves of a list of updates whose leaves are there -/
theorem takeOldLeaves_of {f : Bool} : ∀ {A : List (Proposal × Leaf)} {t : Tree},
    (∀ po ∈ A, t[pos po]? = some (some (Node.leaf po.2)) ∧ validIndex t.length (pos po) = true) →
    (A.map pos).Nodup →
    ∃ t', takeOldLeaves f (A.map (·.1)) t = .ok (A, t') ∧ t'.length = t.length ∧
      ∀ j, t'[j]? = if j ∈ A.map pos then some none else t[j]?
  | [], t, _, _ => ⟨t, rfl, rfl, fun j => by simp⟩
  | (p, old) :: A, t, h, hn => by
    obtain ⟨hg, hv⟩ := h (p, old) List.mem_cons_self
    simp only [List.map_cons, List.nodup_cons] at hn
    have hlt : 2 * leafIdxOf p < t.length := lt_of_getElem?_eq_some hg
    have hb := blankLeaf_of hv hg
    obtain ⟨t', ht, hl, hp⟩ := takeOldLeaves_of (f := f) (A := A) (t := t.set (2 * leafIdxOf p) none)
      (fun po hpo => by
        have := h po (List.mem_cons_of_mem _ hpo)
        rw [List.length_set, List.getElem?_set, if_neg]
        · exact this
        · intro he
          exact hn.1 (List.mem_map.2 ⟨po, hpo, he.symm⟩)) hn.2
    refine ⟨t', ?_, by rw [hl, List.length_set], fun j => ?_⟩
    · simp only [List.map_cons]
      rw [takeOldLeaves_cons]
      simp only [hb, ht]
    · rw [hp j, List.getElem?_set]
      simp only [List.map_cons, List.mem_cons]
      by_cases hj : j = pos (p, old)
      · subst hj
        simp only [true_or, ite_true]
        split
        · rfl
        · simp [pos]
      · have : ¬ (2 * leafIdxOf p = j) := fun h => hj (h ▸ rfl)
        simp only [hj, false_or, this, ite_false]

/-! ## updates: second loop -/

/-- the updates that the second loop applies … -/
def insApplied : List (Proposal × Leaf) → Tree → List (Proposal × Leaf)
  | [], _ => []
  | (p, old) :: rest, t =>
    if !conflicts t p.leaf then (p, old) :: insApplied rest (insertLeaf t (leafIdxOf p) p.leaf)
    else insApplied rest (insertLeaf t (leafIdxOf p) old)

/-- … and the node indices of those it drops (old leaf restored) -/
def insFail : List (Proposal × Leaf) → Tree → List Nat
  | [], _ => []
  | (p, old) :: rest, t =>
    if !conflicts t p.leaf then insFail rest (insertLeaf t (leafIdxOf p) p.leaf)
    else pos (p, old) :: insFail rest (insertLeaf t (leafIdxOf p) old)

theorem insApplied_sublist : ∀ (pairs : List (Proposal × Leaf)) (t : Tree),
    (insApplied pairs t).Sublist pairs
  | [], _ => List.Sublist.refl _
  | (p, old) :: rest, t => by
    simp only [insApplied]
    split
    · exact List.Sublist.cons_cons _ (insApplied_sublist _ _)
    · exact List.Sublist.cons _ (insApplied_sublist _ _)

theorem insFail_subset : ∀ (pairs : List (Proposal × Leaf)) (t : Tree) {j : Nat},
    j ∈ insFail pairs t → j ∈ pairs.map pos
  | [], _, j, h => by cases h
  | (p, old) :: rest, t, j, h => by
    simp only [insFail] at h
    simp only [List.map_cons, List.mem_cons]
    split at h
    · exact Or.inr (insFail_subset _ _ h)
    · rcases List.mem_cons.1 h with h | h
      · exact Or.inl h
      · exact Or.inr (insFail_subset _ _ h)

theorem insApplied_subset (pairs : List (Proposal × Leaf)) (t : Tree) {j : Nat}
    (h : j ∈ (insApplied pairs t).map pos) : j ∈ pairs.map pos :=
  ((insApplied_sublist pairs t).map pos).subset h

theorem ins_cover : ∀ (pairs : List (Proposal × Leaf)) (t : Tree) {j : Nat},
    j ∈ pairs.map pos → j ∈ insFail pairs t ∨ j ∈ (insApplied pairs t).map pos
  | [], _, j, h => by cases h
  | (p, old) :: rest, t, j, h => by
    simp only [List.map_cons, List.mem_cons] at h
    simp only [insFail, insApplied]
    split
    · rcases h with h | h
      · exact Or.inr (by simp [h])
      · rcases ins_cover rest _ h with h' | h'
        · exact Or.inl h'
        · exact Or.inr (by simp only [List.map_cons, List.mem_cons]; exact Or.inr h')
    · rcases h with h | h
      · exact Or.inl (by simp [h])
      · rcases ins_cover rest _ h with h' | h'
        · exact Or.inl (List.mem_cons_of_mem _ h')
        · exact Or.inr h'

theorem ins_disjoint : ∀ (pairs : List (Proposal × Leaf)) (t : Tree) {j : Nat},
    (pairs.map pos).Nodup → j ∈ insFail pairs t → j ∉ (insApplied pairs t).map pos
  | [], _, j, _, h => by cases h
  | (p, old) :: rest, t, j, hn, h => by
    simp only [List.map_cons, List.nodup_cons] at hn
    simp only [insFail] at h
    simp only [insApplied]
    split at h
    · rename_i hc
      rw [if_pos hc]
      simp only [List.map_cons, List.mem_cons, not_or]
      exact ⟨fun he => hn.1 (he ▸ insFail_subset _ _ h), ins_disjoint rest _ hn.2 h⟩
    · rename_i hc
      rw [if_neg hc]
      rcases List.mem_cons.1 h with h | h
      · exact fun hm => hn.1 (h ▸ insApplied_subset _ _ hm)
      · exact ins_disjoint rest _ hn.2 h

/-- the list of applied updates reported by the filtering mode -/
theorem insertNewLeaves_true_applied : ∀ {pairs : List (Proposal × Leaf)} {t tf : Tree}
    {done : List (Proposal × Leaf)} {applied : List Proposal},
    insertNewLeaves true pairs t done = .ok (some applied, tf) →
      applied = done.reverse.map (·.1) ++ (insApplied pairs t).map (·.1)
  | [], t, tf, done, applied, h => by
    simp only [insertNewLeaves] at h
    cases h
    simp [insApplied]
  | (p, old) :: rest, t, tf, done, applied, h => by
    rw [insertNewLeaves_cons] at h
    simp only [insApplied]
    split at h
    · rename_i hc
      rw [if_pos hc, insertNewLeaves_true_applied h]
      simp
    · rename_i hc
      rw [if_neg hc]
      simp only [Bool.not_true, Bool.false_eq_true, ite_false] at h
      split at h
      · exact insertNewLeaves_true_applied h
      · cases h

/-- a leaf that the second loop puts back (after its update failed) clashes with nothing that is in
the tree at positions the remaining updates do not touch — otherwise the revert-all branch is taken -/
theorem ins_fail_noclash (t1 : Tree) : ∀ {pairs : List (Proposal × Leaf)} {tc tf : Tree}
    {done : List (Proposal × Leaf)} {applied : List Proposal},
    insertNewLeaves true pairs tc done = .ok (some applied, tf) →
    (∀ po ∈ pairs, t1[pos po]? = some (some (Node.leaf po.2))) →
    (∀ po ∈ pairs, pos po < tc.length) →
    ∀ j ∈ insFail pairs tc, ∀ m, t1[j]? = some (some (Node.leaf m)) →
      ∀ i m', i ∉ pairs.map pos → tc[i]? = some (some (Node.leaf m')) → clash m' m = false
  | [], _, _, _, _, _, _, _, j, hj, _, _, _, _, _, _ => by cases hj
  | (p, old) :: rest, tc, tf, done, applied, h, holds, hlt, j, hj, m, hm, i, m', hi, hi' => by
    rw [insertNewLeaves_cons] at h
    simp only [insFail] at hj
    simp only [List.map_cons, List.mem_cons, not_or] at hi
    have hp : 2 * leafIdxOf p < tc.length := hlt (p, old) List.mem_cons_self
    have hne : ¬ (2 * leafIdxOf p = i) := fun he => hi.1 (he ▸ rfl)
    split at h
    · rename_i hc
      rw [if_pos hc] at hj
      rw [insertLeaf_eq _ hp] at h hj
      refine ins_fail_noclash t1 h (fun po hpo => holds po (List.mem_cons_of_mem _ hpo))
        (fun po hpo => by rw [List.length_set]; exact hlt po (List.mem_cons_of_mem _ hpo))
        j hj m hm i m' hi.2 ?_
      rw [List.getElem?_set, if_neg hne]; exact hi'
    · rename_i hc
      rw [if_neg hc] at hj
      simp only [Bool.not_true, Bool.false_eq_true, ite_false] at h
      split at h
      · rename_i hc2
        rw [insertLeaf_eq _ hp] at h hj
        rcases List.mem_cons.1 hj with hj | hj
        · -- the restored leaf itself
          have := holds (p, old) List.mem_cons_self
          rw [← hj, hm] at this
          cases this
          simp only [Bool.not_eq_true'] at hc2
          exact (conflicts_false_iff tc _).1 hc2 i m' hi'
        · refine ins_fail_noclash t1 h (fun po hpo => holds po (List.mem_cons_of_mem _ hpo))
            (fun po hpo => by rw [List.length_set]; exact hlt po (List.mem_cons_of_mem _ hpo))
            j hj m hm i m' hi.2 ?_
          rw [List.getElem?_set, if_neg hne]; exact hi'
      · cases h

/-- the receiver's tree during the second loop: the committer's tree, except that the old leaves of
the updates that will fail later (`FI`) are still in place -/
def Overlay (t1 : Tree) (FI : List Nat) (tc tr : Tree) : Prop :=
  tr.length = tc.length ∧ ∀ j, tr[j]? = if j ∈ FI then t1[j]? else tc[j]?

theorem Overlay.nil {t1 tc tr : Tree} (h : Overlay t1 [] tc tr) : tr = tc :=
  List.ext_getElem? fun j => by simpa using h.2 j

/-- second loop: the strict mode, run on the applied updates only and on a tree that still contains
the old leaves of the dropped ones, does what the filtering mode did -/
theorem ins_stable (t1 : Tree) : ∀ {pairs : List (Proposal × Leaf)} {tc tf : Tree}
    {done : List (Proposal × Leaf)} {applied : List Proposal},
    insertNewLeaves true pairs tc done = .ok (some applied, tf) →
    (∀ po ∈ pairs, t1[pos po]? = some (some (Node.leaf po.2))) →
    (pairs.map pos).Nodup →
    (∀ po ∈ pairs, tc[pos po]? = some none) →
    ∀ (tr : Tree) (done' : List (Proposal × Leaf)), Overlay t1 (insFail pairs tc) tc tr →
      insertNewLeaves false (insApplied pairs tc) tr done' =
        .ok (some (done'.reverse.map (·.1) ++ (insApplied pairs tc).map (·.1)), tf)
  | [], tc, tf, done, applied, h, _, _, _, tr, done', hov => by
    simp only [insertNewLeaves] at h
    cases h
    simp only [insFail] at hov
    rw [hov.nil]
    simp [insApplied, insertNewLeaves]
  | (p, old) :: rest, tc, tf, done, applied, h, holds, hn, hblank, tr, done', hov => by
    have h0 := h
    rw [insertNewLeaves_cons] at h
    simp only [List.map_cons, List.nodup_cons] at hn
    have hpb : tc[2 * leafIdxOf p]? = some none := hblank (p, old) List.mem_cons_self
    have hp : 2 * leafIdxOf p < tc.length := lt_of_getElem?_eq_some hpb
    have hp' : 2 * leafIdxOf p < tr.length := hov.1 ▸ hp
    have holds' : ∀ po ∈ rest, t1[pos po]? = some (some (Node.leaf po.2)) :=
      fun po hpo => holds po (List.mem_cons_of_mem _ hpo)
    have hblank' : ∀ (v : Option Node), ∀ po ∈ rest, (tc.set (2 * leafIdxOf p) v)[pos po]? = some none :=
      fun v po hpo => by
        rw [List.getElem?_set, if_neg]
        · exact hblank po (List.mem_cons_of_mem _ hpo)
        · intro he; exact hn.1 (List.mem_map.2 ⟨po, hpo, he.symm⟩)
    simp only [insFail, insApplied] at hov ⊢
    split at h
    · rename_i hc
      rw [if_pos hc] at hov ⊢
      rw [insertLeaf_eq _ hp] at h hov ⊢
      -- the receiver sees no conflict either
      have hcr : conflicts tr p.leaf = false := by
        rw [conflicts_false_iff]
        intro j m hj
        rw [hov.2 j] at hj
        split at hj
        · rename_i hjF
          have hlt : ∀ po ∈ rest, pos po < (tc.set (2 * leafIdxOf p) (some (Node.leaf p.leaf))).length :=
            fun po hpo => lt_of_getElem?_eq_some (hblank' _ po hpo)
          have := ins_fail_noclash t1 h holds' hlt j hjF m hj (2 * leafIdxOf p) p.leaf hn.1
            (by rw [List.getElem?_set]; simp [hp])
          rw [clash_comm]; exact this
        · simp only [Bool.not_eq_true'] at hc
          exact (conflicts_false_iff tc _).1 hc j m hj
      rw [insertNewLeaves_cons, hcr]
      simp only [Bool.not_false, ite_true]
      rw [insertLeaf_eq _ hp']
      have := ins_stable t1 h holds' hn.2 (hblank' _) (tr.set (2 * leafIdxOf p) (some (Node.leaf p.leaf)))
        ((p, old) :: done') ⟨by rw [List.length_set, List.length_set, hov.1], fun j => by
          by_cases hj : 2 * leafIdxOf p = j
          · subst hj
            have hnF : 2 * leafIdxOf p ∉
                insFail rest (List.set tc (2 * leafIdxOf p) (some (Node.leaf p.leaf))) :=
              fun hm => hn.1 (insFail_subset _ _ hm)
            rw [if_neg hnF, List.getElem?_set_self hp, List.getElem?_set_self hp']
          · rw [List.getElem?_set_ne hj, List.getElem?_set_ne hj]; exact hov.2 j⟩
      rw [this]
      simp
    · rename_i hc
      rw [if_neg hc] at hov ⊢
      simp only [Bool.not_true, Bool.false_eq_true, ite_false] at h
      split at h
      · rw [insertLeaf_eq _ hp] at h hov ⊢
        refine ins_stable t1 h holds' hn.2 (hblank' _) tr done' ⟨by rw [List.length_set, hov.1], fun j => ?_⟩
        rw [hov.2 j, List.getElem?_set]
        simp only [List.mem_cons]
        by_cases hj : 2 * leafIdxOf p = j
        · subst hj
          have ho := holds (p, old) List.mem_cons_self
          simp only [pos, true_or, ite_true, hp]
          split
          · rfl
          · exact ho
        · have : ¬ (j = pos (p, old)) := fun he => hj he.symm
          simp only [this, false_or, hj, ite_false]
      · cases h

/-! ## updates: the revert-all branch puts every old leaf back -/

/-- re-inserting old leaves (the ones `t1` holds at those positions) -/
theorem fold_restore (t1 : Tree) : ∀ (L : List (Proposal × Leaf)) (t : Tree),
    (∀ po ∈ L, t1[pos po]? = some (some (Node.leaf po.2)) ∧ pos po < t.length) →
    (L.foldl (fun t po => insertLeaf t (leafIdxOf po.1) po.2) t).length = t.length ∧
      ∀ j : Nat, (L.foldl (fun t po => insertLeaf t (leafIdxOf po.1) po.2) t)[j]? =
        if j ∈ L.map pos then t1[j]? else t[j]?
  | [], t, _ => ⟨rfl, fun j => by simp⟩
  | (p, old) :: L, t, h => by
    obtain ⟨ho, hlt⟩ := h (p, old) List.mem_cons_self
    have hlt' : 2 * leafIdxOf p < t.length := hlt
    simp only [List.foldl_cons]
    rw [insertLeaf_eq _ hlt']
    obtain ⟨ih1, ih2⟩ := fold_restore t1 L (t.set (2 * leafIdxOf p) (some (Node.leaf old)))
      (fun po hpo => by
        rw [List.length_set]; exact h po (List.mem_cons_of_mem _ hpo))
    refine ⟨by rw [ih1, List.length_set], fun j => ?_⟩
    rw [ih2 j]
    simp only [List.map_cons, List.mem_cons]
    by_cases hj : j ∈ L.map pos
    · simp only [hj, or_true, ite_true]
    · simp only [hj, or_false, ite_false]
      by_cases he : j = pos (p, old)
      · subst he
        rw [if_pos rfl]
        show (List.set t (2 * leafIdxOf p) _)[2 * leafIdxOf p]? = _
        rw [List.getElem?_set_self hlt']
        exact ho.symm
      · rw [if_neg he, List.getElem?_set_ne (fun (h : 2 * leafIdxOf p = j) => he h.symm)]

/-- when the second loop ends in the revert-all branch, the tree is the one before the first loop -/
theorem ins_revert_tree (t1 : Tree) : ∀ {pairs : List (Proposal × Leaf)} {tc tf : Tree}
    {done : List (Proposal × Leaf)},
    insertNewLeaves true pairs tc done = .ok (none, tf) →
    (∀ po ∈ pairs, t1[pos po]? = some (some (Node.leaf po.2))) →
    (∀ po ∈ done, t1[pos po]? = some (some (Node.leaf po.2))) →
    tc.length = t1.length →
    (∀ j : Nat, j ∉ pairs.map pos → j ∉ done.map pos → tc[j]? = t1[j]?) →
    tf = t1
  | [], tc, tf, done, h, _, _, _, _ => by
    simp only [insertNewLeaves] at h
    cases h
  | (p, old) :: rest, tc, tf, done, h, hp, hd, hl, hinv => by
    rw [insertNewLeaves_cons] at h
    have ho := hp (p, old) List.mem_cons_self
    have hlt : 2 * leafIdxOf p < tc.length := by
      rw [hl]; exact lt_of_getElem?_eq_some ho
    have hp' : ∀ po ∈ rest, t1[pos po]? = some (some (Node.leaf po.2)) :=
      fun po hpo => hp po (List.mem_cons_of_mem _ hpo)
    split at h
    · rw [insertLeaf_eq _ hlt] at h
      refine ins_revert_tree t1 h hp' (fun po hpo => ?_) (by rw [List.length_set, hl]) (fun j h1 h2 => ?_)
      · rcases List.mem_cons.1 hpo with rfl | hpo
        · exact ho
        · exact hd po hpo
      · simp only [List.map_cons, List.mem_cons, not_or] at h2
        rw [List.getElem?_set_ne (fun (he : 2 * leafIdxOf p = j) => h2.1 he.symm)]
        exact hinv j (by simp only [List.map_cons, List.mem_cons, not_or]; exact ⟨h2.1, h1⟩) h2.2
    · simp only [Bool.not_true, Bool.false_eq_true, ite_false] at h
      split at h
      · rw [insertLeaf_eq _ hlt] at h
        refine ins_revert_tree t1 h hp' hd (by rw [List.length_set, hl]) (fun j h1 h2 => ?_)
        by_cases he : j = pos (p, old)
        · subst he
          show (List.set tc (2 * leafIdxOf p) _)[2 * leafIdxOf p]? = _
          rw [List.getElem?_set_self hlt]; exact ho.symm
        · rw [List.getElem?_set_ne (fun (h : 2 * leafIdxOf p = j) => he h.symm)]
          exact hinv j (by simp only [List.map_cons, List.mem_cons, not_or]; exact ⟨he, h1⟩) h2
      · cases h
        have hall : ∀ po ∈ done.reverse ++ (p, old) :: rest,
            t1[pos po]? = some (some (Node.leaf po.2)) ∧ pos po < tc.length := fun po hpo => by
          have hx : t1[pos po]? = some (some (Node.leaf po.2)) := by
            rcases List.mem_append.1 hpo with hpo | hpo
            · exact hd po (List.mem_reverse.1 hpo)
            · exact hp po hpo
          exact ⟨hx, by rw [hl]; exact lt_of_getElem?_eq_some hx⟩
        obtain ⟨r1, r2⟩ := fold_restore t1 _ tc hall
        refine List.ext_getElem? fun j => ?_
        rw [r2 j]
        split
        · rfl
        · rename_i hj
          simp only [List.map_append, List.map_reverse, List.mem_append, List.mem_reverse, not_or] at hj
          exact hinv j hj.2 hj.1

/-! ## updates: both loops -/

/-- the "revert all" branch of the second loop is taken -/
def updatesRevert (us : List Proposal) (t : Tree) : Bool :=
  match takeOldLeaves true us t with
  | .ok (pairs, t1) =>
    match insertNewLeaves true pairs t1 [] with
    | .ok (none, _) => true
    | _ => false
  | .error _ => false

theorem applyUpdatesF_stable {us applied : List Proposal} {t t2 : Tree}
    (h : applyUpdatesF true us t = .ok (applied, t2)) :
    applyUpdatesF false applied t = .ok (applied, t2) ∧ applied.Sublist us := by
  unfold applyUpdatesF at h
  split at h
  · cases h
  · rename_i pairs ta htake
    obtain ⟨hlen, hta, hnd, holds, hsub⟩ := takeOldLeaves_spec htake
    split at h
    · cases h
    · rename_i ap tb hins
      cases h
      have hap := insertNewLeaves_true_applied hins
      simp only [List.reverse_nil, List.map_nil, List.nil_append] at hap
      subst hap
      have hAsub := insApplied_sublist pairs ta
      have hA : ∀ po ∈ insApplied pairs ta,
          t[pos po]? = some (some (Node.leaf po.2)) ∧ validIndex t.length (pos po) = true :=
        fun po hpo => holds po (hAsub.subset hpo)
      have hAn : ((insApplied pairs ta).map pos).Nodup := hnd.sublist (hAsub.map pos)
      obtain ⟨tr0, htr, hl0, hp0⟩ := takeOldLeaves_of (f := false) hA hAn
      have hov : Overlay t (insFail pairs ta) ta tr0 := by
        refine ⟨by rw [hl0, hlen], fun j => ?_⟩
        rw [hp0 j, hta j]
        by_cases hF : j ∈ insFail pairs ta
        · rw [if_pos hF, if_neg (ins_disjoint pairs ta hnd hF)]
        · rw [if_neg hF]
          by_cases hP : j ∈ pairs.map pos
          · rcases ins_cover pairs ta hP with h' | h'
            · exact absurd h' hF
            · rw [if_pos h', if_pos hP]
          · rw [if_neg hP, if_neg (fun hm => hP (insApplied_subset _ _ hm))]
      have hblank : ∀ po ∈ pairs, ta[pos po]? = some none := fun po hpo => by
        rw [hta, if_pos (List.mem_map.2 ⟨po, hpo, rfl⟩)]
      have := ins_stable t hins (fun po hpo => (holds po hpo).1) hnd hblank tr0 [] hov
      simp only [List.reverse_nil, List.map_nil, List.nil_append] at this
      refine ⟨?_, hAsub.map (·.1) |>.trans hsub⟩
      unfold applyUpdatesF
      simp only [htr, this]
    · rename_i tb hins
      cases h
      have := ins_revert_tree t hins (fun po hpo => (holds po hpo).1) (fun po hpo => by cases hpo) hlen
        (fun j h1 _ => by rw [hta j, if_neg h1])
      subst this
      exact ⟨rfl, List.nil_sublist _⟩

theorem takeOldLeaves_false : ∀ {us : List Proposal} {pairs : List (Proposal × Leaf)} {t ta : Tree},
    takeOldLeaves false us t = .ok (pairs, ta) → pairs.map (·.1) = us
  | [], pairs, t, ta, h => by cases h; rfl
  | p :: ps, pairs, t, ta, h => by
    rw [takeOldLeaves_cons] at h
    split at h
    · split at h
      · cases h
      · rename_i hr
        cases h
        simp [takeOldLeaves_false hr]
    · simp at h

theorem insertNewLeaves_false : ∀ {pairs : List (Proposal × Leaf)} {t tf : Tree}
    {done : List (Proposal × Leaf)} {r : Option (List Proposal)},
    insertNewLeaves false pairs t done = .ok (r, tf) →
      r = some (done.reverse.map (·.1) ++ pairs.map (·.1))
  | [], t, tf, done, r, h => by
    simp only [insertNewLeaves] at h
    cases h; simp
  | (p, old) :: rest, t, tf, done, r, h => by
    rw [insertNewLeaves_cons] at h
    split at h
    · rw [insertNewLeaves_false h]; simp
    · simp at h

/-- the strict mode keeps every update -/
theorem applyUpdatesF_false {us applied : List Proposal} {t t2 : Tree}
    (h : applyUpdatesF false us t = .ok (applied, t2)) : applied = us := by
  unfold applyUpdatesF at h
  split at h
  · cases h
  · rename_i pairs ta htake
    split at h
    · cases h
    · rename_i ap tb hins
      cases h
      have := insertNewLeaves_false hins
      simp only [List.reverse_nil, List.map_nil, List.nil_append, Option.some.injEq] at this
      rw [this, takeOldLeaves_false htake]
    · rename_i tb hins
      have := insertNewLeaves_false hins
      cases this

/-- in every mode the updates reported as applied are among the given ones, in order -/
theorem applyUpdatesF_sublist_true {us applied : List Proposal} {t t2 : Tree}
    (h : applyUpdatesF true us t = .ok (applied, t2)) : applied.Sublist us := by
  unfold applyUpdatesF at h
  split at h
  · cases h
  · rename_i pairs ta htake
    obtain ⟨_, _, _, _, hsub⟩ := takeOldLeaves_spec htake
    split at h
    · cases h
    · rename_i ap tb hins
      cases h
      have hap := insertNewLeaves_true_applied hins
      simp only [List.reverse_nil, List.map_nil, List.nil_append] at hap
      subst hap
      exact ((insApplied_sublist pairs ta).map (·.1)).trans hsub
    · cases h; exact List.nil_sublist _

theorem applyUpdatesF_sublist {f : Bool} {us applied : List Proposal} {t t2 : Tree}
    (h : applyUpdatesF f us t = .ok (applied, t2)) : applied.Sublist us := by
  cases f
  · rw [applyUpdatesF_false h]; exact List.Sublist.refl _
  · exact applyUpdatesF_sublist_true h

/-! ## `batchEditF` -/

/-- the "revert all" branch is taken when `batch_edit(filter = true)` runs on `b`, `t` -/
def editReverts (b : Bundle) (t : Tree) : Bool :=
  match applyRemovesF true b.removes t with
  | .ok (_, t1) => updatesRevert b.updates t1
  | .error _ => false

theorem batchEditF_ok {f : Bool} {b : Bundle} {t : Tree} {out : EditOut}
    (h : batchEditF f b t = .ok out) :
    ∃ removes t1 updates t2 adds added t3,
      applyRemovesF f b.removes t = .ok (removes, t1) ∧
      applyUpdatesF f b.updates t1 = .ok (updates, t2) ∧
      applyAddsF f b.adds t2 0 = .ok (adds, added, t3) ∧
      out = { bundle := { b with removes := removes, updates := updates, adds := adds },
              added := added, tree := trim t3 } := by
  unfold batchEditF at h
  obtain ⟨⟨removes, t1⟩, hr, h⟩ := bind_ok h
  obtain ⟨⟨updates, t2⟩, hu, h⟩ := bind_ok h
  obtain ⟨⟨adds, added, t3⟩, ha, h⟩ := bind_ok h
  cases h
  exact ⟨removes, t1, updates, t2, adds, added, t3, hr, hu, ha, rfl⟩

theorem batchEditF_of {f : Bool} {b : Bundle} {t t1 t2 t3 : Tree} {removes updates adds : List Proposal}
    {added : List Nat}
    (hr : applyRemovesF f b.removes t = .ok (removes, t1))
    (hu : applyUpdatesF f b.updates t1 = .ok (updates, t2))
    (ha : applyAddsF f b.adds t2 0 = .ok (adds, added, t3)) :
    batchEditF f b t = .ok (EditOut.mk { b with removes := removes, updates := updates, adds := adds }
              added (trim t3)) := by
  unfold batchEditF
  simp only [hr, hu, ha, bind, Except.bind, pure, Except.pure]

theorem batchEditF_stable {b : Bundle} {t : Tree} {out : EditOut}
    (h : batchEditF true b t = .ok out) :
    batchEditF false out.bundle t = .ok out := by
  obtain ⟨removes, t1, updates, t2, adds, added, t3, hr, hu, ha, rfl⟩ := batchEditF_ok h
  exact batchEditF_of (applyRemovesF_stable hr) (applyUpdatesF_stable hu).1 (applyAddsF_stable ha)

end MlsVerif.Proposals
