import MlsVerif.Model.GroupAdversary
/-
Soundness of the executable closure `saturate` w.r.t. the inductive `Derivable`: everything the saturation
finds is derivable.  (This is the direction used for the positive claims "the party CAN derive …" on concrete
examples; the negative claims come from `derivable_bound`.)
-/
namespace MlsVerif.Group

theorem stepOnce_sound {K : List Key} {S : List Sec} {seals : List (Key × Sec)} {gens : List (Sec × Key)}
    {U : List Sec} {known : List Fact} (h : ∀ f ∈ known, Derivable K S seals gens f) :
    ∀ f ∈ stepOnce seals gens U known, Derivable K S seals gens f := by
  intro f hf
  have hS : ∀ s, known.contains (Fact.sec s) = true → Derivable K S seals gens (.sec s) := by
    intro s hs; exact h _ (by simpa using hs)
  have hK : ∀ k, known.contains (Fact.key k) = true → Derivable K S seals gens (.key k) := by
    intro k hk; exact h _ (by simpa using hk)
  unfold stepOnce at hf
  simp only [List.mem_append] at hf
  rcases hf with ((hf | hf) | hf) | hf
  · exact h f hf
  · rw [List.mem_map] at hf
    obtain ⟨t, ht, rfl⟩ := hf
    rw [List.mem_filter] at ht
    obtain ⟨_, ht⟩ := ht
    rw [Bool.and_eq_true] at ht
    obtain ⟨_, ht⟩ := ht
    cases t with
    | zero => exact .zero
    | path s => exact .path (hS s ht)
    | initOf e => exact .initOf (hS e ht)
    | epoch i c p x =>
      simp only [Bool.and_eq_true] at ht
      exact .epoch (hS i ht.1.1) (hS c ht.1.2) (hS p ht.2)
    | genesis => cases ht
    | fresh n => cases ht
    | psk i => cases ht
    | ext n => cases ht
  · rw [List.mem_filterMap] at hf
    obtain ⟨⟨k, s⟩, hm, hif⟩ := hf
    split at hif
    · rename_i hc
      simp only [Option.some.injEq] at hif
      subst hif
      rw [Bool.and_eq_true] at hc
      exact .opens hm (hK k hc.1)
    · cases hif
  · rw [List.mem_filterMap] at hf
    obtain ⟨⟨s, k⟩, hm, hif⟩ := hf
    split at hif
    · rename_i hc
      simp only [Option.some.injEq] at hif
      subst hif
      rw [Bool.and_eq_true] at hc
      exact .gen hm (hS s hc.1)
    · cases hif

/-- everything the saturation finds is derivable -/
theorem saturate_sound (K : List Key) (S : List Sec) (seals : List (Key × Sec)) (gens : List (Sec × Key))
    (U : List Sec) : ∀ (n : Nat) (f : Fact), f ∈ saturate K S seals gens U n → Derivable K S seals gens f
  | 0, f, hf => by
    simp only [saturate, List.mem_append, List.mem_map] at hf
    rcases hf with ⟨k, hk, rfl⟩ | ⟨s, hs, rfl⟩
    · exact .key0 hk
    · exact .sec0 hs
  | n + 1, f, hf => stepOnce_sound (saturate_sound K S seals gens U n) f hf

end MlsVerif.Group
