/-
The symbolic adversary of the composed group model (`Model/Group.lean`): what a party that holds some
private keys and some secrets can compute from the public transcripts.

Rules (Dolev–Yao style, nothing inverts `path` / `epoch` / `initOf`):
* a known secret `s` gives `path s` (DeriveSecret) and `initOf s`;
* a ciphertext `(k, s)` with `k` among the known private keys gives `s`;
* the node key pair of an unfiltered path node is derived from its path secret: `(s, k) ∈ gens` and `s`
  known give the private key `k`;
* `epoch i c p ctx` is computable only from all of `i`, `c`, `p` (the context is public);
* `zero` is public;
* the external key pair of an epoch is derived from its epoch secret: the transcript of an external commit lists
  `(e, Key.ext e)` among the `gens` and the KEM output `(Key.ext e, Sec.ext n)` among the `seals`; `Sec.ext n`
  itself is an atom (the joiner's KEM randomness).
-/
import MlsVerif.Model.Group

namespace MlsVerif.Group

inductive Fact
  | key (k : Key)
  | sec (s : Sec)
  deriving DecidableEq, Repr

/-- `Derivable K S seals gens f`: a party that starts with the private keys `K` and the secrets `S` and sees
the ciphertexts `seals` (recipient key, plaintext) can compute `f`; `gens`: which key pair is generated from
which path secret -/
inductive Derivable (K : List Key) (S : List Sec) (seals : List (Key × Sec)) (gens : List (Sec × Key)) :
    Fact → Prop
  | key0 {k : Key} : k ∈ K → Derivable K S seals gens (.key k)
  | sec0 {s : Sec} : s ∈ S → Derivable K S seals gens (.sec s)
  | zero : Derivable K S seals gens (.sec .zero)
  | path {s : Sec} : Derivable K S seals gens (.sec s) → Derivable K S seals gens (.sec (.path s))
  | initOf {e : Sec} : Derivable K S seals gens (.sec e) → Derivable K S seals gens (.sec (.initOf e))
  | epoch {i c p : Sec} {ctx : Nat} : Derivable K S seals gens (.sec i) → Derivable K S seals gens (.sec c) →
      Derivable K S seals gens (.sec p) → Derivable K S seals gens (.sec (.epoch i c p ctx))
  | opens {k : Key} {s : Sec} : (k, s) ∈ seals → Derivable K S seals gens (.key k) →
      Derivable K S seals gens (.sec s)
  | gen {s : Sec} {k : Key} : (s, k) ∈ gens → Derivable K S seals gens (.sec s) →
      Derivable K S seals gens (.key k)

/-- all ciphertexts / key generations of a list of transcripts -/
def sealsOfAll (T : List Transcript) : List (Key × Sec) := T.flatMap Transcript.seals
def gensOfAll (T : List Transcript) : List (Sec × Key) := T.flatMap Transcript.gens

/-- the private keys in a party's slots -/
def keysOf (p : MlsVerif.Tree.Priv) : List Key := p.keys.filterMap fun k => k.map Key.node

/-- `hidden A s`: `s` depends on an atom (random value) selected by `A`.  Secrets that are *not* hidden are
an upper bound of what a party can know that has never seen an `A`-atom. -/
def hidden (A : Sec → Bool) : Sec → Bool
  | .genesis => A .genesis
  | .fresh n => A (.fresh n)
  | .psk i => A (.psk i)
  | .zero => false
  | .path s => hidden A s
  | .initOf e => hidden A e
  | .epoch i c p _ => hidden A i || hidden A c || hidden A p
  | .ext n => A (.ext n)

/-- the random path secrets drawn by the commits from epoch `N` on -/
def freshFrom (N : Nat) : Sec → Bool
  | .fresh n => decide (N ≤ n)
  | _ => false

/-! ### an executable closure: saturation over a finite universe `U` of candidate secrets -/

def stepOnce (seals : List (Key × Sec)) (gens : List (Sec × Key)) (U : List Sec) (known : List Fact) :
    List Fact :=
  let hasS := fun s => known.contains (.sec s)
  let hasK := fun k => known.contains (.key k)
  let built := U.filter fun t => !hasS t && (match t with
      | .zero => true
      | .path s => hasS s
      | .initOf e => hasS e
      | .epoch i c p _ => hasS i && hasS c && hasS p
      | _ => false)
  let opened := seals.filterMap fun ks => if hasK ks.1 && !hasS ks.2 then some (Fact.sec ks.2) else none
  let genned := gens.filterMap fun sk => if hasS sk.1 && !hasK sk.2 then some (Fact.key sk.2) else none
  known ++ built.map Fact.sec ++ opened ++ genned

def saturate (K : List Key) (S : List Sec) (seals : List (Key × Sec)) (gens : List (Sec × Key))
    (U : List Sec) : Nat → List Fact
  | 0 => K.map Fact.key ++ S.map Fact.sec
  | n + 1 => stepOnce seals gens U (saturate K S seals gens U n)

/-- all sub-terms of a secret: a universe closed under what the rules can build towards `s` -/
def subterms : Sec → List Sec
  | .path s => .path s :: subterms s
  | .initOf e => .initOf e :: subterms e
  | .epoch i c p x => .epoch i c p x :: (subterms i ++ subterms c ++ subterms p)
  | s => [s]

end MlsVerif.Group
