/-
Model of `mls-rs/src/group/key_schedule.rs` (`kdf_expand_with_label`, `kdf_derive_secret`,
`from_key_schedule → from_joiner → from_epoch_secret`, `get_welcome_secret`, `WelcomeSecret`,
`export_secret`), `psk/secret.rs` (`PskSecret::calculate`), `transcript_hash.rs`,
`confirmation_tag.rs`, `membership_tag.rs`, `ciphertext_processor/sender_data_key.rs`.

Everything is parametric in the primitives `Prim B`: `B` is the type of byte strings
(`ByteArray` in the native driver, where the primitives are the Lean reference HKDF/HMAC/SHA-2;
any type — e.g. a free term algebra — in the theorems, which hold for *every* `Prim`).
The functions follow the *code's* structure; `Spec/KeySchedule.lean` is RFC 9420 §8 written
directly, and `Props/C13.lean` proves the two equal.

Import-free (linked into the native driver).
-/
namespace MlsVerif.KS

/-- The primitives the key schedule is built from.  `expandLabel s label ctx len` is
`kdf_expand(s, Label{length = len as u16, label = "MLS 1.0 " ++ label, context = ctx}, len)`
(label and context are byte strings; the fixed labels enter through `ascii`). -/
structure Prim (B : Type) where
  extract : B → B → B                       -- `kdf_extract(salt, ikm)`
  expandLabel : B → B → B → Nat → B
  hash : B → B
  mac : B → B → B                           -- `mac(key, data)`
  nh : Nat                                  -- `kdf_extract_size`
  nk : Nat                                  -- `aead_key_size`
  nn : Nat                                  -- `aead_nonce_size`
  zeros : Nat → B
  empty : B
  ascii : String → B
  u16be : Nat → B
  u32be : Nat → B
  cat : B → B → B
  varbytes : B → B                          -- varint length prefix ++ bytes (`byte_vec`)
  take : Nat → B → B                        -- `ciphertext.get(0..n).unwrap_or(ciphertext)`

variable {B : Type}

/-- `kdf_expand_with_label(secret, label, context, len)`; `None` means `kdf_extract_size`. -/
def expandWithLabelB (P : Prim B) (secret : B) (label : B) (ctx : B) (len : Option Nat) : B :=
  P.expandLabel secret label ctx (len.getD P.nh)

/-- the same with one of the fixed ASCII labels of the source (`b"joiner"`, …) -/
def expandWithLabel (P : Prim B) (secret : B) (label : String) (ctx : B) (len : Option Nat) : B :=
  expandWithLabelB P secret (P.ascii label) ctx len

/-- `kdf_derive_secret` -/
def deriveSecret (P : Prim B) (secret : B) (label : String) : B :=
  expandWithLabel P secret label P.empty none

/-- Everything one epoch derives (`KeyScheduleDerivationResult` flattened). -/
structure EpochOut (B : Type) where
  joiner : B
  resumption : B
  senderData : B
  encryption : B
  exporter : B
  authentication : B
  external : B
  membership : B
  init : B
  confirmationKey : B

/-- `KeySchedule::from_epoch_secret` (field order = derivation order in the source). -/
def fromEpochSecret (P : Prim B) (epochSecret : B) : EpochOut B :=
  let d := deriveSecret P epochSecret
  { joiner := P.empty
    resumption := d "resumption"
    senderData := d "sender data"
    encryption := d "encryption"
    exporter := d "exporter"
    authentication := d "authentication"
    external := d "external"
    membership := d "membership"
    init := d "init"
    confirmationKey := d "confirm" }

/-- `get_pre_epoch_secret`: `kdf_extract(joiner_secret, psk_secret)` -/
def preEpochSecret (P : Prim B) (pskSecret joiner : B) : B := P.extract joiner pskSecret

/-- `KeySchedule::from_joiner` -/
def fromJoiner (P : Prim B) (joiner ctx pskSecret : B) : EpochOut B :=
  let epochSeed := preEpochSecret P pskSecret joiner
  let epochSecret := expandWithLabel P epochSeed "epoch" ctx none
  fromEpochSecret P epochSecret

/-- `KeySchedule::from_key_schedule` -/
def fromKeySchedule (P : Prim B) (initSecret commitSecret ctx pskSecret : B) : EpochOut B :=
  let joinerSeed := P.extract initSecret commitSecret
  let joiner := expandWithLabel P joinerSeed "joiner" ctx none
  { fromJoiner P joiner ctx pskSecret with joiner := joiner }

/-- `get_welcome_secret` -/
def welcomeSecret (P : Prim B) (joiner pskSecret : B) : B :=
  deriveSecret P (preEpochSecret P pskSecret joiner) "welcome"

/-- `WelcomeSecret::from_joiner_secret`: (key, nonce) -/
def welcomeKeyNonce (P : Prim B) (joiner pskSecret : B) : B × B :=
  let w := welcomeSecret P joiner pskSecret
  (expandWithLabel P w "key" P.empty (some P.nk), expandWithLabel P w "nonce" P.empty (some P.nn))

/-- `KeySchedule::export_secret` (the `ExporterDeleted` guard is in the group model). -/
def exportSecret (P : Prim B) (exporter : B) (label : B) (ctx : B) (len : Nat) : B :=
  let secret := expandWithLabelB P exporter label P.empty none
  expandWithLabel P secret "exported" (P.hash ctx) (some len)

/-- One PSK: the TLS-encoded `PreSharedKeyID` and the PSK value. -/
structure PskInput (B : Type) where
  id : B
  psk : B

/-- `PSKLabel { id, index: u16, count: u16 }` encoded -/
def pskLabel (P : Prim B) (id : B) (index count : Nat) : B :=
  P.cat id (P.cat (P.u16be index) (P.u16be count))

/-- body of the `for` loop of `PskSecret::calculate` -/
def pskStep (P : Prim B) (count : Nat) (acc : B) (index : Nat) (i : PskInput B) : B :=
  let extracted := P.extract (P.zeros P.nh) i.psk
  let input := expandWithLabel P extracted "derived psk" (pskLabel P i.id index count) none
  P.extract input acc

def pskFoldAux (P : Prim B) (count : Nat) : List (PskInput B) → Nat → B → B
  | [], _, acc => acc
  | i :: rest, index, acc => pskFoldAux P count rest (index + 1) (pskStep P count acc index i)

/-- `PskSecret::calculate`; `none` = `TooManyPskIds` (`u16::try_from(len)` fails). -/
def pskSecret (P : Prim B) (inputs : List (PskInput B)) : Option B :=
  if inputs.length ≥ 65536 then none
  else some (pskFoldAux P inputs.length inputs 0 (P.zeros P.nh))

/-- The epoch an existing member (or the committer) enters with a commit, as the group state machine
drives `from_key_schedule`: the previous epoch's init secret, the commit secret (the all-zero string of
length `Nh` when the commit carries no update path, RFC 9420 §8), the NEW group context and the PSK chain
over the commit's PSK proposals in the order of the commit (`none` = `TooManyPskIds`). -/
def epochOfCommit (P : Prim B) (initPrev : B) (commitSecret : Option B) (ctxNew : B)
    (psks : List (PskInput B)) : Option (EpochOut B) :=
  (pskSecret P psks).map (fromKeySchedule P initPrev (commitSecret.getD (P.zeros P.nh)) ctxNew)

/-- `ConfirmationTag::create` -/
def confirmationTag (P : Prim B) (confirmationKey confirmedHash : B) : B :=
  P.mac confirmationKey confirmedHash

/-- `transcript_hash::create`: `hash(interim ‖ wire_format ‖ content ‖ signature)`; the three
encoded parts are passed in wire order. -/
def confirmedTranscriptHash (P : Prim B) (interim wireFormat content signature : B) : B :=
  P.hash (P.cat interim (P.cat wireFormat (P.cat content signature)))

/-- `InterimTranscriptHash::create`: `hash(confirmed ‖ varbytes(confirmation_tag))` -/
def interimTranscriptHash (P : Prim B) (confirmed confirmationTag : B) : B :=
  P.hash (P.cat confirmed (P.varbytes confirmationTag))

/-- `MembershipTag::create`: `mac(membership_key, TBS ‖ auth)` -/
def membershipTag (P : Prim B) (membershipKey tbs auth : B) : B :=
  P.mac membershipKey (P.cat tbs auth)

/-- `SenderDataKey::new`: (key, nonce) from the first `nh` bytes of the ciphertext -/
def senderDataKeyNonce (P : Prim B) (senderDataSecret ciphertext : B) : B × B :=
  let sample := P.take P.nh ciphertext
  (expandWithLabel P senderDataSecret "key" sample (some P.nk),
   expandWithLabel P senderDataSecret "nonce" sample (some P.nn))

end MlsVerif.KS
