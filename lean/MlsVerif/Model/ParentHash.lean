/-
Model of the parent-hash layer of the ratchet tree (RFC 9420 §7.9, §7.9.2) as implemented in
`mls-rs/src/tree_kem/parent_hash.rs` (`ParentHash::new`, `parent_hash_for_leaf`,
`update_parent_hashes`, `validate_parent_hashes`, `validate_chain`), together with the places that
touch the `parent_hash` field of a node: `tree_kem/mod.rs` (`batch_edit`: added / updated leaves
come from key packages / Update proposals, so they carry no parent hash; `update_node` keeps the
`parent_hash` of an existing parent and creates a new parent with `ParentHash::empty()`;
`apply_update_path`), `tree_kem/kem.rs` (`encap`), `tree_kem/tree_hash.rs`
(`compute_original_hashes`, `unmerged_in_subtree`, `different_unmerged`).

The existing `Parent` / `Leaf` of `Model/Tree.lean` have no parent-hash field.  The parent hashes
are a *separate layer* over the same node indexing: `PTree = { t : Tree, ph : List (Option PH) }`,
`ph[i]` = the `parent_hash` stored in parent node `i`; for a leaf, `some h` iff its
`leaf_node_source` is `Commit(h)` (`none` for key-package / update leaves); `none` for a blank.

Hashes are symbolic terms (`PH`), i.e. the hash function is modelled as injective:
`PH.empty` = `ParentHash::empty()` (the empty byte string), `PH.node key parent sib` =
`H(ParentHashInput{public_key, parent_hash, original_sibling_tree_hash})`.  Tree hashes are the
terms `HT` of `Model/TreeHash.lean`; `treeHashSpec t filtered x` is the tree hash of node `x` with
the leaves `filtered` treated as absent, which is what "original sibling tree hash" needs.

Three abstractions:
  * `tree_hashes.current[copath]` in `parent_hash_for_leaf` is modelled as `treeHashSpec t [] copath`
    (the cache is coherent at that point: `Props/C08Hash.lean`);
  * `original_hashes[s]` in `validate_chain` is modelled as `treeHashSpec t P.unmerged s` for `s` a
    child of the non-blank parent `P`.  `compute_original_hashes` computes exactly this, sharing work
    between nodes: it filters by the unmerged leaves of the nearest ancestor `a` whose unmerged list
    is not inherited (`different_unmerged`), and `a.unmerged ∩ subtree(P) = P.unmerged` on the way
    down; this needs the unmerged lists to be sorted (`unmerged_in_subtree` takes a slice).
    `origHash` below models that function literally; `Proofs/ParentHashOrig.lean` (`origHash_spec`)
    proves that it equals the specification on well-formed trees.
  * the symbolic tree hash `HT` of `Model/TreeHash.lean` does not contain the `parent_hash` field of
    the parent nodes inside the hashed subtree (the real `TreeHashInput::Parent` does).

Imports only `Model/TreeHash` (linked into the native driver).
-/
import MlsVerif.Model.TreeHash

namespace MlsVerif.ParentHash
open MlsVerif.TreeMath MlsVerif.Tree MlsVerif.TreeHash

/-- symbolic parent hashes -/
inductive PH
  | empty
  | node (key : Nat) (parent : PH) (sib : HT)
  deriving DecidableEq, Repr, Inhabited

/-- the public key hashed at the top level of a parent hash -/
def PH.key? : PH → Option Nat
  | .empty => none
  | .node k _ _ => some k

abbrev PhLayer := List (Option PH)

structure PTree where
  t : Tree
  ph : PhLayer
  deriving DecidableEq, Repr

inductive PErr
  | tree (e : Tree.Err)
  | expectedParent              -- `borrow_as_parent_mut` on a blank / leaf / missing node
  | expectedLeaf                -- `borrow_as_leaf_mut` fails
  | parentHashMismatch
  | invalidLeafNodeSource
  deriving DecidableEq, Repr

/-- entry `i` of the layer; out of range reads as `none` -/
def phGet (ph : PhLayer) (i : Nat) : Option PH := (ph[i]?).join

def phSet (ph : PhLayer) (i : Nat) (v : Option PH) : PhLayer := if i < ph.length then ph.set i v else ph

/-- the layer `[f 0, …, f (n-1)]` -/
def phOf (n : Nat) (f : Nat → Option PH) : PhLayer := (List.range n).map f

/-! ### computing parent hashes (`parent_hash_for_leaf`, `update_parent_hashes`) -/

/-- the loop of `parent_hash_for_leaf` over `direct_copath(index).rev()` (root first): skip the
nodes whose copath child has an empty resolution; otherwise store the running hash in the path node
and continue with `ParentHash::new(parent.public_key, hash, tree_hashes.current[copath])` -/
def phDown (t : Tree) : List (Nat × Nat) → PhLayer → PH → Except PErr (PhLayer × PH)
  | [], ph, h => .ok (ph, h)
  | cp :: rest, ph, h =>
    if isResolutionEmpty t cp.2 then phDown t rest ph h
    else match get t cp.1 with
      | some (.parent P) =>
        phDown t rest (phSet ph cp.1 (some h)) (.node P.key h (treeHashSpec t [] cp.2))
      | _ => .error .expectedParent

/-- `parent_hash_for_leaf`: the new layer and the value for the leaf -/
def parentHashForLeaf (t : Tree) (ph : PhLayer) (index : Nat) : Except PErr (PhLayer × PH) :=
  phDown t (directCopathOf t index).reverse ph .empty

/-- `update_parent_hashes(index, verify_leaf_hash)` -/
def updateParentHashes (p : PTree) (index : Nat) (verify : Bool) : Except PErr PTree :=
  match parentHashForLeaf p.t p.ph index with
  | .error e => .error e
  | .ok (ph1, h) =>
    match get p.t (2 * index) with
    | some (.leaf _) =>
      if verify then
        match phGet ph1 (2 * index) with
        | some h' => if h = h' then .ok { p with ph := ph1 } else .error .parentHashMismatch
        | none => .error .invalidLeafNodeSource
      else .ok { p with ph := phSet ph1 (2 * index) (some h) }
    | _ => .error .expectedLeaf

/-! ### the tree operations on the parent-hash layer -/

/-- the layer after `batch_edit`: a blank has nothing; a surviving parent keeps its field
(`update_unmerged` only touches `unmerged_leaves`); a leaf that was added or updated comes from a
key package / Update proposal (`none`); any other leaf is the old leaf node -/
def editPh (ph : PhLayer) (t' : Tree) (e : Edits) (added : List Nat) : PhLayer :=
  phOf t'.length fun i =>
    match get t' i with
    | none => none
    | some (.parent _) => phGet ph i
    | some (.leaf _) =>
      if added.contains (i / 2) || (e.updates.map (·.1)).contains (i / 2) then none else phGet ph i

def PTree.batchEdit (p : PTree) (e : Edits) : Except PErr (List Nat × PTree) :=
  match Tree.batchEdit p.t e with
  | .ok (added, t') => .ok (added, { t := t', ph := editPh p.ph t' e added })
  | .error err => .error (.tree err)

/-- the layer after the leaf replacement and the `update_node` calls of a path update, before
`update_parent_hashes`: the sender's leaf carries `leafPh` (the `leaf_node_source` of the new leaf
node); `borrow_or_fill_node_as_parent` keeps the `parent_hash` of an existing parent and gives a
newly filled one `ParentHash::empty()` -/
def pathPh0 (ph : PhLayer) (t' : Tree) (sender : Nat) (leafPh : Option PH) : PhLayer :=
  phOf t'.length fun i =>
    if i = 2 * sender then leafPh
    else match get t' i with
      | none => none
      | some (.leaf _) => phGet ph i
      | some (.parent _) => some ((phGet ph i).getD .empty)

/-- `apply_update_path` of a receiver: `leafPh` is the `leaf_node_source` of the update path's leaf
node (`some h` for `Commit(h)`); the parent hash is verified (`verify_leaf_hash = true`) -/
def PTree.applyUpdatePath (p : PTree) (sender : Nat) (newLeaf : Leaf) (leafPh : Option PH)
    (pathKeys : List (Option Nat)) : Except PErr PTree :=
  match Tree.applyUpdatePath p.t sender newLeaf pathKeys with
  | .error e => .error (.tree e)
  | .ok t' => updateParentHashes { t := t', ph := pathPh0 p.ph t' sender leafPh } sender true

/-- `encap` of the committer: path keys, then `update_parent_hashes(self, false)`, which writes the
computed value into the own leaf -/
def PTree.encap (p : PTree) (self : Nat) (newLeaf : Leaf) (excl : List Nat) (fresh : Nat) :
    Except PErr (EncapOut × PTree) :=
  match Tree.encap p.t self newLeaf excl fresh with
  | .error e => .error (.tree e)
  | .ok o =>
    match updateParentHashes { t := o.tree, ph := pathPh0 p.ph o.tree self (phGet p.ph (2 * self)) }
        self false with
    | .ok p' => .ok (o, p')
    | .error e => .error e

/-! ### validity (`validate_parent_hashes`, RFC 9420 §7.9.2) -/

/-- `ParentHash::new(P.public_key, P.parent_hash, original_hashes[s])` for the parent `P` stored at
node `x` with copath child `s` -/
def linkHash (p : PTree) (x s : Nat) (P : Parent) : PH :=
  .node P.key ((phGet p.ph x).getD .empty) (treeHashSpec p.t P.unmerged s)

/-- the inner loop of `validate_chain`: the first non-blank proper ancestor `P` of `x` inside the
tree of `n` leaves and `P`'s child `s` on the other side; `none` when the root is passed -/
def climb (t : Tree) (n : Nat) : Nat → Nat → Option (Nat × Nat)
  | 0, _ => none
  | fuel + 1, x =>
    match parentSibling? x n with
    | none => none
    | some (q, s) => if isBlank t q then climb t n fuel q else some (q, s)

/-- `unmerged_in_subtree`: the slice of the (sorted) list between the first entry `≥ left` and the
first later entry `≥ right` -/
def unmergedInSubtree (um : List Nat) (c : Nat) : List Nat :=
  ((um.dropWhile (· < (subtree c).1)).takeWhile (· < (subtree c).2))

/-- equality of the two `HashSet`s -/
def sameSet (a b : List Nat) : Bool := a.all b.contains && b.all a.contains

/-- "n is in the resolution of c, and the intersection of p's unmerged_leaves with the subtree
under c is equal to the resolution of c with n removed" -/
def sideOk (t : Tree) (P : Parent) (c d : Nat) : Bool :=
  (resolution t c).contains d &&
    sameSet ((resolution t c).filter (· != d)) ((unmergedInSubtree P.unmerged c).map (2 * ·))

inductive Step
  | stop                   -- the chain ends here without error
  | fail                   -- `Err(ParentHashMismatch)`
  | next (q : Nat)         -- `q` is validated, continue from `q`
  deriving DecidableEq, Repr

/-- one iteration of the outer loop of `validate_chain` at the current node `x` -/
def chainStep (p : PTree) (n x : Nat) (todo : List Nat) : Step :=
  match climb p.t n (p.t.length + 1) x with
  | none => .stop
  | some (q, s) =>
    match get p.t q with
    | some (.parent P) =>
      if phGet p.ph x = some (linkHash p q s P) then
        match parentSibling? s n with
        | none => .fail
        | some (_, c) => if sideOk p.t P c x && todo.contains q then .next q else .fail
      else .stop
    | _ => .fail             -- `borrow_as_parent` fails; cannot happen, `q` is a non-blank odd node

/-- `validate_chain`: the remaining `nodes_to_validate`, or `none` for an error -/
def validateChain (p : PTree) (n : Nat) : Nat → Nat → List Nat → Option (List Nat)
  | 0, _, todo => some todo
  | fuel + 1, x, todo =>
    match chainStep p n x todo with
    | .stop => some todo
    | .fail => none
    | .next q => validateChain p n fuel q (todo.erase q)

/-- `non_empty_parents`: odd indices holding a parent -/
def nonEmptyParents (t : Tree) : List Nat :=
  (List.range t.length).filter fun i => i % 2 == 1 && (parentAt t i).isSome

/-- `non_empty_leaves` (as node indices) -/
def nonEmptyLeaves (t : Tree) : List Nat :=
  (List.range t.length).filter fun i => i % 2 == 0 && (leafAt t (i / 2)).isSome

def validateLeaves (p : PTree) (n : Nat) : List Nat → List Nat → Option (List Nat)
  | [], todo => some todo
  | l :: ls, todo =>
    match validateChain p n (p.t.length + 1) l todo with
    | none => none
    | some todo' => validateLeaves p n ls todo'

/-- `validate_parent_hashes` -/
def validateParentHashes (p : PTree) : Bool :=
  match validateLeaves p (leafCount p.t) (nonEmptyLeaves p.t) (nonEmptyParents p.t) with
  | some todo => todo.isEmpty
  | none => false

/-! ### validity, declaratively (RFC 9420 §7.9.2, "top down") -/

/-- node `d` is a parent-hash witness for the parent `P` stored at `x`, on the side of `x`'s child
`c` (other child `s`): `d.parent_hash` is the parent hash of `P` with copath child `s`, `d` is in the
resolution of `c`, and the rest of that resolution is `P`'s unmerged leaves under `c` -/
def Witness (p : PTree) (x : Nat) (P : Parent) (c s d : Nat) : Prop :=
  phGet p.ph d = some (linkHash p x s P) ∧ sideOk p.t P c d = true

instance (p : PTree) (x : Nat) (P : Parent) (c s d : Nat) : Decidable (Witness p x P c s d) := by
  unfold Witness; infer_instance

/-- every non-blank parent has a witness on its left or on its right side -/
def PHLinked (p : PTree) : Prop :=
  ∀ x < p.t.length, ∀ P ∈ parentAt p.t x, ∀ l ∈ left? x, ∀ r ∈ right? x,
    (∃ d ∈ resolution p.t l, Witness p x P l r d) ∨ (∃ d ∈ resolution p.t r, Witness p x P r l d)

/-- what makes `validate_chain` return an error instead of just ending a chain: a non-blank node
`d` whose stored parent hash matches its first non-blank ancestor `q` (copath child `s`) must satisfy
the resolution condition, and no other node may match `q` -/
def NoFalseLink (p : PTree) : Prop :=
  ∀ d < p.t.length, get p.t d ≠ none →
    ∀ qs ∈ climb p.t (leafCount p.t) (p.t.length + 1) d, ∀ P ∈ parentAt p.t qs.1,
      phGet p.ph d = some (linkHash p qs.1 qs.2 P) →
      (∀ qc ∈ parentSibling? qs.2 (leafCount p.t), sideOk p.t P qc.2 d = true) ∧
      ∀ d' < p.t.length, get p.t d' ≠ none →
        ∀ qs' ∈ climb p.t (leafCount p.t) (p.t.length + 1) d', qs'.1 = qs.1 →
          phGet p.ph d' = some (linkHash p qs.1 qs'.2 P) → d' = d

/-- parent-hash validity of a tree (RFC 9420 §7.9.2): every non-blank parent node is parent-hash
valid with respect to exactly one descendant -/
def PHValid (p : PTree) : Prop := PHLinked p ∧ NoFalseLink p

instance (p : PTree) : Decidable (PHLinked p) := by unfold PHLinked; infer_instance
set_option synthInstance.maxSize 4096 in
instance (p : PTree) : Decidable (NoFalseLink p) := by unfold NoFalseLink; infer_instance
instance (p : PTree) : Decidable (PHValid p) := by unfold PHValid; infer_instance

/-- Bool version for the driver -/
def phValidB (p : PTree) : Bool := decide (PHValid p)

/-! ### `compute_original_hashes`, literally -/

/-- `different_unmerged(ancestor, descendant)` -/
def differentUnmerged (t : Tree) (a d : Nat) : Bool :=
  match get t d with
  | none => false
  | some (.leaf _) => true        -- `borrow_as_parent(descendant)` would fail; `d` is a parent index
  | some (.parent D) =>
    let au := match get t a with
      | some (.parent A) => unmergedInSubtree A.unmerged d
      | _ => []
    au != D.unmerged

/-- `filtered_sets[x].last()`: by descending from the root (`fuel` = number of levels above `x`
still to be walked): the nearest ancestor whose unmerged list is not inherited from further up,
the root if there is none -/
def filterAnc (t : Tree) (n : Nat) : Nat → Nat → Nat
  | 0, _ => root n
  | fuel + 1, x =>
    match parentSibling? x n with
    | none => root n
    | some (q, _) =>
      let a := filterAnc t n fuel q
      if differentUnmerged t a q then q else a

/-- `original_hashes[x]` -/
def origHash (t : Tree) (x : Nat) : HT :=
  let n := leafCount t
  let a := filterAnc t n (t.length + 1) x
  if isBlank t a || a == root n then
    match get t (root n) with
    | some (.parent R) => treeHashSpec t R.unmerged x      -- `root_original` (= current if empty)
    | _ => treeHashSpec t [] x
  else
    match get t a with
    | some (.parent A) => treeHashSpec t A.unmerged x
    | _ => treeHashSpec t [] x

end MlsVerif.ParentHash
