/-
Known-answer tests for `Sha2`, `Hmac`, `Hkdf`, `Hex` against published vectors:
  * FIPS 180-4 / NIST CSRC example messages ("", "abc", the 448-bit and 896-bit messages);
  * RFC 4231 HMAC-SHA-2 test cases 1-4, 6, 7 (5 is the truncated-output case);
  * RFC 5869 HKDF test cases 1-3 (SHA-256).
The 1000 x 'a' digests are not from a publication; they were computed with CPython's `hashlib`.
Every expected value in this file was re-derived with `hashlib`/`hmac` (see `tools_crosscheck.py
--vectors`, which recomputes them from independently typed inputs and greps this file).

Not imported by `MlsVerif.lean`; build on demand with `lake build MlsVerif.Model.CryptoTests`.
-/
import MlsVerif.Model.Sha2
import MlsVerif.Model.Hmac
import MlsVerif.Model.Hkdf
import MlsVerif.Model.Hex

namespace MlsVerif.CryptoTests

open MlsVerif.Sha2 MlsVerif.Hmac MlsVerif.Hkdf MlsVerif.Hex

/-- ASCII string as bytes -/
def str (s : String) : ByteArray := s.toUTF8

/-- hex literal as bytes (a malformed literal gives a wrong, non-matching value: `ff` x 1) -/
def hx (s : String) : ByteArray := (ofHex? s).getD (ByteArray.mk #[0xff])

/-- `n` copies of byte `b` -/
def rep (b : UInt8) (n : Nat) : ByteArray := ByteArray.mk (Array.replicate n b)

def msg448 : ByteArray := str "abcdbcdecdefdefgefghfghighijhijkijkljklmklmnlmnomnopnopq"
def msg896 : ByteArray := str
  "abcdefghbcdefghicdefghijdefghijkefghijklfghijklmghijklmnhijklmnoijklmnopjklmnopqklmnopqrlmnopqrsmnopqrstnopqrstu"

/-! ## Hex -/

#guard toHex (ByteArray.mk #[0x00, 0x01, 0x9a, 0xbc, 0xde, 0xff]) == "00019abcdeff"
#guard toHex ByteArray.empty == ""
#guard (ofHex? "").map toHex == some ""
#guard (ofHex? "00019aBCdeFf").map toHex == some "00019abcdeff"
#guard (ofHex? "abc").isNone
#guard (ofHex? "0g").isNone
#guard (ofHex? "0x10").isNone
#guard (ofHex? " 10").isNone
#guard (ofHex? "é1").isNone
#guard msg448.size == 56 && msg896.size == 112

/-! ## SHA-256 -/

#guard HashAlg.sha256.outLen == 32 && HashAlg.sha256.blockLen == 64
#guard toHex (hash .sha256 ByteArray.empty) ==
  "e3b0c44298fc1c149afbf4c8996fb92427ae41e4649b934ca495991b7852b855"
#guard toHex (hash .sha256 (str "abc")) ==
  "ba7816bf8f01cfea414140de5dae2223b00361a396177a9cb410ff61f20015ad"
#guard toHex (hash .sha256 msg448) ==
  "248d6a61d20638b8e5c026930c3e6039a33ce45964ff2167f6ecedd419db06c1"
#guard toHex (hash .sha256 msg896) ==
  "cf5b16a778af8380036ce59e7b0492370b249b11e8f07a51afac45037afee9d1"
#guard toHex (hash .sha256 (rep 0x61 1000)) ==
  "41edece42d63e8d9bf515a9ba6932e1c20cbc9f5a5d134645adb5db1b9737ea3"

/-! ## SHA-384 -/

#guard HashAlg.sha384.outLen == 48 && HashAlg.sha384.blockLen == 128
#guard toHex (hash .sha384 ByteArray.empty) ==
  "38b060a751ac96384cd9327eb1b1e36a21fdb71114be07434c0cc7bf63f6e1da274edebfe76f65fbd51ad2f14898b95b"
#guard toHex (hash .sha384 (str "abc")) ==
  "cb00753f45a35e8bb5a03d699ac65007272c32ab0eded1631a8b605a43ff5bed8086072ba1e7cc2358baeca134c825a7"
#guard toHex (hash .sha384 msg448) ==
  "3391fdddfc8dc7393707a65b1b4709397cf8b1d162af05abfe8f450de5f36bc6b0455a8520bc4e6f5fe95b1fe3c8452b"
#guard toHex (hash .sha384 msg896) ==
  "09330c33f71147e83d192fc782cd1b4753111b173b3b05d22fa08086e3b0f712fcc7c71a557e2db966c3e9fa91746039"
#guard toHex (hash .sha384 (rep 0x61 1000)) ==
  "f54480689c6b0b11d0303285d9a81b21a93bca6ba5a1b4472765dca4da45ee328082d469c650cd3b61b16d3266ab8ced"

/-! ## SHA-512 -/

#guard HashAlg.sha512.outLen == 64 && HashAlg.sha512.blockLen == 128
#guard toHex (hash .sha512 ByteArray.empty) ==
  "cf83e1357eefb8bdf1542850d66d8007d620e4050b5715dc83f4a921d36ce9ce47d0d13c5d85f2b0ff8318d2877eec2f63b931bd47417a81a538327af927da3e"
#guard toHex (hash .sha512 (str "abc")) ==
  "ddaf35a193617abacc417349ae20413112e6fa4e89a97ea20a9eeee64b55d39a2192992a274fc1a836ba3c23a3feebbd454d4423643ce80e2a9ac94fa54ca49f"
#guard toHex (hash .sha512 msg448) ==
  "204a8fc6dda82f0a0ced7beb8e08a41657c16ef468b228a8279be331a703c33596fd15c13b1b07f9aa1d3bea57789ca031ad85c7a71dd70354ec631238ca3445"
#guard toHex (hash .sha512 msg896) ==
  "8e959b75dae313da8cf4f72814fc143f8f7779c6eb9f7fa17299aeadb6889018501d289e4900f7e4331b99dec4b5433ac7d329eeb6dd26545e96e55b874be909"
#guard toHex (hash .sha512 (rep 0x61 1000)) ==
  "67ba5535a46e3f86dbfbed8cbbaf0125c76ed549ff8b0b9e03e0c88cf90fa634fa7b12b47d77b694de488ace8d9a65967dc96df599727d3292a8d9d447709c97"

/-! ## HMAC, RFC 4231 -/

-- Test case 1
def k1 : ByteArray := rep 0x0b 20
def d1 : ByteArray := str "Hi There"
#guard toHex (hmac .sha256 k1 d1) ==
  "b0344c61d8db38535ca8afceaf0bf12b881dc200c9833da726e9376c2e32cff7"
#guard toHex (hmac .sha384 k1 d1) ==
  "afd03944d84895626b0825f4ab46907f15f9dadbe4101ec682aa034c7cebc59cfaea9ea9076ede7f4af152e8b2fa9cb6"
#guard toHex (hmac .sha512 k1 d1) ==
  "87aa7cdea5ef619d4ff0b4241a1d6cb02379f4e2ce4ec2787ad0b30545e17cdedaa833b7d6b8a702038b274eaea3f4e4be9d914eeb61f1702e696c203a126854"

-- Test case 2 (key shorter than the digest)
def k2 : ByteArray := str "Jefe"
def d2 : ByteArray := str "what do ya want for nothing?"
#guard toHex (hmac .sha256 k2 d2) ==
  "5bdcc146bf60754e6a042426089575c75a003f089d2739839dec58b964ec3843"
#guard toHex (hmac .sha384 k2 d2) ==
  "af45d2e376484031617f78d2b58a6b1b9c7ef464f5a01b47e42ec3736322445e8e2240ca5e69e2c78b3239ecfab21649"
#guard toHex (hmac .sha512 k2 d2) ==
  "164b7a7bfcf819e2e395fbe73b56e0a387bd64222e831fd610270cd7ea2505549758bf75c05a994a6d034f65f8f0e6fdcaeab1a34d4a6b4b636e070a38bce737"

-- Test case 3
def k3 : ByteArray := rep 0xaa 20
def d3 : ByteArray := rep 0xdd 50
#guard toHex (hmac .sha256 k3 d3) ==
  "773ea91e36800e46854db8ebd09181a72959098b3ef8c122d9635514ced565fe"
#guard toHex (hmac .sha384 k3 d3) ==
  "88062608d3e6ad8a0aa2ace014c8a86f0aa635d947ac9febe83ef4e55966144b2a5ab39dc13814b94e3ab6e101a34f27"
#guard toHex (hmac .sha512 k3 d3) ==
  "fa73b0089d56a284efb0f0756c890be9b1b5dbdd8ee81a3655f83e33b2279d39bf3e848279a722c806b485a47e67c807b946a337bee8942674278859e13292fb"

-- Test case 4
def k4 : ByteArray := hx "0102030405060708090a0b0c0d0e0f10111213141516171819"
def d4 : ByteArray := rep 0xcd 50
#guard toHex (hmac .sha256 k4 d4) ==
  "82558a389a443c0ea4cc819899f2083a85f0faa3e578f8077a2e3ff46729665b"
#guard toHex (hmac .sha384 k4 d4) ==
  "3e8a69b7783c25851933ab6290af6ca77a9981480850009cc5577c6e1f573b4e6801dd23c4a7d679ccf8a386c674cffb"
#guard toHex (hmac .sha512 k4 d4) ==
  "b0ba465637458c6990e5a8c5f61d4af7e576d97ff94b872de76f8050361ee3dba91ca5c11aa25eb4d679275cc5788063a5f19741120c4f2de2adebeb10a298dd"

-- Test case 6 (key longer than the block: 131 bytes)
def k6 : ByteArray := rep 0xaa 131
def d6 : ByteArray := str "Test Using Larger Than Block-Size Key - Hash Key First"
#guard toHex (hmac .sha256 k6 d6) ==
  "60e431591ee0b67f0d8a26aacbf5b77f8e0bc6213728c5140546040f0ee37f54"
#guard toHex (hmac .sha384 k6 d6) ==
  "4ece084485813e9088d2c63a041bc5b44f9ef1012a2b588f3cd11f05033ac4c60c2ef6ab4030fe8296248df163f44952"
#guard toHex (hmac .sha512 k6 d6) ==
  "80b24263c7c1a3ebb71493c1dd7be8b49b46d1f41b4aeec1121b013783f8f3526b56d037e05f2598bd0fd2215d6a1e5295e64f73f63f0aec8b915a985d786598"

-- Test case 7 (key and data both longer than the block)
def d7 : ByteArray := str
  "This is a test using a larger than block-size key and a larger than block-size data. The key needs to be hashed before being used by the HMAC algorithm."
#guard toHex (hmac .sha256 k6 d7) ==
  "9b09ffa71b942fcb27635fbcd5b0e944bfdc63644f0713938a7f51535c3a35e2"
#guard toHex (hmac .sha384 k6 d7) ==
  "6617178e941f020d351e2f254e8fd32c602420feb0b8fb9adccebb82461e99c5a678cc31e799176d3860e6110c46523e"
#guard toHex (hmac .sha512 k6 d7) ==
  "e37b6a775dc87dbaa4dfa9f96e5e3ffddebd71f8867289865df5a32d20cdc944b6022cac3c4982b10d5eeb55c3e4de15134676fb6de0446065c97440fa8c6a58"

/-! ## HKDF-SHA-256, RFC 5869 Appendix A.1-A.3 -/

/-- bytes `lo, lo+1, …` (`n` of them) -/
def ramp (lo : UInt8) (n : Nat) : ByteArray :=
  ByteArray.mk ((Array.range n).map fun i => lo + i.toUInt8)

-- A.1
def ikm1 : ByteArray := rep 0x0b 22
def salt1 : ByteArray := ramp 0x00 13
def info1 : ByteArray := ramp 0xf0 10
def prk1 : ByteArray := hx "077709362c2e32df0ddc3f0dc47bba6390b6c73bb50f9c3122ec844ad7c2b3e5"
#guard toHex (extract .sha256 salt1 ikm1) == toHex prk1
#guard (expand .sha256 prk1 info1 42).map toHex == some
  "3cb25f25faacd57a90434f64d0362f2a2d2d0a90cf1a5a4c5db02d56ecc4c5bf34007208d5b887185865"

-- A.2 (longer inputs/outputs)
def ikm2 : ByteArray := ramp 0x00 80
def salt2 : ByteArray := ramp 0x60 80
def info2 : ByteArray := ramp 0xb0 80
def prk2 : ByteArray := hx "06a6b88c5853361a06104c9ceb35b45cef760014904671014a193f40c15fc244"
#guard toHex (extract .sha256 salt2 ikm2) == toHex prk2
#guard (expand .sha256 prk2 info2 82).map toHex == some
  "b11e398dc80327a1c8e7f78c596a49344f012eda2d4efad8a050cc4c19afa97c59045a99cac7827271cb41c65e590e09da3275600c2f09b8367793a9aca3db71cc30c58179ec3e87c14c01d5c1f3434f1d87"

-- A.3 (zero-length salt and info)
def prk3 : ByteArray := hx "19ef24a32c717b167f33a91d6f648bdf96596776afdb6377ac434c1c293ccb04"
#guard toHex (extract .sha256 ByteArray.empty ikm1) == toHex prk3
#guard toHex (extract .sha256 (rep 0 32) ikm1) == toHex prk3   -- "not provided" = HashLen zeros
#guard (expand .sha256 prk3 ByteArray.empty 42).map toHex == some
  "8da4e775a563c18f715f802a063c5a31b8a11f5c5ee1879ec3454e5f3c738d2d9d201395faa4b61a96c8"

/-! ## HKDF-Expand length bounds -/

#guard (expand .sha256 prk1 info1 0).map toHex == some ""
#guard (expand .sha256 prk1 info1 (255 * 32)).map ByteArray.size == some 8160
#guard (expand .sha256 prk1 info1 (255 * 32 + 1)).isNone
#guard (expand .sha384 prk1 info1 (255 * 48)).map ByteArray.size == some 12240
#guard (expand .sha384 prk1 info1 (255 * 48 + 1)).isNone
#guard (expand .sha512 prk1 info1 (255 * 64)).map ByteArray.size == some 16320
#guard (expand .sha512 prk1 info1 (255 * 64 + 1)).isNone
-- a prefix property: shorter outputs are prefixes of longer ones
#guard (expand .sha512 prk1 info1 200).map (fun o => toHex (o.extract 0 70)) ==
  (expand .sha512 prk1 info1 70).map toHex

end MlsVerif.CryptoTests
