/-
HMAC (RFC 2104 / FIPS 198-1) over the SHA-2 functions of `Model/Sha2.lean`.

Import-free apart from the model's own `Sha2`: this file is linked into the native driver.
-/
import MlsVerif.Model.Sha2

namespace MlsVerif.Hmac

open MlsVerif.Sha2

/-- `key` XOR-ed bytewise with the constant `c`, zero-extended to `blockLen` bytes
(positions `i ≥ key.size` read as `0`).  Requires `key.size ≤ blockLen` to be the RFC's `K ⊕ pad`. -/
def xorPad (key : ByteArray) (c : UInt8) : (fuel i : Nat) → ByteArray → ByteArray
  | 0, _, acc => acc
  | n + 1, i, acc =>
    let k : UInt8 := if i < key.size then key.get! i else 0
    xorPad key c n (i + 1) (acc.push (k ^^^ c))

/-- RFC 2104 step 1: keys longer than the block length are hashed first. -/
def blockKey (alg : HashAlg) (key : ByteArray) : ByteArray :=
  if key.size > alg.blockLen then hash alg key else key

/-- `H((K' ⊕ opad) ‖ H((K' ⊕ ipad) ‖ msg))` -/
def hmac (alg : HashAlg) (key msg : ByteArray) : ByteArray :=
  let b := alg.blockLen
  let k := blockKey alg key
  let ipad := xorPad k 0x36 b 0 (ByteArray.emptyWithCapacity (b + msg.size))
  let opad := xorPad k 0x5c b 0 (ByteArray.emptyWithCapacity (b + alg.outLen))
  hash alg (opad ++ hash alg (ipad ++ msg))

end MlsVerif.Hmac
