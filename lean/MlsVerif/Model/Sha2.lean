/-
Reference SHA-256 / SHA-384 / SHA-512 (FIPS 180-4) over `ByteArray`.

Import-free on purpose: this file is linked into the native driver `mlsmodel`.
All functions are total (structural recursion on a fuel counter); the round loops carry the eight
working variables as unboxed machine words so that the compiled code is a plain C loop.

Constants: `k256`/`k512` are the fractional parts of the cube roots of the first 64/80 primes,
`init256`/`init512` of the square roots of the first 8 primes, `init384` of the 9th..16th primes.
-/
namespace MlsVerif.Sha2

inductive HashAlg
  | sha256
  | sha384
  | sha512
  deriving DecidableEq, Repr

/-- digest length in bytes -/
def HashAlg.outLen : HashAlg → Nat
  | .sha256 => 32
  | .sha384 => 48
  | .sha512 => 64

/-- block length in bytes -/
def HashAlg.blockLen : HashAlg → Nat
  | .sha256 => 64
  | .sha384 => 128
  | .sha512 => 128

/-! ## Padding (FIPS 180-4 §5.1) -/

/-- `n` as `width` big-endian bytes (low `8*width` bits), appended to `acc`. -/
def pushBE (acc : ByteArray) (n : Nat) : (width : Nat) → ByteArray
  | 0 => acc
  | w + 1 => pushBE (acc.push (n >>> (8 * w)).toUInt8) n w

def pushZeros (acc : ByteArray) : Nat → ByteArray
  | 0 => acc
  | n + 1 => pushZeros (acc.push 0) n

/-- `msg ‖ 0x80 ‖ 0^k ‖ bitlen`, where `bitlen` occupies `lenBytes` bytes (8 for SHA-256, 16 for
SHA-384/512) and `k ≥ 0` is minimal such that the total length is a multiple of `blockLen`. -/
def pad (blockLen lenBytes : Nat) (msg : ByteArray) : ByteArray :=
  let used := (msg.size + 1 + lenBytes) % blockLen
  let k := (blockLen - used) % blockLen
  pushBE (pushZeros (msg.push 0x80) k) (8 * msg.size) lenBytes

/-! ## SHA-256 (32-bit words) -/

structure State32 where
  a : UInt32
  b : UInt32
  c : UInt32
  d : UInt32
  e : UInt32
  f : UInt32
  g : UInt32
  h : UInt32

@[inline] def rotr32 (x : UInt32) (n : UInt32) : UInt32 := (x >>> n) ||| (x <<< (32 - n))

def k256 : Array UInt32 := #[
  0x428a2f98, 0x71374491, 0xb5c0fbcf, 0xe9b5dba5, 0x3956c25b, 0x59f111f1, 0x923f82a4, 0xab1c5ed5,
  0xd807aa98, 0x12835b01, 0x243185be, 0x550c7dc3, 0x72be5d74, 0x80deb1fe, 0x9bdc06a7, 0xc19bf174,
  0xe49b69c1, 0xefbe4786, 0x0fc19dc6, 0x240ca1cc, 0x2de92c6f, 0x4a7484aa, 0x5cb0a9dc, 0x76f988da,
  0x983e5152, 0xa831c66d, 0xb00327c8, 0xbf597fc7, 0xc6e00bf3, 0xd5a79147, 0x06ca6351, 0x14292967,
  0x27b70a85, 0x2e1b2138, 0x4d2c6dfc, 0x53380d13, 0x650a7354, 0x766a0abb, 0x81c2c92e, 0x92722c85,
  0xa2bfe8a1, 0xa81a664b, 0xc24b8b70, 0xc76c51a3, 0xd192e819, 0xd6990624, 0xf40e3585, 0x106aa070,
  0x19a4c116, 0x1e376c08, 0x2748774c, 0x34b0bcb5, 0x391c0cb3, 0x4ed8aa4a, 0x5b9cca4f, 0x682e6ff3,
  0x748f82ee, 0x78a5636f, 0x84c87814, 0x8cc70208, 0x90befffa, 0xa4506ceb, 0xbef9a3f7, 0xc67178f2]

def init256 : State32 :=
  ⟨0x6a09e667, 0xbb67ae85, 0x3c6ef372, 0xa54ff53a, 0x510e527f, 0x9b05688c, 0x1f83d9ab, 0x5be0cd19⟩

/-- big-endian 32-bit word at byte offset `i` -/
@[inline] def getU32 (data : ByteArray) (i : Nat) : UInt32 :=
  (data.get! i).toUInt32 <<< 24 ||| (data.get! (i + 1)).toUInt32 <<< 16 |||
  (data.get! (i + 2)).toUInt32 <<< 8 ||| (data.get! (i + 3)).toUInt32

/-- `W[0..16)`: the sixteen message words of the block at byte offset `off`. -/
def loadWords32 (data : ByteArray) (off : Nat) : (fuel i : Nat) → Array UInt32 → Array UInt32
  | 0, _, w => w
  | n + 1, i, w => loadWords32 data off n (i + 1) (w.push (getU32 data (off + 4 * i)))

/-- `W[t] = σ1(W[t-2]) + W[t-7] + σ0(W[t-15]) + W[t-16]` for `t = i, i+1, …` -/
def extend32 : (fuel i : Nat) → Array UInt32 → Array UInt32
  | 0, _, w => w
  | n + 1, i, w =>
    let w15 := w[i - 15]!
    let w2 := w[i - 2]!
    let s0 := rotr32 w15 7 ^^^ rotr32 w15 18 ^^^ (w15 >>> 3)
    let s1 := rotr32 w2 17 ^^^ rotr32 w2 19 ^^^ (w2 >>> 10)
    extend32 n (i + 1) (w.push (s1 + w[i - 7]! + s0 + w[i - 16]!))

/-- message schedule `W[0..64)` of the block at byte offset `off` -/
def schedule32 (data : ByteArray) (off : Nat) : Array UInt32 :=
  extend32 48 16 (loadWords32 data off 16 0 (Array.mkEmpty 64))

def rounds32 (w : Array UInt32) :
    (fuel i : Nat) → (a b c d e f g h : UInt32) → State32
  | 0, _, a, b, c, d, e, f, g, h => ⟨a, b, c, d, e, f, g, h⟩
  | n + 1, i, a, b, c, d, e, f, g, h =>
    let bs1 := rotr32 e 6 ^^^ rotr32 e 11 ^^^ rotr32 e 25
    let ch := (e &&& f) ^^^ (~~~e &&& g)
    let t1 := h + bs1 + ch + k256[i]! + w[i]!
    let bs0 := rotr32 a 2 ^^^ rotr32 a 13 ^^^ rotr32 a 22
    let maj := (a &&& b) ^^^ (a &&& c) ^^^ (b &&& c)
    let t2 := bs0 + maj
    rounds32 w n (i + 1) (t1 + t2) a b c (d + t1) e f g

/-- one application of the SHA-256 compression function to the block at byte offset `off` -/
def compress32 (s : State32) (data : ByteArray) (off : Nat) : State32 :=
  let r := rounds32 (schedule32 data off) 64 0 s.a s.b s.c s.d s.e s.f s.g s.h
  ⟨s.a + r.a, s.b + r.b, s.c + r.c, s.d + r.d, s.e + r.e, s.f + r.f, s.g + r.g, s.h + r.h⟩

def blocks32 (data : ByteArray) : (nblocks off : Nat) → State32 → State32
  | 0, _, s => s
  | n + 1, off, s => blocks32 data n (off + 64) (compress32 s data off)

@[inline] def pushU32 (acc : ByteArray) (x : UInt32) : ByteArray :=
  (((acc.push (x >>> 24).toUInt8).push (x >>> 16).toUInt8).push (x >>> 8).toUInt8).push x.toUInt8

def State32.toBytes (s : State32) : ByteArray :=
  pushU32 (pushU32 (pushU32 (pushU32 (pushU32 (pushU32 (pushU32 (pushU32
    (ByteArray.emptyWithCapacity 32) s.a) s.b) s.c) s.d) s.e) s.f) s.g) s.h

def sha256 (msg : ByteArray) : ByteArray :=
  let p := pad 64 8 msg
  (blocks32 p (p.size / 64) 0 init256).toBytes

/-! ## SHA-512 / SHA-384 (64-bit words) -/

structure State64 where
  a : UInt64
  b : UInt64
  c : UInt64
  d : UInt64
  e : UInt64
  f : UInt64
  g : UInt64
  h : UInt64

@[inline] def rotr64 (x : UInt64) (n : UInt64) : UInt64 := (x >>> n) ||| (x <<< (64 - n))

def k512 : Array UInt64 := #[
  0x428a2f98d728ae22, 0x7137449123ef65cd, 0xb5c0fbcfec4d3b2f, 0xe9b5dba58189dbbc,
  0x3956c25bf348b538, 0x59f111f1b605d019, 0x923f82a4af194f9b, 0xab1c5ed5da6d8118,
  0xd807aa98a3030242, 0x12835b0145706fbe, 0x243185be4ee4b28c, 0x550c7dc3d5ffb4e2,
  0x72be5d74f27b896f, 0x80deb1fe3b1696b1, 0x9bdc06a725c71235, 0xc19bf174cf692694,
  0xe49b69c19ef14ad2, 0xefbe4786384f25e3, 0x0fc19dc68b8cd5b5, 0x240ca1cc77ac9c65,
  0x2de92c6f592b0275, 0x4a7484aa6ea6e483, 0x5cb0a9dcbd41fbd4, 0x76f988da831153b5,
  0x983e5152ee66dfab, 0xa831c66d2db43210, 0xb00327c898fb213f, 0xbf597fc7beef0ee4,
  0xc6e00bf33da88fc2, 0xd5a79147930aa725, 0x06ca6351e003826f, 0x142929670a0e6e70,
  0x27b70a8546d22ffc, 0x2e1b21385c26c926, 0x4d2c6dfc5ac42aed, 0x53380d139d95b3df,
  0x650a73548baf63de, 0x766a0abb3c77b2a8, 0x81c2c92e47edaee6, 0x92722c851482353b,
  0xa2bfe8a14cf10364, 0xa81a664bbc423001, 0xc24b8b70d0f89791, 0xc76c51a30654be30,
  0xd192e819d6ef5218, 0xd69906245565a910, 0xf40e35855771202a, 0x106aa07032bbd1b8,
  0x19a4c116b8d2d0c8, 0x1e376c085141ab53, 0x2748774cdf8eeb99, 0x34b0bcb5e19b48a8,
  0x391c0cb3c5c95a63, 0x4ed8aa4ae3418acb, 0x5b9cca4f7763e373, 0x682e6ff3d6b2b8a3,
  0x748f82ee5defb2fc, 0x78a5636f43172f60, 0x84c87814a1f0ab72, 0x8cc702081a6439ec,
  0x90befffa23631e28, 0xa4506cebde82bde9, 0xbef9a3f7b2c67915, 0xc67178f2e372532b,
  0xca273eceea26619c, 0xd186b8c721c0c207, 0xeada7dd6cde0eb1e, 0xf57d4f7fee6ed178,
  0x06f067aa72176fba, 0x0a637dc5a2c898a6, 0x113f9804bef90dae, 0x1b710b35131c471b,
  0x28db77f523047d84, 0x32caab7b40c72493, 0x3c9ebe0a15c9bebc, 0x431d67c49c100d4c,
  0x4cc5d4becb3e42b6, 0x597f299cfc657e2a, 0x5fcb6fab3ad6faec, 0x6c44198c4a475817]

def init512 : State64 :=
  ⟨0x6a09e667f3bcc908, 0xbb67ae8584caa73b, 0x3c6ef372fe94f82b, 0xa54ff53a5f1d36f1,
   0x510e527fade682d1, 0x9b05688c2b3e6c1f, 0x1f83d9abfb41bd6b, 0x5be0cd19137e2179⟩

def init384 : State64 :=
  ⟨0xcbbb9d5dc1059ed8, 0x629a292a367cd507, 0x9159015a3070dd17, 0x152fecd8f70e5939,
   0x67332667ffc00b31, 0x8eb44a8768581511, 0xdb0c2e0d64f98fa7, 0x47b5481dbefa4fa4⟩

/-- big-endian 64-bit word at byte offset `i` -/
@[inline] def getU64 (data : ByteArray) (i : Nat) : UInt64 :=
  (data.get! i).toUInt64 <<< 56 ||| (data.get! (i + 1)).toUInt64 <<< 48 |||
  (data.get! (i + 2)).toUInt64 <<< 40 ||| (data.get! (i + 3)).toUInt64 <<< 32 |||
  (data.get! (i + 4)).toUInt64 <<< 24 ||| (data.get! (i + 5)).toUInt64 <<< 16 |||
  (data.get! (i + 6)).toUInt64 <<< 8 ||| (data.get! (i + 7)).toUInt64

def loadWords64 (data : ByteArray) (off : Nat) : (fuel i : Nat) → Array UInt64 → Array UInt64
  | 0, _, w => w
  | n + 1, i, w => loadWords64 data off n (i + 1) (w.push (getU64 data (off + 8 * i)))

def extend64 : (fuel i : Nat) → Array UInt64 → Array UInt64
  | 0, _, w => w
  | n + 1, i, w =>
    let w15 := w[i - 15]!
    let w2 := w[i - 2]!
    let s0 := rotr64 w15 1 ^^^ rotr64 w15 8 ^^^ (w15 >>> 7)
    let s1 := rotr64 w2 19 ^^^ rotr64 w2 61 ^^^ (w2 >>> 6)
    extend64 n (i + 1) (w.push (s1 + w[i - 7]! + s0 + w[i - 16]!))

/-- message schedule `W[0..80)` of the block at byte offset `off` -/
def schedule64 (data : ByteArray) (off : Nat) : Array UInt64 :=
  extend64 64 16 (loadWords64 data off 16 0 (Array.mkEmpty 80))

def rounds64 (w : Array UInt64) :
    (fuel i : Nat) → (a b c d e f g h : UInt64) → State64
  | 0, _, a, b, c, d, e, f, g, h => ⟨a, b, c, d, e, f, g, h⟩
  | n + 1, i, a, b, c, d, e, f, g, h =>
    let bs1 := rotr64 e 14 ^^^ rotr64 e 18 ^^^ rotr64 e 41
    let ch := (e &&& f) ^^^ (~~~e &&& g)
    let t1 := h + bs1 + ch + k512[i]! + w[i]!
    let bs0 := rotr64 a 28 ^^^ rotr64 a 34 ^^^ rotr64 a 39
    let maj := (a &&& b) ^^^ (a &&& c) ^^^ (b &&& c)
    let t2 := bs0 + maj
    rounds64 w n (i + 1) (t1 + t2) a b c (d + t1) e f g

def compress64 (s : State64) (data : ByteArray) (off : Nat) : State64 :=
  let r := rounds64 (schedule64 data off) 80 0 s.a s.b s.c s.d s.e s.f s.g s.h
  ⟨s.a + r.a, s.b + r.b, s.c + r.c, s.d + r.d, s.e + r.e, s.f + r.f, s.g + r.g, s.h + r.h⟩

def blocks64 (data : ByteArray) : (nblocks off : Nat) → State64 → State64
  | 0, _, s => s
  | n + 1, off, s => blocks64 data n (off + 128) (compress64 s data off)

@[inline] def pushU64 (acc : ByteArray) (x : UInt64) : ByteArray :=
  pushU32 (pushU32 acc (x >>> 32).toUInt32) x.toUInt32

def State64.toBytes (s : State64) : ByteArray :=
  pushU64 (pushU64 (pushU64 (pushU64 (pushU64 (pushU64 (pushU64 (pushU64
    (ByteArray.emptyWithCapacity 64) s.a) s.b) s.c) s.d) s.e) s.f) s.g) s.h

def sha512 (msg : ByteArray) : ByteArray :=
  let p := pad 128 16 msg
  (blocks64 p (p.size / 128) 0 init512).toBytes

/-- SHA-384 = SHA-512 with a different initial state, truncated to the leftmost 48 bytes -/
def sha384 (msg : ByteArray) : ByteArray :=
  let p := pad 128 16 msg
  ((blocks64 p (p.size / 128) 0 init384).toBytes).extract 0 48

/-! ## Entry point -/

def hash : HashAlg → ByteArray → ByteArray
  | .sha256, msg => sha256 msg
  | .sha384, msg => sha384 msg
  | .sha512, msg => sha512 msg

end MlsVerif.Sha2
