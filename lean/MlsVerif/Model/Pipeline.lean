/-
Operations of a member as *step lists in source order* (C04 / C15): each step either may fail (a check,
a `?` on a provider or crypto call, an early `return Err`), or mutates a field of the member through
`&mut self`, or both (a call that fails before it mutates, e.g. `self.insert_past_epoch().await?`).
The concrete lists are GENERATED from the Rust source by `tools/translate.py` into
`MlsVerif/Gen/Pipelines.lean`; this file has the semantics and the ordering predicate.

State is abstract: a field is a name, a mutation bumps its version.  A run is driven by a fault plan
telling which fallible steps fail (a rejected message makes a check fail, a storage fault makes a
provider call fail).

Import-free (linked into the native driver).
-/
namespace MlsVerif.Pipeline

inductive Step
  | fallible (label : String)
  | mutate (field : String)
  | both (label field : String)
  deriving DecidableEq, Repr

def Step.canFail : Step → Bool
  | .fallible _ => true
  | .both _ _ => true
  | .mutate _ => false

def Step.mutates : Step → Bool
  | .mutate _ => true
  | .both _ _ => true
  | .fallible _ => false

/-- field versions -/
abbrev State := List (String × Nat)

def bump (s : State) (f : String) : State :=
  match s with
  | [] => [(f, 1)]
  | (g, n) :: rest => if g = f then (g, n + 1) :: rest else (g, n) :: bump rest f

/-- Run the steps from index `i`; `fails k` says whether the fallible step number `k` (position in the
list) fails.  Returns `true` on success, and the state reached. -/
def runFrom (fails : Nat → Bool) : Nat → List Step → State → Bool × State
  | _, [], s => (true, s)
  | i, .fallible _ :: rest, s => if fails i then (false, s) else runFrom fails (i + 1) rest s
  | i, .mutate f :: rest, s => runFrom fails (i + 1) rest (bump s f)
  | i, .both _ f :: rest, s => if fails i then (false, s) else runFrom fails (i + 1) rest (bump s f)

def run (steps : List Step) (fails : Nat → Bool) (s : State) : Bool × State := runFrom fails 0 steps s

/-- no step that can fail comes after a step that mutates -/
def wellOrdered : List Step → Bool
  | [] => true
  | st :: rest => (!st.mutates || rest.all (fun r => !r.canFail)) && wellOrdered rest

end MlsVerif.Pipeline
