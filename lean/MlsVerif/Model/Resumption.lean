/-
Model of `group/resumption.rs`: the membership comparison between the old group and a successor
(`check_that_subgroup_is_a_subset`: re-init requires the same number of members, both require the new
identities to be among the old ones) and the parameter checks of `ResumptionGroupBuilder::join`, and of
the re-init freeze (`commit_internal` / `process_commit`: `GroupUsedAfterReInit`).
Identities are numbers (what `IdentityProvider::identity` returns).

Import-free (linked into the native driver).
-/
namespace MlsVerif.Resumption

inductive Kind | reinit | branch
  deriving DecidableEq, Repr

/-- `check_that_subgroup_is_a_subset` over the identities of the two rosters (member counts, not
node-array lengths) -/
def checkSubgroup (k : Kind) (oldIds newIds : List Nat) : Bool :=
  (k != .reinit || oldIds.length == newIds.length) && newIds.all fun i => oldIds.contains i

inductive JoinErr
  | notASubgroup | protocolVersionMismatch | cipherSuiteMismatch | initialEpochNotOne
  | groupIdMismatch | reInitExtensionsMismatch
  deriving DecidableEq, Repr

/-- what the joined group looks like, against what the old group announced -/
structure Params where
  version : Nat
  suite : Nat
  epoch : Nat
  groupId : Nat
  extensions : Nat
  deriving DecidableEq, Repr

/-- the checks of `ResumptionGroupBuilder::join` after the Welcome itself was processed, in source order;
`verifyGroupId` is true for re-init only -/
def joinChecks (k : Kind) (oldIds newIds : List Nat) (expected got : Params) : Except JoinErr Unit :=
  if !checkSubgroup k oldIds newIds then .error .notASubgroup
  else if got.version ≠ expected.version then .error .protocolVersionMismatch
  else if got.suite ≠ expected.suite then .error .cipherSuiteMismatch
  else if got.epoch ≠ 1 then .error .initialEpochNotOne
  else if k = .reinit ∧ got.groupId ≠ expected.groupId then .error .groupIdMismatch
  else if got.extensions ≠ expected.extensions then .error .reInitExtensionsMismatch
  else .ok ()

/-- the freeze: once a re-init has been committed the old group refuses to build or process commits -/
def commitAllowed (pendingReinit : Bool) : Bool := !pendingReinit

/-- the two entry points every commit goes through: building one (`commit_internal`: `commit`, `commit_builder().build()`,
`build_detached()`, whatever proposals are carried by value) and processing a received one (`process_commit`: a
member's commit or an external commit, public or private) -/
inductive CommitEntry | build | process
  deriving DecidableEq, Repr

inductive FreezeErr | groupUsedAfterReInit
  deriving DecidableEq, Repr

/-- both entry points test `pending_reinit` before anything else (apart from `ExistingPendingCommit` when building) -/
def commitVerdict (pendingReinit : Bool) (_e : CommitEntry) : Except FreezeErr Unit :=
  if commitAllowed pendingReinit then .ok () else .error .groupUsedAfterReInit

/-- the part of the old group's state the freeze is about -/
structure OldGroup where
  epoch : Nat
  pendingReinit : Bool
  deriving DecidableEq, Repr

/-- a commit attempt (built or received) on the old group; `carriesReinit`: the commit contains a ReInit proposal.
A refused attempt leaves the state as it was. -/
def OldGroup.attempt (g : OldGroup) (e : CommitEntry) (carriesReinit : Bool) : OldGroup × Bool :=
  match commitVerdict g.pendingReinit e with
  | .ok () => ({ epoch := g.epoch + 1, pendingReinit := carriesReinit }, true)
  | .error _ => (g, false)

/-- a sequence of attempts: the final state and the verdict of each -/
def OldGroup.run (g : OldGroup) : List (CommitEntry × Bool) → OldGroup × List Bool
  | [] => (g, [])
  | (e, r) :: rest =>
    let (g', ok) := g.attempt e r
    let (g'', oks) := OldGroup.run g' rest
    (g'', ok :: oks)

end MlsVerif.Resumption
