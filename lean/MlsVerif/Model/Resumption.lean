/-
Model of `group/resumption.rs`: the membership comparison between the old group and a successor
(`check_that_subgroup_is_a_subset`: re-init requires the same number of members, both require the new
identities to be among the old ones) and the parameter checks of `ResumptionGroupBuilder::join`, and of
the re-init freeze (`commit_internal` / `process_commit`: `GroupUsedAfterReInit`).
Identities are numbers (what `IdentityProvider::identity` returns).

Import-free (linked into the native driver).
-/
namespace MlsVerif.Resumption

inductive Kind | reinit | branch
  deriving DecidableEq, Repr

/-- `check_that_subgroup_is_a_subset` over the identities of the two rosters (member counts, not
node-array lengths) -/
def checkSubgroup (k : Kind) (oldIds newIds : List Nat) : Bool :=
  (k != .reinit || oldIds.length == newIds.length) && newIds.all fun i => oldIds.contains i

inductive JoinErr
  | notASubgroup | protocolVersionMismatch | cipherSuiteMismatch | initialEpochNotOne
  | groupIdMismatch | reInitExtensionsMismatch
  deriving DecidableEq, Repr

/-- what the joined group looks like, against what the old group announced -/
structure Params where
  version : Nat
  suite : Nat
  epoch : Nat
  groupId : Nat
  extensions : Nat
  deriving DecidableEq, Repr

/-- the checks of `ResumptionGroupBuilder::join` after the Welcome itself was processed, in source order;
`verifyGroupId` is true for re-init only -/
def joinChecks (k : Kind) (oldIds newIds : List Nat) (expected got : Params) : Except JoinErr Unit :=
  if !checkSubgroup k oldIds newIds then .error .notASubgroup
  else if got.version ≠ expected.version then .error .protocolVersionMismatch
  else if got.suite ≠ expected.suite then .error .cipherSuiteMismatch
  else if got.epoch ≠ 1 then .error .initialEpochNotOne
  else if k = .reinit ∧ got.groupId ≠ expected.groupId then .error .groupIdMismatch
  else if got.extensions ≠ expected.extensions then .error .reInitExtensionsMismatch
  else .ok ()

/-- the freeze: once a re-init has been committed the old group refuses to build or process commits -/
def commitAllowed (pendingReinit : Bool) : Bool := !pendingReinit

end MlsVerif.Resumption
