/-
Model of the public ratchet tree and of TreeKEM at the level of *who holds which key*:
`tree_kem/node.rs` (`NodeVec`: `blank_leaf_node`, `blank_direct_path`, `trim`, `get_resolution_index`,
`is_resolution_empty`, `filtered`, `next_empty_leaf`, `insert_leaf`, `borrow_or_fill_node_as_parent`),
`tree_kem/mod.rs` (`add_leaf`, `update_unmerged`, `batch_edit` on already-filtered proposals,
`update_node`, `apply_update_path`), `tree_kem/kem.rs` (`encap`, `encrypt_copath_node_resolution`,
`decap`, `find_resolved_pos`, `find_ciphertext_pos`), `tree_kem/private.rs` (`update_secrets`,
`update_leaf`), `group/mod.rs` (`provisional_private_tree`, `encrypt_group_secrets`'s choice of the
joiner path secret).

Keys are *stamps* (`Nat`): a public key and its private key carry the same stamp, so "member m can
open what is sealed to node n" is `m` holding the stamp stored at `n`.  Leaves carry an identity stamp,
an HPKE key stamp and a signature key stamp.  Cryptography itself is not modelled here.

Imports only `TreeMath` (linked into the native driver).
-/
import MlsVerif.Model.TreeMath

namespace MlsVerif.Tree
open MlsVerif.TreeMath

structure Leaf where
  ident : Nat
  hpke : Nat
  sig : Nat
  deriving DecidableEq, Repr, Inhabited

structure Parent where
  key : Nat
  unmerged : List Nat          -- leaf indices, kept sorted by `update_unmerged`
  deriving DecidableEq, Repr, Inhabited

inductive Node
  | leaf (l : Leaf)
  | parent (p : Parent)
  deriving DecidableEq, Repr, Inhabited

/-- `NodeVec`: `none` = blank. -/
abbrev Tree := List (Option Node)

inductive Err
  | removingNonExistingMember
  | updatingNonExistingMember
  | duplicateLeafData
  | invalidNodeIndex
  | parentHashMismatch          -- `update_unmerged` finds the leaf already listed
  | wrongPathLen
  | lcaNotFoundInDirectPath
  | updateErrorNoSecretKey
  | indexOutOfBounds            -- a Rust slice index that would panic
  | pubKeyMismatch
  deriving DecidableEq, Repr

def Node.key : Node → Nat
  | .leaf l => l.hpke
  | .parent p => p.key

/-- `NodeVec::total_leaf_count` -/
def leafCount (t : Tree) : Nat := totalLeafCount t.length

/-- node at an index; out of range reads as blank (`borrow_node(..).unwrap_or(&None)`) -/
def get (t : Tree) (i : Nat) : Option Node := (t[i]?).join

def isBlank (t : Tree) (i : Nat) : Bool := (get t i).isNone

def set (t : Tree) (i : Nat) (n : Option Node) : Tree := if i < t.length then t.set i n else t

/-- `NodeVec::direct_copath(leaf)` on node indices -/
def directCopathOf (t : Tree) (leaf : Nat) : List (Nat × Nat) := directCopath (2 * leaf) (leafCount t)

/-- `get_resolution_index`: the node if non-blank, followed by its unmerged leaves; otherwise the
resolutions of the left then the right child; nothing for a blank leaf.  `fuel` bounds the descent
(`level x + 1` suffices). -/
def resolutionAux (t : Tree) : Nat → Nat → List Nat
  | 0, _ => []
  | fuel + 1, x =>
    match get t x with
    | some (.leaf _) => [x]
    | some (.parent p) => x :: p.unmerged.map (2 * ·)
    | none =>
      match left? x, right? x with
      | some l, some r => resolutionAux t fuel l ++ resolutionAux t fuel r
      | _, _ => []

def resolution (t : Tree) (x : Nat) : List Nat := resolutionAux t (level x + 1) x

/-- `is_resolution_empty` -/
def isResolutionEmpty (t : Tree) (x : Nat) : Bool := (resolution t x).isEmpty

/-- `NodeVec::filtered(leaf)`: for each direct-path node, is the copath child's resolution empty? -/
def filtered (t : Tree) (leaf : Nat) : List Bool :=
  (directCopathOf t leaf).map fun cp => isResolutionEmpty t cp.2

/-- `blank_leaf_node`: the old leaf, or an error if there is none. -/
def blankLeaf (t : Tree) (leaf : Nat) : Except Err (Leaf × Tree) :=
  if ¬ validIndex t.length (2 * leaf) then .error .invalidNodeIndex
  else match get t (2 * leaf) with
    | some (.leaf l) => .ok (l, set t (2 * leaf) none)
    | _ => .error .removingNonExistingMember     -- note: a parent found there is taken out too
                                                -- (`Option::take`); cannot happen at an even index

/-- `blank_direct_path` -/
def blankDirectPath (t : Tree) (leaf : Nat) : Tree :=
  (directCopathOf t leaf).foldl (fun t cp => set t cp.1 none) t

/-- `trim`: drop trailing blanks -/
def trim (t : Tree) : Tree := (t.reverse.dropWhile (·.isNone)).reverse

/-- `next_empty_leaf(start)`: first blank leaf at or after `start`, else the leaf after the end -/
def nextEmptyLeafAux (t : Tree) : Nat → Nat → Nat
  | 0, n => n / 2
  | fuel + 1, n =>
    if n < t.length then
      if (get t n).isNone then n / 2 else nextEmptyLeafAux t fuel (n + 2)
    else (t.length + 1) / 2

def nextEmptyLeaf (t : Tree) (start : Nat) : Nat := nextEmptyLeafAux t (t.length + 1) (2 * start)

/-- `insert_leaf` -/
def insertLeaf (t : Tree) (leaf : Nat) (l : Leaf) : Tree :=
  let ni := 2 * leaf
  let t := if ni > t.length then t ++ [none, none] else if t.isEmpty then [none] else t
  set t ni (some (.leaf l))

def insertSorted (x : Nat) : List Nat → Option (List Nat)
  | [] => some [x]
  | y :: ys =>
    if x = y then none
    else if x < y then some (x :: y :: ys)
    else (insertSorted x ys).map (y :: ·)

/-- `update_unmerged`: add the leaf to the unmerged list of every non-blank node on its direct path -/
def updateUnmerged (t : Tree) (leaf : Nat) : Except Err Tree :=
  (directCopathOf t leaf).foldlM (init := t) fun t cp =>
    match get t cp.1 with
    | some (.parent p) =>
      match insertSorted leaf p.unmerged with
      | some u => .ok (set t cp.1 (some (.parent { p with unmerged := u })))
      | none => .error .parentHashMismatch
    | _ => .ok t

/-- the `TreeIndex` uniqueness contract: no two leaves share an identity, HPKE key or signature key -/
def leaves (t : Tree) : List Leaf :=
  t.filterMap fun n => match n with
    | some (.leaf l) => some l
    | _ => none

def conflicts (t : Tree) (l : Leaf) : Bool :=
  (leaves t).any fun m => m.ident == l.ident || m.hpke == l.hpke || m.sig == l.sig

/-- `add_leaf(leaf, start)` -/
def addLeaf (t : Tree) (l : Leaf) (start : Nat) : Except Err (Nat × Tree) :=
  let index := nextEmptyLeaf t start
  if conflicts t l then .error .duplicateLeafData
  else
    match updateUnmerged (insertLeaf t index l) index with
    | .ok t' => .ok (index, t')
    | .error e => .error e

/-- The proposals a commit applies to the tree, already filtered: removed leaves, updates
`(leaf, new leaf node)`, added leaf nodes in bundle order. -/
structure Edits where
  removes : List Nat
  updates : List (Nat × Leaf)
  adds : List Leaf
  deriving Repr

def applyRemoves (t : Tree) : List Nat → Except Err Tree
  | [] => .ok t
  | r :: rs =>
    match blankLeaf t r with
    | .ok (_, t') => applyRemoves (blankDirectPath t' r) rs
    | .error e => .error e

/-- updates in `batch_edit` with `filter = false`: take all old leaves out, put the new ones in
(uniqueness checked against the tree with the old ones removed), then blank the direct paths -/
def applyUpdates (t : Tree) (us : List (Nat × Leaf)) : Except Err Tree := do
  let t1 ← us.foldlM (init := t) fun t u =>
    match blankLeaf t u.1 with
    | .ok (_, t') => .ok t'
    | .error _ => .error .updatingNonExistingMember
  let t2 ← us.foldlM (init := t1) fun t u =>
    if conflicts t u.2 then .error .duplicateLeafData else .ok (insertLeaf t u.1 u.2)
  pure (us.foldl (fun t u => blankDirectPath t u.1) t2)

def applyAdds (t : Tree) : List Leaf → Nat → List Nat → Except Err (List Nat × Tree)
  | [], _, acc => .ok (acc.reverse, t)
  | l :: ls, start, acc =>
    match addLeaf t l start with
    | .ok (i, t') => applyAdds t' ls i (i :: acc)
    | .error e => .error e

/-- `batch_edit` (strict mode): removes in reverse bundle order, updates, adds, trim.
Returns the indices of the added leaves. -/
def batchEdit (t : Tree) (e : Edits) : Except Err (List Nat × Tree) := do
  let t1 ← applyRemoves t e.removes.reverse
  let t2 ← applyUpdates t1 e.updates
  let (added, t3) ← applyAdds t2 e.adds 0 []
  pure (added, trim t3)

/-- `update_node` via `borrow_or_fill_node_as_parent`: extend the vector if needed, set the key,
clear the unmerged list -/
def updateNode (t : Tree) (i : Nat) (key : Nat) : Except Err Tree :=
  if ¬ validIndex t.length i then .error .invalidNodeIndex
  else
    let t := if t.length ≤ i then t ++ List.replicate (i + 1 - t.length) none else t
    match get t i with
    | some (.leaf _) => .error .invalidNodeIndex
    | _ => .ok (set t i (some (.parent { key := key, unmerged := [] })))

/-- `encap` on the public tree: fresh keys `fresh, fresh+1, …` for the unfiltered direct-path nodes
(bottom-up), then a fresh leaf key.  Returns the new tree, the per-slot keys of the committer
(slot 0 = leaf, slot j+1 = direct-path node j) and, per unfiltered path node, the recipients
(node indices in the resolution of its copath child, without the excluded new leaves). -/
structure EncapOut where
  tree : Tree
  slots : List (Option Nat)
  pathKeys : List (Option Nat)            -- per direct-path position: key announced, `none` if filtered
  seals : List (Nat × List Nat)           -- (path node, recipient node indices in order)
  deriving Repr

def encap (t : Tree) (self : Nat) (newLeaf : Leaf) (excl : List Nat) (fresh : Nat) : Except Err EncapOut := do
  let path := directCopathOf t self
  let filt := filtered t self
  let step := fun (acc : Tree × Nat × List (Option Nat)) (pf : (Nat × Nat) × Bool) =>
    let (t, k, keys) := acc
    if pf.2 then (Except.ok (t, k, keys ++ [none]) : Except Err _)
    else match updateNode t pf.1.1 k with
      | .ok t' => .ok (t', k + 1, keys ++ [some k])
      | .error e => .error e
  let (t1, _, keys) ← (path.zip filt).foldlM step (t, fresh, [])
  let t2 := set t1 (2 * self) (some (.leaf newLeaf))
  let exclNodes := excl.map (2 * ·)
  let seals := (path.zip keys).filterMap fun (cp, k) =>
    k.map fun _ => (cp.1, (resolution t2 cp.2).filter fun i => !exclNodes.contains i)
  pure { tree := t2, slots := some newLeaf.hpke :: keys, pathKeys := keys, seals := seals }

/-- `apply_update_path` on a receiver's tree: new leaf, announced keys on the unfiltered positions
(`zip` stops at the shorter list, as in the source) -/
def applyUpdatePath (t : Tree) (sender : Nat) (newLeaf : Leaf) (pathKeys : List (Option Nat)) : Except Err Tree := do
  match get t (2 * sender) with
  | some (.leaf _) => pure ()
  | _ => throw .invalidNodeIndex
  let t0 := set t (2 * sender) (some (.leaf newLeaf))
  let path := directCopathOf t0 sender
  (pathKeys.zip path).foldlM (init := t0) fun t kp =>
    match kp.1 with
    | some k => updateNode t kp.2.1 k
    | none => .ok t

/-- a member's private state: own leaf index and the key stamp held per slot -/
structure Priv where
  self : Nat
  keys : List (Option Nat)
  deriving DecidableEq, Repr

def resize (l : List (Option Nat)) (n : Nat) : List (Option Nat) :=
  if l.length ≥ n then l.take n else l ++ List.replicate (n - l.length) none

/-- `provisional_private_tree`: drop keys of nodes the proposals blanked; an own applied update
replaces the leaf key and clears the rest (`update_leaf`) -/
def provisionalPriv (t : Tree) (p : Priv) (ownUpdate : Option Nat) : Priv :=
  let path := directCopathOf t p.self
  let keys := resize p.keys (path.length + 1)
  let keys := keys.zipIdx.map fun (k, i) =>
    if i = 0 then k else if isBlank t ((path.getD (i - 1) (0, 0)).1) then none else k
  match ownUpdate with
  | some k => { p with keys := some k :: List.replicate (keys.length - 1) none }
  | none => { p with keys := keys }

/-- `find_resolved_pos` on `path` = own leaf :: direct path -/
def findResolvedPosAux (t : Tree) (path : List Nat) : Nat → Nat → Option Nat
  | 0, i => some i
  | fuel + 1, i =>
    match path[i]? with
    | none => none                       -- index out of bounds (Rust panic)
    | some n => if isBlank t n then (if i = 0 then none else findResolvedPosAux t path fuel (i - 1)) else some i

def findResolvedPos (t : Tree) (p : Priv) (path : List Nat) (lcaIndex : Nat) : Option Nat :=
  match findResolvedPosAux t path (lcaIndex + 1) lcaIndex with
  | none => none
  | some i => match p.keys[i]? with
    | some (some _) => some i
    | some none => some 0
    | none => none                       -- `secret_keys[lca_index]` out of bounds

/-- `find_ciphertext_pos`: position of `resolved` in the resolution of `lca` without excluded leaves -/
def findCiphertextPos (t : Tree) (lca resolved : Nat) (excl : List Nat) : Option Nat :=
  let reso := (resolution t lca).filter fun i => i % 2 == 1 || !excl.contains (i / 2)
  reso.findIdx? (· == resolved)

/-- What `decap` computes before any cryptography: which of its slots the receiver decrypts with and
which ciphertext of the LCA path node it opens, then its slots after deriving the path keys.
`t` is the provisional tree *after* `apply_update_path`. -/
structure DecapOut where
  slot : Nat
  ctPos : Nat
  priv : Priv
  deriving Repr

def decap (t : Tree) (p : Priv) (sender : Nat) (pathKeys : List (Option Nat)) (added : List Nat) :
    Except Err DecapOut := do
  let lvl := leafLcaLevel (2 * p.self) (2 * sender)
  if lvl < 2 then throw .indexOutOfBounds
  let lcaIndex := lvl - 2
  let dp := directCopathOf t p.self
  let path := (2 * p.self) :: dp.map (·.1)
  let some slot := findResolvedPos t p path lcaIndex | throw .indexOutOfBounds
  let some lcaNode := path[lcaIndex]? | throw .indexOutOfBounds
  let some resNode := path[slot]? | throw .indexOutOfBounds
  let some ctPos := findCiphertextPos t lcaNode resNode added | throw .updateErrorNoSecretKey
  match pathKeys[lcaIndex]? with
  | none => throw .indexOutOfBounds                    -- `update_path.nodes[lca_index]` (too-short path)
  | some none => throw .lcaNotFoundInDirectPath
  | some (some _) => pure ()
  match p.keys[slot]? with
  | some (some _) => pure ()
  | _ => throw .updateErrorNoSecretKey
  let keys := resize p.keys (path.length + 1)
  let keys := keys.zipIdx.map fun (k, i) =>
    if i ≥ lcaIndex + 1 ∧ i - 1 < pathKeys.length then pathKeys.getD (i - 1) none else k
  pure { slot := slot, ctPos := ctPos, priv := { p with keys := keys } }

/-- `TreeKemPrivate::update_secrets` for a joiner: keys of the unfiltered direct-path nodes from the
common ancestor with the committer upwards -/
def joinerPriv (t : Tree) (self : Nat) (leafKey : Nat) (signer : Nat) (hasPathSecret : Bool) : Except Err Priv := do
  let path := directCopathOf t self
  let base : List (Option Nat) := some leafKey :: List.replicate path.length none
  if ¬ hasPathSecret then return { self := self, keys := [some leafKey] }
  let lvl := leafLcaLevel (2 * self) (2 * signer)
  if lvl < 2 then throw .indexOutOfBounds
  let lcaIndex := lvl - 2
  let filt := filtered t self
  let keys := base.zipIdx.map fun (k, i) =>
    if i = 0 then k
    else if i - 1 < lcaIndex then none
    else if filt.getD (i - 1) true then none
    else (get t ((path.getD (i - 1) (0, 0)).1)).map Node.key
  pure { self := self, keys := keys }

/-- The key invariant of C09: slot `j` holds a key iff the node is non-blank and the member is not
unmerged there, and then it is the key stored at that node. -/
def expectedSlots (t : Tree) (self : Nat) : List (Option Nat) :=
  let path := (2 * self) :: (directCopathOf t self).map (·.1)
  path.map fun n =>
    match get t n with
    | some (.leaf l) => some l.hpke
    | some (.parent p) => if p.unmerged.contains self then none else some p.key
    | none => none

end MlsVerif.Tree
