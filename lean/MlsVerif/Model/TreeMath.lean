/-
Model of `mls-rs/src/tree_kem/math.rs` (`impl_tree_stdint!(u32)`, `direct_copath`,
`leaf_lca_level`, `subtree`, `BfsIterTopDown`) and of the index helpers of `node.rs`
(`LeafIndex::try_from`, `NodeVec::total_leaf_count`).

Numbers are `Nat`; every place where the Rust `u32` code would underflow (debug panic / release
wrap) is an explicit `none`.  That `Nat` and `u32` agree on every intermediate value for trees of
at most 2^24 leaves is theorem `fits_u32` in `Props/C20.lean`.

Import-free on purpose: this file is linked into the native driver `mlsmodel`.
-/
namespace MlsVerif.TreeMath

/-- `u32::trailing_ones` on `Nat`. -/
def level (x : Nat) : Nat :=
  if h : x % 2 = 1 then level (x / 2) + 1 else 0
decreasing_by omega

/-- `TreeIndex::root`, `*self - 1` on the leaf count.  `none` = u32 underflow. -/
def root? (n : Nat) : Option Nat := if n = 0 then none else some (n - 1)

/-- total version used where `n` is known to be positive (a power of two) -/
def root (n : Nat) : Nat := n - 1

def isLeaf (x : Nat) : Bool := x % 2 == 0        -- `self & 1 == 0`

def isInTree (x r : Nat) : Bool := x ≤ 2 * r      -- `*self <= 2 * root`

/-- `left_unchecked`: `x ^ (1 << (trailing_ones - 1))`; on a leaf the subtraction underflows. -/
def left? (x : Nat) : Option Nat :=
  if level x = 0 then none else some (x ^^^ (1 <<< (level x - 1)))

/-- `right_unchecked`: `x ^ (3 << (trailing_ones - 1))`. -/
def right? (x : Nat) : Option Nat :=
  if level x = 0 then none else some (x ^^^ (3 <<< (level x - 1)))

/-- `x & !(1 << i)` -/
def clearBit (x i : Nat) : Nat := if x.testBit i then x - 2 ^ i else x

/-- `parent_sibling`: `None` on the root; `p = (x & !(1 << (lvl+1))) | (1 << lvl)`;
sibling is `p.right_unchecked()` if `x < p`, else `p.left_unchecked()`. -/
def parentSibling? (x n : Nat) : Option (Nat × Nat) :=
  if x = root n then none
  else
    let lvl := level x
    let p := (clearBit x (lvl + 1)) ||| (1 <<< lvl)
    let s := if x < p then right? p else left? p
    match s with
    | some s => some (p, s)
    | none => none           -- unreachable: `p` has level ≥ 1 (theorem `parent_not_leaf`)

/-- `TreeIndex::direct_copath` (list of `(path, copath)`, leaf → root).  The `while let` loop is
given fuel `n` levels; `directCopath_fuel_enough` shows the fuel never runs out inside the tree. -/
def directCopathAux (n : Nat) : Nat → Nat → List (Nat × Nat)
  | 0, _ => []
  | fuel + 1, x =>
    match parentSibling? x n with
    | none => []
    | some (p, s) => (p, s) :: directCopathAux n fuel p

def directCopath (x n : Nat) : List (Nat × Nat) :=
  if !isInTree x (root n) then [] else directCopathAux n (2 * n + 2) x

/-- `leaf_lca_level` (`while xn != yn { xn >>= 1; yn >>= 1; k += 1 }`). -/
def leafLcaLevelAux : Nat → Nat → Nat → Nat
  | 0, _, _ => 0
  | fuel + 1, x, y => if x = y then 0 else leafLcaLevelAux fuel (x / 2) (y / 2) + 1

def leafLcaLevel (x y : Nat) : Nat := leafLcaLevelAux (x + y + 1) x y

/-- `subtree(x)`: leaf range `[left, right)` as *leaf* indices:
`left = (x + 1 - breadth) / 2`, `right = (x + breadth) / 2 + 1` with `breadth = 1 << trailing_ones`. -/
def subtree (x : Nat) : Nat × Nat :=
  let breadth := 1 <<< level x
  ((x + 1 - breadth) / 2, (x + breadth) / 2 + 1)

/-- `BfsIterTopDown::new(num_leaves)` followed by `collect()`.
State `(level, mask, level_end, ctr)`; `trailing_zeros` of a power of two is its log. -/
def trailingZeros (x : Nat) : Nat :=
  if h : x = 0 then 0 else if x % 2 = 0 then trailingZeros (x / 2) + 1 else 0
decreasing_by omega

structure Bfs where
  level : Nat
  mask : Nat
  levelEnd : Nat
  ctr : Nat

def Bfs.new (numLeaves : Nat) : Bfs :=
  let depth := trailingZeros numLeaves
  { level := depth + 1, mask := (1 <<< depth) - 1, levelEnd := 1, ctr := 0 }

def Bfs.next (s : Bfs) : Option (Nat × Bfs) :=
  if s.ctr = s.levelEnd then
    if s.level = 1 then none
    else
      let levelEnd := (((s.levelEnd - 1) <<< 1) ||| 1) + 1
      let level := s.level - 1
      let mask := s.mask >>> 1
      some ((0 <<< level) ||| mask, { level := level, mask := mask, levelEnd := levelEnd, ctr := 1 })
  else
    some ((s.ctr <<< s.level) ||| s.mask, { s with ctr := s.ctr + 1 })

def bfsAux : Nat → Bfs → List Nat
  | 0, _ => []
  | fuel + 1, s =>
    match s.next with
    | none => []
    | some (x, s') => x :: bfsAux fuel s'

def bfsTopDown (numLeaves : Nat) : List Nat := bfsAux (2 * numLeaves + 1) (Bfs.new numLeaves)

/-- `MAX_LEAF_INDEX` and `LeafIndex::try_from`. -/
def maxLeafIndex : Nat := 2 ^ 24 - 1
def leafIndexOk (v : Nat) : Bool := v ≤ maxLeafIndex

/-- `u32::next_power_of_two` (smallest power of two ≥ n; 1 for 0) -/
def nextPow2Aux : Nat → Nat → Nat → Nat
  | 0, p, _ => p
  | fuel + 1, p, n => if p ≥ n then p else nextPow2Aux fuel (2 * p) n

def nextPow2 (n : Nat) : Nat := nextPow2Aux (n + 1) 1 n

/-- `NodeVec::total_leaf_count`: `(len / 2 + 1).next_power_of_two()` -/
def totalLeafCount (len : Nat) : Nat := nextPow2 (len / 2 + 1)

/-- `NodeVec::validate_index`: `index < len.next_power_of_two()` -/
def validIndex (len index : Nat) : Bool := index < nextPow2 len

end MlsVerif.TreeMath
