/-
Model of proposal validation for a commit from a member: `group/proposal_filter/filtering.rs`
(`apply_proposals_from_member`: `filter_out_invalid_proposers`, `filter_out_update_for_committer`,
`filter_out_removal_of_committer`, `filter_out_invalid_psks`, `filter_out_invalid_group_extensions`,
`filter_out_extra_group_context_extensions`, `filter_out_invalid_reinit`,
`filter_out_reinit_if_other_proposals`, `filter_out_external_init`, `validate_new_nodes`,
`apply_tree_changes`, `apply_proposals_with_new_capabilities`), `proposer_can_propose`,
`tree_kem/mod.rs` `batch_edit` in both modes, and `proposal_filter.rs` `path_update_required`.

One rule set, two strategies (`FilterStrategy`): `send` = IgnoreByRef (the committer drops offending
by-reference proposals, an offending by-value proposal is an error), `receive` = IgnoreNone (anything
invalid is an error).

Facts that are established outside this logic (signatures, lifetimes, capabilities, what the
application's identity provider accepts, presence of a PSK) are Boolean attributes of the abstract
proposal — the same on the committer's and on the receiver's side.

Imports only `Tree` (linked into the native driver).
-/
import MlsVerif.Model.Tree

namespace MlsVerif.Proposals
open MlsVerif.Tree

inductive Kind | add | update | remove | psk | reinit | extInit | gce
  deriving DecidableEq, Repr

inductive Snd
  | member (leaf : Nat)
  | external (i : Nat)
  | newMemberCommit
  | newMemberProposal
  deriving DecidableEq, Repr

inductive Src | byValue | byRef | loc
  deriving DecidableEq, Repr

inductive Strategy | send | receive
  deriving DecidableEq, Repr

structure Proposal where
  id : Nat                       -- handle (unique in a bundle)
  kind : Kind
  sender : Snd
  src : Src
  target : Nat := 0              -- remove: the leaf to remove
  leaf : Leaf := default         -- add / update: the new leaf node
  ok : Bool := true              -- externally established validity of the payload (see the file comment)
  pskId : Nat := 0               -- psk: identity of the PreSharedKeyID (id and nonce)
  capsOk : Bool := true          -- gce: every leaf of the resulting tree supports the new extensions
  deriving DecidableEq, Repr

def Proposal.byRef (p : Proposal) : Bool := p.src == .byRef

inductive Err
  | invalidProposalTypeForSender | invalidCommitSelfUpdate | committerSelfRemoval | psk
  | gce | moreThanOneGce | reinitVersion | otherProposalWithReInit | newNode | capabilities
  | tree (e : Tree.Err)
  deriving DecidableEq, Repr

/-- `ProposalBundle`: one list per type, each in insertion order -/
structure Bundle where
  adds : List Proposal := []
  updates : List Proposal := []
  removes : List Proposal := []
  psks : List Proposal := []
  reinits : List Proposal := []
  extInits : List Proposal := []
  gces : List Proposal := []
  deriving DecidableEq, Repr

def Bundle.all (b : Bundle) : List Proposal :=
  b.adds ++ b.updates ++ b.removes ++ b.psks ++ b.reinits ++ b.extInits ++ b.gces

def Bundle.length (b : Bundle) : Nat := b.all.length

def Bundle.ofList (ps : List Proposal) : Bundle :=
  { adds := ps.filter (·.kind == .add), updates := ps.filter (·.kind == .update),
    removes := ps.filter (·.kind == .remove), psks := ps.filter (·.kind == .psk),
    reinits := ps.filter (·.kind == .reinit), extInits := ps.filter (·.kind == .extInit),
    gces := ps.filter (·.kind == .gce) }

/-- `proposer_can_propose` -/
def canPropose (s : Snd) (k : Kind) (src : Src) : Bool :=
  match s, src with
  | .newMemberProposal, .loc => k == .add
  | _, .loc => true
  | .member _, .byValue => k == .add || k == .remove || k == .psk || k == .reinit || k == .gce
  | .member _, .byRef => k == .add || k == .update || k == .remove || k == .psk || k == .reinit || k == .gce
  | .external _, .byValue => false
  | .external _, .byRef => k == .add || k == .remove || k == .reinit || k == .psk || k == .gce
  | .newMemberCommit, .byValue => k == .remove || k == .psk || k == .extInit
  | .newMemberCommit, .byRef => false
  | .newMemberProposal, .byValue => false
  | .newMemberProposal, .byRef => k == .add

def ignore (st : Strategy) (byRef : Bool) : Bool :=
  match st with
  | .send => byRef
  | .receive => false

/-- `apply_strategy`: keep (`true`), drop (`false`) or fail -/
def applyStrategy (st : Strategy) (byRef : Bool) (good : Bool) (e : Err) : Except Err Bool :=
  if good then .ok true else if ignore st byRef then .ok false else .error e

/-- `retain_by_type` with a predicate and the strategy -/
def retain (st : Strategy) (e : Err) (good : Proposal → Bool) : List Proposal → Except Err (List Proposal)
  | [] => .ok []
  | p :: ps =>
    match applyStrategy st p.byRef (good p) e with
    | .error x => .error x
    | .ok keep =>
      match retain st e good ps with
      | .error x => .error x
      | .ok rest => .ok (if keep then p :: rest else rest)

/-- `filter_out_invalid_proposers` -/
def filterProposers (st : Strategy) (b : Bundle) : Except Err Bundle := do
  let f := fun (k : Kind) (l : List Proposal) => retain st .invalidProposalTypeForSender (fun p => canPropose p.sender k p.src) l
  pure { adds := ← f .add b.adds, updates := ← f .update b.updates, removes := ← f .remove b.removes,
         psks := ← f .psk b.psks, reinits := ← f .reinit b.reinits, extInits := ← f .extInit b.extInits,
         gces := ← f .gce b.gces }

/-- `filter_out_invalid_psks`: payload valid, and no earlier proposal of the bundle has the same id
(ids are recorded whether or not the proposal is kept) -/
def filterPsks (st : Strategy) : List Proposal → List Nat → Except Err (List Proposal)
  | [], _ => .ok []
  | p :: ps, seen =>
    match applyStrategy st p.byRef (p.ok && !seen.contains p.pskId) .psk with
    | .error x => .error x
    | .ok keep =>
      match filterPsks st ps (p.pskId :: seen) with
      | .error x => .error x
      | .ok rest => .ok (if keep then p :: rest else rest)

/-- `filter_out_extra_group_context_extensions`: only the first one passes (`found` is set by every one) -/
def filterExtraGce (st : Strategy) : List Proposal → Bool → Except Err (List Proposal)
  | [], _ => .ok []
  | p :: ps, found =>
    match applyStrategy st p.byRef (!found) .moreThanOneGce with
    | .error x => .error x
    | .ok keep =>
      match filterExtraGce st ps true with
      | .error x => .error x
      | .ok rest => .ok (if keep then p :: rest else rest)

/-- `filter_out_reinit_if_other_proposals` -/
def filterReinitIfOther (st : Strategy) (b : Bundle) : Except Err Bundle :=
  let count := b.length
  if !b.reinits.isEmpty && count != 1 then
    if b.reinits.any (fun p => !p.byRef) || st == .receive then .error .otherProposalWithReInit
    else if count > b.reinits.length then .ok { b with reinits := [] }
    else .ok { b with reinits := b.reinits.take 1 }
  else .ok b

/-- `batch_edit(filter)` on the bundle and the tree: removes (from the last to the first), updates, adds.
Returns the bundle with the proposals that could not be applied dropped (when filtering by-reference
ones), the indices of the added leaves and the new tree. -/
structure EditOut where
  bundle : Bundle
  added : List Nat
  tree : Tree
  deriving Repr

def applyRemovesF (filter : Bool) : List Proposal → Tree → Except Err (List Proposal × Tree)
  | [], t => .ok ([], t)
  | p :: ps, t =>
    -- the Rust loop runs over indices in reverse; processing the tail first is the same order
    match applyRemovesF filter ps t with
    | .error e => .error e
    | .ok (kept, t1) =>
      match blankLeaf t1 p.target with
      | .ok (_, t2) => .ok (p :: kept, blankDirectPath t2 p.target)
      | .error e => if !p.byRef || !filter then .error (.tree e) else .ok (kept, t1)

/-- first loop over the updates: take the old leaves out -/
def takeOldLeaves (filter : Bool) : List Proposal → Tree → Except Err (List (Proposal × Leaf) × Tree)
  | [], t => .ok ([], t)
  | p :: ps, t =>
    let leafIdx := match p.sender with | .member l => l | _ => 0
    match blankLeaf t leafIdx with
    | .ok (old, t1) =>
      match takeOldLeaves filter ps t1 with
      | .error e => .error e
      | .ok (rest, t2) => .ok ((p, old) :: rest, t2)
    | .error _ =>
      if !filter || !p.byRef then .error (.tree .updatingNonExistingMember)
      else takeOldLeaves filter ps t          -- skipped, and (since the fix) dropped from the bundle

/-- second loop: insert the new leaves; a conflicting one is dropped (old leaf restored) when filtering.
If even restoring the old leaf conflicts, the source "reverts all": the old leaves of the updates applied so far
are put back, and so are the old leaf of the failing update and of every update not reached yet (they were
taken out by the first loop).  `none` marks that branch.  (Before the repair F16 the last two groups of leaves
stayed blank.) -/
def insertNewLeaves (filter : Bool) : List (Proposal × Leaf) → Tree → List (Proposal × Leaf) → Except Err (Option (List Proposal) × Tree)
  | [], t, done => .ok (some (done.reverse.map (·.1)), t)
  | (p, old) :: rest, t, done =>
    let leafIdx := match p.sender with | .member l => l | _ => 0
    if !conflicts t p.leaf then insertNewLeaves filter rest (insertLeaf t leafIdx p.leaf) ((p, old) :: done)
    else if !filter then .error (.tree .duplicateLeafData)
    else if !conflicts t old then insertNewLeaves filter rest (insertLeaf t leafIdx old) done
    else .ok (none, (done.reverse ++ (p, old) :: rest).foldl
      (fun t po => insertLeaf t (match po.1.sender with | .member l => l | _ => 0) po.2) t)

def leafIdxOf (p : Proposal) : Nat := match p.sender with | .member l => l | _ => 0

def applyUpdatesF (filter : Bool) (us : List Proposal) (t : Tree) : Except Err (List Proposal × Tree) :=
  match takeOldLeaves filter us t with
  | .error e => .error e
  | .ok (pairs, t1) =>
    match insertNewLeaves filter pairs t1 [] with
    | .error e => .error e
    | .ok (some applied, t2) =>
      .ok (applied, applied.foldl (fun t p => blankDirectPath t (leafIdxOf p)) t2)
    | .ok (none, t2) => .ok ([], t2)

def applyAddsF (filter : Bool) : List Proposal → Tree → Nat → Except Err (List Proposal × List Nat × Tree)
  | [], t, _ => .ok ([], [], t)
  | p :: ps, t, start =>
    match addLeaf t p.leaf start with
    | .ok (i, t1) =>
      match applyAddsF filter ps t1 i with
      | .error e => .error e
      | .ok (kept, idxs, t2) => .ok (p :: kept, i :: idxs, t2)
    | .error e => if !p.byRef || !filter then .error (.tree e) else applyAddsF filter ps t start

def batchEditF (filter : Bool) (b : Bundle) (t : Tree) : Except Err EditOut := do
  let (removes, t1) ← applyRemovesF filter b.removes t
  let (updates, t2) ← applyUpdatesF filter b.updates t1
  let (adds, added, t3) ← applyAddsF filter b.adds t2 0
  pure { bundle := { b with removes := removes, updates := updates, adds := adds }, added := added, tree := trim t3 }

/-- `apply_tree_changes`: `validate_new_nodes` (payload validity of updates and adds) then `batch_edit` -/
def applyTreeChanges (st : Strategy) (b : Bundle) (t : Tree) : Except Err EditOut := do
  let updates ← retain st .newNode (·.ok) b.updates
  let adds ← retain st .newNode (·.ok) b.adds
  batchEditF (st == .send) { b with updates := updates, adds := adds } t

/-- `apply_proposal_changes` / `apply_proposals_with_new_capabilities` -/
def applyProposalChanges (st : Strategy) (b : Bundle) (t : Tree) : Except Err EditOut :=
  match b.gces with
  | [] => applyTreeChanges st b t
  | g :: _ =>
    match applyTreeChanges st b t with
    | .error e => .error e
    | .ok out =>
      if g.capsOk then .ok out
      else if ignore st g.byRef then applyTreeChanges st { b with gces := [] } t
      else .error .capabilities

/-- `apply_proposals_from_member` -/
def applyFromMember (st : Strategy) (committer : Nat) (b : Bundle) (t : Tree) : Except Err EditOut := do
  let b ← filterProposers st b
  let updates ← retain st .invalidCommitSelfUpdate (fun p => p.sender != .member committer) b.updates
  let removes ← retain st .committerSelfRemoval (fun p => p.target != committer) b.removes
  let psks ← filterPsks st b.psks []
  let gces ← retain st .gce (·.ok) b.gces
  let gces ← filterExtraGce st gces false
  let reinits ← retain st .reinitVersion (·.ok) b.reinits
  let b ← filterReinitIfOther st { b with updates := updates, removes := removes, psks := psks, gces := gces, reinits := reinits }
  let extInits ← retain st .invalidProposalTypeForSender (fun _ => false) b.extInits
  applyProposalChanges st { b with extInits := extInits } t

/-- `path_update_required` (no custom proposals) -/
def pathRequired (b : Bundle) : Bool :=
  let nonLocal := fun (l : List Proposal) => l.any (fun p => p.src != .loc)
  nonLocal b.updates || b.length == 0 || nonLocal b.extInits || nonLocal b.gces || nonLocal b.removes

/-- what the committer puts into the commit: the applied bundle; what the receiver gets back after
resolving the references is the same bundle (`emit_resolve_id` is about the cache, see `Props/C10`) -/
def committed (out : EditOut) : Bundle := out.bundle

end MlsVerif.Proposals
