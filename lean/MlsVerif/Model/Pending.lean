/-
Model of the pending-commit state machine of a member (`group/commit.rs` `commit_internal` /
`PendingCommit`, `group/mod.rs` `apply_pending_commit`, `apply_detached_commit`,
`clear_pending_commit`, `process_incoming_message` (own-commit echo by message hash),
`message_processor.rs` `check_metadata` epoch admission, `update_key_schedule` clearing the
pending commit).

A *group state* is identified by a number: `0` is the state the scenario starts in, and the state
reached by applying commit number `k` is `k + 1`.  A commit records who built it and on which state.
The epoch of a state is its depth in that tree of states.

Import-free (linked into the native driver).
-/
namespace MlsVerif.Pending

structure Commit where
  author : Nat
  base : Nat
  deriving DecidableEq, Repr

structure Member where
  cur : Nat := 0
  pending : Option Nat := none        -- commit id of the pending commit
  deriving DecidableEq, Repr

structure World where
  members : List Member
  commits : List Commit := []
  deriving Repr

inductive Op
  | build (m : Nat) (detached : Bool)
  | clear (m : Nat)
  | apply (m : Nat)
  | applyDet (m : Nat) (k : Nat)      -- apply the commit secrets of commit `k` (built by `m`)
  | deliver (m : Nat) (k : Nat)       -- process the commit message `k`
  deriving DecidableEq, Repr

inductive Res
  | ok
  | existingPendingCommit
  | pendingCommitNotFound
  | invalidEpoch
  | cantProcessMessageFromSelf
  | badOp
  deriving DecidableEq, Repr

def Res.isOk : Res → Bool
  | .ok => true
  | _ => false

/-- epoch number of a state: length of the commit chain below it -/
def epochOf (cs : List Commit) : Nat → Nat → Nat
  | 0, _ => 0
  | _, 0 => 0
  | fuel + 1, s + 1 =>
    match cs[s]? with
    | some c => epochOf cs fuel c.base + 1
    | none => 0

def World.epoch (w : World) (s : Nat) : Nat := epochOf w.commits (s + 1) s

def setMember (w : World) (m : Nat) (x : Member) : World :=
  { w with members := w.members.set m x }

def step (w : World) : Op → World × Res
  | .build m detached =>
    match w.members[m]? with
    | none => (w, .badOp)
    | some x =>
      if x.pending.isSome then (w, .existingPendingCommit)
      else
        let k := w.commits.length
        let w' := { w with commits := w.commits ++ [{ author := m, base := x.cur }] }
        if detached then (w', .ok) else (setMember w' m { x with pending := some k }, .ok)
  | .clear m =>
    match w.members[m]? with
    | none => (w, .badOp)
    | some x => (setMember w m { x with pending := none }, .ok)
  | .apply m =>
    match w.members[m]? with
    | none => (w, .badOp)
    | some x =>
      match x.pending with
      | none => (w, .pendingCommitNotFound)
      | some k => (setMember w m { cur := k + 1, pending := none }, .ok)
  | .applyDet m k =>
    match w.members[m]?, w.commits[k]? with
    | some x, some c =>
      if c.author ≠ m then (w, .badOp)
      else if w.epoch c.base ≠ w.epoch x.cur then (w, .invalidEpoch)
      else (setMember w m { cur := k + 1, pending := none }, .ok)
    | _, _ => (w, .badOp)
  | .deliver m k =>
    match w.members[m]?, w.commits[k]? with
    | some x, some c =>
      if x.pending = some k then (setMember w m { cur := k + 1, pending := none }, .ok)
      else if w.epoch c.base ≠ w.epoch x.cur then (w, .invalidEpoch)
      else if c.author = m then (w, .cantProcessMessageFromSelf)
      else if c.base ≠ x.cur then (w, .invalidEpoch)   -- same epoch number on another branch: rejected
                                                       -- by the real code on cryptographic grounds
      else (setMember w m { cur := k + 1, pending := none }, .ok)
    | _, _ => (w, .badOp)

def run (w : World) : List Op → World × List Res
  | [] => (w, [])
  | op :: ops =>
    let (w', r) := step w op
    let (w'', rs) := run w' ops
    (w'', r :: rs)

def init (n : Nat) : World := { members := List.replicate n {} }

end MlsVerif.Pending
