/-
Model of the pending-commit state machine of a member (`group/commit.rs` `commit_internal` /
`PendingCommit`, `group/mod.rs` `apply_pending_commit`, `apply_detached_commit`,
`clear_pending_commit`, `process_incoming_message` (own-commit echo by message hash),
`message_processor.rs` `check_metadata` epoch admission, `update_key_schedule` clearing the
pending commit).

A *group state* is identified by a number: `0` is the state the scenario starts in, and the state
reached by applying commit number `k` is `k + 1`.  A commit records who built it and on which state.
The epoch of a state is its depth in that tree of states.

A commit also carries three attributes (`Kind`) that change what its receivers do:
* `hasPath`: the commit has an update path (empty, Update and Remove commits do; Add-only / PSK-only
  commits do not).  A member that receives its *own* commit as an incoming message (not the pending
  one) refuses it with `cantProcessMessageFromSelf` only if it has a path; a path-less own commit is
  processed like anybody else's.
* `removes`: a member the commit removes (never its author).  That member, when it processes the
  commit, succeeds, stays in its state and loses its pending commit.
* `reinit`: the commit carries a ReInit proposal.  A member that installs it is `frozen`: it can
  neither build nor process any commit any more (`groupUsedAfterReInit`).

Import-free (linked into the native driver).
-/
namespace MlsVerif.Pending

/-- the attributes of a commit that matter to its receivers; the default is the empty commit -/
structure Kind where
  hasPath : Bool := true
  removes : Option Nat := none
  reinit : Bool := false
  deriving DecidableEq, Repr

/-- a commit by member `m` of a group of `n` members may remove another existing member only -/
def Kind.valid (kd : Kind) (n m : Nat) : Bool :=
  match kd.removes with
  | none => true
  | some j => j != m && decide (j < n)

structure Commit where
  author : Nat
  base : Nat
  kind : Kind := {}
  deriving DecidableEq, Repr

structure Member where
  cur : Nat := 0
  pending : Option Nat := none        -- commit id of the pending commit
  frozen : Bool := false              -- the state `cur` was reached by a reinit commit
  deriving DecidableEq, Repr

structure World where
  members : List Member
  commits : List Commit := []
  deriving Repr

inductive Op
  | build (m : Nat) (detached : Bool) (kind : Kind)
  | clear (m : Nat)
  | apply (m : Nat)
  | applyDet (m : Nat) (k : Nat)      -- apply the commit secrets of commit `k` (built by `m`)
  | deliver (m : Nat) (k : Nat)       -- process the commit message `k`
  deriving DecidableEq, Repr

inductive Res
  | ok
  | existingPendingCommit
  | pendingCommitNotFound
  | invalidEpoch
  | cantProcessMessageFromSelf
  | groupUsedAfterReInit
  | badOp
  deriving DecidableEq, Repr

def Res.isOk : Res → Bool
  | .ok => true
  | _ => false

/-- epoch number of a state: length of the commit chain below it -/
def epochOf (cs : List Commit) : Nat → Nat → Nat
  | 0, _ => 0
  | _, 0 => 0
  | fuel + 1, s + 1 =>
    match cs[s]? with
    | some c => epochOf cs fuel c.base + 1
    | none => 0

def World.epoch (w : World) (s : Nat) : Nat := epochOf w.commits (s + 1) s

def setMember (w : World) (m : Nat) (x : Member) : World :=
  { w with members := w.members.set m x }

/-- the member record of somebody who has just installed commit `k` (= `c`): state `k + 1`, no pending
commit, frozen iff the commit is a reinit commit -/
def install (k : Nat) (c : Commit) : Member :=
  { cur := k + 1, pending := none, frozen := c.kind.reinit }

def step (w : World) : Op → World × Res
  | .build m detached kd =>
    match w.members[m]? with
    | none => (w, .badOp)
    | some x =>
      if x.pending.isSome then (w, .existingPendingCommit)
      else if x.frozen then (w, .groupUsedAfterReInit)
      else if !kd.valid w.members.length m then (w, .badOp)   -- removes itself / nobody
      else
        let k := w.commits.length
        let w' := { w with commits := w.commits ++ [{ author := m, base := x.cur, kind := kd }] }
        if detached then (w', .ok) else (setMember w' m { x with pending := some k }, .ok)
  | .clear m =>
    match w.members[m]? with
    | none => (w, .badOp)
    | some x => (setMember w m { x with pending := none }, .ok)
  | .apply m =>
    match w.members[m]? with
    | none => (w, .badOp)
    | some x =>
      match x.pending with
      | none => (w, .pendingCommitNotFound)
      | some k =>
        match w.commits[k]? with
        | none => (w, .badOp)           -- never in a reachable world (`Inv.pending_wf`)
        | some c => (setMember w m (install k c), .ok)
  | .applyDet m k =>
    match w.members[m]?, w.commits[k]? with
    | some x, some c =>
      if c.author ≠ m then (w, .badOp)
      else if w.epoch c.base ≠ w.epoch x.cur then (w, .invalidEpoch)
      else if x.frozen then (w, .groupUsedAfterReInit)
      else (setMember w m (install k c), .ok)
    | _, _ => (w, .badOp)
  | .deliver m k =>
    match w.members[m]?, w.commits[k]? with
    | some x, some c =>
      if x.pending = some k then (setMember w m (install k c), .ok)
      else if w.epoch c.base ≠ w.epoch x.cur then (w, .invalidEpoch)
      else if c.author = m ∧ c.kind.hasPath = true then (w, .cantProcessMessageFromSelf)
      else if c.base ≠ x.cur then (w, .invalidEpoch)   -- same epoch number on another branch: rejected
                                                       -- by the real code on cryptographic grounds
      else if x.frozen then (w, .groupUsedAfterReInit)
      else if c.kind.removes = some m then
        (setMember w m { x with pending := none }, .ok)   -- removed: stays where it is
      else (setMember w m (install k c), .ok)
    | _, _ => (w, .badOp)

def run (w : World) : List Op → World × List Res
  | [] => (w, [])
  | op :: ops =>
    let (w', r) := step w op
    let (w'', rs) := run w' ops
    (w'', r :: rs)

def init (n : Nat) : World := { members := List.replicate n {} }

end MlsVerif.Pending
