/-
Model of the epoch admission of incoming messages (`group/message_processor.rs` `check_metadata`) for
members and for the external observer (`external_client/group.rs` `min_epoch_available`,
`max_epoch_jitter`).  `u64` values are `Nat` below `2^64`; the one subtraction is saturating
(`saturating_sub`), which on `Nat` is truncated subtraction.

Import-free (linked into the native driver).
-/
namespace MlsVerif.External

inductive ContentType | application | proposal | commit
  deriving DecidableEq, Repr

inductive Res | ok | groupIdMismatch | invalidEpoch | versionMismatch | unencryptedApplicationMessage
  deriving DecidableEq, Repr

/-- `ExternalGroup::min_epoch_available`: `max_epoch_jitter.map(|j| epoch.saturating_sub(j))`;
a member's group returns `None`. -/
def minEpochAvailable (epoch : Nat) (jitter : Option Nat) : Option Nat := jitter.map fun j => epoch - j

/-- `check_metadata` for a framed (public or private) message -/
def checkMetadata (epoch : Nat) (jitter : Option Nat) (sameVersion sameGroup : Bool) (msgEpoch : Nat)
    (ct : ContentType) : Res :=
  if !sameVersion then .versionMismatch
  else if !sameGroup then .groupIdMismatch
  else match ct with
    | .commit | .proposal => if epoch ≠ msgEpoch then .invalidEpoch else .ok
    | .application =>
      match minEpochAvailable epoch jitter with
      | some min => if msgEpoch < min then .invalidEpoch else .ok
      | none => .ok

/-- `check_metadata` with the wire format: the last test of the function refuses application content that does not come
as a `PrivateMessage` ("Unencrypted application messages are not allowed"), after version, group and epoch tests -/
def checkMetadataW (isCipher : Bool) (epoch : Nat) (jitter : Option Nat) (sameVersion sameGroup : Bool) (msgEpoch : Nat)
    (ct : ContentType) : Res :=
  match checkMetadata epoch jitter sameVersion sameGroup msgEpoch ct with
  | .ok => if !isCipher && ct == .application then .unencryptedApplicationMessage else .ok
  | r => r

end MlsVerif.External
