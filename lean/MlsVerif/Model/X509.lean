/-
X.509 chain verdict for property C14 ("the shipped crypto providers are interchangeable"):
the answer an `X509CredentialValidator::validate_chain(chain, timestamp)` must give, on an abstract
certificate.  Import-free: linked into the native driver.

`verdict` is the reference (what the property describes, RFC 5280 §6 style, leaf-first chain).
`verdictWalk` is the path-validation reading "walk up from the leaf and stop at the first
certificate that an anchor vouches for"; it accepts exactly the chains that have an accepted
non-empty prefix (`Props/C14.lean`, `verdictWalk_iff_prefix`), i.e. it ignores trailing
certificates.

====================================================================================================
CANDIDATE DEVIATIONS of the three shipped validators from `verdict`, from reading the code
(o = mls-rs-crypto-openssl/src/x509.rs, r = mls-rs-crypto-rustcrypto/src/x509/validator.rs (+util.rs),
 a = mls-rs-crypto-awslc/src/x509/validator.rs).  "pool" = OpenSSL/AWS-LC `X509_verify_cert`, which
takes chain[0] as the target and treats the WHOLE chain only as an unordered bag of untrusted
helper certificates.

Common to all three (agree with `verdict`)
  * empty chain rejected (o:130 EmptyCertificateChain, r:83, a:46 CryptoError).
  * `timestamp = None` means NO time check at all, never "now" (o:110 NO_CHECK_TIME, r:113/167
    `if let Some(time)`, a:124 NO_CHECK_TIME; trait doc identity-x509/src/provider.rs:41).
  * with a time, every certificate of the USED path and the anchor are time-checked.

OpenSSL (o)
  O1 chain order is not enforced: issuers are looked up by subject name in the pool (o:139
     `context.init(store, leaf, chain)`), so REORDERED intermediates are accepted, as are duplicated
     certificates and unrelated certificates anywhere in the chain (not only after the anchor).
     `verdict` rejects all of these; `verdictWalk` rejects them unless they come after the match.
  O2 certificates after the first anchor match are ignored (never parsed for validity, only DER-
     parsed, o:134).  `verdict` rejects junk there, `verdictWalk` agrees with OpenSSL.
  O3 trusted-first path building: a shorter path through the store wins, so a chain whose later
     part is broken/expired is accepted when an earlier element already chains to an anchor.
  O4 validity boundary: `X509_cmp_time` returns -1 for "earlier OR EQUAL", so a certificate is
     already expired AT t = notAfter (accepted window notBefore ≤ t < notAfter); `verdict` and
     RustCrypto (r:146) accept t = notAfter.
  O5 CA check (`check_chain_extensions`/`check_ca`, non-strict): an issuer WITHOUT basicConstraints is
     still accepted when it is a self-signed X.509v1 certificate or has keyUsage keyCertSign (or
     Netscape CA type).  RustCrypto requires the extension (util.rs:141).  In the abstract
     certificate "no basicConstraints" and "cA = FALSE" are both `isCA = false`.
  O6 anchors must be self-SIGNED: `X509Validator::new` (o:70-78) rejects the whole validator when an
     anchor does not verify under its own key (issuer name not compared).  Without
     X509_V_FLAG_PARTIAL_CHAIN a non-self-signed store entry never terminates a path.  `verdict`
     accepts any listed anchor.
  O7 single-element chain that IS an anchor: accepted also when `isCA = false` (depth-0 certificate
     is not required to be a CA); `verdict` asks the anchor used to be a CA; RustCrypto rejects
     (r:124 `verify_ca_extensions(verifier, 0)`).
  O8 more checks than the abstract certificate has: keyUsage of issuers, name constraints, policy,
     unknown critical extensions, security level of keys/digests, AKID/SKID matching, depth ≤ 100.
  O9 `with_system_ca()` adds the platform store to the anchors (o:104): more anchors, by
     `verdict_anchor_monotone` only ever more accepts.
  O10 pathLen: self-ISSUED intermediates are not counted (RFC 5280 §6.1.4 (l)); `verdict` and
     RustCrypto (r:124 passes the plain index) count every intermediate.

RustCrypto (r)
  R1 issuer NAME chaining between chain elements is never checked: for chain[j] without a matching
     anchor the verifier is simply chain[j+1] and only the signature is verified (r:120-125).
     A chain with correct signatures but issuer ≠ next.subject is accepted; `verdict` and OpenSSL
     (name-driven lookup) reject.
  R2 anchors are looked up by chain[j].issuer NAME in a `HashMap<subject, cert>` (r:23, r:51-59):
       a. two anchors with the same subject collapse to the one inserted last → adding an anchor
          can turn accept into reject (violates `verdict_anchor_monotone`);
       b. on a name hit the anchor is THE verifier: if its key does not verify chain[j] the chain is
          rejected even though chain[j+1] would verify it and lead to another anchor (r:120).
  R3 walk stops at the first name hit: everything after it is ignored (r:128-138), like O2; but
     the elements before it must be in strict leaf-first order (signature to the next element),
     so reordered intermediates ARE rejected here and accepted by OpenSSL/AWS-LC (O1).
  R4 a chain element that is itself an anchor is accepted only through its issuer name: for a
     self-signed root in the chain that works (its issuer = its subject is in the map); an anchor
     certificate whose issuer ≠ subject is never recognised as "same cert".  `verdict` compares
     the certificate.
  R5 last element with no anchor hit is verified against ITSELF (r:100 `chain.iter().rev().take(1)`):
     needs `isCA` and a valid self-signature before `CaNotFound` is returned – only the error differs.
  R6 time: chain[0..=hit] and the anchor are checked, inclusive on both ends (r:146); nothing after
     the hit (R3).
  R7 CA check incl. pathLen for every verifier, anchor included, also for a single-element chain
     (see O7); missing basicConstraints = reject (util.rs:141); keyUsage without keyCertSign = reject.
  R8 anchors must be self-signed (r:55 `verify_cert(&cert, &cert, None)`), else `new` fails.
  R9 `allow_self_signed(true)` (test only) replaces the whole procedure by "exactly one certificate,
     self-signature and time" (r:185) – no anchors involved at all.
  R10 `set_pinned_cert`: additionally requires the pinned DER to occur somewhere in the chain
     (r:88) – also after the hit, where nothing else is checked.

AWS-LC (a)
  A1 = O1, O2, O3 (same `X509_verify_cert` algorithm, trusted stack via
     `X509_STORE_CTX_set0_trusted_stack`, a:63), A4 = O4 (`X509_cmp_time_posix`, same "≤" convention),
     A7 = O7, A8 = O8, A10 = O10.
  A5 CA check: only basicConstraints cA (or self-signed v1 root); no keyUsage-only/Netscape fallback.
  A6 the constructor does NOT check that anchors are self-signed (a:27-40) whereas o/r refuse such a
     validator; during validation a non-self-signed anchor still does not terminate a path (no
     PARTIAL_CHAIN), so chains below an intermediate-only anchor are rejected; `verdict` accepts.
  A9 error-path resource handling only (a:66 returns before the frees at a:71 when
     `set_verify_params` fails) – no verdict impact.
====================================================================================================
-/
namespace MlsVerif.X509

/-- abstract certificate: names and keys are numbers; `signedBy` is the key that made the signature -/
structure Cert where
  subject : Nat
  issuer : Nat
  key : Nat
  signedBy : Nat
  notBefore : Nat
  notAfter : Nat
  /-- basicConstraints cA -/
  isCA : Bool
  /-- basicConstraints pathLenConstraint -/
  pathLen : Option Nat
  deriving DecidableEq, Repr

/-- `notBefore ≤ t ≤ notAfter`; no time given = no check -/
def timeOk (t : Option Nat) (c : Cert) : Bool :=
  match t with
  | none => true
  | some t => c.notBefore ≤ t && t ≤ c.notAfter

/-- `c` names `iss` as issuer and carries a signature by `iss`'s key -/
def issues (iss c : Cert) : Bool :=
  c.issuer == iss.subject && c.signedBy == iss.key

/-- `iss` may act as a CA with `below` intermediate certificates under it -/
def caOk (iss : Cert) (below : Nat) : Bool :=
  iss.isCA && (match iss.pathLen with
    | none => true
    | some n => below ≤ n)

/-- every element is issued by its successor, which is a CA; `i` = index of the head (the number of
intermediates below the successor) -/
def linksOk : List Cert → Nat → Bool
  | [], _ => true
  | [_], _ => true
  | c :: d :: rest, i => issues d c && caOk d i && linksOk (d :: rest) (i + 1)

/-- an anchor vouches for `c`, the chain element at index `idx`: `c` is an anchor itself (and a CA
for the `idx - 1` intermediates below it), or an anchor that is a CA (for `idx` intermediates) and
valid at `t` issued it -/
def anchored (anchors : List Cert) (t : Option Nat) (c : Cert) (idx : Nat) : Bool :=
  anchors.any fun a => (a == c && caOk a (idx - 1)) || (issues a c && caOk a idx && timeOk t a)

/-- the reference verdict for a leaf-first chain -/
def verdict (chain anchors : List Cert) (t : Option Nat) : Bool :=
  match chain.getLast? with
  | none => false
  | some last =>
    chain.all (timeOk t) && linksOk chain 0 && anchored anchors t last (chain.length - 1)

/-- walk from the leaf (index `i`), stop at the first element an anchor vouches for -/
def walk (anchors : List Cert) (t : Option Nat) : List Cert → Nat → Bool
  | [], _ => false
  | c :: rest, i =>
    timeOk t c &&
      (anchored anchors t c i ||
        match rest with
        | [] => false
        | d :: _ => issues d c && caOk d i && walk anchors t rest (i + 1))

def verdictWalk (chain anchors : List Cert) (t : Option Nat) : Bool :=
  walk anchors t chain 0

end MlsVerif.X509
