/-
A composed symbolic model of a whole MLS group: the public ratchet tree of `Model/Tree.lean`, the
private key slots of every followed party, and *symbolic* secrets (path secrets, commit secret,
epoch / init secret) computed by every party from what it can actually open.

RFC 9420 §7.4 / §12.4.2 and `tree_kem/kem.rs`, `tree_kem/path_secret.rs`:

* the committer draws a random path secret for the first node of its *filtered* direct path, derives
  `path_secret[k+1] = DeriveSecret(path_secret[k], "path")` for the next unfiltered node, derives the node
  key pair of unfiltered node `k` from `path_secret[k]`, and `commit_secret = DeriveSecret(path_secret[last],
  "path")` (`PathSecretGenerator::next_secret` once more after the loop; a random value if there is no
  unfiltered node);
* `path_secret[k]` is HPKE-sealed to every key in the resolution of the copath child of node `k`, minus the
  leaves added by the same commit — `EncapOut.seals`;
* a receiver opens the ciphertext `ctPos` of the update-path node at its `lcaIndex` with the key in slot
  `slot` (`decap`), continues the derivation upwards — checking that every derived key pair matches the
  announced public key (`PubKeyMismatch`) — and ends at the commit secret;
* joiners get in the Welcome, sealed to the init key of their key package, the joiner secret (model: the new
  epoch secret itself) and, if the commit has a path, the path secret of their common ancestor with the
  committer (`encrypt_group_secrets`);
* without a path the commit secret is all-zero.

Key stamps: holding the stamp in a slot = holding the private key.  The init key of a key package is named
by the HPKE stamp of the leaf node of the same key package (`Key.init`).

Imports only Model files (linked into the native driver).
-/
import MlsVerif.Model.Tree

namespace MlsVerif.Group
open MlsVerif.Tree MlsVerif.TreeMath

/-- symbolic secrets -/
inductive Sec
  | genesis                                      -- the random epoch secret of epoch 0 (group creator)
  | fresh (n : Nat)                              -- the random leaf-level path secret of the commit that ends epoch `n`
  | path (s : Sec)                               -- DeriveSecret(s, "path")
  | zero                                         -- all-zero commit secret (commit without path) / absent PSK
  | psk (id : Nat)                               -- an externally provisioned pre-shared key secret
  | epoch (init commit psk : Sec) (ctx : Nat)    -- key schedule: joiner / epoch secret, injective by construction
  | initOf (e : Sec)                             -- init secret derived from an epoch secret
  | ext (n : Nat)                                -- the KEM shared secret of the external commit that ends epoch `n`
                                                 -- (= its init secret, `InitSecret::encode_for_external`)
  deriving DecidableEq, Repr, Inhabited

/-- private keys: of a tree node (by stamp), the init key of the key package whose leaf node carries the
HPKE stamp, or the external private key of the epoch whose epoch secret is `e` (derived from the
`external_secret`, published as `external_pub` in the GroupInfo) -/
inductive Key
  | node (stamp : Nat)
  | init (stamp : Nat)
  | ext (e : Sec)
  deriving DecidableEq, Repr, Inhabited

/-- `n`-fold `DeriveSecret(·, "path")` -/
def pathN : Nat → Sec → Sec
  | 0, s => s
  | n + 1, s => .path (pathN n s)

/-- number of announced keys (unfiltered positions) in a list of path keys -/
def countSome : List (Option Nat) → Nat
  | [] => 0
  | none :: l => countSome l
  | some _ :: l => countSome l + 1

/-- the announced keys in order -/
def someKeys : List (Option Nat) → List Nat
  | [] => []
  | none :: l => someKeys l
  | some k :: l => k :: someKeys l

/-- allowed PSK inputs of a commit: absent or an external PSK -/
def Sec.isPskInput : Sec → Bool
  | .zero => true
  | .psk _ => true
  | _ => false

/-- one `UpdatePathNode` with what it hides: the path secret of direct-path node `node`, the public key
derived from it (the announced key stamp) and the recipients `(node index, its public key stamp)` in
ciphertext order -/
structure PathSeal where
  node : Nat
  secret : Sec
  key : Nat
  recips : List (Nat × Option Nat)
  deriving DecidableEq, Repr

/-- the group secrets sealed to one joiner's init key -/
structure WelcomeSeal where
  initKey : Nat
  joiner : Sec
  pathSecret : Option Sec
  deriving DecidableEq, Repr

/-- what a commit puts on the wire, annotated with the secrets inside the ciphertexts.  `ext`: the
`ExternalInit` proposal of an external commit — `(e, s)`: the KEM output towards the external public key of the
epoch with epoch secret `e`, carrying the shared secret `s` -/
structure Transcript where
  pathSeals : List PathSeal
  welcome : List WelcomeSeal
  ext : Option (Sec × Sec) := none
  deriving DecidableEq, Repr

/-- attach the path-secret chain `s, path s, path (path s), …` and the announced keys to `EncapOut.seals` -/
def sealChain (t : Tree) : List (Nat × List Nat) → List Nat → Sec → List PathSeal
  | (n, rs) :: seals, k :: keys, s =>
    { node := n, secret := s, key := k, recips := rs.map fun r => (r, (get t r).map Node.key) }
      :: sealChain t seals keys (.path s)
  | _, _, _ => []

def pathSealsOf (o : EncapOut) (s0 : Sec) : List PathSeal :=
  sealChain o.tree o.seals (someKeys o.pathKeys) s0

/-- every ciphertext as `(recipient private key, plaintext secret)` -/
def Transcript.seals (tr : Transcript) : List (Key × Sec) :=
  (tr.pathSeals.flatMap fun ps => ps.recips.filterMap fun r => r.2.map fun k => (Key.node k, ps.secret))
  ++ ((tr.welcome.flatMap fun ws =>
      (Key.init ws.initKey, ws.joiner) :: (match ws.pathSecret with
        | some s => [(Key.init ws.initKey, s)]
        | none => []))
  ++ match tr.ext with
    | some (e, s) => [(Key.ext e, s)]
    | none => [])

/-- key generation: the node key pair derived from each path secret; the external key pair derived from the
epoch secret (through the `external_secret`) -/
def Transcript.gens (tr : Transcript) : List (Sec × Key) :=
  (tr.pathSeals.map fun ps => (ps.secret, Key.node ps.key))
  ++ match tr.ext with
    | some (e, _) => [(e, Key.ext e)]
    | none => []

/-- a followed party: identity stamp, private key slots, the epoch it is in and that epoch's secret -/
structure Member where
  id : Nat
  priv : Priv
  epoch : Nat
  secret : Sec
  deriving DecidableEq, Repr

def Member.initSecret (m : Member) : Sec := .initOf m.secret

/-- the public tree of the current epoch and every followed party: the *current* members
(`epoch = w.epoch`) and the ghosts — parties that were removed or that missed a commit and keep their old
epoch, keys and secrets -/
structure GroupWorld where
  tree : Tree
  epoch : Nat
  members : List Member
  deriving DecidableEq, Repr

inductive GErr
  | tree (e : Err)
  | senderUnknown             -- the committer is not a followed current member
  | senderRemoved             -- the committer's leaf is gone after the proposals
  | badPsk
  | treeMismatch              -- a receiver's `apply_update_path` does not give the committer's tree
  | noCiphertext              -- no update-path node / ciphertext at the receiver's position
  | cannotOpen                -- the ciphertext is sealed to a key the receiver does not hold
  | badWelcome                -- the Welcome has no usable group secrets for the joiner
  deriving DecidableEq, Repr

def GroupWorld.init (l : Leaf) : GroupWorld :=
  { tree := [some (.leaf l)], epoch := 0,
    members := [{ id := l.ident, priv := ⟨0, [some l.hpke]⟩, epoch := 0, secret := .genesis }] }

def Member.current (w : GroupWorld) (m : Member) : Bool := m.epoch == w.epoch

def GroupWorld.sender? (w : GroupWorld) (sender : Nat) : Option Member :=
  w.members.find? fun m => m.current w && m.priv.self == sender

/-- the HPKE stamp of the member's own Update proposal applied by the commit -/
def ownUpdate (e : Edits) (self : Nat) : Option Nat :=
  (e.updates.find? (·.1 == self)).map (·.2.hpke)

/-- does this followed party process the commit?  Ghosts, removed members and members outside `deliverTo`
do not; the committer always does -/
def processes (w : GroupWorld) (sender : Nat) (e : Edits) (deliverTo : List Nat) (m : Member) : Bool :=
  m.current w && (m.priv.self == sender || (!e.removes.contains m.priv.self && deliverTo.contains m.priv.self))

/-- `lca_index` of `decap` / `encrypt_group_secrets` -/
def lcaIndex (self sender : Nat) : Nat := leafLcaLevel (2 * self) (2 * sender) - 2

/-- the derivation check of a receiver (`PubKeyMismatch`): from position `idx` on, the announced keys are the
ones generated by `opened, path opened, …` -/
def chainMatches (seals : List PathSeal) (idx : Nat) (opened : Sec) : Bool :=
  (seals.drop idx).zipIdx.all fun x => x.1.secret == pathN x.2 opened

/-- a receiver of a commit with a path: `decap` for the position, then really open the ciphertext with the
key in the slot, derive upwards and run the key schedule on the init secret `init` -/
def recvPathI (init : Sec) (t1 : Tree) (o : EncapOut) (seals : List PathSeal) (sender : Nat) (e : Edits)
    (added : List Nat) (psk : Sec) (ctx : Nat) (m : Member) : Except GErr Member :=
  let prov := provisionalPriv t1 m.priv (ownUpdate e m.priv.self)
  match decap o.tree prov sender o.pathKeys added with
  | .error x => .error (.tree x)
  | .ok d =>
    let c := lcaIndex m.priv.self sender
    let idx := countSome (o.pathKeys.take c)
    match seals[idx]? with
    | none => .error .noCiphertext
    | some ps =>
      match ps.recips[d.ctPos]?, prov.keys[d.slot]? with
      | some (_, some k), some (some k') =>
        if k = k' then
          if chainMatches seals idx ps.secret then
            let cs := pathN (countSome (o.pathKeys.drop c)) ps.secret
            .ok { m with priv := d.priv, epoch := m.epoch + 1,
                         secret := .epoch init cs psk ctx }
          else .error (.tree .pubKeyMismatch)
        else .error .cannotOpen
      | _, _ => .error .cannotOpen

/-- … of a member's commit: the init secret is the one derived from the receiver's own epoch secret -/
def recvPath (t1 : Tree) (o : EncapOut) (seals : List PathSeal) (sender : Nat) (e : Edits)
    (added : List Nat) (psk : Sec) (ctx : Nat) (m : Member) : Except GErr Member :=
  recvPathI (.initOf m.secret) t1 o seals sender e added psk ctx m

/-- the group secrets for the joiner at leaf `self` (key package leaf node `L`) -/
def welcomeFor (o : Option EncapOut) (seals : List PathSeal) (sender : Nat) (E : Sec) (self : Nat)
    (L : Leaf) : WelcomeSeal :=
  { initKey := L.hpke, joiner := E,
    pathSecret := match o with
      | some o => (seals[countSome (o.pathKeys.take (lcaIndex self sender))]?).map (·.secret)
      | none => none }

/-- a joiner: opens the group secrets sealed to its init key, takes the joiner secret and (with a path) the
node keys from its common ancestor with the committer upwards -/
def joinWith (t' : Tree) (hasPath : Bool) (sender newEpoch : Nat) (ws : Option WelcomeSeal) (self : Nat)
    (L : Leaf) : Except GErr Member :=
  match ws with
  | none => .error .badWelcome
  | some ws =>
    if ws.initKey ≠ L.hpke then .error .cannotOpen
    else if hasPath && ws.pathSecret.isNone then .error .badWelcome
    else match joinerPriv t' self L.hpke sender hasPath with
      | .error x => .error (.tree x)
      | .ok p => .ok { id := L.ident, priv := p, epoch := newEpoch, secret := ws.joiner }

def mapE {α β ε : Type} (f : α → Except ε β) : List α → Except ε (List β)
  | [] => .ok []
  | a :: l => match f a with
    | .error x => .error x
    | .ok b => match mapE f l with
      | .error x => .error x
      | .ok bs => .ok (b :: bs)

/-- the joiners that process the Welcome: `(index in the bundle, leaf index, key package leaf node)` -/
def joinersOf (e : Edits) (added : List Nat) (deliverTo : List Nat) : List (Nat × Nat × Leaf) :=
  ((added.zip e.adds).zipIdx.map fun x => (x.2, x.1.1, x.1.2)).filter fun x => deliverTo.contains x.2.1

/-- how a followed party moves through a commit with a path (`E`: the committer's new epoch secret) -/
def advPath (w : GroupWorld) (sender : Nat) (e : Edits) (deliverTo : List Nat) (t1 : Tree) (o : EncapOut)
    (seals : List PathSeal) (added : List Nat) (psk : Sec) (ctx : Nat) (E : Sec) (m : Member) :
    Except GErr Member :=
  if !processes w sender e deliverTo m then .ok m
  else if m.priv.self == sender then
    .ok { m with priv := ⟨sender, o.slots⟩, epoch := m.epoch + 1, secret := E }
  else recvPath t1 o seals sender e added psk ctx m

/-- … and through a commit without a path: the commit secret is all-zero -/
def advNoPath (w : GroupWorld) (sender : Nat) (e : Edits) (deliverTo : List Nat) (t1 : Tree) (psk : Sec)
    (ctx : Nat) (m : Member) : Member :=
  if !processes w sender e deliverTo m then m
  else { m with priv := provisionalPriv t1 m.priv (ownUpdate e m.priv.self), epoch := m.epoch + 1,
                secret := .epoch (.initOf m.secret) .zero psk ctx }

def joinAll (t' : Tree) (hasPath : Bool) (sender newEpoch : Nat) (welcome : List WelcomeSeal) (e : Edits)
    (added deliverTo : List Nat) : Except GErr (List Member) :=
  mapE (fun x => joinWith t' hasPath sender newEpoch welcome[x.1]? x.2.1 x.2.2) (joinersOf e added deliverTo)

/-- the part of a commit with a path after the proposals have been applied (`cm`: the committer's state) -/
def commitPath (w : GroupWorld) (sender : Nat) (e : Edits) (nl : Leaf) (fresh : Nat) (psk : Sec) (ctx : Nat)
    (deliverTo : List Nat) (cm : Member) (added : List Nat) (t1 : Tree) :
    Except GErr (GroupWorld × Transcript) :=
  match encap t1 sender nl added fresh with
  | .error x => .error (.tree x)
  | .ok o =>
    match applyUpdatePath t1 sender nl o.pathKeys with
    | .error x => .error (.tree x)
    | .ok t' =>
    if t' ≠ o.tree then .error .treeMismatch else
    let seals := pathSealsOf o (.fresh w.epoch)
    let E := Sec.epoch (.initOf cm.secret) (pathN (countSome o.pathKeys) (.fresh w.epoch)) psk ctx
    let welcome := (added.zip e.adds).map fun x => welcomeFor (some o) seals sender E x.1 x.2
    match mapE (advPath w sender e deliverTo t1 o seals added psk ctx E) w.members with
    | .error x => .error x
    | .ok ms =>
      match joinAll o.tree true sender (w.epoch + 1) welcome e added deliverTo with
      | .error x => .error x
      | .ok js =>
        .ok ({ tree := o.tree, epoch := w.epoch + 1, members := ms ++ js },
             { pathSeals := seals, welcome := welcome })

/-- … and of a commit without a path -/
def commitNoPath (w : GroupWorld) (sender : Nat) (e : Edits) (psk : Sec) (ctx : Nat)
    (deliverTo : List Nat) (cm : Member) (added : List Nat) (t1 : Tree) :
    Except GErr (GroupWorld × Transcript) :=
  let E := Sec.epoch (.initOf cm.secret) .zero psk ctx
  let welcome := (added.zip e.adds).map fun x => welcomeFor none [] sender E x.1 x.2
  match joinAll t1 false sender (w.epoch + 1) welcome e added deliverTo with
  | .error x => .error x
  | .ok js =>
    .ok ({ tree := t1, epoch := w.epoch + 1,
           members := w.members.map (advNoPath w sender e deliverTo t1 psk ctx) ++ js },
         { pathSeals := [], welcome := welcome })

/-- One commit.  `sender`: the committer's leaf; `e`: the applied proposals; `newLeaf`: the committer's new
leaf node if the commit has an update path; `fresh`: first stamp for the new node keys; `psk`, `ctx`: the
other key-schedule inputs; `deliverTo`: leaves (old members and joiners) that process the commit / Welcome.
Returns the new world and the public transcript. -/
def GroupWorld.commit (w : GroupWorld) (sender : Nat) (e : Edits) (newLeaf : Option Leaf) (fresh : Nat)
    (psk : Sec) (ctx : Nat) (deliverTo : List Nat) : Except GErr (GroupWorld × Transcript) :=
  if !psk.isPskInput then .error .badPsk else
  if e.removes.contains sender then .error .senderRemoved else
  match w.sender? sender with
  | none => .error .senderUnknown
  | some cm =>
  match batchEdit w.tree e with
  | .error x => .error (.tree x)
  | .ok (added, t1) =>
  match get t1 (2 * sender) with
  | some (.leaf _) =>
    match newLeaf with
    | some nl => commitPath w sender e nl fresh psk ctx deliverTo cm added t1
    | none => commitNoPath w sender e psk ctx deliverTo cm added t1
  | _ => .error .senderRemoved

/-! ### external commits (RFC 9420 §12.4.3.2; `group/external_commit.rs`, `proposal_filter/filtering_common.rs`
`apply_proposals_from_new_member`, `key_schedule.rs` `InitSecret::{encode,decode}_for_external`)

A party that is not a member takes the GroupInfo (ratchet tree, `external_pub`) of a current member `gi` and
commits: `ExternalInit` (KEM output towards `external_pub`), optionally one `Remove` (of its own old leaf —
re-sync), PSKs, and always an update path.

* tree: the proposals are applied by `batch_edit` (which trims), THEN the new member's leaf node is inserted by
  `add_leaf(leaf, start = None)` — leftmost blank leaf, unmerged at its non-blank ancestors (`insert_external_leaf`);
  no second trim.  The committer inserts the leaf node `L0` it generated, then `encap` replaces it by `nl` (fresh
  HPKE key); receivers insert the update path's leaf node `nl` (uniqueness check `conflicts t1 nl`) and
  `apply_update_path` writes it again — the two provisional trees differ only in the content of that leaf, which
  neither `provisional_private_tree` nor `decap` reads: the model lets the receivers work on the committer's
  provisional tree and checks `apply_update_path` against `encap` as for a member's commit
  (`Props/C01Group.lean`, `external_commit_receivers_tree`: the receivers' own tree gives the same results).
* `indexes_of_added_kpkgs` is empty (Adds are not allowed): nothing is excluded from the resolutions, and the new
  leaf never is in the resolution of a copath node of its own direct path.
* key schedule: the init secret is the KEM shared secret `Sec.ext n`, not `initOf` of the old epoch secret.  The
  joiner knows it (it ran the encapsulation); a member derives the external private key from its epoch secret
  and decapsulates — `Transcript.ext`.  There is no Welcome.
* the joiner holds the private keys of its whole filtered direct path (`o.slots`) and the new epoch secret.
-/

def noEdits : Edits := ⟨[], [], []⟩

/-- the proposals of an external commit that touch the tree: at most one Remove -/
def extEdits (remove : Option Nat) : Edits := ⟨remove.toList, [], []⟩

/-- does this followed party process the external commit?  Current members other than the removed one that it is
delivered to -/
def processesExt (w : GroupWorld) (remove : Option Nat) (deliverTo : List Nat) (m : Member) : Bool :=
  m.current w && !(remove == some m.priv.self) && deliverTo.contains m.priv.self

/-- how a followed party moves through an external commit: it decapsulates the KEM output with the external key
of ITS epoch secret (which must be the one the joiner encapsulated to), then as for any commit with a path -/
def advExt (w : GroupWorld) (remove : Option Nat) (deliverTo : List Nat) (t1x : Tree) (o : EncapOut)
    (seals : List PathSeal) (self : Nat) (psk : Sec) (ctx : Nat) (eOld : Sec) (m : Member) :
    Except GErr Member :=
  if !processesExt w remove deliverTo m then .ok m
  else if m.secret ≠ eOld then .error .cannotOpen
  else recvPathI (.ext w.epoch) t1x o seals self noEdits [] psk ctx m

/-- One external commit.  `gi`: the leaf of the current member whose GroupInfo is used; `remove`: the leaf
removed by the commit's Remove proposal, if any; `L0`: the leaf node the joiner inserts before `encap`; `nl`: the
leaf node of its update path; the rest as for `GroupWorld.commit`.  The joiner is appended as a followed party. -/
def GroupWorld.externalCommit (w : GroupWorld) (gi : Nat) (remove : Option Nat) (L0 nl : Leaf) (fresh : Nat)
    (psk : Sec) (ctx : Nat) (deliverTo : List Nat) : Except GErr (GroupWorld × Transcript) :=
  if !psk.isPskInput then .error .badPsk else
  match w.sender? gi with
  | none => .error .senderUnknown
  | some gm =>
  match batchEdit w.tree (extEdits remove) with
  | .error x => .error (.tree x)
  | .ok (_, t1) =>
  match addLeaf t1 L0 0 with
  | .error x => .error (.tree x)
  | .ok (self, t1x) =>
  if conflicts t1 nl then .error (.tree .duplicateLeafData) else
  match encap t1x self nl [] fresh with
  | .error x => .error (.tree x)
  | .ok o =>
    match applyUpdatePath t1x self nl o.pathKeys with
    | .error x => .error (.tree x)
    | .ok t' =>
    if t' ≠ o.tree then .error .treeMismatch else
    let seals := pathSealsOf o (.fresh w.epoch)
    let E := Sec.epoch (.ext w.epoch) (pathN (countSome o.pathKeys) (.fresh w.epoch)) psk ctx
    match mapE (advExt w remove deliverTo t1x o seals self psk ctx gm.secret) w.members with
    | .error x => .error x
    | .ok ms =>
      .ok ({ tree := o.tree, epoch := w.epoch + 1,
             members := ms ++ [{ id := nl.ident, priv := ⟨self, o.slots⟩, epoch := w.epoch + 1, secret := E }] },
           { pathSeals := seals, welcome := [], ext := some (gm.secret, .ext w.epoch) })

end MlsVerif.Group
