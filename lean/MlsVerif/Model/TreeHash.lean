/-
Model of the incremental tree-hash cache of `mls-rs/src/tree_kem/tree_hash.rs`:
`TreeHashes.current` (one `TreeHash` per node), the free function `tree_hash` (resize, leaf loop,
FIFO parent queue), `TreeKemPublic::update_hashes` (updated leaves ++ right-to-left scan for missing
entries), `initialize_hashes`, `TreeKemPublic::tree_hash`, `hash_for_leaf`, `hash_for_parent`.

Hashes are *symbolic terms* (`HT`): the hash function is modelled as free/injective, so equality of
terms stands for equality of hash bytes.  `HT.dflt` is `TreeHash::default()` (the empty byte
string), the filler used by `Vec::resize`; no real hash equals it (a real hash has `Nh > 0` bytes),
which is why it is a separate constructor.

`treeHashSpec` is the from-scratch RFC 9420 §7.8 recursion; `treeHashWith`/`updateHashes` are the
implementation.  `Coherent` relates a cache to the spec.

Imports only `Model/Tree` (linked into the native driver).
-/
import MlsVerif.Model.Tree

namespace MlsVerif.TreeHash
open MlsVerif.TreeMath MlsVerif.Tree

/-- symbolic tree hashes: `leaf` = `H(TreeHashInput::Leaf{leaf_index, leaf_node})`,
`parent` = `H(TreeHashInput::Parent{parent_node, left_hash, right_hash})`, `dflt` = the empty
`TreeHash::default()` -/
inductive HT
  | dflt
  | leaf (idx : Nat) (l : Option Leaf)
  | parent (p : Option Parent) (l r : HT)
  deriving DecidableEq, Repr, Inhabited

/-- `nodes.borrow_as_leaf(l).ok()`: `None` if blank, out of range, or not a leaf -/
def leafAt (t : Tree) (l : Nat) : Option Leaf :=
  match get t (2 * l) with
  | some (.leaf lf) => some lf
  | _ => none

/-- `nodes.borrow_as_parent(x).ok()` -/
def parentAt (t : Tree) (x : Nat) : Option Parent :=
  match get t x with
  | some (.parent p) => some p
  | _ => none

/-- `hash_for_leaf` with the `filtered_leaves` test of the leaf loop: a filtered leaf is hashed as
blank -/
def hashForLeaf (t : Tree) (filtered : List Nat) (l : Nat) : HT :=
  .leaf l (if filtered.contains l then none else leafAt t l)

/-- `hash_for_parent`: filtered leaves are removed from the unmerged list -/
def hashForParent (p : Option Parent) (filtered : List Nat) (lh rh : HT) : HT :=
  .parent (p.map fun p => { p with unmerged := p.unmerged.filter fun u => !filtered.contains u }) lh rh

/-! ### specification: RFC 9420 §7.8, from scratch -/

/-- tree hash of node `x` of level `lvl`, by recursion on the level -/
def specAux (t : Tree) (filtered : List Nat) : Nat → Nat → HT
  | 0, x => hashForLeaf t filtered (x / 2)
  | lvl + 1, x =>
    match left? x, right? x with
    | some l, some r =>
      hashForParent (parentAt t x) filtered (specAux t filtered lvl l) (specAux t filtered lvl r)
    | _, _ => .dflt            -- unreachable when `lvl + 1 = level x`

/-- the tree hash of node `x` (the subtree rooted at `x` in the perfect binary tree; positions
beyond the end of the node array are blank) -/
def treeHashSpec (t : Tree) (filtered : List Nat) (x : Nat) : HT := specAux t filtered (level x) x

/-! ### implementation -/

/-- `Vec::resize(m, TreeHash::default())`: truncates or pads -/
def resize (c : List HT) (m : Nat) : List HT :=
  if m ≤ c.length then c.take m else c ++ List.replicate (m - c.length) .dflt

/-- the seeded bug: a resize that only grows (no truncation when the tree shrank) -/
def resizeGrowOnly (c : List HT) (m : Nat) : List HT :=
  if m ≤ c.length then c else c ++ List.replicate (m - c.length) .dflt

/-- `if let Some(ps) = x.parent_sibling(&num_leaves) { node_queue.push_back(ps.parent) }` -/
def pushParent (q : List Nat) (x n : Nat) : List Nat :=
  match parentSibling? x n with
  | some ps => q ++ [ps.1]
  | none => q

/-- the `for l in leaves_to_update.iter().filter(|l| l < num_leaves)` loop, on the already filtered
list: write the leaf hash, push the parent of the leaf (if any) to the back of the queue -/
def leafLoop (t : Tree) (filtered : List Nat) (n : Nat) : List Nat → List HT → List Nat → List HT × List Nat
  | [], h, q => (h, q)
  | l :: ls, h, q =>
    let h' := h.set (2 * l) (hashForLeaf t filtered l)
    leafLoop t filtered n ls h' (pushParent q (2 * l) n)

/-- the `while let Some(n) = node_queue.pop_front()` loop (FIFO, duplicates included).  `fuel`
bounds the number of iterations; `treeHashWith` supplies enough (theorem `parentLoop_correct`).
Reads `hashes[left]`, `hashes[right]` are in range (the queue only ever holds parents inside the
resized array, part of `QInv` in the proofs); `getD` makes the function total. -/
def parentLoop (t : Tree) (filtered : List Nat) (n : Nat) : Nat → List HT → List Nat → List HT
  | 0, h, _ => h
  | _ + 1, h, [] => h
  | fuel + 1, h, x :: q =>
    match left? x, right? x with
    | some l, some r =>
      let h' := h.set x (hashForParent (parentAt t x) filtered (h.getD l .dflt) (h.getD r .dflt))
      parentLoop t filtered n fuel h' (pushParent q x n)
    | _, _ => h                 -- `left_unchecked` of a leaf underflows; unreachable

/-- the free function `tree_hash(hashes, nodes, leaves_to_update, filtered_leaves, num_leaves)`,
parametric in the resize function (`resize` = the code, `resizeGrowOnly` = the seeded bug) -/
def treeHashWith (rs : List HT → Nat → List HT) (hashes : List HT) (t : Tree)
    (leavesToUpdate : Option (List Nat)) (filtered : List Nat) (n : Nat) : List HT :=
  let ls := leavesToUpdate.getD (List.range n)
  let h0 := rs hashes (2 * n - 1)
  let hq := leafLoop t filtered n (ls.filter (· < n)) h0 []
  parentLoop t filtered n (hq.2.length * (level (root n) + 1)) hq.1 hq.2

def treeHashImpl := treeHashWith resize

/-- `(0..num_leaves).rev().map_while(|l| current.get(2*l).is_none().then_some(l))` -/
def scanMissing (c : List HT) (n : Nat) : List Nat :=
  (List.range n).reverse.takeWhile fun l => decide (c.length ≤ 2 * l)

/-- `TreeKemPublic::update_hashes(updated_leaves)` -/
def updateHashesWith (rs : List HT → Nat → List HT) (c : List HT) (t : Tree) (updated : List Nat) : List HT :=
  let n := leafCount t
  treeHashWith rs c t (some (updated ++ scanMissing c n)) [] n

def updateHashes := updateHashesWith resize

/-- `initialize_hashes`: a full computation, only when the cache is empty -/
def initializeHashes (c : List HT) (t : Tree) : List HT :=
  if c.isEmpty then treeHashImpl c t none [] (leafCount t) else c

/-- `TreeKemPublic::tree_hash`: the new cache and `current[root]` (what the group context carries) -/
def treeHash (c : List HT) (t : Tree) : List HT × HT :=
  let c' := initializeHashes c t
  (c', c'.getD (root (leafCount t)) .dflt)

/-- the cache has one entry per node of the full tree of `leafCount t` leaves, and every entry is
the from-scratch tree hash of that node -/
def Coherent (t : Tree) (c : List HT) : Prop :=
  c.length = 2 * leafCount t - 1 ∧
  ∀ x, x < 2 * leafCount t - 1 → c[x]? = some (treeHashSpec t [] x)

instance (t : Tree) (c : List HT) : Decidable (Coherent t c) := by unfold Coherent; infer_instance

/-- all from-scratch hashes, node `0 .. 2n-2` -/
def specAll (t : Tree) (filtered : List Nat) : List HT :=
  (List.range (2 * leafCount t - 1)).map (treeHashSpec t filtered)

/-- canonical numbering of a list by first appearance: equal entries get equal numbers -/
def canonAux : List HT → List HT → List Nat → List Nat
  | [], _, acc => acc.reverse
  | h :: hs, seen, acc =>
    match seen.findIdx? (· == h) with
    | some i => canonAux hs seen (i :: acc)
    | none => canonAux hs (seen ++ [h]) (seen.length :: acc)

def canon (hs : List HT) : List Nat := canonAux hs [] []

end MlsVerif.TreeHash
