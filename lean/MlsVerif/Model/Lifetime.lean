/-
Model of the key-package lifetime check (`tree_kem/lifetime.rs` `within_lifetime`, used by
`LeafNodeValidator::check_if_valid` for `ValidationContext::Add(Some(time))`): a leaf of a key package is
acceptable at time `t` iff `not_before ≤ t ≤ not_after`; without a clock (`None`) the lifetime is not judged.
The committer always has a clock (`commit_time` or, under `std`, the current time); a receiver has one only
through `process_incoming_message_with_time`.

Import-free (linked into the native driver).
-/
namespace MlsVerif.Lifetime

structure Window where
  notBefore : Nat
  notAfter : Nat
  deriving DecidableEq, Repr

/-- `Lifetime::within_lifetime` -/
def within (w : Window) (t : Nat) : Bool := w.notBefore ≤ t && t ≤ w.notAfter

/-- the Add-context lifetime verdict of the leaf validator: no clock, no verdict -/
def addOk (w : Window) (clock : Option Nat) : Bool :=
  match clock with
  | none => true
  | some t => within w t

end MlsVerif.Lifetime
