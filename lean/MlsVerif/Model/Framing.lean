/-
Symbolic model of message authentication in `mls-rs/src/group/framing.rs`, `message_signature.rs`
(`AuthenticatedContentTBS`, `AuthenticatedContent::verify`), `membership_tag.rs`
(`AuthenticatedContentTBM`, `MembershipTag::create`), `message_verifier.rs`
(`verify_plaintext_authentication`) and `ciphertext_processor.rs` (`PrivateContentAAD`), at the level
of *which fields are bound by which authenticator*.

A message is an assignment of values to field codes (`Msg := Nat → Nat`; the codes are those of the
generated `Gen/Framing.lean`).  What is signed / MACed / used as associated data is the list of the
values of a list of fields (`tbsVal`), i.e. an injective encoding (C12) of those fields.  Signature,
MAC and AEAD are *free* function symbols (`Sig.Free`, …): equal outputs only for equal key and equal
input — the symbolic rendering of unforgeability plus collision freedom.  Keys are stamps: the signing
key and its verification key carry the same number, as in `Model/Tree.lean`.

The second half is a Dolev–Yao term algebra (`T`, `Derivable`): what an attacker who sees a set of
terms can produce.

The field lists are parameters here (`Layout`); `Proofs/Framing.lean` instantiates them with the
lists generated from the Rust source.  Import-free.
-/
namespace MlsVerif.Framing

/-! ### Messages as field assignments -/

/-- field code ↦ value -/
abbrev Msg := Nat → Nat

/-- the encoded to-be-signed / to-be-MACed / associated data: the values of `fields`, in order -/
def tbsVal (fields : List Nat) (m : Msg) : List Nat := fields.map m

/-- `m` with field `f` set to `v` -/
def Msg.set (m : Msg) (f v : Nat) : Msg := fun g => if g = f then v else m g

/-- expand one composite field into its components (`content : FramedContent` inside
`AuthenticatedContentTBS`) -/
def expandField (f : Nat) (sub : List Nat) (fields : List Nat) : List Nat :=
  fields.flatMap fun g => if g = f then sub else [g]

/-! ### Free (symbolic) signature, MAC, AEAD -/

structure Sig where
  sign : Nat → List Nat → Nat            -- key stamp, encoded TBS ↦ signature

/-- free constructor: unforgeable (a signature determines its key) and collision-free -/
def Sig.Free (s : Sig) : Prop := ∀ k k' t t', s.sign k t = s.sign k' t' → k = k' ∧ t = t'

structure Mac where
  mac : Nat → List Nat → Nat             -- key, data ↦ tag

def Mac.Free (h : Mac) : Prop := ∀ k k' t t', h.mac k t = h.mac k' t' → k = k' ∧ t = t'

structure Aead where
  encrypt : Nat → Nat → List Nat → Nat → Nat   -- key, nonce, associated data, plaintext ↦ ciphertext

def Aead.Free (a : Aead) : Prop := ∀ k k' n n' d d' p p',
  a.encrypt k n d p = a.encrypt k' n' d' p' → k = k' ∧ n = n' ∧ d = d' ∧ p = p'

/-! ### `PublicMessage` verification -/

/-- which fields are signed and MACed, and where the authenticators sit -/
structure Layout where
  signed : List Nat          -- `AuthenticatedContentTBS`, `FramedContent` expanded
  auth : List Nat            -- `FramedContentAuthData`
  fContext : Nat             -- the `GroupContext` slot of the TBS
  fSignature : Nat
  fMembershipTag : Nat

/-- what the sender does: sign the TBS built with the sender's own `GroupContext` value `ctx`, then
MAC TBS ‖ auth (which contains the signature just made) with the membership key.  `m` supplies
the remaining fields; its own `fContext`, `fSignature`, `fMembershipTag` values are overwritten. -/
def signPublic (L : Layout) (s : Sig) (h : Mac) (key mkey ctx : Nat) (m : Msg) : Msg :=
  let m1 := m.set L.fContext ctx
  let m2 := m1.set L.fSignature (s.sign key (tbsVal L.signed m1))
  m2.set L.fMembershipTag (h.mac mkey (tbsVal L.signed m2 ++ tbsVal L.auth m2))

/-- what a receiver does with a `PublicMessage` from a member: the `GroupContext` is not on the
wire — the receiver puts its *own* value `ctx` (group id, epoch, tree hash, confirmed transcript
hash, extensions) into the TBS — then checks the signature under the sender's key `key` (looked up
in its own tree at the claimed sender index) and the membership tag under its own membership key.
(`protocol_version` in the TBS is likewise taken from the receiver's `GroupContext`; think of it as
part of `ctx`.  Senders that are not members — external, new-member proposal — sign without a
context and carry no membership tag; they are not modelled here.) -/
def verifyPublic (L : Layout) (s : Sig) (h : Mac) (key mkey ctx : Nat) (m : Msg) : Bool :=
  let m' := m.set L.fContext ctx
  m L.fSignature == s.sign key (tbsVal L.signed m') &&
  m L.fMembershipTag == h.mac mkey (tbsVal L.signed m' ++ tbsVal L.auth m)

/-! ### `PrivateMessage` content decryption -/

/-- the receiver opens the content ciphertext `c` with (key, nonce) from its secret tree and the
associated data built from the clear fields of the message it received -/
def opensTo (a : Aead) (aad : List Nat) (key nonce : Nat) (m : Msg) (c plaintext : Nat) : Prop :=
  c = a.encrypt key nonce (tbsVal aad m) plaintext

/-! ### the un-filtering loop of `validate_update_path` (`tree_kem/update_path.rs`) -/

/-- `for n in path.nodes { while *filtered.get(i).ok_or(WrongPathLen)? { push(None); i += 1 };
push(Some(n)); i += 1 }; if filtered.iter().skip(i).any(|f| !*f) { return Err(WrongPathLen) }` —
`none` is `WrongPathLen`.  After the last node, every remaining position must be filtered out (else
the path is too short).  The result list ENDS at the last announced node: no trailing `none`s are
pushed for the remaining (filtered) positions. -/
def unfilter : List Bool → List Nat → Option (List (Option Nat))
  | fs, [] => if fs.all id then some [] else none
  | [], _ :: _ => none
  | true :: fs, n :: ns => (unfilter fs (n :: ns)).map (none :: ·)
  | false :: fs, n :: ns => (unfilter fs ns).map (some n :: ·)

/-! ### Dolev–Yao terms -/

inductive T
  | atom (n : Nat)
  | key (k : Nat)
  | pair (a b : T)
  | sig (k : Nat) (t : T)
  | mac (k : Nat) (t : T)
  deriving DecidableEq, Repr

/-- all subterms (the key of a signature or MAC is an index, not a subterm: a signature does not
reveal its key) -/
def T.subterms : T → List T
  | .atom n => [.atom n]
  | .key k => [.key k]
  | .pair a b => .pair a b :: (a.subterms ++ b.subterms)
  | .sig k t => .sig k t :: t.subterms
  | .mac k t => .mac k t :: t.subterms

def Subterm (x y : T) : Prop := x ∈ y.subterms

instance (x y : T) : Decidable (Subterm x y) := by unfold Subterm; infer_instance

/-- What an attacker who knows the terms `K` (everything sent so far, plus compromised keys) can
produce: anything known; any public data; pairs and projections; the message of a signature or MAC
(they do not hide it); a signature or MAC on a derivable message — but only under a derivable key. -/
inductive Derivable (K : List T) : T → Prop
  | known {t : T} : t ∈ K → Derivable K t
  | atom (n : Nat) : Derivable K (.atom n)
  | pair {a b : T} : Derivable K a → Derivable K b → Derivable K (.pair a b)
  | fst {a b : T} : Derivable K (.pair a b) → Derivable K a
  | snd {a b : T} : Derivable K (.pair a b) → Derivable K b
  | sigMsg {k : Nat} {t : T} : Derivable K (.sig k t) → Derivable K t
  | macMsg {k : Nat} {t : T} : Derivable K (.mac k t) → Derivable K t
  | sign {k : Nat} {t : T} : Derivable K (.key k) → Derivable K t → Derivable K (.sig k t)
  | mac {k : Nat} {t : T} : Derivable K (.key k) → Derivable K t → Derivable K (.mac k t)

end MlsVerif.Framing
