/-
Lower-case hexadecimal encoding / decoding of `ByteArray`.

Import-free on purpose: this file is linked into the native driver `mlsmodel`.
-/
namespace MlsVerif.Hex

/-- lower-case hex digit of a nibble (`n < 16`) -/
@[inline] def nibbleChar (n : UInt8) : Char :=
  if n < 10 then Char.ofNat (48 + n.toNat) else Char.ofNat (87 + n.toNat)

def toHexAux (b : ByteArray) : (fuel i : Nat) → String → String
  | 0, _, acc => acc
  | n + 1, i, acc =>
    let x := b.get! i
    toHexAux b n (i + 1) ((acc.push (nibbleChar (x >>> 4))).push (nibbleChar (x &&& 0x0f)))

/-- two lower-case hex digits per byte -/
def toHex (b : ByteArray) : String :=
  toHexAux b b.size 0 ""

/-- value of an ASCII hex digit (either case); `none` for any other byte -/
@[inline] def nibble? (c : UInt8) : Option UInt8 :=
  if 48 ≤ c && c ≤ 57 then some (c - 48)          -- '0'..'9'
  else if 97 ≤ c && c ≤ 102 then some (c - 87)    -- 'a'..'f'
  else if 65 ≤ c && c ≤ 70 then some (c - 55)     -- 'A'..'F'
  else none

/-- decodes the byte pairs of the UTF-8 string `s` starting at byte `i` -/
def ofHexAux (s : ByteArray) : (fuel i : Nat) → ByteArray → Option ByteArray
  | 0, _, acc => some acc
  | n + 1, i, acc =>
    match nibble? (s.get! i), nibble? (s.get! (i + 1)) with
    | some hi, some lo => ofHexAux s n (i + 2) (acc.push (hi <<< 4 ||| lo))
    | _, _ => none

/-- Inverse of `toHex` (also accepts upper-case digits).  `none` on odd length or on any character
that is not a hex digit (in particular on any non-ASCII character, whose UTF-8 bytes are all
`≥ 0x80`); the empty string decodes to the empty array. -/
def ofHex? (s : String) : Option ByteArray :=
  let u := s.toUTF8
  if u.size % 2 != 0 then none
  else ofHexAux u (u.size / 2) 0 (ByteArray.emptyWithCapacity (u.size / 2))

end MlsVerif.Hex
