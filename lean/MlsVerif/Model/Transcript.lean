/-
Transcript hashes (RFC 9420 §8.2) and membership tag (§6.1, §6.2) recomputed from the BYTES of a real `MlsMessage`.

Source map (paths relative to `/repo/mls-rs/src/group`):

* `transcript_hash.rs:24-53`  `create` → `confirmedTranscriptHashInput`, `confirmedHash`
    `ConfirmedTranscriptHashInput { wire_format: WireFormat, content: &FramedContent, signature: &MessageSignature }`
    derives `MlsEncode` (`:30-35`): the fields in declaration order, `WireFormat` a `u16` discriminant
    (`framing.rs:656-665`), `FramedContent` its derive layout (`framing.rs:667-680`), `MessageSignature` a
    `byte_vec` newtype, i.e. `signature<V>` (`message_signature.rs:239-246`);
    hash input `interim_transcript_hash ‖ input` WITHOUT any length prefix on the interim hash (`:43-47`: `deref()` of
    the newtype, not its encoding).
* `transcript_hash.rs:86-105` `InterimTranscriptHash::create` → `interimTranscriptHashInput`, `interimHash`
    `InterimTranscriptHashInput { confirmation_tag: &ConfirmationTag }` derives `MlsEncode` (`:93-96`):
    `confirmation_tag<V>` (`confirmation_tag.rs:16-23`, `byte_vec` newtype); hash input `confirmed ‖ input` (`:101`).
* `util.rs:169-196` `transcript_hashes` → `transcriptHashesWith`: confirmed first, then the interim hash from the
    commit's confirmation tag (`InvalidConfirmationTag` when absent, `:181-185`).
* `message_signature.rs:154-205` `AuthenticatedContentTBS` → `authenticatedContentTBS`
    hand-written encoder (`:171-183`): `protocol_version (u16) ‖ wire_format (u16) ‖ FramedContent ‖ GroupContext`,
    the context written without presence byte and only for `Sender::Member | Sender::NewMemberCommit` (`:196-202`).
    The protocol version is the one of the GROUP CONTEXT (`membership_tag.rs:32-36`, `message_signature.rs:126-129`),
    not the `version` field of the enclosing `MlsMessage`.
* `message_signature.rs:24-49` `FramedContentAuthData` → `framedContentAuthData`
    hand-written encoder (`:39-49`): `signature<V>`, then `confirmation_tag<V>` iff present (no presence byte); the
    decoder reads a tag iff the content is a commit (`:52-66`).
* `membership_tag.rs:20-40` `AuthenticatedContentTBM { content_tbs, auth }` (derive, `:20-24`) →
    `authenticatedContentTBM` = TBS ‖ auth data; `:76-95` `MembershipTag::create` → `membershipTag` =
    `mac(membership_key, TBM)`, HMAC with the suite's hash.
* `framing.rs:178-194` `PublicMessage::mls_decode`, `:395-401` `MlsMessage`, `:633-644` `MlsMessagePayload` →
    `parsePublic` through the GENERATED codec `Gen.Codecs.C_MlsMessage`.

Byte spans.  mls-rs never hashes bytes off the wire: it decodes the message into structs and hashes / MACs the
RE-ENCODING of the sub-structs (`input.mls_encode_to_vec()`, `plaintext_tbm.mls_encode_to_vec()`).  `parsePublic` does
literally the same: decode with `C_MlsMessage`, re-encode the framed content with `C_FramedContent.enc`, take
signature / tags from the decoded value.  That this re-encoding IS the span of the original message:

* for a message that was produced by the encoder (`msg = enc V ++ rest`, `V` well formed — every message an mls-rs
  sender emits) `Props.C12GenCodecs.generated_roundtrip` at `("MlsMessage", C_MlsMessage)` (field `rt` of
  `Lawful C_MlsMessage`, from `codecTable_lawful`) gives `C_MlsMessage.dec msg = ok (V, rest)`, and the encoders of
  `seq` / `dep` / `tagged` are concatenations of the component encoders, so `C_FramedContent.enc fc` is by definition
  the sub-span of `enc V` (`Props.C13Transcript.parsePublic_encoded` states this for the whole extraction;
  `Gen.Codecs.tie_framedContent` identifies `C_FramedContent` with the framed-content component of the
  `PublicMessage` hand model);
* for arbitrary input bytes, field `dwf` of the same `Lawful` bundle gives that the decoded value is well formed and
  the consumed bytes are a prefix; `MlsMessage` is a WIRE type (`Props.C12GenCodecs.wire_flags`: no `bool`, no map),
  the class for which the decoder accepts only the canonical byte string of a value.  Independently of that, the
  re-encoding is what the implementation feeds to the hash.

`Bytes = List UInt8` as in the codec model; SHA-2 / HMAC of `Model/{Sha2,Hmac}.lean` work on `ByteArray`, converted
at the boundary (`hashB`, `hmacB`).  All formulas are stated over an abstract `hash : Bytes → Bytes` (`…With`) and
instantiated with the suite's hash.

Imports only Model/ and Gen/ files (core Lean; linked into `mlsmodel`).
-/
import MlsVerif.Model.Sha2
import MlsVerif.Model.Hmac
import MlsVerif.Model.CodecCustom
import MlsVerif.Gen.Codecs

namespace MlsVerif.Transcript
open MlsVerif.Codec MlsVerif.Gen.Codecs

/-! ## Primitives on `Bytes` -/

def toBA (b : Bytes) : ByteArray := ByteArray.mk b.toArray
def ofBA (b : ByteArray) : Bytes := b.toList

/-- `CipherSuiteProvider::hash` -/
def hashB (alg : Sha2.HashAlg) (b : Bytes) : Bytes := ofBA (Sha2.hash alg (toBA b))
/-- `CipherSuiteProvider::mac` (HMAC with the suite's hash) -/
def hmacB (alg : Sha2.HashAlg) (key msg : Bytes) : Bytes := ofBA (Hmac.hmac alg (toBA key) (toBA msg))

/-- `opaque x<V>`: `mls_rs_codec::byte_vec` — QUIC varint length, then the bytes.  Total version of
`encodeLenPrefixed` (they agree up to `VarInt::MAX = 2^30 - 1`, `Props.C13Transcript.varBytes_enc`; a longer vector
makes the Rust encoder fail, and cannot come out of a decoder). -/
def varBytes (b : Bytes) : Bytes := encodeVarint b.length ++ b

/-- a `u16` (`WireFormat`, `ProtocolVersion`) -/
def u16 (n : Nat) : Bytes := toBE 2 n

/-- `WireFormat::PublicMessage = 1u16` (`framing.rs:660`) -/
def wirePublic : Bytes := u16 1

/-! ## Transcript hashes (RFC 9420 §8.2) -/

/-- `ConfirmedTranscriptHashInput` (`transcript_hash.rs:30-41`): `wire_format ‖ FramedContent ‖ signature<V>`.
`wireFormat` is the 2-byte discriminant, `framedContent` the encoded `FramedContent`, `signature` the RAW signature. -/
def confirmedTranscriptHashInput (wireFormat framedContent signature : Bytes) : Bytes :=
  wireFormat ++ framedContent ++ varBytes signature

/-- `InterimTranscriptHashInput` (`transcript_hash.rs:93-98`): `confirmation_tag<V>` -/
def interimTranscriptHashInput (confirmationTag : Bytes) : Bytes := varBytes confirmationTag

/-- `confirmed_transcript_hash[n] = Hash(interim_transcript_hash[n-1] ‖ ConfirmedTranscriptHashInput[n])` -/
def confirmedHashWith (hash : Bytes → Bytes) (interimPrev input : Bytes) : Bytes := hash (interimPrev ++ input)

/-- `interim_transcript_hash[n] = Hash(confirmed_transcript_hash[n] ‖ InterimTranscriptHashInput[n])` -/
def interimHashWith (hash : Bytes → Bytes) (confirmed confirmationTag : Bytes) : Bytes :=
  hash (confirmed ++ interimTranscriptHashInput confirmationTag)

def confirmedHash (alg : Sha2.HashAlg) (interimPrev input : Bytes) : Bytes :=
  confirmedHashWith (hashB alg) interimPrev input

def interimHash (alg : Sha2.HashAlg) (confirmed confirmationTag : Bytes) : Bytes :=
  interimHashWith (hashB alg) confirmed confirmationTag

/-! ## Membership tag (RFC 9420 §6.1, §6.2) -/

/-- `AuthenticatedContentTBS` = RFC `FramedContentTBS` (`message_signature.rs:171-183`):
`version ‖ wire_format ‖ FramedContent ‖ [GroupContext]`; all four are already-encoded spans, nothing is
length-prefixed at this level. -/
def authenticatedContentTBS (version wireFormat framedContent : Bytes) (groupContext : Option Bytes) : Bytes :=
  version ++ wireFormat ++ framedContent ++ groupContext.getD []

/-- `FramedContentAuthData` (`message_signature.rs:39-49`): `signature<V> ‖ [confirmation_tag<V>]` (raw arguments) -/
def framedContentAuthData (signature : Bytes) (confirmationTag : Option Bytes) : Bytes :=
  varBytes signature ++ (match confirmationTag with | none => [] | some t => varBytes t)

/-- `AuthenticatedContentTBM` (`membership_tag.rs:20-24`) -/
def authenticatedContentTBM (tbs authData : Bytes) : Bytes := tbs ++ authData

/-- `membership_tag = MAC(membership_key, AuthenticatedContentTBM)` (`membership_tag.rs:76-95`) -/
def membershipTagWith (mac : Bytes → Bytes → Bytes) (membershipKey tbm : Bytes) : Bytes := mac membershipKey tbm

def membershipTag (alg : Sha2.HashAlg) (membershipKey tbm : Bytes) : Bytes :=
  membershipTagWith (hmacB alg) membershipKey tbm

/-! ## Extraction from a decoded `MlsMessage`

Value shapes (`Model/CodecCustom.lean`):
`MlsMessage`    = `tuple [tuple [nat version], variant wire (some payload)]`,
`PublicMessage` = `tuple [fc, tuple [tuple [tuple [bytes signature], tag?], membership_tag?]]`,
`tag?`          = `none | some (tuple [bytes t])`,
`FramedContent` = `tuple [bytes group_id, nat epoch, sender, bytes authenticated_data, variant content_type …]`. -/

/-- payload of a one-field byte-string newtype (`MessageSignature`, `ConfirmationTag`, `MembershipTag`) -/
def newtypeBytes : Value → Option Bytes
  | .tuple [.bytes b] => some b
  | _ => none

/-- an `Option<newtype>` field as decoded by `optIf` -/
def optNewtypeBytes : Value → Option (Option Bytes)
  | .none => some none
  | .some v => (newtypeBytes v).map some
  | _ => none

/-- What the two computations need from a public message. -/
structure PublicParts where
  /-- `MlsMessage.version` (NOT used by the TBS, see above) -/
  version : Nat
  /-- the decoded `FramedContent` -/
  content : Value
  /-- `content.mls_encode_to_vec()` -/
  framedContent : Bytes
  signature : Bytes
  confirmationTag : Option Bytes
  membershipTag : Option Bytes

def PublicParts.isCommit (p : PublicParts) : Bool := fcIsCommit p.content
def PublicParts.senderIsMember (p : PublicParts) : Bool := fcSenderIsMember p.content

/-- `matches!(content.sender, Sender::NewMemberCommit)` -/
def fcSenderIsNewMemberCommit : Value → Bool
  | .tuple [_, _, .variant 4 _, _, _] => true
  | _ => false

/-- `Sender::Member(_) | Sender::NewMemberCommit` (`message_signature.rs:196-197`): the senders whose TBS contains
the group context -/
def fcSenderInGroup (fc : Value) : Bool := fcSenderIsMember fc || fcSenderIsNewMemberCommit fc

/-- the parts of a decoded `PublicMessage` value -/
def partsOfPublic (version : Nat) : Value → Except String PublicParts
  | .tuple [fc, .tuple [.tuple [sigV, ctV], mtV]] =>
    match newtypeBytes sigV, optNewtypeBytes ctV, optNewtypeBytes mtV with
    | some sig, some ct, some mt =>
      match C_FramedContent.enc fc with
      | .ok fcb =>
        .ok { version := version, content := fc, framedContent := fcb, signature := sig,
              confirmationTag := ct, membershipTag := mt }
      | .error _ => .error "reencode"
    | _, _, _ => .error "shape"
  | _ => .error "shape"

/-- the parts of a decoded `MlsMessage` value; anything but `MlsMessagePayload::Plain` (wire format 1) is refused -/
def partsOfMessage : Value → Except String PublicParts
  | .tuple [.tuple [.nat ver], .variant wire (some payload)] =>
    if wire = 1 then partsOfPublic ver payload else .error "not-public"
  | _ => .error "shape"

/-- `MlsMessage::from_bytes` (`framing.rs:512-514`: `mls_decode(&mut &*bytes)`, bytes left over are NOT an error)
followed by the extraction. -/
def parsePublic (msg : Bytes) : Except String PublicParts :=
  match C_MlsMessage.dec msg with
  | .error _ => .error "decode"
  | .ok (v, _) => partsOfMessage v

/-! ## The two queries -/

/-- `ConfirmedTranscriptHashInput` of a public message (`AuthenticatedContent::from(PublicMessage)` sets
`wire_format = PublicMessage`, `message_signature.rs:77-85`) -/
def PublicParts.confirmedInput (p : PublicParts) : Bytes :=
  confirmedTranscriptHashInput wirePublic p.framedContent p.signature

/-- `transcript_hashes` (`util.rs:169-196`) on the extracted spans: `(confirmed, interim_after)` -/
def hashesOfParts (hash : Bytes → Bytes) (interimPrev : Bytes) (p : PublicParts) :
    Except String (Bytes × Bytes) :=
  if p.isCommit then
    match p.confirmationTag with
    | some tag =>
      let confirmed := confirmedHashWith hash interimPrev p.confirmedInput
      .ok (confirmed, interimHashWith hash confirmed tag)
    | none => .error "no-confirmation-tag"
  else .error "not-commit"

/-- query `th`: both transcript hashes of a public-message commit given as bytes -/
def transcriptHashesWith (hash : Bytes → Bytes) (interimPrev msg : Bytes) : Except String (Bytes × Bytes) :=
  match parsePublic msg with
  | .error e => .error e
  | .ok p => hashesOfParts hash interimPrev p

def transcriptHashes (alg : Sha2.HashAlg) (interimPrev msg : Bytes) : Except String (Bytes × Bytes) :=
  transcriptHashesWith (hashB alg) interimPrev msg

/-- A group context given as bytes: decoded with `C_GroupContext` (everything must be consumed) and re-encoded, as
the implementation encodes its `GroupContext` struct; returns `(protocol_version, encoding)`. -/
def parseContext (ctx : Bytes) : Except String (Nat × Bytes) :=
  match C_GroupContext.dec ctx with
  | .error _ => .error "context-decode"
  | .ok (v, rest) =>
    if rest.isEmpty then
      match v, C_GroupContext.enc v with
      | .tuple (.tuple [.nat ver] :: _), .ok b => .ok (ver, b)
      | _, _ => .error "context-shape"
    else .error "context-trailing"

/-- `AuthenticatedContentTBM::from_authenticated_content(auth_content, group_context)` encoded
(`membership_tag.rs:27-40`): version of the CONTEXT, wire format `PublicMessage`, context iff the sender is a member
or a new-member commit. -/
def PublicParts.tbm (p : PublicParts) (ctxVersion : Nat) (ctx : Bytes) : Bytes :=
  authenticatedContentTBM
    (authenticatedContentTBS (u16 ctxVersion) wirePublic p.framedContent
      (if fcSenderInGroup p.content then some ctx else none))
    (framedContentAuthData p.signature p.confirmationTag)

inductive TagVerdict where
  | ok
  | bad (expected : Bytes)
  deriving Repr

/-- the membership-tag branch of `verify_plaintext_authentication` (`message_verifier.rs:47-63`) on extracted spans -/
def tagOfParts (mac : Bytes → Bytes → Bytes) (membershipKey : Bytes) (ctxVersion : Nat) (ctx : Bytes)
    (p : PublicParts) : Except String TagVerdict :=
  if p.senderIsMember then
    match p.membershipTag with
    | some tag =>
      let expected := membershipTagWith mac membershipKey (p.tbm ctxVersion ctx)
      if expected == tag then .ok .ok else .ok (.bad expected)
    | none => .error "no-membership-tag"
  else .error "not-member"

/-- query `mtag` -/
def checkMembershipTagWith (mac : Bytes → Bytes → Bytes) (membershipKey ctx msg : Bytes) :
    Except String TagVerdict :=
  match parsePublic msg with
  | .error e => .error e
  | .ok p =>
    match parseContext ctx with
    | .error e => .error e
    | .ok (ver, ctxb) => tagOfParts mac membershipKey ver ctxb p

def checkMembershipTag (alg : Sha2.HashAlg) (membershipKey ctx msg : Bytes) : Except String TagVerdict :=
  checkMembershipTagWith (hmacB alg) membershipKey ctx msg

/-! ## Building a sample (self-test; the encoder side of the same codecs) -/

/-- `FramedContent` value of a commit without proposals and without path -/
def sampleContent (groupId : Bytes) (epoch : Nat) (sender : Value) (authData : Bytes) : Value :=
  .tuple [.bytes groupId, .nat epoch, sender, .bytes authData,
          .variant 3 (some (.tuple [.list [], .none]))]

/-- `MlsMessage { version, payload: Plain(PublicMessage { content, auth: { signature, confirmation_tag }, membership_tag }) }` -/
def publicMessageValue (version : Nat) (fc : Value) (signature : Bytes) (confirmationTag membershipTag : Option Bytes) :
    Value :=
  let o : Option Bytes → Value := fun x => match x with | none => .none | some t => .some (.tuple [.bytes t])
  .tuple [.tuple [.nat version],
          .variant 1 (some (.tuple [fc, .tuple [.tuple [.tuple [.bytes signature], o confirmationTag],
                                                 o membershipTag]]))]

/-- a member's public message with the membership tag computed by `membershipTag` itself -/
def signedSample (alg : Sha2.HashAlg) (membershipKey ctx : Bytes) (fc : Value) (signature : Bytes)
    (confirmationTag : Option Bytes) : Except String Bytes :=
  match C_FramedContent.enc fc, parseContext ctx with
  | .ok fcb, .ok (ver, ctxb) =>
    let p : PublicParts := { version := 1, content := fc, framedContent := fcb, signature := signature,
                             confirmationTag := confirmationTag, membershipTag := none }
    let tag := membershipTag alg membershipKey (p.tbm ver ctxb)
    match C_MlsMessage.enc (publicMessageValue 1 fc signature confirmationTag (some tag)) with
    | .ok b => .ok b
    | .error _ => .error "encode"
  | _, _ => .error "encode-parts"

end MlsVerif.Transcript
