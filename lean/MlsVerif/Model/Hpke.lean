/-
HPKE (RFC 9180) exactly as the crate `mls-rs-crypto-hpke` implements it: `hpke.rs` (`Hpke`),
`kdf.rs` (`HpkeKdf`), `context.rs` (`Context`, `EncryptionContext`) and `dhkem.rs` (`DhKem`).

Everything is a function of records of abstract primitives (what the provider crates
`mls-rs-crypto-{openssl,rustcrypto,awslc}` plug in through the traits `KdfType`, `AeadType`,
`KemType`, `DhType` of `mls-rs-crypto-traits`).  A primitive returning `none` is the provider
returning `Err(_)`.

Import-free: this file is linked into the native driver.

Correspondence with the Rust objects
* `Hpke<KEM,KDF,AEAD>`            = `Hpke B R` (`aead = none` is the export-only construction,
                                     `Hpke::new(.., None)`, AEAD id `0xFFFF`)
* `HpkeKdf { suite_id, kdf }`     = the pair of arguments `(sid, K)` of `labeledExtract/Expand`
* `Context { exporter_secret, encryption_context, kdf }` = `Context B`; the `kdf` (and the `aead` in
  `EncryptionContext`) are clones of the ones in `Hpke`, so the model passes `H` to `seal`/`open`/
  `export` instead of storing copies.  A context therefore is pure data and contexts made by two
  different providers can be compared.
* `&mut self` methods return the new state next to the result.  On every error path of
  `EncryptionContext::{seal,open}` the Rust object is left unchanged (the only mutation is the last
  statement of `increment_seq`), hence an `Except` without state is faithful.

`kem_combiner.rs` (+ `kem_combiner/{xwing,ghp,prgs,byte_vec_codecs}.rs`) is NOT modelled: its only
user is `mls-rs-crypto-awslc` under `feature = "post-quantum"` for the private-use suite
`ML_KEM_768_X25519` (65100) (`mls-rs-crypto-awslc/src/lib.rs:75,352`).  None of the MLS suites 1..7
of any shipped provider goes through it: they all use `Hpke<DhKem<Ecdh, Hkdf>, Hkdf, Aead>`
(`openssl/src/lib.rs:114`, `rustcrypto/src/lib.rs:150`, `awslc/src/lib.rs:377`).
-/
namespace MlsVerif.Hpke

/-! ### Byte strings -/

/-- What the construction needs from byte strings.  `bytes`/`ofBytes` give the byte view used by
the two places where `mls-rs-crypto-hpke` itself touches individual bytes (`compute_nonce`,
`secret_key[0] &= bitmask`) and by constants. -/
structure ByteOps (B : Type) where
  cat : B → B → B
  size : B → Nat
  bytes : B → List UInt8
  ofBytes : List UInt8 → B

/-- laws used only by the theorems that talk about individual bytes -/
structure ByteOps.Lawful {B : Type} (O : ByteOps B) : Prop where
  bytes_ofBytes : ∀ l, O.bytes (O.ofBytes l) = l
  ofBytes_bytes : ∀ b, O.ofBytes (O.bytes b) = b
  bytes_cat : ∀ a b, O.bytes (O.cat a b) = O.bytes a ++ O.bytes b
  size_eq : ∀ b, O.size b = (O.bytes b).length

namespace ByteOps
variable {B : Type} (O : ByteOps B)

def empty : B := O.ofBytes []
def ascii (s : String) : B := O.ofBytes s.toUTF8.data.toList
/-- `(n as u16).to_be_bytes()` -/
def u16be (n : Nat) : B := O.ofBytes [(n / 256 % 256).toUInt8, (n % 256).toUInt8]
/-- `&[i]` for `i : u8` -/
def u8 (n : Nat) : B := O.ofBytes [(n % 256).toUInt8]
/-- `[a, b, ..].concat()` -/
def concat : List B → B
  | [] => O.empty
  | [a] => a
  | a :: rest => O.cat a (concat rest)

end ByteOps

/-! ### Primitive records (the provider side of the traits) -/

/-- `KdfType` -/
structure Kdf (B : Type) where
  kdfId : Nat
  /-- `extract_size()` = Nh -/
  extractSize : Nat
  /-- `extract(salt, ikm)` -/
  extract : B → B → Option B
  /-- `expand(prk, info, len)` -/
  expand : B → B → Nat → Option B

/-- `AeadType`.  `aad` is the `Option<&[u8]>` of the trait, handed through untouched. -/
structure Aead (B : Type) where
  aeadId : Nat
  /-- `key_size()` = Nk -/
  keySize : Nat
  /-- `nonce_size()` = Nn -/
  nonceSize : Nat
  /-- `seal(key, data, aad, nonce)`; arguments here in the order key, nonce, aad, plaintext -/
  sealF : B → B → Option B → B → Option B
  /-- `open(key, ciphertext, aad, nonce)`; arguments here in the order key, nonce, aad, ciphertext -/
  openF : B → B → Option B → B → Option B

/-- `KemType`.  `R` is the randomness `encap` draws (for DHKEM: the outcome of `generate()`).
`encap pkR rnd = some (shared_secret, enc)`. -/
structure Kem (B R : Type) where
  kemId : Nat
  encap : B → R → Option (B × B)
  /-- `decap(enc, secret_key, local_public)` -/
  decap : B → B → B → Option B
  /-- `generate_deterministic(seed)` = `some (sk, pk)` -/
  generateDeterministic : B → Option (B × B)

/-- `Hpke<KEM, KDF, AEAD>` (`hpke.rs:70`); `aead = none` ⇔ export-only -/
structure Hpke (B R : Type) where
  ops : ByteOps B
  kem : Kem B R
  kdf : Kdf B
  aead : Option (Aead B)

/-- `HpkeError` (`hpke.rs:28`).  The payload of the three provider errors is opaque (`AnyError`). -/
inductive Err where
  | kemError
  | kdfError
  | aeadError
  | insufficientPskLength
  | incorrectNonceLen (got want : Nat)
  | incorrectKeyLen (got want : Nat)
  | exportOnlyMode
  | sequenceNumberOverflow
  deriving DecidableEq, Repr

def orErr {α : Type} (e : Err) : Option α → Except Err α
  | some a => .ok a
  | none => .error e

/-! ### `kdf.rs`: `HpkeKdf` -/

/-- `labeled_extract` (`kdf.rs:39`): `extract(salt, "HPKE-v1" ‖ suite_id ‖ label ‖ ikm)` -/
def labeledExtract {B : Type} (O : ByteOps B) (K : Kdf B) (sid salt : B) (label : String) (ikm : B) :
    Option B :=
  K.extract salt (O.concat [O.ascii "HPKE-v1", sid, O.ascii label, ikm])

/-- `labeled_expand` (`kdf.rs:55`): `expand(key, (len as u16) ‖ "HPKE-v1" ‖ suite_id ‖ label ‖ info,
len)`.  The cast `len as u16` truncates, the `len` handed to `expand` does not. -/
def labeledExpand {B : Type} (O : ByteOps B) (K : Kdf B) (sid key : B) (label : String) (info : B)
    (len : Nat) : Option B :=
  K.expand key (O.concat [O.u16be (len % 65536), O.ascii "HPKE-v1", sid, O.ascii label, info]) len

/-- `labeled_extract_then_expand` (`kdf.rs:74`) -/
def labeledExtractThenExpand {B : Type} (O : ByteOps B) (K : Kdf B) (sid ikm ctx : B) (len : Nat) :
    Option B :=
  match labeledExtract O K sid O.empty "eae_prk" ikm with
  | none => none
  | some eaePrk => labeledExpand O K sid eaePrk "shared_secret" ctx len

/-- `[b"KEM", kem_id.to_be_bytes()].concat()` (`hpke.rs:100`, `dhkem.rs:52`) -/
def kemSuite {B : Type} (O : ByteOps B) (kemId : Nat) : B :=
  O.concat [O.ascii "KEM", O.u16be (kemId % 65536)]

/-! ### `context.rs` -/

/-- `EncryptionContext` (`context.rs:145`) without its `aead` clone; `seq` is the `u64` -/
structure EncCtx (B : Type) where
  baseNonce : B
  seq : Nat
  key : B

/-- `Context` (`context.rs:19`) without its `kdf` clone -/
structure Context (B : Type) where
  exporterSecret : B
  enc : Option (EncCtx B)

/-- `nonce.iter_mut().rev().zip(seq.to_le_bytes()).for_each(|(n, s)| *n ^= s)` on the REVERSED
nonce: byte `i` of the reversed nonce gets `seq / 256^i % 256`, for the first `k` (= 8) bytes or
until the nonce ends. -/
def xorLE : List UInt8 → Nat → Nat → List UInt8
  | [], _, _ => []
  | l, _, 0 => l
  | b :: t, s, k + 1 => (b ^^^ (s % 256).toUInt8) :: xorLE t (s / 256) k

/-- `compute_nonce` on byte lists (`context.rs:187`): the last `min(len, 8)` bytes are XOR-ed with
the big-endian `u64` sequence number.  A nonce shorter than 8 bytes silently drops the high bytes
of `seq` (the `zip` stops); all shipped AEADs have `Nn = 12`. -/
def xorSeq (nonce : List UInt8) (seq : Nat) : List UInt8 :=
  (xorLE nonce.reverse seq 8).reverse

def computeNonce {B : Type} (O : ByteOps B) (baseNonce : B) (seq : Nat) : B :=
  O.ofBytes (xorSeq (O.bytes baseNonce) seq)

/-- `u64::MAX + 1` -/
def seqLimit : Nat := 2 ^ 64

/-- `increment_seq` (`context.rs:201`): `checked_add(1).ok_or(SequenceNumberOverflow)` -/
def incrementSeq {B : Type} (e : EncCtx B) : Except Err (EncCtx B) :=
  if e.seq + 1 < seqLimit then .ok { e with seq := e.seq + 1 } else .error .sequenceNumberOverflow

/-- `EncryptionContext::new` (`context.rs:166`) -/
def EncCtx.new {B : Type} (O : ByteOps B) (A : Aead B) (baseNonce key : B) : Except Err (EncCtx B) :=
  if O.size baseNonce ≠ A.nonceSize then .error (.incorrectNonceLen (O.size baseNonce) A.nonceSize)
  else if O.size key ≠ A.keySize then .error (.incorrectKeyLen (O.size key) A.keySize)
  else .ok { baseNonce := baseNonce, seq := 0, key := key }

/-- `EncryptionContext::seal` (`context.rs:212`): the AEAD runs first, then the counter is bumped;
when the bump overflows the ciphertext is dropped and the error returned. -/
def EncCtx.sealMsg {B : Type} (O : ByteOps B) (A : Aead B) (e : EncCtx B) (aad : Option B) (pt : B) :
    Except Err (B × EncCtx B) :=
  match A.sealF e.key (computeNonce O e.baseNonce e.seq) aad pt with
  | none => .error .aeadError
  | some ct =>
    match incrementSeq e with
    | .error err => .error err
    | .ok e' => .ok (ct, e')

/-- `EncryptionContext::open` (`context.rs:225`) -/
def EncCtx.openMsg {B : Type} (O : ByteOps B) (A : Aead B) (e : EncCtx B) (aad : Option B) (ct : B) :
    Except Err (B × EncCtx B) :=
  match A.openF e.key (computeNonce O e.baseNonce e.seq) aad ct with
  | none => .error .aeadError
  | some pt =>
    match incrementSeq e with
    | .error err => .error err
    | .ok e' => .ok (pt, e')

/-! ### `hpke.rs` -/

namespace Hpke
variable {B R : Type} (H : Hpke B R)

/-- `aead.map(aead_id).unwrap_or(AEAD_ID_EXPORT_ONLY)` (`hpke.rs:85`) -/
def aeadId : Nat :=
  match H.aead with
  | some a => a.aeadId
  | none => 0xFFFF

/-- `b"HPKE" ‖ kem_id ‖ kdf_id ‖ aead_id`, each id as `u16` big-endian (`hpke.rs:90`) -/
def suiteId : B :=
  H.ops.concat [H.ops.ascii "HPKE", H.ops.u16be (H.kem.kemId % 65536), H.ops.u16be (H.kdf.kdfId % 65536),
    H.ops.u16be (H.aeadId % 65536)]

/-- the suite id of `kem_kdf` (`hpke.rs:100`) -/
def kemSuiteId : B := kemSuite H.ops H.kem.kemId

end Hpke

/-- `HpkePsk { id, value }` (`mls-rs-core/src/crypto.rs:123`) -/
structure Psk (B : Type) where
  id : B
  value : B

/-- `check_psk` (`hpke.rs:310`): the ONLY rule is `value.len() ≥ 32` for a supplied psk.  The id is
never looked at (RFC 9180 §5.1 `VerifyPSKInputs` would also reject an empty id with a non-empty
psk and vice versa). -/
def checkPsk {B : Type} (O : ByteOps B) (psk : Option (Psk B)) : Except Err Unit :=
  match psk with
  | some p => if O.size p.value < 32 then .error .insufficientPskLength else .ok ()
  | none => .ok ()

/-- `base_mode` (`hpke.rs:321`) as the `u8` of `HpkeModeId`: `Base = 0x00`, `Psk = 0x01` -/
def baseMode {B : Type} (psk : Option (Psk B)) : Nat :=
  match psk with
  | some _ => 1
  | none => 0

namespace Hpke
variable {B R : Type} (H : Hpke B R)

/-- the `if let Some(aead) = &self.aead { .. }` block of `key_schedule` (`hpke.rs:273`) -/
def encryptionContext (secret ksc : B) : Except Err (Option (EncCtx B)) :=
  match H.aead with
  | none => .ok none
  | some A =>
    match labeledExpand H.ops H.kdf H.suiteId secret "key" ksc A.keySize with
    | none => .error .kdfError
    | some key =>
      match labeledExpand H.ops H.kdf H.suiteId secret "base_nonce" ksc A.nonceSize with
      | none => .error .kdfError
      | some baseNonce =>
        match EncCtx.new H.ops A baseNonce key with
        | .error e => .error e
        | .ok ec => .ok (some ec)

/-- `key_schedule` (`hpke.rs:236`), statements in the code's order (so that the first failing step
decides the error). -/
def keySchedule (mode : Nat) (sharedSecret info : B) (psk : Option (Psk B)) : Except Err (Context B) :=
  match checkPsk H.ops psk with
  | .error e => .error e
  | .ok () =>
    let p : Psk B := psk.getD { id := H.ops.empty, value := H.ops.empty }   -- `unwrap_or_default`
    match labeledExtract H.ops H.kdf H.suiteId H.ops.empty "psk_id_hash" p.id with
    | none => .error .kdfError
    | some pskIdHash =>
      match labeledExtract H.ops H.kdf H.suiteId H.ops.empty "info_hash" info with
      | none => .error .kdfError
      | some infoHash =>
        match labeledExtract H.ops H.kdf H.suiteId sharedSecret "secret" p.value with
        | none => .error .kdfError
        | some secret =>
          let ksc := H.ops.concat [H.ops.u8 mode, pskIdHash, infoHash]
          match H.encryptionContext secret ksc with
          | .error e => .error e
          | .ok enc =>
            match labeledExpand H.ops H.kdf H.suiteId secret "exp" ksc H.kdf.extractSize with
            | none => .error .kdfError
            | some exporterSecret => .ok { exporterSecret := exporterSecret, enc := enc }

/-- `setup_sender` (`hpke.rs:161`): `(enc, ContextS)`.  `encap` runs BEFORE the psk check. -/
def setupSender (pkR : B) (rnd : R) (info : B) (psk : Option (Psk B)) : Except Err (B × Context B) :=
  match H.kem.encap pkR rnd with
  | none => .error .kemError
  | some (sharedSecret, enc) =>
    match H.keySchedule (baseMode psk) sharedSecret info psk with
    | .error e => .error e
    | .ok ctx => .ok (enc, ctx)

/-- `setup_receiver` (`hpke.rs:189`) -/
def setupReceiver (enc skR pkR info : B) (psk : Option (Psk B)) : Except Err (Context B) :=
  match H.kem.decap enc skR pkR with
  | none => .error .kemError
  | some sharedSecret => H.keySchedule (baseMode psk) sharedSecret info psk

/-- `Context::seal` (`context.rs:51`) -/
def sealMsg (c : Context B) (aad : Option B) (pt : B) : Except Err (B × Context B) :=
  match c.enc, H.aead with
  | some e, some A =>
    match e.sealMsg H.ops A aad pt with
    | .error err => .error err
    | .ok (ct, e') => .ok (ct, { c with enc := some e' })
  | _, _ => .error .exportOnlyMode

/-- `Context::open` (`context.rs:60`) -/
def openMsg (c : Context B) (aad : Option B) (ct : B) : Except Err (B × Context B) :=
  match c.enc, H.aead with
  | some e, some A =>
    match e.openMsg H.ops A aad ct with
    | .error err => .error err
    | .ok (pt, e') => .ok (pt, { c with enc := some e' })
  | _, _ => .error .exportOnlyMode

/-- `Context::export` (`context.rs:69`).  No length check of its own: the result is whatever the
provider's `expand` says for `len` (all three refuse `len > 255·Nh`); the 2-byte length prefix is
`len mod 2^16`. -/
def exportSecret (c : Context B) (exporterContext : B) (len : Nat) : Except Err B :=
  orErr .kdfError (labeledExpand H.ops H.kdf H.suiteId c.exporterSecret "sec" exporterContext len)

/-- single-shot `Hpke::seal` (`hpke.rs:112`): `(kem_output, ciphertext)` -/
def sealBase (pkR : B) (rnd : R) (info : B) (psk : Option (Psk B)) (aad : Option B) (pt : B) :
    Except Err (B × B) :=
  match H.setupSender pkR rnd info psk with
  | .error e => .error e
  | .ok (enc, ctx) =>
    match H.sealMsg ctx aad pt with
    | .error e => .error e
    | .ok (ct, _) => .ok (enc, ct)

/-- single-shot `Hpke::open` (`hpke.rs:132`) -/
def openBase (enc ct skR pkR info : B) (psk : Option (Psk B)) (aad : Option B) : Except Err B :=
  match H.setupReceiver enc skR pkR info psk with
  | .error e => .error e
  | .ok ctx =>
    match H.openMsg ctx aad ct with
    | .error e => .error e
    | .ok (pt, _) => .ok pt

/-- the first step of `Hpke::derive` (`hpke.rs:211`) -/
def dkpPrk (ikm : B) : Option B :=
  labeledExtract H.ops H.kdf H.kemSuiteId H.ops.empty "dkp_prk" ikm

/-- `Hpke::derive` (`hpke.rs:210`) -/
def derive (ikm : B) : Except Err (B × B) :=
  match H.dkpPrk ikm with
  | none => .error .kdfError
  | some prk => orErr .kemError (H.kem.generateDeterministic prk)

end Hpke

/-! ### `dhkem.rs` -/

/-- `SamplingMethod` (`mls-rs-crypto-traits/src/dh.rs:14`) -/
inductive Sampling where
  | hpkeWithBitmask (mask : UInt8)
  | hpkeWithoutBitmask
  | raw
  deriving DecidableEq, Repr

/-- `DhType`.  `toPublic sk = none` is the provider refusing the secret key: for the NIST curves
this is the range check `0 < sk < order` (the abstract validity predicate of the sampling loop). -/
structure Dh (B : Type) where
  dh : B → B → Option B
  toPublic : B → Option B
  sampling : Sampling
  secretKeySize : Nat
  publicKeySize : Nat

/-- `DhKem<DH, KDF>` (`dhkem.rs:40`) -/
structure DhKem (B : Type) where
  ops : ByteOps B
  dh : Dh B
  kdf : Kdf B
  kemId : Nat
  nSecret : Nat

/-- `DhKemError` (`dhkem.rs:18`) -/
inductive DhKemErr where
  | kdfError
  | dhError
  | keyDerivationError
  deriving DecidableEq, Repr

/-- `secret_key[0] &= bitmask` (`dhkem.rs:197`).  Rust panics on an empty `secret_key`
(`secret_key_size() = 0`, no shipped curve); the model leaves it empty. -/
def maskFirst (mask : UInt8) : List UInt8 → List UInt8
  | [] => []
  | b :: t => (b &&& mask) :: t

namespace DhKem
variable {B : Type} (D : DhKem B)

def suiteId : B := kemSuite D.ops D.kemId

/-- `kem_context = [enc, pkR].concat()` (`dhkem.rs:123,150`) -/
def kemContext (enc pkR : B) : B := D.ops.concat [enc, pkR]

/-- the shared secret from the raw DH value: `labeled_extract_then_expand(dh, kem_context, n_secret)` -/
def sharedSecret (dhVal enc pkR : B) : Option B :=
  labeledExtractThenExpand D.ops D.kdf D.suiteId dhVal (D.kemContext enc pkR) D.nSecret

/-- `encap` (`dhkem.rs:113`).  The randomness is the outcome of `self.generate()`:
`none` = generation failed, `some (skE, pkE)`. -/
def encap (pkR : B) (eph : Option (B × B)) : Except DhKemErr (B × B) :=
  match eph with
  | none => .error .dhError
  | some (skE, pkE) =>
    match D.dh.dh skE pkR with
    | none => .error .dhError
    | some dhVal =>
      match D.sharedSecret dhVal pkE pkR with
      | none => .error .kdfError
      | some ss => .ok (ss, pkE)

/-- `decap` (`dhkem.rs:133`) -/
def decap (enc skR pkR : B) : Except DhKemErr B :=
  match D.dh.dh skR enc with
  | none => .error .dhError
  | some dhVal =>
    match D.sharedSecret dhVal enc pkR with
    | none => .error .kdfError
    | some ss => .ok ss

/-- candidate secret key number `i` of the rejection-sampling loop, after the bitmask
(`dhkem.rs:191-197`) -/
def candidate (dkpPrk : B) (mask : UInt8) (i : Nat) : Option B :=
  match labeledExpand D.ops D.kdf D.suiteId dkpPrk "candidate" (D.ops.u8 i) D.dh.secretKeySize with
  | none => none
  | some sk => some (D.ops.ofBytes (maskFirst mask (D.ops.bytes sk)))

/-- the body of `for i in 0u8..255` (`dhkem.rs:189`): `fuel` iterations starting at counter `i`.
A KDF error aborts; a candidate refused by `to_public` moves on to the next counter. -/
def sampleLoop (dkpPrk : B) (mask : UInt8) : (fuel i : Nat) → Except DhKemErr (B × B)
  | 0, _ => .error .keyDerivationError
  | fuel + 1, i =>
    match D.candidate dkpPrk mask i with
    | none => .error .kdfError
    | some sk =>
      match D.dh.toPublic sk with
      | some pk => .ok (sk, pk)
      | none => sampleLoop dkpPrk mask fuel (i + 1)

/-- `derive_with_rejection_sampling` (`dhkem.rs:182`): counters `0 ..= 254`, i.e. 255 attempts
(RFC 9180 §7.1.3 allows counters `0 ..= 255`). -/
def deriveWithRejectionSampling (dkpPrk : B) (mask : UInt8) : Except DhKemErr (B × B) :=
  D.sampleLoop dkpPrk mask 255 0

/-- `derive_raw` (`dhkem.rs:227`) -/
def deriveRaw (sk : B) : Except DhKemErr (B × B) :=
  match D.dh.toPublic sk with
  | none => .error .dhError
  | some pk => .ok (sk, pk)

/-- the secret key bytes of `derive_without_rejection_sampling` (`dhkem.rs:216`) -/
def skWithoutSampling (dkpPrk : B) : Option B :=
  labeledExpand D.ops D.kdf D.suiteId dkpPrk "sk" D.ops.empty D.dh.secretKeySize

/-- `derive_without_rejection_sampling` (`dhkem.rs:212`) -/
def deriveWithoutRejectionSampling (dkpPrk : B) : Except DhKemErr (B × B) :=
  match D.skWithoutSampling dkpPrk with
  | none => .error .kdfError
  | some sk => D.deriveRaw sk

/-- `generate_deterministic` (`dhkem.rs:78`) -/
def generateDeterministic (seed : B) : Except DhKemErr (B × B) :=
  match D.dh.sampling with
  | .hpkeWithBitmask mask => D.deriveWithRejectionSampling seed mask
  | .hpkeWithoutBitmask => D.deriveWithoutRejectionSampling seed
  | .raw => D.deriveRaw seed

/-- `impl KemType for DhKem`: every `DhKemError` becomes the opaque `KemError` of `Hpke` -/
def toKem : Kem B (Option (B × B)) where
  kemId := D.kemId
  encap pkR eph := (D.encap pkR eph).toOption
  decap enc skR pkR := (D.decap enc skR pkR).toOption
  generateDeterministic seed := (D.generateDeterministic seed).toOption

end DhKem

/-- the HPKE instance the providers build: `Hpke::new(DhKem::new(dh, kdf, kem_id, n_secret), kdf,
Some(aead))` — the KEM's KDF is the suite's KDF -/
def ofDhKem {B : Type} (D : DhKem B) (aead : Option (Aead B)) : Hpke B (Option (B × B)) where
  ops := D.ops
  kem := D.toKem
  kdf := D.kdf
  aead := aead

end MlsVerif.Hpke
