/-
HKDF (RFC 5869) over `Model/Hmac.lean`.

Import-free apart from the model's own `Sha2`/`Hmac`: this file is linked into the native driver.
-/
import MlsVerif.Model.Hmac

namespace MlsVerif.Hkdf

open MlsVerif.Sha2 MlsVerif.Hmac

/-- `HKDF-Extract(salt, IKM) = HMAC-Hash(salt, IKM)`.  RFC 5869 says an absent salt is `HashLen`
zero bytes; HMAC zero-extends its key to the block length, so the empty salt already gives the
same value and needs no special case. -/
def extract (alg : HashAlg) (salt ikm : ByteArray) : ByteArray :=
  hmac alg salt ikm

/-- `T(i) = HMAC(PRK, T(i-1) ‖ info ‖ i)` for `i = ctr, ctr+1, …` (`fuel` blocks), appended to
`acc`.  `ctr` stays `≤ 255` whenever `fuel` comes from `expand`. -/
def expandBlocks (alg : HashAlg) (prk info : ByteArray) :
    (fuel ctr : Nat) → (prev acc : ByteArray) → ByteArray
  | 0, _, _, acc => acc
  | n + 1, ctr, prev, acc =>
    let t := hmac alg prk ((prev ++ info).push ctr.toUInt8)
    expandBlocks alg prk info n (ctr + 1) t (acc ++ t)

/-- `HKDF-Expand(PRK, info, L)`: the first `L` bytes of `T(1) ‖ T(2) ‖ … ‖ T(⌈L/HashLen⌉)`;
`none` iff `L > 255 * HashLen`. -/
def expand (alg : HashAlg) (prk info : ByteArray) (len : Nat) : Option ByteArray :=
  if len > 255 * alg.outLen then none
  else
    let n := (len + alg.outLen - 1) / alg.outLen
    let okm := expandBlocks alg prk info n 1 ByteArray.empty (ByteArray.emptyWithCapacity (n * alg.outLen))
    some (okm.extract 0 len)

end MlsVerif.Hkdf
