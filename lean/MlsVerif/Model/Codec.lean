/-
Executable model of the TLS-style wire codec of mls-rs (`mls-rs-codec`, `mls-rs-codec-derive`).

Source map (paths relative to `/repo`):

* `mls-rs-codec/src/varint.rs`   → `countBytes?`, `encodeVarint`, `readVarint`, `decodeVarint`
* `mls-rs-codec/src/stdint.rs`   → `Schema.u` (`toBE` / `fromBE`)
* `mls-rs-codec/src/array.rs`    → `Schema.fixed`
* `mls-rs-codec/src/bool.rs`     → `Schema.bool`
* `mls-rs-codec/src/byte_vec.rs` → `Schema.bytes` (`decodeSplit`, `encodeLenPrefixed`)
* `mls-rs-codec/src/string.rs`   → `Schema.str`
* `mls-rs-codec/src/iter.rs`, `vec.rs` → `Schema.vec` (`decodeLoop`, `hdrLen`)
* `mls-rs-codec/src/option.rs`   → `Schema.opt`
* `mls-rs-codec/src/tuple.rs`, derive `struct_impl` → `Schema.struct`
* derive `enum_impl`             → `Schema.enum`
* `mls-rs-codec/src/map.rs`      → `Schema.map` (`decodeMapLoop`, `insertKv`)

Conventions.

* Numbers are `Nat`.  Byte-level bit operations of the Rust code are written arithmetically:
  `first >> 6` is `first / 64`, `first & 0x3f` is `first % 64`, `(n << 8) | b` is `n * 256 + b`
  (no `u32` overflow is possible: at most 30 bits are assembled), `bytes[2] |= 0x40` is `+ 64`
  on a value `< 64`, `bytes[0] |= 0x80` is `+ 128` on a value `< 64`.
* A Rust `&mut &[u8]` reader is a `Bytes` argument plus a returned remainder.  When a Rust decoder
  returns `Err`, the reader position is unspecified; every caller in the crate propagates the
  error with `?`, so the model returns no remainder on error.
* Every function here is total and accepted by Lean's termination checker without `partial`,
  `unsafe` or fuel.  `decode` is structurally recursive on the schema.  The element loops
  (`decodeLoop`, `decodeMapLoop`) recurse on the length of the remaining input; the recursive call
  is justified by the guard `rest.length < data.length`, which is the model of the Rust guard
  `if data.len() == before { return Err(InvalidContent) }` (`vec.rs:61`, `map.rs:51`, `map.rs:95`).
  Without that guard the definitions would be rejected.  That `¬ (rest.length < data.length)` is the
  same as `rest.length = data.length` for the decoders at hand is `Props.C12.guard_faithful`.

Import-free on purpose: this file is linked into the native driver `mlsmodel`.
-/
namespace MlsVerif.Codec

abbrev Bytes := List UInt8

/-- Wire layouts.  `u n`: big-endian unsigned integer of `n` bytes (`u8`…`u128` are `n = 1,2,4,8,16`).
`fixed n`: `[u8; n]`.  `bytes`: `Vec<u8>` through `mls_rs_codec::byte_vec` (also what `Vec<u8>`
itself produces).  `varint`: the raw `VarInt`.  `str`: `String`.  `vec e`: `Vec<T>`.
`opt e`: `Option<T>`.  `struct fs`: derived struct / tuple, fields in order.  `enum w cases`: derived
enum with a `w`-byte discriminant; each case is `(discriminant, none)` for a unit variant or
`(discriminant, some payload)`.  `map k v`: `HashMap<K, V>` / `BTreeMap<K, V>`. -/
inductive Schema where
  | u (nbytes : Nat)
  | bool
  | fixed (n : Nat)
  | bytes
  | varint
  | str
  | vec (e : Schema)
  | opt (e : Schema)
  | struct (fs : List Schema)
  | enum (w : Nat) (cases : List (Nat × Option Schema))
  | map (k v : Schema)
  deriving Repr, Inhabited

/-- Values.  `nat` for `u n` and `varint`; `bytes` for `fixed`, `bytes`, `str`; `list` for `vec`;
`none`/`some` for `opt`; `tuple` for `struct`; `variant` for `enum`; `map` for `map`, as the list of
entries in strictly ascending key order (the canonical representative of the Rust map). -/
inductive Value where
  | nat (n : Nat)
  | bool (b : Bool)
  | bytes (b : List UInt8)
  | list (vs : List Value)
  | none
  | some (v : Value)
  | tuple (vs : List Value)
  | variant (tag : Nat) (payload : Option Value)
  | map (kvs : List (Value × Value))
  deriving Repr, Inhabited

/-- `mls_rs_codec::Error` (`lib.rs:38-58`) plus `illTyped`, which is not a Rust error: it is what the
model's `encode` returns when the value does not inhabit the schema (a state the Rust type system
excludes). -/
inductive CodecErr where
  | varIntOutOfRange
  | invalidVarIntPrefix (p : UInt8)
  | varIntMinimumLengthEncoding
  | unexpectedEOF
  | optionOutOfRange (n : UInt8)
  | unsupportedEnumDiscriminant
  | utf8
  | invalidContent
  | custom (c : UInt8)
  | illTyped
  deriving Repr, Inhabited, DecidableEq

abbrev Dec (α : Type) := Bytes → Except CodecErr (α × Bytes)

/-! ## Integers -/

/-- `to_be_bytes` truncated/extended to `k` bytes. -/
def toBE : Nat → Nat → Bytes
  | 0, _ => []
  | k + 1, v => UInt8.ofNat (v / 256 ^ k) :: toBE k (v % 256 ^ k)

/-- `from_be_bytes`. -/
def fromBE : Bytes → Nat
  | [] => 0
  | x :: xs => x.toNat * 256 ^ xs.length + fromBE xs

/-- `reader.get(..N)` / `reader[N..]` (`array.rs:26-32`); also `reader.split_at(len)` after the
bound check of `iter.rs:79`. -/
def splitN (n : Nat) (b : Bytes) : Except CodecErr (Bytes × Bytes) :=
  if n ≤ b.length then .ok (b.take n, b.drop n) else .error .unexpectedEOF

def decodeU (n : Nat) : Dec Nat := fun b =>
  match splitN n b with
  | .error e => .error e
  | .ok (h, r) => .ok (fromBE h, r)

/-! ## VarInt (`varint.rs`) -/

/-- `VarInt::MAX`, `2^30 - 1`. -/
def varintMax : Nat := 1073741823

/-- `count_bytes_to_encode_int` (`varint.rs:104-112`); `none` is the `panic!` arm. -/
def countBytes? (n : Nat) : Option Nat :=
  if n < 64 then some 1
  else if n < 16384 then some 2
  else if n < 1073741824 then some 4
  else none

/-- `VarInt::mls_encode` (`varint.rs:50-69`).  For `n > VarInt::MAX` Rust would panic inside
`count_bytes_to_encode_int`; all callers guard (`encodeLen`), see `Props.C12.varint_no_panic`. -/
def encodeVarint (n : Nat) : Bytes :=
  if n < 64 then [UInt8.ofNat n]
  else if n < 16384 then [UInt8.ofNat (64 + n / 256), UInt8.ofNat (n % 256)]
  else [UInt8.ofNat (128 + n / 16777216), UInt8.ofNat (n / 65536 % 256),
        UInt8.ofNat (n / 256 % 256), UInt8.ofNat (n % 256)]

/-- First half of `VarInt::mls_decode` (`varint.rs:72-84`): read the prefix and assemble the
number.  Returns `(count, n, rest)`. -/
def readVarint : Bytes → Except CodecErr (Nat × Nat × Bytes)
  | [] => .error .unexpectedEOF
  | first :: rest =>
    if first.toNat / 64 = 0 then .ok (1, first.toNat % 64, rest)
    else if first.toNat / 64 = 1 then
      match rest with
      | b1 :: rest => .ok (2, first.toNat % 64 * 256 + b1.toNat, rest)
      | _ => .error .unexpectedEOF
    else if first.toNat / 64 = 2 then
      match rest with
      | b1 :: b2 :: b3 :: rest =>
        .ok (4, ((first.toNat % 64 * 256 + b1.toNat) * 256 + b2.toNat) * 256 + b3.toNat, rest)
      | _ => .error .unexpectedEOF
    else .error (.invalidVarIntPrefix 3)

/-- `VarInt::mls_decode`: `readVarint` followed by the minimum-length check (`varint.rs:88-92`). -/
def decodeVarint : Dec Nat := fun b =>
  match readVarint b with
  | .error e => .error e
  | .ok (count, n, rest) =>
    if countBytes? n = some count then .ok (n, rest) else .error .varIntMinimumLengthEncoding

/-- `VarInt::try_from(len)?` then `mls_encode`. -/
def encodeLen (len : Nat) : Except CodecErr Bytes :=
  if len ≤ varintMax then .ok (encodeVarint len) else .error .varIntOutOfRange

/-- `VarInt::try_from(len).unwrap_or_default().mls_encoded_len()` (`iter.rs:15`,
`byte_vec.rs:16`): the header length reported by `mls_encoded_len`; for `len > VarInt::MAX` this is
the header length of `0`, i.e. `1`.  The `getD` default is never used (`Props.C12.varint_no_panic`). -/
def hdrLen (len : Nat) : Nat :=
  (countBytes? (if len ≤ varintMax then len else 0)).getD 0

/-- `mls_decode_split_on_collection` (`iter.rs:74-84`). -/
def decodeSplit : Dec Bytes := fun b =>
  match decodeVarint b with
  | .error e => .error e
  | .ok (len, r) => splitN len r

/-- `byte_vec::mls_encode`, and the tail of `iter::mls_encode`. -/
def encodeLenPrefixed (payload : Bytes) : Except CodecErr Bytes :=
  match encodeLen payload.length with
  | .error e => .error e
  | .ok h => .ok (h ++ payload)

/-! ## UTF-8 (`String::from_utf8`, Unicode Table 3-7) -/

def isCont (b : UInt8) : Bool := 0x80 ≤ b && b ≤ 0xBF

/-- second byte admissible after a three-byte lead `b0 ∈ E0..EF` -/
def ok3 (b0 b1 : UInt8) : Bool :=
  if b0 = 0xE0 then 0xA0 ≤ b1 && b1 ≤ 0xBF
  else if b0 = 0xED then 0x80 ≤ b1 && b1 ≤ 0x9F
  else isCont b1

/-- second byte admissible after a four-byte lead `b0 ∈ F0..F4` -/
def ok4 (b0 b1 : UInt8) : Bool :=
  if b0 = 0xF0 then 0x90 ≤ b1 && b1 ≤ 0xBF
  else if b0 = 0xF4 then 0x80 ≤ b1 && b1 ≤ 0x8F
  else isCont b1

def utf8Valid : Bytes → Bool
  | [] => true
  | b0 :: r0 =>
    if b0 < 0x80 then utf8Valid r0
    else match r0 with
      | [] => false
      | b1 :: r1 =>
        if 0xC2 ≤ b0 && b0 ≤ 0xDF then isCont b1 && utf8Valid r1
        else match r1 with
          | [] => false
          | b2 :: r2 =>
            if 0xE0 ≤ b0 && b0 ≤ 0xEF then ok3 b0 b1 && isCont b2 && utf8Valid r2
            else match r2 with
              | [] => false
              | b3 :: r3 =>
                0xF0 ≤ b0 && b0 ≤ 0xF4 && ok4 b0 b1 && isCont b2 && isCont b3 && utf8Valid r3

/-! ## Ordering of values (Rust `Ord`: primitive, lexicographic for sequences and derived structs,
`None < Some`, derived enums by discriminant then payload) -/

def cmpBytes : Bytes → Bytes → Ordering
  | [], [] => .eq
  | [], _ :: _ => .lt
  | _ :: _, [] => .gt
  | a :: as, b :: bs => (compare a.toNat b.toNat).then (cmpBytes as bs)

mutual
def Value.cmp : Value → Value → Ordering
  | .nat a, .nat b => compare a b
  | .bool a, .bool b => compare a.toNat b.toNat
  | .bytes a, .bytes b => cmpBytes a b
  | .list a, .list b => cmpList a b
  | .none, .none => .eq
  | .none, .some _ => .lt
  | .some _, .none => .gt
  | .some a, .some b => a.cmp b
  | .tuple a, .tuple b => cmpList a b
  | .variant t p, .variant t' p' => (compare t t').then (cmpOpt p p')
  | .map a, .map b => cmpKvs a b
  | _, _ => .lt
termination_by structural a => a
def cmpList : List Value → List Value → Ordering
  | [], [] => .eq
  | [], _ :: _ => .lt
  | _ :: _, [] => .gt
  | a :: as, b :: bs => (a.cmp b).then (cmpList as bs)
termination_by structural a => a
def cmpOpt : Option Value → Option Value → Ordering
  | .none, .none => .eq
  | .none, .some _ => .lt
  | .some _, .none => .gt
  | .some a, .some b => a.cmp b
termination_by structural a => a
def cmpKvs : List (Value × Value) → List (Value × Value) → Ordering
  | [], [] => .eq
  | [], _ :: _ => .lt
  | _ :: _, [] => .gt
  | (k, v) :: as, (k', v') :: bs => (k.cmp k').then ((v.cmp v').then (cmpKvs as bs))
termination_by structural a => a
end

/-- keys strictly ascending (adjacent check) -/
def sortedKeys : List (Value × Value) → Bool
  | [] => true
  | [_] => true
  | (k, _) :: (k', v') :: rest => k.cmp k' == .lt && sortedKeys ((k', v') :: rest)

/-- `items.insert(key, value)` on the sorted representative; `none` is `is_some()`, a duplicate key
(`map.rs:51`, `map.rs:95`). -/
def insertKv (k v : Value) : List (Value × Value) → Option (List (Value × Value))
  | [] => some [(k, v)]
  | (k', v') :: rest =>
    match k.cmp k' with
    | .lt => some ((k, v) :: (k', v') :: rest)
    | .eq => none
    | .gt =>
      match insertKv k v rest with
      | none => none
      | some r => some ((k', v') :: r)

/-! ## Generic loops -/

def sumBy {α} (f : α → Nat) : List α → Nat
  | [] => 0
  | x :: xs => f x + sumBy f xs

/-- `iter.try_for_each(|x| x.mls_encode(buffer))` -/
def encodeList {α} (f : α → Except CodecErr Bytes) : List α → Except CodecErr Bytes
  | [] => .ok []
  | x :: xs =>
    match f x with
    | .error e => .error e
    | .ok b =>
      match encodeList f xs with
      | .error e => .error e
      | .ok bs => .ok (b ++ bs)

/-- `(T, U)::mls_encode` -/
def encodePair (fk fv : Value → Except CodecErr Bytes) (kv : Value × Value) : Except CodecErr Bytes :=
  match fk kv.1 with
  | .error e => .error e
  | .ok a =>
    match fv kv.2 with
    | .error e => .error e
    | .ok b => .ok (a ++ b)

/-- `let key = K::mls_decode(data)?; let value = V::mls_decode(data)?;` -/
def decodePair (fk fv : Dec Value) : Dec (Value × Value) := fun d =>
  match fk d with
  | .error e => .error e
  | .ok (k, r) =>
    match fv r with
    | .error e => .error e
    | .ok (v, r') => .ok ((k, v), r')

/-- The `while !data.is_empty()` loop of `Vec<T>::mls_decode` (`vec.rs:54-68`). -/
def decodeLoop {α} (f : Dec α) (data : Bytes) : Except CodecErr (List α) :=
  if data.isEmpty then .ok []
  else
    match f data with
    | .error e => .error e
    | .ok (v, rest) =>
      if rest.length < data.length then
        match decodeLoop f rest with
        | .error e => .error e
        | .ok vs => .ok (v :: vs)
      else .error .invalidContent
termination_by data.length

/-- The loop of `HashMap`/`BTreeMap::mls_decode` (`map.rs:43-57`, `map.rs:87-101`). -/
def decodeMapLoop (f : Dec (Value × Value)) (acc : List (Value × Value)) (data : Bytes) :
    Except CodecErr (List (Value × Value)) :=
  if data.isEmpty then .ok acc
  else
    match f data with
    | .error e => .error e
    | .ok (kv, rest) =>
      if rest.length < data.length then
        match insertKv kv.1 kv.2 acc with
        | none => .error .invalidContent
        | some acc' => decodeMapLoop f acc' rest
      else .error .invalidContent
termination_by data.length

/-- `mls_decode_collection` (`iter.rs:60-72`). -/
def decodeCollection {α} (inner : Bytes → Except CodecErr α) : Dec α := fun b =>
  match decodeSplit b with
  | .error e => .error e
  | .ok (data, rest) =>
    match inner data with
    | .error e => .error e
    | .ok items => .ok (items, rest)

/-! ## Well-typedness -/

mutual
def WF : Schema → Value → Bool
  | .u n, .nat v => decide (v < 256 ^ n)
  | .bool, .bool _ => true
  | .fixed n, .bytes b => b.length == n
  | .bytes, .bytes _ => true
  | .varint, .nat v => decide (v ≤ varintMax)
  | .str, .bytes b => utf8Valid b
  | .vec e, .list vs => vs.all (WF e)
  | .opt _, .none => true
  | .opt e, .some v => WF e v
  | .struct fs, .tuple vs => WFFields fs vs
  | .enum w cs, .variant tag p => decide (tag < 256 ^ w) && WFCases cs tag p
  | .map k v, .map kvs => kvs.all (fun kv => WF k kv.1 && WF v kv.2) && sortedKeys kvs
  | _, _ => false
termination_by structural s => s
def WFFields : List Schema → List Value → Bool
  | [], [] => true
  | f :: fs, v :: vs => WF f v && WFFields fs vs
  | _, _ => false
termination_by structural fs => fs
def WFCases : List (Nat × Option Schema) → Nat → Option Value → Bool
  | [], _, _ => false
  | (t, none) :: cs, tag, p => if t = tag then p.isNone else WFCases cs tag p
  | (t, some s) :: cs, tag, p =>
    if t = tag then (match p with | some v => WF s v | none => false) else WFCases cs tag p
termination_by structural cs => cs
end

/-! ## Encoder (`mls_encode`, feature `preallocate` off; for `preallocate` see `encodeP`) -/

mutual
def encode : Schema → Value → Except CodecErr Bytes
  | .u n, .nat v => if v < 256 ^ n then .ok (toBE n v) else .error .illTyped
  | .bool, .bool b => .ok [if b then 1 else 0]
  | .fixed n, .bytes b => if b.length = n then .ok b else .error .illTyped
  | .bytes, .bytes b => encodeLenPrefixed b
  | .varint, .nat v => if v ≤ varintMax then .ok (encodeVarint v) else .error .illTyped
  | .str, .bytes b => if utf8Valid b then encodeLenPrefixed b else .error .illTyped
  | .vec e, .list vs =>
    match encodeList (encode e) vs with
    | .error e => .error e
    | .ok buf => encodeLenPrefixed buf
  | .opt _, .none => .ok [0]
  | .opt e, .some v =>
    match encode e v with
    | .error e => .error e
    | .ok b => .ok (1 :: b)
  | .struct fs, .tuple vs => encodeFields fs vs
  | .enum w cs, .variant tag p =>
    if tag < 256 ^ w then
      match encodeCases cs tag p with
      | .error e => .error e
      | .ok b => .ok (toBE w tag ++ b)
    else .error .illTyped
  | .map k v, .map kvs =>
    if sortedKeys kvs then
      match encodeList (encodePair (encode k) (encode v)) kvs with
      | .error e => .error e
      | .ok buf => encodeLenPrefixed buf
    else .error .illTyped
  | _, _ => .error .illTyped
termination_by structural s => s
def encodeFields : List Schema → List Value → Except CodecErr Bytes
  | [], [] => .ok []
  | f :: fs, v :: vs =>
    match encode f v with
    | .error e => .error e
    | .ok b =>
      match encodeFields fs vs with
      | .error e => .error e
      | .ok bs => .ok (b ++ bs)
  | _, _ => .error .illTyped
termination_by structural fs => fs
def encodeCases : List (Nat × Option Schema) → Nat → Option Value → Except CodecErr Bytes
  | [], _, _ => .error .illTyped
  | (t, none) :: cs, tag, p =>
    if t = tag then (match p with | none => .ok [] | some _ => .error .illTyped)
    else encodeCases cs tag p
  | (t, some s) :: cs, tag, p =>
    if t = tag then (match p with | some v => encode s v | none => .error .illTyped)
    else encodeCases cs tag p
termination_by structural cs => cs
end

/-! ## Size (`mls_encoded_len`) -/

mutual
def size : Schema → Value → Nat
  | .u n, _ => n
  | .bool, _ => 1
  | .fixed n, _ => n
  | .bytes, .bytes b => hdrLen b.length + b.length
  | .varint, .nat v => (countBytes? v).getD 0
  | .str, .bytes b => hdrLen b.length + b.length
  | .vec e, .list vs => hdrLen (sumBy (size e) vs) + sumBy (size e) vs
  | .opt _, .none => 1
  | .opt e, .some v => 1 + size e v
  | .struct fs, .tuple vs => sizeFields fs vs
  | .enum w cs, .variant tag p => w + sizeCases cs tag p
  | .map k v, .map kvs =>
    hdrLen (sumBy (fun kv => size k kv.1 + size v kv.2) kvs)
      + sumBy (fun kv => size k kv.1 + size v kv.2) kvs
  | _, _ => 0
termination_by structural s => s
def sizeFields : List Schema → List Value → Nat
  | f :: fs, v :: vs => size f v + sizeFields fs vs
  | _, _ => 0
termination_by structural fs => fs
def sizeCases : List (Nat × Option Schema) → Nat → Option Value → Nat
  | [], _, _ => 0
  | (t, none) :: cs, tag, p => if t = tag then 0 else sizeCases cs tag p
  | (t, some s) :: cs, tag, p =>
    if t = tag then (match p with | some v => size s v | none => 0) else sizeCases cs tag p
termination_by structural cs => cs
end

/-! ## Decoder (`mls_decode`) -/

mutual
def decode : Schema → Dec Value
  | .u n, b =>
    match decodeU n b with
    | .error e => .error e
    | .ok (v, r) => .ok (.nat v, r)
  | .bool, b =>
    match b with
    | [] => .error .unexpectedEOF
    | x :: r => .ok (.bool (x != 0), r)
  | .fixed n, b =>
    match splitN n b with
    | .error e => .error e
    | .ok (h, r) => .ok (.bytes h, r)
  | .bytes, b =>
    match decodeSplit b with
    | .error e => .error e
    | .ok (h, r) => .ok (.bytes h, r)
  | .varint, b =>
    match decodeVarint b with
    | .error e => .error e
    | .ok (n, r) => .ok (.nat n, r)
  | .str, b =>
    match decodeSplit b with
    | .error e => .error e
    | .ok (h, r) => if utf8Valid h then .ok (.bytes h, r) else .error .utf8
  | .vec e, b =>
    match decodeCollection (decodeLoop (decode e)) b with
    | .error e => .error e
    | .ok (vs, r) => .ok (.list vs, r)
  | .opt e, b =>
    match b with
    | [] => .error .unexpectedEOF
    | x :: r =>
      if x = 0 then .ok (.none, r)
      else if x = 1 then
        match decode e r with
        | .error e => .error e
        | .ok (v, r') => .ok (.some v, r')
      else .error (.optionOutOfRange x)
  | .struct fs, b =>
    match decodeFields fs b with
    | .error e => .error e
    | .ok (vs, r) => .ok (.tuple vs, r)
  | .enum w cs, b =>
    match decodeU w b with
    | .error e => .error e
    | .ok (tag, r) =>
      match decodeCases cs tag r with
      | .error e => .error e
      | .ok (p, r') => .ok (.variant tag p, r')
  | .map k v, b =>
    match decodeCollection (decodeMapLoop (decodePair (decode k) (decode v)) []) b with
    | .error e => .error e
    | .ok (kvs, r) => .ok (.map kvs, r)
termination_by structural s => s
def decodeFields : List Schema → Dec (List Value)
  | [], b => .ok ([], b)
  | f :: fs, b =>
    match decode f b with
    | .error e => .error e
    | .ok (v, r) =>
      match decodeFields fs r with
      | .error e => .error e
      | .ok (vs, r') => .ok (v :: vs, r')
termination_by structural fs => fs
def decodeCases : List (Nat × Option Schema) → Nat → Dec (Option Value)
  | [], _, _ => .error .unsupportedEnumDiscriminant
  | (t, none) :: cs, tag, b => if t = tag then .ok (none, b) else decodeCases cs tag b
  | (t, some s) :: cs, tag, b =>
    if t = tag then
      match decode s b with
      | .error e => .error e
      | .ok (v, r) => .ok (some v, r)
    else decodeCases cs tag b
termination_by structural cs => cs
end

/-! ## Encoder with feature `preallocate` (`iter.rs:20-39`): the header is computed from
`mls_encoded_len` *before* the elements are written.  `Props.C12.encodeP_eq_encode` shows it agrees
with `encode` on well-typed values. -/

/-- `VarInt::try_from(len)?.mls_encode(writer)` followed by the elements -/
def encodePrefixedP (len : Nat) (payload : Except CodecErr Bytes) : Except CodecErr Bytes :=
  match encodeLen len with
  | .error e => .error e
  | .ok h =>
    match payload with
    | .error e => .error e
    | .ok buf => .ok (h ++ buf)

mutual
def encodeP : Schema → Value → Except CodecErr Bytes
  | .u n, .nat v => if v < 256 ^ n then .ok (toBE n v) else .error .illTyped
  | .bool, .bool b => .ok [if b then 1 else 0]
  | .fixed n, .bytes b => if b.length = n then .ok b else .error .illTyped
  | .bytes, .bytes b => encodeLenPrefixed b
  | .varint, .nat v => if v ≤ varintMax then .ok (encodeVarint v) else .error .illTyped
  | .str, .bytes b => if utf8Valid b then encodeLenPrefixed b else .error .illTyped
  | .vec e, .list vs => encodePrefixedP (sumBy (size e) vs) (encodeList (encodeP e) vs)
  | .opt _, .none => .ok [0]
  | .opt e, .some v =>
    match encodeP e v with
    | .error e => .error e
    | .ok b => .ok (1 :: b)
  | .struct fs, .tuple vs => encodeFieldsP fs vs
  | .enum w cs, .variant tag p =>
    if tag < 256 ^ w then
      match encodeCasesP cs tag p with
      | .error e => .error e
      | .ok b => .ok (toBE w tag ++ b)
    else .error .illTyped
  | .map k v, .map kvs =>
    if sortedKeys kvs then
      encodePrefixedP (sumBy (fun kv => size k kv.1 + size v kv.2) kvs)
        (encodeList (encodePair (encodeP k) (encodeP v)) kvs)
    else .error .illTyped
  | _, _ => .error .illTyped
termination_by structural s => s
def encodeFieldsP : List Schema → List Value → Except CodecErr Bytes
  | [], [] => .ok []
  | f :: fs, v :: vs =>
    match encodeP f v with
    | .error e => .error e
    | .ok b =>
      match encodeFieldsP fs vs with
      | .error e => .error e
      | .ok bs => .ok (b ++ bs)
  | _, _ => .error .illTyped
termination_by structural fs => fs
def encodeCasesP : List (Nat × Option Schema) → Nat → Option Value → Except CodecErr Bytes
  | [], _, _ => .error .illTyped
  | (t, none) :: cs, tag, p =>
    if t = tag then (match p with | none => .ok [] | some _ => .error .illTyped)
    else encodeCasesP cs tag p
  | (t, some s) :: cs, tag, p =>
    if t = tag then (match p with | some v => encodeP s v | none => .error .illTyped)
    else encodeCasesP cs tag p
termination_by structural cs => cs
end

/-! ## Specification-level functions -/

mutual
/-- `false` exactly on schemas containing a node whose decoder accepts several byte strings for one
value: `bool` (any non-zero byte is `true`, `bool.rs:22`) and `map` (entries accepted in any order,
`map.rs:43-57`; the encoder emits them sorted, `map.rs:32` / BTreeMap iteration). -/
def Canon : Schema → Bool
  | .bool => false
  | .map _ _ => false
  | .vec e => Canon e
  | .opt e => Canon e
  | .struct fs => CanonFields fs
  | .enum _ cs => CanonCases cs
  | _ => true
termination_by structural s => s
def CanonFields : List Schema → Bool
  | [] => true
  | f :: fs => Canon f && CanonFields fs
termination_by structural fs => fs
def CanonCases : List (Nat × Option Schema) → Bool
  | [] => true
  | (_, none) :: cs => CanonCases cs
  | (_, some s) :: cs => Canon s && CanonCases cs
termination_by structural cs => cs
end

mutual
/-- number of value nodes plus bytes held: a proxy for the memory a decoded value occupies -/
def weight : Value → Nat
  | .nat _ => 1
  | .bool _ => 1
  | .bytes b => 1 + b.length
  | .list vs => 1 + weightList vs
  | .none => 1
  | .some v => 1 + weight v
  | .tuple vs => 1 + weightList vs
  | .variant _ p => 1 + weightOpt p
  | .map kvs => 1 + weightKvs kvs
termination_by structural v => v
def weightList : List Value → Nat
  | [] => 0
  | v :: vs => weight v + weightList vs
termination_by structural vs => vs
def weightOpt : Option Value → Nat
  | .none => 0
  | .some v => weight v
termination_by structural o => o
def weightKvs : List (Value × Value) → Nat
  | [] => 0
  | (k, v) :: kvs => weight k + weight v + weightKvs kvs
termination_by structural kvs => kvs
end

mutual
/-- allocation constant of a schema: `weight v ≤ K s * consumed + K s` -/
def K : Schema → Nat
  | .u _ => 1
  | .bool => 1
  | .fixed n => n + 1
  | .bytes => 1
  | .varint => 1
  | .str => 1
  | .vec e => 2 * K e + 1
  | .opt e => K e + 1
  | .struct fs => KFields fs + 1
  | .enum _ cs => KCases cs + 1
  | .map k v => 2 * (K k + K v) + 1
termination_by structural s => s
def KFields : List Schema → Nat
  | [] => 0
  | f :: fs => K f + KFields fs
termination_by structural fs => fs
def KCases : List (Nat × Option Schema) → Nat
  | [] => 0
  | (_, none) :: cs => KCases cs
  | (_, some s) :: cs => K s + KCases cs
termination_by structural cs => cs
end

mutual
/-- some contained length-prefixed payload is longer than `VarInt::MAX` -/
def tooBig : Schema → Value → Bool
  | .bytes, .bytes b => decide (varintMax < b.length)
  | .str, .bytes b => decide (varintMax < b.length)
  | .vec e, .list vs => vs.any (tooBig e) || decide (varintMax < sumBy (size e) vs)
  | .opt e, .some v => tooBig e v
  | .struct fs, .tuple vs => tooBigFields fs vs
  | .enum _ cs, .variant tag p => tooBigCases cs tag p
  | .map k v, .map kvs =>
    kvs.any (fun kv => tooBig k kv.1 || tooBig v kv.2)
      || decide (varintMax < sumBy (fun kv => size k kv.1 + size v kv.2) kvs)
  | _, _ => false
termination_by structural s => s
def tooBigFields : List Schema → List Value → Bool
  | f :: fs, v :: vs => tooBig f v || tooBigFields fs vs
  | _, _ => false
termination_by structural fs => fs
def tooBigCases : List (Nat × Option Schema) → Nat → Option Value → Bool
  | [], _, _ => false
  | (t, none) :: cs, tag, p => if t = tag then false else tooBigCases cs tag p
  | (t, some s) :: cs, tag, p =>
    if t = tag then (match p with | some v => tooBig s v | none => false) else tooBigCases cs tag p
termination_by structural cs => cs
end

mutual
/-- sufficient syntactic condition for "every encoding of a value of this schema has at least one
byte" -/
def nonEmpty : Schema → Bool
  | .u n => decide (0 < n)
  | .fixed n => decide (0 < n)
  | .struct fs => nonEmptyFields fs
  | .enum w _ => decide (0 < w)
  | _ => true
termination_by structural s => s
def nonEmptyFields : List Schema → Bool
  | [] => false
  | f :: fs => nonEmpty f || nonEmptyFields fs
termination_by structural fs => fs
end

mutual
/-- Every `vec` element type and every `map` entry type inside the schema has no zero-length
encoding.  This is the side condition of `Props.C12.roundtrip`: the decoder loops of `vec.rs` and
`map.rs` stop on empty input, so a collection of zero-length elements is encoded as an empty
payload and decoded as the empty collection (`Props.C12.roundtrip_fails_without_progress`). -/
def Progress : Schema → Bool
  | .vec e => nonEmpty e && Progress e
  | .opt e => Progress e
  | .struct fs => ProgressFields fs
  | .enum _ cs => ProgressCases cs
  | .map k v => (nonEmpty k || nonEmpty v) && Progress k && Progress v
  | _ => true
termination_by structural s => s
def ProgressFields : List Schema → Bool
  | [] => true
  | f :: fs => Progress f && ProgressFields fs
termination_by structural fs => fs
def ProgressCases : List (Nat × Option Schema) → Bool
  | [] => true
  | (_, none) :: cs => ProgressCases cs
  | (_, some s) :: cs => Progress s && ProgressCases cs
termination_by structural cs => cs
end

/-- `kvs.foldlM insert acc` -/
def insertAll : List (Value × Value) → List (Value × Value) → Option (List (Value × Value))
  | [], acc => some acc
  | kv :: rest, acc =>
    match insertKv kv.1 kv.2 acc with
    | none => none
    | some acc' => insertAll rest acc'

end MlsVerif.Codec
