/-
Model of `mls-rs/src/group/secret_tree.rs`: `SecretKeyRatchet` (`next_message_key`,
`get_message_key` with the out-of-order history and the 1024-generation window) and the lazily
consumed `SecretTree` (`consume_node`, `take_leaf_ratchet`, `next_message_key`,
`message_key_generation`).  Maps (`LargeMap`) are association lists keyed by `Nat`, with replace-on-
insert; mutation through `&mut self` becomes returning the new value, *including on the error paths*
(the Rust code mutates before it fails in places, and the model keeps that; the one place that was
repaired — a far-future `message_key_generation` on a leaf without ratchets — returns the tree as is).

Generations are `Nat`; the one `u32` addition that can overflow (`generation + 1024`) is an explicit
error `overflow` (Rust: debug panic / release wrap).

Imports only the model's own `TreeMath` and `KeySchedule` (linked into the native driver).
-/
import MlsVerif.Model.TreeMath
import MlsVerif.Model.KeySchedule

namespace MlsVerif.ST
open MlsVerif.KS MlsVerif.TreeMath

def maxRatchetBackHistory : Nat := 1024

inductive KeyType | handshake | application
  deriving DecidableEq, Repr

inductive Err
  | keyMissing (g : Nat)
  | invalidFutureGeneration (g : Nat)
  | leafNodeNoChildren
  | invalidLeafConsumption
  | overflow
  deriving DecidableEq, Repr

structure MsgKey (B : Type) where
  nonce : B
  key : B
  generation : Nat

/-- association-list map with the `HashMap` operations the code uses -/
def mapRemove {V : Type} (m : List (Nat × V)) (k : Nat) : Option V × List (Nat × V) :=
  ((m.find? (·.1 == k)).map (·.2), m.filter (fun e => !(e.1 == k)))

def mapInsert {V : Type} (m : List (Nat × V)) (k : Nat) (v : V) : List (Nat × V) :=
  (k, v) :: m.filter (fun e => !(e.1 == k))

def mapGet {V : Type} (m : List (Nat × V)) (k : Nat) : Option V :=
  (m.find? (·.1 == k)).map (·.2)

structure Ratchet (B : Type) where
  secret : B
  generation : Nat
  history : List (Nat × MsgKey B)

variable {B : Type}

/-- `SecretKeyRatchet::derive_secret`: context is `generation.to_be_bytes()` -/
def Ratchet.derive (P : Prim B) (r : Ratchet B) (label : String) (len : Nat) : B :=
  expandWithLabel P r.secret label (P.u32be r.generation) (some len)

/-- `SecretKeyRatchet::new` -/
def Ratchet.new (P : Prim B) (secret : B) (kt : KeyType) : Ratchet B :=
  let label := match kt with
    | .handshake => "handshake"
    | .application => "application"
  { secret := expandWithLabel P secret label P.empty none, generation := 0, history := [] }

/-- `SecretKeyRatchet::next_message_key` -/
def Ratchet.next (P : Prim B) (r : Ratchet B) : MsgKey B × Ratchet B :=
  let key : MsgKey B :=
    { nonce := r.derive P "nonce" P.nn, key := r.derive P "key" P.nk, generation := r.generation }
  (key, { r with secret := r.derive P "secret" P.nh, generation := r.generation + 1 })

/-- the `while self.generation < generation` loop: derive and remember `n` skipped keys -/
def Ratchet.skip (P : Prim B) : Nat → Ratchet B → Ratchet B
  | 0, r => r
  | n + 1, r =>
    let (k, r') := r.next P
    Ratchet.skip P n { r' with history := mapInsert r'.history k.generation k }

/-- `SecretKeyRatchet::get_message_key` (feature `out_of_order`, which the default build enables) -/
def Ratchet.get (P : Prim B) (r : Ratchet B) (g : Nat) : Except Err (MsgKey B) × Ratchet B :=
  if g < r.generation then
    match mapRemove r.history g with
    | (some k, h) => (.ok k, { r with history := h })
    | (none, _) => (.error (.keyMissing g), r)
  else if r.generation + maxRatchetBackHistory ≥ 2 ^ 32 then (.error .overflow, r)
  else if g > r.generation + maxRatchetBackHistory then (.error (.invalidFutureGeneration g), r)
  else
    let r' := Ratchet.skip P (g - r.generation) r
    let (k, r'') := r'.next P
    (.ok k, r'')

inductive Node (B : Type)
  | secret (s : B)
  | ratchet (application handshake : Ratchet B)

structure SecretTree (B : Type) where
  known : List (Nat × Node B)
  leafCount : Nat

/-- `SecretTree::new`: the encryption secret sits at the root -/
def SecretTree.new (leafCount : Nat) (encryptionSecret : B) : SecretTree B :=
  { known := [(root leafCount, .secret encryptionSecret)], leafCount := leafCount }

/-- `consume_node`: the node is taken out *before* the children are computed -/
def SecretTree.consumeNode (P : Prim B) (t : SecretTree B) (index : Nat) : Except Err Unit × SecretTree B :=
  let (node, known) := mapRemove t.known index
  let t := { t with known := known }
  match node with
  | some (.secret s) =>
    match left? index, right? index with
    | some l, some r =>
      let ls := expandWithLabel P s "tree" (P.ascii "left") none
      let rs := expandWithLabel P s "tree" (P.ascii "right") none
      (.ok (), { t with known := mapInsert (mapInsert t.known l (.secret ls)) r (.secret rs) })
    | _, _ => (.error .leafNodeNoChildren, t)
  | _ => (.ok (), t)

def SecretTree.consumePath (P : Prim B) : List Nat → SecretTree B → Except Err Unit × SecretTree B
  | [], t => (.ok (), t)
  | i :: rest, t =>
    match t.consumeNode P i with
    | (.ok (), t') => SecretTree.consumePath P rest t'
    | (.error e, t') => (.error e, t')

/-- `take_leaf_ratchet`: returns the ratchets of node `index` and the tree *without* that entry -/
def SecretTree.takeLeafRatchet (P : Prim B) (t : SecretTree B) (index : Nat) :
    Except Err (Ratchet B × Ratchet B) × SecretTree B :=
  let toRatchets : Node B → Ratchet B × Ratchet B
    | .ratchet a h => (a, h)
    | .secret s => (Ratchet.new P s .application, Ratchet.new P s .handshake)
  match mapRemove t.known index with
  | (some node, known) => (.ok (toRatchets node), { t with known := known })
  | (none, _) =>
    let path := ((directCopath index t.leafCount).map (·.1)).reverse
    match SecretTree.consumePath P path t with
    | (.error e, t') => (.error e, t')
    | (.ok (), t') =>
      match mapRemove t'.known index with
      | (some node, known) => (.ok (toRatchets node), { t' with known := known })
      | (none, _) => (.error .invalidLeafConsumption, t')

/-- `SecretTree::next_message_key` -/
def SecretTree.nextMessageKey (P : Prim B) (t : SecretTree B) (index : Nat) (kt : KeyType) :
    Except Err (MsgKey B) × SecretTree B :=
  match t.takeLeafRatchet P index with
  | (.error e, t') => (.error e, t')
  | (.ok (a, h), t') =>
    match kt with
    | .application =>
      let (k, a') := a.next P
      (.ok k, { t' with known := mapInsert t'.known index (.ratchet a' h) })
    | .handshake =>
      let (k, h') := h.next P
      (.ok k, { t' with known := mapInsert t'.known index (.ratchet a h') })

/-- `known_secrets` has an entry at `index` and it is a `SecretTreeNode::Ratchet` (the leaf has been
started).  A stored `Secret` entry and no entry at all both give `false`. -/
def SecretTree.hasRatchet (t : SecretTree B) (index : Nat) : Bool :=
  match mapGet t.known index with
  | some (.ratchet _ _) => true
  | _ => false

/-- `SecretTree::message_key_generation` (repaired): a generation beyond `MAX_RATCHET_BACK_HISTORY`
for a leaf that has no ratchets yet is refused *before* anything is touched (the ratchets that would
be derived start at generation 0, so the request is out of their window anyway); otherwise as before:
`take_leaf_ratchet`, ask the ratchet, store the ratchets back. -/
def SecretTree.messageKeyGeneration (P : Prim B) (t : SecretTree B) (index : Nat) (kt : KeyType) (g : Nat) :
    Except Err (MsgKey B) × SecretTree B :=
  if g > maxRatchetBackHistory && !t.hasRatchet index then
    (.error (.invalidFutureGeneration g), t)
  else
    match t.takeLeafRatchet P index with
    | (.error e, t') => (.error e, t')
    | (.ok (a, h), t') =>
      match kt with
      | .application =>
        let (res, a') := a.get P g
        (res, { t' with known := mapInsert t'.known index (.ratchet a' h) })
      | .handshake =>
        let (res, h') := h.get P g
        (res, { t' with known := mapInsert t'.known index (.ratchet a h') })

end MlsVerif.ST
