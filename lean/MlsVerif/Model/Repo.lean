/-
Model of the prior-epoch repository and of the two shipped `GroupStateStorage` back ends:
`group/state_repo.rs` (`GroupStateRepository`: `insert`, `find_max_id`, `get_epoch_mut`, `write_to_storage`),
`storage_provider/in_memory/group_state_storage.rs` (`InMemoryGroupData`: a deque with *index arithmetic*
`epoch_id - front.id`, `insert_epoch`, `update_epoch`, `trim_epochs`) and
`mls-rs-provider-sqlite/src/group_state.rs` (`update_group_state`: rows keyed by `(group, epoch_id)`,
`DELETE … WHERE epoch_id <= max_inserted - retention` inside the write transaction).

An epoch record is `(id, payload)`; payloads are numbers (an update changes the payload).
The SQL transaction is one atomic step (assumption, stated in DESIGN.md).

Import-free (linked into the native driver).
-/
namespace MlsVerif.Repo

abbrev Rec := Nat × Nat

/-! ### in-memory back end -/

/-- `InMemoryGroupData::get_epoch`: index `epoch_id - front.id` into the deque -/
def memGet (d : List Rec) (id : Nat) : Option Rec :=
  match d with
  | [] => none
  | (f, _) :: _ => if id < f then none else d[id - f]?

/-- `update_epoch`: overwrite the record found by `get_mut_epoch`, if any -/
def memUpdate (d : List Rec) (r : Rec) : List Rec :=
  match d with
  | [] => []
  | (f, _) :: _ => if r.1 < f then d else if r.1 - f < d.length then d.set (r.1 - f) r else d

/-- `trim_epochs` -/
def memTrim (d : List Rec) (ret : Nat) : List Rec := d.drop (d.length - ret)

/-- `InMemoryGroupStateStorage::write` (epoch part) -/
def memWrite (d : List Rec) (ret : Nat) (inserts updates : List Rec) : List Rec :=
  memTrim (updates.foldl memUpdate (d ++ inserts)) ret

def memMax (d : List Rec) : Option Nat := d.getLast?.map (·.1)

/-! ### SQLite back end: a table keyed by id -/

def sqlGet (t : List Rec) (id : Nat) : Option Rec := t.find? (·.1 == id)

def sqlUpdate (t : List Rec) (r : Rec) : List Rec := t.map fun x => if x.1 == r.1 then r else x

/-- `update_group_state` (epoch part).  `none` = primary-key violation on insert (the transaction fails). -/
def sqlWrite (t : List Rec) (ret : Nat) (inserts updates : List Rec) : Option (List Rec) :=
  if inserts.any (fun r => t.any (·.1 == r.1)) || !(inserts.map (·.1)).Nodup then none
  else
    let t1 := updates.foldl sqlUpdate (t ++ inserts)
    match inserts.getLast? with
    | none => some t1
    | some (m, _) => if m ≥ ret then some (t1.filter fun x => !(x.1 ≤ m - ret)) else some t1

def sqlMax (t : List Rec) : Option Nat := (t.map (·.1)).foldl (fun a x => some (max (a.getD 0) x)) none

/-! ### the repository in front of a back end -/

inductive Backend | mem | sql
  deriving DecidableEq, Repr

structure Repo where
  backend : Backend
  ret : Nat
  stored : List Rec := []
  inserts : List Rec := []            -- pending inserts, oldest first
  updates : List Rec := []            -- read-through cache of stored epochs that were touched
  deriving Repr

inductive Err | invalidEpoch | storage
  deriving DecidableEq, Repr

def Repo.storedMax (r : Repo) : Option Nat :=
  match r.backend with
  | .mem => memMax r.stored
  | .sql => sqlMax r.stored

/-- `find_max_id` -/
def Repo.findMaxId (r : Repo) : Option Nat :=
  match r.inserts.getLast? with
  | some (id, _) => some id
  | none => r.storedMax

/-- `GroupStateRepository::insert` -/
def Repo.insert (r : Repo) (rec : Rec) : Except Err Repo :=
  match r.findMaxId with
  | some m => if rec.1 ≠ m + 1 then .error .invalidEpoch else .ok { r with inserts := r.inserts ++ [rec] }
  | none => .ok { r with inserts := r.inserts ++ [rec] }

def Repo.storedGet (r : Repo) (id : Nat) : Option Rec :=
  match r.backend with
  | .mem => memGet r.stored id
  | .sql => sqlGet r.stored id

/-- `get_epoch_mut`: pending inserts (by index from the first pending id), then the update cache, then
storage (which populates the cache) -/
def Repo.getEpoch (r : Repo) (id : Nat) : Option Rec × Repo :=
  match r.inserts with
  | (min, _) :: _ =>
    if id ≥ min then (r.inserts[id - min]?, r)
    else
      match r.updates.find? (·.1 == id) with
      | some x => (some x, r)
      | none => match r.storedGet id with
        | some x => (some x, { r with updates := r.updates ++ [x] })
        | none => (none, r)
  | [] =>
    match r.updates.find? (·.1 == id) with
    | some x => (some x, r)
    | none => match r.storedGet id with
      | some x => (some x, { r with updates := r.updates ++ [x] })
      | none => (none, r)

/-- `GroupStateRepository::resumption_secret` for a resumption PSK of this repository's OWN group: pending inserts
(same "at or above the first pending id, no fall-through" rule as `get_epoch_mut`), then the update cache, then the
storage — read-only, the update cache is not populated.  A PSK of ANOTHER group skips the two caches
(`resumptionSecretOther`): the caches only hold epochs of the own group (fix F32). -/
def Repo.resumptionSecret (r : Repo) (id : Nat) : Option Rec :=
  match r.inserts with
  | (min, _) :: _ =>
    if id ≥ min then r.inserts[id - min]?
    else
      match r.updates.find? (·.1 == id) with
      | some x => some x
      | none => r.storedGet id
  | [] =>
    match r.updates.find? (·.1 == id) with
    | some x => some x
    | none => r.storedGet id

/-- a resumption PSK of another group: the other group's stored records only (`other` = that group's table in the same
storage) -/
def Repo.resumptionSecretOther (r : Repo) (other : List Rec) (id : Nat) : Option Rec :=
  match r.backend with
  | .mem => memGet other id
  | .sql => sqlGet other id

/-- `write_to_storage` (epoch part): `failWrite` / `failKp` are the injected faults of the storage write
and of the key-package deletion that follows it.  Returns the result and the repository afterwards. -/
def Repo.write (r : Repo) (failWrite failKp : Bool) : Except Err Unit × Repo :=
  if failWrite then (.error .storage, r)
  else
    let stored' : Option (List Rec) := match r.backend with
      | .mem => some (memWrite r.stored r.ret r.inserts r.updates)
      | .sql => sqlWrite r.stored r.ret r.inserts r.updates
    match stored' with
    | none => (.error .storage, r)
    | some s =>
      let r' := { r with stored := s, inserts := [], updates := [] }
      if failKp then (.error .storage, r') else (.ok (), r')

/-- what a freshly loaded group sees: the storage only -/
def Repo.reload (r : Repo) : Repo := { r with inserts := [], updates := [] }

end MlsVerif.Repo
