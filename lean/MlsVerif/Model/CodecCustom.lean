/-
Hand-written (non-derived) codecs of mls-rs, modelled on top of the generic codec.

Derived and hand-written codecs are nested into each other in mls-rs (a `Proposal` sits inside the
derived `Content` inside the derived `FramedContent` inside the hand-written `PublicMessage`), so
this file works with *codec records* (`Codec`: well-typedness, encoder, size, decoder) and
combinators on them.  `Codec.ofSchema` embeds every generic schema; `seq`, `tagged`, `vec`, `opt`
are the derived struct / enum / `Vec` / `Option` over arbitrary component codecs; `dep`, `optIf`,
`refine`, `zeroPadded`, `loopNG` are the shapes used by the hand-written impls.

Imports `Proofs.CodecDec` (core Lean only, no Mathlib) because the two Rust loops without
zero-progress guard (`ExtensionList`, `SecretKeyRatchet::history`) need a progress proof for their
element decoder to be accepted as terminating.
-/
import MlsVerif.Proofs.CodecDec

namespace MlsVerif.Codec

structure Codec where
  wf : Value → Bool
  enc : Value → Except CodecErr Bytes
  size : Value → Nat
  dec : Dec Value
  /-- claim: every encoding has at least one byte (checked by `Lawful.nepos`) -/
  ne : Bool

namespace Codec

def ofSchema (s : Schema) : Codec := ⟨WF s, encode s, MlsVerif.Codec.size s, decode s, nonEmpty s⟩

/-! ## Derived struct over component codecs -/

def seqWF : List Codec → List Value → Bool
  | [], [] => true
  | c :: cs, v :: vs => c.wf v && seqWF cs vs
  | _, _ => false

def seqEnc : List Codec → List Value → Except CodecErr Bytes
  | [], [] => .ok []
  | c :: cs, v :: vs =>
    match c.enc v with
    | .error e => .error e
    | .ok b =>
      match seqEnc cs vs with
      | .error e => .error e
      | .ok bs => .ok (b ++ bs)
  | _, _ => .error .illTyped

def seqSize : List Codec → List Value → Nat
  | c :: cs, v :: vs => c.size v + seqSize cs vs
  | _, _ => 0

def seqDec : List Codec → Dec (List Value)
  | [], b => .ok ([], b)
  | c :: cs, b =>
    match c.dec b with
    | .error e => .error e
    | .ok (v, r) =>
      match seqDec cs r with
      | .error e => .error e
      | .ok (vs, r') => .ok (v :: vs, r')

def seqNe : List Codec → Bool
  | [] => false
  | c :: cs => c.ne || seqNe cs

def seq (cs : List Codec) : Codec where
  wf v := match v with | .tuple vs => seqWF cs vs | _ => false
  enc v := match v with | .tuple vs => seqEnc cs vs | _ => .error .illTyped
  size v := match v with | .tuple vs => seqSize cs vs | _ => 0
  dec b := match seqDec cs b with | .error e => .error e | .ok (vs, r) => .ok (.tuple vs, r)
  ne := seqNe cs

/-! ## Dependent pair: the layout of the second part is a function of the first value
(`PublicMessage`: auth data and membership tag depend on the framed content). -/

def dep (c1 : Codec) (f : Value → Codec) : Codec where
  wf v := match v with | .tuple [v1, v2] => c1.wf v1 && (f v1).wf v2 | _ => false
  enc v := match v with
    | .tuple [v1, v2] =>
      match c1.enc v1 with
      | .error e => .error e
      | .ok b1 =>
        match (f v1).enc v2 with
        | .error e => .error e
        | .ok b2 => .ok (b1 ++ b2)
    | _ => .error .illTyped
  size v := match v with | .tuple [v1, v2] => c1.size v1 + (f v1).size v2 | _ => 0
  dec b :=
    match c1.dec b with
    | .error e => .error e
    | .ok (v1, r) =>
      match (f v1).dec r with
      | .error e => .error e
      | .ok (v2, r') => .ok (.tuple [v1, v2], r')
  ne := c1.ne

/-! ## `Option<T>` field written without presence byte; presence is known from context
(`confirmation_tag`: present iff the content is a commit; `membership_tag`: iff sender is a member) -/

def optIf (present : Bool) (c : Codec) : Codec where
  wf v := match v with | .none => !present | .some x => present && c.wf x | _ => false
  enc v := match v with | .none => .ok [] | .some x => c.enc x | _ => .error .illTyped
  size v := match v with | .some x => c.size x | _ => 0
  dec b :=
    if present then
      match c.dec b with
      | .error e => .error e
      | .ok (x, r) => .ok (.some x, r)
    else .ok (.none, b)
  ne := false

/-! ## `Option<T>`, `Vec<T>` over a component codec -/

def opt (c : Codec) : Codec where
  wf v := match v with | .none => true | .some x => c.wf x | _ => false
  enc v := match v with
    | .none => .ok [0]
    | .some x => (match c.enc x with | .error e => .error e | .ok b => .ok (1 :: b))
    | _ => .error .illTyped
  size v := match v with | .none => 1 | .some x => 1 + c.size x | _ => 0
  dec b :=
    match b with
    | [] => .error .unexpectedEOF
    | x :: r =>
      if x = 0 then .ok (.none, r)
      else if x = 1 then
        match c.dec r with
        | .error e => .error e
        | .ok (v, r') => .ok (.some v, r')
      else .error (.optionOutOfRange x)
  ne := true

def vec (c : Codec) : Codec where
  wf v := match v with | .list vs => vs.all c.wf | _ => false
  enc v := match v with
    | .list vs =>
      (match encodeList c.enc vs with
       | .error e => .error e
       | .ok buf => encodeLenPrefixed buf)
    | _ => .error .illTyped
  size v := match v with
    | .list vs => hdrLen (sumBy c.size vs) + sumBy c.size vs
    | _ => 0
  dec b :=
    match decodeCollection (decodeLoop c.dec) b with
    | .error e => .error e
    | .ok (vs, r) => .ok (.list vs, r)
  ne := true

/-! ## Tagged union with optional fall-through case (`Proposal`, `Credential`, `CommitEffect`,
derived enums with hand-written payloads) -/

def caseOfC : List (Nat × Option Codec) → Nat → Option (Option Codec)
  | [], _ => none
  | (t, o) :: cs, tag => if t = tag then some o else caseOfC cs tag

/-- `cases`: known discriminants, unit (`none`) or with payload.  `dflt`: codec of the payload of
every other discriminant (`Proposal::Custom`, `Credential::Custom`); without it unknown
discriminants are `UnsupportedEnumDiscriminant`.  `reserved`/`err`: discriminants that are refused
for the fall-through case with `Error::Custom(err)`, by the encoder (`proposal.rs:472-481`) and,
before the payload is read, by the decoder (`proposal.rs:516-519`); a fall-through value with a
reserved discriminant is not well formed, so the well-formed values are the ones the tagged layer
itself never refuses to encode (`tagged_enc_wf`). -/
def tagged (w : Nat) (cases : List (Nat × Option Codec)) (dflt : Option Codec)
    (reserved : Nat → Bool) (err : UInt8) : Codec where
  wf v := match v with
    | .variant tag p =>
      decide (tag < 256 ^ w) &&
      (match caseOfC cases tag, p with
       | some none, none => true
       | some (some c), some x => c.wf x
       | none, some x => (match dflt with | some d => !reserved tag && d.wf x | none => false)
       | _, _ => false)
    | _ => false
  enc v := match v with
    | .variant tag p =>
      if tag < 256 ^ w then
        match caseOfC cases tag, p with
        | some none, none => .ok (toBE w tag)
        | some (some c), some x =>
          (match c.enc x with | .error e => .error e | .ok b => .ok (toBE w tag ++ b))
        | none, some x =>
          (match dflt with
           | some d =>
             if reserved tag then .error (.custom err)
             else (match d.enc x with | .error e => .error e | .ok b => .ok (toBE w tag ++ b))
           | none => .error .illTyped)
        | _, _ => .error .illTyped
      else .error .illTyped
    | _ => .error .illTyped
  size v := match v with
    | .variant tag p =>
      w + (match caseOfC cases tag, p with
           | some (some c), some x => c.size x
           | none, some x => (match dflt with | some d => d.size x | none => 0)
           | _, _ => 0)
    | _ => 0
  dec b :=
    match decodeU w b with
    | .error e => .error e
    | .ok (tag, r) =>
      match caseOfC cases tag with
      | some none => .ok (.variant tag none, r)
      | some (some c) =>
        (match c.dec r with | .error e => .error e | .ok (x, r') => .ok (.variant tag (some x), r'))
      | none =>
        match dflt with
        | some d =>
          if reserved tag then .error (.custom err)
          else
            (match d.dec r with
             | .error e => .error e
             | .ok (x, r') => .ok (.variant tag (some x), r'))
        | none => .error .unsupportedEnumDiscriminant
  ne := decide (0 < w)

/-! ## Decoder-side refinement (`LeafIndex`): the derived encoder writes the inner value unchecked,
the hand-written decoder rejects values outside the predicate with `Error::Custom(err)`. -/

def refine (c : Codec) (p : Value → Bool) (err : UInt8) : Codec where
  wf v := c.wf v && p v
  enc := c.enc
  size := c.size
  dec b :=
    match c.dec b with
    | .error e => .error e
    | .ok (v, r) => if p v then .ok (v, r) else .error (.custom err)
  ne := c.ne

/-! ## Trailing zero padding (`PrivateMessageContent::mls_decode`, `framing.rs:248-256`): after the
content everything left in the reader must be zero; the reader is left where it is. -/

def zeroPadded (c : Codec) (err : UInt8) : Codec where
  wf := c.wf
  enc := c.enc
  size := c.size
  dec b :=
    match c.dec b with
    | .error e => .error e
    | .ok (v, r) => if r.any (· != 0) then .error (.custom err) else .ok (v, r)
  ne := c.ne

/-! ## Loops without zero-progress guard -/

/-- `while !data.is_empty() { let x = T::mls_decode(data)?; step(acc, x)? }` for an element decoder
that is known to consume at least one byte.  The Rust loops at `extension/list.rs:43-59` and
`secret_tree.rs:402-407` have no `data.len() == before` check; they terminate only because their
element types have no zero-length encoding, which here is the proof argument `hf`. -/
def loopNG {σ} (f : Dec Value) (hf : ∀ d x r, f d = .ok (x, r) → r.length < d.length)
    (step : σ → Value → Except CodecErr σ) (acc : σ) (data : Bytes) : Except CodecErr σ :=
  if data.isEmpty then .ok acc
  else
    match _h : f data with
    | .error e => .error e
    | .ok (x, rest) =>
      match step acc x with
      | .error e => .error e
      | .ok acc' => loopNG f hf step acc' rest
termination_by data.length
decreasing_by exact hf _ _ _ (by assumption)

end Codec

/-! ## Concrete codecs -/

open Codec

/-- `LeafIndex` (`tree_kem/node.rs:31-33` derive `MlsSize, MlsEncode`; `:89-94` decode with
`MAX_LEAF_INDEX = 2^24 - 1`, error `Custom(6)`). -/
def leafIndexOk : Value → Bool
  | .nat n => decide (n ≤ 16777215)
  | _ => false

def leafIndex : Codec := refine (ofSchema (.u 4)) leafIndexOk 6

/-- `Sender` (`framing.rs:66-80`, all features) -/
def senderSchema : Schema := .enum 1 [(1, some (.u 4)), (2, some (.u 4)), (3, none), (4, none)]

/-- `ContentType` (`framing.rs:38-45`) -/
def contentTypeSchema : Schema := .enum 1 [(1, none), (2, none), (3, none)]

/-- `WireFormat` (`framing.rs:659-665`) -/
def wireFormatSchema : Schema := .enum 2 [(1, none), (2, none), (3, none), (4, none), (5, none)]

/-- `ProposalType`, `CredentialType`, `ExtensionType`: transparent `u16` -/
def u16Schema : Schema := .struct [.u 2]

/-- `Extension { extension_type: ExtensionType(u16), extension_data: Vec<u8> (byte_vec) }` -/
def extensionSchema : Schema := .struct [.struct [.u 2], .bytes]

theorem extension_progress (d : Bytes) (x : Value) (r : Bytes)
    (h : decode extensionSchema d = .ok (x, r)) : r.length < d.length := by
  obtain ⟨_, c, hc, _, _, hpos⟩ := decSpec_all extensionSchema d x r h
  have := hpos (by decide)
  rw [hc, List.length_append]; omega

/-- `ext.extension_type` of a decoded extension -/
def extType : Value → Option Nat
  | .tuple [.tuple [.nat t], _] => some t
  | _ => none

/-- `list.0.iter().any(|e| e.extension_type == ext_type)` then `push` (`list.rs:47-56`) -/
def extStep (acc : List Value) (ext : Value) : Except CodecErr (List Value) :=
  if acc.any (fun e => extType e == extType ext) then .error (.custom 1) else .ok (acc ++ [ext])

def extTypesDistinct : List Value → Bool
  | [] => true
  | e :: es => !(es.any (fun x => extType x == extType e)) && extTypesDistinct es

/-- `ExtensionList` (`extension/list.rs`): `MlsSize`/`MlsEncode` derived on `Vec<Extension>`,
decoder hand-written: no zero-progress guard, duplicate extension types rejected with `Custom(1)`. -/
def extensionList : Codec where
  wf v := WF (.vec extensionSchema) v &&
    (match v with | .list es => extTypesDistinct es | _ => false)
  enc := encode (.vec extensionSchema)
  size := MlsVerif.Codec.size (.vec extensionSchema)
  dec b :=
    match decodeCollection (loopNG (decode extensionSchema) extension_progress extStep []) b with
    | .error e => .error e
    | .ok (es, r) => .ok (.list es, r)
  ne := true

/-- `Proposal` (`proposal.rs:425-530`, features `by_ref_proposal`, `psk`, `custom_proposal`; without
`self_remove_proposal` and `gsma_rcs_e2ee_feature`).  Component codecs are parameters. -/
def proposal (add update remove psk reInit externalInit : Codec) : Codec :=
  tagged 2 [(1, some add), (2, some update), (3, some remove), (4, some psk), (5, some reInit),
            (6, some externalInit), (7, some extensionList)]
    (some (ofSchema .bytes)) (fun t => decide (t ≤ 7)) 2

/-- `Credential` (`identity/credential.rs:176-217`) -/
def credential (basic x509 : Codec) : Codec :=
  tagged 2 [(1, some basic), (2, some x509)] (some (ofSchema .bytes)) (fun _ => false) 0

/-- `Content` (`framing.rs:132-139`, derived enum with hand-written `Proposal` payload) -/
def content (applicationData proposal commit : Codec) : Codec :=
  tagged 1 [(1, some applicationData), (2, some proposal), (3, some commit)] none
    (fun _ => false) 0

/-- `FramedContent` (`framing.rs:670-680`, derived) -/
def framedContent (content : Codec) : Codec :=
  seq [ofSchema .bytes, ofSchema (.u 8), ofSchema senderSchema, ofSchema .bytes, content]

/-- `content.content_type() == ContentType::Commit` -/
def fcIsCommit : Value → Bool
  | .tuple [_, _, _, _, .variant 3 _] => true
  | _ => false

/-- `matches!(content.sender, Sender::Member(_))` -/
def fcSenderIsMember : Value → Bool
  | .tuple [_, _, .variant 1 _, _, _] => true
  | _ => false

/-- one-field byte-string newtypes: `MessageSignature`, `ConfirmationTag`, `MembershipTag` -/
def bytesNewtype : Codec := ofSchema (.struct [.bytes])

/-- `FramedContentAuthData` (`message_signature.rs:22-66`): value `tuple [signature, tag?]` -/
def framedContentAuthData (isCommit : Bool) : Codec :=
  seq [bytesNewtype, optIf isCommit bytesNewtype]

/-- `PublicMessage` (`framing.rs:148-197`): value `tuple [content, tuple [auth, membership_tag?]]` -/
def publicMessage (content : Codec) : Codec :=
  dep (framedContent content) (fun fc =>
    seq [framedContentAuthData (fcIsCommit fc), optIf (fcSenderIsMember fc) bytesNewtype])

/-- `AuthenticatedContent` (`message_signature.rs:68-152`):
value `tuple [wire_format, tuple [content, auth]]` -/
def authenticatedContent (content : Codec) : Codec :=
  seq [ofSchema wireFormatSchema,
       dep (framedContent content) (fun fc => framedContentAuthData (fcIsCommit fc))]

/-- `AuthenticatedContentTBS` (`message_signature.rs:154-183`, encode only):
value `tuple [protocol_version, wire_format, content, context?]` -/
def authenticatedContentTBS (content groupContext : Codec) (withContext : Bool) : Codec :=
  seq [ofSchema (.struct [.u 2]), ofSchema wireFormatSchema, framedContent content,
       optIf withContext groupContext]

/-- `PrivateMessageContent` (`framing.rs:199-260`): the content is written without its
discriminant, the content type comes from the enclosing `PrivateMessage`. -/
def privateMessageContent (applicationData proposal commit : Codec) (contentType : Nat) : Codec :=
  zeroPadded
    (seq [if contentType = 1 then applicationData else if contentType = 2 then proposal else commit,
          framedContentAuthData (contentType == 3)]) 5

/-- `ProposalInfo<T>` (`proposal_filter/bundle.rs:555-595`).  `ProposalSource::ByReference(ProposalRef)`:
`ProposalRef(HashReference)` (`proposal_ref.rs`) over `HashReference(Vec<u8>)` (`hash_reference.rs`), two nested
newtypes (same bytes as one; the value shape follows the Rust types so that the generated `T_ProposalSource` is
this schema by `rfl`, `Gen/Codecs.lean`). -/
def proposalSourceSchema : Schema :=
  .enum 1 [(1, none), (2, some (.struct [.struct [.bytes]])), (3, none)]

def proposalInfo (p : Codec) : Codec :=
  seq [p, ofSchema senderSchema, ofSchema proposalSourceSchema]

/-- `CommitEffect` (`message_processor.rs:115-170`) -/
def commitEffect (newEpoch reInitInfo : Codec) : Codec :=
  tagged 1 [(1, some newEpoch), (2, some (seq [newEpoch, ofSchema senderSchema])),
            (3, some reInitInfo)] none (fun _ => false) 0

/-! ### `SecretKeyRatchet` (`secret_tree.rs:355-412`, feature `out_of_order`) -/

/-- `MessageKeyData { nonce, key (byte_vec), generation: u32 }` -/
def messageKeyDataSchema : Schema := .struct [.bytes, .bytes, .u 4]

theorem messageKeyData_progress (d : Bytes) (x : Value) (r : Bytes)
    (h : decode messageKeyDataSchema d = .ok (x, r)) : r.length < d.length := by
  obtain ⟨_, c, hc, _, _, hpos⟩ := decSpec_all messageKeyDataSchema d x r h
  have := hpos (by decide)
  rw [hc, List.length_append]; omega

def mkdGeneration : Value → Nat
  | .tuple [_, _, .nat g] => g
  | _ => 0

/-- `items.insert(item.generation, item)` ignoring the previous entry (last one wins) -/
def insertOverwrite (g : Nat) (item : Value) : List (Nat × Value) → List (Nat × Value)
  | [] => [(g, item)]
  | (g', item') :: rest =>
    if g < g' then (g, item) :: (g', item') :: rest
    else if g = g' then (g, item) :: rest
    else (g', item') :: insertOverwrite g item rest

def historyStep (acc : List (Nat × Value)) (item : Value) : Except CodecErr (List (Nat × Value)) :=
  .ok (insertOverwrite (mkdGeneration item) item acc)

def gensAscending : List Value → Bool
  | [] => true
  | [_] => true
  | a :: b :: rest => decide (mkdGeneration a < mkdGeneration b) && gensAscending (b :: rest)

/-- The `history` field: a map `generation ↦ MessageKeyData`, written as the vector of its values.
Value: the list of items in ascending generation order (the order a `BTreeMap` iterates in; for the
`std` `HashMap` the iteration order of `values()` is unspecified, see the report). -/
def ratchetHistory : Codec where
  wf v := WF (.vec messageKeyDataSchema) v &&
    (match v with | .list items => gensAscending items | _ => false)
  enc := encode (.vec messageKeyDataSchema)
  size := MlsVerif.Codec.size (.vec messageKeyDataSchema)
  dec b :=
    match decodeCollection
        (loopNG (decode messageKeyDataSchema) messageKeyData_progress historyStep []) b with
    | .error e => .error e
    | .ok (m, r) => .ok (.list (m.map (·.2)), r)
  ne := true

def secretKeyRatchet : Codec := seq [ofSchema .bytes, ofSchema (.u 4), ratchetHistory]

end MlsVerif.Codec
