import MlsVerif.Model.Hpke
import MlsVerif.Model.Hkdf
/-
Byte-level instances for `Model/Hpke.lean`: `ByteArray` operations, the reference HKDF of
`Model/Hkdf.lean` as `KdfType`, and the parameters of the MLS cipher suites 1..7 as the providers
configure them (`mls-rs-crypto-traits/src/{kem,kdf,aead,ec}.rs`: `KemId::new`, `KemId::n_secret`,
`KdfId::new`, `AeadId::new`, `AeadId::key_size`, `AeadId::nonce_size`, `Curve::secret_key_size`,
`Curve::public_key_size`, `Curve::hpke_sampling_method`).

There is no Lean model of AES-GCM / ChaCha20-Poly1305 / the curves: the AEAD and DH *functions* of
these records return `none`.  Everything that only needs the KDF (key schedule, exporter, DHKEM
`ExtractAndExpand`, `DeriveKeyPair` candidates) is computed on real bytes.

Import-free apart from Model files: linked into the native driver.

The KDF here is RFC 5869 with the one error all providers share (`len > 255·Nh`).  Provider-specific
input guards that are NOT part of it (candidate differences between providers):
  * `expand`: OpenSSL and RustCrypto reject `prk.len() < Nh` (`TooShortKey`,
    openssl/src/kdf.rs:84, rustcrypto/src/kdf.rs:69); AWS-LC does not (awslc/src/kdf.rs:47).
  * `extract`: OpenSSL and RustCrypto reject an empty `ikm` (openssl/src/kdf.rs:97,
    rustcrypto/src/kdf.rs:86); AWS-LC does not (awslc/src/kdf.rs:68).  (Never hit from HPKE:
    every labelled ikm starts with "HPKE-v1".)
  * `expand`: OpenSSL refuses `info.len() > 1024` (doc comment openssl/src/kdf.rs:80) — reachable from
    `Context::export` with a long `exporter_context`.
  * `expand` with `len = 0`: OpenSSL errors, RustCrypto returns the empty string.
-/
namespace MlsVerif.Hpke.Bytes
open MlsVerif MlsVerif.Sha2

def ops : ByteOps ByteArray where
  cat a b := a ++ b
  size := ByteArray.size
  bytes b := b.data.toList
  ofBytes l := ByteArray.mk l.toArray

def hkdf (alg : HashAlg) (kdfId : Nat) : Kdf ByteArray where
  kdfId := kdfId
  extractSize := alg.outLen
  extract salt ikm := some (Hkdf.extract alg salt ikm)
  expand prk info len := Hkdf.expand alg prk info len

/-- what a provider's `cipher_suite_provider(cs)` fixes -/
structure SuiteParams where
  kemId : Nat
  kdfId : Nat
  aeadId : Nat
  alg : HashAlg
  /-- Nk, Nn of the AEAD -/
  nk : Nat
  nn : Nat := 12
  /-- `KemId::n_secret` -/
  nSecret : Nat
  /-- `Curve::secret_key_size`, `Curve::public_key_size` of the KEM curve -/
  nSk : Nat
  nPk : Nat
  sampling : Sampling

def suite? : Nat → Option SuiteParams
  | 1 => some { kemId := 0x0020, kdfId := 1, aeadId := 1, alg := .sha256, nk := 16, nSecret := 32,
                nSk := 32, nPk := 32, sampling := .hpkeWithoutBitmask }
  | 2 => some { kemId := 0x0010, kdfId := 1, aeadId := 1, alg := .sha256, nk := 16, nSecret := 32,
                nSk := 32, nPk := 65, sampling := .hpkeWithBitmask 0xFF }
  | 3 => some { kemId := 0x0020, kdfId := 1, aeadId := 3, alg := .sha256, nk := 32, nSecret := 32,
                nSk := 32, nPk := 32, sampling := .hpkeWithoutBitmask }
  | 4 => some { kemId := 0x0021, kdfId := 3, aeadId := 2, alg := .sha512, nk := 32, nSecret := 64,
                nSk := 56, nPk := 56, sampling := .hpkeWithoutBitmask }
  | 5 => some { kemId := 0x0012, kdfId := 3, aeadId := 2, alg := .sha512, nk := 32, nSecret := 64,
                nSk := 66, nPk := 133, sampling := .hpkeWithBitmask 0x01 }
  | 6 => some { kemId := 0x0021, kdfId := 3, aeadId := 3, alg := .sha512, nk := 32, nSecret := 64,
                nSk := 56, nPk := 56, sampling := .hpkeWithoutBitmask }
  | 7 => some { kemId := 0x0011, kdfId := 2, aeadId := 2, alg := .sha384, nk := 32, nSecret := 48,
                nSk := 48, nPk := 97, sampling := .hpkeWithBitmask 0xFF }
  | _ => none

/-- ids and sizes of the suite's AEAD; the functions are not modelled -/
def aeadStub (p : SuiteParams) : Aead ByteArray where
  aeadId := p.aeadId
  keySize := p.nk
  nonceSize := p.nn
  sealF _ _ _ _ := none
  openF _ _ _ _ := none

/-- sizes and sampling method of the suite's curve; the functions are not modelled -/
def dhStub (p : SuiteParams) : Dh ByteArray where
  dh _ _ := none
  toPublic _ := none
  sampling := p.sampling
  secretKeySize := p.nSk
  publicKeySize := p.nPk

/-- `DhKem::new(ecdh, kdf, kem_id as u16, kem_id.n_secret())` -/
def dhKem (p : SuiteParams) : DhKem ByteArray where
  ops := ops
  dh := dhStub p
  kdf := hkdf p.alg p.kdfId
  kemId := p.kemId
  nSecret := p.nSecret

/-- `Hpke::new(kem, kdf, Some(aead))` -/
def hpke (p : SuiteParams) : Hpke ByteArray (Option (ByteArray × ByteArray)) :=
  ofDhKem (dhKem p) (some (aeadStub p))

end MlsVerif.Hpke.Bytes
