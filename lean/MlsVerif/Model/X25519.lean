import MlsVerif.Model.Hex
/-! # X25519 (RFC 7748 §5), reference implementation on `Nat`

Used for ONE tie: the external public key a group publishes in its GroupInfo is
`DeriveKeyPair(external_secret).pk` (RFC 9420 §8, RFC 9180 §7.1.3), and for the X25519 suites (1, 3) the public key
is `X25519(sk, 9)`.  Like the SHA-2 / HMAC / HKDF reference this is executable reference code, checked against the
RFC's test vectors (`#guard`, a test) and, on every run, against the crypto providers through the `extpub` rows; it
is not proved correct.  Import-free (linked into the driver). -/
namespace MlsVerif.X25519

def p : Nat := 2 ^ 255 - 19

def leToNat (b : ByteArray) : Nat :=
  b.data.foldr (fun x acc => acc * 256 + x.toNat) 0

def natToLe (len n : Nat) : ByteArray :=
  ByteArray.mk ((List.range len).map fun i => UInt8.ofNat ((n >>> (8 * i)) % 256)).toArray

def sub (a b : Nat) : Nat := (a + p - b % p) % p

/-- `x ^ e mod p` by square-and-multiply over the 255 bits of `e` -/
def powMod (x e : Nat) : Nat :=
  (List.range 255).foldr (fun i acc =>
    let sq := acc * acc % p
    if (e >>> i) % 2 = 1 then sq * x % p else sq) 1

/-- RFC 7748 §5: `decodeScalar25519` -/
def clamp (k : Nat) : Nat :=
  let k := k - k % 8
  let k := k % 2 ^ 255
  if (k >>> 254) % 2 = 1 then k else k + 2 ^ 254

structure Ladder where
  x2 : Nat
  z2 : Nat
  x3 : Nat
  z3 : Nat
  swap : Bool

def cswap (c : Bool) (a b : Nat) : Nat × Nat := if c then (b, a) else (a, b)

def step (x1 k : Nat) (s : Ladder) (t : Nat) : Ladder :=
  let kt := (k >>> t) % 2 = 1
  let sw := s.swap != kt
  let (x2, x3) := cswap sw s.x2 s.x3
  let (z2, z3) := cswap sw s.z2 s.z3
  let a := (x2 + z2) % p
  let aa := a * a % p
  let b := sub x2 z2
  let bb := b * b % p
  let e := sub aa bb
  let c := (x3 + z3) % p
  let d := sub x3 z3
  let da := d * a % p
  let cb := c * b % p
  let x3' := let s := (da + cb) % p; s * s % p
  let z3' := let s := sub da cb; x1 * (s * s % p) % p
  let x2' := aa * bb % p
  let z2' := e * ((aa + 121665 * e) % p) % p
  { x2 := x2', z2 := z2', x3 := x3', z3 := z3', swap := kt }

/-- `X25519(k, u)` on numbers: `k` clamped already, `u` masked already -/
def scalarMultNat (k u : Nat) : Nat :=
  let x1 := u % p
  let s := (List.range 255).foldl (fun s i => step x1 k s (254 - i))
    { x2 := 1, z2 := 0, x3 := x1, z3 := 1, swap := false }
  let (x2, _) := cswap s.swap s.x2 s.x3
  let (z2, _) := cswap s.swap s.z2 s.z3
  x2 * powMod z2 (p - 2) % p

/-- `X25519(k, u)` on 32-byte strings -/
def scalarMult (k u : ByteArray) : ByteArray :=
  natToLe 32 (scalarMultNat (clamp (leToNat k)) (leToNat u % 2 ^ 255))

/-- the public key of a secret key: `X25519(sk, 9)` -/
def publicKey (sk : ByteArray) : ByteArray := scalarMult sk (natToLe 32 9)

/-! RFC 7748 §5.2 (first vector) and §6.1 (Alice's and Bob's key pairs): tests of the reference, not theorems -/
private def hexEq (b : ByteArray) (s : String) : Bool := Hex.toHex b == s
#guard hexEq (scalarMult ((Hex.ofHex? "a546e36bf0527c9d3b16154b82465edd62144c0ac1fc5a18506a2244ba449ac4").getD .empty)
    ((Hex.ofHex? "e6db6867583030db3594c1a424b15f7c726624ec26b3353b10a903a6d0ab1c4c").getD .empty))
  "c3da55379de9c6908e94ea4df28d084f32eccf03491c71f754b4075577a28552"
#guard hexEq (publicKey ((Hex.ofHex? "77076d0a7318a57d3c16c17251b26645df4c2f87ebc0992ab177fba51db92c2a").getD .empty))
  "8520f0098930a754748b7ddcb43ef75a0dbf3a0d26381af4eba4a98eaa9b4e6a"
#guard hexEq (publicKey ((Hex.ofHex? "5dab087e624a8a4b79e17f8b83800ee66f3bb1292618b6fd1c2f8b27ff88e0eb").getD .empty))
  "de9edb7d7b7dc1b4d35b61c2ece435373f8343c85b78674dadfc7e146f882b4f"

end MlsVerif.X25519
