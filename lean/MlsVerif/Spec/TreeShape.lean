/-
Specification of the RFC 9420 (Appendix C) array representation of a *perfect* binary tree
(leaf count a power of two), independent of `Model/TreeMath.lean`: no bit operations, no
`trailing_ones`; everything is structural recursion on the height `k`.

The tree of height `k` placed at offset `o` occupies the node indices `o, …, o + 2^(k+1) - 2`
in in-order numbering:

  * its root is `o + 2^k - 1`;
  * for `k = k' + 1` its left subtree is the tree of height `k'` at offset `o`,
    its right subtree is the tree of height `k'` at offset `o + 2^k`
    (so  left subtree < root < right subtree: in-order numbering);
  * a tree of height `0` is the single leaf `o`.  Offsets are always even, so leaves are exactly
    the even indices and leaf number `i` is node `2 * i`.

The whole tree with `2^k` leaves is the tree of height `k` at offset `0`.
-/
namespace MlsVerif.TreeShape

/-- Root of the perfect tree of height `k` at offset `o`. -/
def rootAt (o k : Nat) : Nat := o + 2 ^ k - 1

/-- Offset of the right subtree of the tree of height `k + 1` at offset `o`
(the left subtree has offset `o`). -/
def rightOff (o k : Nat) : Nat := o + 2 ^ (k + 1)

/-- The tree as a value, for the reader and for sanity checks (`inorder`). -/
inductive PTree where
  | leaf (i : Nat)
  | node (l : PTree) (i : Nat) (r : PTree)
  deriving Repr, DecidableEq

def build (o : Nat) : Nat → PTree
  | 0 => .leaf o
  | k + 1 => .node (build o k) (rootAt o (k + 1)) (build (rightOff o k) k)

def PTree.inorder : PTree → List Nat
  | .leaf i => [i]
  | .node l i r => l.inorder ++ i :: r.inorder

/-- (parent, sibling) of node `x` in the tree of height `k` at offset `o`; `none` at the root. -/
def parentSiblingAt (o : Nat) : Nat → Nat → Option (Nat × Nat)
  | 0, _ => none
  | k + 1, x =>
    let r := rootAt o (k + 1)
    let lr := rootAt o k
    let rr := rootAt (rightOff o k) k
    if x = r then none
    else if x < r then
      if x = lr then some (r, rr) else parentSiblingAt o k x
    else
      if x = rr then some (r, lr) else parentSiblingAt (rightOff o k) k x

/-- left child of `x`; `none` on leaves -/
def leftAt (o : Nat) : Nat → Nat → Option Nat
  | 0, _ => none
  | k + 1, x =>
    let r := rootAt o (k + 1)
    if x = r then some (rootAt o k)
    else if x < r then leftAt o k x else leftAt (rightOff o k) k x

/-- right child of `x`; `none` on leaves -/
def rightAt (o : Nat) : Nat → Nat → Option Nat
  | 0, _ => none
  | k + 1, x =>
    let r := rootAt o (k + 1)
    if x = r then some (rootAt (rightOff o k) k)
    else if x < r then rightAt o k x else rightAt (rightOff o k) k x

/-- Direct path of `x` (from the parent of `x` up to the root), each ancestor paired with the
sibling of the path node just below it (the copath node). -/
def pathAt (o : Nat) : Nat → Nat → List (Nat × Nat)
  | 0, _ => []
  | k + 1, x =>
    let r := rootAt o (k + 1)
    let lr := rootAt o k
    let rr := rootAt (rightOff o k) k
    if x = r then []
    else if x < r then pathAt o k x ++ [(r, rr)]
    else pathAt (rightOff o k) k x ++ [(r, lr)]

/-- Lowest common ancestor of two distinct nodes `x`, `y` none of which is an ancestor of the
other (in particular: two distinct leaves): the root of the smallest subtree in which they lie
on different sides. -/
def lcaAt (o : Nat) : Nat → Nat → Nat → Nat
  | 0, _, _ => o
  | k + 1, x, y =>
    let r := rootAt o (k + 1)
    if x < r ∧ y < r then lcaAt o k x y
    else if r < x ∧ r < y then lcaAt (rightOff o k) k x y
    else r

/-- Half-open range `[lo, hi)` of leaf numbers (node index / 2) below node `x`. -/
def leafRangeAt (o : Nat) : Nat → Nat → Nat × Nat
  | 0, _ => (o / 2, o / 2 + 1)
  | k + 1, x =>
    let r := rootAt o (k + 1)
    if x = r then (o / 2, o / 2 + 2 ^ (k + 1))
    else if x < r then leafRangeAt o k x else leafRangeAt (rightOff o k) k x

/-- Height of node `x` (leaves have height 0). -/
def levelAt (o : Nat) : Nat → Nat → Nat
  | 0, _ => 0
  | k + 1, x =>
    let r := rootAt o (k + 1)
    if x = r then k + 1
    else if x < r then levelAt o k x else levelAt (rightOff o k) k x

/-- Nodes at depth `d` below the root, left to right. -/
def depthNodesAt (o : Nat) : Nat → Nat → List Nat
  | k, 0 => [rootAt o k]
  | 0, _ + 1 => []
  | k + 1, d + 1 => depthNodesAt o k d ++ depthNodesAt (rightOff o k) k d

/-! The whole tree: height `k`, offset `0`. -/

def specRoot (k : Nat) : Nat := rootAt 0 k
def specParentSibling (k x : Nat) : Option (Nat × Nat) := parentSiblingAt 0 k x
def specLeft (k x : Nat) : Option Nat := leftAt 0 k x
def specRight (k x : Nat) : Option Nat := rightAt 0 k x
def specPath (k x : Nat) : List (Nat × Nat) := pathAt 0 k x
def specLca (k x y : Nat) : Nat := lcaAt 0 k x y
def specLeafRange (k x : Nat) : Nat × Nat := leafRangeAt 0 k x
def specLevel (k x : Nat) : Nat := levelAt 0 k x
/-- all nodes, level by level from the root down, left to right within a level -/
def specLevels (k : Nat) : List Nat := (List.range (k + 1)).flatMap (depthNodesAt 0 k)

/-! Sanity checks of the specification itself. -/

example : (build 0 3).inorder = List.range 15 := by decide
example : (build 0 5).inorder = List.range 63 := by decide
example : specRoot 3 = 7 := by decide
example : specLevels 3 = [7, 3, 11, 1, 5, 9, 13, 0, 2, 4, 6, 8, 10, 12, 14] := by decide
example : specPath 3 4 = [(5, 6), (3, 1), (7, 11)] := by decide
example : (List.range 15).map (specLevel 3) = [0,1,0,2,0,1,0,3,0,1,0,2,0,1,0] := by decide
example : specLca 3 4 10 = 7 ∧ specLca 3 4 6 = 5 ∧ specLca 3 0 6 = 3 := by decide
example : specLeafRange 3 11 = (4, 8) ∧ specLeafRange 3 5 = (2, 4) ∧ specLeafRange 3 6 = (3, 4) := by
  decide

end MlsVerif.TreeShape
