/-
RFC 9420 §8 (key schedule), §8.4 (pre-shared keys), §8.5 (exporters), §9 (secret tree),
§12.4.3.1 (welcome key/nonce), written directly from the RFC text.

Nothing here refers to the *functions* of `Model/KeySchedule.lean` or `Model/SecretTree.lean`: the
only things used from the model are data types: the record `Prim B` of abstract primitives
(`KDF.Extract`, `KDF.Expand` applied to a `KDFLabel`, `Hash`, the sizes `Nh`, `Nk`, `Nn`, and the
encoders of the byte-string type `B`), the enumeration `KeyType` (handshake / application) and the
record `MsgKey` (nonce, key, generation) in which results are reported, `PskInput` (id, value).
`Props/C13.lean` proves that the model (which follows the structure of the Rust code: a `for` loop
for the PSK chain, a lazily consumed hash map for the secret tree, ratchets with an out-of-order
history) computes exactly these values.

Conventions: `P.expandLabel s l c n` is `KDF.Expand(s, KDFLabel{ length = n, label = "MLS 1.0 " + l,
context = c }, n)`; `P.zeros n` is the all-zero string of length `n`; `P.empty` is `""`.
-/
import MlsVerif.Model.SecretTree

namespace MlsVerif.KSSpec
open MlsVerif.KS (Prim PskInput)
open MlsVerif.ST (KeyType MsgKey)

variable {B : Type}

/-! ### §8  ExpandWithLabel, DeriveSecret -/

/-- `ExpandWithLabel(Secret, Label, Context, Length)` with the label given as bytes -/
def ExpandWithLabelB (P : Prim B) (secret label context : B) (length : Nat) : B :=
  P.expandLabel secret label context length

/-- `ExpandWithLabel(Secret, Label, Context, Length)` for the ASCII labels of the RFC -/
def ExpandWithLabel (P : Prim B) (secret : B) (label : String) (context : B) (length : Nat) : B :=
  ExpandWithLabelB P secret (P.ascii label) context length

/-- `DeriveSecret(Secret, Label) = ExpandWithLabel(Secret, Label, "", KDF.Nh)` -/
def DeriveSecret (P : Prim B) (secret : B) (label : String) : B :=
  ExpandWithLabel P secret label P.empty P.nh

/-- the same with a byte-string label (the application-chosen label of `MLS-Exporter`) -/
def DeriveSecretB (P : Prim B) (secret label : B) : B :=
  ExpandWithLabelB P secret label P.empty P.nh

/-! ### §8  the epoch's secrets (Figure 22 and Table 4) -/

/-- `joiner_secret = ExpandWithLabel(KDF.Extract(init_secret_[n-1], commit_secret), "joiner",
GroupContext_[n], KDF.Nh)` -/
def joinerSecret (P : Prim B) (initSecretPrev commitSecret groupContext : B) : B :=
  ExpandWithLabel P (P.extract initSecretPrev commitSecret) "joiner" groupContext P.nh

/-- the intermediate ("member" / pre-epoch) secret: `KDF.Extract(joiner_secret, psk_secret)` -/
def memberSecret (P : Prim B) (joiner pskSecret : B) : B :=
  P.extract joiner pskSecret

/-- `welcome_secret = DeriveSecret(member_secret, "welcome")` -/
def welcomeSecret (P : Prim B) (joiner pskSecret : B) : B :=
  DeriveSecret P (memberSecret P joiner pskSecret) "welcome"

/-- `epoch_secret = ExpandWithLabel(member_secret, "epoch", GroupContext_[n], KDF.Nh)` -/
def epochSecret (P : Prim B) (joiner pskSecret groupContext : B) : B :=
  ExpandWithLabel P (memberSecret P joiner pskSecret) "epoch" groupContext P.nh

/-- Table 4: the secrets derived from `epoch_secret`, with their labels -/
inductive Derived
  | senderData | encryption | exporter | external | confirm | membership | resumption
  | authentication | init
  deriving DecidableEq, Repr

def Derived.label : Derived → String
  | .senderData => "sender data"
  | .encryption => "encryption"
  | .exporter => "exporter"
  | .external => "external"
  | .confirm => "confirm"
  | .membership => "membership"
  | .resumption => "resumption"
  | .authentication => "authentication"
  | .init => "init"

/-- `<name>_secret = DeriveSecret(epoch_secret, <label>)` -/
def derived (P : Prim B) (epochSecret : B) (d : Derived) : B :=
  DeriveSecret P epochSecret d.label

/-- the derived secret `d` of the epoch entered from `joiner_secret` -/
def epochDerived (P : Prim B) (joiner pskSecret groupContext : B) (d : Derived) : B :=
  derived P (epochSecret P joiner pskSecret groupContext) d

/-- §12.4.3.1: `welcome_nonce = ExpandWithLabel(welcome_secret, "nonce", "", AEAD.Nn)`,
`welcome_key = ExpandWithLabel(welcome_secret, "key", "", AEAD.Nk)` -/
def welcomeKey (P : Prim B) (joiner pskSecret : B) : B :=
  ExpandWithLabel P (welcomeSecret P joiner pskSecret) "key" P.empty P.nk

def welcomeNonce (P : Prim B) (joiner pskSecret : B) : B :=
  ExpandWithLabel P (welcomeSecret P joiner pskSecret) "nonce" P.empty P.nn

/-! ### §8.5  exporter -/

/-- `MLS-Exporter(Label, Context, Length) =
ExpandWithLabel(DeriveSecret(exporter_secret, Label), "exported", Hash(Context), Length)` -/
def mlsExporter (P : Prim B) (exporterSecret label context : B) (length : Nat) : B :=
  ExpandWithLabel P (DeriveSecretB P exporterSecret label) "exported" (P.hash context) length

/-! ### §8.4  pre-shared keys -/

/-- `struct { PreSharedKeyID id; uint16 index; uint16 count; } PSKLabel` -/
def PSKLabel (P : Prim B) (id : B) (index count : Nat) : B :=
  P.cat id (P.cat (P.u16be index) (P.u16be count))

/-- `psk_extracted_[i] = KDF.Extract(0, psk_[i])`,
`psk_input_[i] = ExpandWithLabel(psk_extracted_[i], "derived psk", PSKLabel, KDF.Nh)`
for the PSK with id `id` and value `psk` at position `i` of `n`. -/
def pskInput (P : Prim B) (id psk : B) (i n : Nat) : B :=
  ExpandWithLabel P (P.extract (P.zeros P.nh) psk) "derived psk" (PSKLabel P id i n) P.nh

/-- `psk_secret_[0] = 0`, `psk_secret_[i] = KDF.Extract(psk_input_[i-1], psk_secret_[i-1])`,
by recursion on `i`; `psks` is the list `psk_[0], …, psk_[n-1]` (id and value), `n` its length.
(For `i` beyond the list the value stays put; the RFC defines `psk_secret_[i]` only for `i ≤ n`.) -/
def specPskSecret (P : Prim B) (psks : List (PskInput B)) : Nat → B
  | 0 => P.zeros P.nh
  | i + 1 =>
    match psks[i]? with
    | some p => P.extract (pskInput P p.id p.psk i psks.length) (specPskSecret P psks i)
    | none => specPskSecret P psks i

/-- `psk_secret = psk_secret_[n]` -/
def pskSecret (P : Prim B) (psks : List (PskInput B)) : B := specPskSecret P psks psks.length

/-! ### §9  secret tree

`tree_node_[root]_secret = encryption_secret`,
`tree_node_[left(N)]_secret = ExpandWithLabel(tree_node_[N]_secret, "tree", "left", KDF.Nh)`,
`tree_node_[right(N)]_secret = ExpandWithLabel(tree_node_[N]_secret, "tree", "right", KDF.Nh)`,
over the perfect binary tree in the array representation of Appendix C: the subtree of height `k`
at offset `o` has root `o + 2^k - 1`, its left subtree is the subtree of height `k - 1` at offset
`o`, its right subtree the one at offset `o + 2^k`; a subtree of height 0 is the leaf `o`. -/

def treeLeft (P : Prim B) (s : B) : B := ExpandWithLabel P s "tree" (P.ascii "left") P.nh
def treeRight (P : Prim B) (s : B) : B := ExpandWithLabel P s "tree" (P.ascii "right") P.nh

/-- secret of node `x` in the subtree of height `k` at offset `o` whose root has secret `s`;
`none` if `x` is not a node of that subtree -/
def nodeSecretAt (P : Prim B) (o : Nat) : Nat → B → Nat → Option B
  | 0, s, x => if x = o then some s else none
  | k + 1, s, x =>
    let r := o + 2 ^ (k + 1) - 1
    if x = r then some s
    else if x < r then nodeSecretAt P o k (treeLeft P s) x
    else nodeSecretAt P (o + 2 ^ (k + 1)) k (treeRight P s) x

/-- `tree_node_[x]_secret` in the tree with `2^k` leaves -/
def specNodeSecret (P : Prim B) (k : Nat) (encryptionSecret : B) (x : Nat) : Option B :=
  nodeSecretAt P 0 k encryptionSecret x

/-! ### §9.1  handshake / application ratchets -/

def ratchetLabel : KeyType → String
  | .handshake => "handshake"
  | .application => "application"

/-- `DeriveTreeSecret(Secret, Label, Generation, Length) =
ExpandWithLabel(Secret, Label, Generation, Length)` with `Generation` encoded as `uint32` -/
def DeriveTreeSecret (P : Prim B) (secret : B) (label : String) (generation length : Nat) : B :=
  ExpandWithLabel P secret label (P.u32be generation) length

/-- `handshake_ratchet_secret_[N]_[0] = ExpandWithLabel(tree_node_[N]_secret, "handshake", "", Nh)`,
`application_ratchet_secret_[N]_[0]` likewise with `"application"` -/
def ratchetSecret0 (P : Prim B) (leafSecret : B) (kt : KeyType) : B :=
  ExpandWithLabel P leafSecret (ratchetLabel kt) P.empty P.nh

/-- `ratchet_secret_[N]_[j+1] = DeriveTreeSecret(ratchet_secret_[N]_[j], "secret", j, KDF.Nh)` -/
def ratchetSecretAt (P : Prim B) (s0 : B) : Nat → B
  | 0 => s0
  | j + 1 => DeriveTreeSecret P (ratchetSecretAt P s0 j) "secret" j P.nh

/-- `ratchet_key_[N]_[j] = DeriveTreeSecret(ratchet_secret_[N]_[j], "key", j, AEAD.Nk)` -/
def ratchetKeyAt (P : Prim B) (s0 : B) (j : Nat) : B :=
  DeriveTreeSecret P (ratchetSecretAt P s0 j) "key" j P.nk

/-- `ratchet_nonce_[N]_[j] = DeriveTreeSecret(ratchet_secret_[N]_[j], "nonce", j, AEAD.Nn)` -/
def ratchetNonceAt (P : Prim B) (s0 : B) (j : Nat) : B :=
  DeriveTreeSecret P (ratchetSecretAt P s0 j) "nonce" j P.nn

/-- key, nonce and generation number of generation `j` of the ratchet starting at `s0` -/
def specRatchetKey (P : Prim B) (s0 : B) (j : Nat) : MsgKey B :=
  { nonce := ratchetNonceAt P s0 j, key := ratchetKeyAt P s0 j, generation := j }

/-- Key and nonce of generation `g` of the `kt` ratchet hanging off *node* `x` of the tree with
`2^k` leaves, defined for every node of the tree.  The RFC defines ratchets for leaves only
(`specMsgKey`); this generalisation is what the code computes when it is handed a parent index
(see `Props/C13.lean`, `nonleaf_request_succeeds`). -/
def specNodeMsgKey (P : Prim B) (k : Nat) (enc : B) (x : Nat) (kt : KeyType) (g : Nat) :
    Option (MsgKey B) :=
  (specNodeSecret P k enc x).map fun s => specRatchetKey P (ratchetSecret0 P s kt) g

/-- RFC value: defined exactly when `leafNodeIndex` is a leaf (even node index `2 * leaf`) of the
tree with `2^k` leaves. -/
def specMsgKey (P : Prim B) (k : Nat) (enc : B) (leafNodeIndex : Nat) (kt : KeyType) (g : Nat) :
    Option (MsgKey B) :=
  if leafNodeIndex % 2 = 0 then specNodeMsgKey P k enc leafNodeIndex kt g else none

end MlsVerif.KSSpec
