import MlsVerif.Proofs.GroupProgress
import MlsVerif.Proofs.GroupSecrecy
import MlsVerif.Proofs.GroupExample
/-!
# C01 (composed) — agreement of the epoch secrets over whole histories

Model: `Model/Group.lean` (`GroupWorld`: the public ratchet tree of `Model/Tree.lean`, and for every followed
party its private key slots `Priv`, its epoch number and its *symbolic* epoch secret `Sec`).
`GroupWorld.commit` is executable: the committer runs `batchEdit` / `encap`, seals the path-secret chain to
`EncapOut.seals`; every party in `deliverTo` runs `provisionalPriv` / `decap`, *opens* the ciphertext `decap`
points at (this needs the key stamp in its slot to be the recipient's stamp), derives upwards, checks the
derived keys against the announced ones and runs the key schedule on *its own* init secret; joiners take the
joiner secret from the Welcome sealed to their init key and their node keys by `joinerPriv`.  Parties outside
`deliverTo` and removed members keep their old epoch, keys and secrets ("ghosts").

`Reachable` (`Proofs/GroupInv.lean`): worlds reachable from a one-member group by any number of such commits —
any committer, any proposals that `batchEdit` accepts, with and without a path, any `deliverTo` — under the
side conditions `CommitOk` (exactly those of `Step.commit`: stamps that are meant to be new are new), AND by
EXTERNAL commits (`GroupWorld.externalCommit`: a non-member takes the GroupInfo of any current member, optionally
removes one leaf — re-sync —, is inserted at the leftmost blank leaf after `batch_edit`, commits an update path
from there; the init secret of the new epoch is the KEM shared secret `Sec.ext n`; side conditions `ExtOk`).
Every theorem below that quantifies over `Reachable w` therefore covers histories with external commits; the
section "external commits" states agreement and progress for the external commit itself.

History is linear in this model (one public tree): two parties with the same epoch number have processed the
same commits.  Forks (two commits for the same epoch) are outside the model.

The tree-layer facts are used, not re-proved: `step_good` (`KeyInv` for every member through a commit),
`receiver_commit`, `decap_position_agrees`, `decap_succeeds`, `encap_spec`, `Enc.encap_facts` (the seal list),
`joiner_commit`, `encap_applyUpdatePath_agree`.
-/
namespace MlsVerif.Props.C01Group
open MlsVerif.Tree MlsVerif.Group

/-! ### agreement, for all histories -/

/-- The invariant of all reachable group worlds: the tree is well-formed and every current member holds
exactly the keys it is entitled to (`World.Good`: C08 + C09), no followed party is ahead of the group, and
any two followed parties at the same epoch hold the same epoch secret. -/
theorem invariant_holds {w : GroupWorld} (h : Reachable w) : GInv w :=
  reachable_ginv h

/-- … and it is preserved by every commit (the induction step). -/
theorem invariant_preserved {w w' : GroupWorld} {tr : Transcript} {sender : Nat} {e : Edits}
    {newLeaf : Option Leaf} {fresh : Nat} {psk : Sec} {ctx : Nat} {deliverTo : List Nat}
    (hi : GInv w) (hok : CommitOk w sender e newLeaf fresh)
    (h : w.commit sender e newLeaf fresh psk ctx deliverTo = .ok (w', tr)) : GInv w' :=
  ginv_commit hi hok h

/-- **Agreement.**  In every reachable world, any two followed parties (current members, members that missed
commits, removed members) that are at the same epoch hold the same epoch secret and the same init secret. -/
theorem agreement {w : GroupWorld} (h : Reachable w) :
    ∀ m1 ∈ w.members, ∀ m2 ∈ w.members, m1.epoch = m2.epoch →
      m1.secret = m2.secret ∧ m1.initSecret = m2.initSecret := by
  intro m1 h1 m2 h2 he
  have := (reachable_ginv h).agree m1 h1 m2 h2 he
  exact ⟨this, by simp only [Member.initSecret, this]⟩

/-- **Everybody the commit is delivered to ends with the committer's new epoch secret**:
`epoch (initOf <committer's old epoch secret>) <commit secret> psk ctx`, where the commit secret is the end
of the committer's path-secret chain, or `zero` without a path.  Every party of the new world is either an
unchanged party of the old world (a ghost) or is in the new epoch with exactly this secret. -/
theorem new_epoch_secret_is_committers {w w' : GroupWorld} {tr : Transcript} {sender : Nat} {e : Edits}
    {newLeaf : Option Leaf} {fresh : Nat} {psk : Sec} {ctx : Nat} {deliverTo : List Nat}
    (hr : Reachable w) (h : w.commit sender e newLeaf fresh psk ctx deliverTo = .ok (w', tr)) :
    w'.epoch = w.epoch + 1 ∧
    ∃ cm ∈ w.members, cm.epoch = w.epoch ∧ ∃ cs,
      (newLeaf = none → cs = .zero) ∧ (newLeaf ≠ none → ∃ u, cs = pathN u (.fresh w.epoch)) ∧
      ∀ m' ∈ w'.members, (m' ∈ w.members ∧ m'.epoch ≤ w.epoch) ∨
        (m'.epoch = w.epoch + 1 ∧ m'.secret = .epoch (.initOf cm.secret) cs psk ctx) := by
  obtain ⟨h1, _, h3⟩ := commit_member_cases (reachable_ginv hr) h
  exact ⟨h1, h3⟩

/-- every old member in `deliverTo` that the commit does not remove really is in the new epoch afterwards
(same identity, same leaf) -/
theorem delivered_members_advance {w w' : GroupWorld} {tr : Transcript} {sender : Nat} {e : Edits}
    {newLeaf : Option Leaf} {fresh : Nat} {psk : Sec} {ctx : Nat} {deliverTo : List Nat}
    (h : w.commit sender e newLeaf fresh psk ctx deliverTo = .ok (w', tr))
    {m : Member} (hm : m ∈ w.members) (hcur : m.epoch = w.epoch)
    (hd : m.priv.self = sender ∨ (m.priv.self ∉ e.removes ∧ m.priv.self ∈ deliverTo)) :
    ∃ m' ∈ w'.members, m'.id = m.id ∧ m'.priv.self = m.priv.self ∧ m'.epoch = w'.epoch := by
  have hp : processes w sender e deliverTo m = true := processes_iff.2 ⟨hcur, hd⟩
  obtain ⟨cm, added, t1, hpre, h⟩ := commit_inv h
  cases newLeaf with
  | some nl =>
    obtain ⟨o, ms, js, hc⟩ := commitPath_inv h
    obtain ⟨m', hm', hadv⟩ := (mapE_ok hc.members).2 m hm
    refine ⟨m', by rw [hc.world]; exact List.mem_append_left _ hm', ?_⟩
    rcases advPath_cases hadv with ⟨hf, _⟩ | ⟨_, hs, rfl⟩ | ⟨_, _, _, _, hr⟩
    · rw [hp] at hf; cases hf
    · exact ⟨rfl, hs.symm, by rw [hc.world, hcur]⟩
    · obtain ⟨d, ps, r, k, hdd, _, _, _, _, rfl⟩ := recvPath_ok hr
      obtain ⟨_, _, _, _, _, _, _, _, _, _, _, hself, _⟩ := Dec.decap_ok hdd
      exact ⟨rfl, by rw [hself, provisionalPriv_self], by rw [hc.world, hcur]⟩
  | none =>
    obtain ⟨js, hc⟩ := commitNoPath_inv h
    refine ⟨advNoPath w sender e deliverTo t1 psk ctx m, by
      rw [hc.world]; exact List.mem_append_left _ (List.mem_map.2 ⟨m, hm, rfl⟩), ?_⟩
    rcases advNoPath_cases w sender e deliverTo t1 psk ctx m with ⟨hf, _⟩ | ⟨_, _, heq⟩
    · rw [hp] at hf; cases hf
    · rw [heq]
      exact ⟨rfl, provisionalPriv_self _ _ _, by rw [hc.world, hcur]⟩

/-! ### the commit secret is the end of the chain -/

/-- Whatever position `c` a receiver decrypts at: if the update-path node it looks at
(`countSome (pathKeys.take c)`-th node) exists, continuing the derivation from the secret inside over the
remaining announced nodes ends at the committer's commit secret `pathN (countSome pathKeys) s0`
(`chain_meets` of `Props/C01`, on the real seal list). -/
theorem commit_secret_end_of_chain {o : EncapOut} {s0 : Sec} {c : Nat} {ps : PathSeal}
    (h : (pathSealsOf o s0)[countSome (o.pathKeys.take c)]? = some ps) :
    pathN (countSome (o.pathKeys.drop c)) ps.secret = pathN (countSome o.pathKeys) s0 :=
  recv_commit_secret h

/-- … so every receiver that gets through computes the committer's commit secret, and its new epoch secret
differs from the committer's at most in the init secret it started from. -/
theorem receiver_computes_committers_commit_secret {t1 : Tree} {o : EncapOut} {s0 : Sec} {sender : Nat}
    {e : Edits} {added : List Nat} {psk : Sec} {ctx : Nat} {m m' : Member}
    (h : recvPath t1 o (pathSealsOf o s0) sender e added psk ctx m = .ok m') :
    m'.secret = .epoch (.initOf m.secret) (pathN (countSome o.pathKeys) s0) psk ctx := by
  obtain ⟨d, ps, r, k, _, hps, _, _, _, rfl⟩ := recvPath_ok h
  simp only
  rw [recv_commit_secret hps]

/-! ### progress: no entitled party gets stuck -/

/-- **A receiver is never stuck.**  For a current member `m` (key invariant `KeyInv`, sitting on a leaf) that
the commit does not remove: `decap` succeeds, the ciphertext it selects in the update-path node of its
position is sealed to a key stamp `k` that `m` holds in the slot `decap` tells it to use, the derived keys
match the announced ones, and so `recvPath` returns a new state.  Side conditions as in `Step.commit`. -/
theorem receiver_not_stuck {w : GroupWorld} {sender : Nat} {e : Edits} {nl : Leaf} {fresh : Nat} {psk : Sec}
    {ctx : Nat} {added : List Nat} {t1 : Tree} {o : EncapOut}
    (hw : WF w.tree) (hfr : e.FreshKeys w.tree) (hb : batchEdit w.tree e = .ok (added, t1))
    (hL : ∃ L, get t1 (2 * sender) = some (.leaf L)) (he : encap t1 sender nl added fresh = .ok o)
    {m : Member} (hk : KeyInv w.tree m.priv) (hm : ∃ L, get w.tree (2 * m.priv.self) = some (.leaf L))
    (hnr : m.priv.self ∉ e.removes) (hne : m.priv.self ≠ sender) (s0 : Sec) :
    ∃ m' d ps r k, recvPath t1 o (pathSealsOf o s0) sender e added psk ctx m = .ok m' ∧
      decap o.tree (provisionalPriv t1 m.priv (ownUpdate e m.priv.self)) sender o.pathKeys added = .ok d ∧
      (pathSealsOf o s0)[countSome (o.pathKeys.take (lcaIndex m.priv.self sender))]? = some ps ∧
      ps.recips[d.ctPos]? = some (r, some k) ∧
      (provisionalPriv t1 m.priv (ownUpdate e m.priv.self)).keys[d.slot]? = some (some k) := by
  obtain ⟨m', hm'⟩ := recvPath_progress (psk := psk) (ctx := ctx) hw hfr hb hL he hk hm hnr hne s0
  obtain ⟨d, ps, r, k, h1, h2, h3, h4, _, _⟩ := recvPath_ok hm'
  exact ⟨m', d, ps, r, k, hm', h1, h2, h3, h4⟩

/-- **Progress of a whole commit.**  In a world satisfying the invariant (e.g. any reachable world), a commit
by a followed current member that does not remove itself and whose proposals apply (`batchEdit`) succeeds — the
committer's `encap` is total (`encap_total`) — and is processed by every party it is delivered to, whatever
`deliverTo` is: no receiver, no updated receiver and no joiner gets stuck, and every receiver computes the
committer's tree.  `hok`: the side conditions of `Step.commit` (new stamps are new). -/
theorem commit_never_stuck {w : GroupWorld} {sender : Nat} {e : Edits} {newLeaf : Option Leaf} {fresh : Nat}
    {psk : Sec} {ctx : Nat} {cm : Member} {added : List Nat} {t1 : Tree} (deliverTo : List Nat)
    (hi : GInv w) (hok : CommitOk w sender e newLeaf fresh) (hpsk : psk.isPskInput = true)
    (hnr : sender ∉ e.removes) (hcm : w.sender? sender = some cm)
    (hb : batchEdit w.tree e = .ok (added, t1)) :
    ∃ r, w.commit sender e newLeaf fresh psk ctx deliverTo = .ok r :=
  commit_progress deliverTo hi hok hpsk hnr hcm hb

/-! ### joiners (C07) -/

/-- **A joiner ends with the members' state.**  Every added member in `deliverTo` is, after the commit, a
followed party in the new epoch with its key-package identity, sitting on the leaf the commit gave it,
holding the same epoch secret as every other party of the new epoch, and holding exactly the keys it is
entitled to in the new tree (`KeyInv`). -/
theorem joiner_gets_members_state {w w' : GroupWorld} {tr : Transcript} {sender : Nat} {e : Edits}
    {newLeaf : Option Leaf} {fresh : Nat} {psk : Sec} {ctx : Nat} {deliverTo : List Nat}
    (hr : Reachable w) (hok : CommitOk w sender e newLeaf fresh)
    (h : w.commit sender e newLeaf fresh psk ctx deliverTo = .ok (w', tr))
    {added : List Nat} {t1 : Tree} (hb : batchEdit w.tree e = .ok (added, t1))
    {j self : Nat} {L : Leaf} (hj : added[j]? = some self) (hL : e.adds[j]? = some L)
    (hd : self ∈ deliverTo) :
    ∃ m' ∈ w'.members, m'.id = L.ident ∧ m'.priv.self = self ∧ m'.epoch = w'.epoch ∧
      KeyInv w'.tree m'.priv ∧ get w'.tree (2 * self) = some (.leaf L) ∧
      ∀ m'' ∈ w'.members, m''.epoch = w'.epoch → m''.secret = m'.secret := by
  have hi := reachable_ginv hr
  have hi' := ginv_commit hi hok h
  have key : ∃ m' ∈ w'.members, m'.id = L.ident ∧ m'.priv.self = self ∧ m'.epoch = w'.epoch := by
    obtain ⟨cm, added', t1', hpre, h⟩ := commit_inv h
    have := hpre.edit
    rw [hb] at this
    simp only [Except.ok.injEq, Prod.mk.injEq] at this
    obtain ⟨rfl, rfl⟩ := this
    have hx : (j, self, L) ∈ joinersOf e added deliverTo := mem_joinersOf.2 ⟨hj, hL, hd⟩
    cases newLeaf with
    | some nl =>
      obtain ⟨o, ms, js, hc⟩ := commitPath_inv h
      obtain ⟨m', hm', hf⟩ := (mapE_ok hc.joiners).2 _ hx
      obtain ⟨w0, p, _, _, _, hjp, rfl⟩ := joinWith_ok hf
      exact ⟨_, by rw [hc.world]; exact List.mem_append_right _ hm', rfl, joinerPriv_self hjp,
        by rw [hc.world]⟩
    | none =>
      obtain ⟨js, hc⟩ := commitNoPath_inv h
      obtain ⟨m', hm', hf⟩ := (mapE_ok hc.joiners).2 _ hx
      obtain ⟨w0, p, _, _, _, hjp, rfl⟩ := joinWith_ok hf
      exact ⟨_, by rw [hc.world]; exact List.mem_append_right _ hm', rfl, joinerPriv_self hjp,
        by rw [hc.world]⟩
  obtain ⟨m', hm', h1, h2, h3⟩ := key
  obtain ⟨⟨L', hL'⟩, hk⟩ := hi'.good.2 _ (current_priv_mem hm' h3)
  refine ⟨m', hm', h1, h2, h3, hk, ?_, fun m'' hm'' he => hi'.agree m'' hm'' m' hm' (by rw [he, h3])⟩
  -- the leaf: from the step relation of the tree layer
  have hes := batchEdit_editSpec hi.good.1.1.1 hb
  obtain ⟨L2, hL2a, hL2b⟩ := hes.added_leaf j self hj
  rw [hL] at hL2a
  cases hL2a
  obtain ⟨cm, added', t1', hpre, h⟩ := commit_inv h
  have := hpre.edit
  rw [hb] at this
  simp only [Except.ok.injEq, Prod.mk.injEq] at this
  obtain ⟨rfl, rfl⟩ := this
  cases newLeaf with
  | some nl =>
    obtain ⟨o, ms, js, hc⟩ := commitPath_inv h
    rw [hc.world]
    have hne : self ≠ sender := by
      rintro rfl; exact sender_not_added hi hpre (List.mem_of_getElem? hj)
    obtain ⟨_, hf, _, _, _⟩ := encap_spec hc.enc (self_lt_of_leaf hpre.leaf)
    obtain ⟨L3, h3a, h3b, _⟩ := joiner_commit hi.good.1 hb hj hne hf hc.recvTree
    rw [hL] at h3a
    cases h3a
    exact h3b
  | none =>
    obtain ⟨js, hc⟩ := commitNoPath_inv h
    rw [hc.world]
    exact hL2b

/-! ### external commits -/

/-- the invariant is preserved by every external commit (the second induction step) -/
theorem invariant_preserved_ext {w w' : GroupWorld} {tr : Transcript} {gi : Nat} {remove : Option Nat}
    {L0 nl : Leaf} {fresh : Nat} {psk : Sec} {ctx : Nat} {deliverTo : List Nat}
    (hi : GInv w) (hok : ExtOk w remove L0 nl fresh)
    (h : w.externalCommit gi remove L0 nl fresh psk ctx deliverTo = .ok (w', tr)) : GInv w' :=
  ginv_ext hi hok h

/-- **Everybody the external commit is delivered to, and the external committer, end with the same new epoch
secret**: `epoch (ext n) <commit secret> psk ctx` — the init secret is the KEM shared secret `ext n` of the
`ExternalInit` (NOT derived from the old epoch's init secret), the commit secret the end of the joiner's
path-secret chain (an external commit always has a path).  Every other party of the new world is an unchanged
party of the old one. -/
theorem external_commit_epoch_secret {w w' : GroupWorld} {tr : Transcript} {gi : Nat} {remove : Option Nat}
    {L0 nl : Leaf} {fresh : Nat} {psk : Sec} {ctx : Nat} {deliverTo : List Nat}
    (hr : Reachable w) (h : w.externalCommit gi remove L0 nl fresh psk ctx deliverTo = .ok (w', tr)) :
    w'.epoch = w.epoch + 1 ∧ ∃ u,
      ∀ m' ∈ w'.members, (m' ∈ w.members ∧ m'.epoch ≤ w.epoch) ∨
        (m'.epoch = w.epoch + 1 ∧
          m'.secret = .epoch (.ext w.epoch) (pathN u (.fresh w.epoch)) psk ctx) := by
  obtain ⟨h1, _, h3⟩ := ext_cases (reachable_ginv hr) h
  exact ⟨h1, h3⟩

/-- every current member in `deliverTo` other than the removed one really is in the new epoch afterwards (same
identity, same leaf) -/
theorem external_commit_delivered_members_advance {w w' : GroupWorld} {tr : Transcript} {gi : Nat}
    {remove : Option Nat} {L0 nl : Leaf} {fresh : Nat} {psk : Sec} {ctx : Nat} {deliverTo : List Nat}
    (h : w.externalCommit gi remove L0 nl fresh psk ctx deliverTo = .ok (w', tr))
    {m : Member} (hm : m ∈ w.members) (hcur : m.epoch = w.epoch)
    (hd : remove ≠ some m.priv.self ∧ m.priv.self ∈ deliverTo) :
    ∃ m' ∈ w'.members, m'.id = m.id ∧ m'.priv.self = m.priv.self ∧ m'.epoch = w'.epoch := by
  have hp : processesExt w remove deliverTo m = true := processesExt_iff.2 ⟨hcur, hd.1, hd.2⟩
  obtain ⟨gm, t1, self, t1x, o, ms, hc⟩ := externalCommit_inv h
  obtain ⟨m', hm', hadv⟩ := (mapE_ok hc.members).2 m hm
  refine ⟨m', by rw [hc.world]; exact List.mem_append_left _ hm', ?_⟩
  rcases advExt_cases hadv with ⟨hf, _⟩ | ⟨_, _, _, _, hrv⟩
  · rw [hp] at hf; cases hf
  · obtain ⟨d, ps, r, k, hdd, _, _, _, _, rfl⟩ := recvPathI_ok hrv
    obtain ⟨_, _, _, _, _, _, _, _, _, _, _, hself, _⟩ := Dec.decap_ok hdd
    exact ⟨rfl, by rw [hself, provisionalPriv_self], by rw [hc.world, hcur]⟩

/-- **Progress of an external commit.**  In a world satisfying the invariant (e.g. any reachable world), an
external commit built from the GroupInfo of a followed current member `gi`, whose Remove (if any) applies and
whose leaf node finds a place, succeeds and is processed by every current member it is delivered to other than
the removed one, whatever `deliverTo` is: the joiner's `encap` is total, the receivers' uniqueness check of the
path's leaf node passes, their tree is the joiner's, every receiver decapsulates the KEM output with the external
key of its own epoch secret, finds its ciphertext sealed to a key it holds, and the derived keys match.
`hok`: the side conditions `ExtOk` (new stamps are new). -/
theorem external_commit_never_stuck {w : GroupWorld} {gi : Nat} {remove : Option Nat} {L0 nl : Leaf}
    {fresh : Nat} {psk : Sec} {ctx : Nat} {gm : Member} {a : List Nat} {t1 t1x : Tree} {self : Nat}
    (deliverTo : List Nat) (hi : GInv w) (hok : ExtOk w remove L0 nl fresh) (hpsk : psk.isPskInput = true)
    (hgm : w.sender? gi = some gm) (hb : batchEdit w.tree (extEdits remove) = .ok (a, t1))
    (hadd : addLeaf t1 L0 0 = .ok (self, t1x)) :
    ∃ r, w.externalCommit gi remove L0 nl fresh psk ctx deliverTo = .ok r :=
  ext_progress deliverTo hi hok hpsk hgm hb hadd

/-- **The external committer ends with the members' state.**  After the external commit it is a followed party
of the new epoch with the identity of its leaf node, sitting on the leaf `addLeaf` gave it — the leftmost blank
leaf of the tree after the Remove —, which now carries the leaf node of its update path; it holds exactly the
keys it is entitled to in the new tree (`KeyInv`: its leaf key and the keys of all non-blank nodes of its direct
path — it generated them) and the same epoch secret as every other party of the new epoch. -/
theorem external_committer_gets_members_state {w w' : GroupWorld} {tr : Transcript} {gi : Nat}
    {remove : Option Nat} {L0 nl : Leaf} {fresh : Nat} {psk : Sec} {ctx : Nat} {deliverTo : List Nat}
    (hr : Reachable w) (hok : ExtOk w remove L0 nl fresh)
    (h : w.externalCommit gi remove L0 nl fresh psk ctx deliverTo = .ok (w', tr)) :
    ∃ j ∈ w'.members, j.id = nl.ident ∧ j.epoch = w'.epoch ∧ KeyInv w'.tree j.priv ∧
      get w'.tree (2 * j.priv.self) = some (.leaf nl) ∧
      (∃ pk, j.priv.keys = some nl.hpke :: pk) ∧
      (∃ a t1, batchEdit w.tree (extEdits remove) = .ok (a, t1) ∧ get t1 (2 * j.priv.self) = none ∧
        ∀ i < j.priv.self, get t1 (2 * i) ≠ none) ∧
      ∀ m ∈ w'.members, m.epoch = w'.epoch → m.secret = j.secret := by
  have hi := reachable_ginv hr
  have hi' := ginv_ext hi hok h
  obtain ⟨gm, t1, self, t1x, o, ms, hc⟩ := externalCommit_inv h
  have hjm : extJoiner w nl self o psk ctx ∈ w'.members := by
    rw [hc.world]; exact List.mem_append_right _ (List.mem_singleton.2 rfl)
  have hje : (extJoiner w nl self o psk ctx).epoch = w'.epoch := by rw [hc.world]; rfl
  obtain ⟨_, hk⟩ := hi'.good.2 _ (current_priv_mem hjm hje)
  have hx := ext_edit hi hok hc
  have hself := self_lt_of_leaf ⟨L0, hx.leaf⟩
  obtain ⟨hpu, _, hsl, _, _⟩ := encap_spec hc.enc hself
  obtain ⟨a, hb⟩ := hc.edit
  obtain ⟨hl1, hl2⟩ := addLeaf_leftmost hc.add (fun j hj => absurd hj (Nat.not_lt_zero j))
  refine ⟨_, hjm, rfl, hje, hk, ?_, ⟨o.pathKeys, hsl⟩, ⟨a, t1, hb, hl1, hl2⟩,
    fun m hm he => hi'.agree m hm _ hjm (by rw [he, hje])⟩
  rw [hc.world]
  exact hpu.leaf

/-- **The receivers' own provisional tree.**  The model lets the receivers of an external commit work on the
committer's provisional tree `t1x` (leaf node `L0` inserted).  Really a receiver inserts the leaf node `nl` of
the update path (`external_leaf = update_path.leaf_node`; the model checks `conflicts t1 nl`) — this theorem
closes the gap: `addLeaf` puts `nl` on the same leaf, `apply_update_path` on the receiver's tree gives the
committer's new tree, and `provisional_private_tree` computes the same slots from either tree. -/
theorem external_commit_receivers_tree {w w' : GroupWorld} {tr : Transcript} {gi : Nat} {remove : Option Nat}
    {L0 nl : Leaf} {fresh : Nat} {psk : Sec} {ctx : Nat} {deliverTo : List Nat}
    (h : w.externalCommit gi remove L0 nl fresh psk ctx deliverTo = .ok (w', tr)) :
    ∃ a t1 self t1x t1r pk, batchEdit w.tree (extEdits remove) = .ok (a, t1) ∧
      addLeaf t1 L0 0 = .ok (self, t1x) ∧ addLeaf t1 nl 0 = .ok (self, t1r) ∧
      applyUpdatePath t1r self nl pk = .ok w'.tree ∧
      ∀ p own, provisionalPriv t1r p own = provisionalPriv t1x p own := by
  obtain ⟨gm, t1, self, t1x, o, ms, hc⟩ := externalCommit_inv h
  obtain ⟨a, hb⟩ := hc.edit
  obtain ⟨_, L, hL⟩ := applyUpdatePath_spec hc.recvTree
  refine ⟨a, t1, self, t1x, _, o.pathKeys, hb, hc.add, addLeaf_other hc.add hc.noconf, ?_,
    fun p own => provisionalPriv_set_leaf hL p own⟩
  rw [applyUpdatePath_set_leaf hL, hc.recvTree, hc.world]

/-- What a receiver of an external commit computes is derivable, in the sense of the adversary model of
`C02Group`, from exactly what it holds: its (provisional) private keys, its old epoch secret — from which it
derives the external private key and opens the KEM output —, the PSK, and the public transcript. -/
theorem external_receiver_secret_is_derivable {t1x : Tree} {o : EncapOut} {s0 : Sec} {self n : Nat}
    {psk : Sec} {ctx : Nat} {m m' : Member} {tr : Transcript}
    (htr : tr.pathSeals = pathSealsOf o s0) (hext : tr.ext = some (m.secret, .ext n))
    (h : recvPathI (.ext n) t1x o (pathSealsOf o s0) self noEdits [] psk ctx m = .ok m') :
    Derivable (keysOf (provisionalPriv t1x m.priv none)) [m.secret, psk]
      tr.seals tr.gens (.sec m'.secret) := by
  obtain ⟨d, ps, r, k, _, hps, hr, hk, _, rfl⟩ := recvPathI_ok h
  rw [ownUpdate_noEdits] at hk
  have hkey : Key.node k ∈ keysOf (provisionalPriv t1x m.priv none) := by
    unfold keysOf
    rw [List.mem_filterMap]
    exact ⟨some k, List.mem_of_getElem? hk, rfl⟩
  have hseal : (Key.node k, ps.secret) ∈ tr.seals := by
    unfold Transcript.seals
    rw [List.mem_append]
    left
    rw [List.mem_flatMap]
    refine ⟨ps, by rw [htr]; exact List.mem_of_getElem? hps, ?_⟩
    rw [List.mem_filterMap]
    exact ⟨(r, some k), List.mem_of_getElem? hr, rfl⟩
  have hxs : (Key.ext m.secret, Sec.ext n) ∈ tr.seals := by
    unfold Transcript.seals
    rw [hext]
    simp
  have hxg : (m.secret, Key.ext m.secret) ∈ tr.gens := by
    unfold Transcript.gens
    rw [hext]
    simp
  have hopen : Derivable (keysOf (provisionalPriv t1x m.priv none)) [m.secret, psk]
      tr.seals tr.gens (.sec ps.secret) := .opens hseal (.key0 hkey)
  have hN : ∀ i, Derivable (keysOf (provisionalPriv t1x m.priv none)) [m.secret, psk]
      tr.seals tr.gens (.sec (pathN i ps.secret)) := by
    intro i
    induction i with
    | zero => exact hopen
    | succ i ih => exact .path ih
  exact .epoch (.opens hxs (.gen hxg (.sec0 (by simp)))) (hN _) (.sec0 (by simp))

/-! ### the adversary rules are not too weak: an honest receiver's computation is a derivation -/

/-- What a receiver computes is derivable, in the sense of the adversary model of `C02Group`, from exactly what
it holds: its (provisional) private keys, its old epoch secret, the PSK, and the public transcript. -/
theorem receiver_secret_is_derivable {t1 : Tree} {o : EncapOut} {s0 : Sec} {sender : Nat}
    {e : Edits} {added : List Nat} {psk : Sec} {ctx : Nat} {m m' : Member} {tr : Transcript}
    (htr : tr.pathSeals = pathSealsOf o s0)
    (h : recvPath t1 o (pathSealsOf o s0) sender e added psk ctx m = .ok m') :
    Derivable (keysOf (provisionalPriv t1 m.priv (ownUpdate e m.priv.self))) [m.secret, psk]
      tr.seals tr.gens (.sec m'.secret) := by
  obtain ⟨d, ps, r, k, _, hps, hr, hk, _, rfl⟩ := recvPath_ok h
  have hkey : Key.node k ∈ keysOf (provisionalPriv t1 m.priv (ownUpdate e m.priv.self)) := by
    unfold keysOf
    rw [List.mem_filterMap]
    exact ⟨some k, List.mem_of_getElem? hk, rfl⟩
  have hseal : (Key.node k, ps.secret) ∈ tr.seals := by
    unfold Transcript.seals
    rw [List.mem_append]
    left
    rw [List.mem_flatMap]
    refine ⟨ps, by rw [htr]; exact List.mem_of_getElem? hps, ?_⟩
    rw [List.mem_filterMap]
    exact ⟨(r, some k), List.mem_of_getElem? hr, rfl⟩
  have hopen : Derivable (keysOf (provisionalPriv t1 m.priv (ownUpdate e m.priv.self))) [m.secret, psk]
      tr.seals tr.gens (.sec ps.secret) := .opens hseal (.key0 hkey)
  have hN : ∀ n, Derivable (keysOf (provisionalPriv t1 m.priv (ownUpdate e m.priv.self))) [m.secret, psk]
      tr.seals tr.gens (.sec (pathN n ps.secret)) := by
    intro n
    induction n with
    | zero => exact hopen
    | succ n ih => exact .path ih
  exact .epoch (.initOf (.sec0 (by simp))) (hN _) (.sec0 (by simp))

/-! ### Non-vacuity: a concrete history (`Proofs/GroupExample.lean`), evaluated by the kernel -/

open MlsVerif.Group.Ex

-- create; 0 adds 1, 2 (path); 1 adds 3 (no path, PSK); 2 commits a path (3 misses it); 0 removes 1 (path);
-- 2 commits a path.  All side conditions hold, every step succeeds:
example : Reachable w5 :=
  .commit (.commit reach3 ok4 c4) ok5 c5

-- who is where afterwards: members 0 and 2 are in epoch 5, the removed member 1 stays in epoch 3, member 3
-- (which missed commit 2 → 3) stays in epoch 2
example : w5.members.map (fun m => (m.id, m.epoch)) = [(0, 5), (1, 3), (2, 5), (3, 2)] := by decide +kernel

-- the epoch secrets: members 0 and 2 agree in every epoch they share; epochs differ from one another
example : (party w5 0).map (·.secret) = (party w5 2).map (·.secret) ∧
    (party w3 0).map (·.secret) = (party w3 1).map (·.secret) ∧
    (party w2 3).map (·.secret) = (party w2 0).map (·.secret) ∧
    E w5 ≠ E w4 ∧ E w4 ≠ E w3 ∧ E w3 ≠ E w2 := by decide +kernel

-- the new epoch secret of the removal commit, spelled out: init secret of epoch 3, the end of the chain that
-- starts at the random value of this commit (one unfiltered node: the root), no PSK, context 14
example : E w4 = .epoch (.initOf (E w3)) (.path (.fresh 3)) .zero 14 := by decide +kernel

-- the general theorem applied to the example: in epoch 5 everybody at epoch 5 agrees
example : ∀ m1 ∈ w5.members, ∀ m2 ∈ w5.members, m1.epoch = m2.epoch → m1.secret = m2.secret :=
  fun m1 h1 m2 h2 he => (agreement (.commit (.commit reach3 ok4 c4) ok5 c5) m1 h1 m2 h2 he).1

-- member 2 receives the removal commit: it decrypts at the root with the key of node 5 (stamp 2000)
example : (tr4.pathSeals.map fun ps => (ps.node, ps.key, ps.recips)) = [(3, 3000, [(5, some 2000)])] ∧
    m2.priv.keys = [some 302, some 2000, some 2001] := by decide +kernel

/-! ### Non-vacuity: external commits (`Proofs/GroupExample.lean`) -/

-- … party 4 joins by an external commit from member 0's GroupInfo (epoch 5 → 6), then member 2, which has lost
-- its state, re-syncs by an external commit that removes its own old leaf (epoch 6 → 7).  All side conditions
-- hold, both steps succeed:
example : Reachable wx7 := .ext (.ext reach5 okx6 cx6) okx7 cx7

-- who is where afterwards: members 0, 4 and the re-synced member 2 are in epoch 7; the OLD state of member 2 (same
-- identity) stays in epoch 6; the removed member 1 and the lagging member 3 as before
example : wx7.members.map (fun m => (m.id, m.epoch)) = [(0, 7), (1, 3), (2, 6), (3, 2), (4, 7), (2, 7)] := by
  decide +kernel

-- the new epoch secrets, spelled out: the init secret is the KEM shared secret `ext n`, not `initOf` of the old
-- epoch secret; the commit secret is the end of the joiner's chain (two unfiltered nodes each time)
example : E wx6 = .epoch (.ext 5) (.path (.path (.fresh 5))) .zero 17 ∧
    E wx7 = .epoch (.ext 6) (.path (.path (.fresh 6))) .zero 18 := by decide +kernel

-- the joiner and the members agree: party 4 and member 0 in epochs 6 and 7, the re-synced member 2 in epoch 7
example : j4.secret = E wx6 ∧ (party wx6 2).map (·.secret) = some (E wx6) ∧
    (party wx7 4).map (·.secret) = some (E wx7) ∧ m2y.secret = E wx7 ∧ m2y.epoch = 7 := by decide +kernel

-- the general theorem applied to the example: everybody at the same epoch agrees
example : ∀ m1 ∈ wx7.members, ∀ m2 ∈ wx7.members, m1.epoch = m2.epoch → m1.secret = m2.secret :=
  fun m1 h1 m2 h2 he => (agreement reachx7 m1 h1 m2 h2 he).1

-- the tree edit: party 4 takes the leftmost blank leaf (leaf 1, left by the removed member 1) and holds the keys of
-- its whole direct path; the re-synced member 2 gets leaf 2 again (blanked by its own Remove) with new keys, while
-- its old state keeps the old ones
example : j4.priv = ⟨1, [some 714, some 7000, some 7001]⟩ ∧
    m2y.priv = ⟨2, [some 812, some 8000, some 8001]⟩ ∧
    m2x.priv = ⟨2, [some 502, some 4000, some 7001, none]⟩ := by decide +kernel

-- the transcript of the first external commit: the KEM output towards the external key of epoch 5, no Welcome,
-- two update-path nodes (member 0 opens the first with its leaf key, member 2 the second with the key of node 5)
example : trx6.ext = some (E w5, .ext 5) ∧ trx6.welcome = [] ∧
    (trx6.pathSeals.map fun ps => (ps.node, ps.key, ps.recips)) =
      [(1, 7000, [(0, some 400)]), (3, 7001, [(5, some 4000)])] := by decide +kernel

-- the theorem about the joiner's state on the example
example : ∃ j ∈ wx6.members, j.id = 4 ∧ j.epoch = wx6.epoch ∧ KeyInv wx6.tree j.priv := by
  obtain ⟨j, h1, h2, h3, h4, _⟩ := external_committer_gets_members_state reach5 okx6 cx6
  exact ⟨j, h1, h2, h3, h4⟩

end MlsVerif.Props.C01Group
