import MlsVerif.Proofs.GroupProgress
import MlsVerif.Proofs.GroupSecrecy
import MlsVerif.Proofs.GroupExample
/-!
# C01 (composed) — agreement of the epoch secrets over whole histories

Model: `Model/Group.lean` (`GroupWorld`: the public ratchet tree of `Model/Tree.lean`, and for every followed
party its private key slots `Priv`, its epoch number and its *symbolic* epoch secret `Sec`).
`GroupWorld.commit` is executable: the committer runs `batchEdit` / `encap`, seals the path-secret chain to
`EncapOut.seals`; every party in `deliverTo` runs `provisionalPriv` / `decap`, *opens* the ciphertext `decap`
points at (this needs the key stamp in its slot to be the recipient's stamp), derives upwards, checks the
derived keys against the announced ones and runs the key schedule on *its own* init secret; joiners take the
joiner secret from the Welcome sealed to their init key and their node keys by `joinerPriv`.  Parties outside
`deliverTo` and removed members keep their old epoch, keys and secrets ("ghosts").

`Reachable` (`Proofs/GroupInv.lean`): worlds reachable from a one-member group by any number of such commits —
any committer, any proposals that `batchEdit` accepts, with and without a path, any `deliverTo` — under the
side conditions `CommitOk` (exactly those of `Step.commit`: stamps that are meant to be new are new).

History is linear in this model (one public tree): two parties with the same epoch number have processed the
same commits.  Forks (two commits for the same epoch) are outside the model.

The tree-layer facts are used, not re-proved: `step_good` (`KeyInv` for every member through a commit),
`receiver_commit`, `decap_position_agrees`, `decap_succeeds`, `encap_spec`, `Enc.encap_facts` (the seal list),
`joiner_commit`, `encap_applyUpdatePath_agree`.
-/
namespace MlsVerif.Props.C01Group
open MlsVerif.Tree MlsVerif.Group

/-! ### agreement, for all histories -/

/-- The invariant of all reachable group worlds: the tree is well-formed and every current member holds
exactly the keys it is entitled to (`World.Good`: C08 + C09), no followed party is ahead of the group, and
any two followed parties at the same epoch hold the same epoch secret. -/
theorem invariant_holds {w : GroupWorld} (h : Reachable w) : GInv w :=
  reachable_ginv h

/-- … and it is preserved by every commit (the induction step). -/
theorem invariant_preserved {w w' : GroupWorld} {tr : Transcript} {sender : Nat} {e : Edits}
    {newLeaf : Option Leaf} {fresh : Nat} {psk : Sec} {ctx : Nat} {deliverTo : List Nat}
    (hi : GInv w) (hok : CommitOk w sender e newLeaf fresh)
    (h : w.commit sender e newLeaf fresh psk ctx deliverTo = .ok (w', tr)) : GInv w' :=
  ginv_commit hi hok h

/-- **Agreement.**  In every reachable world, any two followed parties (current members, members that missed
commits, removed members) that are at the same epoch hold the same epoch secret and the same init secret. -/
theorem agreement {w : GroupWorld} (h : Reachable w) :
    ∀ m1 ∈ w.members, ∀ m2 ∈ w.members, m1.epoch = m2.epoch →
      m1.secret = m2.secret ∧ m1.initSecret = m2.initSecret := by
  intro m1 h1 m2 h2 he
  have := (reachable_ginv h).agree m1 h1 m2 h2 he
  exact ⟨this, by simp only [Member.initSecret, this]⟩

/-- **Everybody the commit is delivered to ends with the committer's new epoch secret**:
`epoch (initOf <committer's old epoch secret>) <commit secret> psk ctx`, where the commit secret is the end
of the committer's path-secret chain, or `zero` without a path.  Every party of the new world is either an
unchanged party of the old world (a ghost) or is in the new epoch with exactly this secret. -/
theorem new_epoch_secret_is_committers {w w' : GroupWorld} {tr : Transcript} {sender : Nat} {e : Edits}
    {newLeaf : Option Leaf} {fresh : Nat} {psk : Sec} {ctx : Nat} {deliverTo : List Nat}
    (hr : Reachable w) (h : w.commit sender e newLeaf fresh psk ctx deliverTo = .ok (w', tr)) :
    w'.epoch = w.epoch + 1 ∧
    ∃ cm ∈ w.members, cm.epoch = w.epoch ∧ ∃ cs,
      (newLeaf = none → cs = .zero) ∧ (newLeaf ≠ none → ∃ u, cs = pathN u (.fresh w.epoch)) ∧
      ∀ m' ∈ w'.members, (m' ∈ w.members ∧ m'.epoch ≤ w.epoch) ∨
        (m'.epoch = w.epoch + 1 ∧ m'.secret = .epoch (.initOf cm.secret) cs psk ctx) := by
  obtain ⟨h1, _, h3⟩ := commit_member_cases (reachable_ginv hr) h
  exact ⟨h1, h3⟩

/-- every old member in `deliverTo` that the commit does not remove really is in the new epoch afterwards
(same identity, same leaf) -/
theorem delivered_members_advance {w w' : GroupWorld} {tr : Transcript} {sender : Nat} {e : Edits}
    {newLeaf : Option Leaf} {fresh : Nat} {psk : Sec} {ctx : Nat} {deliverTo : List Nat}
    (h : w.commit sender e newLeaf fresh psk ctx deliverTo = .ok (w', tr))
    {m : Member} (hm : m ∈ w.members) (hcur : m.epoch = w.epoch)
    (hd : m.priv.self = sender ∨ (m.priv.self ∉ e.removes ∧ m.priv.self ∈ deliverTo)) :
    ∃ m' ∈ w'.members, m'.id = m.id ∧ m'.priv.self = m.priv.self ∧ m'.epoch = w'.epoch := by
  have hp : processes w sender e deliverTo m = true := processes_iff.2 ⟨hcur, hd⟩
  obtain ⟨cm, added, t1, hpre, h⟩ := commit_inv h
  cases newLeaf with
  | some nl =>
    obtain ⟨o, ms, js, hc⟩ := commitPath_inv h
    obtain ⟨m', hm', hadv⟩ := (mapE_ok hc.members).2 m hm
    refine ⟨m', by rw [hc.world]; exact List.mem_append_left _ hm', ?_⟩
    rcases advPath_cases hadv with ⟨hf, _⟩ | ⟨_, hs, rfl⟩ | ⟨_, _, _, _, hr⟩
    · rw [hp] at hf; cases hf
    · exact ⟨rfl, hs.symm, by rw [hc.world, hcur]⟩
    · obtain ⟨d, ps, r, k, hdd, _, _, _, _, rfl⟩ := recvPath_ok hr
      obtain ⟨_, _, _, _, _, _, _, _, _, _, _, hself, _⟩ := Dec.decap_ok hdd
      exact ⟨rfl, by rw [hself, provisionalPriv_self], by rw [hc.world, hcur]⟩
  | none =>
    obtain ⟨js, hc⟩ := commitNoPath_inv h
    refine ⟨advNoPath w sender e deliverTo t1 psk ctx m, by
      rw [hc.world]; exact List.mem_append_left _ (List.mem_map.2 ⟨m, hm, rfl⟩), ?_⟩
    rcases advNoPath_cases w sender e deliverTo t1 psk ctx m with ⟨hf, _⟩ | ⟨_, _, heq⟩
    · rw [hp] at hf; cases hf
    · rw [heq]
      exact ⟨rfl, provisionalPriv_self _ _ _, by rw [hc.world, hcur]⟩

/-! ### the commit secret is the end of the chain -/

/-- Whatever position `c` a receiver decrypts at: if the update-path node it looks at
(`countSome (pathKeys.take c)`-th node) exists, continuing the derivation from the secret inside over the
remaining announced nodes ends at the committer's commit secret `pathN (countSome pathKeys) s0`
(`chain_meets` of `Props/C01`, on the real seal list). -/
theorem commit_secret_end_of_chain {o : EncapOut} {s0 : Sec} {c : Nat} {ps : PathSeal}
    (h : (pathSealsOf o s0)[countSome (o.pathKeys.take c)]? = some ps) :
    pathN (countSome (o.pathKeys.drop c)) ps.secret = pathN (countSome o.pathKeys) s0 :=
  recv_commit_secret h

/-- … so every receiver that gets through computes the committer's commit secret, and its new epoch secret
differs from the committer's at most in the init secret it started from. -/
theorem receiver_computes_committers_commit_secret {t1 : Tree} {o : EncapOut} {s0 : Sec} {sender : Nat}
    {e : Edits} {added : List Nat} {psk : Sec} {ctx : Nat} {m m' : Member}
    (h : recvPath t1 o (pathSealsOf o s0) sender e added psk ctx m = .ok m') :
    m'.secret = .epoch (.initOf m.secret) (pathN (countSome o.pathKeys) s0) psk ctx := by
  obtain ⟨d, ps, r, k, _, hps, _, _, _, rfl⟩ := recvPath_ok h
  simp only
  rw [recv_commit_secret hps]

/-! ### progress: no entitled party gets stuck -/

/-- **A receiver is never stuck.**  For a current member `m` (key invariant `KeyInv`, sitting on a leaf) that
the commit does not remove: `decap` succeeds, the ciphertext it selects in the update-path node of its
position is sealed to a key stamp `k` that `m` holds in the slot `decap` tells it to use, the derived keys
match the announced ones, and so `recvPath` returns a new state.  Side conditions as in `Step.commit`. -/
theorem receiver_not_stuck {w : GroupWorld} {sender : Nat} {e : Edits} {nl : Leaf} {fresh : Nat} {psk : Sec}
    {ctx : Nat} {added : List Nat} {t1 : Tree} {o : EncapOut}
    (hw : WF w.tree) (hfr : e.FreshKeys w.tree) (hb : batchEdit w.tree e = .ok (added, t1))
    (hL : ∃ L, get t1 (2 * sender) = some (.leaf L)) (he : encap t1 sender nl added fresh = .ok o)
    {m : Member} (hk : KeyInv w.tree m.priv) (hm : ∃ L, get w.tree (2 * m.priv.self) = some (.leaf L))
    (hnr : m.priv.self ∉ e.removes) (hne : m.priv.self ≠ sender) (s0 : Sec) :
    ∃ m' d ps r k, recvPath t1 o (pathSealsOf o s0) sender e added psk ctx m = .ok m' ∧
      decap o.tree (provisionalPriv t1 m.priv (ownUpdate e m.priv.self)) sender o.pathKeys added = .ok d ∧
      (pathSealsOf o s0)[countSome (o.pathKeys.take (lcaIndex m.priv.self sender))]? = some ps ∧
      ps.recips[d.ctPos]? = some (r, some k) ∧
      (provisionalPriv t1 m.priv (ownUpdate e m.priv.self)).keys[d.slot]? = some (some k) := by
  obtain ⟨m', hm'⟩ := recvPath_progress (psk := psk) (ctx := ctx) hw hfr hb hL he hk hm hnr hne s0
  obtain ⟨d, ps, r, k, h1, h2, h3, h4, _, _⟩ := recvPath_ok hm'
  exact ⟨m', d, ps, r, k, hm', h1, h2, h3, h4⟩

/-- **Progress of a whole commit.**  In a world satisfying the invariant (e.g. any reachable world), a commit
by a followed current member that does not remove itself and whose proposals apply (`batchEdit`) succeeds — the
committer's `encap` is total (`encap_total`) — and is processed by every party it is delivered to, whatever
`deliverTo` is: no receiver, no updated receiver and no joiner gets stuck, and every receiver computes the
committer's tree.  `hok`: the side conditions of `Step.commit` (new stamps are new). -/
theorem commit_never_stuck {w : GroupWorld} {sender : Nat} {e : Edits} {newLeaf : Option Leaf} {fresh : Nat}
    {psk : Sec} {ctx : Nat} {cm : Member} {added : List Nat} {t1 : Tree} (deliverTo : List Nat)
    (hi : GInv w) (hok : CommitOk w sender e newLeaf fresh) (hpsk : psk.isPskInput = true)
    (hnr : sender ∉ e.removes) (hcm : w.sender? sender = some cm)
    (hb : batchEdit w.tree e = .ok (added, t1)) :
    ∃ r, w.commit sender e newLeaf fresh psk ctx deliverTo = .ok r :=
  commit_progress deliverTo hi hok hpsk hnr hcm hb

/-! ### joiners (C07) -/

/-- **A joiner ends with the members' state.**  Every added member in `deliverTo` is, after the commit, a
followed party in the new epoch with its key-package identity, sitting on the leaf the commit gave it,
holding the same epoch secret as every other party of the new epoch, and holding exactly the keys it is
entitled to in the new tree (`KeyInv`). -/
theorem joiner_gets_members_state {w w' : GroupWorld} {tr : Transcript} {sender : Nat} {e : Edits}
    {newLeaf : Option Leaf} {fresh : Nat} {psk : Sec} {ctx : Nat} {deliverTo : List Nat}
    (hr : Reachable w) (hok : CommitOk w sender e newLeaf fresh)
    (h : w.commit sender e newLeaf fresh psk ctx deliverTo = .ok (w', tr))
    {added : List Nat} {t1 : Tree} (hb : batchEdit w.tree e = .ok (added, t1))
    {j self : Nat} {L : Leaf} (hj : added[j]? = some self) (hL : e.adds[j]? = some L)
    (hd : self ∈ deliverTo) :
    ∃ m' ∈ w'.members, m'.id = L.ident ∧ m'.priv.self = self ∧ m'.epoch = w'.epoch ∧
      KeyInv w'.tree m'.priv ∧ get w'.tree (2 * self) = some (.leaf L) ∧
      ∀ m'' ∈ w'.members, m''.epoch = w'.epoch → m''.secret = m'.secret := by
  have hi := reachable_ginv hr
  have hi' := ginv_commit hi hok h
  have key : ∃ m' ∈ w'.members, m'.id = L.ident ∧ m'.priv.self = self ∧ m'.epoch = w'.epoch := by
    obtain ⟨cm, added', t1', hpre, h⟩ := commit_inv h
    have := hpre.edit
    rw [hb] at this
    simp only [Except.ok.injEq, Prod.mk.injEq] at this
    obtain ⟨rfl, rfl⟩ := this
    have hx : (j, self, L) ∈ joinersOf e added deliverTo := mem_joinersOf.2 ⟨hj, hL, hd⟩
    cases newLeaf with
    | some nl =>
      obtain ⟨o, ms, js, hc⟩ := commitPath_inv h
      obtain ⟨m', hm', hf⟩ := (mapE_ok hc.joiners).2 _ hx
      obtain ⟨w0, p, _, _, _, hjp, rfl⟩ := joinWith_ok hf
      exact ⟨_, by rw [hc.world]; exact List.mem_append_right _ hm', rfl, joinerPriv_self hjp,
        by rw [hc.world]⟩
    | none =>
      obtain ⟨js, hc⟩ := commitNoPath_inv h
      obtain ⟨m', hm', hf⟩ := (mapE_ok hc.joiners).2 _ hx
      obtain ⟨w0, p, _, _, _, hjp, rfl⟩ := joinWith_ok hf
      exact ⟨_, by rw [hc.world]; exact List.mem_append_right _ hm', rfl, joinerPriv_self hjp,
        by rw [hc.world]⟩
  obtain ⟨m', hm', h1, h2, h3⟩ := key
  obtain ⟨⟨L', hL'⟩, hk⟩ := hi'.good.2 _ (current_priv_mem hm' h3)
  refine ⟨m', hm', h1, h2, h3, hk, ?_, fun m'' hm'' he => hi'.agree m'' hm'' m' hm' (by rw [he, h3])⟩
  -- the leaf: from the step relation of the tree layer
  have hes := batchEdit_editSpec hi.good.1.1.1 hb
  obtain ⟨L2, hL2a, hL2b⟩ := hes.added_leaf j self hj
  rw [hL] at hL2a
  cases hL2a
  obtain ⟨cm, added', t1', hpre, h⟩ := commit_inv h
  have := hpre.edit
  rw [hb] at this
  simp only [Except.ok.injEq, Prod.mk.injEq] at this
  obtain ⟨rfl, rfl⟩ := this
  cases newLeaf with
  | some nl =>
    obtain ⟨o, ms, js, hc⟩ := commitPath_inv h
    rw [hc.world]
    have hne : self ≠ sender := by
      rintro rfl; exact sender_not_added hi hpre (List.mem_of_getElem? hj)
    obtain ⟨_, hf, _, _, _⟩ := encap_spec hc.enc (self_lt_of_leaf hpre.leaf)
    obtain ⟨L3, h3a, h3b, _⟩ := joiner_commit hi.good.1 hb hj hne hf hc.recvTree
    rw [hL] at h3a
    cases h3a
    exact h3b
  | none =>
    obtain ⟨js, hc⟩ := commitNoPath_inv h
    rw [hc.world]
    exact hL2b

/-! ### the adversary rules are not too weak: an honest receiver's computation is a derivation -/

/-- What a receiver computes is derivable, in the sense of the adversary model of `C02Group`, from exactly what
it holds: its (provisional) private keys, its old epoch secret, the PSK, and the public transcript. -/
theorem receiver_secret_is_derivable {t1 : Tree} {o : EncapOut} {s0 : Sec} {sender : Nat}
    {e : Edits} {added : List Nat} {psk : Sec} {ctx : Nat} {m m' : Member} {tr : Transcript}
    (htr : tr.pathSeals = pathSealsOf o s0)
    (h : recvPath t1 o (pathSealsOf o s0) sender e added psk ctx m = .ok m') :
    Derivable (keysOf (provisionalPriv t1 m.priv (ownUpdate e m.priv.self))) [m.secret, psk]
      tr.seals tr.gens (.sec m'.secret) := by
  obtain ⟨d, ps, r, k, _, hps, hr, hk, _, rfl⟩ := recvPath_ok h
  have hkey : Key.node k ∈ keysOf (provisionalPriv t1 m.priv (ownUpdate e m.priv.self)) := by
    unfold keysOf
    rw [List.mem_filterMap]
    exact ⟨some k, List.mem_of_getElem? hk, rfl⟩
  have hseal : (Key.node k, ps.secret) ∈ tr.seals := by
    unfold Transcript.seals
    rw [List.mem_append]
    left
    rw [List.mem_flatMap]
    refine ⟨ps, by rw [htr]; exact List.mem_of_getElem? hps, ?_⟩
    rw [List.mem_filterMap]
    exact ⟨(r, some k), List.mem_of_getElem? hr, rfl⟩
  have hopen : Derivable (keysOf (provisionalPriv t1 m.priv (ownUpdate e m.priv.self))) [m.secret, psk]
      tr.seals tr.gens (.sec ps.secret) := .opens hseal (.key0 hkey)
  have hN : ∀ n, Derivable (keysOf (provisionalPriv t1 m.priv (ownUpdate e m.priv.self))) [m.secret, psk]
      tr.seals tr.gens (.sec (pathN n ps.secret)) := by
    intro n
    induction n with
    | zero => exact hopen
    | succ n ih => exact .path ih
  exact .epoch (.initOf (.sec0 (by simp))) (hN _) (.sec0 (by simp))

/-! ### Non-vacuity: a concrete history (`Proofs/GroupExample.lean`), evaluated by the kernel -/

open MlsVerif.Group.Ex

-- create; 0 adds 1, 2 (path); 1 adds 3 (no path, PSK); 2 commits a path (3 misses it); 0 removes 1 (path);
-- 2 commits a path.  All side conditions hold, every step succeeds:
example : Reachable w5 :=
  .commit (.commit reach3 ok4 c4) ok5 c5

-- who is where afterwards: members 0 and 2 are in epoch 5, the removed member 1 stays in epoch 3, member 3
-- (which missed commit 2 → 3) stays in epoch 2
example : w5.members.map (fun m => (m.id, m.epoch)) = [(0, 5), (1, 3), (2, 5), (3, 2)] := by decide +kernel

-- the epoch secrets: members 0 and 2 agree in every epoch they share; epochs differ from one another
example : (party w5 0).map (·.secret) = (party w5 2).map (·.secret) ∧
    (party w3 0).map (·.secret) = (party w3 1).map (·.secret) ∧
    (party w2 3).map (·.secret) = (party w2 0).map (·.secret) ∧
    E w5 ≠ E w4 ∧ E w4 ≠ E w3 ∧ E w3 ≠ E w2 := by decide +kernel

-- the new epoch secret of the removal commit, spelled out: init secret of epoch 3, the end of the chain that
-- starts at the random value of this commit (one unfiltered node: the root), no PSK, context 14
example : E w4 = .epoch (.initOf (E w3)) (.path (.fresh 3)) .zero 14 := by decide +kernel

-- the general theorem applied to the example: in epoch 5 everybody at epoch 5 agrees
example : ∀ m1 ∈ w5.members, ∀ m2 ∈ w5.members, m1.epoch = m2.epoch → m1.secret = m2.secret :=
  fun m1 h1 m2 h2 he => (agreement (.commit (.commit reach3 ok4 c4) ok5 c5) m1 h1 m2 h2 he).1

-- member 2 receives the removal commit: it decrypts at the root with the key of node 5 (stamp 2000)
example : (tr4.pathSeals.map fun ps => (ps.node, ps.key, ps.recips)) = [(3, 3000, [(5, some 2000)])] ∧
    m2.priv.keys = [some 302, some 2000, some 2001] := by decide +kernel

end MlsVerif.Props.C01Group
