import MlsVerif.Proofs.TreeHashOps
/-
C08, tree-hash part: the incremental tree-hash cache (`tree_hashes.current`, maintained by
`update_hashes` after every tree operation) always equals the from-scratch RFC 9420 §7.8 tree hash of
the current tree, for every node; in particular the tree hash in the group context
(`current[root]`) is the tree hash of the current ratchet tree.

Model: `Model/TreeHash.lean` — symbolic hashes `HT` (free/injective hash function; `HT.dflt` =
`TreeHash::default()`, the `Vec::resize` filler), spec `treeHashSpec`, implementation
`treeHashWith` / `updateHashes` / `initializeHashes` / `treeHash`, `Coherent t c`.
Only statements live here; proofs in `Proofs/TreeHash.lean` (a, b) and `Proofs/TreeHashOps.lean` (c).
-/
namespace MlsVerif.Props.C08Hash
open MlsVerif.Tree MlsVerif.TreeMath MlsVerif.TreeHash

/-! ### (a) the from-scratch computation is the spec -/

/-- `tree_hash(.., leaves = None, ..)` from ANY old cache yields a coherent cache -/
theorem tree_hash_full (c : List HT) (t : Tree) :
    Coherent t (treeHashImpl c t none [] (leafCount t)) :=
  MlsVerif.TreeHash.tree_hash_full c t

/-- … also with filtered leaves (the "original" hashes of `compute_original_hashes`) and for any
power-of-two leaf count -/
theorem tree_hash_full_filtered (c : List HT) (t : Tree) (filtered : List Nat) (k : Nat) :
    (treeHashImpl c t none filtered (2 ^ k)).length = 2 * 2 ^ k - 1 ∧
    ∀ z, z < 2 * 2 ^ k - 1 →
      (treeHashImpl c t none filtered (2 ^ k))[z]? = some (treeHashSpec t filtered z) :=
  treeHashImpl_full c t filtered k

/-- `initialize_hashes` on the empty cache (tree creation / import) -/
theorem initialize_hashes_coherent (t : Tree) : Coherent t (initializeHashes [] t) :=
  tree_hash_full [] t

/-! ### (b) `update_hashes` refines the spec -/

/-- The key refinement lemma.  `t0`, `c0`: tree and coherent cache before an operation; `t`: the tree
after it.  Hypothesis: every node index `x` of the new full tree (`x < 2·leafCount t − 1`) at which
the trees differ — positions beyond the end of either node array read as blank — either has no cache
entry yet (`c0.length ≤ x`) or is the leaf node / lies on the direct path of some leaf `l` of
`updated` that exists in the new tree (`below l x`, `l < leafCount t`).
  * same size: the modified direct paths must be those of `updated`;
  * growth: the new right half and the new root have no cache entry; they are recomputed because the
    right-to-left scan finds every leaf `l` with `2l ≥ c0.length`;
  * shrink (`trim`): only the surviving indices `x < 2·leafCount t − 1` are constrained; the cache is
    truncated by `resize`. -/
theorem update_hashes_coherent {t0 t : Tree} {c0 : List HT} {updated : List Nat}
    (hc : Coherent t0 c0)
    (hdiff : ∀ x, x < 2 * leafCount t - 1 → get t x ≠ get t0 x →
      c0.length ≤ x ∨ ∃ l ∈ updated, l < leafCount t ∧ below l x) :
    Coherent t (updateHashes c0 t updated) :=
  updateHashes_coherent hc hdiff

/-- on an empty (never initialised) cache `update_hashes` is a full computation -/
theorem update_hashes_from_empty (t : Tree) (updated : List Nat) :
    Coherent t (updateHashes [] t updated) :=
  updateHashes_nil t updated

/-- shrink-then-grow (or any two consecutive operations): two applications compose -/
theorem update_hashes_twice {t0 t1 t2 : Tree} {c0 : List HT} {u1 u2 : List Nat}
    (hc : Coherent t0 c0)
    (h1 : ∀ x, x < 2 * leafCount t1 - 1 → get t1 x ≠ get t0 x →
      c0.length ≤ x ∨ ∃ l ∈ u1, l < leafCount t1 ∧ below l x)
    (h2 : ∀ x, x < 2 * leafCount t2 - 1 → get t2 x ≠ get t1 x →
      2 * leafCount t1 - 1 ≤ x ∨ ∃ l ∈ u2, l < leafCount t2 ∧ below l x) :
    Coherent t2 (updateHashes (updateHashes c0 t1 u1) t2 u2) := by
  have c1 := updateHashes_coherent hc h1
  exact updateHashes_coherent c1 (by rw [c1.1]; exact h2)

/-- the scan: exactly the leaves of the new tree without a cache entry -/
theorem scan_finds_missing (c : List HT) (n l : Nat) :
    l ∈ scanMissing c n ↔ l < n ∧ c.length ≤ 2 * l :=
  mem_scanMissing c n l

/-! ### (c) the tree operations, with the leaf lists the Rust code passes -/

/-- `batch_edit` changes the tree only at leaf nodes / on direct paths of
`removes ++ updated_indices ++ added` (mod.rs: `updated_leaves`) -/
theorem batchEdit_changes {t t' : Tree} {e : Edits} {added : List Nat}
    (h : batchEdit t e = .ok (added, t')) :
    ∀ x, get t' x ≠ get t x → ∃ l ∈ e.removes ++ e.updates.map (·.1) ++ added, below l x :=
  batchEdit_diff h

theorem coherent_preserved_batchEdit {t t' : Tree} {c : List HT} {e : Edits} {added : List Nat}
    (hc : Coherent t c) (h : batchEdit t e = .ok (added, t')) :
    Coherent t' (updateHashes c t' (e.removes ++ e.updates.map (·.1) ++ added)) :=
  coherent_batchEdit hc h

/-- `encap` (kem.rs: `update_hashes(&[self_index])`) -/
theorem coherent_preserved_encap {t : Tree} {c : List HT} {self fresh : Nat} {nl : Leaf}
    {excl : List Nat} {o : EncapOut} (hc : Coherent t c)
    (hL : ∃ L, get t (2 * self) = some (.leaf L)) (h : encap t self nl excl fresh = .ok o) :
    Coherent o.tree (updateHashes c o.tree [self]) :=
  coherent_encap hc hL h

/-- `apply_update_path` (parent_hash.rs `update_parent_hashes`, message_processor.rs:
`update_hashes(&[sender])`) -/
theorem coherent_preserved_applyUpdatePath {t t' : Tree} {c : List HT} {sender : Nat} {nl : Leaf}
    {pk : List (Option Nat)} (hc : Coherent t c) (h : applyUpdatePath t sender nl pk = .ok t') :
    Coherent t' (updateHashes c t' [sender]) :=
  coherent_applyUpdatePath hc h

/-- extra `update_hashes` calls on an unchanged tree (commit.rs without a path; the two calls inside
`update_parent_hashes`) are harmless, whatever list they get -/
theorem coherent_preserved_rehash {t : Tree} {c : List HT} (hc : Coherent t c) (ls : List Nat) :
    Coherent t (updateHashes c t ls) :=
  coherent_rehash hc ls

/-- Along every history — a tree is created or imported and `initialize_hashes` runs on the empty
cache; then any sequence of `batch_edit`, `encap`, `apply_update_path`, each followed by the code's
`update_hashes` call, and extra `update_hashes` calls — the cache is coherent. -/
theorem reachable_cache_coherent {t : Tree} {c : List HT} (h : CReach t c) : Coherent t c :=
  creach_coherent h

/-- … hence the tree hash the group context carries (`tree_hash()` = `current[root]`) is the
from-scratch tree hash of the root, and `tree_hash()` does not touch the cache -/
theorem reachable_context_tree_hash {t : Tree} {c : List HT} (h : CReach t c) :
    treeHash c t = (c, treeHashSpec t [] (root (leafCount t))) :=
  treeHash_of_coherent (creach_coherent h)

/-- the trees of `Props/C08.Reachable` (one-member group, proposals, committers' paths) all occur -/
theorem reachable_has_cache {t : Tree} (h : Reachable t) : ∃ c, CReach t c ∧ Coherent t c := by
  obtain ⟨c, hc⟩ := MlsVerif.TreeHash.reachable_has_cache h
  exact ⟨c, hc, creach_coherent hc⟩

/-! ### Non-vacuity -/

private def L (i : Nat) : Option Node := some (.leaf ⟨i, 100 + i, 200 + i⟩)
private def P (k : Nat) (u : List Nat) : Option Node := some (.parent ⟨k, u⟩)
private def lf (i : Nat) : Option Leaf := some ⟨i, 100 + i, 200 + i⟩

/-- five leaf slots (8-leaf frame, 15 cache entries): leaf 1 blank, leaf 4 unmerged at the root -/
private def t5 : Tree := [L 0, none, none, P 11 [], L 2, P 12 [], L 3, P 13 [4], L 4]

example : leafCount t5 = 8 := by decide +kernel
example : treeHashSpec t5 [] 7 =
    .parent (some ⟨13, [4]⟩)
      (.parent (some ⟨11, []⟩)
        (.parent none (.leaf 0 (lf 0)) (.leaf 1 none))
        (.parent (some ⟨12, []⟩) (.leaf 2 (lf 2)) (.leaf 3 (lf 3))))
      (.parent none
        (.parent none (.leaf 4 (lf 4)) (.leaf 5 none))
        (.parent none (.leaf 6 none) (.leaf 7 none))) := by decide +kernel
-- the "original" hash with leaf 4 filtered: hashed as blank and dropped from the unmerged list
example : treeHashSpec t5 [4] 7 =
    .parent (some ⟨13, []⟩)
      (.parent (some ⟨11, []⟩)
        (.parent none (.leaf 0 (lf 0)) (.leaf 1 none))
        (.parent (some ⟨12, []⟩) (.leaf 2 (lf 2)) (.leaf 3 (lf 3))))
      (.parent none
        (.parent none (.leaf 4 none) (.leaf 5 none))
        (.parent none (.leaf 6 none) (.leaf 7 none))) := by decide +kernel
example : treeHashImpl [] t5 none [] 8 = specAll t5 [] := by decide +kernel
example : Coherent t5 (initializeHashes [] t5) := by decide +kernel
-- from a garbage cache of the wrong size
example : Coherent t5 (treeHashImpl (List.replicate 40 (.leaf 9 none)) t5 none [] 8) := by
  decide +kernel

/-- growth 4 → 8 leaves: one add to a full 4-leaf tree -/
private def t4 : Tree := [L 0, P 10 [], L 1, P 11 [], L 2, P 12 [], L 3]
private def t4add : Tree := [L 0, P 10 [], L 1, P 11 [], L 2, P 12 [], L 3, none, L 7]

example : batchEdit t4 ⟨[], [], [⟨7, 107, 207⟩]⟩ = .ok ([4], t4add) := by decide +kernel
example : (specAll t4 []).length = 7 ∧ leafCount t4add = 8 := by decide +kernel
example : scanMissing (specAll t4 []) 8 = [7, 6, 5, 4] := by decide +kernel
example : updateHashes (specAll t4 []) t4add [4] = specAll t4add [] := by decide +kernel
example : Coherent t4add (updateHashes (specAll t4 []) t4add ([] ++ [] ++ [4])) :=
  coherent_preserved_batchEdit (t := t4) (e := ⟨[], [], [⟨7, 107, 207⟩]⟩)
    (by decide +kernel) (by decide +kernel)

/-- shrink 8 → 4 leaves: removing leaf 4 of `t4add` trims the node array back to 7 entries -/
private def t4rm : Tree := [L 0, none, L 1, none, L 2, P 12 [], L 3]

example : batchEdit t4add ⟨[4], [], []⟩ = .ok ([], [L 0, P 10 [], L 1, P 11 [], L 2, P 12 [], L 3]) := by
  decide +kernel
example : batchEdit t4add ⟨[4, 0], [], []⟩ = .ok ([], [none, none, L 1, none, L 2, P 12 [], L 3]) := by
  decide +kernel
example : (updateHashes (specAll t4add []) [none, none, L 1, none, L 2, P 12 [], L 3] [4, 0]).length = 7 ∧
    updateHashes (specAll t4add []) [none, none, L 1, none, L 2, P 12 [], L 3] [4, 0] =
      specAll [none, none, L 1, none, L 2, P 12 [], L 3] [] := by decide +kernel

/-! ### Negative witness: the seeded bug (cache not truncated when the tree shrinks) -/

private def s4 : Tree := [L 0, none, L 1, none, L 2, none, L 3]
private def s2 : Tree := [L 0, none, L 1]
private def s3 : Tree := [L 0, none, L 1, none, L 7]

/-- A shrink-then-grow history: four members, members 2 and 3 are removed (the tree trims to two
leaves), then a new member is added (leaf 2; the tree grows back to a 4-leaf frame, leaf 3 blank).
With the code's `resize` the cache is coherent at every step (also by the theorems).  With a resize
that only grows, the root hash is still right after the shrink, but the stale entry of the removed
leaf 3 survives, the right-to-left scan stops at it, and after the re-growth node 5 and the root hash
are computed from the removed member's leaf hash. -/
theorem grow_only_resize_breaks_coherence :
    batchEdit s4 ⟨[2, 3], [], []⟩ = .ok ([], s2) ∧
    batchEdit s2 ⟨[], [], [⟨7, 107, 207⟩]⟩ = .ok ([2], s3) ∧
    -- the code
    Coherent s2 (updateHashes (specAll s4 []) s2 [2, 3]) ∧
    Coherent s3 (updateHashes (updateHashes (specAll s4 []) s2 [2, 3]) s3 [2]) ∧
    -- the seeded bug
    (let c1 := updateHashesWith resizeGrowOnly (specAll s4 []) s2 [2, 3]
     let c2 := updateHashesWith resizeGrowOnly c1 s3 [2]
     c1[1]? = some (treeHashSpec s2 [] 1) ∧ c1.length = 7 ∧
     scanMissing c1 4 = [] ∧
     c2.length = 7 ∧
     c2[6]? = some (.leaf 3 (lf 3)) ∧ treeHashSpec s3 [] 6 = .leaf 3 none ∧
     c2[3]? ≠ some (treeHashSpec s3 [] 3) ∧
     ¬ Coherent s3 c2) := by decide +kernel

/-- the same history through the theorems -/
example : Coherent s3 (updateHashes (updateHashes (specAll s4 []) s2 ([2, 3] ++ [] ++ [])) s3
    ([] ++ [] ++ [2])) :=
  coherent_preserved_batchEdit (t := s2) (e := ⟨[], [], [⟨7, 107, 207⟩]⟩)
    (coherent_preserved_batchEdit (t := s4) (e := ⟨[2, 3], [], []⟩) (by decide +kernel)
      (by decide +kernel))
    (by decide +kernel)

/-- a history in `CReach`: creation, two adds, the founder's path update -/
example : ∃ c, CReach [some (.leaf ⟨0, 300, 200⟩), P 1000 [], L 1, P 1001 [], L 2] c :=
  ⟨_, .encap (t := [L 0, none, L 1, none, L 2]) (self := 0) (fresh := 1000) (nl := ⟨0, 300, 200⟩) (excl := [1, 2])
    (o := ⟨[some (.leaf ⟨0, 300, 200⟩), P 1000 [], L 1, P 1001 [], L 2],
      [some 300, some 1000, some 1001], [some 1000, some 1001], [(1, []), (3, [])]⟩)
    (.edit (e := ⟨[], [], [⟨1, 101, 201⟩, ⟨2, 102, 202⟩]⟩) (added := [1, 2])
      (t' := [L 0, none, L 1, none, L 2]) (.init [L 0])
      (by decide +kernel))
    ⟨_, rfl⟩ (by decide +kernel)⟩

end MlsVerif.Props.C08Hash
