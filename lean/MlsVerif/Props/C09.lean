import MlsVerif.Proofs.Tree
/-
C09: members hold exactly the keys they are entitled to.

`KeyInv t p` (`Proofs/Tree/Defs.lean`): slot `j` of the member's private state (slot 0 = own leaf,
slot `j+1` = direct-path node `j`; trailing `none`s ignored) equals `expectedSlots t p.self`: a key
iff the node is non-blank and the member is not unmerged there, and then the stamp stored there.
The interface predicates `PathUpdated`, `FilterOk` (`Proofs/Tree/Spec.lean`) describe what
`encap`/`applyUpdatePath` did to the tree; `FilterOk t s pk` says the announced path keys `pk` sit
exactly on the unfiltered positions of `s`'s direct path.  Invariants: see `Props/C08.lean`.
-/
namespace MlsVerif.Props.C09
open MlsVerif.Tree MlsVerif.TreeMath

/-! ### (9) the committer -/

/-- After `encap` the committer holds exactly the keys of its non-blank direct path.  `NonEmptyInv`
is what makes the filtered (skipped) path nodes blank; without it the statement is false
(`encap_keyinv_needs_nonEmpty`). -/
theorem encap_keyinv {t : Tree} {self fresh : Nat} {newLeaf : Leaf} {excl : List Nat} {o : EncapOut}
    (hs : ShapeInv t) (hn : NonEmptyInv t) (hL : ∃ L, get t (2 * self) = some (.leaf L))
    (h : encap t self newLeaf excl fresh = .ok o) :
    KeyInv o.tree { self := self, keys := o.slots } :=
  encap_keyinv' hs hn hL h

/-- a filtered direct-path node (copath child with empty resolution) is blank -/
theorem filtered_node_blank {t : Tree} (hs : ShapeInv t) (hn : NonEmptyInv t) {i j : Nat}
    {cp : Nat × Nat} (hcp : (directCopathOf t i)[j]? = some cp)
    (hf : (filtered t i)[j]? = some true) : get t cp.1 = none :=
  filtered_blank hs.1 hn hcp hf

/-- Without `NonEmptyInv` (9) fails: a non-blank parent (node 1, key 10) whose right subtree is
blank is filtered by `encap` and keeps its old key, which the committer does not hold.  All other
invariants hold for this tree; it is not reachable (C08: `NonEmptyInv` is preserved). -/
theorem encap_keyinv_needs_nonEmpty :
    ShapeInv Upd.cex ∧ UniqInv Upd.cex ∧ UnmergedInv Upd.cex ∧ ¬ NonEmptyInv Upd.cex ∧
    (∃ o, encap Upd.cex 0 ⟨1, 50, 1⟩ [] 100 = .ok o ∧ o.tree = Upd.cex' ∧
      o.slots = [some 50, none, some 100] ∧ ¬ KeyInv o.tree { self := 0, keys := o.slots }) :=
  ⟨by decide +kernel, by decide +kernel, by decide +kernel, by decide +kernel,
   ⟨⟨Upd.cex', [some 50, none, some 100], [none, some 100], [(3, [4, 6])]⟩, by decide +kernel, rfl, rfl,
    by decide +kernel⟩⟩

/-! ### (11) the committer's keys are new -/

/-- every non-blank node on the committer's direct path carries a stamp `≥ fresh`, and the leaf
is the new leaf node (whose key is `newLeaf.hpke`) -/
theorem fresh_path_keys {t : Tree} {self fresh : Nat} {newLeaf : Leaf} {excl : List Nat}
    {o : EncapOut} (hs : ShapeInv t) (hn : NonEmptyInv t)
    (hL : ∃ L, get t (2 * self) = some (.leaf L))
    (h : encap t self newLeaf excl fresh = .ok o) :
    (∀ cp ∈ directCopathOf t self, ∀ n, get o.tree cp.1 = some n → fresh ≤ n.key) ∧
    get o.tree (2 * self) = some (.leaf newLeaf) :=
  MlsVerif.Tree.fresh_path_keys hs.1 hn (self_lt_of_leaf hL) h

/-- hence not in the old tree, given all its stamps are `< fresh` -/
theorem fresh_path_keys_new {t : Tree} {self fresh : Nat} {newLeaf : Leaf} {excl : List Nat}
    {o : EncapOut} (hs : ShapeInv t) (hn : NonEmptyInv t)
    (hL : ∃ L, get t (2 * self) = some (.leaf L))
    (h : encap t self newLeaf excl fresh = .ok o) (hb : StampsBelow t fresh) :
    ∀ cp ∈ directCopathOf t self, ∀ n, get o.tree cp.1 = some n → n.key ∉ keyStamps t :=
  fresh_path_keys_notin hs.1 hn (self_lt_of_leaf hL) h hb

/-- the keys issued by `encap` are `fresh ≤ k < fresh + |path|`, pairwise distinct, and sit on the
unfiltered positions -/
theorem encap_path_keys {t : Tree} {self fresh : Nat} {newLeaf : Leaf} {excl : List Nat}
    {o : EncapOut} (hL : ∃ L, get t (2 * self) = some (.leaf L))
    (h : encap t self newLeaf excl fresh = .ok o) :
    FilterOk t self o.pathKeys ∧ o.slots = some newLeaf.hpke :: o.pathKeys ∧
    (∀ (j k : Nat), o.pathKeys[j]? = some (some k) → fresh ≤ k ∧ k < fresh + o.pathKeys.length) ∧
    (∀ (j j' k : Nat), o.pathKeys[j]? = some (some k) → o.pathKeys[j']? = some (some k) → j = j') :=
  (encap_spec h (self_lt_of_leaf hL)).2

/-- the receivers compute the committer's tree -/
theorem receivers_tree_agrees {t : Tree} {self fresh : Nat} {newLeaf : Leaf} {excl : List Nat}
    {o : EncapOut} (hL : ∃ L, get t (2 * self) = some (.leaf L))
    (h : encap t self newLeaf excl fresh = .ok o) :
    applyUpdatePath t self newLeaf o.pathKeys = .ok o.tree :=
  encap_applyUpdatePath_agree hL h

/-! ### (13) the provisional private state -/

theorem provisional_drops_blank (t : Tree) (p : Priv) :
    (provisionalPriv t p none).self = p.self ∧
    slotAt (provisionalPriv t p none).keys 0 = slotAt p.keys 0 ∧
    (∀ j cp, (directCopathOf t p.self)[j]? = some cp → get t cp.1 = none →
      slotAt (provisionalPriv t p none).keys (j + 1) = none) ∧
    (∀ j cp, (directCopathOf t p.self)[j]? = some cp → get t cp.1 ≠ none →
      slotAt (provisionalPriv t p none).keys (j + 1) = slotAt p.keys (j + 1)) ∧
    (∀ j, (directCopathOf t p.self).length < j → slotAt (provisionalPriv t p none).keys j = none) ∧
    (provisionalPriv t p none).keys.length = (directCopathOf t p.self).length + 1 :=
  ⟨provisionalPriv_self t p none, provisional_slot_zero t p, MlsVerif.Tree.provisional_drops_blank t p,
   provisional_keeps_nonblank t p, fun j h => provisional_beyond t p j h, provisional_length t p⟩

/-- an applied own Update replaces slot 0 and clears the rest: no stale key survives -/
theorem no_stale_leaf_key (t : Tree) (p : Priv) (k : Nat) :
    (provisionalPriv t p (some k)).keys =
      some k :: List.replicate (directCopathOf t p.self).length none :=
  MlsVerif.Tree.no_stale_leaf_key t p k

/-- the provisional state satisfies the key invariant of the tree after the proposals -/
theorem provisional_keyinv {t0 t1 : Tree} {e : Edits} {added : List Nat} {p : Priv} (hw : WF t0)
    (hb : batchEdit t0 e = .ok (added, t1)) (hk : KeyInv t0 p)
    (hm : ∃ L, get t0 (2 * p.self) = some (.leaf L)) (ht : p.self ∉ e.touched) :
    KeyInv t1 (provisionalPriv t1 p none) := by
  have hes := batchEdit_editSpec hw.1.1 hb
  exact MlsVerif.Tree.provisional_keyinv hes hk ht (not_added_of_member hes hm ht)
    (batchEdit_preShape hw.1.1 hw.2.2.2 hb)

theorem provisional_keyinv_own_update {t0 t1 : Tree} {e : Edits} {added : List Nat} {p : Priv}
    {l : Leaf} (hw : WF t0) (hb : batchEdit t0 e = .ok (added, t1))
    (hu : (p.self, l) ∈ e.updates) : KeyInv t1 (provisionalPriv t1 p (some l.hpke)) :=
  provisional_keyinv_own (batchEdit_editSpec hw.1.1 hb) hu

/-! ### (10) the other members -/

/-- `t1` = tree after the proposals, `t'` = provisional tree after the sender's path update
(`PathUpdated`, as produced by `applyUpdatePath`, see `applyUpdatePath_pathUpdated`), `p` a state
satisfying the key invariant of `t1` (e.g. `provisionalPriv t1 _ none`): after `decap` the member
holds exactly the keys it is entitled to in `t'`. -/
theorem decap_keyinv {t1 t' : Tree} {sender : Nat} {nl : Leaf} {pk : List (Option Nat)} {p : Priv}
    {added : List Nat} {d : DecapOut}
    (hpu : PathUpdated t1 t' sender nl pk) (hf : FilterOk t1 sender pk)
    (hs : ShapeInv t1) (hn : NonEmptyInv t1) (hk : KeyInv t1 p) (hne : p.self ≠ sender)
    (hLself : ∃ L, get t1 (2 * p.self) = some (.leaf L))
    (hLsender : ∃ L, get t1 (2 * sender) = some (.leaf L))
    (h : decap t' p sender pk added = .ok d) :
    KeyInv t' d.priv ∧ d.priv.self = p.self :=
  MlsVerif.Tree.decap_keyinv hpu hf hs.1 hn hk hne hLself hLsender h

theorem applyUpdatePath_pathUpdated {t t' : Tree} {sender : Nat} {nl : Leaf}
    {pk : List (Option Nat)} (h : applyUpdatePath t sender nl pk = .ok t') :
    PathUpdated t t' sender nl pk ∧ ∃ L, get t (2 * sender) = some (.leaf L) :=
  applyUpdatePath_spec h

/-- under the invariants `decap` does not fail -/
theorem decap_succeeds {t1 t' : Tree} {sender : Nat} {nl : Leaf} {pk : List (Option Nat)} {p : Priv}
    {added : List Nat}
    (hpu : PathUpdated t1 t' sender nl pk) (hf : FilterOk t1 sender pk)
    (hs : ShapeInv t1) (hn : NonEmptyInv t1) (hk : KeyInv t1 p) (hne : p.self ≠ sender)
    (hLself : ∃ L, get t1 (2 * p.self) = some (.leaf L))
    (hLsender : ∃ L, get t1 (2 * sender) = some (.leaf L))
    (hlenk : p.keys.length = (directCopathOf t1 p.self).length + 1) (hadd : p.self ∉ added) :
    ∃ d, decap t' p sender pk added = .ok d :=
  MlsVerif.Tree.decap_succeeds hpu hf hs.1 hn hk hne hLself hLsender hlenk hadd

/-- The resolution lemma: the receiver's `ctPos` indexes, within the sender's recipient list for
the LCA path node (`cp.1`; the list is the one of C02 `seals_exact` with `excl = added`), exactly
the node `resNode = path[slot]` whose key the receiver holds in slot `slot`. -/
theorem decap_position_agrees {t1 t' : Tree} {sender : Nat} {nl : Leaf} {pk : List (Option Nat)}
    {p : Priv} {added : List Nat} {d : DecapOut}
    (hpu : PathUpdated t1 t' sender nl pk) (hf : FilterOk t1 sender pk)
    (hs : ShapeInv t1) (hn : NonEmptyInv t1) (hk : KeyInv t1 p) (hne : p.self ≠ sender)
    (hLself : ∃ L, get t1 (2 * p.self) = some (.leaf L))
    (hLsender : ∃ L, get t1 (2 * sender) = some (.leaf L))
    (h : decap t' p sender pk added = .ok d) :
    ∃ cp resNode key,
      (directCopathOf t1 sender)[leafLcaLevel (2 * p.self) (2 * sender) - 2]? = some cp ∧
      (∃ k, pk[leafLcaLevel (2 * p.self) (2 * sender) - 2]? = some (some k)) ∧
      ((2 * p.self) :: (directCopathOf t' p.self).map (·.1))[d.slot]? = some resNode ∧
      ((resolution t' cp.2).filter (fun i => !(added.map (2 * ·)).contains i))[d.ctPos]?
        = some resNode ∧
      p.keys[d.slot]? = some (some key) ∧ (get t' resNode).map Node.key = some key :=
  MlsVerif.Tree.decap_position_agrees hpu hf hs.1 hn hk hne hLself hLsender h

/-- The whole commit for a member `p` of the old tree `t0` that no proposal touches and that is
not the committer: the committer runs `encap` on the tree after the proposals (excluding the added
leaves); the member applies the announced path (obtaining the committer's tree), builds its
provisional state, runs `decap`: it succeeds, the ciphertext it opens was sealed by the committer
to a node whose key the member holds, and afterwards `KeyInv` holds in the new tree. -/
theorem commit_receiver {t0 t1 : Tree} {e : Edits} {added : List Nat} {sender fresh : Nat}
    {nl : Leaf} {o : EncapOut} (hw : WF t0) (hb : batchEdit t0 e = .ok (added, t1))
    (hL : ∃ L, get t1 (2 * sender) = some (.leaf L))
    (he : encap t1 sender nl added fresh = .ok o)
    {p : Priv} (hk : KeyInv t0 p) (hm : ∃ L, get t0 (2 * p.self) = some (.leaf L))
    (ht : p.self ∉ e.touched) (hne : p.self ≠ sender) :
    applyUpdatePath t1 sender nl o.pathKeys = .ok o.tree ∧
    ∃ d, decap o.tree (provisionalPriv t1 p none) sender o.pathKeys added = .ok d ∧
      KeyInv o.tree d.priv ∧ d.priv.self = p.self ∧
      ∃ n rs resNode key, (n, rs) ∈ o.seals ∧ rs[d.ctPos]? = some resNode ∧
        (provisionalPriv t1 p none).keys[d.slot]? = some (some key) ∧
        (get o.tree resNode).map Node.key = some key :=
  commit_agrees hw hb hL he hk hm ht hne

/-- the same against an arbitrary announced path (any `pk` on the unfiltered positions) -/
theorem commit_receiver_any_path {t0 t1 t' : Tree} {e : Edits} {added : List Nat} {sender : Nat}
    {nl : Leaf} {pk : List (Option Nat)} (hw : WF t0) (hb : batchEdit t0 e = .ok (added, t1))
    {p : Priv} (hk : KeyInv t0 p) (hm : ∃ L, get t0 (2 * p.self) = some (.leaf L))
    (ht : p.self ∉ e.touched) (hne : p.self ≠ sender) (hf : FilterOk t1 sender pk)
    (ha : applyUpdatePath t1 sender nl pk = .ok t') :
    ∃ d, decap t' (provisionalPriv t1 p none) sender pk added = .ok d ∧
      KeyInv t' d.priv ∧ d.priv.self = p.self :=
  let ⟨d, h1, h2, h3, _⟩ := receiver_commit hw hb hk hm ht hne hf ha
  ⟨d, h1, h2, h3⟩

/-- a member whose own Update is applied by the commit -/
theorem commit_receiver_own_update {t0 t1 t' : Tree} {e : Edits} {added : List Nat} {sender : Nat}
    {nl : Leaf} {pk : List (Option Nat)} (hw : WF t0) (hb : batchEdit t0 e = .ok (added, t1))
    {p : Priv} {l : Leaf} (hu : (p.self, l) ∈ e.updates) (hne : p.self ≠ sender)
    (hf : FilterOk t1 sender pk) (ha : applyUpdatePath t1 sender nl pk = .ok t') :
    (provisionalPriv t1 p (some l.hpke)).keys =
        some l.hpke :: List.replicate (directCopathOf t1 p.self).length none ∧
    ∃ d, decap t' (provisionalPriv t1 p (some l.hpke)) sender pk added = .ok d ∧
      KeyInv t' d.priv ∧ d.priv.self = p.self :=
  receiver_commit_own_update hw hb hu hne hf ha

/-! ### (12) the joiners -/

/-- A joiner (added by the commit, `hunm`: unmerged at each of its non-blank ancestors after the
proposals) that received the path secret of the common ancestor with the committer: it is unmerged
at every non-blank node below that ancestor and holds the keys from there upward. -/
theorem joiner_keyinv {t1 t' : Tree} {c self : Nat} {nl L : Leaf} {pk : List (Option Nat)}
    (hpu : PathUpdated t1 t' c nl pk) (hf : FilterOk t1 c pk)
    (hs : ShapeInv t1) (hn : NonEmptyInv t1) (hne : self ≠ c)
    (hL : get t1 (2 * self) = some (.leaf L)) (hLc : ∃ Lc, get t1 (2 * c) = some (.leaf Lc))
    (hlen : t'.length = t1.length)
    (hunm : ∀ x P, get t1 x = some (.parent P) → below self x → self ∈ P.unmerged) :
    (∀ p, joinerPriv t' self L.hpke c true = .ok p → KeyInv t' p) ∧
    ∃ p, joinerPriv t' self L.hpke c true = .ok p :=
  MlsVerif.Tree.joiner_keyinv hpu hf hs.1 hn (pathUpdated_nonEmpty hpu hlen hLc hf hs.1 hn) hne hL
    hLc hunm

/-- the whole commit for the `j`-th added member -/
theorem commit_joiner {t0 t1 t' : Tree} {e : Edits} {added : List Nat} {sender : Nat} {nl : Leaf}
    {pk : List (Option Nat)} (hw : WF t0) (hb : batchEdit t0 e = .ok (added, t1))
    {self j : Nat} (hj : added[j]? = some self) (hne : self ≠ sender)
    (hf : FilterOk t1 sender pk) (ha : applyUpdatePath t1 sender nl pk = .ok t') :
    ∃ L, e.adds[j]? = some L ∧ get t' (2 * self) = some (.leaf L) ∧
      ∃ p, joinerPriv t' self L.hpke sender true = .ok p ∧ KeyInv t' p :=
  joiner_commit hw hb hj hne hf ha

/-! ### all histories -/

/-- A world = public tree + private states of the followed members; `Step` = one commit (with a
path: committer via `encap`, untouched members and members with an applied own Update via
`provisionalPriv` + `decap`, joiners via `joinerPriv`; or without a path); `World.Good` = the tree
is well-formed (C08) and every followed member sits on a non-blank leaf and satisfies `KeyInv`.
Side conditions of a step: fresh stamps (`FreshKeys`, `StampsBelow`), see `Proofs/Tree/World.lean`. -/
theorem commit_preserves_good {w w' : World} (hg : w.Good) (h : Step w w') : w'.Good :=
  step_good hg h

/-- in every world reachable from a one-member group, every member holds exactly the keys it is
entitled to -/
theorem reachable_world_good {w : World} (h : ReachableWorld w) : w.Good :=
  reachableWorld_good h

/-! ### Non-vacuity -/

private def L (i : Nat) : Option Node := some (.leaf ⟨i, 100 + i, 200 + i⟩)
private def P (k : Nat) (u : List Nat) : Option Node := some (.parent ⟨k, u⟩)

/-- four members; leaf 3 unmerged at the root; node 5 blank -/
private def tA : Tree := [L 0, P 10 [], L 1, P 11 [3], L 2, none, L 3]
/-- one Add: the new member extends the tree (leaf 4, node 8; new root 7) -/
private def eA : Edits := ⟨[], [], [⟨8, 108, 208⟩]⟩
private def t1 : Tree := [L 0, P 10 [], L 1, P 11 [3], L 2, none, L 3, none, L 8]
/-- leaf 2 commits -/
private def nl : Leaf := ⟨2, 302, 202⟩
private def oA : EncapOut :=
  { tree := [L 0, P 10 [], L 1, P 1001 [], some (.leaf nl), P 1000 [], L 3, P 1002 [], L 8],
    slots := [some 302, some 1000, some 1001, some 1002],
    pathKeys := [some 1000, some 1001, some 1002],
    seals := [(5, [6]), (3, [1]), (7, [])] }

private theorem wfA : WF tA := by decide +kernel
private theorem beA : batchEdit tA eA = .ok ([4], t1) := by decide +kernel
private theorem encA : encap t1 2 nl [4] 1000 = .ok oA := by decide +kernel

-- entitlements before the commit: member 3 is unmerged at the root and node 5 is blank
example : expectedSlots tA 0 = [some 100, some 10, some 11] ∧
    expectedSlots tA 3 = [some 103, none, none] := by decide +kernel
private def p0 : Priv := ⟨0, [some 100, some 10, some 11]⟩
private def p3 : Priv := ⟨3, [some 103]⟩
example : KeyInv tA p0 ∧ KeyInv tA p3 := by decide +kernel

-- (9), (11): the committer
example : KeyInv oA.tree ⟨2, oA.slots⟩ :=
  encap_keyinv (t := t1) (by decide +kernel) (by decide +kernel) ⟨_, rfl⟩ encA

-- (10), (13): members 0 and 3
example : provisionalPriv t1 p0 none = ⟨0, [some 100, some 10, some 11, none]⟩ ∧
    decap oA.tree (provisionalPriv t1 p0 none) 2 oA.pathKeys [4] =
      .ok ⟨1, 0, ⟨0, [some 100, some 10, some 1001, some 1002, none]⟩⟩ ∧
    decap oA.tree (provisionalPriv t1 p3 none) 2 oA.pathKeys [4] =
      .ok ⟨0, 0, ⟨3, [some 103, some 1000, some 1001, some 1002, none]⟩⟩ ∧
    expectedSlots oA.tree 0 = [some 100, some 10, some 1001, some 1002] ∧
    expectedSlots oA.tree 3 = [some 103, some 1000, some 1001, some 1002] := by decide +kernel
example := commit_receiver (p := p0) wfA beA ⟨_, rfl⟩ encA (by decide +kernel) ⟨_, rfl⟩
  (by decide) (by decide)
example := commit_receiver (p := p3) wfA beA ⟨_, rfl⟩ encA (by decide +kernel) ⟨_, rfl⟩
  (by decide) (by decide)
-- a stale own-update state is cleared
example : provisionalPriv t1 p0 (some 777) = ⟨0, [some 777, none, none, none]⟩ := by decide +kernel

-- (12): the joiner (leaf 4) holds only the root key
example : joinerPriv oA.tree 4 108 2 true = .ok ⟨4, [some 108, none, none, some 1002]⟩ ∧
    expectedSlots oA.tree 4 = [some 108, none, none, some 1002] := by decide +kernel
example := commit_joiner (self := 4) (j := 0) (sender := 2) (nl := nl) (pk := oA.pathKeys)
  wfA beA rfl (by decide) (by decide +kernel) (receivers_tree_agrees ⟨_, rfl⟩ encA)

-- the whole commit as a `Step` between good worlds
private theorem stepA : Step ⟨tA, [p0, p3]⟩
    ⟨oA.tree, [⟨2, oA.slots⟩, ⟨0, [some 100, some 10, some 1001, some 1002, none]⟩,
      ⟨3, [some 103, some 1000, some 1001, some 1002, none]⟩, ⟨4, [some 108, none, none, some 1002]⟩]⟩ := by
  refine Step.commit (e := eA) (added := [4]) (t1 := t1) (sender := 2) (fresh := 1000) (nl := nl)
    (by decide +kernel) beA ⟨_, rfl⟩ (by decide +kernel) (by decide +kernel) (by decide) ?_ encA ?_
  · intro x L' hx hg
    have hlt : x < 9 := lt_of_get_some hg
    have hall : ∀ x < 9, x ≠ 2 * 2 →
        ((leafOf? (get t1 x)).all fun L' => L'.ident ≠ 2 ∧ L'.sig ≠ 202) = true := by decide +kernel
    have := hall x hlt hx
    rw [hg] at this
    show L'.ident ≠ 2 ∧ L'.sig ≠ 202
    simpa using this
  · intro p hp
    simp only [List.mem_cons, List.not_mem_nil, or_false] at hp
    rcases hp with rfl | rfl | rfl | rfl
    · exact .committer
    · exact .receiver (p := p0) (d := ⟨1, 0, ⟨0, [some 100, some 10, some 1001, some 1002, none]⟩⟩)
        (by simp) (by decide) (by decide) (by decide +kernel)
    · exact .receiver (p := p3) (d := ⟨0, 0, ⟨3, [some 103, some 1000, some 1001, some 1002, none]⟩⟩)
        (by simp) (by decide) (by decide) (by decide +kernel)
    · exact .joiner (j := 0) (self := 4) (L := ⟨8, 108, 208⟩) rfl (by decide) rfl (by decide +kernel)

example : World.Good ⟨oA.tree, [⟨2, oA.slots⟩, ⟨0, [some 100, some 10, some 1001, some 1002, none]⟩,
    ⟨3, [some 103, some 1000, some 1001, some 1002, none]⟩, ⟨4, [some 108, none, none, some 1002]⟩]⟩ :=
  commit_preserves_good (w := ⟨tA, [p0, p3]⟩)
    ⟨wfA, by
      intro p hp
      simp only [List.mem_cons, List.not_mem_nil, or_false] at hp
      rcases hp with rfl | rfl
      · exact ⟨⟨_, rfl⟩, by decide +kernel⟩
      · exact ⟨⟨_, rfl⟩, by decide +kernel⟩⟩
    stepA

end MlsVerif.Props.C09
