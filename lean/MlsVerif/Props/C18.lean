import MlsVerif.Proofs.Psk
/-
C18: a commit that injects pre-shared keys binds the new epoch to knowledge of those PSKs.

Model: `Model/KeySchedule.lean` (`pskSecret` = `PskSecret::calculate`, `fromJoiner` /
`fromKeySchedule` = `KeySchedule::from_joiner` / `from_key_schedule`, `welcomeKeyNonce` =
`WelcomeSecret::from_joiner_secret`); that these compute the RFC 9420 §8 values is C13.

Symbolic assumptions: `FreePsk P` (`Proofs/Psk.lean` §1): `Extract` and `ExpandWithLabel` are
injective in all their arguments, the encoded `PSKLabel` determines (id, index, count), an extracted
value is not the all-zero string.  They hold in the free term algebra (`termPrim_freePsk`).  Under
them the PSK secret determines the whole list of (id, value) pairs — number, order, ids (the id
contains the nonce) and values — and every secret of the new epoch (and the Welcome key and nonce)
determines the PSK secret.  So a party that arrives at any one of the epoch's secrets has used exactly
the PSK list of the committer; conversely equal lists give equal secrets (`holders_agree`).

The `joiner` secret is by construction independent of the PSKs (RFC 9420 Figure 22: the PSK secret
enters after it), so it is not among the bound fields.
-/
namespace MlsVerif.Props.C18
open MlsVerif.KS MlsVerif.Psk

variable {B : Type}

/-! ### The PSK secret determines the PSK list -/

/-- `PskSecret::calculate` is injective on lists it accepts (fewer than `2^16` entries; longer lists
are rejected with `TooManyPskIds`, see `too_many_psks_rejected`).  Equality of `PskInput` lists is:
same count, same order, same ids, same values. -/
theorem psk_injective (P : Prim B) (hP : FreePsk P) (l l' : List (PskInput B))
    (hl : l.length < 65536) (hl' : l'.length < 65536)
    (h : pskSecret P l = pskSecret P l') : l = l' := by
  rw [pskSecret_eq_chain P l hl, pskSecret_eq_chain P l' hl'] at h
  exact (chain_inj P hP _ _ hl hl' l l' (by omega) (by omega) (Option.some.inj h)).1

/-- the length bound is needed on one side only: a rejected list has no secret at all -/
theorem psk_injective' (P : Prim B) (hP : FreePsk P) (l l' : List (PskInput B))
    (hl : l.length < 65536) (h : pskSecret P l = pskSecret P l') : l = l' := by
  by_cases hl' : l'.length < 65536
  · exact psk_injective P hP l l' hl hl' h
  · rw [pskSecret_eq_chain P l hl, pskSecret_none P l' (by omega)] at h
    cases h

theorem psk_injective_iff (P : Prim B) (hP : FreePsk P) (l l' : List (PskInput B))
    (hl : l.length < 65536) : pskSecret P l = pskSecret P l' ↔ l = l' :=
  ⟨psk_injective' P hP l l' hl, fun h => by rw [h]⟩

/-- why the bound is there: all lists of `2^16` or more entries are rejected alike
(`u16::try_from(len)` fails, no epoch is created) -/
theorem too_many_psks_rejected (P : Prim B) (l : List (PskInput B)) (hl : 65536 ≤ l.length) :
    pskSecret P l = none :=
  pskSecret_none P l hl

/-- the result for a PSK list: `some` exactly below `2^16` entries -/
theorem pskSecret_isSome_iff (P : Prim B) (l : List (PskInput B)) :
    (pskSecret P l).isSome ↔ l.length < 65536 := by
  by_cases h : l.length < 65536
  · simp [pskSecret_eq_chain P l h, h]
  · simp [pskSecret_none P l (by omega), h]

/-! ### Every epoch secret determines the PSK secret -/

/-- one derived secret (any label) determines joiner secret, group context and PSK secret -/
theorem derived_binds (P : Prim B) (hP : FreePsk P) (lbl : String) (j j' ctx ctx' psk psk' : B)
    (h : deriveSecret P (epochSecret P j ctx psk) lbl = deriveSecret P (epochSecret P j' ctx' psk') lbl) :
    j = j' ∧ ctx = ctx' ∧ psk = psk' :=
  epochSecret_inj P hP _ _ _ _ _ _ (deriveSecret_inj P hP lbl _ _ h)

/-- `KeySchedule::from_joiner`: if two derivations agree on ANY ONE of the nine secrets of the epoch
then they used the same joiner secret, the same group context and the same PSK secret. -/
theorem epoch_binds_inputs (P : Prim B) (hP : FreePsk P) (j j' ctx ctx' psk psk' : B) :
    let o := fromJoiner P j ctx psk
    let o' := fromJoiner P j' ctx' psk'
    (o.resumption = o'.resumption → j = j' ∧ ctx = ctx' ∧ psk = psk') ∧
    (o.senderData = o'.senderData → j = j' ∧ ctx = ctx' ∧ psk = psk') ∧
    (o.encryption = o'.encryption → j = j' ∧ ctx = ctx' ∧ psk = psk') ∧
    (o.exporter = o'.exporter → j = j' ∧ ctx = ctx' ∧ psk = psk') ∧
    (o.authentication = o'.authentication → j = j' ∧ ctx = ctx' ∧ psk = psk') ∧
    (o.external = o'.external → j = j' ∧ ctx = ctx' ∧ psk = psk') ∧
    (o.membership = o'.membership → j = j' ∧ ctx = ctx' ∧ psk = psk') ∧
    (o.init = o'.init → j = j' ∧ ctx = ctx' ∧ psk = psk') ∧
    (o.confirmationKey = o'.confirmationKey → j = j' ∧ ctx = ctx' ∧ psk = psk') :=
  ⟨derived_binds P hP _ _ _ _ _ _ _, derived_binds P hP _ _ _ _ _ _ _,
   derived_binds P hP _ _ _ _ _ _ _, derived_binds P hP _ _ _ _ _ _ _,
   derived_binds P hP _ _ _ _ _ _ _, derived_binds P hP _ _ _ _ _ _ _,
   derived_binds P hP _ _ _ _ _ _ _, derived_binds P hP _ _ _ _ _ _ _,
   derived_binds P hP _ _ _ _ _ _ _⟩

/-- Same joiner secret and context (what a member or joiner of the commit has), different PSK
secret: every one of the nine epoch secrets differs.  Stated positively: agreement on any one forces
`psk = psk'`. -/
theorem epoch_depends_on_psk (P : Prim B) (hP : FreePsk P) (j ctx psk psk' : B) :
    let o := fromJoiner P j ctx psk
    let o' := fromJoiner P j ctx psk'
    (o.resumption = o'.resumption → psk = psk') ∧
    (o.senderData = o'.senderData → psk = psk') ∧
    (o.encryption = o'.encryption → psk = psk') ∧
    (o.exporter = o'.exporter → psk = psk') ∧
    (o.authentication = o'.authentication → psk = psk') ∧
    (o.external = o'.external → psk = psk') ∧
    (o.membership = o'.membership → psk = psk') ∧
    (o.init = o'.init → psk = psk') ∧
    (o.confirmationKey = o'.confirmationKey → psk = psk') :=
  have e := epoch_binds_inputs P hP j j ctx ctx psk psk'
  ⟨fun h => (e.1 h).2.2, fun h => (e.2.1 h).2.2, fun h => (e.2.2.1 h).2.2,
   fun h => (e.2.2.2.1 h).2.2, fun h => (e.2.2.2.2.1 h).2.2, fun h => (e.2.2.2.2.2.1 h).2.2,
   fun h => (e.2.2.2.2.2.2.1 h).2.2, fun h => (e.2.2.2.2.2.2.2.1 h).2.2,
   fun h => (e.2.2.2.2.2.2.2.2 h).2.2⟩

/-- the same for the committer's and existing members' entry point `from_key_schedule` (the nine
secrets are those of `from_joiner` on the derived joiner secret) -/
theorem epoch_depends_on_psk_commit (P : Prim B) (hP : FreePsk P) (init commit ctx psk psk' : B) :
    let o := fromKeySchedule P init commit ctx psk
    let o' := fromKeySchedule P init commit ctx psk'
    (o.resumption = o'.resumption → psk = psk') ∧
    (o.senderData = o'.senderData → psk = psk') ∧
    (o.encryption = o'.encryption → psk = psk') ∧
    (o.exporter = o'.exporter → psk = psk') ∧
    (o.authentication = o'.authentication → psk = psk') ∧
    (o.external = o'.external → psk = psk') ∧
    (o.membership = o'.membership → psk = psk') ∧
    (o.init = o'.init → psk = psk') ∧
    (o.confirmationKey = o'.confirmationKey → psk = psk') :=
  epoch_depends_on_psk P hP _ ctx psk psk'

/-- … while the joiner secret does not depend on the PSKs (it is what the Welcome carries; the
joiner must combine it with the PSKs itself) -/
theorem joiner_independent_of_psk (P : Prim B) (init commit ctx psk psk' : B) :
    (fromKeySchedule P init commit ctx psk).joiner = (fromKeySchedule P init commit ctx psk').joiner :=
  rfl

/-- A joiner needs the same PSK secret to open the Welcome: the key and the nonce protecting
`GroupInfo` each determine (joiner secret, PSK secret). -/
theorem welcome_depends_on_psk (P : Prim B) (hP : FreePsk P) (j j' psk psk' : B) :
    ((welcomeKeyNonce P j psk).1 = (welcomeKeyNonce P j' psk').1 → j = j' ∧ psk = psk') ∧
    ((welcomeKeyNonce P j psk).2 = (welcomeKeyNonce P j' psk').2 → j = j' ∧ psk = psk') := by
  constructor <;> intro h
  · exact welcomeSecret_inj P hP _ _ _ _ (hP.expand_inj _ _ _ _ _ _ _ _ h).1
  · exact welcomeSecret_inj P hP _ _ _ _ (hP.expand_inj _ _ _ _ _ _ _ _ h).1

/-! ### End to end: PSK list ↦ epoch -/

/-- the epoch a party derives from joiner secret, context and its PSK list -/
def epochOfPsks (P : Prim B) (j ctx : B) (l : List (PskInput B)) : Option (EpochOut B) :=
  (pskSecret P l).map (fromJoiner P j ctx)

/-- the Welcome key and nonce a party derives from joiner secret and its PSK list -/
def welcomeOfPsks (P : Prim B) (j : B) (l : List (PskInput B)) : Option (B × B) :=
  (pskSecret P l).map (welcomeKeyNonce P j)

/-- members with equal PSK lists derive equal epoch secrets and equal Welcome keys -/
theorem holders_agree (P : Prim B) (j ctx : B) (l l' : List (PskInput B)) (h : l = l') :
    epochOfPsks P j ctx l = epochOfPsks P j ctx l' ∧ welcomeOfPsks P j l = welcomeOfPsks P j l' := by
  rw [h]; exact ⟨rfl, rfl⟩

/-- Two parties that derive epochs from the same joiner secret and context and agree on any one of
the nine epoch secrets used the same PSK list. -/
theorem epoch_binds_psk_list (P : Prim B) (hP : FreePsk P) (j ctx : B) (l l' : List (PskInput B))
    (o o' : EpochOut B) (h : epochOfPsks P j ctx l = some o) (h' : epochOfPsks P j ctx l' = some o')
    (heq : o.resumption = o'.resumption ∨ o.senderData = o'.senderData ∨
      o.encryption = o'.encryption ∨ o.exporter = o'.exporter ∨
      o.authentication = o'.authentication ∨ o.external = o'.external ∨
      o.membership = o'.membership ∨ o.init = o'.init ∨ o.confirmationKey = o'.confirmationKey) :
    l = l' := by
  unfold epochOfPsks at h h'
  cases hs : pskSecret P l with
  | none => rw [hs] at h; cases h
  | some s =>
    cases hs' : pskSecret P l' with
    | none => rw [hs'] at h'; cases h'
    | some s' =>
      rw [hs] at h; rw [hs'] at h'
      simp only [Option.map_some, Option.some.injEq] at h h'
      subst h; subst h'
      have hl : l.length < 65536 := (pskSecret_isSome_iff P l).1 (by rw [hs]; rfl)
      have e := epoch_depends_on_psk P hP j ctx s s'
      have : s = s' := by
        rcases heq with h | h | h | h | h | h | h | h | h
        · exact e.1 h
        · exact e.2.1 h
        · exact e.2.2.1 h
        · exact e.2.2.2.1 h
        · exact e.2.2.2.2.1 h
        · exact e.2.2.2.2.2.1 h
        · exact e.2.2.2.2.2.2.1 h
        · exact e.2.2.2.2.2.2.2.1 h
        · exact e.2.2.2.2.2.2.2.2 h
      exact psk_injective' P hP l l' hl (by rw [hs, hs', this])

/-- The same statement for the entry point the group state machine uses (`epochOfCommit`, tied to real
commits of real groups by the `eks` rows): existing members that start from the same init secret, commit
secret and new context and agree on any one of the nine epoch secrets used the same PSK list — same ids,
nonces, values, order and count. -/
theorem commit_epoch_binds_psk_list (P : Prim B) (hP : FreePsk P) (init ctx : B) (cs : Option B)
    (l l' : List (PskInput B)) (o o' : EpochOut B)
    (h : epochOfCommit P init cs ctx l = some o) (h' : epochOfCommit P init cs ctx l' = some o')
    (heq : o.resumption = o'.resumption ∨ o.senderData = o'.senderData ∨
      o.encryption = o'.encryption ∨ o.exporter = o'.exporter ∨
      o.authentication = o'.authentication ∨ o.external = o'.external ∨
      o.membership = o'.membership ∨ o.init = o'.init ∨ o.confirmationKey = o'.confirmationKey) :
    l = l' := by
  let j := expandWithLabel P (P.extract init (cs.getD (P.zeros P.nh))) "joiner" ctx none
  refine epoch_binds_psk_list P hP j ctx l l' (fromJoiner P j ctx ((pskSecret P l).getD (P.zeros 0)))
    (fromJoiner P j ctx ((pskSecret P l').getD (P.zeros 0))) ?_ ?_ ?_
  · unfold epochOfCommit at h; unfold epochOfPsks
    cases hs : pskSecret P l with
    | none => rw [hs] at h; cases h
    | some s => rfl
  · unfold epochOfCommit at h'; unfold epochOfPsks
    cases hs : pskSecret P l' with
    | none => rw [hs] at h'; cases h'
    | some s => rfl
  · unfold epochOfCommit at h h'
    cases hs : pskSecret P l with
    | none => rw [hs] at h; cases h
    | some s =>
      cases hs' : pskSecret P l' with
      | none => rw [hs'] at h'; cases h'
      | some s' =>
        rw [hs] at h; rw [hs'] at h'
        simp only [Option.map_some, Option.some.injEq] at h h'
        subst h; subst h'
        simpa [fromKeySchedule, j] using heq

/-- … and the holders of the same list enter the same epoch. -/
theorem commit_holders_agree (P : Prim B) (init ctx : B) (cs : Option B) (l l' : List (PskInput B))
    (h : l = l') : epochOfCommit P init cs ctx l = epochOfCommit P init cs ctx l' := by rw [h]

/-- A commit without PSK proposals uses the all-zero PSK secret, a commit without an update path the
all-zero commit secret (what the `eks` rows of such commits are computed from). -/
theorem commit_without_psk_or_path (P : Prim B) (init ctx : B) :
    epochOfCommit P init none ctx [] =
      some (fromKeySchedule P init (P.zeros P.nh) ctx (P.zeros P.nh)) := by
  simp [epochOfCommit, pskSecret, pskFoldAux]

/-- the same for the Welcome: agreeing on the key or on the nonce forces the same PSK list -/
theorem welcome_binds_psk_list (P : Prim B) (hP : FreePsk P) (j : B) (l l' : List (PskInput B))
    (w w' : B × B) (h : welcomeOfPsks P j l = some w) (h' : welcomeOfPsks P j l' = some w')
    (heq : w.1 = w'.1 ∨ w.2 = w'.2) : l = l' := by
  unfold welcomeOfPsks at h h'
  cases hs : pskSecret P l with
  | none => rw [hs] at h; cases h
  | some s =>
    cases hs' : pskSecret P l' with
    | none => rw [hs'] at h'; cases h'
    | some s' =>
      rw [hs] at h; rw [hs'] at h'
      simp only [Option.map_some, Option.some.injEq] at h h'
      subst h; subst h'
      have hl : l.length < 65536 := (pskSecret_isSome_iff P l).1 (by rw [hs]; rfl)
      have e := welcome_depends_on_psk P hP j j s s'
      have : s = s' := by
        rcases heq with h | h
        · exact (e.1 h).2
        · exact (e.2 h).2
      exact psk_injective' P hP l l' hl (by rw [hs, hs', this])

/-! ### Changing any component changes the secret -/

/-- contrapositive form of `psk_injective` -/
theorem changing_any_component_changes_secret (P : Prim B) (hP : FreePsk P)
    (l l' : List (PskInput B)) (hl : l.length < 65536) (hne : l ≠ l') :
    pskSecret P l ≠ pskSecret P l' :=
  fun h => hne (psk_injective' P hP l l' hl h)

/-- a different PSK value at one position (same id) -/
theorem different_value_changes_secret (P : Prim B) (hP : FreePsk P) (a b : List (PskInput B))
    (x : PskInput B) (v : B) (hv : v ≠ x.psk) (hl : (a ++ x :: b).length < 65536) :
    pskSecret P (a ++ x :: b) ≠ pskSecret P (a ++ { x with psk := v } :: b) := by
  apply changing_any_component_changes_secret P hP _ _ hl
  intro h
  have := (List.cons.inj (List.append_cancel_left h)).1
  exact hv (congrArg PskInput.psk this).symm

/-- a different PSK id (the encoded `PreSharedKeyID`: type, external id or group id / epoch /
usage, and the nonce) at one position (same value) -/
theorem different_id_changes_secret (P : Prim B) (hP : FreePsk P) (a b : List (PskInput B))
    (x : PskInput B) (i : B) (hi : i ≠ x.id) (hl : (a ++ x :: b).length < 65536) :
    pskSecret P (a ++ x :: b) ≠ pskSecret P (a ++ { x with id := i } :: b) := by
  apply changing_any_component_changes_secret P hP _ _ hl
  intro h
  have := (List.cons.inj (List.append_cancel_left h)).1
  exact hi (congrArg PskInput.id this).symm

/-- swapping two different inputs -/
theorem swapped_order_changes_secret (P : Prim B) (hP : FreePsk P) (a b c : List (PskInput B))
    (x y : PskInput B) (hxy : x ≠ y) (hl : (a ++ x :: (b ++ y :: c)).length < 65536) :
    pskSecret P (a ++ x :: (b ++ y :: c)) ≠ pskSecret P (a ++ y :: (b ++ x :: c)) := by
  apply changing_any_component_changes_secret P hP _ _ hl
  intro h
  exact hxy (List.cons.inj (List.append_cancel_left h)).1

/-- a different number of PSKs (e.g. one dropped or one appended) -/
theorem different_count_changes_secret (P : Prim B) (hP : FreePsk P) (l l' : List (PskInput B))
    (hl : l.length < 65536) (hne : l.length ≠ l'.length) : pskSecret P l ≠ pskSecret P l' :=
  changing_any_component_changes_secret P hP l l' hl (fun h => hne (by rw [h]))

/-- in particular a commit with a PSK and a commit without one (PSK secret = all-zero string) never
agree -/
theorem psk_vs_no_psk (P : Prim B) (hP : FreePsk P) (x : PskInput B) (l : List (PskInput B))
    (hl : (x :: l).length < 65536) : pskSecret P (x :: l) ≠ pskSecret P [] :=
  different_count_changes_secret P hP _ _ hl (by simp)

/-! ### Non-vacuity -/

open MlsVerif.ST in
/-- The assumptions are satisfiable: they hold in the free term algebra, for any sizes. -/
theorem termPrim_freePsk (nh nk nn : Nat) : FreePsk (termPrim nh nk nn) :=
  MlsVerif.Psk.termPrim_freePsk nh nk nn

section Examples
open MlsVerif.ST

private def tp : Prim Term := termPrim 32 16 12
private def x1 : PskInput Term := ⟨.ascii "id1|nonce1", .ascii "psk1"⟩
private def x2 : PskInput Term := ⟨.ascii "id2|nonce2", .ascii "psk2"⟩

-- the chain for two PSKs, evaluated: labels carry index and count, the chain starts from zeros
example : pskSecret tp [x1, x2] = some
    (.extract (.expand (.extract (.zeros 32) (.ascii "psk2")) (.ascii "derived psk")
        (.cat (.ascii "id2|nonce2") (.cat (.u16 1) (.u16 2))) 32)
      (.extract (.expand (.extract (.zeros 32) (.ascii "psk1")) (.ascii "derived psk")
        (.cat (.ascii "id1|nonce1") (.cat (.u16 0) (.u16 2))) 32) (.zeros 32))) := by decide
example : pskSecret tp [] = some (.zeros 32) := by decide
-- order, count, value, id all matter (evaluated)
example : pskSecret tp [x1, x2] ≠ pskSecret tp [x2, x1] := by decide
example : pskSecret tp [x1, x2] ≠ pskSecret tp [x1] := by decide
example : pskSecret tp [x1] ≠ pskSecret tp [{ x1 with psk := .ascii "other" }] := by decide
example : pskSecret tp [x1] ≠ pskSecret tp [{ x1 with id := .ascii "id1|nonce9" }] := by decide
-- the theorems instantiated
example : pskSecret tp [x1, x2] ≠ pskSecret tp [x2, x1] :=
  swapped_order_changes_secret tp (termPrim_freePsk 32 16 12) [] [] [] x1 x2
    (fun h => absurd (congrArg PskInput.psk h) (by decide)) (by decide)
example (l l' : List (PskInput Term)) (hl : l.length < 65536)
    (h : pskSecret tp l = pskSecret tp l') : l = l' :=
  psk_injective' tp (termPrim_freePsk 32 16 12) l l' hl h
example (j ctx : Term) (l l' : List (PskInput Term)) (o o' : EpochOut Term)
    (h : epochOfPsks tp j ctx l = some o) (h' : epochOfPsks tp j ctx l' = some o')
    (he : o.encryption = o'.encryption) : l = l' :=
  epoch_binds_psk_list tp (termPrim_freePsk 32 16 12) j ctx l l' o o' h h' (.inr (.inr (.inl he)))
-- the epoch of a PSK commit differs from the epoch of the same commit without the PSK
example : ((epochOfPsks tp (.ascii "joiner") (.ascii "ctx") [x1]).map (·.encryption)) ≠
    ((epochOfPsks tp (.ascii "joiner") (.ascii "ctx") []).map (·.encryption)) := by decide

end Examples

end MlsVerif.Props.C18
