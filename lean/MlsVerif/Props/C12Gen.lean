/-
C12 for the schemas GENERATED from the Rust sources (tools/translate_schemas.py → Gen/Schemas.lean, regenerated on
every run): every item of the repository that derives MlsSize / MlsEncode / MlsDecode and whose fields resolve to the
generic codec nodes.  The side conditions of the general theorems of `Props.C12` (`Progress`: no zero-length element
type inside a vec/map; `Canon`: no bool, no map) are decided here for each generated schema, so the unrestricted
statements hold for every one of them.  A change of a Rust type that breaks a side condition (a `bool` or a map in a
wire type, a vector of zero-size elements) makes `decide` fail.
-/
import MlsVerif.Props.C12
import MlsVerif.Gen.Schemas

namespace MlsVerif.Props.C12Gen
open MlsVerif.Codec MlsVerif.Gen.Schemas

/-- every generated repository schema makes progress … -/
theorem repo_progress : repoSchemas.all Progress = true := by decide +kernel

/-- … and is canonical (contains neither `bool` nor a map) -/
theorem repo_canon : repoSchemas.all Canon = true := by decide +kernel

/-- Encode-then-decode is the identity on every value of every generated repository type, consuming exactly the bytes
written. -/
theorem repo_roundtrip (s : Schema) (hs : s ∈ repoSchemas) (v : Value) (b r : Bytes)
    (hw : WF s v = true) (he : encode s v = .ok b) : decode s (b ++ r) = .ok (v, r) :=
  C12.roundtrip s v b r (List.all_eq_true.mp repo_progress s hs) hw he

/-- Whatever decodes as a generated repository type re-encodes to exactly the bytes consumed. -/
theorem repo_canonical (s : Schema) (hs : s ∈ repoSchemas) (b : Bytes) (v : Value) (r : Bytes)
    (h : decode s b = .ok (v, r)) : ∃ c, encode s v = .ok c ∧ b = c ++ r :=
  C12.canonical s b v r (List.all_eq_true.mp repo_canon s hs) h

/-- The reported length is the number of bytes written (every schema, in particular the generated ones). -/
theorem repo_size_exact (s : Schema) (_hs : s ∈ repoSchemas) (v : Value) (b : Bytes)
    (hw : WF s v = true) (he : encode s v = .ok b) : size s v = b.length :=
  C12.size_exact s v b hw he

/-- No allocation beyond a schema constant times the bytes consumed. -/
theorem repo_alloc_bound (s : Schema) (_hs : s ∈ repoSchemas) (b : Bytes) (v : Value) (r : Bytes)
    (h : decode s b = .ok (v, r)) : weight v ≤ K s * (b.length - r.length) + K s :=
  C12.alloc_bound s b v r h

/-- the generated list is not empty and contains the central wire structures (non-vacuity) -/
example : 80 ≤ repoSchemas.length ∧ T_GroupContext ∈ repoSchemas ∧ T_Welcome ∈ repoSchemas ∧ T_PrivateMessage ∈ repoSchemas := by
  refine ⟨by decide +kernel, ?_, ?_, ?_⟩ <;> simp [repoSchemas]

/-- The harness' test types deliberately include the building blocks that break the side conditions: maps and bools
(non-canonical) and vectors of zero-size elements (no progress); the correspondence stream exercises them. -/
theorem harness_types_cover_the_exceptions :
    (harnessSchemas.any fun s => !Canon s) = true ∧ (harnessSchemas.any fun s => !Progress s) = true := by
  decide +kernel

end MlsVerif.Props.C12Gen
