import MlsVerif.Proofs.Pipeline
import MlsVerif.Gen.Pipelines
/-!
# C04 — a rejected message (or a failed build) leaves the member exactly as it was
# C15 — a failing storage call never loses or corrupts the group (shared statements)

The member operations are step lists GENERATED from the Rust source (`Gen/Pipelines.lean`): which
statements may fail (`?`, `return Err`) and which assign to the member through `&mut self`, in source order.
`atomic` is the general theorem; the per-operation theorems below are re-checked against the regenerated
lists on every run, so a source edit that moves a mutation in front of a fallible step breaks a proof
obligation here.
-/
namespace MlsVerif.Props.C04
open MlsVerif.Pipeline MlsVerif.Gen.Pipelines

/-- **Atomicity.**  For every fault plan (which checks / provider calls fail) and every state: if a
well-ordered operation returns an error, the state is exactly the state before. -/
theorem atomic (steps : List Step) (h : wellOrdered steps = true) (fails : Nat → Bool) (s : State)
    (hf : (run steps fails s).1 = false) : (run steps fails s).2 = s :=
  runFrom_atomic fails steps h 0 s hf

/-- **Retry.**  After a failed attempt of a well-ordered operation, repeating it with the fault gone gives
exactly the run that never saw the fault. -/
theorem retry_same (steps : List Step) (h : wellOrdered steps = true) (fails : Nat → Bool) (s : State)
    (hf : (run steps fails s).1 = false) :
    run steps (fun _ => false) (run steps fails s).2 = run steps (fun _ => false) s := by
  rw [atomic steps h fails s hf]

/-- The ordering predicate is not stronger than needed: an operation that mutates and can fail later has a
fault plan under which it fails with the state changed (so a violation of the ordering is a real violation). -/
theorem ill_ordered_witness (f : String) (l : String) (pre post : List Step) :
    ∃ fails, (run (pre ++ [Step.mutate f] ++ post ++ [Step.fallible l]) fails []).1 = false := by
  refine ⟨fun i => i == (pre ++ [Step.mutate f] ++ post).length, ?_⟩
  -- the only failing index is the position of the final fallible step
  have key : ∀ (steps : List Step) (i : Nat) (s : State) (tgt : Nat), i + steps.length = tgt →
      (runFrom (fun k => k == tgt) i (steps ++ [Step.fallible l]) s).1 = false := by
    intro steps
    induction steps with
    | nil => intro i s tgt h; simp at h; subst h; simp [runFrom]
    | cons st rest ih =>
      intro i s tgt h
      have hne : (i == tgt) = false := by
        simp only [List.length_cons] at h
        simp only [beq_eq_false_iff_ne, ne_eq]
        omega
      have h' : (i + 1) + rest.length = tgt := by simp only [List.length_cons] at h; omega
      cases st with
      | fallible l' => simp only [List.cons_append, runFrom, hne]; exact ih _ _ _ h'
      | mutate f' => simp only [List.cons_append, runFrom]; exact ih _ _ _ h'
      | both l' f' => simp only [List.cons_append, runFrom, hne]; exact ih _ _ _ h'
  have := key (pre ++ [Step.mutate f] ++ post) 0 [] (pre ++ [Step.mutate f] ++ post).length (by simp)
  simpa [run] using this

/-! ## The operations of the current source tree -/

theorem update_key_schedule_atomic : wellOrdered update_key_schedule = true := by decide
theorem apply_update_path_atomic : wellOrdered group_apply_update_path = true := by decide
theorem apply_detached_commit_atomic : wellOrdered apply_detached_commit = true := by decide
theorem apply_pending_commit_atomic : wellOrdered apply_pending_commit = true := by decide
theorem process_commit_atomic : wellOrdered process_commit = true := by decide
theorem state_repo_insert_atomic : wellOrdered state_repo_insert = true := by decide

/-- Known finding F8 (recorded, not repaired): `CiphertextProcessor::open` takes the generation's key out
of the ratchet before the AEAD open and the content decoding can fail.  The full statement
`wellOrdered ciphertext_open = true` is therefore FALSE on the current tree; this is its machine-checked
negation, and `atomic` covers every other operation. -/
theorem ciphertext_open_not_atomic_partial : wellOrdered ciphertext_open = false := by decide

/-- …and the concrete failing run of the model: the key is consumed (field version bumped), then the AEAD
open fails. -/
theorem ciphertext_open_counterexample :
    ∃ fails, (run ciphertext_open fails []).1 = false ∧ (run ciphertext_open fails []).2 ≠ [] :=
  ⟨fun i => i == 3, by decide⟩

/-- Known finding F8b (recorded): an *encrypted* commit is first opened (`ciphertext_open`, which consumes the
handshake key) and then processed (`process_commit`); a rejection in the second part (missing PSK, bad
confirmation tag, storage fault) happens after the key is gone, so the genuine commit cannot be decrypted
again.  Machine-checked negation of the full statement for the composite operation; public commits are
covered by `process_commit_atomic`. -/
theorem process_private_commit_not_atomic_partial : wellOrdered (ciphertext_open ++ process_commit) = false := by
  decide

/-! non-vacuity: the hypotheses are met by real, non-trivial lists and a failing plan exists -/
example : (run update_key_schedule (fun i => i == 4) []).1 = false := by decide
example : (run update_key_schedule (fun _ => false) []).1 = true ∧ (run update_key_schedule (fun _ => false) []).2 ≠ [] := by decide
example : update_key_schedule.length ≥ 10 := by decide

end MlsVerif.Props.C04
