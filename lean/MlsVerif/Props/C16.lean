/-
C16 — the external observer's epoch window.

Property theorems about `MlsVerif.External.checkMetadata` / `minEpochAvailable`
(`group/message_processor.rs` `check_metadata`, `external_client/group.rs` `min_epoch_available`).
All statements hold for all inputs (no bounds).
-/
import MlsVerif.Model.External

namespace MlsVerif.Props.C16
open MlsVerif.External

/-- An application message is accepted by an observer with jitter `j` exactly when it is at most `j`
epochs old (there is no upper bound: messages "from the future" pass this check and fail later, at
decryption). -/
theorem window_exact (epoch j msgEpoch : Nat) :
    checkMetadata epoch (some j) true true msgEpoch .application = .ok ↔ epoch ≤ msgEpoch + j := by
  simp only [checkMetadata, minEpochAvailable, Option.map]
  by_cases h : msgEpoch < epoch - j
  · simp [h]; omega
  · simp [h]; omega

/-- outside the window the answer is `InvalidEpoch` -/
theorem window_reject (epoch j msgEpoch : Nat) (h : msgEpoch + j < epoch) :
    checkMetadata epoch (some j) true true msgEpoch .application = .invalidEpoch := by
  have h' : msgEpoch < epoch - j := by omega
  simp [checkMetadata, minEpochAvailable, h']

/-- A member (`min_epoch_available = None`) lets every application epoch pass this check. -/
theorem member_passes_all (epoch msgEpoch : Nat) :
    checkMetadata epoch none true true msgEpoch .application = .ok := by
  simp [checkMetadata, minEpochAvailable]

/-- Handshake messages (proposals, commits) are accepted for the current epoch only, for members and
observers alike, whatever the jitter. -/
theorem handshake_current_epoch_only (e : Nat) (j : Option Nat) (me : Nat) (ct : ContentType)
    (hct : ct ≠ .application) :
    checkMetadata e j true true me ct = .ok ↔ e = me := by
  cases ct
  · exact absurd rfl hct
  all_goals
    by_cases h : e = me
    · simp [checkMetadata, h]
    · simp [checkMetadata, h]

/-- The lower end of the window never wraps: for `u64` inputs the result is a `u64` not above the
current epoch (with `saturating_sub` there is neither a panic nor a wrapped bound). -/
theorem no_underflow (epoch j : Nat) (he : epoch < 2 ^ 64) (_hj : j < 2 ^ 64) :
    ∃ m, minEpochAvailable epoch (some j) = some m ∧ m ≤ epoch ∧ m < 2 ^ 64 :=
  ⟨epoch - j, rfl, Nat.sub_le _ _, Nat.lt_of_le_of_lt (Nat.sub_le _ _) he⟩

/-- the bound is exactly `epoch - j` when `j ≤ epoch` and `0` otherwise -/
theorem minEpoch_cases (epoch j : Nat) :
    (j ≤ epoch → minEpochAvailable epoch (some j) = some (epoch - j) ∧ (epoch - j) + j = epoch) ∧
    (epoch ≤ j → minEpochAvailable epoch (some j) = some 0) := by
  constructor
  · intro h; exact ⟨rfl, by omega⟩
  · intro h
    have : epoch - j = 0 := by omega
    simp [minEpochAvailable, this]

/-- A jitter at least as large as the current epoch lets every application epoch pass (this was the case
that underflowed before the fix). -/
theorem jitter_ge_epoch_admits_all (epoch j : Nat) (h : epoch ≤ j) (me : Nat) :
    checkMetadata epoch (some j) true true me .application = .ok :=
  (window_exact epoch j me).2 (by omega)

/-- A message of another group is rejected with `GroupIdMismatch` (the version being right). -/
theorem wrong_group_rejected (e : Nat) (j : Option Nat) (me : Nat) (ct : ContentType) :
    checkMetadata e j true false me ct = .groupIdMismatch := by
  simp [checkMetadata]

/-- A message of another protocol version is rejected with `ProtocolVersionMismatch`, first. -/
theorem wrong_version_rejected (e : Nat) (j : Option Nat) (sameGroup : Bool) (me : Nat)
    (ct : ContentType) :
    checkMetadata e j false sameGroup me ct = .versionMismatch := by
  simp [checkMetadata]

/-- Admission implies matching version and group. -/
theorem ok_requires_version_and_group (e : Nat) (j : Option Nat) (v g : Bool) (me : Nat)
    (ct : ContentType) (h : checkMetadata e j v g me ct = .ok) : v = true ∧ g = true := by
  cases v <;> cases g <;> simp_all [checkMetadata]

/-- Widening the jitter never turns an accepted message into a rejected one. -/
theorem monotone_in_jitter (e j j' : Nat) (v g : Bool) (me : Nat) (ct : ContentType) (hjj : j ≤ j')
    (h : checkMetadata e (some j) v g me ct = .ok) : checkMetadata e (some j') v g me ct = .ok := by
  obtain ⟨rfl, rfl⟩ := ok_requires_version_and_group _ _ _ _ _ _ h
  cases ct
  · rw [window_exact] at h ⊢; omega
  · rw [handshake_current_epoch_only _ _ _ _ (by decide)] at h ⊢; exact h
  · rw [handshake_current_epoch_only _ _ _ _ (by decide)] at h ⊢; exact h

/-- A member accepts whatever any observer accepts. -/
theorem member_at_least_observer (e j : Nat) (v g : Bool) (me : Nat) (ct : ContentType)
    (h : checkMetadata e (some j) v g me ct = .ok) : checkMetadata e none v g me ct = .ok := by
  obtain ⟨rfl, rfl⟩ := ok_requires_version_and_group _ _ _ _ _ _ h
  cases ct
  · exact member_passes_all _ _
  · rw [handshake_current_epoch_only _ _ _ _ (by decide)] at h ⊢; exact h
  · rw [handshake_current_epoch_only _ _ _ _ (by decide)] at h ⊢; exact h

/-! ### wire format: application content only as a private message -/

/-- Application content that does not come as a `PrivateMessage` is never admitted, by members and observers alike,
whatever the epoch window (a current member can sign and MAC such a public message correctly: this test is then the only
rejection). -/
theorem public_application_rejected (e : Nat) (j : Option Nat) (v g : Bool) (me : Nat) :
    checkMetadataW false e j v g me .application ≠ .ok := by
  unfold checkMetadataW
  split <;> simp_all

/-- for every other combination the wire format plays no role in the admission -/
theorem wire_format_irrelevant_otherwise (c : Bool) (e : Nat) (j : Option Nat) (v g : Bool) (me : Nat) (ct : ContentType)
    (h : c = true ∨ ct ≠ .application) : checkMetadataW c e j v g me ct = checkMetadata e j v g me ct := by
  unfold checkMetadataW
  rcases h with rfl | h
  · split <;> simp_all
  · cases ct <;> first | exact absurd rfl h | (split <;> simp_all)

/-- the wire-format test comes last: version, group and epoch errors are reported first -/
theorem earlier_errors_win (c : Bool) (e : Nat) (j : Option Nat) (v g : Bool) (me : Nat) (ct : ContentType)
    (h : checkMetadata e j v g me ct ≠ .ok) : checkMetadataW c e j v g me ct = checkMetadata e j v g me ct := by
  unfold checkMetadataW
  split <;> simp_all

example : checkMetadataW false 10 (some 3) true true 9 .application = .unencryptedApplicationMessage := by decide
example : checkMetadataW true 10 (some 3) true true 9 .application = .ok := by decide
example : checkMetadataW false 10 (some 3) true true 10 .proposal = .ok := by decide
example : checkMetadataW false 10 (some 3) true true 2 .application = .invalidEpoch := by decide

/-! ### non-vacuity -/

-- inside / at the edge of / outside the window
example : checkMetadata 10 (some 3) true true 7 .application = .ok := by decide
example : checkMetadata 10 (some 3) true true 6 .application = .invalidEpoch := by decide
example : checkMetadata 10 (some 3) true true 12 .application = .ok := by decide
example : (10 : Nat) ≤ 7 + 3 ∧ ¬ (10 : Nat) ≤ 6 + 3 := by decide
-- a member
example : checkMetadata 10 none true true 0 .application = .ok := by decide
-- handshake messages
example : checkMetadata 10 (some 3) true true 10 .commit = .ok := by decide
example : checkMetadata 10 (some 3) true true 9 .commit = .invalidEpoch := by decide
example : checkMetadata 10 none true true 9 .proposal = .invalidEpoch := by decide
example : ContentType.commit ≠ .application ∧ ContentType.proposal ≠ .application := by decide
-- jitter above the epoch: the bound is 0, nothing wraps
example : minEpochAvailable 2 (some 5) = some 0 := by decide
example : minEpochAvailable 7 (some 5) = some 2 := by decide
example : checkMetadata 2 (some 5) true true 0 .application = .ok := by decide
example : (2 : Nat) < 2 ^ 64 ∧ (5 : Nat) < 2 ^ 64 ∧ (2 : Nat) ≤ 5 := by decide
example : minEpochAvailable (2 ^ 64 - 1) (some (2 ^ 64 - 1)) = some 0 := by decide
-- wrong group / version
example : checkMetadata 10 (some 3) true false 10 .commit = .groupIdMismatch := by decide
example : checkMetadata 10 (some 3) false false 10 .commit = .versionMismatch := by decide
-- monotonicity: hypothesis satisfiable, and the converse fails
example : (1 : Nat) ≤ 3 ∧ checkMetadata 10 (some 1) true true 9 .application = .ok := by decide
example : checkMetadata 10 (some 3) true true 7 .application = .ok ∧
    checkMetadata 10 (some 1) true true 7 .application = .invalidEpoch := by decide

end MlsVerif.Props.C16
