/-
C19 — late messages: the exact retention window.

Property theorems about which prior epochs the repository model `MlsVerif.Repo` (`MlsVerif/Model/Repo.lean`)
can still answer.  The invariant `Inv` and the helper lemmas are in `MlsVerif/Proofs/Repo.lean`.  All
statements hold for all repositories satisfying the invariant, both back ends, all ids (no bounds).
-/
import MlsVerif.Proofs.Repo

namespace MlsVerif.Props.C19
open MlsVerif.Repo

/-! ### after a write: exactly the newest `ret` known epochs -/

/-- Let `W` be the newest and `L` the oldest id the repository knows of (stored or pending) before a
fault-free write.  After the write an epoch is available iff its id is in `max L (W + 1 - ret) ..= W`:
the newest `ret` known epochs, no more and no fewer. -/
theorem retention_exact {r : Repo} (h : Inv r) {W L : Nat} (hW : r.findMaxId = some W)
    (hL : r.oldestId = some L) (id : Nat) :
    (r.write false false).1 = .ok () ∧
    (((r.write false false).2.getEpoch id).1 ≠ none ↔ max L (W + 1 - r.ret) ≤ id ∧ id ≤ W) := by
  rw [write_ok h]
  refine ⟨rfl, ?_⟩
  have hi := inv_written h
  have : (r.written.getEpoch id).1 = (r.written.getStored id).1 := by rw [getEpoch_eq]; rfl
  show (r.written.getEpoch id).1 ≠ none ↔ _
  rw [this, getStored_fst_ne_none_iff hi, mem_ids_written h hW hL]

/-- the same window, written as the three conditions: within `ret` of the newest id, not newer than it, and
known before the write -/
theorem retention_exact' {r : Repo} (h : Inv r) {W L : Nat} (hW : r.findMaxId = some W)
    (hL : r.oldestId = some L) (id : Nat) :
    ((r.write false false).2.getEpoch id).1 ≠ none ↔ W + 1 ≤ id + r.ret ∧ id ≤ W ∧ L ≤ id := by
  rw [(retention_exact h hW hL id).2]
  omega

/-- `L` really is the oldest known id and `W` the newest: the known ids are `L, L+1, …, W` -/
theorem known_ids_range {r : Repo} (h : Inv r) {W L : Nat} (hW : r.findMaxId = some W)
    (hL : r.oldestId = some L) :
    ids (r.stored ++ r.inserts) = List.range' L (W + 1 - L) ∧ L ≤ W := by
  obtain ⟨hc, hlen⟩ := known_ids h hW hL
  have : W + 1 - L = (r.stored ++ r.inserts).length := by omega
  have hpos : 0 < (r.stored ++ r.inserts).length := by
    apply List.length_pos_iff.2
    intro he
    unfold Repo.oldestId at hL
    rw [he] at hL
    cases hL
  rw [this]
  exact ⟨hc, by omega⟩

/-- how many epochs are kept -/
theorem retention_count {r : Repo} (h : Inv r) {W L : Nat} (hW : r.findMaxId = some W)
    (hL : r.oldestId = some L) :
    (r.write false false).2.stored.length = min (W + 1 - L) r.ret := by
  obtain ⟨hc, hlen⟩ := known_ids h hW hL
  rw [write_ok h]
  show (memWrite r.stored r.ret r.inserts r.updates).length = _
  rw [length_memWrite hc]
  omega

/-- ids below the window are gone from storage (for both back ends) … -/
theorem older_gone {r : Repo} (h : Inv r) {W L : Nat} (hW : r.findMaxId = some W)
    (hL : r.oldestId = some L) {id : Nat} (hid : id < max L (W + 1 - r.ret)) :
    (r.write false false).2.storedGet id = none := by
  rw [write_ok h]
  have hi := inv_written h
  obtain ⟨a, ha⟩ := hi.stored_consec
  show r.written.storedGet id = none
  rw [storedGet_eq_find hi]
  apply Classical.byContradiction
  intro hne
  have := (mem_ids_written h hW hL id).1 (ha.find?_ne_none.1 hne)
  omega

/-- … and `get` answers `none` for them, and for ids newer than `W` -/
theorem outside_window_none {r : Repo} (h : Inv r) {W L : Nat} (hW : r.findMaxId = some W)
    (hL : r.oldestId = some L) {id : Nat} (hid : id < max L (W + 1 - r.ret) ∨ W < id) :
    ((r.write false false).2.getEpoch id).1 = none := by
  apply Classical.byContradiction
  intro hne
  have := (retention_exact h hW hL id).2.1 hne
  omega

/-- a repository that knows of no epoch answers nothing, before and after a write -/
theorem nothing_known {r : Repo} (h : Inv r) (hW : r.findMaxId = none) (id : Nat) :
    (r.getEpoch id).1 = none ∧ ((r.write false false).2.getEpoch id).1 = none := by
  obtain ⟨hs, hi⟩ := findMaxId_none h hW
  have h1 : ∀ r' : Repo, Inv r' → r'.stored = [] → r'.inserts = [] → (r'.getEpoch id).1 = none := by
    intro r' h' hs' hi'
    apply Classical.byContradiction
    intro hne
    have e : (r'.getEpoch id).1 = (r'.getStored id).1 := by rw [getEpoch_eq, hi']
    rw [e] at hne
    have := (getStored_fst_ne_none_iff h' id).1 hne
    rw [hs'] at this
    cases this
  refine ⟨h1 r h hs hi, ?_⟩
  rw [write_ok h]
  refine h1 _ (inv_written h) ?_ rfl
  have hu : r.updates = [] := by
    cases hu : r.updates with
    | nil => rfl
    | cons x t =>
      have := h.upd_stored x (by rw [hu]; exact List.mem_cons_self)
      rw [hs] at this
      cases this
  show memWrite r.stored r.ret r.inserts r.updates = []
  rw [hs, hi, hu]
  simp [memWrite, memTrim]

/-! ### before the write: everything stored or pending -/

/-- In general (pending inserts not yet written) an epoch is available iff its id is pending or stored:
epochs entered since the last write are all available, however many they are (regardless of `ret`). -/
theorem retention_with_pending {r : Repo} (h : Inv r) (id : Nat) :
    (r.getEpoch id).1 ≠ none ↔ id ∈ ids r.inserts ∨ id ∈ ids r.stored := by
  obtain ⟨a, ha, hb⟩ := h.both
  rw [getEpoch_eq]
  cases hi : r.inserts with
  | nil =>
    simp only []
    rw [getStored_fst_ne_none_iff h]
    simp
  | cons x t =>
    obtain ⟨m, p⟩ := x
    rw [hi] at hb
    have hm : m = a + r.stored.length := (consec_cons.1 hb).1
    simp only []
    split
    · next hge =>
      show ((m, p) :: t)[id - m]? ≠ none ↔ _
      rw [Ne, List.getElem?_eq_none_iff, hb.mem_ids, ha.mem_ids]
      have : id ≥ m := hge
      omega
    · next hlt =>
      rw [getStored_fst_ne_none_iff h, hb.mem_ids]
      have : ¬ id ≥ m := hlt
      constructor
      · intro hs; exact Or.inr hs
      · rintro (hx | hs)
        · omega
        · exact hs

/-- the stored ids are a window of at most `ret` consecutive ids (the window as of the last write), and the
pending ids continue it -/
theorem stored_window {r : Repo} (h : Inv r) :
    ∃ a n k, n ≤ r.ret ∧ ids r.stored = List.range' a n ∧ ids r.inserts = List.range' (a + n) k := by
  obtain ⟨a, ha, hb⟩ := h.both
  exact ⟨a, r.stored.length, r.inserts.length, h.stored_len, ha, hb⟩

/-- an answer is the record of the epoch that was asked for, never another epoch's -/
theorem get_returns_right_record {r : Repo} (h : Inv r) {id : Nat} {x : Rec}
    (hx : (r.getEpoch id).1 = some x) : x.1 = id := by
  obtain ⟨b, hb⟩ := h.inserts_consec
  rw [getEpoch_eq] at hx
  cases hi : r.inserts with
  | nil =>
    rw [hi] at hx
    exact getStored_fst_some h hx
  | cons y t =>
    obtain ⟨m, p⟩ := y
    rw [hi] at hx hb
    have hm : m = b := (consec_cons.1 hb).1
    simp only [] at hx
    split at hx
    · next hge =>
      have := hb.getElem? (show ((m, p) :: t)[id - m]? = some x from hx)
      have : id ≥ m := hge
      omega
    · exact getStored_fst_some h hx

/-- … and it is a record the repository holds: pending, or stored -/
theorem get_returns_held_record {r : Repo} (h : Inv r) {id : Nat} {x : Rec}
    (hx : (r.getEpoch id).1 = some x) : x ∈ r.inserts ∨ x ∈ r.updates ∨ x ∈ r.stored := by
  rw [getEpoch_eq] at hx
  have hst : (r.getStored id).1 = some x → x ∈ r.updates ∨ x ∈ r.stored := by
    intro hx
    unfold Repo.getStored at hx
    cases hu : r.updates.find? (·.1 == id) with
    | some y =>
      rw [hu] at hx
      simp only [Option.some.injEq] at hx
      subst hx
      exact Or.inl (List.mem_of_find?_eq_some hu)
    | none =>
      rw [hu] at hx
      simp only [] at hx
      cases hs : r.storedGet id with
      | none => rw [hs] at hx; cases hx
      | some y =>
        rw [hs] at hx
        simp only [Option.some.injEq] at hx
        subst hx
        exact Or.inr (storedGet_some h hs).1
  cases hi : r.inserts with
  | nil => rw [hi] at hx; exact Or.inr (hst hx)
  | cons y t =>
    obtain ⟨m, p⟩ := y
    rw [hi] at hx
    simp only [] at hx
    split at hx
    · exact Or.inl (List.mem_of_getElem? hx)
    · exact Or.inr (hst hx)

/-! ### non-vacuity -/

/-- stored epochs 3, 4, 5 (the limit `ret = 3`), epoch 4 touched, epochs 6, 7 pending -/
def exRepo (b : Backend) : Repo :=
  { backend := b, ret := 3, stored := [(3, 30), (4, 40), (5, 50)], inserts := [(6, 60), (7, 70)],
    updates := [(4, 40)] }

theorem exRepo_inv (b : Backend) : Inv (exRepo b) := by
  cases b <;> exact ⟨by decide, ⟨3, by unfold Consec; decide⟩, by decide, by decide, by decide⟩

-- W = 7, L = 3: the window after the write is 5 ..= 7
example : (exRepo .mem).findMaxId = some 7 ∧ (exRepo .mem).oldestId = some 3 ∧
    (exRepo .sql).findMaxId = some 7 ∧ (exRepo .sql).oldestId = some 3 := by decide
example :
    [2, 3, 4, 5, 6, 7, 8].map (fun id => (((exRepo .sql).write false false).2.getEpoch id).1)
      = [none, none, none, some (5, 50), some (6, 60), some (7, 70), none] ∧
    [2, 3, 4, 5, 6, 7, 8].map (fun id => (((exRepo .mem).write false false).2.getEpoch id).1)
      = [none, none, none, some (5, 50), some (6, 60), some (7, 70), none] := by decide
example : ((exRepo .mem).write false false).2.storedGet 4 = none ∧
    ((exRepo .sql).write false false).2.storedGet 4 = none := by decide

-- fewer known epochs than the limit: the window starts at the oldest known id
example :
    let r : Repo := { backend := .sql, ret := 5, stored := [(3, 30)], inserts := [(4, 40)] }
    r.findMaxId = some 4 ∧ r.oldestId = some 3 ∧
    [2, 3, 4, 5].map (fun id => ((r.write false false).2.getEpoch id).1)
      = [none, some (3, 30), some (4, 40), none] := by decide

-- before the write all five epochs are available although `ret = 3`; ids outside are not
example :
    [2, 3, 4, 5, 6, 7, 8].map (fun id => ((exRepo .mem).getEpoch id).1)
      = [none, some (3, 30), some (4, 40), some (5, 50), some (6, 60), some (7, 70), none] := by decide

-- pending epochs are not limited by `ret`: with `ret = 1`, four pending epochs are all available
example :
    let r : Repo := ⟨.mem, 1, [(3, 30)], [(4, 40), (5, 50), (6, 60), (7, 70)], []⟩
    [3, 4, 5, 6, 7].map (fun id => (r.getEpoch id).1)
      = [some (3, 30), some (4, 40), some (5, 50), some (6, 60), some (7, 70)] ∧
    [3, 4, 5, 6, 7].map (fun id => ((r.write false false).2.getEpoch id).1)
      = [none, none, none, none, some (7, 70)] := by decide

/-! ### why `1 ≤ ret` is part of the invariant -/

/-- With `ret = 0` — which `SqLiteGroupStateStorage::with_max_epoch_retention` accepts, the in-memory
provider rejects it — the SQL `DELETE … WHERE epoch_id <= max - 0` removes every epoch including the one
just inserted; the storage then reports no `max_epoch_id`, so `insert` accepts any id (here 9 after 4):
the ids are no longer consecutive. -/
theorem sql_ret_zero_keeps_nothing :
    let r : Repo := ⟨.sql, 0, [], [(3, 30), (4, 40)], []⟩
    (r.write false false).1 = .ok () ∧ (r.write false false).2.stored = [] ∧
    (r.write false false).2.findMaxId = none ∧
    ((r.write false false).2.insert (9, 90)).toOption.map (·.inserts) = some [(9, 90)] := by decide

end MlsVerif.Props.C19
