/-
C12 for the hand-written (non-derived) codecs of mls-rs, on top of `Props/C12.lean`.

`Lawful c` bundles, for a codec record `c`:
* `rt`    — `c.wf v → c.enc v = ok b → c.dec (b ++ r) = ok (v, r)` (round trip, exact consumption);
* `sz`    — `c.wf v → c.enc v = ok b → c.size v = b.length` (`mls_encoded_len` is exact);
* `dwf`   — `c.dec b = ok (v, r) → c.wf v ∧ ∃ x, b = x ++ r ∧ (c.ne → 0 < x.length)`;
* `nepos` — `c.ne → c.wf v → c.enc v = ok b → 0 < b.length`.

Component codecs that are derived in Rust (and may themselves contain hand-written ones) are
parameters; every theorem holds for all lawful components.  For a plain schema `s`,
`Lawful (ofSchema s)` holds as soon as `Progress s` (`lawful_ofSchema`).

The well-typedness predicates `wf` make the invariants explicit under which the Rust round trip
holds: `confirmation_tag.is_some() ↔ content is a commit`, `membership_tag.is_some() ↔ sender is a
member` (the encoders write the tags iff they are `Some`, the decoders read them iff the context
says so), extension types pairwise distinct, leaf index `≤ 2^24 - 1`, history generations distinct.
-/
import MlsVerif.Proofs.CodecCustom

namespace MlsVerif.Props.C12Custom
open MlsVerif.Codec MlsVerif.Codec.Codec

/-! ## LeafIndex -/

theorem leafIndex_lawful : Lawful leafIndex :=
  lawful_refine _ _ _ (lawful_ofSchema _ (by decide))

/-- every decoded leaf index is at most `2^24 - 1` -/
theorem leafIndex_bound (b : Bytes) (v : Value) (r : Bytes) (h : leafIndex.dec b = .ok (v, r)) :
    ∃ n, v = .nat n ∧ n ≤ 16777215 := by
  have hw := (leafIndex_lawful.dwf b v r h).1
  simp only [leafIndex, refine, Bool.and_eq_true] at hw
  cases v <;> simp [leafIndexOk] at hw
  exact ⟨_, rfl, hw.2⟩

/-- a four-byte value above the bound is rejected with `Custom(6)` -/
theorem leafIndex_rejects (n : Nat) (r : Bytes) (h1 : 16777215 < n) (h2 : n < 256 ^ 4) :
    leafIndex.dec (toBE 4 n ++ r) = .error (.custom 6) := by
  have hd : decode (.u 4) (toBE 4 n ++ r) = .ok (.nat n, r) := by
    simp only [decode, decodeU_append 4 n r h2]
  have hn : leafIndexOk (.nat n) = false := by
    simp only [leafIndexOk, decide_eq_false_iff_not]; omega
  have hu : leafIndex.dec (toBE 4 n ++ r) =
      (match decode (.u 4) (toBE 4 n ++ r) with
       | Except.error e => Except.error e
       | Except.ok (v, r) =>
         if leafIndexOk v then Except.ok (v, r) else Except.error (CodecErr.custom 6)) := rfl
  rw [hu, hd]
  simp only [hn]
  rfl

/-- The derived encoder does not check the bound: `LeafIndex(2^24)` (constructible through
`LeafIndex::unchecked`) is written (as `01 00 00 00`), and its own decoder rejects the result. -/
theorem leafIndex_encode_unchecked :
    leafIndex.enc (.nat 16777216) = .ok (toBE 4 16777216) ∧
    leafIndex.dec (toBE 4 16777216 ++ []) = .error (.custom 6) := by
  refine ⟨?_, leafIndex_rejects 16777216 [] (by omega) (by omega)⟩
  show encode (.u 4) (.nat 16777216) = _
  simp [encode]

/-! ## ExtensionList -/

theorem extensionList_lawful : Lawful extensionList := lawful_extensionList

/-- the decoder never yields two extensions of the same type -/
theorem extensionList_distinct (b : Bytes) (es : List Value) (r : Bytes)
    (h : extensionList.dec b = .ok (.list es, r)) : extTypesDistinct es = true := by
  have hw := (lawful_extensionList.dwf b _ r h).1
  simp only [extensionList, Bool.and_eq_true] at hw
  exact hw.2

/-! ## Tagged unions -/

theorem proposal_lawful (add update remove psk reInit externalInit : Codec)
    (h1 : Lawful add) (h2 : Lawful update) (h3 : Lawful remove) (h4 : Lawful psk)
    (h5 : Lawful reInit) (h6 : Lawful externalInit) :
    Lawful (proposal add update remove psk reInit externalInit) := by
  apply lawful_tagged
  · intro t c hm
    simp only [List.mem_cons, Prod.mk.injEq, Option.some.injEq, List.not_mem_nil, or_false] at hm
    rcases hm with ⟨_, rfl⟩ | ⟨_, rfl⟩ | ⟨_, rfl⟩ | ⟨_, rfl⟩ | ⟨_, rfl⟩ | ⟨_, rfl⟩ | ⟨_, rfl⟩
    · exact h1
    · exact h2
    · exact h3
    · exact h4
    · exact h5
    · exact h6
    · exact lawful_extensionList
  · intro d hd; injection hd with hd; subst hd; exact lawful_ofSchema _ (by decide)

/-- `Proposal::mls_decode` (`proposal.rs:516-519`) refuses, with `Custom(2)` and before looking at
the payload, every proposal type `<= 7` that has no variant of its own: with all features that is
type `0`.  (For a build without some defined type the same holds for that type, by the generic
`tagged_dec_reserved`.)  These are exactly the types the encoder refuses for `Proposal::Custom`
(`proposal.rs:472-481`). -/
theorem proposal_reserved_type_rejected (add update remove psk reInit externalInit : Codec)
    (t : Nat) (r : Bytes) (ht : t ≤ 7) (hn : t ∉ [1, 2, 3, 4, 5, 6, 7]) :
    (proposal add update remove psk reInit externalInit).dec (toBE 2 t ++ r)
      = .error (.custom 2) := by
  have h0 : t = 0 := by
    simp only [List.mem_cons, List.not_mem_nil, or_false] at hn
    omega
  subst h0
  unfold proposal
  exact tagged_dec_reserved 2 _ _ _ 2 0 r (by omega) rfl rfl

theorem proposal_type0_rejected (add update remove psk reInit externalInit : Codec) (r : Bytes) :
    (proposal add update remove psk reInit externalInit).dec (0 :: 0 :: r)
      = .error (.custom 2) := by
  have e : (0 : UInt8) :: 0 :: r = toBE 2 0 ++ r := rfl
  rw [e]
  exact proposal_reserved_type_rejected add update remove psk reInit externalInit 0 r (by decide)
    (by decide)

/-- the encoder side is unchanged: a custom proposal of type `0` is refused with `Custom(2)`, and
such a value is not well formed -/
theorem proposal_type0_not_encoded (add update remove psk reInit externalInit : Codec) (x : Value) :
    (proposal add update remove psk reInit externalInit).enc (.variant 0 (some x))
      = .error (.custom 2) ∧
    (proposal add update remove psk reInit externalInit).wf (.variant 0 (some x)) = false :=
  ⟨rfl, rfl⟩

/-- What `Lawful` components give for a decoded proposal: it is well formed, and the encoder of a
well-formed proposal never fails on its own account (no `illTyped`, no `Custom(2)` for the type) —
it succeeds, or returns the error of the payload codec's encoder on the well-formed payload. -/
theorem proposal_decoded_enc (add update remove psk reInit externalInit : Codec)
    (h1 : Lawful add) (h2 : Lawful update) (h3 : Lawful remove) (h4 : Lawful psk)
    (h5 : Lawful reInit) (h6 : Lawful externalInit) (b : Bytes) (v : Value) (r : Bytes)
    (h : (proposal add update remove psk reInit externalInit).dec b = .ok (v, r)) :
    (∃ c, (proposal add update remove psk reInit externalInit).enc v = .ok c) ∨
    ∃ tag x c e, v = .variant tag (some x) ∧
      ((tag, c) ∈ [(1, add), (2, update), (3, remove), (4, psk), (5, reInit), (6, externalInit),
                   (7, extensionList)] ∨ (7 < tag ∧ c = ofSchema .bytes)) ∧
      c.wf x = true ∧ c.enc x = .error e ∧
      (proposal add update remove psk reInit externalInit).enc v = .error e := by
  have hw := ((proposal_lawful add update remove psk reInit externalInit h1 h2 h3 h4 h5 h6).dwf
    b v r h).1
  rcases tagged_enc_wf _ _ _ _ _ v hw with hok | ⟨tag, x, c, e, rfl, hsel, hwx, hex, hev⟩
  · exact .inl hok
  · refine .inr ⟨tag, x, c, e, rfl, ?_, hwx, hex, hev⟩
    rcases hsel with hco | ⟨hco, hd⟩
    · have hm := caseOfC_mem hco
      simp only [List.mem_cons, Prod.mk.injEq, Option.some.injEq, List.not_mem_nil, or_false] at hm
      exact .inl (by simpa using hm)
    · injection hd with hd
      refine .inr ⟨?_, hd.symm⟩
      have hres : (decide (tag ≤ 7)) = false := by
        have := hw
        simp only [proposal, tagged, hco, Bool.and_eq_true, Bool.not_eq_true'] at this
        exact this.2.1
      simpa using hres

/-- No decoded proposal is un-encodable: if every payload codec writes back whatever it has read
(`Reenc`; true of every canonical schema, `reenc_ofSchema`), so does `Proposal`.  Before the check at
`proposal.rs:519` this failed for type `0` (decoded as `Proposal::Custom`, refused by the encoder). -/
theorem proposal_decoded_reencodes (add update remove psk reInit externalInit : Codec)
    (h1 : Reenc add) (h2 : Reenc update) (h3 : Reenc remove) (h4 : Reenc psk)
    (h5 : Reenc reInit) (h6 : Reenc externalInit) (b : Bytes) (v : Value) (r : Bytes)
    (h : (proposal add update remove psk reInit externalInit).dec b = .ok (v, r)) :
    ∃ c, (proposal add update remove psk reInit externalInit).enc v = .ok c := by
  refine reenc_tagged _ _ _ _ _ ?_ ?_ b v r h
  · intro t c hm
    simp only [List.mem_cons, Prod.mk.injEq, Option.some.injEq, List.not_mem_nil, or_false] at hm
    rcases hm with ⟨_, rfl⟩ | ⟨_, rfl⟩ | ⟨_, rfl⟩ | ⟨_, rfl⟩ | ⟨_, rfl⟩ | ⟨_, rfl⟩ | ⟨_, rfl⟩
    · exact h1
    · exact h2
    · exact h3
    · exact h4
    · exact h5
    · exact h6
    · exact reenc_extensionList
  · intro d hd; injection hd with hd; subst hd; exact reenc_ofSchema _ (by decide)

theorem credential_lawful (basic x509 : Codec) (h1 : Lawful basic) (h2 : Lawful x509) :
    Lawful (credential basic x509) := by
  apply lawful_tagged
  · intro t c hm
    simp only [List.mem_cons, Prod.mk.injEq, Option.some.injEq, List.not_mem_nil, or_false] at hm
    rcases hm with ⟨_, rfl⟩ | ⟨_, rfl⟩
    · exact h1
    · exact h2
  · intro d hd; injection hd with hd; subst hd; exact lawful_ofSchema _ (by decide)

theorem content_lawful (app prop commit : Codec) (h1 : Lawful app) (h2 : Lawful prop)
    (h3 : Lawful commit) : Lawful (content app prop commit) := by
  apply lawful_tagged
  · intro t c hm
    simp only [List.mem_cons, Prod.mk.injEq, Option.some.injEq, List.not_mem_nil, or_false] at hm
    rcases hm with ⟨_, rfl⟩ | ⟨_, rfl⟩ | ⟨_, rfl⟩
    · exact h1
    · exact h2
    · exact h3
  · intro d hd; cases hd

theorem commitEffect_lawful (newEpoch reInitInfo : Codec) (h1 : Lawful newEpoch)
    (h2 : Lawful reInitInfo) : Lawful (commitEffect newEpoch reInitInfo) := by
  apply lawful_tagged
  · intro t c hm
    simp only [List.mem_cons, Prod.mk.injEq, Option.some.injEq, List.not_mem_nil, or_false] at hm
    rcases hm with ⟨_, rfl⟩ | ⟨_, rfl⟩ | ⟨_, rfl⟩
    · exact h1
    · apply lawful_seq
      intro c hc
      simp only [List.mem_cons, List.not_mem_nil, or_false] at hc
      rcases hc with rfl | rfl
      · exact h1
      · exact lawful_ofSchema _ (by decide)
    · exact h2
  · intro d hd; cases hd

/-! ## Framing -/

theorem bytesNewtype_lawful : Lawful bytesNewtype := lawful_ofSchema _ (by decide)

theorem framedContent_lawful (c : Codec) (h : Lawful c) : Lawful (framedContent c) := by
  apply lawful_seq
  intro x hx
  simp only [List.mem_cons, List.not_mem_nil, or_false] at hx
  rcases hx with rfl | rfl | rfl | rfl | rfl
  · exact lawful_ofSchema _ (by decide)
  · exact lawful_ofSchema _ (by decide)
  · exact lawful_ofSchema _ (by decide)
  · exact lawful_ofSchema _ (by decide)
  · exact h

theorem framedContentAuthData_lawful (isCommit : Bool) :
    Lawful (framedContentAuthData isCommit) := by
  apply lawful_seq
  intro x hx
  simp only [List.mem_cons, List.not_mem_nil, or_false] at hx
  rcases hx with rfl | rfl
  · exact bytesNewtype_lawful
  · exact lawful_optIf _ _ bytesNewtype_lawful

theorem publicMessage_lawful (c : Codec) (h : Lawful c) : Lawful (publicMessage c) := by
  apply lawful_dep _ _ (framedContent_lawful c h)
  intro fc
  apply lawful_seq
  intro x hx
  simp only [List.mem_cons, List.not_mem_nil, or_false] at hx
  rcases hx with rfl | rfl
  · exact framedContentAuthData_lawful _
  · exact lawful_optIf _ _ bytesNewtype_lawful

theorem authenticatedContent_lawful (c : Codec) (h : Lawful c) :
    Lawful (authenticatedContent c) := by
  apply lawful_seq
  intro x hx
  simp only [List.mem_cons, List.not_mem_nil, or_false] at hx
  rcases hx with rfl | rfl
  · exact lawful_ofSchema _ (by decide)
  · exact lawful_dep _ _ (framedContent_lawful c h) (fun _ => framedContentAuthData_lawful _)

/-- `AuthenticatedContentTBS` is only ever encoded; `sz` is the relevant part (hand-written
`mls_encoded_len` agrees with hand-written `mls_encode`). -/
theorem authenticatedContentTBS_lawful (c ctx : Codec) (withContext : Bool) (h : Lawful c)
    (hctx : Lawful ctx) : Lawful (authenticatedContentTBS c ctx withContext) := by
  apply lawful_seq
  intro x hx
  simp only [List.mem_cons, List.not_mem_nil, or_false] at hx
  rcases hx with rfl | rfl | rfl | rfl
  · exact lawful_ofSchema _ (by decide)
  · exact lawful_ofSchema _ (by decide)
  · exact framedContent_lawful c h
  · exact lawful_optIf _ _ hctx

theorem proposalInfo_lawful (p : Codec) (h : Lawful p) : Lawful (proposalInfo p) := by
  apply lawful_seq
  intro x hx
  simp only [List.mem_cons, List.not_mem_nil, or_false] at hx
  rcases hx with rfl | rfl | rfl
  · exact h
  · exact lawful_ofSchema _ (by decide)
  · exact lawful_ofSchema _ (by decide)

/-! ### PrivateMessageContent: trailing zero padding -/

theorem privateMessageContent_inner_lawful (app prop commit : Codec) (ct : Nat)
    (h1 : Lawful app) (h2 : Lawful prop) (h3 : Lawful commit) :
    Lawful (seq [if ct = 1 then app else if ct = 2 then prop else commit,
                 framedContentAuthData (ct == 3)]) := by
  apply lawful_seq
  intro x hx
  simp only [List.mem_cons, List.not_mem_nil, or_false] at hx
  rcases hx with rfl | rfl
  · split
    · exact h1
    · split
      · exact h2
      · exact h3
  · exact framedContentAuthData_lawful _

/-- encode, append any amount of zero padding, decode: same value, padding left in the reader -/
theorem privateMessageContent_rt (app prop commit : Codec) (ct : Nat)
    (h1 : Lawful app) (h2 : Lawful prop) (h3 : Lawful commit) (v : Value) (b pad : Bytes)
    (hw : (privateMessageContent app prop commit ct).wf v = true)
    (he : (privateMessageContent app prop commit ct).enc v = .ok b)
    (hpad : pad.any (· != 0) = false) :
    (privateMessageContent app prop commit ct).dec (b ++ pad) = .ok (v, pad) :=
  zeroPadded_rt _ 5 (privateMessageContent_inner_lawful app prop commit ct h1 h2 h3) v b pad hw he
    hpad

/-- a non-zero byte after the content is rejected with `Custom(5)` -/
theorem privateMessageContent_rejects_nonzero_padding (app prop commit : Codec) (ct : Nat)
    (h1 : Lawful app) (h2 : Lawful prop) (h3 : Lawful commit) (v : Value) (b pad : Bytes)
    (hw : (privateMessageContent app prop commit ct).wf v = true)
    (he : (privateMessageContent app prop commit ct).enc v = .ok b)
    (hpad : pad.any (· != 0) = true) :
    (privateMessageContent app prop commit ct).dec (b ++ pad) = .error (.custom 5) :=
  zeroPadded_reject _ 5 (privateMessageContent_inner_lawful app prop commit ct h1 h2 h3) v b pad hw
    he hpad

theorem privateMessageContent_dwf (app prop commit : Codec) (ct : Nat)
    (h1 : Lawful app) (h2 : Lawful prop) (h3 : Lawful commit) (b : Bytes) (v : Value) (r : Bytes)
    (h : (privateMessageContent app prop commit ct).dec b = .ok (v, r)) :
    (privateMessageContent app prop commit ct).wf v = true ∧ (∃ x, b = x ++ r) ∧
      r.any (· != 0) = false :=
  zeroPadded_dwf _ 5 (privateMessageContent_inner_lawful app prop commit ct h1 h2 h3) b v r h

/-! ## SecretKeyRatchet -/

theorem secretKeyRatchet_lawful : Lawful secretKeyRatchet := by
  apply lawful_seq
  intro x hx
  simp only [List.mem_cons, List.not_mem_nil, or_false] at hx
  rcases hx with rfl | rfl | rfl
  · exact lawful_ofSchema _ (by decide)
  · exact lawful_ofSchema _ (by decide)
  · exact lawful_ratchetHistory

/-- `SecretKeyRatchet::mls_decode` ignores the result of `items.insert` (`secret_tree.rs:404`): two
history entries with the same generation are accepted and the first one is silently dropped, so the
decoder is not canonical (re-encoding gives a shorter string). -/
theorem ratchetHistory_duplicate_generation_accepted :
    ratchetHistory.dec [14, 1, 1, 0, 0, 0, 0, 7, 1, 2, 0, 0, 0, 0, 7]
      = .ok (.list [.tuple [.bytes [2], .bytes [], .nat 7]], []) ∧
    ratchetHistory.enc (.list [.tuple [.bytes [2], .bytes [], .nat 7]])
      = .ok [7, 1, 2, 0, 0, 0, 0, 7] := by
  refine ⟨?_, rfl⟩
  have hl : LoopRel (decode messageKeyDataSchema) [1, 1, 0, 0, 0, 0, 7, 1, 2, 0, 0, 0, 0, 7]
      [.tuple [.bytes [1], .bytes [], .nat 7], .tuple [.bytes [2], .bytes [], .nat 7]] :=
    .cons (rest := [1, 2, 0, 0, 0, 0, 7]) (by simp) rfl (by simp)
      (.cons (rest := []) (by simp) rfl (by simp) .nil)
  have hng := loopNG_of_rel (hf := messageKeyData_progress) (step := historyStep) hl []
    [(7, .tuple [.bytes [2], .bytes [], .nat 7])] rfl
  simp [ratchetHistory, decodeCollection, decodeSplit, decodeVarint, readVarint, countBytes?,
    splitN, hng]

/-! ## Non-vacuity: a complete public message -/

def exContent : Codec :=
  content bytesNewtype
    (proposal bytesNewtype bytesNewtype leafIndex bytesNewtype bytesNewtype bytesNewtype)
    (ofSchema (.struct [.vec (.u 1)]))

theorem exContent_lawful : Lawful exContent :=
  content_lawful _ _ _ bytesNewtype_lawful
    (proposal_lawful _ _ _ _ _ _ bytesNewtype_lawful bytesNewtype_lawful leafIndex_lawful
      bytesNewtype_lawful bytesNewtype_lawful bytesNewtype_lawful)
    (lawful_ofSchema _ (by decide))

/-- a commit from member 5 in epoch 2 of group `[9]`, with signature, confirmation tag and
membership tag -/
def exPublicMessage : Value :=
  .tuple [
    .tuple [.bytes [9], .nat 2, .variant 1 (some (.nat 5)), .bytes [],
            .variant 3 (some (.tuple [.list [.nat 1, .nat 2]]))],
    .tuple [.tuple [.tuple [.bytes [0xaa]], .some (.tuple [.bytes [0xbb]])],
            .some (.tuple [.bytes [0xcc]])]]

def exPublicMessageBytes : Bytes :=
  [1, 9, 0, 0, 0, 0, 0, 0, 0, 2, 1, 0, 0, 0, 5, 0, 3, 2, 1, 2, 1, 0xaa, 1, 0xbb, 1, 0xcc]

example : (publicMessage exContent).wf exPublicMessage = true := by decide
example : (publicMessage exContent).enc exPublicMessage = .ok exPublicMessageBytes := rfl
example : (publicMessage exContent).size exPublicMessage = 26 := by decide
example : (publicMessage exContent).dec (exPublicMessageBytes ++ []) = .ok (exPublicMessage, []) :=
  (publicMessage_lawful exContent exContent_lawful).rt _ _ [] (by decide) rfl
/-- a remove proposal (type 3) of leaf 2^24 inside a proposal message is rejected by `LeafIndex` -/
example : (proposal bytesNewtype bytesNewtype leafIndex bytesNewtype bytesNewtype bytesNewtype).dec
    [0, 3, 1, 0, 0, 0] = .error (.custom 6) := rfl

/-- proposal type 0 is rejected whatever follows; type 8 is the first custom type -/
example : (proposal bytesNewtype bytesNewtype leafIndex bytesNewtype bytesNewtype bytesNewtype).dec
    [0, 0, 0] = .error (.custom 2) := proposal_type0_rejected _ _ _ _ _ _ [0]
example : (proposal bytesNewtype bytesNewtype leafIndex bytesNewtype bytesNewtype bytesNewtype).dec
    ([0, 8, 1, 0xaa] ++ []) = .ok (.variant 8 (some (.bytes [0xaa])), []) :=
  (proposal_lawful _ _ _ _ _ _ bytesNewtype_lawful bytesNewtype_lawful leafIndex_lawful
    bytesNewtype_lawful bytesNewtype_lawful bytesNewtype_lawful).rt _ _ [] (by decide) rfl
/-- the hypotheses of `proposal_decoded_reencodes` are satisfiable -/
example (b : Bytes) (v : Value) (r : Bytes)
    (h : (proposal bytesNewtype bytesNewtype leafIndex bytesNewtype bytesNewtype bytesNewtype).dec b
      = .ok (v, r)) :
    ∃ c, (proposal bytesNewtype bytesNewtype leafIndex bytesNewtype bytesNewtype bytesNewtype).enc v
      = .ok c :=
  proposal_decoded_reencodes _ _ _ _ _ _ (reenc_ofSchema _ (by decide)) (reenc_ofSchema _ (by decide))
    (reenc_refine _ _ _ (reenc_ofSchema _ (by decide))) (reenc_ofSchema _ (by decide))
    (reenc_ofSchema _ (by decide)) (reenc_ofSchema _ (by decide)) b v r h

end MlsVerif.Props.C12Custom
